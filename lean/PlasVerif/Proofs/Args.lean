import PlasVerif.Spec.Calls
import PlasVerif.Proofs.Numbers
/-! Helper lemmas for the delimiting clause of C05 (`readToken`, `readCharacter`, `readGrouping`, the argument loop). -/
namespace PlasVerif.Proofs.Args
open PlasVerif.Model.Numbers PlasVerif.Model.Args PlasVerif.Spec.Calls PlasVerif.Proofs.Numbers

/-- scanning balanced content inside an open group: the level ends where `scan` says, nothing else is touched -/
theorem untilClose_scan (ts : List Tok) : ∀ (d d' : Nat) (r : List Tok), scan d ts = some d' →
    untilClose d (ts ++ r) = (ts ++ (untilClose d' r).1, (untilClose d' r).2) := by
  induction ts with
  | nil => intro d d' r h; simp [scan] at h; subst h; simp
  | cons t ts ih =>
    intro d d' r h
    by_cases hb : isBg t = true
    · simp only [scan, hb, if_true] at h
      simp [untilClose, hb, ih (d + 1) d' r h]
    · by_cases he : isEg t = true
      · simp only [scan, hb, he, if_true] at h
        cases d with
        | zero => simp at h
        | succ d0 =>
          simp only at h
          simp [untilClose, hb, he, ih d0 d' r h]
      · simp only [scan, hb, he] at h
        simp [untilClose, hb, he, ih d d' r h]

theorem untilEnd_scanP (b e : Nat) (ts : List Tok) : ∀ (d d' : Nat) (r : List Tok), scanP b e d ts = some d' →
    untilEnd b e d (ts ++ r) = (ts ++ (untilEnd b e d' r).1, (untilEnd b e d' r).2) := by
  induction ts with
  | nil => intro d d' r h; simp [scanP] at h; subst h; simp
  | cons t ts ih =>
    intro d d' r h
    by_cases hb : spells b t = true
    · simp only [scanP, hb, if_true] at h
      simp [untilEnd, hb, ih (d + 1) d' r h]
    · by_cases he : spells e t = true
      · simp only [scanP, hb, he, if_true] at h
        cases d with
        | zero => simp at h
        | succ d0 =>
          simp only at h
          simp [untilEnd, hb, he, ih d0 d' r h]
      · simp only [scanP, hb, he] at h
        simp [untilEnd, hb, he, ih d d' r h]

/-- `readToken` on a brace group with balanced content returns exactly the content and stops after the closing brace -/
theorem readToken_group (ts r : List Tok) (x y : Bool) (h : scan 0 ts = some 0) :
    readToken (.bg x :: (ts ++ .eg y :: r)) = (some ts, r) := by
  have := untilClose_scan ts 0 0 (.eg y :: r) h
  simp [readToken, isBg, this, untilClose, isEg]

/-- `readToken` on a single character takes that character only -/
theorem readToken_char (c : Nat) (r : List Tok) : readToken (.ch c :: r) = (some [.ch c], r) := by
  simp [readToken, isBg]

/-- `readCharacter` takes the expected character (the `*` modifier) and only it -/
theorem readCharacter_star (c : Nat) (r : List Tok) : readCharacter c (.ch c :: r) = (some [.ch c], r) := by
  simp [readCharacter, eqChar]

def opener (b : Nat) : Tok := if b = 123 then .bg false else .ch b
def closer (e : Nat) : Tok := if e = 125 then .eg false else .ch e

theorem spells_opener (b : Nat) : spells b (opener b) = true := by
  unfold opener; split <;> simp_all [spells]
theorem spells_closer (e : Nat) : spells e (closer e) = true := by
  unfold closer; split <;> simp_all [spells]
theorem not_spells_closer (b e : Nat) (h : b ≠ e) : spells b (closer e) = false := by
  unfold closer; split
  · simp [spells]; omega
  · simp [spells]; omega

/-- `readGrouping` on a bracket group whose content is balanced for that bracket pair returns exactly the content -/
theorem readGrouping_balanced (b e : Nat) (ts r : List Tok) (hbe : b ≠ e) (h : scanP b e 0 ts = some 0) :
    readGrouping b e (opener b :: (ts ++ closer e :: r)) = (some ts, r) := by
  have := untilEnd_scanP b e ts 0 0 (closer e :: r) h
  simp [readGrouping, spells_opener, this, untilEnd, spells_closer, not_spells_closer b e hbe]

theorem ros_idem (ts : List Tok) : readOptionalSpaces (readOptionalSpaces ts) = readOptionalSpaces ts := by
  induction ts with
  | nil => rfl
  | cons t ts ih =>
    by_cases h : t = .sp
    · simp [readOptionalSpaces, h, ih]
    · simp [readOptionalSpaces, h]

theorem delimitAll_ros (ss : List Spec) (ts : List Tok) (h : ss ≠ []) :
    delimitAll ss (readOptionalSpaces ts) = delimitAll ss ts := by
  cases ss with
  | nil => exact absurd rfl h
  | cons s ss => simp [delimitAll, ros_idem]

theorem ros_blanks (n : Nat) (t : Tok) (r : List Tok) (h : t ≠ .sp) :
    readOptionalSpaces (blanks n ++ t :: r) = t :: r := by
  induction n with
  | zero => simp [blanks, readOptionalSpaces, h]
  | succ n ih => simpa [blanks, List.replicate_succ, readOptionalSpaces] using ih


theorem isBare_iff (ts : List Tok) (h : isBare ts = true) : ∃ c, ts = [.ch c] := by
  unfold isBare at h
  split at h
  · exact ⟨_, rfl⟩
  · simp at h

theorem delimit_present (a : ArgCall) (ts X : List Tok) (hw : wfArg a = true) (hc : a.content = some ts) :
    delimit a.spec (readOptionalSpaces (renderArg a ++ X)) = (some ts, X) := by
  obtain ⟨spec, pre, content⟩ := a
  simp only at hc; subst hc
  cases spec with
  | tok =>
    simp only [wfArg, beq_iff_eq] at hw
    by_cases hb : isBare ts = true
    · obtain ⟨c, rfl⟩ := isBare_iff ts hb
      simp only [renderArg, hb, if_true, List.append_assoc, List.cons_append, List.nil_append]
      rw [ros_blanks _ _ _ (by simp)]
      simp [delimit, readToken_char]
    · simp only [renderArg, hb, Bool.false_eq_true, if_false, List.append_assoc, List.cons_append, List.nil_append]
      rw [ros_blanks _ _ _ (by simp)]
      simp only [delimit]
      exact readToken_group ts X false false hw
  | chr c =>
    simp only [wfArg, beq_iff_eq] at hw
    subst hw
    simp only [renderArg, List.append_assoc, List.cons_append, List.nil_append]
    rw [ros_blanks _ _ _ (by simp)]
    simp [delimit, readCharacter_star]
  | pair b e =>
    simp only [wfArg, Bool.and_eq_true, beq_iff_eq, bne_iff_ne, ne_eq] at hw
    have hren : renderArg ⟨.pair b e, pre, some ts⟩ ++ X = blanks pre ++ opener b :: (ts ++ closer e :: X) := by
      simp [renderArg, opener, closer]
    rw [hren, ros_blanks _ _ _ (by unfold opener; split <;> simp)]
    simp only [delimit]
    exact readGrouping_balanced b e ts X hw.1.1.2 hw.1.1.1

theorem delimit_absent_chr (c : Nat) (Y : List Tok) (h : headEq c Y = false) : delimit (.chr c) Y = (none, Y) := by
  cases Y with
  | nil => simp [delimit, readCharacter]
  | cons t ts => simp [headEq] at h; simp [delimit, readCharacter, h]

theorem delimit_absent_pair (b e : Nat) (Y : List Tok) (h : headSpells b Y = false) : delimit (.pair b e) Y = (none, Y) := by
  cases Y with
  | nil => simp [delimit, readGrouping]
  | cons t ts => simp [headSpells] at h; simp [delimit, readGrouping, h]

theorem endsAbsent_cons_cons (a a2 : ArgCall) (as : List ArgCall) : endsAbsent (a :: a2 :: as) = endsAbsent (a2 :: as) := rfl
theorem endsAbsent_single (a : ArgCall) : endsAbsent [a] = a.content.isNone := rfl

/-- the argument loop binds every position to what was written there, absent optional arguments to nothing,
    and leaves exactly what follows the call -/
theorem delimitAll_call (cs : List ArgCall) (rest : List Tok) (h : wfCall cs rest = true) :
    delimitAll (cs.map (·.spec)) (renderCall cs ++ rest) =
      (cs.map (·.content), if endsAbsent cs then readOptionalSpaces rest else rest) := by
  induction cs with
  | nil => simp [delimitAll, renderCall, endsAbsent]
  | cons a as ih =>
    simp only [wfCall, Bool.and_eq_true] at h
    obtain ⟨⟨hwa, hwas⟩, hab⟩ := h
    have ih' := ih hwas
    simp only [List.map_cons, delimitAll, renderCall, List.append_assoc]
    cases hc : a.content with
    | some ts =>
      rw [delimit_present a ts _ hwa hc]
      simp only [ih']
      cases as with
      | nil => simp [endsAbsent_single, hc, endsAbsent]
      | cons a2 as2 => rw [endsAbsent_cons_cons]
    | none =>
      have hren : renderArg a = [] := by simp [renderArg, hc]
      have habs : delimit a.spec (readOptionalSpaces (renderCall as ++ rest)) = (none, readOptionalSpaces (renderCall as ++ rest)) := by
        rw [hc] at hab
        cases hs : a.spec with
        | tok => simp [wfArg, hs, hc] at hwa
        | chr c => rw [hs] at hab; exact delimit_absent_chr c _ (by simpa using hab)
        | pair b e => rw [hs] at hab; exact delimit_absent_pair b e _ (by simpa using hab)
      rw [hren, List.nil_append, habs]
      cases as with
      | nil => simp [delimitAll, renderCall, endsAbsent_single, hc]
      | cons a2 as2 =>
        rw [delimitAll_ros _ _ (by simp), ih', endsAbsent_cons_cons]

end PlasVerif.Proofs.Args
