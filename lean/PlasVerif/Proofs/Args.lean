import PlasVerif.Spec.Calls
import PlasVerif.Proofs.Numbers
/-! Helper lemmas for the delimiting clause of C05 (`readToken`, `readCharacter`, `readGrouping`, the argument loop). -/
namespace PlasVerif.Proofs.Args
open PlasVerif.Model.Numbers PlasVerif.Model.Args PlasVerif.Spec.Calls PlasVerif.Proofs.Numbers

/-- scanning balanced content inside an open group: the level ends where `scan` says, nothing else is touched -/
theorem untilClose_scan (ts : List Tok) : ∀ (d d' : Nat) (r : List Tok), scan d ts = some d' →
    untilClose d (ts ++ r) = (ts ++ (untilClose d' r).1, (untilClose d' r).2) := by
  induction ts with
  | nil => intro d d' r h; simp [scan] at h; subst h; simp
  | cons t ts ih =>
    intro d d' r h
    by_cases hb : isBg t = true
    · simp only [scan, hb, if_true] at h
      simp [untilClose, hb, ih (d + 1) d' r h]
    · by_cases he : isEg t = true
      · simp only [scan, hb, he, if_true] at h
        cases d with
        | zero => simp at h
        | succ d0 =>
          simp only at h
          simp [untilClose, hb, he, ih d0 d' r h]
      · simp only [scan, hb, he] at h
        simp [untilClose, hb, he, ih d d' r h]

theorem untilEnd_scanP (b e : Nat) (ts : List Tok) : ∀ (d d' : Nat) (r : List Tok), scanP b e d ts = some d' →
    untilEnd b e d (ts ++ r) = (ts ++ (untilEnd b e d' r).1, (untilEnd b e d' r).2) := by
  induction ts with
  | nil => intro d d' r h; simp [scanP] at h; subst h; simp
  | cons t ts ih =>
    intro d d' r h
    by_cases hb : spells b t = true
    · simp only [scanP, hb, if_true] at h
      simp [untilEnd, hb, ih (d + 1) d' r h]
    · by_cases he : spells e t = true
      · simp only [scanP, hb, he, if_true] at h
        cases d with
        | zero => simp at h
        | succ d0 =>
          simp only at h
          simp [untilEnd, hb, he, ih d0 d' r h]
      · simp only [scanP, hb, he] at h
        simp [untilEnd, hb, he, ih d d' r h]

/-- `readToken` on a brace group with balanced content returns exactly the content and stops after the closing brace -/
theorem readToken_group (ts r : List Tok) (x y : Bool) (h : scan 0 ts = some 0) :
    readToken (.bg x :: (ts ++ .eg y :: r)) = (some ts, r) := by
  have := untilClose_scan ts 0 0 (.eg y :: r) h
  simp [readToken, isBg, this, untilClose, isEg]

/-- `readToken` on a single character takes that character only -/
theorem readToken_char (c : Nat) (r : List Tok) : readToken (.ch c :: r) = (some [.ch c], r) := by
  simp [readToken, isBg]

/-- `readCharacter` takes the expected character (the `*` modifier) and only it -/
theorem readCharacter_star (c : Nat) (r : List Tok) : readCharacter c (.ch c :: r) = (some [.ch c], r) := by
  simp [readCharacter, eqChar]

def opener (b : Nat) : Tok := if b = 123 then .bg false else .ch b
def closer (e : Nat) : Tok := if e = 125 then .eg false else .ch e

theorem spells_opener (b : Nat) : spells b (opener b) = true := by
  unfold opener; split <;> simp_all [spells]
theorem spells_closer (e : Nat) : spells e (closer e) = true := by
  unfold closer; split <;> simp_all [spells]
theorem not_spells_closer (b e : Nat) (h : b ≠ e) : spells b (closer e) = false := by
  unfold closer; split
  · simp [spells]; omega
  · simp [spells]; omega

/-- `readGrouping` on a bracket group whose content is balanced for that bracket pair returns exactly the content -/
theorem readGrouping_balanced (b e : Nat) (ts r : List Tok) (hbe : b ≠ e) (h : scanP b e 0 ts = some 0) :
    readGrouping b e (opener b :: (ts ++ closer e :: r)) = (some ts, r) := by
  have := untilEnd_scanP b e ts 0 0 (closer e :: r) h
  simp [readGrouping, spells_opener, this, untilEnd, spells_closer, not_spells_closer b e hbe]

theorem ros_idem (ts : List Tok) : readOptionalSpaces (readOptionalSpaces ts) = readOptionalSpaces ts := by
  induction ts with
  | nil => rfl
  | cons t ts ih =>
    by_cases h : t = .sp
    · simp [readOptionalSpaces, h, ih]
    · simp [readOptionalSpaces, h]

theorem delimitAll_ros (ss : List Spec) (ts : List Tok) (h : ss ≠ []) :
    delimitAll ss (readOptionalSpaces ts) = delimitAll ss ts := by
  cases ss with
  | nil => exact absurd rfl h
  | cons s ss => simp [delimitAll, ros_idem]

theorem ros_blanks (n : Nat) (t : Tok) (r : List Tok) (h : t ≠ .sp) :
    readOptionalSpaces (blanks n ++ t :: r) = t :: r := by
  induction n with
  | zero => simp [blanks, readOptionalSpaces, h]
  | succ n ih => simpa [blanks, List.replicate_succ, readOptionalSpaces] using ih


theorem isBare_iff (ts : List Tok) (h : isBare ts = true) :
    ∃ t, ts = [t] ∧ t ≠ .sp ∧ isBg t = false := by
  unfold isBare at h
  split at h
  · exact ⟨_, rfl, by simp, rfl⟩
  · exact ⟨_, rfl, by simp, rfl⟩
  · simp at h

/-- `readToken` on a single token that is not an opening brace takes that token only -/
theorem readToken_single (t : Tok) (r : List Tok) (h : isBg t = false) : readToken (t :: r) = (some [t], r) := by
  simp [readToken, h]

theorem delimit_present (a : ArgCall) (ts X : List Tok) (hw : wfArg a = true) (hc : a.content = some ts) :
    delimit a.spec (readOptionalSpaces (renderArg a ++ X)) = (some ts, X) := by
  obtain ⟨spec, pre, content⟩ := a
  simp only at hc; subst hc
  cases spec with
  | tok =>
    simp only [wfArg, beq_iff_eq] at hw
    by_cases hb : isBare ts = true
    · obtain ⟨t, rfl, hsp, hbg⟩ := isBare_iff ts hb
      simp only [renderArg, hb, if_true, List.append_assoc, List.cons_append, List.nil_append]
      rw [ros_blanks _ _ _ hsp]
      simp [delimit, readToken_single t X hbg]
    · simp only [renderArg, hb, Bool.false_eq_true, if_false, List.append_assoc, List.cons_append, List.nil_append]
      rw [ros_blanks _ _ _ (by simp)]
      simp only [delimit]
      exact readToken_group ts X false false hw
  | chr c =>
    simp only [wfArg, beq_iff_eq] at hw
    subst hw
    simp only [renderArg, List.append_assoc, List.cons_append, List.nil_append]
    rw [ros_blanks _ _ _ (by simp)]
    simp [delimit, readCharacter_star]
  | pair b e =>
    simp only [wfArg, Bool.and_eq_true, beq_iff_eq, bne_iff_ne, ne_eq] at hw
    have hren : renderArg ⟨.pair b e, pre, some ts⟩ ++ X = blanks pre ++ opener b :: (ts ++ closer e :: X) := by
      simp [renderArg, opener, closer]
    rw [hren, ros_blanks _ _ _ (by unfold opener; split <;> simp)]
    simp only [delimit]
    exact readGrouping_balanced b e ts X hw.1.1.2 hw.1.1.1

theorem delimit_absent_chr (c : Nat) (Y : List Tok) (h : headEq c Y = false) : delimit (.chr c) Y = (none, Y) := by
  cases Y with
  | nil => simp [delimit, readCharacter]
  | cons t ts => simp [headEq] at h; simp [delimit, readCharacter, h]

theorem delimit_absent_pair (b e : Nat) (Y : List Tok) (h : headSpells b Y = false) : delimit (.pair b e) Y = (none, Y) := by
  cases Y with
  | nil => simp [delimit, readGrouping]
  | cons t ts => simp [headSpells] at h; simp [delimit, readGrouping, h]

theorem endsAbsent_cons_cons (a a2 : ArgCall) (as : List ArgCall) : endsAbsent (a :: a2 :: as) = endsAbsent (a2 :: as) := rfl
theorem endsAbsent_single (a : ArgCall) : endsAbsent [a] = a.content.isNone := rfl

/-- the argument loop binds every position to what was written there, absent optional arguments to nothing,
    and leaves exactly what follows the call -/
theorem delimitAll_call (cs : List ArgCall) (rest : List Tok) (h : wfCall cs rest = true) :
    delimitAll (cs.map (·.spec)) (renderCall cs ++ rest) =
      (cs.map (·.content), if endsAbsent cs then readOptionalSpaces rest else rest) := by
  induction cs with
  | nil => simp [delimitAll, renderCall, endsAbsent]
  | cons a as ih =>
    simp only [wfCall, Bool.and_eq_true] at h
    obtain ⟨⟨hwa, hwas⟩, hab⟩ := h
    have ih' := ih hwas
    simp only [List.map_cons, delimitAll, renderCall, List.append_assoc]
    cases hc : a.content with
    | some ts =>
      rw [delimit_present a ts _ hwa hc]
      simp only [ih']
      cases as with
      | nil => simp [endsAbsent_single, hc, endsAbsent]
      | cons a2 as2 => rw [endsAbsent_cons_cons]
    | none =>
      have hren : renderArg a = [] := by simp [renderArg, hc]
      have habs : delimit a.spec (readOptionalSpaces (renderCall as ++ rest)) = (none, readOptionalSpaces (renderCall as ++ rest)) := by
        rw [hc] at hab
        cases hs : a.spec with
        | tok => simp [wfArg, hs, hc] at hwa
        | chr c => rw [hs] at hab; exact delimit_absent_chr c _ (by simpa using hab)
        | pair b e => rw [hs] at hab; exact delimit_absent_pair b e _ (by simpa using hab)
      rw [hren, List.nil_append, habs]
      cases as with
      | nil => simp [delimitAll, renderCall, endsAbsent_single, hc]
      | cons a2 as2 =>
        rw [delimitAll_ros _ _ (by simp), ih', endsAbsent_cons_cons]


/-! ### the whole of `Macro.parse`: delimit, then cast -/

/-- the types whose argument is first delimited by its spec and then cast (all but the TeX-style scanner types and `Tok`) -/
def delimTy : Ty → Bool
  | .tNumber | .tDimen | .tGlue | .token => false
  | _ => true

/-- the cast of these tokens for this argument yields `v` and leaves the stream alone -/
def CastsTo (a : Arg) (toks : List Tok) (v : Val) : Prop := ∀ r, cast a toks r = .ok (v, r)

theorem readArgument_absent (a : Arg) (ts0 r : List Tok) (h : delimTy a.ty = true)
    (hd : delimit a.spec (readOptionalSpaces ts0) = (none, r)) :
    readArgument a ts0 = .ok (.absent, some [], r) := by
  unfold readArgument
  cases hty : a.ty <;> simp_all [delimTy]

theorem readArgument_present (a : Arg) (ts0 toks r r' : List Tok) (v : Val) (h : delimTy a.ty = true)
    (hd : delimit a.spec (readOptionalSpaces ts0) = (some toks, r)) (hc : cast a toks r = .ok (v, r')) :
    readArgument a ts0 =
      .ok (v, some ((readOptionalSpaces ts0).take ((readOptionalSpaces ts0).length - r.length)), r') := by
  unfold readArgument
  cases hty : a.ty <;> simp_all [delimTy]

theorem readArgument_present' (a : Arg) (ts0 toks r r' : List Tok) (v : Val) (h : delimTy a.ty = true)
    (hd : delimit a.spec (readOptionalSpaces ts0) = (some toks, r)) (hc : cast a toks r = .ok (v, r')) :
    ∃ s, readArgument a ts0 = .ok (v, s, r') := ⟨_, readArgument_present a ts0 toks r r' v h hd hc⟩

theorem readArgument_ros (a : Arg) (ts : List Tok) : readArgument a (readOptionalSpaces ts) = readArgument a ts := by
  simp only [readArgument, ros_idem]

theorem parse_ros (as : List Arg) (ts : List Tok) (h : as ≠ []) : parse as (readOptionalSpaces ts) = parse as ts := by
  cases as with
  | nil => exact absurd rfl h
  | cons a as => simp only [parse, readArgument_ros]

/-- one declared argument together with what the call writes for it and the value it must be bound to -/
structure Bound where
  arg : Arg
  call : ArgCall
  val : Val

def Bound.ok (b : Bound) : Prop :=
  b.arg.spec = b.call.spec ∧ delimTy b.arg.ty = true ∧
  (match b.call.content with
   | none => b.val = .absent
   | some toks => CastsTo b.arg toks b.val)

/-- **`Macro.parse` binds every declared argument exactly once, in order, to the cast of what the call writes at its
    position** (absent optional arguments to nothing), and leaves exactly what follows the call. -/
theorem parse_binds (bs : List Bound) (rest : List Tok) (hb : ∀ b ∈ bs, b.ok)
    (hw : wfCall (bs.map (·.call)) rest = true) :
    ∃ srcs, parse (bs.map (·.arg)) (renderCall (bs.map (·.call)) ++ rest) =
      .ok (bs.map (·.val), srcs,
           if endsAbsent (bs.map (·.call)) then readOptionalSpaces rest else rest) ∧ srcs.length = bs.length := by
  induction bs with
  | nil => exact ⟨[], by simp [parse, renderCall, endsAbsent], rfl⟩
  | cons b bs ih =>
    obtain ⟨hspec, hty, hval⟩ := hb b (List.mem_cons_self)
    simp only [List.map_cons, wfCall, Bool.and_eq_true] at hw
    obtain ⟨⟨hwa, hwas⟩, hab⟩ := hw
    obtain ⟨srcs, ih', hlen⟩ := ih (fun x hx => hb x (List.mem_cons_of_mem _ hx)) hwas
    simp only [List.map_cons, parse, renderCall, List.append_assoc]
    cases hc : b.call.content with
    | some toks =>
      rw [hc] at hval
      obtain ⟨s0, hs0⟩ := readArgument_present' b.arg (renderArg b.call ++ (renderCall (bs.map (·.call)) ++ rest)) toks _ _ b.val hty
        (by rw [hspec]; exact delimit_present b.call toks _ hwa hc) (hval _)
      rw [hs0]
      simp only [ih']
      refine ⟨s0 :: srcs, ?_, ?_⟩
      · cases hbs : bs.map (·.call) with
        | nil => simp [endsAbsent_single, hc, endsAbsent]
        | cons a2 as2 => rw [endsAbsent_cons_cons]
      · simp [hlen]
    | none =>
      rw [hc] at hval
      have hren : renderArg b.call = [] := by simp [renderArg, hc]
      have habs : delimit b.call.spec (readOptionalSpaces (renderCall (bs.map (·.call)) ++ rest)) =
          (none, readOptionalSpaces (renderCall (bs.map (·.call)) ++ rest)) := by
        rw [hc] at hab
        cases hs : b.call.spec with
        | tok => simp [wfArg, hs, hc] at hwa
        | chr c => rw [hs] at hab; exact delimit_absent_chr c _ (by simpa using hab)
        | pair bb e => rw [hs] at hab; exact delimit_absent_pair bb e _ (by simpa using hab)
      rw [hren, List.nil_append, readArgument_absent b.arg _ _ hty (by rw [hspec]; exact habs)]
      simp only [hval]
      cases hbs : bs with
      | nil =>
        subst hbs
        refine ⟨[some []], ?_, rfl⟩
        simp [parse, renderCall, endsAbsent_single, hc]
      | cons b2 bs2 =>
        subst hbs
        rw [parse_ros _ _ (by simp)]
        simp only [List.map_cons] at ih' ⊢
        rw [ih']
        refine ⟨some [] :: srcs, ?_, ?_⟩
        · rw [endsAbsent_cons_cons]
        · simp [hlen]


theorem renderArg_body (a : ArgCall) : renderArg a = (match a.content with | none => [] | some _ => blanks a.pre) ++ argBody a := by
  obtain ⟨spec, pre, content⟩ := a
  cases content with
  | none => simp [renderArg, argBody]
  | some ts => simp [renderArg, argBody, blanks]

theorem argBody_head (a : ArgCall) (ts : List Tok) (hw : wfArg a = true) (hc : a.content = some ts) :
    ∃ t r, argBody a = t :: r ∧ t ≠ .sp := by
  obtain ⟨spec, pre, content⟩ := a
  simp only at hc; subst hc
  cases spec with
  | tok =>
    by_cases hb : isBare ts = true
    · obtain ⟨t, rfl, hsp, _⟩ := isBare_iff ts hb
      exact ⟨t, [], by simp [argBody, renderArg, hb, blanks], hsp⟩
    · exact ⟨.bg false, ts ++ [.eg false], by simp [argBody, renderArg, hb, blanks], by simp⟩
  | chr c =>
    simp only [wfArg, beq_iff_eq] at hw
    subst hw
    exact ⟨.ch c, [], by simp [argBody, renderArg, blanks], by simp⟩
  | pair b e =>
    refine ⟨if b = 123 then Tok.bg false else .ch b, ts ++ [if e = 125 then Tok.eg false else .ch e],
      by simp [argBody, renderArg, blanks], ?_⟩
    split <;> simp

theorem ros_renderArg (a : ArgCall) (ts X : List Tok) (hw : wfArg a = true) (hc : a.content = some ts) :
    readOptionalSpaces (renderArg a ++ X) = argBody a ++ X := by
  obtain ⟨t, r, hb, hsp⟩ := argBody_head a ts hw hc
  rw [renderArg_body, hc, hb]
  simp only [List.append_assoc, List.cons_append]
  exact ros_blanks _ _ _ hsp

/-- **`Macro.parse` with the recorded source.** As `parse_binds`, and the source pieces the invocation records
    (`argSource`) are, argument by argument, exactly the text written for it (nothing for an absent optional argument),
    without the blanks in front. -/
theorem parse_binds_src (bs : List Bound) (rest : List Tok) (hb : ∀ b ∈ bs, b.ok)
    (hw : wfCall (bs.map (·.call)) rest = true) :
    parse (bs.map (·.arg)) (renderCall (bs.map (·.call)) ++ rest) =
      .ok (bs.map (·.val), bs.map (fun b => some (argBody b.call)),
           if endsAbsent (bs.map (·.call)) then readOptionalSpaces rest else rest) := by
  induction bs with
  | nil => simp [parse, renderCall, endsAbsent]
  | cons b bs ih =>
    obtain ⟨hspec, hty, hval⟩ := hb b (List.mem_cons_self)
    simp only [List.map_cons, wfCall, Bool.and_eq_true] at hw
    obtain ⟨⟨hwa, hwas⟩, hab⟩ := hw
    have ih' := ih (fun x hx => hb x (List.mem_cons_of_mem _ hx)) hwas
    simp only [List.map_cons, parse, renderCall, List.append_assoc]
    cases hc : b.call.content with
    | some toks =>
      rw [hc] at hval
      have hpres := readArgument_present b.arg (renderArg b.call ++ (renderCall (bs.map (·.call)) ++ rest)) toks _ _ b.val hty
        (by rw [hspec]; exact delimit_present b.call toks _ hwa hc) (hval _)
      rw [ros_renderArg b.call toks _ hwa hc] at hpres
      have htake : List.take ((argBody b.call ++ (renderCall (bs.map (·.call)) ++ rest)).length -
          (renderCall (bs.map (·.call)) ++ rest).length) (argBody b.call ++ (renderCall (bs.map (·.call)) ++ rest)) = argBody b.call := by
        rw [List.length_append, Nat.add_sub_cancel]; simp
      rw [htake] at hpres
      rw [hpres]
      simp only [ih']
      cases hbs : bs.map (·.call) with
      | nil => simp [endsAbsent_single, hc, endsAbsent]
      | cons a2 as2 => rw [endsAbsent_cons_cons]
    | none =>
      rw [hc] at hval
      have hren : renderArg b.call = [] := by simp [renderArg, hc]
      have hbody : argBody b.call = [] := by simp [argBody, renderArg, hc]
      have habs : delimit b.call.spec (readOptionalSpaces (renderCall (bs.map (·.call)) ++ rest)) =
          (none, readOptionalSpaces (renderCall (bs.map (·.call)) ++ rest)) := by
        rw [hc] at hab
        cases hs : b.call.spec with
        | tok => simp [wfArg, hs, hc] at hwa
        | chr c => rw [hs] at hab; exact delimit_absent_chr c _ (by simpa using hab)
        | pair bb e => rw [hs] at hab; exact delimit_absent_pair bb e _ (by simpa using hab)
      rw [hren, List.nil_append, readArgument_absent b.arg _ _ hty (by rw [hspec]; exact habs)]
      simp only [hval, hbody]
      cases hbs : bs with
      | nil =>
        subst hbs
        simp [parse, renderCall, endsAbsent_single, hc]
      | cons b2 bs2 =>
        subst hbs
        rw [parse_ros _ _ (by simp)]
        simp only [List.map_cons] at ih' ⊢
        rw [ih', endsAbsent_cons_cons]

/-- the recorded `argSource` is the call as written without the blanks between the arguments -/
theorem sources_flatten (cs : List ArgCall) : ((cs.map (fun c => some (argBody c))).filterMap id).flatten = callSource cs := by
  induction cs with
  | nil => rfl
  | cons c cs ih =>
    simp only [List.map_cons, List.filterMap_cons, id, List.flatten_cons, callSource]
    rw [ih]

theorem parse_append (as bs : List Arg) : ∀ (ts r r' : List Tok) (vs vs' : List Val) (ss ss' : List (Option (List Tok))),
    parse as ts = .ok (vs, ss, r) → parse bs r = .ok (vs', ss', r') →
    parse (as ++ bs) ts = .ok (vs ++ vs', ss ++ ss', r') := by
  induction as with
  | nil =>
    intro ts r r' vs vs' ss ss' h1 h2
    simp only [parse, Except.ok.injEq, Prod.mk.injEq] at h1
    obtain ⟨rfl, rfl, rfl⟩ := h1
    simpa using h2
  | cons a as ih =>
    intro ts r r' vs vs' ss ss' h1 h2
    simp only [parse] at h1
    cases hra : readArgument a ts with
    | error e => simp [hra] at h1
    | ok x =>
      obtain ⟨v, s, r1⟩ := x
      simp only [hra] at h1
      cases hp : parse as r1 with
      | error e => simp [hp] at h1
      | ok y =>
        obtain ⟨vs1, ss1, r2⟩ := y
        simp only [hp, Except.ok.injEq, Prod.mk.injEq] at h1
        obtain ⟨rfl, rfl, rfl⟩ := h1
        have := ih r1 r2 r' vs1 vs' ss1 ss' hp h2
        simp [parse, hra, this]

/-- the argument loop with one more argument of any type (e.g. a TeX-style scanner type) in last position -/
theorem parse_binds_last (bs : List Bound) (a : Arg) (tail r' : List Tok) (v : Val) (s : Option (List Tok))
    (hb : ∀ b ∈ bs, b.ok) (hw : wfCall (bs.map (·.call)) tail = true)
    (hlast : readArgument a tail = .ok (v, s, r')) :
    ∃ srcs, parse (bs.map (·.arg) ++ [a]) (renderCall (bs.map (·.call)) ++ tail) =
      .ok (bs.map (·.val) ++ [v], srcs ++ [s], r') ∧ srcs.length = bs.length := by
  obtain ⟨srcs, hp, hlen⟩ := parse_binds bs tail hb hw
  refine ⟨srcs, ?_, hlen⟩
  apply parse_append _ _ _ _ _ _ _ _ _ hp
  have : readArgument a (if endsAbsent (bs.map (·.call)) then readOptionalSpaces tail else tail) = .ok (v, s, r') := by
    split
    · rw [readArgument_ros]; exact hlast
    · exact hlast
  simp [parse, this]

end PlasVerif.Proofs.Args
