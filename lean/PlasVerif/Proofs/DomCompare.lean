import PlasVerif.Proofs.Dom
/-! `_compareDocumentPosition` of the heap model: the ancestor chains, and the double loop that finds the lowest
common ancestor and compares the two branches below it. -/
namespace PlasVerif.Proofs.DomCompare
open PlasVerif.Model.Dom PlasVerif.Proofs.Dom

/-! ### the parent chain of a node -/

/-- `l` is `a :: parent a :: … :: root` -/
inductive UpChain (h : Heap) : Id → List Id → Prop
  | root (a : Id) (hp : h.parent a = none) : UpChain h a [a]
  | step (a p : Id) (l : List Id) (hp : h.parent a = some p) (hl : UpChain h p l) : UpChain h a (a :: l)

theorem UpChain.head {h : Heap} {a : Id} {l : List Id} (hc : UpChain h a l) : ∃ t, l = a :: t := by
  cases hc with
  | root => exact ⟨[], rfl⟩
  | step _ p l' _ _ => exact ⟨l', rfl⟩

theorem UpChain.det {h : Heap} {a : Id} {l1 l2 : List Id} (h1 : UpChain h a l1) (h2 : UpChain h a l2) : l1 = l2 := by
  induction h1 generalizing l2 with
  | root a hp =>
    cases h2 with
    | root => rfl
    | step _ p l hp' _ => rw [hp] at hp'; cases hp'
  | step a p l hp _ ih =>
    cases h2 with
    | root _ hp' => rw [hp] at hp'; cases hp'
    | step _ p' l' hp' hl' =>
      rw [hp] at hp'; cases hp'
      rw [ih hl']

/-- every suffix of a chain that starts at `u` is the chain of `u` -/
theorem UpChain.suffix {h : Heap} {a : Id} {l : List Id} (hc : UpChain h a l) {u : Id} (hu : u ∈ l) :
    ∃ l', UpChain h u l' ∧ l'.length ≤ l.length := by
  induction hc with
  | root a hp =>
    simp only [List.mem_singleton] at hu; subst hu
    exact ⟨[u], .root u hp, Nat.le_refl _⟩
  | step a p l hp hl ih =>
    rcases List.mem_cons.mp hu with e | hm
    · subst e; exact ⟨u :: l, .step u p l hp hl, Nat.le_refl _⟩
    · obtain ⟨l', h1, h2⟩ := ih hm
      exact ⟨l', h1, Nat.le_trans h2 (Nat.le_succ _)⟩

theorem UpChain.nodup {h : Heap} {a : Id} {l : List Id} (hc : UpChain h a l) : l.Nodup := by
  induction hc with
  | root a _ => simp
  | step a p l hp hl ih =>
    refine List.nodup_cons.mpr ⟨?_, ih⟩
    intro hm
    obtain ⟨l', h1, h2⟩ := hl.suffix hm
    have := h1.det (.step a p l hp hl)
    rw [this] at h2
    simp at h2
    omega

/-- `chainUp` computes the chain (root first) unless it meets `stop` -/
theorem chainUp_complete {h : Heap} {a : Id} {l : List Id} (hc : UpChain h a l) (stop : Id) (hs : stop ∉ l) :
    ∀ (fuel : Nat) (acc : List Id), l.length ≤ fuel → chainUp fuel h a stop acc = some (l.reverse ++ acc) := by
  induction hc with
  | root a hp =>
    intro fuel acc hf
    obtain ⟨f, rfl⟩ : ∃ f, fuel = f + 1 := ⟨fuel - 1, by simp at hf; omega⟩
    have : a ≠ stop := fun e => hs (by simp [e])
    simp [chainUp, this, hp]
  | step a p l hp hl ih =>
    intro fuel acc hf
    obtain ⟨f, rfl⟩ : ∃ f, fuel = f + 1 := ⟨fuel - 1, by simp at hf; omega⟩
    have : a ≠ stop := fun e => hs (by simp [e])
    simp only [chainUp, this, if_false, hp]
    rw [ih (fun hm => hs (by simp [hm])) f (a :: acc) (by simp at hf; omega)]
    simp

theorem chainUp_hits {h : Heap} {a : Id} {l : List Id} (hc : UpChain h a l) (stop : Id) (hs : stop ∈ l) :
    ∀ (fuel : Nat) (acc : List Id), l.length ≤ fuel → chainUp fuel h a stop acc = none := by
  induction hc with
  | root a hp =>
    intro fuel acc hf
    obtain ⟨f, rfl⟩ : ∃ f, fuel = f + 1 := ⟨fuel - 1, by simp at hf; omega⟩
    simp only [List.mem_singleton] at hs
    simp [chainUp, hs]
  | step a p l hp hl ih =>
    intro fuel acc hf
    obtain ⟨f, rfl⟩ : ∃ f, fuel = f + 1 := ⟨fuel - 1, by simp at hf; omega⟩
    by_cases e : a = stop
    · simp [chainUp, e]
    · have hm : stop ∈ l := by
        rcases List.mem_cons.mp hs with e' | hm
        · exact absurd e'.symm e
        · exact hm
      simp only [chainUp, e, if_false, hp]
      exact ih hm f (a :: acc) (by simp at hf; omega)

/-! ### the double loop -/

theorem inner_cons (h : Heap) (sp op : List Id) (i : Nat) (x : Id) (j : Nat) (y : Id) (ys : List Id) :
    cmpLoop.outer.inner h sp op i x j (y :: ys) =
      if x = y then
        match sp[i + 1]?, op[j + 1]? with
        | some s, some o =>
          if s = o then cmpLoop.outer.inner h sp op i x (j + 1) ys
          else match scanItems (childList h x) s o with
            | some r => some r
            | none => cmpLoop.outer.inner h sp op i x (j + 1) ys
        | _, _ => some 99
      else cmpLoop.outer.inner h sp op i x (j + 1) ys := by
  rw [cmpLoop.outer.inner]
  rfl

theorem inner_absent (h : Heap) (sp op : List Id) (i : Nat) (x : Id) :
    ∀ (r2 : List Id) (j : Nat), x ∉ r2 → cmpLoop.outer.inner h sp op i x j r2 = none := by
  intro r2
  induction r2 with
  | nil => intro j _; rw [cmpLoop.outer.inner]
  | cons y ys ih =>
    intro j hx
    have hxy : x ≠ y := fun e => hx (by simp [e])
    rw [inner_cons, if_neg hxy]
    exact ih (j + 1) (fun hm => hx (by simp [hm]))

theorem drop_tail {op : List Id} {j : Nat} {y : Id} {ys : List Id} (hd : op.drop j = y :: ys) : op.drop (j + 1) = ys := by
  have := congrArg List.tail hd
  simpa [List.tail_drop] using this

theorem drop_get_succ {op : List Id} {j : Nat} {x : Id} {post : List Id} (hd : op.drop j = x :: post) :
    op[j + 1]? = post.head? := by
  have h1 : op.drop (j + 1) = post := drop_tail hd
  have : (op.drop (j + 1))[0]? = op[j + 1]? := by simp [List.getElem?_drop]
  rw [← this, h1]; cases post <;> simp

/-- the ancestor `x` is common, and so is the next one: the loop goes on and finds no other match -/
theorem inner_same (h : Heap) (sp op : List Id) (i : Nat) (x s : Id) (post : List Id)
    (hs : sp[i + 1]? = some s) (hp : post.head? = some s) (hxp : x ∉ post) :
    ∀ (pre : List Id) (j : Nat), x ∉ pre → op.drop j = pre ++ x :: post →
      cmpLoop.outer.inner h sp op i x j (pre ++ x :: post) = none := by
  intro pre
  induction pre with
  | nil =>
    intro j _ hd
    simp only [List.nil_append] at hd ⊢
    rw [inner_cons, if_pos rfl, hs, drop_get_succ hd, hp]
    simp only [if_true]
    exact inner_absent h sp op i x post (j + 1) hxp
  | cons a pre ih =>
    intro j hx hd
    have hxa : x ≠ a := fun e => hx (by simp [e])
    simp only [List.cons_append] at hd ⊢
    rw [inner_cons, if_neg hxa]
    exact ih (j + 1) (fun hm => hx (by simp [hm])) (drop_tail hd)

/-- the lowest common ancestor `x`: the two chains continue with different children `s`, `o` -/
theorem inner_split (h : Heap) (sp op : List Id) (i : Nat) (x s o : Id) (post : List Id) (r : Nat)
    (hs : sp[i + 1]? = some s) (hp : post.head? = some o) (hso : s ≠ o)
    (hr : scanItems (childList h x) s o = some r) :
    ∀ (pre : List Id) (j : Nat), x ∉ pre → op.drop j = pre ++ x :: post →
      cmpLoop.outer.inner h sp op i x j (pre ++ x :: post) = some r := by
  intro pre
  induction pre with
  | nil =>
    intro j _ hd
    simp only [List.nil_append] at hd ⊢
    rw [inner_cons, if_pos rfl, hs, drop_get_succ hd, hp]
    simp only [hso, if_false, hr]
  | cons a pre ih =>
    intro j hx hd
    have hxa : x ≠ a := fun e => hx (by simp [e])
    simp only [List.cons_append] at hd ⊢
    rw [inner_cons, if_neg hxa]
    exact ih (j + 1) (fun hm => hx (by simp [hm])) (drop_tail hd)

theorem outer_cons (h : Heap) (sp op : List Id) (i : Nat) (x : Id) (xs : List Id) :
    cmpLoop.outer h sp op i (x :: xs) =
      match cmpLoop.outer.inner h sp op i x 0 op with
      | some r => r
      | none => cmpLoop.outer h sp op (i + 1) xs := by
  rw [cmpLoop.outer]
  rfl

/-- **the double loop**: two root-first chains with the common part `P ++ [p]` that continue with different
    children `x`, `y` of `p`: the answer is what scanning the children of `p` for `x` and `y` gives -/
theorem cmpLoop_split (h : Heap) (P : List Id) (p x y : Id) (A B : List Id) (r : Nat)
    (hnd : (P ++ p :: y :: B).Nodup) (hxy : x ≠ y) (hr : scanItems (childList h p) x y = some r) :
    cmpLoop h (P ++ p :: x :: A) (P ++ p :: y :: B) = r := by
  -- generalised over the part of the common prefix already passed
  have key : ∀ (Q R : List Id), P = Q ++ R →
      cmpLoop.outer h (P ++ p :: x :: A) (P ++ p :: y :: B) Q.length (R ++ p :: x :: A) = r := by
    intro Q R
    induction R generalizing Q with
    | nil =>
      intro hP
      simp only [List.append_nil] at hP
      subst hP
      simp only [List.nil_append]
      rw [outer_cons]
      have hpP : p ∉ P := by
        have := (List.nodup_append.mp hnd).2.2
        intro hm; exact this p hm p (by simp) rfl
      have hs : (P ++ p :: x :: A)[P.length + 1]? = some x := by
        rw [List.getElem?_append_right (by omega)]; simp
      rw [inner_split h _ _ P.length p x y (y :: B) r hs (by simp) hxy hr P 0 hpP (by simp)]
    | cons q R ih =>
      intro hP
      simp only [List.cons_append]
      rw [outer_cons]
      -- q is a common ancestor and so is the next node of both chains
      have hop : P ++ p :: y :: B = Q ++ q :: (R ++ p :: y :: B) := by rw [hP]; simp
      have hnd' := hnd
      rw [hop] at hnd'
      have hqQ : q ∉ Q := by
        have := (List.nodup_append.mp hnd').2.2
        intro hm; exact this q hm q (by simp) rfl
      have hqpost : q ∉ R ++ p :: y :: B := (List.nodup_cons.mp (List.nodup_append.mp hnd').2.1).1
      have hnext : ∃ s, (P ++ p :: x :: A)[Q.length + 1]? = some s ∧ (R ++ p :: y :: B).head? = some s := by
        rw [hP]
        cases R with
        | nil => exact ⟨p, by rw [List.append_assoc, List.getElem?_append_right (by omega)]; simp, by simp⟩
        | cons q' R' => exact ⟨q', by rw [List.append_assoc, List.getElem?_append_right (by omega)]; simp, by simp⟩
      obtain ⟨s, hs1, hs2⟩ := hnext
      have hin := inner_same h (P ++ p :: x :: A) (P ++ p :: y :: B) Q.length q s (R ++ p :: y :: B) hs1 hs2 hqpost Q 0 hqQ
        (by rw [hop]; simp)
      rw [hop] at hin ⊢
      rw [hin]
      have := ih (Q ++ [q]) (by rw [hP]; simp)
      simp only [List.length_append, List.length_cons, List.length_nil] at this
      rw [hop] at this
      exact this
  have := key [] P rfl
  simpa [cmpLoop] using this

/-! ### scanning the children of the lowest common ancestor, and where two chains part -/

theorem scanItems_eq (l : List Id) (x y : Id) (hxy : x ≠ y) (hm : x ∈ l ∨ y ∈ l) :
    scanItems l x y = some (if l.idxOf x < l.idxOf y then 4 else 2) := by
  induction l with
  | nil => simp at hm
  | cons c cs ih =>
    rw [scanItems]
    by_cases hcx : c = x
    · subst hcx
      have hb : (c == y) = false := beq_eq_false_iff_ne.mpr hxy
      simp [List.idxOf_cons, hb]
    · by_cases hcy : c = y
      · subst hcy
        have hb : (c == x) = false := beq_eq_false_iff_ne.mpr hcx
        simp [hcx, List.idxOf_cons, hb]
      · have hm' : x ∈ cs ∨ y ∈ cs := by
          rcases hm with h | h
          · exact Or.inl ((List.mem_cons.mp h).resolve_left (fun e => hcx e.symm))
          · exact Or.inr ((List.mem_cons.mp h).resolve_left (fun e => hcy e.symm))
        have hb1 : (c == x) = false := beq_eq_false_iff_ne.mpr hcx
        have hb2 : (c == y) = false := beq_eq_false_iff_ne.mpr hcy
        simp only [hcx, hcy, if_false, ih hm', List.idxOf_cons, hb1, hb2, cond_false, Nat.add_lt_add_iff_right]

/-- two lists with the same first element, neither a prefix of the other, part after a common prefix -/
theorem lists_part : ∀ (t1 t2 : List Id) (p : Id), ¬ (p :: t1) <+: (p :: t2) → ¬ (p :: t2) <+: (p :: t1) →
    ∃ P q x A y B, p :: t1 = P ++ q :: x :: A ∧ p :: t2 = P ++ q :: y :: B ∧ x ≠ y := by
  intro t1
  induction t1 with
  | nil => intro t2 p h1 _; exact absurd ⟨t2, rfl⟩ h1
  | cons x t1 ih =>
    intro t2 p h1 h2
    cases t2 with
    | nil => exact absurd ⟨x :: t1, rfl⟩ h2
    | cons y t2 =>
      by_cases hxy : x = y
      · subst hxy
        have h1' : ¬ (x :: t1) <+: (x :: t2) := by
          intro ⟨t, ht⟩; exact h1 ⟨t, by simp [ht]⟩
        have h2' : ¬ (x :: t2) <+: (x :: t1) := by
          intro ⟨t, ht⟩; exact h2 ⟨t, by simp [ht]⟩
        obtain ⟨P, q, x', A, y', B, e1, e2, hne⟩ := ih t2 x h1' h2'
        exact ⟨p :: P, q, x', A, y', B, by simp [e1], by simp [e2], hne⟩
      · exact ⟨[], p, x, t1, y, t2, rfl, rfl, hxy⟩

theorem UpChain.consec {h : Heap} {a : Id} {l : List Id} (hc : UpChain h a l) :
    ∀ (U : List Id) (x p : Id) (V : List Id), l = U ++ x :: p :: V → h.parent x = some p := by
  induction hc with
  | root a _ =>
    intro U x p V he
    cases U with
    | nil => simp at he
    | cons u U => cases U <;> simp at he
  | step a p' l hp hl ih =>
    intro U x p V he
    cases U with
    | nil =>
      simp only [List.nil_append, List.cons.injEq] at he
      obtain ⟨t, ht⟩ := hl.head
      rw [he.2] at ht
      simp only [List.cons.injEq] at ht
      rw [← he.1, hp, ht.1]
    | cons u U =>
      simp only [List.cons_append, List.cons.injEq] at he
      exact ih U x p V he.2

theorem UpChain.last_root {h : Heap} {a : Id} {l : List Id} (hc : UpChain h a l) : l ≠ [] := by
  cases hc <;> simp

end PlasVerif.Proofs.DomCompare
