import PlasVerif.Proofs.Render
import PlasVerif.Proofs.Filenames
import PlasVerif.Model.RenderNames
/-!
C13 × C15: the renderer's name supply instantiated with the model of `plasTeX/Filenames.py`
(`Model/Filenames.lean`, property C15), and the two halves of the C15 guarantee derived for it:
* `filenamesGen_distinct`  — from C15's `issued_fresh` (= `never_duplicate_from_any_state`);
* `filenamesGen_clean`     — a forbidden character of an issued name is one the template or the extension
  spells literally (proved here from the code-level model: every substituted value went through `clean`).
-/
namespace PlasVerif.Proofs.RenderNames
open PlasVerif.Model.Render PlasVerif.Spec.Split PlasVerif.Proofs.Render
open PlasVerif.Model.Filenames (Str Env Config State Result Item)
open PlasVerif.Model.RenderNames


/-- a successful run of the renderer's supply is the issued names of the C15 history with the same bindings -/
theorem run_filenamesGen (cfg : Config) (reqs : List Req) : ∀ (st st' : State) (names : List Str),
    PlasVerif.Spec.Split.run (filenamesGen cfg) st reqs = .ok (names, st') →
    names = PlasVerif.Model.Filenames.issuedNames (PlasVerif.Model.Filenames.results cfg st (reqs.map envOf)) := by
  induction reqs with
  | nil =>
    intro st st' names h
    simp [PlasVerif.Spec.Split.run] at h
    simp [h.1.symm, PlasVerif.Model.Filenames.results, PlasVerif.Model.Filenames.run, PlasVerif.Model.Filenames.issuedNames]
  | cons r rs ih =>
    intro st st' names h
    rw [List.map_cons, PlasVerif.Proofs.Filenames.results_cons]
    rcases hq : PlasVerif.Model.Filenames.request cfg st (envOf r) with ⟨st1, res, ev⟩
    have hnext : (filenamesGen cfg).next st r =
        match PlasVerif.Model.Filenames.request cfg st (envOf r) with
        | (st', .name n, _) => .ok (n, st')
        | (_, .error _, _) => .error .valueError := rfl
    simp only [PlasVerif.Spec.Split.run] at h
    rw [hnext, hq] at h
    cases res with
    | error e => simp at h
    | name n =>
      simp only [] at h
      cases hr : PlasVerif.Spec.Split.run (filenamesGen cfg) st1 rs with
      | error e => rw [hr] at h; simp at h
      | ok p =>
        obtain ⟨ns, s2⟩ := p
        rw [hr] at h
        simp only [Except.ok.injEq, Prod.mk.injEq] at h
        obtain ⟨rfl, rfl⟩ := h
        simp only [PlasVerif.Model.Filenames.issuedNames]
        rw [← ih st1 s2 ns hr]

/-- **C15 ⇒ first half of the guarantee**: from every generator state, the names issued to the renderer are
    pairwise distinct (and different from everything already taken/reserved) -/
theorem filenamesGen_distinct (cfg : Config) (st : State) : DistinctGen (filenamesGen cfg) st := by
  intro reqs names s' h
  rw [run_filenamesGen cfg reqs st s' names h]
  exact (PlasVerif.Proofs.Filenames.issued_fresh cfg (reqs.map envOf) st).1

theorem filenamesGen_not_taken (cfg : Config) (st st' : State) (reqs : List Req) (names : List Str)
    (h : PlasVerif.Spec.Split.run (filenamesGen cfg) st reqs = .ok (names, st')) : ∀ n ∈ names, n ∉ st.taken := by
  rw [run_filenamesGen cfg reqs st st' names h]
  exact (PlasVerif.Proofs.Filenames.issued_fresh cfg (reqs.map envOf) st).2

/-! ### where the characters of an issued name come from -/
section chars
open PlasVerif.Model.Filenames

theorem mem_of_mem_takeWhile {p : Nat → Bool} {l : List Nat} {x : Nat} (h : x ∈ l.takeWhile p) : x ∈ l :=
  (List.takeWhile_sublist p).subset h
theorem mem_of_mem_dropWhile {p : Nat → Bool} {l : List Nat} {x : Nat} (h : x ∈ l.dropWhile p) : x ∈ l :=
  (List.dropWhile_sublist p).subset h

theorem matchKey_chars (l : Str) (k f : Str) (n : Nat) (h : matchKey l = some (k, f, n)) :
    cDollar ∈ l ∧ cLBrace ∈ l ∧ cRBrace ∈ l ∧ ∀ x ∈ k, x ∈ l := by
  match l with
  | [] => simp [matchKey] at h
  | [_] => simp [matchKey] at h
  | c :: d :: r =>
    simp only [matchKey] at h
    split at h
    · rename_i hc
      obtain ⟨hc1, hc2, _⟩ := hc
      have hk : ∀ x ∈ r.takeWhile isWord, x ∈ c :: d :: r := fun x hx => by
        have := mem_of_mem_takeWhile hx
        simp [this]
      split at h
      · rename_i e r2 hdrop
        have he : e ∈ r := mem_of_mem_dropWhile (by rw [hdrop]; simp)
        have hr2 : ∀ x ∈ r2, x ∈ r := fun x hx => mem_of_mem_dropWhile (by rw [hdrop]; simp [hx])
        split at h
        · rename_i hcb
          simp only [Option.some.injEq, Prod.mk.injEq] at h
          obtain ⟨rfl, _, _⟩ := h
          exact ⟨by simp [hc1], by simp [hc2], by rw [← hcb]; simp [he], hk⟩
        · split at h
          · split at h
            · rename_i f' _ hdrop2
              split at h
              · rename_i hf
                simp only [Option.some.injEq, Prod.mk.injEq] at h
                obtain ⟨rfl, _, _⟩ := h
                have hf' : f' ∈ r2 := mem_of_mem_dropWhile (by rw [hdrop2]; simp)
                exact ⟨by simp [hc1], by simp [hc2], by rw [← hf.1]; simp [hr2 f' hf'], hk⟩
              · simp at h
            · simp at h
          · simp at h
      · simp at h
    · simp at h

theorem scan_mStrip_chars (s : Str) : ∀ (skip : Nat), ∀ c ∈ scan mStrip skip s, c ∈ s := by
  induction s with
  | nil => intro skip c hc; cases skip <;> simp [scan] at hc
  | cons a cs ih =>
    intro skip c hc
    cases skip with
    | succ k =>
      simp only [scan] at hc
      exact List.mem_cons_of_mem _ (ih k c hc)
    | zero =>
      simp only [scan] at hc
      split at hc
      · rename_i rep n hm
        simp only [mStrip] at hm
        split at hm
        · rename_i k f n' hk
          split at hm
          · simp only [Option.some.injEq, Prod.mk.injEq] at hm
            obtain ⟨rfl, rfl⟩ := hm
            obtain ⟨h1, h2, h3, h4⟩ := matchKey_chars _ _ _ _ hk
            rcases List.mem_append.mp hc with hc | hc
            · simp only [List.mem_cons, List.mem_append, List.not_mem_nil, or_false] at hc
              rcases hc with (rfl | rfl | hc) | rfl
              · exact h1
              · exact h2
              · exact h4 _ hc
              · exact h3
            · exact List.mem_cons_of_mem _ (ih _ c hc)
          · simp at hm
        · simp at hm
      · rcases List.mem_cons.mp hc with rfl | hc
        · simp
        · exact List.mem_cons_of_mem _ (ih 0 c hc)

theorem substitute_chars (ns : Env) (s : Str) : ∀ (skip : Nat) (r : Str), substitute ns skip s = .ok r →
    ∀ c ∈ r, c ∈ s ∨ ∃ k v, envGet ns k = some v ∧ c ∈ v := by
  induction s with
  | nil => intro skip r h c hc; cases skip <;> (simp [substitute] at h; subst h; simp at hc)
  | cons a cs ih =>
    intro skip r h c hc
    have lift : (c ∈ cs ∨ ∃ k v, envGet ns k = some v ∧ c ∈ v) → (c ∈ a :: cs ∨ ∃ k v, envGet ns k = some v ∧ c ∈ v) :=
      fun h => h.elim (fun h => Or.inl (List.mem_cons_of_mem _ h)) Or.inr
    cases skip with
    | succ k =>
      simp only [substitute] at h
      exact lift (ih k r h c hc)
    | zero =>
      simp only [substitute] at h
      split at h
      · rename_i hdollar
        split at h
        · simp at h
        · rename_i n _
          cases hs : substitute ns n cs with
          | error e => simp [hs, Except.map] at h
          | ok r' =>
            simp only [hs, Except.map, Except.ok.injEq] at h
            subst h
            rcases List.mem_cons.mp hc with rfl | hc
            · left; simp [hdollar]
            · exact lift (ih n r' hs c hc)
        · rename_i k n _
          split at h
          · simp at h
          · rename_i v hv
            cases hs : substitute ns n cs with
            | error e => simp [hs, Except.map] at h
            | ok r' =>
              simp only [hs, Except.map, Except.ok.injEq] at h
              subst h
              rcases List.mem_append.mp hc with hc | hc
              · exact Or.inr ⟨k, v, hv, hc⟩
              · exact lift (ih n r' hs c hc)
      · cases hs : substitute ns 0 cs with
        | error e => simp [hs, Except.map] at h
        | ok r' =>
          simp only [hs, Except.map, Except.ok.injEq] at h
          subst h
          rcases List.mem_cons.mp hc with rfl | hc
          · left; simp
          · exact lift (ih 0 r' hs c hc)

theorem envGet_cleanEnv (cfg : Config) (e : Env) (k v : Str) (h : envGet (cleanEnv cfg e) k = some v) :
    ∃ w, v = clean cfg.bad cfg.sub w := by
  induction e with
  | nil => simp [cleanEnv, envGet] at h
  | cons kv rest ih =>
    simp only [cleanEnv, List.map_cons, envGet] at h
    split at h
    · simp only [Option.some.injEq] at h
      exact ⟨kv.2, h.symm⟩
    · exact ih (by simpa [cleanEnv] using h)

/-- a forbidden character of `n` is one the extension or one of the template `items` spells literally -/
def CleanName (cfg : Config) (items : List Str) (n : Str) : Prop :=
  ∀ c ∈ n, c ∈ cfg.bad → c ∈ cfg.ext ∨ ∃ item ∈ items, c ∈ item

theorem CleanName.mono {cfg : Config} {items items' : List Str} {n : Str} (h : CleanName cfg items n)
    (hs : ∀ x ∈ items, x ∈ items') : CleanName cfg items' n := by
  intro c hc hb
  rcases h c hc hb with h | ⟨item, hi, hc'⟩
  · exact Or.inl h
  · exact Or.inr ⟨item, hs item hi, hc'⟩

/-- one candidate: a forbidden character of the expansion is spelled by the template alternative itself
    (every substituted value went through `clean`, C15 `bad_chars_replaced`) -/
theorem expand_clean (cfg : Config) (hsub : ∀ c ∈ cfg.sub, c ∉ cfg.bad) (vars : Env) (num : Nat) (item r : Str) (u : Bool)
    (h : expand cfg vars num item = .ok r u) : ∀ c ∈ r, c ∈ cfg.bad → c ∈ item := by
  simp only [expand] at h
  split at h
  · simp at h
  · simp at h
  · rename_i r' hs
    simp only [Expand.ok.injEq] at h
    obtain ⟨rfl, _⟩ := h
    intro c hc hb
    rcases substitute_chars _ _ 0 _ hs c hc with hc | ⟨k, v, hv, hcv⟩
    · exact scan_mStrip_chars item 0 c hc
    · obtain ⟨w, rfl⟩ := envGet_cleanEnv cfg _ k v hv
      have := (PlasVerif.Proofs.Filenames.clean_eq_cleanSpec cfg.bad cfg.sub hsub w) ▸
        PlasVerif.Proofs.Filenames.cleanSpec_no_bad cfg.bad cfg.sub hsub w
      exact absurd hb (this c hcv)

theorem addExt_clean (cfg : Config) (hsub : ∀ c ∈ cfg.sub, c ∉ cfg.bad) (vars : Env) (num : Nat) (item r : Str) (u : Bool)
    (items : List Str) (hi : item ∈ items) (h : expand cfg vars num item = .ok r u) :
    CleanName cfg items (addExt cfg.ext r) := by
  intro c hc hb
  simp only [addExt] at hc
  split at hc
  · exact Or.inr ⟨item, hi, expand_clean cfg hsub vars num item r u h c hc hb⟩
  · rcases List.mem_append.mp hc with hc | hc
    · exact Or.inr ⟨item, hi, expand_clean cfg hsub vars num item r u h c hc hb⟩
    · exact Or.inl hc

/-- what a walk over template alternatives guarantees about the name it issues -/
def WalkClean (cfg : Config) (items : List Str) (w : Walk) : Prop :=
  (∀ name rest n, w = .issued name rest n → CleanName cfg items name ∧ ∀ x ∈ rest, x ∈ items) ∧
  (∀ rest n, w = .raised rest n → ∀ x ∈ rest, x ∈ items)

theorem WalkClean.cons {cfg : Config} {items : List Str} {item : Str} {w : Walk} (h : WalkClean cfg items w) :
    WalkClean cfg (item :: items) w := by
  refine ⟨?_, ?_⟩
  · intro name rest n hw
    obtain ⟨h1, h2⟩ := h.1 name rest n hw
    exact ⟨h1.mono (fun x hx => List.mem_cons_of_mem _ hx), fun x hx => List.mem_cons_of_mem _ (h2 x hx)⟩
  · intro rest n hw x hx
    exact List.mem_cons_of_mem _ (h.2 rest n hw x hx)

theorem staticWalk_clean (cfg : Config) (hsub : ∀ c ∈ cfg.sub, c ∉ cfg.bad) (taken : List Str) (items : List Str)
    (vars : Env) (num : Nat) : WalkClean cfg items (staticWalk cfg taken items vars num).1 := by
  induction items generalizing num with
  | nil => exact ⟨(by intro name rest n h; simp [staticWalk] at h), (by intro rest n h; simp [staticWalk] at h)⟩
  | cons item rest ih =>
    simp only [staticWalk]
    split
    · exact (ih num).cons
    · exact ⟨(by intro name r n h; cases h), (by intro r n h x hx; cases h; exact List.mem_cons_of_mem _ hx)⟩
    · rename_i r used he
      by_cases ht : addExt cfg.ext r ∈ taken
      · simp only [ht, if_true]
        exact (ih _).cons
      · simp only [ht, if_false]
        refine ⟨?_, (by intro r' n h; cases h)⟩
        intro name r' n h
        cases h
        exact ⟨addExt_clean cfg hsub vars num item r used _ (by simp) he, fun x hx => List.mem_cons_of_mem _ hx⟩

theorem altWalk_clean (cfg : Config) (hsub : ∀ c ∈ cfg.sub, c ∉ cfg.bad) (taken : List Str) (items : List Str)
    (vars : Env) (num : Nat) : WalkClean cfg items (altWalk cfg taken items vars num).1 := by
  induction items generalizing num vars with
  | nil => exact ⟨(by intro name rest n h; simp [altWalk] at h), (by intro rest n h; simp [altWalk] at h)⟩
  | cons item rest ih =>
    simp only [altWalk]
    split
    · exact (ih _ num).cons
    · exact ⟨(by intro name r n h; cases h), (by intro r n h x hx; cases h; exact List.mem_cons_of_mem _ hx)⟩
    · rename_i r used he
      by_cases ht : addExt cfg.ext r ∈ taken
      · simp only [ht, if_true]
        exact (ih _ _).cons
      · simp only [ht, if_false]
        refine ⟨?_, (by intro r' n h; cases h)⟩
        intro name r' n h
        cases h
        exact ⟨addExt_clean cfg hsub vars num item r used _ (by simp) he, fun x hx => List.mem_cons_of_mem _ hx⟩

theorem passLoop_clean (cfg : Config) (hsub : ∀ c ∈ cfg.sub, c ∉ cfg.bad) (taken wild : List Str) (fuel : Nat)
    (vars : Env) (num passes : Nat) :
    ∀ name n p, (passLoop cfg taken wild fuel vars num passes).1 = .issued name n p → CleanName cfg wild name := by
  induction fuel generalizing vars num passes with
  | zero => intro name n p h; simp [passLoop] at h
  | succ fuel ih =>
    have hok := altWalk_clean cfg hsub taken wild vars num
    simp only [passLoop]
    generalize altWalk cfg taken wild vars num = res at hok
    obtain ⟨w, ev⟩ := res
    simp only at hok
    cases w with
    | issued name rest n =>
      intro nm k p h
      cases h
      exact (hok.1 name rest n rfl).1
    | raised rest n => intro nm k p h; cases h
    | fell vars' n =>
      simp only
      by_cases hf : fuel = 0
      · simp only [hf, if_true]; intro nm k p h; cases h
      · simp only [hf, if_false]
        exact ih vars' n (passes + 1)

/-- one request: an issued name is clean w.r.t. the templates still in play, and the templates in play only shrink -/
theorem request_clean (cfg : Config) (hsub : ∀ c ∈ cfg.sub, c ∉ cfg.bad) (st : State) (b : Env) :
    (∀ n, (request cfg st b).2.1 = .name n → CleanName cfg (st.statics ++ st.wildcard) n) ∧
    (∀ x ∈ (request cfg st b).1.statics ++ (request cfg st b).1.wildcard, x ∈ st.statics ++ st.wildcard) := by
  unfold request
  by_cases hd : st.dead = true
  · simp only [hd, if_true]
    exact ⟨(by intro n h; cases h), fun x hx => hx⟩
  · have hd' : st.dead = false := by simpa using hd
    simp only [hd', Bool.false_eq_true, if_false]
    have hok := staticWalk_clean cfg hsub st.taken st.statics (envUpdate st.vars b) st.num
    generalize staticWalk cfg st.taken st.statics (envUpdate st.vars b) st.num = res at hok
    obtain ⟨w, ev⟩ := res
    simp only at hok
    cases w with
    | issued name rest n =>
      simp only
      obtain ⟨h1, h2⟩ := hok.1 name rest n rfl
      refine ⟨?_, ?_⟩
      · intro nm h; cases h
        exact h1.mono (fun x hx => List.mem_append_left _ hx)
      · intro x hx
        rcases List.mem_append.mp hx with hx | hx
        · exact List.mem_append_left _ (h2 x hx)
        · exact List.mem_append_right _ hx
    | raised rest n =>
      simp only
      refine ⟨(by intro nm h; cases h), ?_⟩
      intro x hx
      rcases List.mem_append.mp hx with hx | hx
      · exact List.mem_append_left _ (hok.2 rest n rfl x hx)
      · exact List.mem_append_right _ hx
    | fell vars' n =>
      simp only [wildcardPhase]
      have hl := passLoop_clean cfg hsub st.taken st.wildcard (passesLeft st.passes) vars' n st.passes
      generalize passLoop cfg st.taken st.wildcard (passesLeft st.passes) vars' n st.passes = lres at hl
      obtain ⟨l, ev'⟩ := lres
      simp only at hl
      cases l with
      | issued name k p =>
        simp only
        refine ⟨?_, fun x hx => List.mem_append_right _ (by simpa using hx)⟩
        intro nm h; cases h
        exact (hl name k p rfl).mono (fun x hx => List.mem_append_right _ hx)
      | raised k p =>
        simp only
        exact ⟨(by intro nm h; cases h), fun x hx => List.mem_append_right _ (by simpa using hx)⟩
      | gaveUp k p =>
        simp only
        exact ⟨(by intro nm h; cases h), fun x hx => List.mem_append_right _ (by simpa using hx)⟩

/-- a whole history: every issued name is clean w.r.t. the templates of the state the history starts from -/
theorem history_clean (cfg : Config) (hsub : ∀ c ∈ cfg.sub, c ∉ cfg.bad) (bs : List Env) : ∀ st : State,
    ∀ n ∈ issuedNames (results cfg st bs), CleanName cfg (st.statics ++ st.wildcard) n := by
  induction bs with
  | nil => intro st n hn; simp [results, PlasVerif.Model.Filenames.run, issuedNames] at hn
  | cons b bs ih =>
    intro st n hn
    rw [PlasVerif.Proofs.Filenames.results_cons] at hn
    obtain ⟨h1, h2⟩ := request_clean cfg hsub st b
    have ih' := ih (request cfg st b).1
    generalize (request cfg st b).2.1 = r at hn h1
    cases r with
    | name s =>
      simp only [issuedNames, List.mem_cons] at hn
      rcases hn with rfl | hn
      · exact h1 _ rfl
      · exact (ih' n hn).mono h2
    | error e =>
      simp only [issuedNames] at hn
      exact (ih' n hn).mono h2

end chars

/-- **second half of the guarantee, for the model of `Filenames`**: when the substitute contains no forbidden
    character, a forbidden character in a name issued to the renderer is one that the extension or one of the
    templates still in play spells literally — never one that came in through a variable (`$id`, `$title`, …). -/
theorem filenamesGen_clean (cfg : Config) (hsub : ∀ c ∈ cfg.sub, c ∉ cfg.bad) (st : State) :
    CleanGen (filenamesGen cfg) st (CleanName cfg (st.statics ++ st.wildcard)) := by
  intro reqs names s' h n hn
  rw [run_filenamesGen cfg reqs st s' names h] at hn
  exact history_clean cfg hsub (reqs.map envOf) st n hn

end PlasVerif.Proofs.RenderNames
