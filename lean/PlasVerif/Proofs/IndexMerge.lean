import PlasVerif.Proofs.IndexSort
set_option linter.unusedVariables false
/-! Helper lemmas for C18, part 4: the prefix-merge of `IndexUtils.digest`. -/
namespace PlasVerif.Proofs.Index
open PlasVerif.Model.Index

abbrev Path := List Level

theorem popN_eq : ∀ (n : Nat) (cur : Path), popN n cur = cur.take (cur.length - n) := by
  intro n; induction n with
  | zero => intro cur; simp [popN]
  | succ n ih =>
    intro cur
    rw [popN, ih, List.dropLast_eq_take, List.take_take]
    simp only [List.length_take]
    congr 1; omega

theorem commonLen_le_left : ∀ a b : Path, commonLen a b ≤ a.length := by
  intro a; induction a with
  | nil => intro b; simp [commonLen]
  | cons x a ih =>
    intro b; cases b with
    | nil => simp [commonLen]
    | cons y b => simp only [commonLen]; split <;> simp [ih b]

theorem commonLen_le_right : ∀ a b : Path, commonLen a b ≤ b.length := by
  intro a; induction a with
  | nil => intro b; simp [commonLen]
  | cons x a ih =>
    intro b; cases b with
    | nil => simp [commonLen]
    | cons y b => simp only [commonLen]; split <;> simp [ih b]

theorem commonLen_take : ∀ a b : Path, a.take (commonLen a b) = b.take (commonLen a b) := by
  intro a; induction a with
  | nil => intro b; simp [commonLen]
  | cons x a ih =>
    intro b; cases b with
    | nil => simp [commonLen]
    | cons y b =>
      simp only [commonLen]; split
      · rename_i h; subst h; simp [ih b]
      · simp

/-- maximality: after the common prefix the next levels (if both exist) differ -/
theorem commonLen_drop : ∀ (a b : Path) x y ra rb,
    a.drop (commonLen a b) = x :: ra → b.drop (commonLen a b) = y :: rb → x ≠ y := by
  intro a; induction a with
  | nil => intro b x y ra rb h; simp [commonLen] at h
  | cons x0 a ih =>
    intro b; cases b with
    | nil => intro x y ra rb _ h; simp [commonLen] at h
    | cons y0 b =>
      intro x y ra rb
      simp only [commonLen]; split
      · rename_i h; subst h; simpa using ih b x y ra rb
      · rename_i h; simp only [List.drop_zero, List.cons.injEq]
        intro h1 h2; rw [← h1.1, ← h2.1]; exact h

/-- the nodes created by the "add levels" loop -/
def newLines (cur : Path) : List Level → List Line
  | [] => []
  | l :: ls => { path := cur ++ [l], pages := [] } :: newLines (cur ++ [l]) ls

theorem addLevels_eq : ∀ (ls : List Level) (lines : List Line) (cur : Path),
    addLevels lines cur ls = (lines ++ newLines cur ls, cur ++ ls) := by
  intro ls; induction ls with
  | nil => intro lines cur; simp [addLevels, newLines]
  | cons l ls ih => intro lines cur; simp [addLevels, newLines, ih]

/-- one step of the loop, given that `current` points to the node of `prev` -/
def step' (prev : Path) (lines : List Line) (item : Entry) : List Line :=
  let c := commonLen prev item.path
  addPage item.path item.id (lines ++ newLines (item.path.take c) (item.path.drop c))

def run' : Path → List Line → List Entry → List Line
  | _, lines, [] => lines
  | prev, lines, e :: es => run' e.path (step' prev lines e) es

theorem mergeStep_eq (lines : List Line) (prev : Path) (item : Entry) :
    mergeStep { lines := lines, cur := prev, prev := prev } item =
      { lines := step' prev lines item, cur := item.path, prev := item.path } := by
  have h1 := commonLen_le_left prev item.path
  have h3 := commonLen_take prev item.path
  simp only [mergeStep, addLevels_eq, step', popN_eq]
  have e1 : prev.length - (prev.length - commonLen prev item.path) = commonLen prev item.path := by omega
  rw [e1, h3, List.take_append_drop]

theorem foldl_mergeStep (es : List Entry) : ∀ (lines : List Line) (prev : Path),
    (es.foldl mergeStep { lines := lines, cur := prev, prev := prev }).lines = run' prev lines es := by
  induction es with
  | nil => intro lines prev; simp [run']
  | cons e es ih => intro lines prev; rw [List.foldl_cons, mergeStep_eq, ih, run']

theorem mergeLines_eq (es : List Entry) : mergeLines es = run' [] [] es := by
  simpa [mergeLines] using foldl_mergeStep es [] []

/-! ### paths and pages of the lines -/

def paths (lines : List Line) : List Path := lines.map (·.path)

/-- every page reference with the path of the line that carries it -/
def pagesOf (lines : List Line) : List (Path × Nat) := lines.flatMap fun l => l.pages.map fun p => (l.path, p)

theorem addPage_paths (p : Path) (id : Nat) : ∀ lines : List Line, paths (addPage p id lines) = paths lines := by
  intro lines; induction lines with
  | nil => rfl
  | cons l ls ih =>
    simp only [addPage]; split
    · simp only [paths, List.map_cons] at ih ⊢; rw [ih]
    · split <;> simp [paths]

theorem addPage_mem (p : Path) (id : Nat) : ∀ (lines : List Line) (l' : Line), l' ∈ addPage p id lines →
    l' ∈ lines ∨ ∃ l ∈ lines, l.path = p ∧ l' = { l with pages := l.pages ++ [id] } := by
  intro lines; induction lines with
  | nil => intro l' h; simp [addPage] at h
  | cons l ls ih =>
    intro l' h
    simp only [addPage] at h
    split at h
    · rcases List.mem_cons.mp h with e | h
      · subst e; simp
      · rcases ih l' h with h | ⟨l0, h0, h1, h2⟩
        · left; simp [h]
        · right; exact ⟨l0, by simp [h0], h1, h2⟩
    · split at h
      · rename_i hp
        rcases List.mem_cons.mp h with e | h
        · right; exact ⟨l, by simp, hp, e⟩
        · left; simp [h]
      · left; exact h

theorem addPage_perm (p : Path) (id : Nat) : ∀ lines : List Line, p ∈ paths lines →
    (pagesOf (addPage p id lines)).Perm ((p, id) :: pagesOf lines) := by
  intro lines; induction lines with
  | nil => intro h; simp [paths] at h
  | cons l ls ih =>
    intro hmem
    simp only [addPage]
    split
    · rename_i hany
      have : p ∈ paths ls := by
        simp only [List.any_eq_true, decide_eq_true_eq] at hany
        obtain ⟨x, hx, hp⟩ := hany
        exact List.mem_map.mpr ⟨x, hx, hp⟩
      have := ih this
      simp only [pagesOf, List.flatMap_cons] at this ⊢
      exact (List.Perm.append_left _ this).trans List.perm_middle
    · rename_i hany
      split
      · rename_i hp
        simp only [pagesOf, List.flatMap_cons, List.map_append, List.map_cons, List.map_nil, hp]
        rw [List.append_assoc]
        exact List.perm_middle
      · rename_i hp
        exfalso
        simp only [paths, List.map_cons, List.mem_cons] at hmem
        rcases hmem with e | h
        · exact hp e.symm
        · apply hany
          simp only [List.any_eq_true, decide_eq_true_eq]
          obtain ⟨x, hx, hxp⟩ := List.mem_map.mp h
          exact ⟨x, hx, hxp⟩

theorem newLines_pages (cur : Path) : ∀ ls, pagesOf (newLines cur ls) = [] := by
  intro ls; induction ls generalizing cur with
  | nil => rfl
  | cons l ls ih => simp only [newLines, pagesOf, List.flatMap_cons, List.map_nil, List.nil_append]; exact ih _

theorem pagesOf_append (a b : List Line) : pagesOf (a ++ b) = pagesOf a ++ pagesOf b := by
  simp [pagesOf]

/-- the paths of the created nodes: `cur` extended by every non-empty prefix of the added levels -/
theorem mem_newLines_paths : ∀ (ls : List Level) (cur q : Path),
    q ∈ paths (newLines cur ls) ↔ ∃ r, r ≠ [] ∧ r <+: ls ∧ q = cur ++ r := by
  intro ls; induction ls with
  | nil =>
    intro cur q; simp only [newLines, paths, List.map_nil, List.not_mem_nil, false_iff]
    rintro ⟨r, h1, h2, _⟩; exact h1 (List.prefix_nil.mp h2)
  | cons l ls ih =>
    intro cur q
    simp only [newLines, paths, List.map_cons, List.mem_cons]
    have ih' := ih (cur ++ [l]) q
    simp only [paths] at ih'
    rw [ih']
    constructor
    · rintro (e | ⟨r, h1, h2, h3⟩)
      · exact ⟨[l], by simp, by simp [List.nil_prefix], e⟩
      · refine ⟨l :: r, by simp, ?_, by simp [h3]⟩
        exact (List.prefix_cons_inj l).mpr h2
    · rintro ⟨r, h1, h2, h3⟩
      cases r with
      | nil => exact absurd rfl h1
      | cons x r =>
        have hx : x = l ∧ r <+: ls := by
          rcases List.cons_prefix_cons.mp h2 with ⟨e, h⟩; exact ⟨e, h⟩
        obtain ⟨e, h2'⟩ := hx; subst e
        cases r with
        | nil => left; simp [h3]
        | cons y r => right; exact ⟨y :: r, by simp, h2', by simp [h3]⟩


/-! ### every entry is attached exactly once, to a node with its own path (any input order) -/

/-- every non-empty prefix of `prev` has a node -/
def HasPrefixes (prev : Path) (lines : List Line) : Prop := ∀ q : Path, q ≠ [] → q <+: prev → q ∈ paths lines

theorem paths_append (a b : List Line) : paths (a ++ b) = paths a ++ paths b := by simp [paths]

theorem step'_paths (prev : Path) (lines : List Line) (item : Entry) :
    paths (step' prev lines item) = paths lines ++
      paths (newLines (item.path.take (commonLen prev item.path)) (item.path.drop (commonLen prev item.path))) := by
  simp [step', addPage_paths, paths_append]

theorem step'_hasPrefixes (prev : Path) (lines : List Line) (item : Entry) (h : HasPrefixes prev lines) :
    HasPrefixes item.path (step' prev lines item) := by
  intro q hq hpre
  rw [step'_paths]
  have hc := commonLen_take prev item.path
  have hqe : q = item.path.take q.length := List.prefix_iff_eq_take.mp hpre
  by_cases hle : q.length ≤ commonLen prev item.path
  · apply List.mem_append_left
    apply h q hq
    rw [List.prefix_iff_eq_take]
    have : q = (item.path.take (commonLen prev item.path)).take q.length := by
      rw [List.take_take, Nat.min_eq_left hle]; exact hqe
    rw [this, ← hc, List.take_take]
    simp only [List.length_take]
    congr 1
    have := commonLen_le_left prev item.path
    have := commonLen_le_right prev item.path
    have : q.length ≤ item.path.length := hpre.length_le
    omega
  · apply List.mem_append_right
    rw [mem_newLines_paths]
    have hlt : commonLen prev item.path < q.length := by omega
    generalize commonLen prev item.path = c at hlt ⊢
    refine ⟨q.drop c, ?_, ?_, ?_⟩
    · intro e
      have := congrArg List.length e
      simp at this; omega
    · obtain ⟨t, ht⟩ := hpre
      refine ⟨t, ?_⟩
      rw [← ht, List.drop_append_of_le_length (by omega)]
    · have : item.path.take c = q.take c := by
        obtain ⟨t, ht⟩ := hpre
        rw [← ht, List.take_append_of_le_length (by omega)]
      rw [this, List.take_append_drop]

theorem step'_perm (prev : Path) (lines : List Line) (item : Entry) (h : HasPrefixes prev lines)
    (hne : item.path ≠ []) :
    (pagesOf (step' prev lines item)).Perm ((item.path, item.id) :: pagesOf lines) := by
  have hJ := step'_hasPrefixes prev lines item h item.path hne (List.prefix_refl _)
  have hmem : item.path ∈ paths (lines ++ newLines (item.path.take (commonLen prev item.path))
      (item.path.drop (commonLen prev item.path))) := by
    rw [step'_paths, ← paths_append] at hJ; exact hJ
  have := addPage_perm item.path item.id _ hmem
  simpa [step', pagesOf_append, newLines_pages] using this

theorem run'_perm : ∀ (es : List Entry) (prev : Path) (lines : List Line), HasPrefixes prev lines →
    (∀ e ∈ es, e.path ≠ []) →
    (pagesOf (run' prev lines es)).Perm (pagesOf lines ++ es.map fun e => (e.path, e.id)) := by
  intro es; induction es with
  | nil => intro prev lines _ _; simp [run']
  | cons e es ih =>
    intro prev lines hJ hne
    rw [run']
    have h1 := ih e.path (step' prev lines e) (step'_hasPrefixes prev lines e hJ)
      (fun x hx => hne x (List.mem_cons_of_mem _ hx))
    have h2 := step'_perm prev lines e hJ (hne e (List.mem_cons_self))
    refine h1.trans ?_
    simp only [List.map_cons]
    exact (List.Perm.append_right _ h2).trans (by simpa using List.perm_middle.symm)

/-! ### the pages of a node are occurrences of its own path, in the order of the processed list -/

theorem run'_pages_sublist : ∀ (es done : List Entry) (prev : Path) (lines : List Line),
    (∀ l ∈ lines, l.pages.Sublist ((done.filter fun e => e.path = l.path).map (·.id))) →
    ∀ l ∈ run' prev lines es, l.pages.Sublist (((done ++ es).filter fun e => e.path = l.path).map (·.id)) := by
  intro es; induction es with
  | nil => intro done prev lines h l hl; simpa [run'] using h l hl
  | cons e es ih =>
    intro done prev lines h l hl
    rw [run'] at hl
    have := ih (done ++ [e]) e.path (step' prev lines e) ?_ l hl
    · simpa using this
    · intro l' hl'
      simp only [step'] at hl'
      have hnew : ∀ x ∈ newLines (e.path.take (commonLen prev e.path)) (e.path.drop (commonLen prev e.path)), x.pages = [] := by
        generalize (e.path.take (commonLen prev e.path)) = c
        generalize (e.path.drop (commonLen prev e.path)) = ls
        induction ls generalizing c with
        | nil => simp [newLines]
        | cons a ls ih2 =>
          intro x hx; simp only [newLines, List.mem_cons] at hx
          rcases hx with e | hx
          · subst e; rfl
          · exact ih2 _ x hx
      have hold : ∀ x ∈ lines ++ newLines (e.path.take (commonLen prev e.path)) (e.path.drop (commonLen prev e.path)),
          x.pages.Sublist ((done.filter fun e => e.path = x.path).map (·.id)) := by
        intro x hx
        rcases List.mem_append.mp hx with hx | hx
        · exact h x hx
        · rw [hnew x hx]; exact List.nil_sublist _
      rcases addPage_mem _ _ _ l' hl' with hm | ⟨l0, hm, hp, he⟩
      · have := hold l' hm
        rw [List.filter_append, List.map_append]
        exact this.trans (List.sublist_append_left _ _)
      · have := hold l0 hm
        subst he
        simp only [List.filter_append, List.map_append, hp]
        simp only [hp] at this
        simpa using List.Sublist.append this (List.Sublist.refl [e.id])

/-- with one node per path, the page references filed under a node's path are that node's pages -/
theorem pagesOf_filter_nodup : ∀ (lines : List Line), (paths lines).Nodup → ∀ l ∈ lines,
    (pagesOf lines).filter (fun x => x.1 = l.path) = l.pages.map (fun p => (l.path, p)) := by
  intro lines; induction lines with
  | nil => intro _ l hl; simp at hl
  | cons a ls ih =>
    intro hnd l hl
    simp only [paths, List.map_cons, List.nodup_cons] at hnd
    have hnone : ∀ (L : List Line) (q : Path), q ∉ paths L → (pagesOf L).filter (fun x => x.1 = q) = [] := by
      intro L q hq
      rw [List.filter_eq_nil_iff]
      intro x hx
      simp only [pagesOf, List.mem_flatMap, List.mem_map] at hx
      obtain ⟨l0, hl0, p, _, e⟩ := hx
      subst e
      simp only [decide_eq_true_eq]
      intro e; apply hq; rw [← e]; exact List.mem_map.mpr ⟨l0, hl0, rfl⟩
    simp only [pagesOf, List.flatMap_cons, List.filter_append]
    rcases List.mem_cons.mp hl with e | hl'
    · subst e
      have := hnone ls l.path hnd.1
      simp only [pagesOf] at this
      rw [this, List.append_nil, List.filter_eq_self]
      intro x hx
      obtain ⟨p, _, e⟩ := List.mem_map.mp hx
      subst e; simp
    · have hne : a.path ≠ l.path := by
        intro e; apply hnd.1; rw [e]; exact List.mem_map.mpr ⟨l, hl', rfl⟩
      have h1 : (a.pages.map fun p => (a.path, p)).filter (fun x => x.1 = l.path) = [] := by
        rw [List.filter_eq_nil_iff]
        intro x hx
        obtain ⟨p, _, e⟩ := List.mem_map.mp hx
        subst e; simpa using hne
      have := ih hnd.2 l hl'
      simp only [pagesOf] at this
      rw [h1, List.nil_append, this]

end PlasVerif.Proofs.Index
