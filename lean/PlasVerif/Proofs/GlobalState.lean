import PlasVerif.Spec.Isolation
/-! Helper lemmas for C17: projections of the variant-dependent setters, frame lemmas of `step`/`run`/`finish`
for every class-level field, the switch invariant, and the id-labelling lemmas. -/
namespace PlasVerif.Proofs.GlobalState
open PlasVerif.Model.GlobalState PlasVerif.Spec.Isolation PlasVerif.Generated.GlobalState

/-! ### projections of the setters (generated mechanically: setter × field) -/

@[simp] theorem setEnv_G_enabled (v : Variant) (s : S) (x) : (setEnv v s x).1.enabled = s.1.enabled := by
  unfold setEnv; split <;> rfl

@[simp] theorem setEnv_G_level (v : Variant) (s : S) (x) : (setEnv v s x).1.level = s.1.level := by
  unfold setEnv; split <;> rfl

@[simp] theorem setEnv_G_disBegin (v : Variant) (s : S) (x) : (setEnv v s x).1.disBegin = s.1.disBegin := by
  unfold setEnv; split <;> rfl

@[simp] theorem setEnv_G_disEnd (v : Variant) (s : S) (x) : (setEnv v s x).1.disEnd = s.1.disEnd := by
  unfold setEnv; split <;> rfl

@[simp] theorem setEnv_G_inEnv (v : Variant) (s : S) (x) : (setEnv v s x).1.inEnv = if v.trkDoc then s.1.inEnv else x := by
  unfold setEnv; split <;> simp_all

@[simp] theorem setEnv_G_depth (v : Variant) (s : S) (x) : (setEnv v s x).1.depth = s.1.depth := by
  unfold setEnv; split <;> rfl

@[simp] theorem setEnv_G_regs (v : Variant) (s : S) (x) : (setEnv v s x).1.regs = s.1.regs := by
  unfold setEnv; split <;> rfl

@[simp] theorem setEnv_G_idxSec (v : Variant) (s : S) (x) : (setEnv v s x).1.idxSec = s.1.idxSec := by
  unfold setEnv; split <;> rfl

@[simp] theorem setEnv_G_cols (v : Variant) (s : S) (x) : (setEnv v s x).1.cols = s.1.cols := by
  unfold setEnv; split <;> rfl

@[simp] theorem setEnv_D_skip (v : Variant) (s : S) (x) : (setEnv v s x).2.skip = s.2.skip := by
  unfold setEnv; split <;> rfl

@[simp] theorem setEnv_D_boxes (v : Variant) (s : S) (x) : (setEnv v s x).2.boxes = s.2.boxes := by
  unfold setEnv; split <;> rfl

@[simp] theorem setEnv_D_loaded (v : Variant) (s : S) (x) : (setEnv v s x).2.loaded = s.2.loaded := by
  unfold setEnv; split <;> rfl

@[simp] theorem setEnv_D_ctx (v : Variant) (s : S) (x) : (setEnv v s x).2.ctx = s.2.ctx := by
  unfold setEnv; split <;> rfl

@[simp] theorem setEnv_D_inEnv (v : Variant) (s : S) (x) : (setEnv v s x).2.inEnv = if v.trkDoc then x else s.2.inEnv := by
  unfold setEnv; split <;> simp_all

@[simp] theorem setEnv_D_depth (v : Variant) (s : S) (x) : (setEnv v s x).2.depth = s.2.depth := by
  unfold setEnv; split <;> rfl

@[simp] theorem setEnv_D_regs (v : Variant) (s : S) (x) : (setEnv v s x).2.regs = s.2.regs := by
  unfold setEnv; split <;> rfl

@[simp] theorem setEnv_D_idxSec (v : Variant) (s : S) (x) : (setEnv v s x).2.idxSec = s.2.idxSec := by
  unfold setEnv; split <;> rfl

@[simp] theorem setEnv_D_cols (v : Variant) (s : S) (x) : (setEnv v s x).2.cols = s.2.cols := by
  unfold setEnv; split <;> rfl

@[simp] theorem setDepth_G_enabled (v : Variant) (s : S) (x) : (setDepth v s x).1.enabled = s.1.enabled := by
  unfold setDepth; split <;> rfl

@[simp] theorem setDepth_G_level (v : Variant) (s : S) (x) : (setDepth v s x).1.level = s.1.level := by
  unfold setDepth; split <;> rfl

@[simp] theorem setDepth_G_disBegin (v : Variant) (s : S) (x) : (setDepth v s x).1.disBegin = s.1.disBegin := by
  unfold setDepth; split <;> rfl

@[simp] theorem setDepth_G_disEnd (v : Variant) (s : S) (x) : (setDepth v s x).1.disEnd = s.1.disEnd := by
  unfold setDepth; split <;> rfl

@[simp] theorem setDepth_G_inEnv (v : Variant) (s : S) (x) : (setDepth v s x).1.inEnv = s.1.inEnv := by
  unfold setDepth; split <;> rfl

@[simp] theorem setDepth_G_depth (v : Variant) (s : S) (x) : (setDepth v s x).1.depth = if v.trkDoc then s.1.depth else x := by
  unfold setDepth; split <;> simp_all

@[simp] theorem setDepth_G_regs (v : Variant) (s : S) (x) : (setDepth v s x).1.regs = s.1.regs := by
  unfold setDepth; split <;> rfl

@[simp] theorem setDepth_G_idxSec (v : Variant) (s : S) (x) : (setDepth v s x).1.idxSec = s.1.idxSec := by
  unfold setDepth; split <;> rfl

@[simp] theorem setDepth_G_cols (v : Variant) (s : S) (x) : (setDepth v s x).1.cols = s.1.cols := by
  unfold setDepth; split <;> rfl

@[simp] theorem setDepth_D_skip (v : Variant) (s : S) (x) : (setDepth v s x).2.skip = s.2.skip := by
  unfold setDepth; split <;> rfl

@[simp] theorem setDepth_D_boxes (v : Variant) (s : S) (x) : (setDepth v s x).2.boxes = s.2.boxes := by
  unfold setDepth; split <;> rfl

@[simp] theorem setDepth_D_loaded (v : Variant) (s : S) (x) : (setDepth v s x).2.loaded = s.2.loaded := by
  unfold setDepth; split <;> rfl

@[simp] theorem setDepth_D_ctx (v : Variant) (s : S) (x) : (setDepth v s x).2.ctx = s.2.ctx := by
  unfold setDepth; split <;> rfl

@[simp] theorem setDepth_D_inEnv (v : Variant) (s : S) (x) : (setDepth v s x).2.inEnv = s.2.inEnv := by
  unfold setDepth; split <;> rfl

@[simp] theorem setDepth_D_depth (v : Variant) (s : S) (x) : (setDepth v s x).2.depth = if v.trkDoc then x else s.2.depth := by
  unfold setDepth; split <;> simp_all

@[simp] theorem setDepth_D_regs (v : Variant) (s : S) (x) : (setDepth v s x).2.regs = s.2.regs := by
  unfold setDepth; split <;> rfl

@[simp] theorem setDepth_D_idxSec (v : Variant) (s : S) (x) : (setDepth v s x).2.idxSec = s.2.idxSec := by
  unfold setDepth; split <;> rfl

@[simp] theorem setDepth_D_cols (v : Variant) (s : S) (x) : (setDepth v s x).2.cols = s.2.cols := by
  unfold setDepth; split <;> rfl

@[simp] theorem setRegs_G_enabled (v : Variant) (s : S) (x) : (setRegs v s x).1.enabled = s.1.enabled := by
  unfold setRegs; split <;> rfl

@[simp] theorem setRegs_G_level (v : Variant) (s : S) (x) : (setRegs v s x).1.level = s.1.level := by
  unfold setRegs; split <;> rfl

@[simp] theorem setRegs_G_disBegin (v : Variant) (s : S) (x) : (setRegs v s x).1.disBegin = s.1.disBegin := by
  unfold setRegs; split <;> rfl

@[simp] theorem setRegs_G_disEnd (v : Variant) (s : S) (x) : (setRegs v s x).1.disEnd = s.1.disEnd := by
  unfold setRegs; split <;> rfl

@[simp] theorem setRegs_G_inEnv (v : Variant) (s : S) (x) : (setRegs v s x).1.inEnv = s.1.inEnv := by
  unfold setRegs; split <;> rfl

@[simp] theorem setRegs_G_depth (v : Variant) (s : S) (x) : (setRegs v s x).1.depth = s.1.depth := by
  unfold setRegs; split <;> rfl

@[simp] theorem setRegs_G_regs (v : Variant) (s : S) (x) : (setRegs v s x).1.regs = if v.regsDoc then s.1.regs else x := by
  unfold setRegs; split <;> simp_all

@[simp] theorem setRegs_G_idxSec (v : Variant) (s : S) (x) : (setRegs v s x).1.idxSec = s.1.idxSec := by
  unfold setRegs; split <;> rfl

@[simp] theorem setRegs_G_cols (v : Variant) (s : S) (x) : (setRegs v s x).1.cols = s.1.cols := by
  unfold setRegs; split <;> rfl

@[simp] theorem setRegs_D_skip (v : Variant) (s : S) (x) : (setRegs v s x).2.skip = s.2.skip := by
  unfold setRegs; split <;> rfl

@[simp] theorem setRegs_D_boxes (v : Variant) (s : S) (x) : (setRegs v s x).2.boxes = s.2.boxes := by
  unfold setRegs; split <;> rfl

@[simp] theorem setRegs_D_loaded (v : Variant) (s : S) (x) : (setRegs v s x).2.loaded = s.2.loaded := by
  unfold setRegs; split <;> rfl

@[simp] theorem setRegs_D_ctx (v : Variant) (s : S) (x) : (setRegs v s x).2.ctx = s.2.ctx := by
  unfold setRegs; split <;> rfl

@[simp] theorem setRegs_D_inEnv (v : Variant) (s : S) (x) : (setRegs v s x).2.inEnv = s.2.inEnv := by
  unfold setRegs; split <;> rfl

@[simp] theorem setRegs_D_depth (v : Variant) (s : S) (x) : (setRegs v s x).2.depth = s.2.depth := by
  unfold setRegs; split <;> rfl

@[simp] theorem setRegs_D_regs (v : Variant) (s : S) (x) : (setRegs v s x).2.regs = if v.regsDoc then x else s.2.regs := by
  unfold setRegs; split <;> simp_all

@[simp] theorem setRegs_D_idxSec (v : Variant) (s : S) (x) : (setRegs v s x).2.idxSec = s.2.idxSec := by
  unfold setRegs; split <;> rfl

@[simp] theorem setRegs_D_cols (v : Variant) (s : S) (x) : (setRegs v s x).2.cols = s.2.cols := by
  unfold setRegs; split <;> rfl

@[simp] theorem setIdx_G_enabled (v : Variant) (s : S) (x) : (setIdx v s x).1.enabled = s.1.enabled := by
  unfold setIdx; split <;> rfl

@[simp] theorem setIdx_G_level (v : Variant) (s : S) (x) : (setIdx v s x).1.level = s.1.level := by
  unfold setIdx; split <;> rfl

@[simp] theorem setIdx_G_disBegin (v : Variant) (s : S) (x) : (setIdx v s x).1.disBegin = s.1.disBegin := by
  unfold setIdx; split <;> rfl

@[simp] theorem setIdx_G_disEnd (v : Variant) (s : S) (x) : (setIdx v s x).1.disEnd = s.1.disEnd := by
  unfold setIdx; split <;> rfl

@[simp] theorem setIdx_G_inEnv (v : Variant) (s : S) (x) : (setIdx v s x).1.inEnv = s.1.inEnv := by
  unfold setIdx; split <;> rfl

@[simp] theorem setIdx_G_depth (v : Variant) (s : S) (x) : (setIdx v s x).1.depth = s.1.depth := by
  unfold setIdx; split <;> rfl

@[simp] theorem setIdx_G_regs (v : Variant) (s : S) (x) : (setIdx v s x).1.regs = s.1.regs := by
  unfold setIdx; split <;> rfl

@[simp] theorem setIdx_G_idxSec (v : Variant) (s : S) (x) : (setIdx v s x).1.idxSec = if v.classDoc then s.1.idxSec else x := by
  unfold setIdx; split <;> simp_all

@[simp] theorem setIdx_G_cols (v : Variant) (s : S) (x) : (setIdx v s x).1.cols = s.1.cols := by
  unfold setIdx; split <;> rfl

@[simp] theorem setIdx_D_skip (v : Variant) (s : S) (x) : (setIdx v s x).2.skip = s.2.skip := by
  unfold setIdx; split <;> rfl

@[simp] theorem setIdx_D_boxes (v : Variant) (s : S) (x) : (setIdx v s x).2.boxes = s.2.boxes := by
  unfold setIdx; split <;> rfl

@[simp] theorem setIdx_D_loaded (v : Variant) (s : S) (x) : (setIdx v s x).2.loaded = s.2.loaded := by
  unfold setIdx; split <;> rfl

@[simp] theorem setIdx_D_ctx (v : Variant) (s : S) (x) : (setIdx v s x).2.ctx = s.2.ctx := by
  unfold setIdx; split <;> rfl

@[simp] theorem setIdx_D_inEnv (v : Variant) (s : S) (x) : (setIdx v s x).2.inEnv = s.2.inEnv := by
  unfold setIdx; split <;> rfl

@[simp] theorem setIdx_D_depth (v : Variant) (s : S) (x) : (setIdx v s x).2.depth = s.2.depth := by
  unfold setIdx; split <;> rfl

@[simp] theorem setIdx_D_regs (v : Variant) (s : S) (x) : (setIdx v s x).2.regs = s.2.regs := by
  unfold setIdx; split <;> rfl

@[simp] theorem setIdx_D_idxSec (v : Variant) (s : S) (x) : (setIdx v s x).2.idxSec = if v.classDoc then x else s.2.idxSec := by
  unfold setIdx; split <;> simp_all

@[simp] theorem setIdx_D_cols (v : Variant) (s : S) (x) : (setIdx v s x).2.cols = s.2.cols := by
  unfold setIdx; split <;> rfl

@[simp] theorem setCols_G_enabled (v : Variant) (s : S) (x) : (setCols v s x).1.enabled = s.1.enabled := by
  unfold setCols; split <;> rfl

@[simp] theorem setCols_G_level (v : Variant) (s : S) (x) : (setCols v s x).1.level = s.1.level := by
  unfold setCols; split <;> rfl

@[simp] theorem setCols_G_disBegin (v : Variant) (s : S) (x) : (setCols v s x).1.disBegin = s.1.disBegin := by
  unfold setCols; split <;> rfl

@[simp] theorem setCols_G_disEnd (v : Variant) (s : S) (x) : (setCols v s x).1.disEnd = s.1.disEnd := by
  unfold setCols; split <;> rfl

@[simp] theorem setCols_G_inEnv (v : Variant) (s : S) (x) : (setCols v s x).1.inEnv = s.1.inEnv := by
  unfold setCols; split <;> rfl

@[simp] theorem setCols_G_depth (v : Variant) (s : S) (x) : (setCols v s x).1.depth = s.1.depth := by
  unfold setCols; split <;> rfl

@[simp] theorem setCols_G_regs (v : Variant) (s : S) (x) : (setCols v s x).1.regs = s.1.regs := by
  unfold setCols; split <;> rfl

@[simp] theorem setCols_G_idxSec (v : Variant) (s : S) (x) : (setCols v s x).1.idxSec = s.1.idxSec := by
  unfold setCols; split <;> rfl

@[simp] theorem setCols_G_cols (v : Variant) (s : S) (x) : (setCols v s x).1.cols = if v.colsDoc then s.1.cols else x := by
  unfold setCols; split <;> simp_all

@[simp] theorem setCols_D_skip (v : Variant) (s : S) (x) : (setCols v s x).2.skip = s.2.skip := by
  unfold setCols; split <;> rfl

@[simp] theorem setCols_D_boxes (v : Variant) (s : S) (x) : (setCols v s x).2.boxes = s.2.boxes := by
  unfold setCols; split <;> rfl

@[simp] theorem setCols_D_loaded (v : Variant) (s : S) (x) : (setCols v s x).2.loaded = s.2.loaded := by
  unfold setCols; split <;> rfl

@[simp] theorem setCols_D_ctx (v : Variant) (s : S) (x) : (setCols v s x).2.ctx = s.2.ctx := by
  unfold setCols; split <;> rfl

@[simp] theorem setCols_D_inEnv (v : Variant) (s : S) (x) : (setCols v s x).2.inEnv = s.2.inEnv := by
  unfold setCols; split <;> rfl

@[simp] theorem setCols_D_depth (v : Variant) (s : S) (x) : (setCols v s x).2.depth = s.2.depth := by
  unfold setCols; split <;> rfl

@[simp] theorem setCols_D_regs (v : Variant) (s : S) (x) : (setCols v s x).2.regs = s.2.regs := by
  unfold setCols; split <;> rfl

@[simp] theorem setCols_D_idxSec (v : Variant) (s : S) (x) : (setCols v s x).2.idxSec = s.2.idxSec := by
  unfold setCols; split <;> rfl

@[simp] theorem setCols_D_cols (v : Variant) (s : S) (x) : (setCols v s x).2.cols = if v.colsDoc then x else s.2.cols := by
  unfold setCols; split <;> simp_all

attribute [local simp] onG balancedArg enable disable pushCtx popCtx

/-- per-event cleanliness: the event does not touch a datum that the variant still keeps on a class -/
def okEv (v : Variant) : Ev → Bool
  | .arg .any => v.fixAny
  | .assign _ _ => v.regsDoc
  | .copy _ _ => v.regsDoc
  | .docclass .article => v.classDoc
  | .newcol _ => v.colsDoc
  | _ => true

/-! ### frame lemmas of one step, one per class-level field -/

theorem step_regs (v : Variant) (e : Ev × Bool) (s : S) (h : okEv v e.1 = true) :
    (step v e s).1.1.regs = s.1.regs := by
  obtain ⟨e, b⟩ := e
  cases e <;> simp [step, stepDollar, anyArg, okEv] at h ⊢ <;> (repeat' split) <;> simp_all

theorem step_idx (v : Variant) (e : Ev × Bool) (s : S) (h : okEv v e.1 = true) :
    (step v e s).1.1.idxSec = s.1.idxSec := by
  obtain ⟨e, b⟩ := e
  cases e <;> simp [step, stepDollar, anyArg, okEv] at h ⊢ <;> (repeat' split) <;> simp_all [okEv]

theorem step_cols (v : Variant) (e : Ev × Bool) (s : S) (h : okEv v e.1 = true) :
    (step v e s).1.1.cols = s.1.cols := by
  obtain ⟨e, b⟩ := e
  cases e <;> simp [step, stepDollar, anyArg, okEv] at h ⊢ <;> (repeat' split) <;> simp_all

theorem step_env (v : Variant) (e : Ev × Bool) (s : S) (h : v.trkDoc = true) :
    (step v e s).1.1.inEnv = s.1.inEnv ∧ (step v e s).1.1.depth = s.1.depth := by
  obtain ⟨e, b⟩ := e
  cases e <;> simp [step, stepDollar, anyArg, h] <;> (repeat' split) <;> simp_all

/-- the switch invariant between two events: the enable level is minus the number of `\hbox{` arguments being
    read, `enabled` agrees with it, and `\(`/`\)` are not disabled -/
def SwInv (s : S) : Prop :=
  s.1.level = -(s.2.boxes : Int) ∧ s.1.enabled = decide (s.1.level ≥ 0) ∧ s.1.disBegin = false ∧ s.1.disEnd = false

/-- the only event that can unbalance the switches: a `type='any'` argument on a tree without the D5 repair -/
def okSw (v : Variant) : Ev → Bool
  | .arg .any => v.fixAny
  | _ => true

theorem okSw_of_okEv (v : Variant) (e : Ev) (h : okEv v e = true) : okSw v e = true := by
  cases e <;> simp_all [okSw, okEv]
  rename_i ty; cases ty <;> simp_all [okSw, okEv]

theorem step_sw (v : Variant) (e : Ev × Bool) (s : S) (h : okSw v e.1 = true) (hi : SwInv s) :
    SwInv (step v e s).1 := by
  obtain ⟨e, b⟩ := e
  obtain ⟨h1, h2, h3, h4⟩ := hi
  cases e <;> simp [step, stepDollar, anyArg, okSw, SwInv] at h ⊢ <;> (repeat' split) <;> simp_all <;> omega

/-! ### from one step to a whole document -/

theorem annot_mem : ∀ (d : List Ev) (e : Ev × Bool), e ∈ annot d → e.1 ∈ d
  | [], e, h => by simp [annot] at h
  | x :: xs, e, h => by
    simp only [annot, List.mem_cons] at h
    rcases h with h | h
    · subst h; simp
    · exact List.mem_cons_of_mem _ (annot_mem xs e h)

theorem run_inv (v : Variant) (P : S → Prop) (ok : Ev → Bool)
    (hstep : ∀ e s, ok e.1 = true → P s → P (step v e s).1) :
    ∀ (es : List (Ev × Bool)) (s : S), (∀ e ∈ es, ok e.1 = true) → P s → P (run v s es).1
  | [], s, _, hp => by simpa [run] using hp
  | e :: es, s, hok, hp => by
    simp only [run]
    exact run_inv v P ok hstep es _ (fun x hx => hok x (List.mem_cons_of_mem _ hx))
      (hstep e s (hok e (List.mem_cons_self ..)) hp)

theorem finish_frame (v : Variant) : ∀ (n : Nat) (s : S),
    (finish v n s).1.1.regs = s.1.regs ∧ (finish v n s).1.1.idxSec = s.1.idxSec ∧ (finish v n s).1.1.cols = s.1.cols ∧
    (finish v n s).1.1.disBegin = s.1.disBegin ∧ (finish v n s).1.1.disEnd = s.1.disEnd ∧
    (finish v n s).1.1.level = s.1.level + n ∧
    (finish v n s).1.1.enabled = (if n = 0 then s.1.enabled else decide (s.1.level + n ≥ 0)) ∧
    (v.trkDoc = true → (finish v n s).1.1.inEnv = s.1.inEnv ∧ (finish v n s).1.1.depth = s.1.depth)
  | 0, s => by simp [finish]
  | n + 1, s => by
    have ih := finish_frame v n (popCtx (· == Fr.arg) (setEnv v (onG enable s) (getEnv v s).tail))
    simp only [finish]
    obtain ⟨h1, h2, h3, h4, h5, h6, h7, h8⟩ := ih
    refine ⟨by simp_all, by simp_all, by simp_all, by simp_all, by simp_all, ?_, ?_, ?_⟩
    · rw [h6]; simp; omega
    · rw [h7]; simp
      split
      · subst_vars; simp
      · congr 1; simp; omega
    · intro ht
      have := h8 ht
      simp_all

/-- what the document's events may touch follows from the document-level cleanliness predicate -/
theorem clean_ok (v : Variant) (d : List Ev) (h : Clean v d = true) : ∀ e ∈ d, okEv v e = true := by
  intro e he
  simp only [Clean, usesAny, assignsReg, patchesClass, definesCol, Bool.and_eq_true, Bool.or_eq_true,
    Bool.not_eq_true', List.any_eq_false] at h
  obtain ⟨⟨⟨⟨h1, _⟩, h3⟩, h4⟩, h5⟩ := h
  cases e with
  | arg ty =>
    cases ty <;> simp [okEv]
    rcases h1 with h | h
    · exact h
    · have := h _ he; simp at this
  | assign r x =>
    simp [okEv]
    rcases h3 with h | h
    · exact h
    · have := h _ he; simp at this
  | copy r q =>
    simp [okEv]
    rcases h3 with h | h
    · exact h
    · have := h _ he; simp at this
  | docclass c =>
    cases c <;> simp [okEv]
    rcases h4 with h | h
    · exact h
    · have := h _ he; simp at this
  | newcol n =>
    simp [okEv]
    rcases h5 with h | h
    · exact h
    · have := h _ he; simp at this
  | _ => simp [okEv]

theorem G_eq (a b : G) (h1 : a.enabled = b.enabled) (h2 : a.level = b.level) (h3 : a.disBegin = b.disBegin)
    (h4 : a.disEnd = b.disEnd) (h5 : a.inEnv = b.inEnv) (h6 : a.depth = b.depth) (h7 : a.regs = b.regs)
    (h8 : a.idxSec = b.idxSec) (h9 : a.cols = b.cols) : a = b := by
  cases a; cases b; simp_all

theorem swInv_start : SwInv (init, newDocOf init) := by
  simp [SwInv, init, newDoc, newDocOf, initLevel, initEnabled, initDisBegin, initDisEnd]

/-- switches: balanced by every document without an unrepaired `any` argument -/
theorem runDoc_switches (v : Variant) (d : List Ev) (hok : ∀ e ∈ d, okSw v e = true) :
    (runDoc v init d).1.enabled = init.enabled ∧ (runDoc v init d).1.level = init.level ∧
    (runDoc v init d).1.disBegin = init.disBegin ∧ (runDoc v init d).1.disEnd = init.disEnd := by
  have hok' : ∀ e ∈ annot d, okSw v e.1 = true := fun e he => hok _ (annot_mem d e he)
  have hsw := run_inv v SwInv (okSw v) (fun e s he hp => step_sw v e s he hp) (annot d) (init, newDocOf init) hok' swInv_start
  obtain ⟨_, _, _, f4, f5, f6, f7, _⟩ :=
    finish_frame v (run v (init, newDocOf init) (annot d)).1.2.boxes (run v (init, newDocOf init) (annot d)).1
  obtain ⟨s1, s2, s3, s4⟩ := hsw
  have hi : init.enabled = true := rfl
  have hl : init.level = 0 := rfl
  refine ⟨?_, ?_, ?_, ?_⟩
  · simp only [runDoc]; rw [f7]
    split
    · rename_i hb; rw [hi, s2, s1, hb]; simp
    · rw [hi, s1]; exact decide_eq_true (by omega)
  · simp only [runDoc]; rw [f6, s1, hl]; omega
  · simp only [runDoc]; rw [f4, s3]; rfl
  · simp only [runDoc]; rw [f5, s4]; rfl

/-- trackers: untouched on the class when they are kept on the document -/
theorem runDoc_trackers (v : Variant) (ht : v.trkDoc = true) (g : G) (d : List Ev) :
    (runDoc v g d).1.inEnv = g.inEnv ∧ (runDoc v g d).1.depth = g.depth := by
  obtain ⟨_, _, _, _, _, _, _, f8⟩ :=
    finish_frame v (run v (g, newDocOf g) (annot d)).1.2.boxes (run v (g, newDocOf g) (annot d)).1
  constructor
  · simp only [runDoc]; rw [(f8 ht).1]
    exact run_inv v (fun s => s.1.inEnv = g.inEnv) (fun _ => true)
      (fun e s _ hp => by rw [(step_env v e s ht).1]; exact hp) (annot d) (g, newDocOf g) (fun _ _ => rfl) rfl
  · simp only [runDoc]; rw [(f8 ht).2]
    exact run_inv v (fun s => s.1.depth = g.depth) (fun _ => true)
      (fun e s _ hp => by rw [(step_env v e s ht).2]; exact hp) (annot d) (g, newDocOf g) (fun _ _ => rfl) rfl

/-- registers, index level, column types: untouched by the events that are `okEv` -/
theorem runDoc_cfg (v : Variant) (g : G) (d : List Ev) (hok : ∀ e ∈ d, okEv v e = true) :
    (runDoc v g d).1.regs = g.regs ∧ (runDoc v g d).1.idxSec = g.idxSec ∧ (runDoc v g d).1.cols = g.cols := by
  have hok' : ∀ e ∈ annot d, okEv v e.1 = true := fun e he => hok _ (annot_mem d e he)
  obtain ⟨f1, f2, f3, _⟩ :=
    finish_frame v (run v (g, newDocOf g) (annot d)).1.2.boxes (run v (g, newDocOf g) (annot d)).1
  refine ⟨?_, ?_, ?_⟩
  · simp only [runDoc]; rw [f1]
    exact run_inv v (fun s => s.1.regs = g.regs) (okEv v)
      (fun e s he hp => by rw [step_regs v e s he]; exact hp) (annot d) (g, newDocOf g) hok' rfl
  · simp only [runDoc]; rw [f2]
    exact run_inv v (fun s => s.1.idxSec = g.idxSec) (okEv v)
      (fun e s he hp => by rw [step_idx v e s he]; exact hp) (annot d) (g, newDocOf g) hok' rfl
  · simp only [runDoc]; rw [f3]
    exact run_inv v (fun s => s.1.cols = g.cols) (okEv v)
      (fun e s he hp => by rw [step_cols v e s he]; exact hp) (annot d) (g, newDocOf g) hok' rfl

/-- **A clean document leaves the class-level state exactly as it found it.** -/
theorem runDoc_restores (v : Variant) (d : List Ev) (h : Clean v d = true) : (runDoc v init d).1 = init := by
  have hok := clean_ok v d h
  obtain ⟨a1, a2, a3, a4⟩ := runDoc_switches v d (fun e he => okSw_of_okEv v e (hok e he))
  obtain ⟨c1, c2, c3⟩ := runDoc_cfg v init d hok
  have htrk : (runDoc v init d).1.inEnv = init.inEnv ∧ (runDoc v init d).1.depth = init.depth := by
    by_cases ht : v.trkDoc = true
    · exact runDoc_trackers v ht init d
    · simp only [Clean, Bool.and_eq_true, Bool.or_eq_true] at h
      have hc := h.1.1.1.2
      have ht' : v.trkDoc = false := by simpa using ht
      simp only [ht', closesAll, Bool.and_eq_true, beq_iff_eq] at hc
      rcases hc with hc | hc
      · exact absurd hc (by decide)
      · exact hc
  exact G_eq _ _ a1 a2 a3 a4 htrk.1 htrk.2 c1 c2 c3

/-! ### generated identifiers -/

theorem map_erase_label : ∀ (os : List Out) (k : Nat), (label k os).map erase = os.map erase
  | [], k => by simp [label]
  | o :: os, k => by
    cases o <;> simp [label, erase, map_erase_label os]

theorem canon_label (os : List Out) (k : Nat) : canon (label k os) = canon os := by
  simp [canon, map_erase_label]

end PlasVerif.Proofs.GlobalState
