import PlasVerif.Proofs.Config
/-! Where one file line goes (`ConfigManager.read` loop body), and how `InterpolationWrapper` resolves a name. -/
namespace PlasVerif.Proofs.ConfigRouting
open PlasVerif.Model.Config PlasVerif.Spec.Config PlasVerif.Proofs.Config

theorem findIdx_of_key {T : Table} (hd : distinctKeys T = true) {j : Nat} {o : Opt} (hj : T[j]? = some o) :
    findIdx T o.sec o.key = some j := by
  obtain ⟨hjl, rfl⟩ := List.getElem?_eq_some_iff.mp hj
  refine List.findIdx?_eq_some_iff_getElem.mpr ⟨hjl, by simp, ?_⟩
  intro n hn hp
  simp only [Bool.and_eq_true, decide_eq_true_eq] at hp
  have := distinct_idx hd (List.getElem?_eq_getElem (by omega : n < T.length)) hj hp.1 hp.2
  omega

theorem findIdx_none_of_unknown {T : Table} {sec k : Str} (h : keyKnown T sec k = false) : findIdx T sec k = none := by
  refine List.findIdx?_eq_none_iff.mpr ?_
  intro p hp
  cases hpp : (decide (p.sec = sec) && decide (p.key = k)) with
  | false => rfl
  | true =>
    have : keyKnown T sec k = true := by
      simp only [keyKnown, List.any_eq_true]
      exact ⟨p, hp, hpp⟩
    rw [h] at this; cases this

theorem dictIdx_of_firstDict {T : Table} {d : Nat} {o : Opt} (hdo : T[d]? = some o) (hf : firstDict T d o = true) :
    dictIdx T o.sec = some d := by
  obtain ⟨hdl, rfl⟩ := List.getElem?_eq_some_iff.mp hdo
  simp only [firstDict, Bool.and_eq_true, List.all_eq_true] at hf
  refine List.findIdx?_eq_some_iff_getElem.mpr ⟨hdl, by simp [hf.1], ?_⟩
  intro n hn hp
  have hmem : T[n] ∈ T.take d := by
    rw [List.mem_take_iff_getElem]
    exact ⟨n, by omega, rfl⟩
  have := hf.2 _ hmem
  simp only [Bool.and_eq_true, decide_eq_true_eq] at hp
  simp [hp.1, hp.2] at this

/-- a line whose key names an option of the section converts into that option and touches nothing else -/
theorem known_key {T : Table} (hd : distinctKeys T = true) {j : Nat} {o : Opt} (hj : T[j]? = some o) (st : St) (v : Str) :
    readItem false T o.sec st (o.key, v) = (setFromString false o.ty (st j) v).map (st.set j) := by
  simp only [readItem, findIdx_of_key hd hj, tyAt_eq hj]
  cases setFromString false o.ty (st j) v <;> rfl

/-- a line with an unknown key is one entry of the section's first dictionary option -/
theorem unknown_key_first_dict {T : Table} {d : Nat} {o : Opt} {t : ATy} {l : Bool} (hdo : T[d]? = some o)
    (hty : o.ty = .dict t l) (hf : firstDict T d o = true) {k : Str} (hk : keyKnown T o.sec k = false) (st : St) (v : Str) :
    readItem false T o.sec st (k, v) = (dictSetStr t (st d) k v).map (st.set d) := by
  simp only [readItem, findIdx_none_of_unknown hk, dictIdx_of_firstDict hdo hf, tyAt_eq hdo, hty]
  cases dictSetStr t (st d) k v <;> rfl

/-- … and is ignored ("Unrecognized config") when the section has no dictionary option -/
theorem unknown_key_no_dict {T : Table} {sec k : Str} (hk : keyKnown T sec k = false)
    (hn : ∀ o ∈ T, o.sec = sec → isDict o.ty = false) (st : St) (v : Str) :
    readItem false T sec st (k, v) = .ok st := by
  have : dictIdx T sec = none := by
    refine List.findIdx?_eq_none_iff.mpr ?_
    intro p hp
    by_cases hs : p.sec = sec
    · simp [hs, hn p hp hs]
    · simp [hs]
  simp only [readItem, findIdx_none_of_unknown hk, this]
  rfl

/-- a file line concerns at most one option -/
theorem mention_unique {T : Table} (hd : distinctKeys T = true) {i j : Nat} {oi oj : Opt} (hi : T[i]? = some oi)
    (hj : T[j]? = some oj) (it : Item) (h1 : (mentionOf T i oi it).isSome = true) (h2 : (mentionOf T j oj it).isSome = true) :
    i = j := by
  unfold mentionOf at h1 h2
  by_cases ha : addressed oi it = true
  · by_cases hb : addressed oj it = true
    · simp only [addressed, Bool.and_eq_true, decide_eq_true_eq] at ha hb
      exact distinct_idx hd hi hj (ha.1.symm.trans hb.1) (ha.2.symm.trans hb.2)
    · simp only [hb, Bool.false_eq_true, if_false] at h2
      split at h2
      · rename_i hc
        simp only [Bool.and_eq_true, Bool.not_eq_true', addressed, decide_eq_true_eq] at hc ha
        have : keyKnown T it.sec it.key = true := by
          simp only [keyKnown, List.any_eq_true, Bool.and_eq_true, decide_eq_true_eq]
          exact ⟨oi, List.mem_of_getElem? hi, ha.1.symm, ha.2.symm⟩
        rw [hc.2] at this; cases this
      · simp at h2
  · simp only [ha, Bool.false_eq_true, if_false] at h1
    split at h1
    · rename_i hc1
      by_cases hb : addressed oj it = true
      · simp only [Bool.and_eq_true, Bool.not_eq_true', addressed, decide_eq_true_eq] at hc1 hb
        have : keyKnown T it.sec it.key = true := by
          simp only [keyKnown, List.any_eq_true, Bool.and_eq_true, decide_eq_true_eq]
          exact ⟨oj, List.mem_of_getElem? hj, hb.1.symm, hb.2.symm⟩
        rw [hc1.2] at this; cases this
      · simp only [hb, Bool.false_eq_true, if_false] at h2
        split at h2
        · rename_i hc2
          simp only [Bool.and_eq_true, decide_eq_true_eq] at hc1 hc2
          have e1 := dictIdx_of_firstDict hi hc1.1.2
          have e2 := dictIdx_of_firstDict hj hc2.1.2
          rw [← hc1.1.1] at e1
          rw [← hc2.1.1] at e2
          rw [e1] at e2
          exact Option.some.inj e2
        · simp at h2
    · simp at h1

/-! ## `InterpolationWrapper.__getitem__` -/

/-- the name resolves to the first candidate (sections in order) whose own read-back does not raise `KeyError`;
    any other exception of a candidate reached before that propagates; no such candidate: `KeyError` -/
theorem lookupWith_char (get : Nat → Except Err Val) : ∀ (cands : List Nat),
    lookupWith get cands =
      match cands.find? (fun j => decide (get j ≠ .error .keyError)) with
      | none => .error .keyError
      | some j => (get j).map valStr := by
  intro cands
  induction cands with
  | nil => rfl
  | cons j js ih =>
    cases hg : get j with
    | ok v => simp [lookupWith, hg, List.find?, Except.map, pure, Except.pure]
    | error e =>
      cases e with
      | keyError => simp only [lookupWith, hg, List.find?, ne_eq, not_true_eq_false, decide_false]; exact ih
      | valueError => simp [lookupWith, hg, List.find?, Except.map]
      | systemExit => simp [lookupWith, hg, List.find?, Except.map]
      | argumentTypeError => simp [lookupWith, hg, List.find?, Except.map]
      | recursionError => simp [lookupWith, hg, List.find?, Except.map]
      | unsupported => simp [lookupWith, hg, List.find?, Except.map]

/-! ## option strings -/

theorem flatMap_nodup_unique {α β} (g : α → List β) : ∀ (T : List α), (T.flatMap g).Nodup →
    ∀ (i j : Nat) (a b : α) (x : β), T[i]? = some a → T[j]? = some b → x ∈ g a → x ∈ g b → i = j := by
  intro T
  induction T with
  | nil => intro _ i j a b x hi; simp at hi
  | cons o r ih =>
    intro hn i j a b x hi hj ha hb
    rw [List.flatMap_cons, List.nodup_append] at hn
    obtain ⟨_, hr, hdis⟩ := hn
    cases i with
    | zero =>
      cases j with
      | zero => rfl
      | succ j' =>
        simp only [List.getElem?_cons_zero, Option.some.injEq] at hi
        simp only [List.getElem?_cons_succ] at hj
        subst hi
        exact absurd rfl (hdis x ha x (List.mem_flatMap.mpr ⟨b, List.mem_of_getElem? hj, hb⟩))
    | succ i' =>
      cases j with
      | zero =>
        simp only [List.getElem?_cons_zero, Option.some.injEq] at hj
        simp only [List.getElem?_cons_succ] at hi
        subst hj
        exact absurd rfl (hdis x hb x (List.mem_flatMap.mpr ⟨a, List.mem_of_getElem? hi, ha⟩))
      | succ j' =>
        simp only [List.getElem?_cons_succ] at hi hj
        rw [ih hr i' j' a b x hi hj ha hb]

theorem flagsOf_sub (o : Opt) (f : Str) (h : (flagsOf o).contains f = true) : f ∈ o.flags ++ o.noflags := by
  unfold flagsOf at h
  cases hty : o.ty with
  | atom t => cases t <;> simp_all
  | list => simp_all
  | dict t l => simp_all

end PlasVerif.Proofs.ConfigRouting
