import PlasVerif.Proofs.Format
/-! Helper lemmas for C08: `trimLeft` removes a prefix only; decimal numerals have no leading zero; hence the float
    numbers of the standard classes are `<chapter>.<n>` for every positive chapter number (10, 20, 100 … included). -/
set_option linter.unusedSimpArgs false
set_option linter.unusedVariables false
namespace PlasVerif.Proofs.TrimLeft
open PlasVerif.Model.Counters PlasVerif.Spec.NumberingRules

/-- the code's loop is exactly "drop the leading `0.` groups" -/
theorem trim_eq_drop (t : List Char) : trim t = t.drop (2 * zeroGroups t) := by
  fun_induction trim t with
  | case1 r ih => simp [zeroGroups, Nat.mul_add, ih]
  | case2 t h =>
    have : zeroGroups t = 0 := by
      unfold zeroGroups
      split
      · rename_i r; exact absurd rfl (h r)
      · rfl
    simp [this]

theorem trimLeftStr_eq (t : String) : trimLeftStr t = stripZeroGroups t := by
  simp [trimLeftStr, stripZeroGroups, trim_eq_drop]

theorem trim_head_ne (c : Char) (r : List Char) (h : c ≠ '0') : trim (c :: r) = c :: r := by
  unfold trim
  split
  · rename_i r' heq
    simp only [List.cons.injEq] at heq
    exact absurd heq.1 h
  · rfl

theorem digitChar_ne_zero (m : Nat) (h1 : 1 ≤ m) (h2 : m < 10) : Nat.digitChar m ≠ '0' := by
  have : m = 1 ∨ m = 2 ∨ m = 3 ∨ m = 4 ∨ m = 5 ∨ m = 6 ∨ m = 7 ∨ m = 8 ∨ m = 9 := by omega
  rcases this with rfl | rfl | rfl | rfl | rfl | rfl | rfl | rfl | rfl <;> decide

theorem toDigitsCore_head : ∀ (fuel n : Nat) (ds : List Char), 1 ≤ n → n < fuel →
    ∃ m r, 1 ≤ m ∧ m < 10 ∧ Nat.toDigitsCore 10 fuel n ds = Nat.digitChar m :: r := by
  intro fuel
  induction fuel with
  | zero => intro n ds _ h; omega
  | succ fuel ih =>
    intro n ds h1 h2
    simp only [Nat.toDigitsCore]
    by_cases h : n / 10 = 0
    · simp only [h, if_true]
      exact ⟨n % 10, ds, by omega, by omega, rfl⟩
    · simp only [h, if_false]
      exact ih (n / 10) _ (by omega) (by omega)

/-- the decimal numeral of a positive number starts with a non-zero digit -/
theorem repr_head (n : Nat) (h : 1 ≤ n) : ∃ c r, c ≠ '0' ∧ (toString n).toList = c :: r := by
  obtain ⟨m, r, a, b, c⟩ := toDigitsCore_head (n + 1) n [] h (by omega)
  refine ⟨Nat.digitChar m, r, digitChar_ne_zero m a b, ?_⟩
  show (Nat.repr n).toList = _
  simp only [Nat.repr, Nat.toDigits, String.toList_ofList, c]

theorem trim_repr_append (n : Nat) (h : 1 ≤ n) (rest : List Char) :
    trim ((toString n).toList ++ rest) = (toString n).toList ++ rest := by
  obtain ⟨c, r, hc, he⟩ := repr_head n h
  rw [he, List.cons_append, trim_head_ne c _ hc]

theorem trim_repr (n : Nat) : trim (toString n).toList = (toString n).toList := by
  by_cases h : 1 ≤ n
  · simpa using trim_repr_append n h []
  · have : n = 0 := by omega
    subst this; decide

theorem toString_natCast (n : Nat) : toString ((n : Nat) : Int) = toString n := rfl

/-- `\thefigure` / `\thetable` of the standard classes, for every chapter and float number -/
theorem float_number (thes : TheEnv) (s : Store) (ctr : Name) (k cn fn : Nat)
    (hctr : ctr = "figure" ∨ ctr = "table" ∨ ctr = "equation")
    (hl : thes.lookup ("the" ++ ctr) = some { pieces := [.ref "thechapter" none, .lit ".", .ref ctr none], trimLeft := true })
    (hc : thes.lookup "thechapter" = some { pieces := [.ref "chapter" none], trimLeft := false })
    (hcv : valD s "chapter" = (cn : Int)) (hfv : valD s ctr = (fn : Int)) :
    evalThe (k + 2) thes s ("the" ++ ctr) =
      .ok (if cn = 0 then toString fn else toString cn ++ "." ++ toString fn) := by
  have m1 : isMacroRef ("the" ++ ctr) "thechapter" = true := by
    rcases hctr with rfl | rfl | rfl <;> decide +kernel
  have m2 : isMacroRef ("the" ++ ctr) ctr = false := by
    rcases hctr with rfl | rfl | rfl <;> decide +kernel
  have m3 : isMacroRef "thechapter" "chapter" = false := by decide +kernel
  have e1 : evalThe (k + 1) thes s "thechapter" = .ok (toString cn) := by
    rw [PlasVerif.Proofs.Format.evalThe_succ, hc]
    simp only [evalPiece, List.mapM_cons, List.mapM_nil, m3, Bool.false_eq_true, if_false,
      Option.getD_none, represent, hcv, toString_natCast, bind, Except.bind, pure, Except.pure, Except.map, finish,
      String.join, List.foldl_cons, List.foldl_nil]
    simp
  rw [show k + 2 = (k + 1) + 1 from rfl, PlasVerif.Proofs.Format.evalThe_succ, hl]
  simp only [evalPiece, List.mapM_cons, List.mapM_nil, m1, m2, if_true, Bool.false_eq_true, if_false, e1,
    Option.getD_none, represent, hfv, toString_natCast, bind, Except.bind, pure, Except.pure, Except.map, finish,
    String.join, List.foldl_cons, List.foldl_nil]
  simp only [Except.ok.injEq]
  by_cases h0 : cn = 0
  · subst h0
    simp only [if_true, trimLeftStr]
    have : ("" ++ toString 0 ++ "." ++ toString fn).toList = '0' :: '.' :: (toString fn).toList := by
      simp [String.toList_append]
    rw [this, trim, trim_repr, String.ofList_toList]
  · simp only [h0, if_false, trimLeftStr]
    have : ("" ++ toString cn ++ "." ++ toString fn).toList = (toString cn).toList ++ ('.' :: (toString fn).toList) := by
      simp [String.toList_append]
    rw [this, trim_repr_append cn (by omega), ← this, String.ofList_toList]
    simp

end PlasVerif.Proofs.TrimLeft
