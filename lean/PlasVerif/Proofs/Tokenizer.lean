import PlasVerif.Proofs.Catcodes
import PlasVerif.Model.Tokenizer
/-! Helper lemmas about the tokenizer model (C01; reused by C11). -/
namespace PlasVerif.Proofs.Tokenizer
open PlasVerif.Model.Catcodes PlasVerif.Model.Tokenizer PlasVerif.Generated.Catcodes PlasVerif.Proofs.Catcodes

/-! ## the character reader -/

/-- a character that is neither a superscript nor ignored/invalid is delivered as it is -/
theorem nextChar_plain (t : CatTable) (c : Nat) (cs : List Nat)
    (h7 : whichCode t c ≠ 7) (h9 : whichCode t c ≠ 9) (h15 : whichCode t c ≠ 15) :
    nextChar t (c :: cs) = some (whichCode t c, c, cs) := by
  match cs with
  | [] => simp [nextChar, h9, h15]
  | [d] => simp [nextChar, h7, h9, h15]
  | d :: e :: es => simp [nextChar, h7, h9, h15]

/-- ignored and invalid characters are dropped -/
theorem nextChar_ignored (t : CatTable) (c : Nat) (cs : List Nat)
    (h : whichCode t c = 9 ∨ whichCode t c = 15) : nextChar t (c :: cs) = nextChar t cs := by
  have h7 : whichCode t c ≠ 7 := by rcases h with h | h <;> omega
  match cs with
  | [] => simp [nextChar, h]
  | [d] => simp [nextChar, h7, h]
  | d :: e :: es => simp [nextChar, h7, h]

/-- a superscript character not followed by itself is an ordinary character -/
theorem nextChar_super_single (t : CatTable) (c d : Nat) (cs : List Nat)
    (h7 : whichCode t c = 7) (hd : d ≠ c) : nextChar t (c :: d :: cs) = some (7, c, d :: cs) := by
  match cs with
  | [] => simp [nextChar, h7, hd]
  | e :: es => simp [nextChar, h7, hd]

/-- `^^X`: the doubled superscript followed by `e` reads as the character `e ± 64` -/
theorem nextChar_hat (t : CatTable) (c e : Nat) (cs : List Nat) (h7 : whichCode t c = 7)
    (hx7 : whichCode t (hatDecode e) ≠ 7) :
    nextChar t (c :: c :: e :: cs) = nextChar t (hatDecode e :: cs) := by
  by_cases h : whichCode t (hatDecode e) = 9 ∨ whichCode t (hatDecode e) = 15
  · rw [nextChar_ignored t _ _ h]; simp [nextChar, h7, h]
  · have h9 : whichCode t (hatDecode e) ≠ 9 := fun x => h (Or.inl x)
    have h15 : whichCode t (hatDecode e) ≠ 15 := fun x => h (Or.inr x)
    rw [nextChar_plain t _ _ hx7 h9 h15]; simp [nextChar, h7, h]

/-- `^^X` when the decoded character is itself a superscript: it is delivered, not decoded again -/
theorem nextChar_hat_super (t : CatTable) (c e : Nat) (cs : List Nat) (h7 : whichCode t c = 7)
    (hx7 : whichCode t (hatDecode e) = 7) :
    nextChar t (c :: c :: e :: cs) = some (7, hatDecode e, cs) := by
  simp [nextChar, h7, hx7]

/-- `^^` at the very end of the input: two ordinary superscript characters -/
theorem nextChar_hat_eof (t : CatTable) (c : Nat) (h7 : whichCode t c = 7) :
    nextChar t [c, c] = some (7, c, [c]) ∧ nextChar t [c] = some (7, c, []) := by
  simp [nextChar, h7]

theorem nextChar_nil (t : CatTable) : nextChar t [] = none := by simp [nextChar]

/-- whatever `nextChar` delivers carries the current category of the delivered character,
    which is never ignored/invalid -/
theorem nextChar_code (t : CatTable) (cs : List Nat) :
    ∀ code ch rest, nextChar t cs = some (code, ch, rest) →
      code = whichCode t ch ∧ code ≠ 9 ∧ code ≠ 15 := by
  fun_induction nextChar t cs <;> intro _ _ _ h <;> simp_all <;> (try grind)

theorem whichCodeIn_lt (t : CatTable) (c : Nat) (o : List Nat) (ho : ∀ i ∈ o, i < 16) :
    whichCodeIn t c o < 16 := by
  induction o with
  | nil => simp [whichCodeIn]
  | cons j o ih =>
    unfold whichCodeIn
    split
    · exact ho j (List.mem_cons_self)
    · exact ih (fun i hi => ho i (List.mem_cons_of_mem _ hi))

theorem order_lt : ∀ i ∈ lookupOrder, i < 16 := by decide +kernel

theorem whichCode_lt (t : CatTable) (c : Nat) : whichCode t c < 16 :=
  whichCodeIn_lt t c lookupOrder order_lt

/-! ## one-step unfoldings of the token loop (one per branch of `Tokenizer.__iter__`) -/

section steps
variable (t : CatTable) (st : St) (p : Bool) (cs rest : List Nat) (code ch : Nat)

theorem tok_eof (h : nextChar t cs = none) : tokFrom t st p cs = [] := by
  rw [tokFrom]; split <;> simp_all

theorem tok_letter_other (h : nextChar t cs = some (code, ch, rest)) (hc : code = 11 ∨ code = 12) :
    tokFrom t st p cs = .ch (classCat code) ch :: tokFrom t .M false rest := by
  rw [tokFrom]; split <;> simp_all

theorem tok_space_M (h : nextChar t cs = some (10, ch, rest)) :
    tokFrom t .M p cs = .space :: tokFrom t .S false rest := by
  rw [tokFrom]; split <;> simp_all

theorem tok_space_S (h : nextChar t cs = some (10, ch, rest)) :
    tokFrom t .S p cs = tokFrom t .S p rest := by
  rw [tokFrom]; split <;> simp_all

theorem tok_space_N (h : nextChar t cs = some (10, ch, rest)) :
    tokFrom t .N p cs = tokFrom t .N p rest := by
  rw [tokFrom]; split <;> simp_all

theorem tok_eol_S (h : nextChar t cs = some (5, ch, rest)) :
    tokFrom t .S p cs = tokFrom t .N p rest := by
  rw [tokFrom]; split <;> simp_all

theorem tok_eol_M (h : nextChar t cs = some (5, ch, rest)) :
    tokFrom t .M p cs = .space :: tokFrom t .N false rest := by
  rw [tokFrom]; split <;> simp_all

theorem tok_eol_N_first (h : nextChar t cs = some (5, 10, rest)) :
    tokFrom t .N false cs = .cs parName :: tokFrom t .N true rest := by
  rw [tokFrom]; split <;> simp_all

theorem tok_eol_N_again (h : nextChar t cs = some (5, 10, rest)) :
    tokFrom t .N true cs = tokFrom t .N true rest := by
  rw [tokFrom]; split <;> simp_all

theorem tok_comment (h : nextChar t cs = some (14, ch, rest)) :
    tokFrom t st p cs = tokFrom t .N p (dropLine rest) := by
  rw [tokFrom]; split <;> simp_all

theorem tok_active (h : nextChar t cs = some (13, ch, rest)) :
    tokFrom t st p cs = .cs (activePrefix ++ [ch]) :: tokFrom t .M false rest := by
  rw [tokFrom]; split <;> simp_all

theorem tok_other_class (h : nextChar t cs = some (code, ch, rest))
    (hc : code = 1 ∨ code = 2 ∨ code = 3 ∨ code = 4 ∨ code = 6 ∨ code = 7 ∨ code = 8) :
    tokFrom t st p cs = .ch (classCat code) ch :: tokFrom t .M false rest := by
  rw [tokFrom]; split
  · simp_all
  · rename_i c1 ch1 r1 h1
    rw [h] at h1; cases h1
    rcases hc with h | h | h | h | h | h | h <;> subst h <;> simp

theorem tok_escape_eof (h : nextChar t cs = some (0, ch, rest)) (h2 : nextChar t rest = none) :
    tokFrom t st p cs = [.cs []] := by
  rw [tokFrom]; split
  · simp_all
  · rename_i c1 ch1 r1 h1
    rw [h] at h1; cases h1
    simp; split <;> simp_all

theorem tok_escape_word (c2 : Nat) (rest2 : List Nat) (h : nextChar t cs = some (0, ch, rest))
    (h2 : nextChar t rest = some (11, c2, rest2)) :
    tokFrom t st p cs = .cs (c2 :: (readWord t rest2).1) ::
      tokFrom t .S (c2 :: (readWord t rest2).1 == parName) (readWord t rest2).2 := by
  rw [tokFrom]; split
  · simp_all
  · rename_i c1 ch1 r1 h1
    rw [h] at h1; cases h1
    simp; split <;> simp_all

theorem tok_escape_eol (c2 : Nat) (rest2 : List Nat) (h : nextChar t cs = some (0, ch, rest))
    (h2 : nextChar t rest = some (5, c2, rest2)) :
    tokFrom t st p cs = .space :: tokFrom t .S false rest2 := by
  rw [tokFrom]; split
  · simp_all
  · rename_i c1 ch1 r1 h1
    rw [h] at h1; cases h1
    simp; split <;> simp_all

theorem tok_escape_symbol (k2 c2 : Nat) (rest2 : List Nat) (h : nextChar t cs = some (0, ch, rest))
    (h2 : nextChar t rest = some (k2, c2, rest2)) (hk : k2 ≠ 11) (hk5 : k2 ≠ 5) :
    tokFrom t st p cs = .cs [c2] :: tokFrom t .M false rest2 := by
  rw [tokFrom]; split
  · simp_all
  · rename_i c1 ch1 r1 h1
    rw [h] at h1; cases h1
    simp; split <;> simp_all
end steps

/-- body of one iteration of the token loop as a function of what the character reader delivered -/
def tokBody (t : CatTable) (st : St) (p : Bool) : Option (Nat × Nat × List Nat) → List Tok
  | none => []
  | some (code, ch, rest) =>
    if code = 11 ∨ code = 12 then .ch (classCat code) ch :: tokFrom t .M false rest
    else if code = 10 then
      match st with
      | .M => .space :: tokFrom t .S false rest
      | _ => tokFrom t st p rest
    else if code = 5 then
      match st with
      | .S => tokFrom t .N p rest
      | .M => .space :: tokFrom t .N false rest
      | .N =>
        if ch = 10 then
          if p then tokFrom t .N true rest else .cs parName :: tokFrom t .N true rest
        else
          if p then tokFrom t .N true (dropLine rest) else .cs parName :: tokFrom t .N true (dropLine rest)
    else if code = 0 then
      match _h2 : nextChar t rest with
      | none => [.cs []]
      | some (c2, ch2, rest2) =>
        if c2 = 11 then
          .cs (ch2 :: (readWord t rest2).1) :: tokFrom t .S (ch2 :: (readWord t rest2).1 == parName) (readWord t rest2).2
        else if c2 = 5 then .space :: tokFrom t .S false rest2
        else .cs [ch2] :: tokFrom t .M false rest2
    else if code = 14 then tokFrom t .N p (dropLine rest)
    else if code = 13 then .cs (activePrefix ++ [ch]) :: tokFrom t .M false rest
    else .ch (classCat code) ch :: tokFrom t .M false rest

theorem tokFrom_body (t : CatTable) (st : St) (p : Bool) (cs : List Nat) :
    tokFrom t st p cs = tokBody t st p (nextChar t cs) := by
  rw [tokFrom]
  split
  · rename_i h; rw [h]; rfl
  · rename_i code ch rest h; rw [h]; rfl

/-- the token loop depends on its input only through the character reader -/
theorem tokFrom_congr (t : CatTable) (st : St) (p : Bool) (a b : List Nat)
    (h : nextChar t a = nextChar t b) : tokFrom t st p a = tokFrom t st p b := by
  rw [tokFrom_body, tokFrom_body, h]

/-! ## universal facts about the produced tokens -/

/-- the categories for which a character token class exists -/
def charCats : List Nat := [1, 2, 3, 4, 6, 7, 8, 11, 12]

/-- every token class carries the category it is registered under (regenerated table) -/
theorem classCat_id : ∀ code ∈ charCats, classCat code = code := by decide +kernel

def TokOk (t : CatTable) : Tok → Prop
  | .ch cat c => cat = whichCode t c ∧ cat ∈ charCats
  | _ => True

theorem code_in_charCats (code : Nat) (hlt : code < 16) (h : ¬(code = 11 ∨ code = 12)) (h10 : code ≠ 10) (h5 : code ≠ 5)
    (h0 : code ≠ 0) (h14 : code ≠ 14) (h13 : code ≠ 13) (h9 : code ≠ 9) (h15 : code ≠ 15) : code ∈ charCats := by
  simp only [charCats, List.mem_cons, List.not_mem_nil, or_false]; omega

theorem tokFrom_sound (t : CatTable) (st : St) (p : Bool) (cs : List Nat) :
    ∀ tok ∈ tokFrom t st p cs, TokOk t tok := by
  fun_induction tokFrom t st p cs <;> intro tok htok
  all_goals (try simp only [List.mem_cons, List.not_mem_nil, or_false] at htok)
  all_goals (first
    | (exact False.elim htok)
    | (apply_assumption; exact htok)
    | (subst htok; trivial)
    | (rcases htok with rfl | htok <;> first | trivial | (apply_assumption; exact htok) | skip))
  · rename_i h hc _
    have := nextChar_code t _ _ _ _ h
    refine ⟨?_, ?_⟩
    · rw [classCat_id _ (by rcases hc with h | h <;> subst h <;> simp [charCats])]; exact this.1
    · rw [classCat_id _ (by rcases hc with h | h <;> subst h <;> simp [charCats])]
      rcases hc with h | h <;> subst h <;> simp [charCats]
  · rename_i h h1 h2 h3 h4 h5 h6 _
    have := nextChar_code t _ _ _ _ h
    have hlt := whichCode_lt t (by assumption)
    have hin := code_in_charCats _ (by rw [this.1]; exact hlt) h1 h2 h3 h4 h5 h6 this.2.1 this.2.2
    rw [TokOk, classCat_id _ hin]
    exact ⟨this.1, hin⟩

/-! ## verbatim table -/

theorem whichCode_verbatim (c : Nat) :
    whichCode verbatimCats c = if c ∈ asciiLetters then 11 else 12 := by
  simp [whichCode, whichCodeIn, lookupOrder, cls, verbatimCats, verbatimTable, asciiLetters]

theorem tokFrom_verbatim (st : St) (p : Bool) (s : List Nat) :
    tokFrom verbatimCats st p s = s.map (fun c => Tok.ch (if c ∈ asciiLetters then 11 else 12) c) := by
  induction s generalizing st p with
  | nil => exact tok_eof _ _ _ _ (nextChar_nil _)
  | cons c cs ih =>
    have hw := whichCode_verbatim c
    have hne : whichCode verbatimCats c = 11 ∨ whichCode verbatimCats c = 12 := by
      rw [hw]; split <;> simp
    have hn := nextChar_plain verbatimCats c cs (by omega) (by omega) (by omega)
    rw [tok_letter_other _ _ _ _ _ _ _ hn hne, ih, List.map_cons]
    congr 1
    rw [classCat_id _ (by rcases hne with h | h <;> rw [h] <;> simp [charCats]), hw]

/-! ## blanks -/

/-- a run of plain blank characters is skipped in states S and N -/
theorem blanks_skipped (t : CatTable) (st : St) (hst : st ≠ .M) (p : Bool) (bs rest : List Nat)
    (hb : ∀ b ∈ bs, whichCode t b = 10) : tokFrom t st p (bs ++ rest) = tokFrom t st p rest := by
  induction bs with
  | nil => rfl
  | cons b bs ih =>
    have h10 := hb b (List.mem_cons_self)
    have hn := nextChar_plain t b (bs ++ rest) (by omega) (by omega) (by omega)
    rw [h10] at hn
    have ih' := ih (fun x hx => hb x (List.mem_cons_of_mem _ hx))
    cases st with
    | M => exact absurd rfl hst
    | S => rw [List.cons_append, tok_space_S _ _ _ _ _ hn, ih']
    | N => rw [List.cons_append, tok_space_N _ _ _ _ _ hn, ih']

/-- in state M a non-empty run of blanks collapses to exactly one space token -/
theorem blank_run_collapses (t : CatTable) (p : Bool) (b : Nat) (bs rest : List Nat)
    (hb : ∀ x ∈ b :: bs, whichCode t x = 10) :
    tokFrom t .M p (b :: bs ++ rest) = .space :: tokFrom t .S false rest := by
  have h10 := hb b (List.mem_cons_self)
  have hn := nextChar_plain t b (bs ++ rest) (by omega) (by omega) (by omega)
  rw [h10] at hn
  rw [List.cons_append, tok_space_M _ _ _ _ _ hn,
    blanks_skipped t .S (by simp) false bs rest (fun x hx => hb x (List.mem_cons_of_mem _ hx))]

/-- consecutive blank lines give one `\par` -/
theorem blank_lines_one_par (t : CatTable) (h5 : whichCode t 10 = 5) (n : Nat) (rest : List Nat) :
    tokFrom t .N true (List.replicate n 10 ++ rest) = tokFrom t .N true rest := by
  induction n with
  | zero => rfl
  | succ n ih =>
    have hn := nextChar_plain t 10 (List.replicate n 10 ++ rest) (by omega) (by omega) (by omega)
    rw [h5] at hn
    rw [List.replicate_succ, List.cons_append, tok_eol_N_again (h := hn), ih]

theorem blank_line_par (t : CatTable) (h5 : whichCode t 10 = 5) (n : Nat) (rest : List Nat) :
    tokFrom t .N false (List.replicate (n + 1) 10 ++ rest) = .cs parName :: tokFrom t .N true rest := by
  have hn := nextChar_plain t 10 (List.replicate n 10 ++ rest) (by omega) (by omega) (by omega)
  rw [h5] at hn
  rw [List.replicate_succ, List.cons_append, tok_eol_N_first (h := hn), blank_lines_one_par t h5]

/-! ## control words -/

/-- the input stops a control word: end of input, or a plain character that is not a letter -/
def StopsWord (t : CatTable) : List Nat → Prop
  | [] => True
  | d :: _ => whichCode t d ≠ 11 ∧ whichCode t d ≠ 7 ∧ whichCode t d ≠ 9 ∧ whichCode t d ≠ 15

theorem readWord_letters (t : CatTable) (w rest : List Nat) (hw : ∀ c ∈ w, whichCode t c = 11)
    (hs : StopsWord t rest) : readWord t (w ++ rest) = (w, rest) := by
  induction w with
  | nil =>
    cases rest with
    | nil => rw [List.nil_append, readWord]; split <;> simp_all [nextChar_nil]
    | cons d r =>
      obtain ⟨h11, h7, h9, h15⟩ := hs
      have hn := nextChar_plain t d r h7 h9 h15
      rw [List.nil_append, readWord]; split <;> simp_all
  | cons c w ih =>
    have hc := hw c (List.mem_cons_self)
    have hn := nextChar_plain t c (w ++ rest) (by omega) (by omega) (by omega)
    rw [hc] at hn
    have ih' := ih (fun x hx => hw x (List.mem_cons_of_mem _ hx))
    rw [List.cons_append, readWord]; split <;> simp_all

end PlasVerif.Proofs.Tokenizer

namespace PlasVerif.Proofs.Tokenizer
open PlasVerif.Model.Catcodes PlasVerif.Model.Tokenizer

@[simp] theorem tokFrom_nil (t : CatTable) (st : St) (p : Bool) : tokFrom t st p [] = [] :=
  tok_eof _ _ _ _ (nextChar_nil t)

/-- the whole token list is the first pulled token followed by the tokens of the state after it:
    pulling lazily and tokenizing eagerly agree while the table stays fixed -/
theorem tokFrom_step (t : CatTable) (st : St) (p : Bool) (cs : List Nat) :
    tokFrom t st p cs = match tokStep t st p cs with
      | none => []
      | some (tok, st', p', cs') => tok :: tokFrom t st' p' cs' := by
  fun_induction tokStep t st p cs <;> rw [tokFrom] <;> split <;> simp_all <;> (try (split <;> simp_all))
  all_goals (first | omega | (obtain ⟨_, _, h3⟩ := ‹_ ∧ _ ∧ _ = _›; subst h3; exact ⟨rfl, rfl⟩))


/-- with no table change a schedule of pulls yields exactly the eager token list -/
theorem pullN_tokFrom (t : CatTable) (n : Nat) : ∀ (st : St) (p : Bool) (cs : List Nat),
    (pullN t n st p cs).1 ++ tokFrom t (pullN t n st p cs).2.1 (pullN t n st p cs).2.2.1 (pullN t n st p cs).2.2.2
      = tokFrom t st p cs := by
  induction n with
  | zero => intro st p cs; simp [pullN]
  | succ n ih =>
    intro st p cs
    rw [tokFrom_step t st p cs]
    simp only [pullN]
    cases h : tokStep t st p cs with
    | none => simp [tok_eof _ _ _ _ (nextChar_nil t)]
    | some r =>
      obtain ⟨tok, st', p', cs'⟩ := r
      simp only [List.cons_append]
      rw [ih st' p' cs']

end PlasVerif.Proofs.Tokenizer
