import PlasVerif.Spec.Mode
namespace PlasVerif.Proofs.Mode
open PlasVerif.Model.Mode PlasVerif.Spec.Mode

theorem scan_append_some (s : List (Option Bool)) (b : Bool) : isMathMode (s ++ [some b]) = b := by
  simp [isMathMode, scanInnermostFirst]

theorem scan_append_none (s : List (Option Bool)) : isMathMode (s ++ [none]) = isMathMode s := by
  simp [isMathMode, scanInnermostFirst]

theorem modeAfter_append (s : List (Option Bool)) (m : Option Bool) :
    modeAfter (s ++ [m]) = (match m with | some b => b | none => modeAfter s) := by
  cases m <;> simp [modeAfter, List.foldl_append]

theorem scan_eq (r : List (Option Bool)) : scanInnermostFirst r = modeAfter r.reverse := by
  induction r with
  | nil => rfl
  | cons m r ih =>
    rw [List.reverse_cons, modeAfter_append]
    cases m with
    | none => simpa [scanInnermostFirst] using ih
    | some b => rfl

/-- the mode the code finds is the mode in force: the innermost context that sets one decides, whatever encloses it -/
theorem isMathMode_eq (s : List (Option Bool)) : isMathMode s = modeAfter s := by
  simp [isMathMode, scan_eq]


/-- in math mode the argument's text is exactly what was written -/
theorem argText_math (stack : List (Option Bool)) (subs : List (List Nat × List Nat)) (t : List Nat)
    (h : isMathMode stack = true) : argText stack subs t = t := by
  simp [argText, charsubsFor, h, applySubs]

/-- a formula is math whatever encloses it: the argument written directly in it is bound literally -/
theorem argText_formula (outer : List (Option Bool)) (groups : Nat) (subs : List (List Nat × List Nat)) (t : List Nat) :
    argText (outer ++ [some true] ++ List.replicate groups none) subs t = t := by
  apply argText_math
  induction groups with
  | zero => simpa using scan_append_some outer true
  | succ n ih =>
    rw [List.replicate_succ', ← List.append_assoc, scan_append_none]; exact ih

end PlasVerif.Proofs.Mode
