import PlasVerif.Spec.Conform
/-! Helper lemmas for the numeric clause of C05.  Property statements are in `Properties/C05.lean`. -/
namespace PlasVerif.Proofs.Numbers
open PlasVerif.Spec.Conform
open PlasVerif.Model.Numbers PlasVerif.Spec.Literals

/-- forget whether a token has already been expanded in place (its TeX source is the same) -/
def erase : Tok → Tok
  | .bg _ => .bg false | .eg _ => .eg false | .cs n _ => .cs n false | .reg v _ => .reg v false
  | t => t

/-- same text: equal up to the in-place expansion flags -/
def sameText (a b : List Tok) : Prop := a.map erase = b.map erase

theorem erase_expand (t : Tok) : erase (expand t) = erase t := by cases t <;> rfl
theorem sameText_refl (a : List Tok) : sameText a a := rfl
theorem sameText_settle (r : List Tok) : sameText (settle r) r := by
  cases r with
  | nil => rfl
  | cons t ts => simp [settle, sameText, erase_expand]



theorem noSp_of_noSign {r : List Tok} (h : noSign r = true) : noSp r = true := by
  unfold noSign at h; unfold noSp; split <;> simp_all

theorem ros_spaces (n : Nat) (r : List Tok) (h : noSp r = true) : readOptionalSpaces (spaces n ++ r) = r := by
  induction n with
  | zero =>
    simp only [spaces, List.replicate, List.nil_append]
    cases r with
    | nil => rfl
    | cons t ts =>
      cases t <;> simp_all [readOptionalSpaces, noSp]
  | succ n ih =>
    simp only [spaces, List.replicate_succ, List.cons_append, readOptionalSpaces] at *
    simpa using ih

theorem signLoop_spaces (s : Int) (n : Nat) (r : List Tok) : signLoop s (spaces n ++ r) = signLoop s r := by
  induction n with
  | zero => simp [spaces]
  | succ n ih => simpa [spaces, List.replicate_succ, signLoop, expand] using ih

theorem signLoop_items (items : List (Bool × Nat)) (s : Int) (r : List Tok) :
    signLoop s (renderItems items ++ r) = signLoop (s * parity items) r := by
  induction items generalizing s with
  | nil => simp [renderItems, parity]
  | cons it rest ih =>
    obtain ⟨m, k⟩ := it
    cases m
    · simp only [renderItems, signTok, parity, List.cons_append, List.append_assoc, signLoop, expand]
      simp [signLoop_spaces, ih]
    · simp only [renderItems, signTok, parity, List.cons_append, List.append_assoc, signLoop, expand]
      simp [signLoop_spaces, ih, Int.neg_mul, Int.mul_neg]

theorem signLoop_stop (s : Int) (r : List Tok) (h : noSign r = true) : signLoop s r = (s, settle r) := by
  cases r with
  | nil => rfl
  | cons t ts =>
    cases t with
    | ch c =>
      have h1 : c ≠ 43 := by intro e; subst e; simp [noSign] at h
      have h2 : c ≠ 45 := by intro e; subst e; simp [noSign] at h
      simp only [signLoop, expand, settle]
      split <;> simp_all
    | sp => simp [noSign] at h
    | bg x => simp [signLoop, expand, settle]
    | eg x => simp [signLoop, expand, settle]
    | cs n x => simp [signLoop, expand, settle]
    | reg v x => simp [signLoop, expand, settle]

theorem noSp_items (items : List (Bool × Nat)) (r : List Tok) (h : noSp r = true) : noSp (renderItems items ++ r) = true := by
  cases items with
  | nil => simpa [renderItems] using h
  | cons it rest => obtain ⟨m, k⟩ := it; simp [renderItems, signTok, noSp]

/-- the sign scanner on a rendered sign run -/
theorem readSigns_render (s : Signs) (r : List Tok) (h : noSign r = true) :
    readOptionalSigns (s.render ++ r) = (s.den, settle r) := by
  unfold readOptionalSigns Signs.render Signs.den
  rw [List.append_assoc, ros_spaces _ _ (noSp_items _ _ (noSp_of_noSign h)), signLoop_items, signLoop_stop _ _ h]
  simp


/-! ### digit runs -/

theorem digitVal_digitChar (d : Nat) (h : d < 16) : digitVal (digitChar d) = d := by
  unfold digitVal digitChar; split <;> (try split) <;> (try split) <;> omega

theorem natOfDigits_render (base : Nat) (ds : List Nat) (h : ∀ d ∈ ds, d < 16) (acc : Nat) :
    (ds.map digitChar).foldl (fun a c => a * base + digitVal c) acc = ds.foldl (fun a d => a * base + d) acc := by
  induction ds generalizing acc with
  | nil => rfl
  | cons d ds ih =>
    simp only [List.map_cons, List.foldl_cons]
    rw [digitVal_digitChar d (h d (List.mem_cons_self)), ih (fun x hx => h x (List.mem_cons_of_mem _ hx))]

theorem natOfDigits_eq (base : Nat) (ds : List Nat) (h : ∀ d ∈ ds, d < 16) :
    natOfDigits base (ds.map digitChar) = digitsVal base ds := natOfDigits_render base ds h 0

/-- what `readSequence` leaves of a stream whose head does not belong to the sequence -/
def seqRest (opt : Bool) : List Tok → List Tok
  | [] => []
  | .sp :: ts => if opt then ts else .sp :: ts
  | t :: ts => expand t :: ts


theorem readSeq_stop (p : Nat → Bool) (opt : Bool) (r : List Tok) (h : stops p r = true) :
    readSeq p opt r = ([], seqRest opt r) := by
  cases r with
  | nil => rfl
  | cons t ts => cases t <;> (try cases opt) <;> simp_all [readSeq, expand, seqRest, stops]

theorem readSeq_run (p : Nat → Bool) (opt : Bool) (cs : List Nat) (r : List Tok) (hp : ∀ c ∈ cs, p c = true)
    (h : stops p r = true) : readSeq p opt (cs.map .ch ++ r) = (cs, seqRest opt r) := by
  induction cs with
  | nil => simpa using readSeq_stop p opt r h
  | cons c cs ih =>
    have := ih (fun x hx => hp x (List.mem_cons_of_mem _ hx))
    simp [readSeq, expand, hp c (List.mem_cons_self), this]

theorem sameText_seqRest_noopt (r : List Tok) : sameText (seqRest false r) r := by
  cases r with
  | nil => rfl
  | cons t ts => cases t <;> simp [seqRest, sameText, erase, expand]

theorem isDigit_digitChar (d : Nat) (h : d < 10) : isDigit (digitChar d) = true := by
  unfold isDigit digitChar; simp [h]; omega
theorem isOct_digitChar (d : Nat) (h : d < 8) : isOct (digitChar d) = true := by
  have : d < 10 := by omega
  unfold isOct digitChar; simp [this]; omega
theorem isHex_digitChar (d : Nat) (h : d < 16) : isHex (digitChar d) = true := by
  unfold isHex isDigit digitChar; split <;> simp <;> omega


/-! ### integers -/



theorem seqRest_noSp (r : List Tok) (h : noSp r = true) : seqRest true r = settle r := by
  cases r with
  | nil => rfl
  | cons t ts => cases t <;> simp_all [seqRest, settle, noSp, expand]

theorem expand_idem (t : Tok) : expand (expand t) = expand t := by cases t <;> rfl

/-- the look-ahead for a register coefficient after a decimal constant, when there is none -/
theorem coef_none (num : Int) (r : List Tok) (h : notReg r = true) :
    (match settle r with
      | [] => (Except.ok (num, []) : Except Err (Int × List Tok))
      | u :: us =>
        match expand u with
        | .reg v _ => .ok (num * v, us)
        | u' => .ok (num, u' :: us)) = .ok (num, settle r) := by
  cases r with
  | nil => rfl
  | cons t ts => cases t <;> simp_all [settle, expand, notReg]

theorem coef_none' (num : Int) (r : List Tok) (h : notReg r = true) :
    (match r with
      | [] => (Except.ok (num, []) : Except Err (Int × List Tok))
      | u :: us =>
        match expand u with
        | .reg v _ => .ok (num * v, us)
        | u' => .ok (num, u' :: us)) = .ok (num, settle r) := by
  cases r with
  | nil => rfl
  | cons t ts => cases t <;> simp_all [settle, expand, notReg]

theorem digitChar_ne_sign (d : Nat) (h : d < 16) : digitChar d ≠ 43 ∧ digitChar d ≠ 45 := by
  unfold digitChar; split <;> omega

theorem noSign_ch (c : Nat) (ts : List Tok) (h1 : c ≠ 43) (h2 : c ≠ 45) : noSign (.ch c :: ts) = true := by
  unfold noSign; split <;> simp_all

theorem int_dec (sg : Signs) (d : Nat) (ds : List Nat) (sp : Bool) (rest : List Tok)
    (hd : ∀ x ∈ d :: ds, x < 10)
    (hf : (if sp then notReg rest else stops isDigit rest && noSp rest && notReg rest) = true) :
    readInteger true (sg.render ++ ((d :: ds).map (fun x => Tok.ch (digitChar x)) ++ optSpace sp ++ rest)) =
      .ok (sg.den * (digitsVal 10 (d :: ds) : Nat), settle rest) := by
  have hd0 : d < 10 := hd d (List.mem_cons_self)
  have hds : ∀ x ∈ ds, x < 10 := fun x hx => hd x (List.mem_cons_of_mem _ hx)
  have hns := noSign_ch (digitChar d) (ds.map (fun x => Tok.ch (digitChar x)) ++ optSpace sp ++ rest)
    (digitChar_ne_sign d (by omega)).1 (digitChar_ne_sign d (by omega)).2
  have hsig := readSigns_render sg _ hns
  have hmap : ds.map (fun x => Tok.ch (digitChar x)) = (ds.map digitChar).map Tok.ch := by simp
  have hval : natOfDigits 10 (digitChar d :: ds.map digitChar) = digitsVal 10 (d :: ds) := by
    have := natOfDigits_eq 10 (d :: ds) (fun x hx => by have := hd x hx; omega)
    simpa using this
  have hpd : ∀ c ∈ ds.map digitChar, isDigit c = true := by
    intro c hc; simp at hc; obtain ⟨x, hx, rfl⟩ := hc; exact isDigit_digitChar x (hds x hx)
  simp only [List.map_cons, List.cons_append, List.append_assoc] at hsig ⊢
  simp only [readInteger, hsig, settle, expand, isDigit_digitChar d hd0, if_true]
  cases sp with
  | true =>
    simp only [if_true] at hf
    have hrun := readSeq_run isDigit true (ds.map digitChar) (optSpace true ++ rest) hpd (by simp [optSpace, stops])
    rw [hmap, hrun]
    simp only [optSpace, if_true, List.cons_append, List.nil_append, seqRest, hval]
    exact coef_none' _ rest hf
  | false =>
    simp only [Bool.false_eq_true, if_false, Bool.and_eq_true] at hf
    have hrun := readSeq_run isDigit true (ds.map digitChar) (optSpace false ++ rest) hpd (by simpa [optSpace] using hf.1.1)
    rw [hmap, hrun]
    simp only [optSpace, Bool.false_eq_true, if_false, List.nil_append, hval, seqRest_noSp rest hf.1.2]
    exact coef_none _ rest hf.2


theorem int_radix (sg : Signs) (q : Nat) (p : Nat → Bool) (base : Nat) (ds : List Nat) (sp : Bool) (rest : List Tok)
    (hq : q = 39 ∧ p = isOct ∧ base = 8 ∨ q = 34 ∧ p = isHex ∧ base = 16)
    (hd : ∀ x ∈ ds, x < 16) (hp : ∀ x ∈ ds, p (digitChar x) = true)
    (hf : (sp || (stops p rest && noSp rest)) = true) :
    readInteger true (sg.render ++ (Tok.ch q :: ds.map (fun x => Tok.ch (digitChar x)) ++ optSpace sp ++ rest)) =
      .ok (sg.den * (digitsVal base ds : Nat), if sp then rest else settle rest) := by
  have hns := noSign_ch q (ds.map (fun x => Tok.ch (digitChar x)) ++ optSpace sp ++ rest)
    (by rcases hq with h | h <;> omega) (by rcases hq with h | h <;> omega)
  have hsig := readSigns_render sg _ hns
  have hmap : ds.map (fun x => Tok.ch (digitChar x)) = (ds.map digitChar).map Tok.ch := by simp
  have hval : natOfDigits base (ds.map digitChar) = digitsVal base ds := natOfDigits_eq base ds hd
  have hpd : ∀ c ∈ ds.map digitChar, p c = true := by
    intro c hc; simp at hc; obtain ⟨x, hx, rfl⟩ := hc; exact hp x hx
  simp only [List.cons_append, List.append_assoc] at hsig ⊢
  have hrun : readSeq p true ((ds.map digitChar).map Tok.ch ++ (optSpace sp ++ rest)) =
      (ds.map digitChar, if sp then rest else settle rest) := by
    cases sp with
    | true =>
      rw [readSeq_run p true _ _ hpd (by simp [optSpace, stops])]
      simp [optSpace, seqRest]
    | false =>
      simp only [Bool.false_or, Bool.and_eq_true] at hf
      rw [readSeq_run p true _ _ hpd (by simpa [optSpace] using hf.1)]
      simp [optSpace, seqRest_noSp rest hf.2]
  rw [hmap] at hsig ⊢
  rcases hq with ⟨rfl, rfl, rfl⟩ | ⟨rfl, rfl, rfl⟩
  · simp only [readInteger, hsig, settle, expand, hrun, hval]
    simp [isDigit]
  · simp only [readInteger, hsig, settle, expand, hrun, hval]
    simp [isDigit]

theorem int_chr (sg : Signs) (u : Tok) (c : Nat) (rest : List Tok) (hu : ordTok u = .ok (c : Int)) :
    readInteger true (sg.render ++ (Tok.ch 96 :: u :: rest)) = .ok (sg.den * (c : Int), rest) := by
  have hsig := readSigns_render sg (Tok.ch 96 :: u :: rest) (noSign_ch 96 _ (by omega) (by omega))
  simp only [readInteger, hsig, settle, expand, hu]
  simp [isDigit]

theorem int_reg (sg : Signs) (v : Int) (rest : List Tok) :
    readInteger true (sg.render ++ (Tok.reg v false :: rest)) = .ok (sg.den * v, rest) := by
  have hsig := readSigns_render sg (Tok.reg v false :: rest) (by simp [noSign])
  simp only [readInteger, hsig, settle, expand]

/-- every well-formed integer literal followed by tokens that cannot continue it is read as its TeX value,
    and exactly the literal is consumed (the next token may have been expanded in place) -/
theorem integer_reads_exact (l : IntLit) (rest : List Tok) (hw : l.wf = true) (hf : intFollow l rest = true) :
    ∃ rest', readInteger true (l.render ++ rest) = .ok (l.den, rest') ∧ (rest' = rest ∨ rest' = settle rest) := by
  obtain ⟨sg, body, sp⟩ := l
  cases body with
  | dec ds =>
    cases ds with
    | nil => simp [IntLit.wf, IntBody.wf] at hw
    | cons d ds =>
      refine ⟨settle rest, ?_, Or.inr rfl⟩
      have hd : ∀ x ∈ d :: ds, x < 10 := by
        simp [IntLit.wf, IntBody.wf] at hw; intro x hx; simp at hx; rcases hx with rfl | hx; exact hw.1; exact hw.2 x hx
      have := int_dec sg d ds sp rest hd (by simpa [intFollow] using hf)
      simpa [IntLit.render, IntBody.render, IntLit.den, IntBody.den, List.append_assoc] using this
  | oct ds =>
    refine ⟨if sp then rest else settle rest, ?_, by cases sp <;> simp⟩
    have hd : ∀ x ∈ ds, x < 8 := by simp [IntLit.wf, IntBody.wf] at hw; exact hw.2
    have := int_radix sg 39 isOct 8 ds sp rest (Or.inl ⟨rfl, rfl, rfl⟩) (fun x hx => by have := hd x hx; omega)
      (fun x hx => isOct_digitChar x (hd x hx)) (by simpa [intFollow] using hf)
    simpa [IntLit.render, IntBody.render, IntLit.den, IntBody.den, List.append_assoc] using this
  | hex ds =>
    refine ⟨if sp then rest else settle rest, ?_, by cases sp <;> simp⟩
    have hd : ∀ x ∈ ds, x < 16 := by simp [IntLit.wf, IntBody.wf] at hw; exact hw.2
    have := int_radix sg 34 isHex 16 ds sp rest (Or.inr ⟨rfl, rfl, rfl⟩) hd
      (fun x hx => isHex_digitChar x (hd x hx)) (by simpa [intFollow] using hf)
    simpa [IntLit.render, IntBody.render, IntLit.den, IntBody.den, List.append_assoc] using this
  | chr c =>
    refine ⟨rest, ?_, Or.inl rfl⟩
    have hsp : sp = false := by simpa [IntLit.wf, IntBody.wf] using hw
    subst hsp
    have := int_chr sg (.ch c) c rest rfl
    simpa [IntLit.render, IntBody.render, IntLit.den, IntBody.den, optSpace] using this
  | chrCs c =>
    refine ⟨rest, ?_, Or.inl rfl⟩
    have hsp : sp = false := by simpa [IntLit.wf, IntBody.wf] using hw
    subst hsp
    have := int_chr sg (.cs [c] false) c rest rfl
    simpa [IntLit.render, IntBody.render, IntLit.den, IntBody.den, optSpace] using this
  | reg v =>
    refine ⟨rest, ?_, Or.inl rfl⟩
    have hsp : sp = false := by simpa [IntLit.wf, IntBody.wf] using hw
    subst hsp
    have := int_reg sg v rest
    simpa [IntLit.render, IntBody.render, IntLit.den, IntBody.den, optSpace] using this


theorem integer_reads (l : IntLit) (rest : List Tok) (hw : l.wf = true) (hf : intFollow l rest = true) :
    ∃ rest', readInteger true (l.render ++ rest) = .ok (l.den, rest') ∧ sameText rest' rest := by
  obtain ⟨r', h, hr⟩ := integer_reads_exact l rest hw hf
  refine ⟨r', h, ?_⟩
  rcases hr with rfl | rfl
  · exact sameText_refl _
  · exact sameText_settle _

/-! ### decimal constants -/



def sepChar (c : Bool) : Nat := if c then 44 else 46

theorem decVal_render (ip fp : List Nat) (hi : ∀ x ∈ ip, x < 10) (hf : ∀ x ∈ fp, x < 10) :
    decVal (ip.map digitChar) (fp.map digitChar) =
      (digitsVal 10 ip : Nat) + ((digitsVal 10 fp : Nat) : Rat) / ((10 ^ fp.length : Nat) : Rat) := by
  unfold decVal
  rw [natOfDigits_eq 10 ip (fun x hx => by have := hi x hx; omega),
      natOfDigits_eq 10 fp (fun x hx => by have := hf x hx; omega), List.length_map]

theorem isDigit_all (ds : List Nat) (h : ∀ x ∈ ds, x < 10) : ∀ c ∈ ds.map digitChar, isDigit c = true := by
  intro c hc; simp at hc; obtain ⟨x, hx, rfl⟩ := hc; exact isDigit_digitChar x (h x hx)

theorem map_ch (ds : List Nat) : ds.map (fun x => Tok.ch (digitChar x)) = (ds.map digitChar).map Tok.ch := by simp

/-- tail of `readDecimal` after the integer part when no separator follows -/
theorem dec_nosep (v : Rat) (r : List Tok) (h : notSep r = true) :
    (match r with
      | [] => (Except.ok (v, []) : Except Err (Rat × List Tok))
      | u :: us =>
        match expand u with
        | .ch d =>
          if (d = 46 || d = 44) = true then
            let f := readSeq isDigit true us
            .ok (v + 1000 * (f.1.length : Rat), f.2)
          else .ok (v, .ch d :: us)
        | u' => .ok (v, u' :: us)) = .ok (v, settle r) := by
  cases r with
  | nil => rfl
  | cons t ts =>
    cases t with
    | ch c =>
      have h1 : c ≠ 46 := by intro e; subst e; simp [notSep] at h
      have h2 : c ≠ 44 := by intro e; subst e; simp [notSep] at h
      simp [expand, settle, h1, h2]
    | _ => simp [expand, settle]

theorem dec_int (sg : Signs) (d : Nat) (ds : List Nat) (rest : List Tok) (hd : ∀ x ∈ d :: ds, x < 10)
    (hf : (stops isDigit rest && notSep rest) = true) :
    readDecimal (sg.render ++ ((d :: ds).map (fun x => Tok.ch (digitChar x)) ++ rest)) =
      .ok ((sg.den : Rat) * ((digitsVal 10 (d :: ds) : Nat) + ((digitsVal 10 [] : Nat) : Rat) / ((10 ^ 0 : Nat) : Rat)), settle rest) := by
  have hd0 : d < 10 := hd d (List.mem_cons_self)
  have hds : ∀ x ∈ ds, x < 10 := fun x hx => hd x (List.mem_cons_of_mem _ hx)
  simp only [Bool.and_eq_true] at hf
  have hns := noSign_ch (digitChar d) (ds.map (fun x => Tok.ch (digitChar x)) ++ rest)
    (digitChar_ne_sign d (by omega)).1 (digitChar_ne_sign d (by omega)).2
  have hsig := readSigns_render sg _ hns
  have hv := decVal_render (d :: ds) [] hd (by simp)
  simp only [List.map_cons, List.map_nil, List.length_nil] at hv
  simp only [List.map_cons, List.cons_append] at hsig ⊢
  rw [map_ch] at hsig ⊢
  have hrun := readSeq_run isDigit false (ds.map digitChar) rest (isDigit_all ds hds) hf.1
  simp only [readDecimal, hsig, settle, expand, isDigit_digitChar d hd0, if_true, hrun, hv]
  cases rest with
  | nil => rfl
  | cons t ts =>
    cases t with
    | ch c =>
      have h1 : c ≠ 46 := by intro e; subst e; simp [notSep] at hf
      have h2 : c ≠ 44 := by intro e; subst e; simp [notSep] at hf
      simp [seqRest, expand, settle, h1, h2]
    | _ => simp [seqRest, expand, settle]

theorem dec_frac (sg : Signs) (d : Nat) (ds : List Nat) (c : Bool) (fp : List Nat) (rest : List Tok)
    (hd : ∀ x ∈ d :: ds, x < 10) (hfp : ∀ x ∈ fp, x < 10)
    (hf : stops isDigit rest = true) :
    readDecimal (sg.render ++ ((d :: ds).map (fun x => Tok.ch (digitChar x)) ++ [Tok.ch (if c then 44 else 46)] ++
        fp.map (fun x => Tok.ch (digitChar x)) ++ rest)) =
      .ok ((sg.den : Rat) * ((digitsVal 10 (d :: ds) : Nat) + ((digitsVal 10 fp : Nat) : Rat) / ((10 ^ fp.length : Nat) : Rat)), seqRest true rest) := by
  have hd0 : d < 10 := hd d (List.mem_cons_self)
  have hds : ∀ x ∈ ds, x < 10 := fun x hx => hd x (List.mem_cons_of_mem _ hx)
  have hns := noSign_ch (digitChar d) (ds.map (fun x => Tok.ch (digitChar x)) ++ [Tok.ch (if c then 44 else 46)] ++
      fp.map (fun x => Tok.ch (digitChar x)) ++ rest)
    (digitChar_ne_sign d (by omega)).1 (digitChar_ne_sign d (by omega)).2
  have hsig := readSigns_render sg _ hns
  have hv := decVal_render (d :: ds) fp hd hfp
  simp only [List.map_cons] at hv
  simp only [List.map_cons, List.cons_append, List.append_assoc, List.nil_append] at hsig ⊢
  rw [map_ch ds, map_ch fp] at hsig ⊢
  have hsepnd : stops isDigit (Tok.ch (if c then 44 else 46) :: ((fp.map digitChar).map Tok.ch ++ rest)) = true := by
    cases c <;> simp [stops, isDigit]
  have hrun := readSeq_run isDigit false (ds.map digitChar) _ (isDigit_all ds hds) hsepnd
  have hrun2 := readSeq_run isDigit true (fp.map digitChar) rest (isDigit_all fp hfp) hf
  generalize seqRest true rest = SR at hrun2 ⊢
  simp only [readDecimal, hsig, settle, expand, isDigit_digitChar d hd0, if_true, hrun, seqRest]
  have hrun2' : readSeq isDigit true (List.map (Tok.ch ∘ digitChar) fp ++ rest) = (fp.map digitChar, SR) := by
    simpa [List.map_map] using hrun2
  cases c <;> simp [expand, hrun2', hv]

theorem dec_lead (sg : Signs) (c : Bool) (fp : List Nat) (rest : List Tok) (hfp : ∀ x ∈ fp, x < 10)
    (hf : stops isDigit rest = true) :
    readDecimal (sg.render ++ ([Tok.ch (if c then 44 else 46)] ++ fp.map (fun x => Tok.ch (digitChar x)) ++ rest)) =
      .ok ((sg.den : Rat) * ((digitsVal 10 [] : Nat) + ((digitsVal 10 fp : Nat) : Rat) / ((10 ^ fp.length : Nat) : Rat)), seqRest true rest) := by
  have hns := noSign_ch (if c then 44 else 46) (fp.map (fun x => Tok.ch (digitChar x)) ++ rest)
    (by cases c <;> simp) (by cases c <;> simp)
  have hsig := readSigns_render sg _ hns
  have hv := decVal_render [] fp (by simp) hfp
  simp only [List.map_nil] at hv
  simp only [List.cons_append, List.append_assoc, List.nil_append] at hsig ⊢
  rw [map_ch fp] at hsig ⊢
  have hrun2 := readSeq_run isDigit true (fp.map digitChar) rest (isDigit_all fp hfp) hf
  generalize seqRest true rest = SR at hrun2 ⊢
  simp only [readDecimal, hsig, settle, expand]
  have hrun2' : readSeq isDigit true (List.map (Tok.ch ∘ digitChar) fp ++ rest) = (fp.map digitChar, SR) := by
    simpa [List.map_map] using hrun2
  cases c <;> simp [isDigit, hrun2', hv]

/-- what the decimal scanner leaves: the next token expanded in place; after a fraction part one blank is absorbed -/
def decRest (d : DecBody) (rest : List Tok) : List Tok :=
  match d.sep with
  | none => settle rest
  | some _ => seqRest true rest


theorem decimal_reads' (l : DecLit) (rest : List Tok) (hw : l.body.wf = true) (hf : decFollow' l.body rest = true) :
    readDecimal (l.render ++ rest) = .ok (l.den, decRest l.body rest) := by
  obtain ⟨sg, ⟨ip, sep, fp⟩⟩ := l
  simp only [DecBody.wf, Bool.and_eq_true, List.all_eq_true, decide_eq_true_eq] at hw
  cases sep with
  | none =>
    have hw2 := hw.2
    simp only [Bool.and_eq_true, List.isEmpty_iff, Bool.not_eq_true'] at hw2
    have hfe : fp = [] := hw2.2
    subst hfe
    cases ip with
    | nil => simp at hw2
    | cons d ds =>
      have := dec_int sg d ds rest hw.1.1 (by simpa [decFollow'] using hf)
      simpa [DecLit.render, DecBody.render, DecLit.den, DecBody.den, List.append_assoc, decRest] using this
  | some c =>
    cases ip with
    | nil =>
      have := dec_lead sg c fp rest hw.1.2 (by simpa [decFollow'] using hf)
      simpa [DecLit.render, DecBody.render, DecLit.den, DecBody.den, List.append_assoc, decRest] using this
    | cons d ds =>
      have := dec_frac sg d ds c fp rest hw.1.1 hw.1.2 (by simpa [decFollow'] using hf)
      simpa [DecLit.render, DecBody.render, DecLit.den, DecBody.den, List.append_assoc, decRest] using this

/-- every well-formed decimal constant followed by tokens that cannot continue it is read as its value -/
theorem decimal_reads (l : DecLit) (rest : List Tok) (hw : l.body.wf = true) (hf : decFollow l.body rest = true) :
    readDecimal (l.render ++ rest) = .ok (l.den, settle rest) := by
  have h' : decFollow' l.body rest = true := by
    unfold decFollow at hf; unfold decFollow'
    cases hs : l.body.sep <;> simp_all
  rw [decimal_reads' l rest hw h']
  unfold decRest
  cases hs : l.body.sep with
  | none => rfl
  | some c =>
    have : noSp rest = true := by unfold decFollow at hf; simp_all
    simp [seqRest_noSp rest this]

/-! ### dimensions: composition of the sign, decimal and unit readers -/

theorem dec_render_head (d : DecBody) (hw : d.wf = true) :
    ∃ c tl, d.render = Tok.ch c :: tl ∧ c ≠ 43 ∧ c ≠ 45 := by
  obtain ⟨ip, sep, fp⟩ := d
  simp only [DecBody.wf, Bool.and_eq_true, List.all_eq_true, decide_eq_true_eq] at hw
  cases ip with
  | cons x xs =>
    have hx : x < 10 := hw.1.1 x (List.mem_cons_self)
    exact ⟨digitChar x, _, by simp only [DecBody.render, List.map_cons, List.cons_append]; rfl,
      (digitChar_ne_sign x (by omega)).1, (digitChar_ne_sign x (by omega)).2⟩
  | nil =>
    cases sep with
    | none => simp at hw
    | some c => exact ⟨if c then 44 else 46, _, by simp only [DecBody.render, List.map_nil, List.nil_append, List.cons_append]; rfl,
        by cases c <;> simp, by cases c <;> simp⟩

/-- `readDimen` on sign run + decimal constant + anything that cannot continue the constant: the value is the repaired
    product of the signed constant with whatever `readUnitOfMeasure` reads next -/
theorem dimen_compose (comb : Rat → Rat → Rat) (units : List (List Nat × Rat)) (sg : Signs) (d : DecBody) (X : List Tok)
    (hw : d.wf = true) (hf : decFollow' d X = true) :
    readDimenWith comb units (sg.render ++ (d.render ++ X)) =
      .ok (comb ((sg.den : Rat) * d.den) (readUnit units (decRest d X)).1, (readUnit units (decRest d X)).2) := by
  obtain ⟨c, tl, hr, h1, h2⟩ := dec_render_head d hw
  have hsig := readSigns_render sg (d.render ++ X) (by rw [hr]; exact noSign_ch c _ h1 h2)
  have hdec := decimal_reads' ⟨⟨0, []⟩, d⟩ X hw hf
  simp only [DecLit.render, Signs.render, spaces, List.replicate, renderItems, List.nil_append, DecLit.den, Signs.den,
    parity] at hdec
  have h1' : ((1 : Int) : Rat) * d.den = d.den := by simp
  rw [h1'] at hdec
  generalize decRest d X = S at hdec ⊢
  simp only [readDimenWith, hsig]
  rw [hr] at hdec ⊢
  simp only [List.cons_append, settle, expand]
  simp only [List.cons_append] at hdec
  rw [hdec]

/-! ### fil encoding -/

theorem decode_enc (K : Rat) (k : Nat) (hK : K = 2000000000 ∧ k = 1 ∨ K = 4000000000 ∧ k = 2 ∨ K = 6000000000 ∧ k = 3)
    (a : Rat) (h1 : -2000000000 < a) (h2 : a < 2000000000) :
    decode (if a < 0 then a - K else a + K) = (k, a) := by
  rcases hK with ⟨rfl, rfl⟩ | ⟨rfl, rfl⟩ | ⟨rfl, rfl⟩ <;>
  · by_cases ha : a < 0
    · simp only [ha, if_true, decode, filAmount, absR]
      repeat' split
      all_goals first | (exfalso; grind) | (simp only [Prod.mk.injEq]; constructor <;> grind)
    · simp only [ha, if_false, decode, filAmount, absR]
      repeat' split
      all_goals first | (exfalso; grind) | (simp only [Prod.mk.injEq]; constructor <;> grind)

theorem combine_fil_unit (u K : Rat) (k : Nat)
    (hu : u = 2000000001 ∧ K = 2000000000 ∧ k = 1 ∨ u = 4000000001 ∧ K = 4000000000 ∧ k = 2 ∨ u = 6000000001 ∧ K = 6000000000 ∧ k = 3)
    (a : Rat) : combine a u = if a < 0 then a - K else a + K := by
  rcases hu with ⟨rfl, rfl, rfl⟩ | ⟨rfl, rfl, rfl⟩ | ⟨rfl, rfl, rfl⟩
  · have e1 : (absR 2000000001 ≥ 2000000000) = True := by decide +kernel
    have e2 : filAmount 2000000001 = 1 := by decide +kernel
    have e3 : (2000000001 - 1 : Rat) = 2000000000 := by decide +kernel
    simp only [combine, e1, if_true, e2, e3, Rat.mul_one]
  · have e1 : (absR 4000000001 ≥ 2000000000) = True := by decide +kernel
    have e2 : filAmount 4000000001 = 1 := by decide +kernel
    have e3 : (4000000001 - 1 : Rat) = 4000000000 := by decide +kernel
    simp only [combine, e1, if_true, e2, e3, Rat.mul_one]
  · have e1 : (absR 6000000001 ≥ 2000000000) = True := by decide +kernel
    have e2 : filAmount 6000000001 = 1 := by decide +kernel
    have e3 : (6000000001 - 1 : Rat) = 6000000000 := by decide +kernel
    simp only [combine, e1, if_true, e2, e3, Rat.mul_one]

end PlasVerif.Proofs.Numbers
