import PlasVerif.Model.Macro
import PlasVerif.Spec.TeXMacro
/-! Helper lemmas for C02. -/
namespace PlasVerif.Proofs.Macro
open PlasVerif.Model.Macro PlasVerif.Spec.TeXMacro

/-! ### substitution -/

theorem tokInt_digit : ∀ n < 10, tokInt (digitTok n) = some n := by decide

theorem substGo_cons_nonparam (ps : Params) (prev : Bool) (t : Tok) (l : List Tok) (h : t.isParam = false) :
    substGo ps prev (t :: l) = (substGo ps (isIfx t) l).map (t :: ·) := by
  cases l with
  | nil => simp [substGo, h, Except.map]
  | cons u r => simp [substGo, h]

theorem substGo_hash_digit (ps : Params) (prev : Bool) (n : Nat) (hn : n < 10) (l : List Tok) :
    substGo ps prev (hashTok :: digitTok n :: l) = (substGo ps false l).map (paramText ps prev n ++ ·) := by
  have h1 : hashTok.isParam = true := rfl
  have h2 : (digitTok n).isParam = false := rfl
  simp [substGo, h1, h2, tokInt_digit n hn]

theorem substGo_hash_hash (ps : Params) (prev : Bool) (c : Nat) (l : List Tok) :
    substGo ps prev (.ch 6 c :: .ch 6 c :: l) = (substGo ps false l).map (Tok.ch 6 c :: ·) := by
  simp [substGo, Tok.isParam]

/-- well-formed replacement text for `n` arguments (NF-prog 5), without `\ifx` (C03's domain) -/
def WFItem (n : Nat) : BItem → Prop
  | .tok t => t.isParam = false ∧ isIfx t = false
  | .par k => 1 ≤ k ∧ k ≤ n ∧ k < 10
  | .hash _ => True

theorem paramText_arg (args : List (List Tok)) (k : Nat) (h1 : 1 ≤ k) (h2 : k ≤ args.length) :
    paramText (none :: args.map some) false k = args.getD (k - 1) [] := by
  obtain ⟨j, rfl⟩ : ∃ j, k = j + 1 := ⟨k - 1, by omega⟩
  have hj : j < args.length := by omega
  simp [paramText, List.getD, hj]

theorem substGo_render (args : List (List Tok)) (items : List BItem)
    (h : ∀ it ∈ items, WFItem args.length it) :
    substGo (none :: args.map some) false (renderBody items) = .ok (texSubst items args) := by
  induction items with
  | nil => simp [renderBody, texSubst, substGo]
  | cons it rest ih =>
    have hr := ih (fun x hx => h x (List.mem_cons_of_mem _ hx))
    have hi := h it List.mem_cons_self
    cases it with
    | tok t =>
      obtain ⟨hp, hx⟩ := hi
      simp only [renderBody, texSubst, List.flatMap_cons, renderItem, substItem, List.singleton_append] at hr ⊢
      rw [substGo_cons_nonparam _ _ _ _ hp, hx, hr]; rfl
    | par k =>
      obtain ⟨h1, h2, h3⟩ := hi
      simp only [renderBody, texSubst, List.flatMap_cons, renderItem, substItem, List.cons_append, List.nil_append] at hr ⊢
      rw [substGo_hash_digit _ _ _ h3, hr, paramText_arg _ _ h1 h2]; rfl
    | hash c =>
      simp only [renderBody, texSubst, List.flatMap_cons, renderItem, substItem, List.cons_append, List.nil_append] at hr ⊢
      rw [substGo_hash_hash, hr]; rfl

/-! ### readers -/

theorem dropSpaces_eq_skipBlanks (s : List Tok) : dropSpaces s = skipBlanks s := by
  induction s with
  | nil => rfl
  | cons t ts ih => simp [dropSpaces, skipBlanks, ih]

theorem eg_not_bg (t : Tok) (h : t.isEg = true) : t.isBg = false := by
  cases t with
  | ch cat c =>
    match cat, h with
    | 0, _ => rfl
    | 1, h => simp [Tok.isEg] at h
    | n + 2, _ => rfl
  | cs n => rfl
  | el n => rfl

/-- the model's group reader agrees with TeX's on every closed group -/
theorem readGroup_of_texGroup : ∀ (s : List Tok) (d : Nat) (inner rest : List Tok),
    texGroup d s = some (inner, rest) → readGroup (d + 1) s = (inner, rest) := by
  intro s
  induction s with
  | nil => intro d inner rest h; simp [texGroup] at h
  | cons t ts ih =>
    intro d inner rest h
    simp only [texGroup] at h
    by_cases he : t.isEg = true
    · have hb : t.isBg = false := eg_not_bg t he
      simp only [he, if_true] at h
      cases d with
      | zero => simp at h; obtain ⟨rfl, rfl⟩ := h; simp [readGroup, he, hb]
      | succ d =>
        simp only [Option.map_eq_some_iff] at h
        obtain ⟨⟨a, b⟩, hab, heq⟩ := h
        simp at heq; obtain ⟨rfl, rfl⟩ := heq
        have := ih d a b hab
        simp [readGroup, he, hb, this]
    · simp only [he] at h
      by_cases hb : t.isBg = true
      · simp only [hb, if_true, Bool.false_eq_true, if_false, Option.map_eq_some_iff] at h
        obtain ⟨⟨a, b⟩, hab, heq⟩ := h
        simp at heq; obtain ⟨rfl, rfl⟩ := heq
        have := ih (d + 1) a b hab
        simp [readGroup, hb, this]
      · simp only [hb, Bool.false_eq_true, if_false, Option.map_eq_some_iff] at h
        obtain ⟨⟨a, b⟩, hab, heq⟩ := h
        simp at heq; obtain ⟨rfl, rfl⟩ := heq
        have := ih d a b hab
        simp [readGroup, hb, he, this]

/-- NF-prog: no math shift as an argument -/
theorem readArgument_of_texUndelimited (s a rest : List Tok)
    (h : texUndelimited s = some (a, rest)) (hm : ∀ t ts, skipBlanks s = t :: ts → t.isMath = false) :
    readArgument s = (some a, rest) := by
  unfold texUndelimited at h
  unfold readArgument
  rw [dropSpaces_eq_skipBlanks]
  cases hs : skipBlanks s with
  | nil => simp [hs] at h
  | cons t ts =>
    have hmt := hm t ts hs
    simp only [hs] at h
    by_cases hb : t.isBg = true
    · simp only [hb, if_true] at h
      simp [readToken, hb, readGroup_of_texGroup ts 0 a rest h]
    · simp only [hb, Bool.false_eq_true, if_false] at h
      by_cases he : t.isEg = true
      · simp [he] at h
      · simp only [he, Bool.false_eq_true, if_false, Option.some.injEq, Prod.mk.injEq] at h
        obtain ⟨rfl, rfl⟩ := h
        simp [readToken, hb, hmt]

/-! ### environment -/

theorem lookup_setLocal_ne (a n : Name) (m : Meaning) (e : Env) (h : n ≠ a) :
    lookup a (setLocal n m e) = lookup a e := by
  have hb : (a == n) = false := by simp [Ne.symm h]
  cases e with
  | nil => simp [setLocal, lookup, List.lookup, hb]
  | cons f fs => simp [setLocal, lookup, List.lookup, hb]

theorem lookup_setLocal_same (a : Name) (m : Meaning) (e : Env) :
    lookup a (setLocal a m e) = some m := by
  cases e <;> simp [setLocal, lookup, List.lookup]

theorem lookup_setGlobal_ne (a n : Name) (m : Meaning) (h : n ≠ a) : ∀ e : Env,
    lookup a (setGlobal n m e) = lookup a e := by
  intro e
  have hb : (a == n) = false := by simp [Ne.symm h]
  induction e with
  | nil => simp [setGlobal, lookup, List.lookup, hb]
  | cons f fs ih =>
    cases fs with
    | nil => simp [setGlobal, lookup, List.lookup, hb]
    | cons g gs =>
      show (match f.lookup a with | some m => some m | none => lookup a (setGlobal n m (g :: gs))) = _
      rw [ih]; rfl

theorem filter_lookup_ne (a n : Name) (h : n ≠ a) (f : Frame) :
    (f.filter (fun p => p.1 ≠ n)).lookup a = f.lookup a := by
  induction f with
  | nil => rfl
  | cons p ps ih =>
    obtain ⟨k, v⟩ := p
    by_cases hk : k = n
    · have hak : (a == k) = false := by subst hk; simp [Ne.symm h]
      have : List.filter (fun p : Name × Meaning => decide (p.1 ≠ n)) ((k, v) :: ps) = List.filter (fun p => decide (p.1 ≠ n)) ps := by
        simp [List.filter, hk]
      rw [this, ih]; simp [List.lookup, hak]
    · have : List.filter (fun p : Name × Meaning => decide (p.1 ≠ n)) ((k, v) :: ps) = (k, v) :: List.filter (fun p => decide (p.1 ≠ n)) ps := by
        simp [List.filter, hk]
      rw [this]; simp only [List.lookup]; rw [ih]

theorem lookup_dropLocals_ne (a n : Name) (h : n ≠ a) : ∀ e : Env,
    lookup a (dropLocals n e) = lookup a e := by
  intro e
  induction e with
  | nil => rfl
  | cons f fs ih =>
    cases fs with
    | nil => rfl
    | cons g gs =>
      show (match (f.filter (fun p => p.1 ≠ n)).lookup a with | some m => some m | none => lookup a (dropLocals n (g :: gs))) = _
      rw [ih, filter_lookup_ne a n h]; rfl


/-! ### brace stripping: the scan of the D8/D17 fix is TeX's "the argument is a single group" -/

theorem texGroup_split : ∀ (r : List Tok) (d : Nat) (inner rest : List Tok),
    texGroup d r = some (inner, rest) → ∃ e, e.isEg = true ∧ r = inner ++ e :: rest := by
  intro r
  induction r with
  | nil => intro d inner rest h; simp [texGroup] at h
  | cons t ts ih =>
    intro d inner rest h
    simp only [texGroup] at h
    by_cases he : t.isEg = true
    · simp only [he, if_true] at h
      cases d with
      | zero => simp at h; obtain ⟨rfl, rfl⟩ := h; exact ⟨t, he, rfl⟩
      | succ d =>
        simp only [Option.map_eq_some_iff] at h
        obtain ⟨⟨a, b⟩, hab, heq⟩ := h
        simp at heq; obtain ⟨rfl, rfl⟩ := heq
        obtain ⟨e, hee, hr⟩ := ih d a b hab
        exact ⟨e, hee, by simp [hr]⟩
    · simp only [he] at h
      by_cases hb : t.isBg = true
      · simp only [hb, if_true, Bool.false_eq_true, if_false, Option.map_eq_some_iff] at h
        obtain ⟨⟨a, b⟩, hab, heq⟩ := h
        simp at heq; obtain ⟨rfl, rfl⟩ := heq
        obtain ⟨e, hee, hr⟩ := ih (d + 1) a b hab
        exact ⟨e, hee, by simp [hr]⟩
      · simp only [hb, Bool.false_eq_true, if_false, Option.map_eq_some_iff] at h
        obtain ⟨⟨a, b⟩, hab, heq⟩ := h
        simp at heq; obtain ⟨rfl, rfl⟩ := heq
        obtain ⟨e, hee, hr⟩ := ih d a b hab
        exact ⟨e, hee, by simp [hr]⟩

/-- does TeX's group reader consume exactly the whole list -/
def closesExactly (d : Nat) (r : List Tok) : Bool :=
  match texGroup d r with
  | some (_, []) => true
  | _ => false

theorem closesExactly_map (x : Option (List Tok × List Tok)) (t : Tok) :
    (match x.map (fun r => (t :: r.1, r.2)) with | some (_, []) => true | _ => false)
      = (match x with | some (_, []) => true | _ => false) := by
  cases x with
  | none => rfl
  | some r => obtain ⟨a, b⟩ := r; cases b <;> rfl

theorem closesAtEnd_eq : ∀ (r : List Tok) (d : Nat), closesAtEnd (d + 1) r = closesExactly d r := by
  intro r
  induction r with
  | nil => intro d; simp [closesAtEnd, closesExactly, texGroup]
  | cons t ts ih =>
    intro d
    by_cases he : t.isEg = true
    · have hb : t.isBg = false := eg_not_bg t he
      cases d with
      | zero =>
        simp only [closesAtEnd, hb, he, closesExactly, texGroup]
        cases ts <;> simp
      | succ d =>
        have := ih d
        simp only [closesAtEnd, hb, he, closesExactly, texGroup, if_true, Bool.false_eq_true, if_false,
          Nat.add_sub_cancel, closesExactly_map] at this ⊢
        simpa using this
    · by_cases hb : t.isBg = true
      · have := ih (d + 1)
        simp only [closesAtEnd, hb, he, closesExactly, texGroup, if_true, Bool.false_eq_true, if_false,
          closesExactly_map] at this ⊢
        simpa using this
      · have := ih d
        simp only [closesAtEnd, hb, he, closesExactly, texGroup, Bool.false_eq_true, if_false,
          closesExactly_map] at this ⊢
        simpa using this

/-- the brace stripping of the code (D8/D17 fix) is exactly TeX's rule -/
theorem stripDelimited_eq_texStrip (p : List Tok) : stripDelimited p = texStrip p := by
  cases p with
  | nil => rfl
  | cons b r =>
    by_cases hb : b.isBg = true
    · cases r with
      | nil => simp [stripDelimited, texStrip, hb, texGroup]
      | cons x xs =>
        have hc : closesAtEnd 0 (b :: x :: xs) = closesExactly 0 (x :: xs) := by
          rw [← closesAtEnd_eq]; simp [closesAtEnd, hb]
        simp only [stripDelimited, texStrip, hb, hc, closesExactly]
        cases hg : texGroup 0 (x :: xs) with
        | none => simp
        | some res =>
          obtain ⟨inner, rest⟩ := res
          cases rest with
          | nil =>
            obtain ⟨e, _, hr⟩ := texGroup_split _ _ _ _ hg
            simp [hr]
          | cons y ys => simp
    · simp [stripDelimited, texStrip, hb]

/-! ### delimited parameters -/

theorem isPrefix_eq : ∀ (d l : List Tok), isPrefix d l = true → d ++ l.drop d.length = l := by
  intro d
  induction d with
  | nil => intro l _; simp
  | cons a as ih =>
    intro l h
    cases l with
    | nil => simp [isPrefix] at h
    | cons b bs =>
      simp only [isPrefix, Bool.and_eq_true, beq_iff_eq] at h
      obtain ⟨rfl, h2⟩ := h
      simp [ih bs h2]

theorem texScan_split (d : List Tok) : ∀ (s : List Tok) (depth : Nat) (p rest : List Tok),
    texScan d depth s = some (p, rest) → s = p ++ d ++ rest := by
  intro s
  induction s with
  | nil => intro depth p rest h; simp [texScan] at h
  | cons t ts ih =>
    intro depth p rest h
    simp only [texScan] at h
    split at h
    · rename_i hc
      simp at h; obtain ⟨rfl, rfl⟩ := h
      simpa using (isPrefix_eq d (t :: ts) hc.2).symm
    · split at h
      · simp only [Option.map_eq_some_iff] at h
        obtain ⟨⟨a, b⟩, hab, heq⟩ := h
        simp at heq; obtain ⟨rfl, rfl⟩ := heq
        simp [ih _ _ _ hab]
      · split at h
        · cases depth with
          | zero => simp at h
          | succ k =>
            simp only [Option.map_eq_some_iff] at h
            obtain ⟨⟨a, b⟩, hab, heq⟩ := h
            simp at heq; obtain ⟨rfl, rfl⟩ := heq
            simp [ih _ _ _ hab]
        · simp only [Option.map_eq_some_iff] at h
          obtain ⟨⟨a, b⟩, hab, heq⟩ := h
          simp at heq; obtain ⟨rfl, rfl⟩ := heq
          simp [ih _ _ _ hab]

theorem collectUntil_first (a : Tok) : ∀ (p r : List Tok), p.contains a = false →
    collectUntil a (p ++ a :: r) = (p, r) := by
  intro p
  induction p with
  | nil => intro r _; simp [collectUntil]
  | cons x xs ih =>
    intro r h
    simp only [List.contains_cons, Bool.or_eq_false_iff, beq_eq_false_iff_ne] at h
    have hx : x ≠ a := fun e => h.1 e.symm
    simp [collectUntil, hx, ih r h.2]

theorem matchLits_append (l rest : List Tok) : matchLits l (l ++ rest) = some rest := by
  induction l with
  | nil => rfl
  | cons a as ih => simp [matchLits, ih]

/-! ### the pattern walk -/

theorem inDigits_digit : ∀ k < 10, inDigits (digitTok k) = true := by decide

theorem matchGo_hash_idle (strip : Bool) (k : Nat) (hk : k < 10) (more : List Tok) (ps : Params) (s : List Tok) :
    matchGo strip (hashTok :: digitTok k :: more) false false ps s = matchGo strip more false true ps s := by
  have h1 : hashTok.isParam = true := rfl
  simp [matchGo, h1, inDigits_digit k hk]

theorem matchGo_hash_pending (strip : Bool) (k : Nat) (hk : k < 10) (more : List Tok) (ps : Params) (s : List Tok) :
    matchGo strip (hashTok :: digitTok k :: more) false true ps s
      = matchGo strip more false true (ps ++ [(readArgument s).1]) (readArgument s).2 := by
  have h1 : hashTok.isParam = true := rfl
  simp [matchGo, h1, inDigits_digit k hk]

theorem matchGo_delim (a : Tok) (ha : a.isParam = false) (more : List Tok) (ps : Params) (s : List Tok) :
    matchGo true (a :: more) false true ps s
      = matchGo true more false false (ps ++ [some (stripDelimited (collectUntil a s).1)]) (collectUntil a s).2 := by
  simp [matchGo, ha]

theorem matchGo_lit (strip : Bool) (a : Tok) (ha : a.isParam = false) (more : List Tok) (ps : Params) (s : List Tok) :
    matchGo strip (a :: more) false false ps s = matchGo strip more false false ps s.tail := by
  simp [matchGo, ha]

theorem matchGo_lits (strip : Bool) : ∀ (l : List Tok) (more : List Tok) (ps : Params) (s s' : List Tok),
    (∀ t ∈ l, t.isParam = false) → matchLits l s = some s' →
    matchGo strip (l ++ more) false false ps s = matchGo strip more false false ps s' := by
  intro l
  induction l with
  | nil => intro more ps s s' _ h; simp [matchLits] at h; subst h; rfl
  | cons a as ih =>
    intro more ps s s' hl h
    cases s with
    | nil => simp [matchLits] at h
    | cons b bs =>
      simp only [matchLits] at h
      split at h
      · rw [List.cons_append, matchGo_lit strip a (hl a List.mem_cons_self)]
        exact ih more ps bs s' (fun t ht => hl t (List.mem_cons_of_mem _ ht)) h
      · cases h

def texArgsP (pending : Bool) (ds : List (List Tok)) (s : List Tok) : Option (List (List Tok) × List Tok) :=
  if pending then texArgs ([] :: ds) s else texArgs ds s
def nf3ArgsP (pending : Bool) (ds : List (List Tok)) (s : List Tok) : Bool :=
  if pending then nf3Args ([] :: ds) s else nf3Args ds s

theorem noMathHead_spec (s : List Tok) (h : noMathHead s = true) :
    ∀ t ts, skipBlanks s = t :: ts → t.isMath = false := by
  intro t ts hs
  simp [noMathHead, hs] at h; exact h

/-- the pending undelimited parameter is read exactly as TeX reads it -/
theorem pending_step (ds : List (List Tok)) (s : List Tok) (args : List (List Tok)) (rest : List Tok)
    (h : texArgs ([] :: ds) s = some (args, rest)) (hn : nf3Args ([] :: ds) s = true) :
    ∃ a r as, readArgument s = (some a, r) ∧ args = a :: as ∧ texArgs ds r = some (as, rest) ∧ nf3Args ds r = true := by
  simp only [texArgs] at h
  cases hu : texUndelimited s with
  | none => simp [hu] at h
  | some ar =>
    obtain ⟨a, r⟩ := ar
    simp only [hu, Option.map_eq_some_iff] at h
    obtain ⟨⟨as, r'⟩, hx, heq⟩ := h
    simp at heq; obtain ⟨rfl, rfl⟩ := heq
    simp only [nf3Args, hu, Bool.and_eq_true] at hn
    exact ⟨a, r, as, readArgument_of_texUndelimited s a r hu (noMathHead_spec s hn.1), rfl, hx, hn.2⟩

theorem matchGo_params : ∀ (ds : List (List Tok)) (k : Nat) (pending : Bool) (ps : Params) (s : List Tok)
    (args : List (List Tok)) (rest : List Tok),
    k + ds.length ≤ 10 → (∀ d ∈ ds, ∀ t ∈ d, t.isParam = false) →
    texArgsP pending ds s = some (args, rest) → nf3ArgsP pending ds s = true →
    matchGo true (renderParams k ds) false pending ps s = .ok (ps ++ args.map some, rest) := by
  intro ds
  induction ds with
  | nil =>
    intro k pending ps s args rest _ _ h hn
    cases pending with
    | false =>
      simp [texArgsP, texArgs] at h; obtain ⟨rfl, rfl⟩ := h
      simp [renderParams, matchGo]
    | true =>
      simp only [texArgsP, nf3ArgsP, if_true] at h hn
      obtain ⟨a, r, as, hr, rfl, hx, _⟩ := pending_step [] s args rest h hn
      simp [texArgs] at hx; obtain ⟨rfl, rfl⟩ := hx
      simp [renderParams, matchGo, hr]
  | cons d ds ih =>
    intro k pending ps s args rest hk hd h hn
    have hk' : k < 10 := by simp at hk; omega
    have hds : ∀ d' ∈ ds, ∀ t ∈ d', t.isParam = false := fun d' hd' => hd d' (List.mem_cons_of_mem _ hd')
    -- first the `#k`: a pending undelimited parameter is read now
    have key : ∀ (ps' : Params) (s' : List Tok) (args' : List (List Tok)),
        texArgs (d :: ds) s' = some (args', rest) → nf3Args (d :: ds) s' = true →
        matchGo true (d ++ renderParams (k + 1) ds) false true ps' s' = .ok (ps' ++ args'.map some, rest) := by
      intro ps' s' args' h' hn'
      cases d with
      | nil =>
        have := ih (k + 1) true ps' s' args' rest (by simp at hk ⊢; omega) hds
          (by simpa [texArgsP] using h') (by simpa [nf3ArgsP] using hn')
        simpa using this
      | cons d0 dr =>
        have hd0 : d0.isParam = false := hd _ List.mem_cons_self d0 List.mem_cons_self
        have hdr : ∀ t ∈ dr, t.isParam = false := fun t ht => hd _ List.mem_cons_self t (List.mem_cons_of_mem _ ht)
        simp only [texArgs] at h'
        cases hsc : texScan (d0 :: dr) 0 s' with
        | none => simp [hsc] at h'
        | some pr =>
          obtain ⟨p, r⟩ := pr
          simp only [hsc, Option.map_eq_some_iff] at h'
          obtain ⟨⟨as, r'⟩, hx, heq⟩ := h'
          simp at heq; obtain ⟨rfl, rfl⟩ := heq
          simp only [nf3Args, hsc, Bool.and_eq_true, Bool.not_eq_true'] at hn'
          have hsplit := texScan_split _ _ _ _ _ hsc
          have hcu : collectUntil d0 s' = (p, dr ++ r) := by
            rw [hsplit]; simpa using collectUntil_first d0 p (dr ++ r) hn'.1
          rw [List.cons_append, matchGo_delim d0 hd0, hcu]
          simp only
          rw [matchGo_lits true dr _ _ _ r hdr (matchLits_append dr r)]
          have := ih (k + 1) false (ps' ++ [some (stripDelimited p)]) r as r' (by simp at hk ⊢; omega) hds
            (by simpa [texArgsP] using hx) (by simpa [nf3ArgsP] using hn'.2)
          rw [this, stripDelimited_eq_texStrip]; simp
    cases pending with
    | false =>
      simp only [texArgsP, nf3ArgsP, Bool.false_eq_true, if_false] at h hn
      simp only [renderParams, List.cons_append]
      rw [matchGo_hash_idle true k hk']
      exact key ps s args h hn
    | true =>
      simp only [texArgsP, nf3ArgsP, if_true] at h hn
      obtain ⟨a, r, as, hr, rfl, hx, hnx⟩ := pending_step (d :: ds) s args rest h hn
      simp only [renderParams, List.cons_append]
      rw [matchGo_hash_pending true k hk', hr]
      simp only
      rw [key (ps ++ [some a]) r as hx hnx]; simp

theorem texArgs_length : ∀ (ds : List (List Tok)) (s : List Tok) (args : List (List Tok)) (rest : List Tok),
    texArgs ds s = some (args, rest) → args.length = ds.length := by
  intro ds
  induction ds with
  | nil => intro s args rest h; simp [texArgs] at h; simp [h.1.symm]
  | cons d ds ih =>
    intro s args rest h
    cases d with
    | nil =>
      simp only [texArgs] at h
      cases hu : texUndelimited s with
      | none => simp [hu] at h
      | some ar =>
        obtain ⟨a, r⟩ := ar
        simp only [hu, Option.map_eq_some_iff] at h
        obtain ⟨⟨as, r'⟩, hx, heq⟩ := h
        simp at heq; obtain ⟨rfl, rfl⟩ := heq
        simp [ih r as r' hx]
    | cons d0 dr =>
      simp only [texArgs] at h
      cases hsc : texScan (d0 :: dr) 0 s with
      | none => simp [hsc] at h
      | some pr =>
        obtain ⟨p, r⟩ := pr
        simp only [hsc, Option.map_eq_some_iff] at h
        obtain ⟨⟨as, r'⟩, hx, heq⟩ := h
        simp at heq; obtain ⟨rfl, rfl⟩ := heq
        simp [ih r as r' hx]

/-! ### one macro call -/

/-- **Delimited and undelimited parameters, any parameter text.**  For every parameter text of the grammar
    (literal prefix, up to 9 parameters, each undelimited or delimited by any non-empty token sequence) and every
    input on which TeX's matching is defined and NF-prog 3 holds (`nf3`: the text matched by a delimited parameter
    does not contain the first token of its delimiter; no `$` as undelimited argument), `Definition.invoke`'s
    pattern walk collects exactly TeX's arguments — shortest match up to the whole delimiter, outer braces of a
    one-group argument removed — and leaves exactly TeX's rest. -/
theorem matchPattern_of_texMatch (pt : PText) (s : List Tok) (args : List (List Tok)) (rest : List Tok)
    (hn : pt.params.length ≤ 9) (hpre : ∀ t ∈ pt.pre, t.isParam = false)
    (hdel : ∀ d ∈ pt.params, ∀ t ∈ d, t.isParam = false)
    (h : texMatch pt s = some (args, rest)) (hnf : nf3 pt s = true) :
    matchPattern (renderPText pt) s = .ok (none :: args.map some, rest) := by
  unfold texMatch at h
  unfold nf3 at hnf
  cases hl : matchLits pt.pre s with
  | none => simp [hl] at h
  | some s' =>
    simp only [hl] at h hnf
    unfold matchPattern renderPText
    rw [matchGo_lits true pt.pre _ _ s s' hpre hl]
    have := matchGo_params pt.params 1 false [none] s' args rest (by omega) hdel
      (by simpa [texArgsP] using h) (by simpa [nf3ArgsP] using hnf)
    simpa using this

/-- well-formed definition (NF-prog 5): what `\def` can store -/
structure WFMacro (pt : PText) (items : List BItem) : Prop where
  nparams : pt.params.length ≤ 9
  pre : ∀ t ∈ pt.pre, t.isParam = false
  delims : ∀ d ∈ pt.params, ∀ t ∈ d, t.isParam = false
  body : ∀ it ∈ items, WFItem pt.params.length it

/-- **One macro call in the model = one macro call of TeX**, for every well-formed definition (any pattern of
    delimited/undelimited parameters, any replacement text) and every input inside NF-prog on which TeX's call is
    defined: same produced tokens, same rest of the input. -/
theorem invokeDef_of_texCall (pt : PText) (items : List BItem) (s out rest : List Tok) (wf : WFMacro pt items)
    (h : texCall pt items s = .ok (out, rest)) :
    invokeDef (renderPText pt) (renderBody items) s = .ok (out, rest) := by
  unfold texCall at h
  cases hm : texMatch pt s with
  | none => simp [hm] at h
  | some ar =>
    obtain ⟨args, rest'⟩ := ar
    simp only [hm] at h
    split at h
    · rename_i hnf
      simp only [Except.ok.injEq, Prod.mk.injEq] at h
      obtain ⟨rfl, rfl⟩ := h
      by_cases he : renderPText pt = []
      · -- no parameter text at all
        have hpre : pt.pre = [] := by
          unfold renderPText at he; exact (List.append_eq_nil_iff.mp he).1
        have hpar : pt.params = [] := by
          unfold renderPText at he
          have := (List.append_eq_nil_iff.mp he).2
          cases hp : pt.params with
          | nil => rfl
          | cons d ds => rw [hp] at this; simp [renderParams] at this
        have hm' : args = [] ∧ rest' = s := by
          unfold texMatch at hm; simp [hpre, hpar, matchLits, texArgs] at hm; exact ⟨hm.1, hm.2.symm⟩
        obtain ⟨rfl, rfl⟩ := hm'
        have hb : ∀ it ∈ items, WFItem 0 it := by simpa [hpar] using wf.body
        have hs0 : substBody (renderBody items) [none] = .ok (texSubst items []) := by
          simpa [substBody] using substGo_render [] items (by simpa using hb)
        simp [invokeDef, invokeDefWith, he, hs0, Except.map]
      · have hp := matchPattern_of_texMatch pt s args rest' wf.nparams wf.pre wf.delims hm hnf
        have hlen : args.length = pt.params.length := by
          unfold texMatch at hm
          cases hl : matchLits pt.pre s with
          | none => simp [hl] at hm
          | some s' => simp only [hl] at hm; exact texArgs_length _ _ _ _ hm
        have hs : substBody (renderBody items) (none :: args.map some) = .ok (texSubst items args) :=
          substGo_render args items (by simpa [hlen] using wf.body)
        unfold matchPattern at hp
        simp [invokeDef, invokeDefWith, he, hp, hs, Except.map]
    · cases h


end PlasVerif.Proofs.Macro
