import PlasVerif.Model.Macro
import PlasVerif.Spec.TeXMacro
/-! Helper lemmas for C02. -/
namespace PlasVerif.Proofs.Macro
open PlasVerif.Model.Macro PlasVerif.Spec.TeXMacro

/-! ### substitution -/

theorem tokInt_digit : ∀ n < 10, tokInt (digitTok n) = some n := by decide

theorem substGo_cons_nonparam (ps : Params) (prev : Bool) (t : Tok) (l : List Tok) (h : t.isParam = false) :
    substGo ps prev (t :: l) = (substGo ps (isIfx t) l).map (t :: ·) := by
  cases l with
  | nil => simp [substGo, h, Except.map]
  | cons u r => simp [substGo, h]

theorem substGo_hash_digit (ps : Params) (prev : Bool) (n : Nat) (hn : n < 10) (l : List Tok) :
    substGo ps prev (hashTok :: digitTok n :: l) = (substGo ps false l).map (paramText ps prev n ++ ·) := by
  have h1 : hashTok.isParam = true := rfl
  have h2 : (digitTok n).isParam = false := rfl
  simp [substGo, h1, h2, tokInt_digit n hn]

theorem substGo_hash_hash (ps : Params) (prev : Bool) (c : Nat) (l : List Tok) :
    substGo ps prev (.ch 6 c :: .ch 6 c :: l) = (substGo ps false l).map (Tok.ch 6 c :: ·) := by
  simp [substGo, Tok.isParam]

/-- well-formed replacement text for `n` arguments (NF-prog 5), without `\ifx` (C03's domain) -/
def WFItem (n : Nat) : BItem → Prop
  | .tok t => t.isParam = false ∧ isIfx t = false
  | .par k => 1 ≤ k ∧ k ≤ n ∧ k < 10
  | .hash _ => True

theorem paramText_arg (args : List (List Tok)) (k : Nat) (h1 : 1 ≤ k) (h2 : k ≤ args.length) :
    paramText (none :: args.map some) false k = args.getD (k - 1) [] := by
  obtain ⟨j, rfl⟩ : ∃ j, k = j + 1 := ⟨k - 1, by omega⟩
  have hj : j < args.length := by omega
  simp [paramText, List.getD, hj]

theorem substGo_render (args : List (List Tok)) (items : List BItem)
    (h : ∀ it ∈ items, WFItem args.length it) :
    substGo (none :: args.map some) false (renderBody items) = .ok (texSubst items args) := by
  induction items with
  | nil => simp [renderBody, texSubst, substGo]
  | cons it rest ih =>
    have hr := ih (fun x hx => h x (List.mem_cons_of_mem _ hx))
    have hi := h it List.mem_cons_self
    cases it with
    | tok t =>
      obtain ⟨hp, hx⟩ := hi
      simp only [renderBody, texSubst, List.flatMap_cons, renderItem, substItem, List.singleton_append] at hr ⊢
      rw [substGo_cons_nonparam _ _ _ _ hp, hx, hr]; rfl
    | par k =>
      obtain ⟨h1, h2, h3⟩ := hi
      simp only [renderBody, texSubst, List.flatMap_cons, renderItem, substItem, List.cons_append, List.nil_append] at hr ⊢
      rw [substGo_hash_digit _ _ _ h3, hr, paramText_arg _ _ h1 h2]; rfl
    | hash c =>
      simp only [renderBody, texSubst, List.flatMap_cons, renderItem, substItem, List.cons_append, List.nil_append] at hr ⊢
      rw [substGo_hash_hash, hr]; rfl

/-! ### readers -/

theorem dropSpaces_eq_skipBlanks (s : List Tok) : dropSpaces s = skipBlanks s := by
  induction s with
  | nil => rfl
  | cons t ts ih => simp [dropSpaces, skipBlanks, ih]

theorem eg_not_bg (t : Tok) (h : t.isEg = true) : t.isBg = false := by
  cases t with
  | ch cat c =>
    match cat, h with
    | 0, _ => rfl
    | 1, h => simp [Tok.isEg] at h
    | n + 2, _ => rfl
  | cs n => rfl
  | el n => rfl

/-- the model's group reader agrees with TeX's on every closed group -/
theorem readGroup_of_texGroup : ∀ (s : List Tok) (d : Nat) (inner rest : List Tok),
    texGroup d s = some (inner, rest) → readGroup (d + 1) s = (inner, rest) := by
  intro s
  induction s with
  | nil => intro d inner rest h; simp [texGroup] at h
  | cons t ts ih =>
    intro d inner rest h
    simp only [texGroup] at h
    by_cases he : t.isEg = true
    · have hb : t.isBg = false := eg_not_bg t he
      simp only [he, if_true] at h
      cases d with
      | zero => simp at h; obtain ⟨rfl, rfl⟩ := h; simp [readGroup, he, hb]
      | succ d =>
        simp only [Option.map_eq_some_iff] at h
        obtain ⟨⟨a, b⟩, hab, heq⟩ := h
        simp at heq; obtain ⟨rfl, rfl⟩ := heq
        have := ih d a b hab
        simp [readGroup, he, hb, this]
    · simp only [he] at h
      by_cases hb : t.isBg = true
      · simp only [hb, if_true, Bool.false_eq_true, if_false, Option.map_eq_some_iff] at h
        obtain ⟨⟨a, b⟩, hab, heq⟩ := h
        simp at heq; obtain ⟨rfl, rfl⟩ := heq
        have := ih (d + 1) a b hab
        simp [readGroup, hb, this]
      · simp only [hb, Bool.false_eq_true, if_false, Option.map_eq_some_iff] at h
        obtain ⟨⟨a, b⟩, hab, heq⟩ := h
        simp at heq; obtain ⟨rfl, rfl⟩ := heq
        have := ih d a b hab
        simp [readGroup, hb, he, this]

/-- NF-prog: no math shift as an argument -/
theorem readArgument_of_texUndelimited (s a rest : List Tok)
    (h : texUndelimited s = some (a, rest)) (hm : ∀ t ts, skipBlanks s = t :: ts → t.isMath = false) :
    readArgument s = (some a, rest) := by
  unfold texUndelimited at h
  unfold readArgument
  rw [dropSpaces_eq_skipBlanks]
  cases hs : skipBlanks s with
  | nil => simp [hs] at h
  | cons t ts =>
    have hmt := hm t ts hs
    simp only [hs] at h
    by_cases hb : t.isBg = true
    · simp only [hb, if_true] at h
      simp [readToken, hb, readGroup_of_texGroup ts 0 a rest h]
    · simp only [hb, Bool.false_eq_true, if_false] at h
      by_cases he : t.isEg = true
      · simp [he] at h
      · simp only [he, Bool.false_eq_true, if_false, Option.some.injEq, Prod.mk.injEq] at h
        obtain ⟨rfl, rfl⟩ := h
        simp [readToken, hb, hmt]

/-! ### environment -/

theorem lookup_setLocal_ne (a n : Name) (m : Meaning) (e : Env) (h : n ≠ a) :
    lookup a (setLocal n m e) = lookup a e := by
  have hb : (a == n) = false := by simp [Ne.symm h]
  cases e with
  | nil => simp [setLocal, lookup, List.lookup, hb]
  | cons f fs => simp [setLocal, lookup, List.lookup, hb]

theorem lookup_setLocal_same (a : Name) (m : Meaning) (e : Env) :
    lookup a (setLocal a m e) = some m := by
  cases e <;> simp [setLocal, lookup, List.lookup]

theorem lookup_setGlobal_ne (a n : Name) (m : Meaning) (h : n ≠ a) : ∀ e : Env,
    lookup a (setGlobal n m e) = lookup a e := by
  intro e
  have hb : (a == n) = false := by simp [Ne.symm h]
  induction e with
  | nil => simp [setGlobal, lookup, List.lookup, hb]
  | cons f fs ih =>
    cases fs with
    | nil => simp [setGlobal, lookup, List.lookup, hb]
    | cons g gs =>
      show (match f.lookup a with | some m => some m | none => lookup a (setGlobal n m (g :: gs))) = _
      rw [ih]; rfl

theorem filter_lookup_ne (a n : Name) (h : n ≠ a) (f : Frame) :
    (f.filter (fun p => p.1 ≠ n)).lookup a = f.lookup a := by
  induction f with
  | nil => rfl
  | cons p ps ih =>
    obtain ⟨k, v⟩ := p
    by_cases hk : k = n
    · have hak : (a == k) = false := by subst hk; simp [Ne.symm h]
      have : List.filter (fun p : Name × Meaning => decide (p.1 ≠ n)) ((k, v) :: ps) = List.filter (fun p => decide (p.1 ≠ n)) ps := by
        simp [List.filter, hk]
      rw [this, ih]; simp [List.lookup, hak]
    · have : List.filter (fun p : Name × Meaning => decide (p.1 ≠ n)) ((k, v) :: ps) = (k, v) :: List.filter (fun p => decide (p.1 ≠ n)) ps := by
        simp [List.filter, hk]
      rw [this]; simp only [List.lookup]; rw [ih]

theorem lookup_dropLocals_ne (a n : Name) (h : n ≠ a) : ∀ e : Env,
    lookup a (dropLocals n e) = lookup a e := by
  intro e
  induction e with
  | nil => rfl
  | cons f fs ih =>
    cases fs with
    | nil => rfl
    | cons g gs =>
      show (match (f.filter (fun p => p.1 ≠ n)).lookup a with | some m => some m | none => lookup a (dropLocals n (g :: gs))) = _
      rw [ih, filter_lookup_ne a n h]; rfl

end PlasVerif.Proofs.Macro
