import PlasVerif.Proofs.Config
import PlasVerif.Proofs.ConfigDomain
import PlasVerif.Proofs.ConfigDest
/-!
The converse direction of `Proofs/Config.lean`: inside the domain of the spec (every scalar file value converts,
the denotation of every option is defined) none of the loops of `read` / `updateFromDict` raises.
-/
namespace PlasVerif.Proofs.ConfigTotal
open PlasVerif.Model.Config PlasVerif.Spec.Config PlasVerif.Proofs.Config PlasVerif.Proofs.ConfigDest

/-! ## conversions, spec ⇒ model -/

theorem atom_conv_some {t : ATy} {s : Str} {a : Atom} (h : specAtom t s = some a) : atomFromString false t s = .ok a := by
  rw [← atom_conv] at h
  cases hc : atomFromString false t s with
  | error e => simp [hc, Except.toOption] at h
  | ok x => simp [hc, Except.toOption] at h; rw [h]

theorem putEntry_some {t : ATy} {kvs kvs' : List (Str × Atom)} {k v : Str} (h : putEntry t kvs k v = some kvs') :
    dictSetStr t (.dict kvs) k v = .ok (.dict kvs') := by
  simp only [putEntry] at h
  cases hs : specAtom t v with
  | none => simp [hs] at h
  | some a =>
    simp only [hs, Option.map_some, Option.some.injEq] at h
    simp [dictSetStr, atom_conv_some hs, bind, Except.bind, pure, Except.pure, h]

theorem entries_some (t : ATy) : ∀ (es : List Str) (kvs kvs' : List (Str × Atom)),
    ((es.mapM fun e => (splitEq e []).map fun kv => (strip kv.1, strip kv.2)).bind
        fun ps => ps.foldlM (fun c kv => putEntry t c kv.1 kv.2) kvs) = some kvs' →
    dictSetEntries t (.dict kvs) es = .ok (.dict kvs') := by
  intro es
  induction es with
  | nil => intro kvs kvs' h; simp [pure] at h; simp [dictSetEntries, pure, Except.pure, h]
  | cons e r ih =>
    intro kvs kvs' h
    simp only [List.mapM_cons, bind, Option.bind] at h
    cases hs : splitEq e [] with
    | none => simp [hs] at h
    | some kv =>
      simp only [hs, Option.map_some] at h
      cases hm : (r.mapM fun e => (splitEq e []).map fun kv => (strip kv.1, strip kv.2)) with
      | none => simp [hm] at h
      | some ps =>
        simp only [hm, pure, List.foldlM_cons, bind, Option.bind] at h
        cases hp : putEntry t kvs (strip kv.1) (strip kv.2) with
        | none => simp [hp] at h
        | some k1 =>
          simp only [hp] at h
          simp only [dictSetEntries, hs, putEntry_some hp, bind, Except.bind]
          apply ih k1 kvs'
          simp [hm, h, bind]

theorem dictMention_some {t : ATy} {l : Bool} {kvs kvs' : List (Str × Atom)} {m : Mention}
    (h : dictMention t kvs m = some kvs') : applyMention (.dict t l) (.dict kvs) m = .ok (.dict kvs') := by
  cases m with
  | entry k v => exact putEntry_some h
  | direct s =>
    simp only [dictMention, entriesOf, bind] at h
    exact entries_some t _ kvs kvs' h

theorem fold_dict_some (t : ATy) (l : Bool) : ∀ (ms : List Mention) (kvs kvs' : List (Str × Atom)),
    ms.foldlM (dictMention t) kvs = some kvs' →
    ms.foldlM (applyMention (.dict t l)) (.dict kvs) = .ok (.dict kvs') := by
  intro ms
  induction ms with
  | nil => intro kvs kvs' h; simp [pure] at h; simp [pure, Except.pure, h]
  | cons m r ih =>
    intro kvs kvs' h
    simp only [List.foldlM_cons, bind, Option.bind] at h
    cases hm : dictMention t kvs m with
    | none => simp [hm] at h
    | some k1 =>
      simp only [hm] at h
      simp only [List.foldlM_cons, dictMention_some (l := l) hm, bind, Except.bind]
      exact ih k1 kvs' h

theorem fold_atom_some (t : ATy) : ∀ (ms : List Mention) (cur : Val),
    (∀ m ∈ ms, (specAtom t (mentionStr m)).isSome = true) → ∃ v, ms.foldlM (applyMention (.atom t)) cur = .ok v := by
  intro ms
  induction ms with
  | nil => intro cur _; exact ⟨cur, rfl⟩
  | cons m r ih =>
    intro cur h
    obtain ⟨a, ha⟩ := Option.isSome_iff_exists.mp (h m List.mem_cons_self)
    obtain ⟨v, hv⟩ := ih (.atom a) (fun m' hm' => h m' (List.mem_cons_of_mem _ hm'))
    refine ⟨v, ?_⟩
    simp only [List.foldlM_cons, applyMention_atom, atom_conv_some ha, Except.map, bind, Except.bind]
    exact hv

theorem fold_list_some : ∀ (ms : List Mention) (xs : List Str), ∃ v, ms.foldlM (applyMention .list) (.list xs) = .ok v := by
  intro ms
  induction ms with
  | nil => intro xs; exact ⟨_, rfl⟩
  | cons m r ih =>
    intro xs
    have h0 : applyMention .list (.list xs) m = .ok (.list (xs ++ shlexSplit (mentionStr m))) := by cases m <;> rfl
    obtain ⟨v, hv⟩ := ih (xs ++ shlexSplit (mentionStr m))
    exact ⟨v, by simp only [List.foldlM_cons, h0, bind, Except.bind]; exact hv⟩

/-- the file stage of one option does not raise when its denotation is defined and its scalar mentions convert -/
theorem files_total {o : Opt} {ms : List Mention} (hden : (denFiles o ms).isSome = true)
    (hatom : ∀ t, o.ty = .atom t → ∀ m ∈ ms, (specAtom t (mentionStr m)).isSome = true) :
    ∃ v, ms.foldlM (applyMention o.ty) o.dflt = .ok v := by
  unfold denFiles at hden
  cases hty : o.ty with
  | atom t => exact fold_atom_some t ms o.dflt (hatom t hty)
  | list =>
    cases hd : o.dflt with
    | list xs => exact fold_list_some ms xs
    | atom a => simp [hty, hd] at hden
    | dict k => simp [hty, hd] at hden
  | dict t l =>
    cases hd : o.dflt with
    | dict kvs =>
      simp only [hty, hd] at hden
      cases hf : ms.foldlM (dictMention t) kvs with
      | none => simp [hf] at hden
      | some k' => exact ⟨_, fold_dict_some t l ms kvs k' hf⟩
    | atom a => simp [hty, hd] at hden
    | list xs => simp [hty, hd] at hden

/-! ## the command-line stage, spec ⇒ model -/

theorem dictCliEntry_some {t : ATy} {links : Bool} {kvs kvs' : List (Str × Atom)} {args : List Str}
    (h : ((cliEntries links args).bind fun es => es.foldlM (fun c kv => putEntry t c kv.1 kv.2) kvs) = some kvs') :
    dictCliEntry t links (.dict kvs) args = .ok (.dict kvs') := by
  unfold dictCliEntry
  cases links with
  | true =>
    simp only [if_true]
    match args, h with
    | [n, title], h =>
      simp only [cliEntries, if_true, Option.bind, List.foldlM_cons, List.foldlM_nil, bind, pure] at h
      cases hp : putEntry t kvs (n ++ [45, 116, 105, 116, 108, 101]) title with
      | none => simp [hp] at h
      | some k1 => simp only [hp, Option.some.injEq] at h; subst h; exact putEntry_some hp
    | [n, url, title], h =>
      simp only [cliEntries, if_true, Option.bind, List.foldlM_cons, List.foldlM_nil, bind, pure] at h
      cases hp : putEntry t kvs (n ++ [45, 117, 114, 108]) url with
      | none => simp [hp] at h
      | some k1 =>
        simp only [hp] at h
        cases hp2 : putEntry t k1 (n ++ [45, 116, 105, 116, 108, 101]) title with
        | none => simp [hp2] at h
        | some k2 =>
          simp only [hp2, Option.some.injEq] at h; subst h
          simp only [putEntry_some hp, bind, Except.bind]
          exact putEntry_some hp2
    | [], h => simp [cliEntries] at h
    | [_], h => simp [cliEntries] at h
    | _ :: _ :: _ :: _ :: _, h => simp [cliEntries] at h
  | false =>
    simp only [Bool.false_eq_true, if_false]
    match args, h with
    | [k, v], h =>
      simp only [cliEntries, Bool.false_eq_true, if_false, Option.bind, List.foldlM_cons, List.foldlM_nil, bind, pure] at h
      cases hp : putEntry t kvs k v with
      | none => simp [hp] at h
      | some k1 => simp only [hp, Option.some.injEq] at h; subst h; exact putEntry_some hp
    | [], h => simp [cliEntries] at h
    | [_], h => simp [cliEntries] at h
    | _ :: _ :: _ :: _, h => simp [cliEntries] at h

theorem fold_cli_dict_some (t : ATy) (links : Bool) : ∀ (occs : List Occ) (kvs kvs' : List (Str × Atom)),
    occs.foldlM (fun c a => (cliEntries links a.args).bind fun es => es.foldlM (fun c kv => putEntry t c kv.1 kv.2) c) kvs
      = some kvs' →
    occs.foldlM (fun c a => dictCliEntry t links c a.args) (.dict kvs) = .ok (.dict kvs') := by
  intro occs
  induction occs with
  | nil => intro kvs kvs' h; simp [pure] at h; simp [pure, Except.pure, h]
  | cons a r ih =>
    intro kvs kvs' h
    simp only [List.foldlM_cons, bind, Option.bind] at h
    cases h1 : ((cliEntries links a.args).bind fun es => es.foldlM (fun c kv => putEntry t c kv.1 kv.2) kvs) with
    | none => simp only [Option.bind] at h1; simp [h1] at h
    | some k1 =>
      simp only [Option.bind] at h1
      simp only [h1] at h
      simp only [List.foldlM_cons, dictCliEntry_some (by simpa [Option.bind] using h1), bind, Except.bind]
      exact ih k1 kvs' h

/-- the command-line stage of one option does not raise when its denotation is defined -/
theorem cli_total {o : Opt} {cur : Val} {argv : List Occ} (h : (denCli o cur (cliOccs o argv)).isSome = true) :
    ∃ v, updateOpt o cur argv = .ok v := by
  unfold updateOpt
  rw [occsOf_eq]
  unfold denCli at h
  generalize cliOccs o argv = occs at h ⊢
  cases hty : o.ty with
  | atom t =>
    cases t with
    | bool =>
      simp only []
      cases occs.getLast? <;> exact ⟨_, rfl⟩
    | str =>
      simp only [hty] at h ⊢
      cases hl : occs.getLast? with
      | none => exact ⟨_, rfl⟩
      | some a =>
        simp only [hl] at h ⊢
        match a.args, h with
        | [s], h =>
          obtain ⟨x, hx⟩ := Option.isSome_iff_exists.mp (by simpa using h : (specAtom .str s).isSome = true)
          exact ⟨.atom x, by simp [atom_conv_some hx, Functor.map, Except.map]⟩
        | [], h => simp at h
        | _ :: _ :: _, h => simp at h
    | int =>
      simp only [hty] at h ⊢
      cases hl : occs.getLast? with
      | none => exact ⟨_, rfl⟩
      | some a =>
        simp only [hl] at h ⊢
        match a.args, h with
        | [s], h =>
          obtain ⟨x, hx⟩ := Option.isSome_iff_exists.mp (by simpa using h : (specAtom .int s).isSome = true)
          exact ⟨.atom x, by simp [atom_conv_some hx, Functor.map, Except.map]⟩
        | [], h => simp at h
        | _ :: _ :: _, h => simp at h
    | flt =>
      simp only [hty] at h ⊢
      cases hl : occs.getLast? with
      | none => exact ⟨_, rfl⟩
      | some a =>
        simp only [hl] at h ⊢
        match a.args, h with
        | [s], h =>
          obtain ⟨x, hx⟩ := Option.isSome_iff_exists.mp (by simpa using h : (specAtom .flt s).isSome = true)
          exact ⟨.atom x, by simp [atom_conv_some hx, Functor.map, Except.map]⟩
        | [], h => simp at h
        | _ :: _ :: _, h => simp at h
  | list =>
    simp only [hty] at h ⊢
    cases cur with
    | list xs => exact ⟨_, rfl⟩
    | atom a => simp at h
    | dict k => simp at h
  | dict t l =>
    simp only [hty] at h ⊢
    cases cur with
    | dict kvs =>
      simp only [bind] at h
      cases hf : occs.foldlM (fun c a => (cliEntries l a.args).bind fun es => es.foldlM (fun c kv => putEntry t c kv.1 kv.2) c) kvs with
      | none => simp [hf] at h
      | some k' => exact ⟨_, fold_cli_dict_some t l occs kvs k' hf⟩
    | atom a => simp at h
    | list xs => simp at h

/-- `updateFromDict` finishes when every option's own update does -/
theorem updateFrom_total (T : Table) (argv : List Occ) : ∀ (os : List Opt) (k : Nat) (st : St),
    (∀ (n : Nat) (o : Opt), os[n]? = some o → ∃ v, updateOptD T o (st (k + n)) argv = .ok v) →
    ∃ st', updateFrom T argv os k st = .ok st' := by
  intro os
  induction os with
  | nil => intro k st _; exact ⟨st, rfl⟩
  | cons o r ih =>
    intro k st h
    obtain ⟨v, hv⟩ := h 0 o rfl
    simp only [Nat.add_zero] at hv
    have := ih (k + 1) (st.set k v) (by
      intro n o' hn
      have := h (n + 1) o' (by simpa using hn)
      rw [set_other _ _ (by omega)]
      rw [show k + 1 + n = k + (n + 1) by omega]
      exact this)
    obtain ⟨st', hst⟩ := this
    exact ⟨st', by simp only [updateFrom, hv, bind, Except.bind]; exact hst⟩

/-! ## the loops of `read`, spec ⇒ model -/

theorem optFold_append_ok {T : Table} {i : Nat} {o : Opt} {cur c : Val} {a b : List Item}
    (h : optFold T i o cur (a ++ b) = .ok c) : ∃ c1, optFold T i o cur a = .ok c1 ∧ optFold T i o c1 b = .ok c := by
  rw [optFold_append] at h
  cases h1 : optFold T i o cur a with
  | error e => simp [h1, Except.bind] at h
  | ok c1 => exact ⟨c1, rfl, by simpa [h1, Except.bind] using h⟩

theorem optFold_cons_ok {T : Table} {i : Nat} {o : Opt} {cur c : Val} {it : Item} {r : List Item}
    (h : optFold T i o cur (it :: r) = .ok c) : ∃ c1, stepOpt T i o cur it = .ok c1 ∧ optFold T i o c1 r = .ok c := by
  simp only [optFold, List.foldlM_cons, bind, Except.bind] at h
  cases h1 : stepOpt T i o cur it with
  | error e => simp [h1] at h
  | ok c1 => exact ⟨c1, rfl, by simpa [h1, optFold] using h⟩

/-- one line: if the line's own effect on every option is defined, `read`'s loop body does not raise -/
theorem readItem_total {T : Table} {sec k v : Str} {st : St}
    (h : ∀ i o, T[i]? = some o → ∃ c, stepOpt T i o (st i) ⟨sec, k, v⟩ = .ok c) :
    ∃ st', readItem false T sec st (k, v) = .ok st' := by
  unfold readItem
  simp only []
  split
  · rename_i j hj
    obtain ⟨hjl, hpj, _⟩ := List.findIdx?_eq_some_iff_getElem.mp hj
    simp only [Bool.and_eq_true, decide_eq_true_eq] at hpj
    have hjo : T[j]? = some T[j] := List.getElem?_eq_getElem hjl
    obtain ⟨c, hc⟩ := h j T[j] hjo
    have : stepOpt T j T[j] (st j) ⟨sec, k, v⟩ = setFromString false T[j].ty (st j) v := by
      simp [stepOpt, mentionOf, addressed, hpj.1, hpj.2, applyMention, mentionStr]
    rw [this, ← tyAt_eq hjo] at hc
    exact ⟨st.set j c, by simp [hc, bind, Except.bind, pure, Except.pure]⟩
  · rename_i hnone
    have hall := List.findIdx?_eq_none_iff.mp hnone
    split
    · rename_i d hdx
      obtain ⟨hdl, hpd, hfirst⟩ := List.findIdx?_eq_some_iff_getElem.mp hdx
      simp only [Bool.and_eq_true, decide_eq_true_eq] at hpd
      have hdo : T[d]? = some T[d] := List.getElem?_eq_getElem hdl
      cases hty : tyAt T d with
      | dict t l =>
        simp only []
        have hty' : T[d].ty = .dict t l := by rw [← tyAt_eq hdo]; exact hty
        have hna : addressed T[d] ⟨sec, k, v⟩ = false := by
          apply Bool.eq_false_iff.mpr
          intro ha
          simp only [addressed, Bool.and_eq_true, decide_eq_true_eq] at ha
          have := hall T[d] (List.getElem_mem hdl)
          simp [ha.1.symm, ha.2.symm] at this
        have hkn : keyKnown T sec k = false := by
          apply Bool.eq_false_iff.mpr
          intro hk
          simp only [keyKnown, List.any_eq_true] at hk
          obtain ⟨p, hp, hpp⟩ := hk
          have := hall p hp
          simp [this] at hpp
        have hfd : firstDict T d T[d] = true := by
          simp only [firstDict, hpd.2, Bool.true_and, List.all_eq_true]
          intro p hp
          obtain ⟨n, hn, rfl⟩ := List.getElem_of_mem hp
          simp only [List.length_take] at hn
          have hlt : n < d := by omega
          have := hfirst n hlt
          simp only [List.getElem_take]
          simp only [Bool.and_eq_true, decide_eq_true_eq, not_and, Bool.not_eq_true] at this
          simp only [Bool.not_eq_true', Bool.and_eq_false_iff, decide_eq_false_iff_not]
          by_cases hs : T[n].sec = T[d].sec
          · right; exact this (by rw [hs, hpd.1])
          · left; exact hs
        obtain ⟨c, hc⟩ := h d T[d] hdo
        have : stepOpt T d T[d] (st d) ⟨sec, k, v⟩ = dictSetStr t (st d) k v := by
          simp [stepOpt, mentionOf, hna, hkn, hfd, hpd.1, applyMention, hty']
        rw [this] at hc
        exact ⟨st.set d c, by simp [hc, bind, Except.bind, pure, Except.pure]⟩
      | atom t => exact ⟨st, rfl⟩
      | list => exact ⟨st, rfl⟩
    · exact ⟨st, rfl⟩

theorem items_total {T : Table} (hd : distinctKeys T = true) (sec : Str) :
    ∀ (items : List (Str × Str)) (st : St),
      (∀ i o, T[i]? = some o → ∃ c, optFold T i o (st i) (items.map fun kv => ⟨sec, kv.1, kv.2⟩) = .ok c) →
      ∃ st', items.foldlM (readItem false T sec) st = .ok st' := by
  intro items
  induction items with
  | nil => intro st _; exact ⟨st, rfl⟩
  | cons kv r ih =>
    intro st h
    obtain ⟨st1, h1⟩ := readItem_total (T := T) (sec := sec) (k := kv.1) (v := kv.2) (st := st) (by
      intro i o hi
      obtain ⟨c, hc⟩ := h i o hi
      obtain ⟨c1, hs, _⟩ := optFold_cons_ok (by simpa using hc)
      exact ⟨c1, hs⟩)
    obtain ⟨st', hst⟩ := ih st1 (by
      intro i o hi
      obtain ⟨c, hc⟩ := h i o hi
      obtain ⟨c1, hs, hr⟩ := optFold_cons_ok (by simpa using hc)
      have := readItem_refines hd hi h1
      rw [hs] at this
      exact ⟨c, by rw [← Except.ok.inj this]; exact hr⟩)
    exact ⟨st', by simp only [List.foldlM_cons, bind, Except.bind]; rw [show (kv : Str × Str) = (kv.1, kv.2) from rfl, h1]; exact hst⟩

theorem section_total {T : Table} (hd : distinctKeys T = true) (s : Section) (st : St)
    (h : ∀ i o, T[i]? = some o → ∃ c, optFold T i o (st i) (secItems s) = .ok c) :
    ∃ st', readSection false T st s = .ok st' := by
  unfold readSection
  split
  · exact items_total hd s.1 s.2 st h
  · exact ⟨st, rfl⟩

theorem file_total {T : Table} (hd : distinctKeys T = true) : ∀ (f : File) (st : St),
    (∀ i o, T[i]? = some o → ∃ c, optFold T i o (st i) (f.flatMap secItems) = .ok c) →
    ∃ st', readFile false T st f = .ok st' := by
  intro f
  induction f with
  | nil => intro st _; exact ⟨st, rfl⟩
  | cons s r ih =>
    intro st h
    obtain ⟨st1, h1⟩ := section_total hd s st (by
      intro i o hi
      obtain ⟨c, hc⟩ := h i o hi
      rw [List.flatMap_cons] at hc
      obtain ⟨c1, hs, _⟩ := optFold_append_ok hc
      exact ⟨c1, hs⟩)
    obtain ⟨st', hst⟩ := ih st1 (by
      intro i o hi
      obtain ⟨c, hc⟩ := h i o hi
      rw [List.flatMap_cons] at hc
      obtain ⟨c1, hs, hr⟩ := optFold_append_ok hc
      have := section_refines hd hi s st st1 h1
      rw [hs] at this
      exact ⟨c, by rw [← Except.ok.inj this]; exact hr⟩)
    exact ⟨st', by simp only [readFile, List.foldlM_cons, bind, Except.bind, h1]; exact hst⟩

theorem read_total {T : Table} (hd : distinctKeys T = true) : ∀ (fs : List File) (st : St),
    (∀ i o, T[i]? = some o → ∃ c, optFold T i o (st i) (flat fs) = .ok c) →
    ∃ st', Model.Config.read false T st fs = .ok st' := by
  intro fs
  induction fs with
  | nil => intro st _; exact ⟨st, rfl⟩
  | cons f r ih =>
    intro st h
    have hf : flat (f :: r) = f.flatMap secItems ++ flat r := by simp [flat]; rfl
    obtain ⟨st1, h1⟩ := file_total hd f st (by
      intro i o hi
      obtain ⟨c, hc⟩ := h i o hi
      rw [hf] at hc
      obtain ⟨c1, hs, _⟩ := optFold_append_ok hc
      exact ⟨c1, hs⟩)
    obtain ⟨st', hst⟩ := ih st1 (by
      intro i o hi
      obtain ⟨c, hc⟩ := h i o hi
      rw [hf] at hc
      obtain ⟨c1, hs, hr⟩ := optFold_append_ok hc
      have := file_refines hd hi f st st1 h1
      rw [hs] at this
      exact ⟨c, by rw [← Except.ok.inj this]; exact hr⟩)
    exact ⟨st', by simp only [Model.Config.read, List.foldlM_cons, bind, Except.bind, h1]; exact hst⟩

/-! ## the whole layering -/

theorem den_parts {T : Table} {files : List File} {argv : List Occ} {i : Nat} {o : Opt} (hi : T[i]? = some o)
    (h : (den T files argv i).isSome = true) :
    ∃ v, denFiles o (mentions T i o files) = some v ∧ (denCli o v (cliOccs o argv)).isSome = true := by
  simp only [den, hi, bind, Option.bind] at h
  cases hf : denFiles o (mentions T i o files) with
  | none => simp [hf] at h
  | some v => exact ⟨v, rfl, by simpa [hf] using h⟩

theorem mention_wf {T : Table} {files : List File} {i : Nat} {o : Opt} (hi : T[i]? = some o)
    (hdom : (flat files).all (itemWf T) = true) (t : ATy) (hty : o.ty = .atom t) :
    ∀ m ∈ mentions T i o files, (specAtom t (mentionStr m)).isSome = true := by
  intro m hm
  simp only [mentions, List.mem_filterMap] at hm
  obtain ⟨it, hit, hmo⟩ := hm
  have hw := List.all_eq_true.mp hdom it hit
  simp only [itemWf, List.all_eq_true] at hw
  have := hw (o, i) (List.mem_zipIdx_iff_getElem?.mpr hi)
  simpa [hmo, hty] using this

/-- inside the domain the modelled `client.main` raises nothing -/
theorem run_total (T : Table) (hwf : WF T = true) (hwc : WFcli T = true) (files : List File) (argv : List Occ)
    (hdom : inDomain T files argv = true)
    (hden : ∀ i o, T[i]? = some o → (den T files argv i).isSome = true) :
    ∃ st, run false T files argv = .ok st := by
  simp only [WF, Bool.and_eq_true, List.all_eq_true] at hwf
  obtain ⟨hd, htd⟩ := hwf
  simp only [inDomain, Bool.and_eq_true] at hdom
  have hp := PlasVerif.Proofs.ConfigDomain.parseArgs_ok T argv hdom.1
  obtain ⟨st1, hr⟩ := read_total hd files (init T) (by
    intro i o hi
    obtain ⟨v, hf, _⟩ := den_parts hi (hden i o hi)
    rw [optFold_mentions, show init T i = o.dflt by simp [init, hi]]
    exact files_total (by simp [mentions] at hf ⊢; simp [hf]) (fun t hty => mention_wf hi hdom.2 t hty))
  obtain ⟨st, hu⟩ := updateFrom_total T argv T 0 st1 (by
    intro n o hn
    obtain ⟨v, hf, hc⟩ := den_parts hn (hden n o hn)
    have h1 := read_refines hd hn files (init T) st1 hr
    rw [optFold_mentions, show init T n = o.dflt by simp [init, hn]] at h1
    have hf' := files_den (htd o (List.mem_of_getElem? hn)) h1
    simp only [mentions] at hf
    rw [hf] at hf'
    have hv : v = st1 n := Option.some.inj hf'
    subst hv
    rw [Nat.zero_add, updateOptD_eq hwc hn argv hp _ (denFiles_typed hf)]
    exact cli_total hc)
  exact ⟨st, by simp only [run, hp, hr, bind, Except.bind]; exact hu⟩

end PlasVerif.Proofs.ConfigTotal
