import PlasVerif.Spec.Config
/-! The modelled builtins are mutually consistent: what `str()` prints, `int()` reads back; what is written as
blank-separated words, `shlex.split` reads back. -/
namespace PlasVerif.Proofs.ConfigBuiltins
open PlasVerif.Model.Config PlasVerif.Spec.Config

theorem digitsVal_append : ∀ (xs ys : Str) (a : Nat), digitsVal (xs ++ ys) a = digitsVal ys (digitsVal xs a) := by
  intro xs
  induction xs with
  | nil => intro ys a; rfl
  | cons c cs ih => intro ys a; simp [digitsVal, ih]

theorem natDigits_acc : ∀ (f n : Nat) (acc : Str), natDigits f n acc = natDigits f n [] ++ acc := by
  intro f
  induction f with
  | zero => intro n acc; rfl
  | succ f ih =>
    intro n acc
    simp only [natDigits]
    split
    · rfl
    · rw [ih (n / 10) ((48 + n % 10) :: acc), ih (n / 10) [48 + n % 10]]; simp

theorem natDigits_val : ∀ (f n : Nat), n < f → digitsVal (natDigits f n []) 0 = n := by
  intro f
  induction f with
  | zero => intro n h; omega
  | succ f ih =>
    intro n h
    simp only [natDigits]
    split
    · simp [digitsVal]
    · rename_i h10
      rw [natDigits_acc, digitsVal_append, ih (n / 10) (by omega)]
      simp only [digitsVal]
      omega

theorem natDigits_all : ∀ (f n : Nat) (acc : Str), 0 < f → acc.all isDigit = true → (natDigits f n acc).all isDigit = true := by
  intro f
  induction f with
  | zero => intro n acc h; omega
  | succ f ih =>
    intro n acc _ hacc
    simp only [natDigits]
    split
    · rename_i h10
      simp only [List.all_cons, hacc, Bool.and_true, isDigit, Bool.and_eq_true, decide_eq_true_eq]
      omega
    · rename_i h10
      have hd : isDigit (48 + n % 10) = true := by
        simp only [isDigit, Bool.and_eq_true, decide_eq_true_eq]; omega
      cases f with
      | zero => simp [natDigits, hd, hacc]
      | succ f' => exact ih (n / 10) _ (by omega) (by simp [hd, hacc])

theorem natDigits_ne_nil : ∀ (f n : Nat) (acc : Str), 0 < f → natDigits f n acc ≠ [] := by
  intro f
  induction f with
  | zero => intro n acc h; omega
  | succ f ih =>
    intro n acc _
    simp only [natDigits]
    split
    · simp
    · cases f with
      | zero => simp [natDigits]
      | succ f' => exact ih (n / 10) _ (by omega)

theorem natStr_digits (n : Nat) : allDigits (natStr n) = true ∧ digitsVal (natStr n) 0 = n := by
  refine ⟨?_, natDigits_val (n + 1) n (by omega)⟩
  have h1 := natDigits_all (n + 1) n [] (by omega) rfl
  have h2 := natDigits_ne_nil (n + 1) n [] (by omega)
  simp only [allDigits, natStr, h1, Bool.and_true, Bool.not_eq_true', List.isEmpty_eq_false_iff]
  exact h2

/-- `int(str(n)) == n` -/
theorem parseInt_intStr (i : Int) : parseInt (intStr i) = .ok i := by
  obtain ⟨ha, hv⟩ := natStr_digits i.natAbs
  unfold intStr
  split
  · rename_i hneg
    simp only [parseInt, ha, if_true, hv]
    congr 1
    omega
  · rename_i hpos
    have hne : natStr i.natAbs ≠ [] := by
      intro h; simp [allDigits, h] at ha
    cases hs : natStr i.natAbs with
    | nil => exact absurd hs hne
    | cons c cs =>
      have hc : isDigit c = true := by
        simp only [allDigits, hs, List.all_cons, Bool.and_eq_true] at ha
        exact ha.2.1
      simp only [isDigit, Bool.and_eq_true, decide_eq_true_eq] at hc
      have h45 : c ≠ 45 := by omega
      have h43 : c ≠ 43 := by omega
      rw [hs] at ha hv
      unfold parseInt
      split
      · rename_i r heq; simp only [List.cons.injEq] at heq; exact absurd heq.1 h45
      · rename_i r heq; simp only [List.cons.injEq] at heq; exact absurd heq.1 h43
      · simp only [ha, if_true, hv]
        congr 1
        omega

/-! ### words -/

theorem splitWords_word : ∀ (w : Str), w.contains 32 = false → ∀ (rest cur : Str),
    splitWords (w ++ rest) cur = splitWords rest (w.reverse ++ cur) := by
  intro w
  induction w with
  | nil => intro _ rest cur; rfl
  | cons c cs ih =>
    intro h rest cur
    simp only [List.contains_cons, Bool.or_eq_false_iff, beq_eq_false_iff_ne, ne_eq] at h
    have hc : c ≠ 32 := fun e => h.1 e.symm
    simp only [List.cons_append, splitWords, hc, if_false, ih h.2 rest (c :: cur)]
    simp

/-- `shlex.split(" ".join(words)) == words` for non-empty blank-free words -/
theorem shlexSplit_join : ∀ (ws : List Str), (∀ w ∈ ws, w ≠ [] ∧ w.contains 32 = false) →
    shlexSplit (joinWith [32] ws) = ws := by
  intro ws
  induction ws with
  | nil => intro _; rfl
  | cons x r ih =>
    intro h
    obtain ⟨hx, hx32⟩ := h x List.mem_cons_self
    have hrev : x.reverse.isEmpty = false := by
      cases x with
      | nil => exact absurd rfl hx
      | cons a b => simp
    cases r with
    | nil =>
      have := splitWords_word x hx32 [] []
      simp only [List.append_nil] at this
      simp [shlexSplit, joinWith, this, splitWords, hrev]
    | cons y r' =>
      have := splitWords_word x hx32 ([32] ++ joinWith [32] (y :: r')) []
      simp only [List.append_nil] at this
      have ih' := ih (fun w hw => h w (List.mem_cons_of_mem _ hw))
      simp only [shlexSplit] at ih' ⊢
      simp only [joinWith, List.append_assoc, this]
      simp only [List.cons_append, List.nil_append, splitWords, if_true, hrev, Bool.false_eq_true, if_false,
        List.reverse_reverse, ih']

/-! ### dictionary entries -/

theorem splitOn_none (sep : Nat) : ∀ (s cur : Str), s.contains sep = false → splitOn sep s cur = [cur.reverse ++ s] := by
  intro s
  induction s with
  | nil => intro cur _; simp [splitOn]
  | cons c cs ih =>
    intro cur h
    simp only [List.contains_cons, Bool.or_eq_false_iff, beq_eq_false_iff_ne, ne_eq] at h
    have hc : c ≠ sep := fun e => h.1 e.symm
    simp [splitOn, hc, ih (c :: cur) h.2]

theorem splitEq_key : ∀ (k v cur : Str), k.contains 61 = false → splitEq (k ++ 61 :: v) cur = some (cur.reverse ++ k, v) := by
  intro k
  induction k with
  | nil => intro v cur _; simp [splitEq]
  | cons c cs ih =>
    intro v cur h
    simp only [List.contains_cons, Bool.or_eq_false_iff, beq_eq_false_iff_ne, ne_eq] at h
    have hc : c ≠ 61 := fun e => h.1 e.symm
    simp [splitEq, hc, ih v (c :: cur) h.2]

theorem dropWhile_none : ∀ (s : Str), s.contains 32 = false → s.dropWhile (· = 32) = s := by
  intro s h
  cases s with
  | nil => rfl
  | cons c cs =>
    simp only [List.contains_cons, Bool.or_eq_false_iff, beq_eq_false_iff_ne, ne_eq] at h
    have hc : c ≠ 32 := fun e => h.1 e.symm
    simp [List.dropWhile, hc]

theorem strip_none (s : Str) (h : s.contains 32 = false) : strip s = s := by
  have hr : s.reverse.contains 32 = false := by
    simpa [List.contains_eq_mem] using h
  simp [strip, dropWhile_none s h, dropWhile_none s.reverse hr]

/-- `k=v` (blank-free, no comma, no `=` in the key) is read as the single entry `k ↦ v` -/
theorem entriesOf_single (k v : Str) (hk : k.contains 61 = false) (hk32 : k.contains 32 = false) (hk44 : k.contains 44 = false)
    (hv32 : v.contains 32 = false) (hv44 : v.contains 44 = false) :
    entriesOf (k ++ 61 :: v) = some [(k, v)] := by
  have h44 : (k ++ 61 :: v).contains 44 = false := by
    simp only [List.contains_eq_mem, List.mem_append, List.mem_cons, decide_eq_false_iff_not] at hk44 hv44 ⊢
    intro h
    rcases h with h | h | h
    · exact hk44 h
    · cases h
    · exact hv44 h
  simp [entriesOf, splitOn_none 44 _ [] h44, splitEq_key k v [] hk, strip_none k hk32, strip_none v hv32]

end PlasVerif.Proofs.ConfigBuiltins
