import PlasVerif.Proofs.DigestEq
/-!
Shape invariants of the parsed tree: paragraphs never contain paragraphs; parent labels.
Both are instances of the generic preservation theorem `digest_loop_P`.
-/
namespace PlasVerif.Proofs.Digest
open PlasVerif.Model.Digest PlasVerif.Spec.DocTree PlasVerif.Generated.Digest

/-! ### paragraphs never contain paragraphs -/
theorem parNoParL_iff : ∀ ts : List Tree, parNoParL ts = true ↔ ∀ t ∈ ts, parNoPar t = true
  | [] => by simp [parNoParL]
  | t :: ts => by simp [parNoParL, parNoParL_iff ts]

theorem pnp_node (it : Item) (p : Ref) (kids : List Tree) :
    parNoPar (.node it p kids) = true ↔
      (it.level = parLevel → ∀ k ∈ kids, parLevel < k.it.level) ∧ parNoParL kids = true := by
  simp only [parNoPar, Bool.and_eq_true, decide_eq_true_eq, beq_iff_eq, List.all_eq_true]

theorem pnp_eq (t : Tree) : parNoPar t = true ↔
    (t.it.level = parLevel → ∀ k ∈ t.kids, parLevel < k.it.level) ∧ parNoParL t.kids = true := by
  cases t; exact pnp_node _ _ _

theorem pnp_setParent (r : Ref) (t : Tree) : parNoPar (t.setParent r) = parNoPar t := by
  cases t; simp [Tree.setParent, parNoPar]

theorem char_ne_par' : parLevel < characterLevel := by decide

theorem flush_pnp (cs : Bool) (o : Ref) (txt : List Tree) :
    ∀ y ∈ flushText cs o txt, parNoPar y = true ∧ parLevel < y.it.level := by
  intro y hy
  unfold flushText at hy
  by_cases he : txt.isEmpty
  · simp [he] at hy
  · simp only [he, Bool.false_eq_true, if_false, List.mem_singleton] at hy
    subst hy
    refine ⟨(pnp_node _ _ _).2 ⟨?_, by simp [parNoParL]⟩, ?_⟩
    · intro _ k hk; cases hk
    · simpa [Tree.it, textItem] using char_ne_par'

mutual
theorem norm_pnp (cs : Bool) : ∀ t : Tree, parNoPar t = true → parNoPar (norm cs t) = true
  | .node it p kids => by
    intro h
    obtain ⟨h1, h2⟩ := (pnp_node it p kids).1 h
    simp only [norm]
    have := normKids_pnp (cs && !it.nosub) it.ref kids [] h2
    exact (pnp_node _ _ _).2 ⟨fun hl => this.2 (h1 hl), this.1⟩
theorem normKids_pnp (cs : Bool) (o : Ref) : ∀ (ks txt : List Tree), parNoParL ks = true →
    parNoParL (normKids cs o ks txt) = true ∧
    ((∀ k ∈ ks, parLevel < k.it.level) → ∀ y ∈ normKids cs o ks txt, parLevel < y.it.level)
  | [], txt, _ => by
    simp only [normKids]
    exact ⟨(parNoParL_iff _).2 fun y hy => (flush_pnp cs o txt y hy).1, fun _ y hy => (flush_pnp cs o txt y hy).2⟩
  | k :: ks, txt, h => by
    have hk : parNoPar k = true := (parNoParL_iff _).1 h k (by simp)
    have hks : parNoParL ks = true := (parNoParL_iff _).2 fun y hy => (parNoParL_iff _).1 h y (by simp [hy])
    unfold normKids
    by_cases he : k.it.elem
    · simp only [he, if_true]
      have n1 := norm_pnp cs k hk
      obtain ⟨r1, r2⟩ := normKids_pnp cs o ks [] hks
      constructor
      · rw [parNoParL_iff]
        intro y hy
        rcases List.mem_append.1 hy with hy | hy
        · exact (flush_pnp cs o txt y hy).1
        · rcases List.mem_cons.1 hy with rfl | hy
          · rw [pnp_setParent]; exact n1
          · exact (parNoParL_iff _).1 r1 y hy
      · intro hl y hy
        rcases List.mem_append.1 hy with hy | hy
        · exact (flush_pnp cs o txt y hy).2
        · rcases List.mem_cons.1 hy with rfl | hy
          · simpa [norm_it] using hl k (by simp)
          · exact r2 (fun z hz => hl z (by simp [hz])) y hy
    · have he' : k.it.elem = false := by simpa using he
      simp only [he', Bool.false_eq_true, if_false]
      obtain ⟨r1, r2⟩ := normKids_pnp cs o ks (txt ++ [k]) hks
      exact ⟨r1, fun hl => r2 fun z hz => hl z (by simp [hz])⟩
end

theorem mkPar_pnp (proto : Item) (o p : Ref) (k : Nat) (b : Bool) (kids : List Tree)
    (h1 : ∀ x ∈ kids, parLevel < x.it.level) (h2 : parNoParL kids = true) :
    parNoPar (mkPar proto o p k b kids) = true := by
  simp only [mkPar]; exact (pnp_node _ _ _).2 ⟨fun _ => h1, h2⟩

theorem pnp_append_par {cur x : Tree} (hc : parNoPar cur = true) (hx : parNoPar x = true)
    (hxl : parLevel < x.it.level) : parNoPar (cur.append x) = true := by
  cases cur with
  | node it p kids =>
    obtain ⟨h1, h2⟩ := (pnp_node it p kids).1 hc
    simp only [Tree.append, Tree.it, Tree.kids, Tree.parent]
    refine (pnp_node _ _ _).2 ⟨?_, ?_⟩
    · intro hl y hy
      rcases List.mem_append.1 hy with hy | hy
      · exact h1 hl y hy
      · simp only [List.mem_singleton] at hy; subst hy; simpa using hxl
    · rw [parNoParL_iff] at h2 ⊢
      intro y hy
      rcases List.mem_append.1 hy with hy | hy
      · exact h2 y hy
      · simp only [List.mem_singleton] at hy; subst hy; rw [pnp_setParent]; exact hx

theorem parLoop_pnp (proto : Item) (o : Ref) : ∀ (kids done : List Tree) (cur : Tree),
    parNoParL done = true → parNoPar cur = true → parNoParL kids = true →
    parNoParL (parLoop proto o done cur kids).1 = true ∧ parNoParL (parLoop proto o done cur kids).2 = true
  | [], done, cur, hd, hc, _ => by
    simp only [parLoop]
    refine ⟨(parNoParL_iff _).2 ?_, by simp [parNoParL]⟩
    intro y hy
    rcases List.mem_append.1 hy with hy | hy
    · exact (parNoParL_iff _).1 hd y hy
    · simp only [List.mem_singleton] at hy; subst hy; exact hc
  | x :: r, done, cur, hd, hc, hk => by
    have hx : parNoPar x = true := (parNoParL_iff _).1 hk x (by simp)
    have hr : parNoParL r = true := (parNoParL_iff _).2 fun y hy => (parNoParL_iff _).1 hk y (by simp [hy])
    have hdc : parNoParL (done ++ [cur]) = true := (parNoParL_iff _).2 fun y hy => by
      rcases List.mem_append.1 hy with hy | hy
      · exact (parNoParL_iff _).1 hd y hy
      · simp only [List.mem_singleton] at hy; subst hy; exact hc
    unfold parLoop
    split
    · exact parLoop_pnp proto o r _ x hdc hx hr
    · rename_i hne
      have hne' : x.it.level ≠ parLevel := by simpa using hne
      split
      · refine ⟨(parNoParL_iff _).2 ?_, hr⟩
        intro y hy
        simp only [List.mem_append, List.mem_cons, List.mem_singleton, List.not_mem_nil, or_false] at hy
        rcases hy with hy | rfl | rfl
        · exact (parNoParL_iff _).1 hd y hy
        · exact hc
        · exact hx
      · rename_i hnlt
        have hxl : parLevel < x.it.level := by omega
        split
        · refine parLoop_pnp proto o r _ _ ?_ (mkPar_pnp _ _ _ _ _ _ (by simp) (by simp [parNoParL])) hr
          rw [parNoParL_iff]
          intro y hy
          simp only [List.mem_append, List.mem_cons, List.mem_singleton, List.not_mem_nil, or_false] at hy
          rcases hy with hy | rfl | rfl
          · exact (parNoParL_iff _).1 hd y hy
          · exact hc
          · exact mkPar_pnp _ _ _ _ _ _ (by simpa using hxl) (by simp [parNoParL, pnp_setParent, hx])
        · exact parLoop_pnp proto o r done _ hd (pnp_append_par hc hx hxl) hr

theorem parResult_pnp (it : Item) (p : Ref) (kids : List Tree) (proto : Item)
    (hl : it.level ≠ parLevel) (hk : parNoParL kids = true) : parNoPar (parResult it p kids proto) = true := by
  obtain ⟨c1, c2⟩ := parLoop_pnp proto it.ref kids [] (mkPar proto it.ref it.ref 0 false [])
    (by simp [parNoParL]) (mkPar_pnp _ _ _ _ _ _ (by simp) (by simp [parNoParL])) hk
  unfold parResult
  refine (pnp_node _ _ _).2 ⟨fun h => absurd h hl, ?_⟩
  rw [parNoParL_iff]
  intro y hy
  rcases List.mem_append.1 (List.mem_filter.1 hy).1 with hy | hy
  · obtain ⟨n, hn, rfl⟩ := List.mem_map.1 hy
    rw [pnp_setParent]
    have := (parNoParL_iff _).1 c1 n hn
    split
    · exact norm_pnp true n this
    · exact this
  · exact (parNoParL_iff _).1 c2 y hy

theorem closed_pnp : Closed (fun t => clean t = true ∧ parNoPar t = true) where
  sp := fun r t h => by rw [clean_setParent, pnp_setParent]; exact h
  app := fun t x hin ht hx => by
    refine ⟨clean_append ht.1 hin hx.1, ?_⟩
    have hl := (notInert ((clean_eq t).1 ht.1).1 hin).2.2
    cases t with
    | node it p kids =>
      obtain ⟨_, h2⟩ := (pnp_node it p kids).1 ht.2
      simp only [Tree.append, Tree.it, Tree.kids, Tree.parent]
      refine (pnp_node _ _ _).2 ⟨fun h => absurd h hl, ?_⟩
      rw [parNoParL_iff] at h2 ⊢
      intro y hy
      rcases List.mem_append.1 hy with hy | hy
      · exact h2 y hy
      · simp only [List.mem_singleton] at hy; subst hy; rw [pnp_setParent]; exact hx.2
  par := fun b t hin ht => by
    obtain ⟨he, _, hl⟩ := notInert ((clean_eq t).1 ht.1).1 hin
    refine ⟨(paragraphs_ce b t ht.1 he).1, ?_⟩
    cases t with
    | node it p kids =>
      rcases paragraphs_eq b it p kids with h | h
      · rw [h]; exact norm_pnp true _ ht.2
      · rw [h]; exact parResult_pnp it p kids _ hl ((pnp_node it p kids).1 ht.2).2

/-! ### parent labels -/
theorem labelsL_iff (r : Ref) : ∀ ts : List Tree, labelsL r ts = true ↔ ∀ t ∈ ts, t.parent = r ∧ labelsOK t = true
  | [] => by simp [labelsL]
  | t :: ts => by
    simp only [labelsL, Bool.and_eq_true, beq_iff_eq, labelsL_iff r ts, List.mem_cons, forall_eq_or_imp]

theorem labels_node (it : Item) (p : Ref) (kids : List Tree) : labelsOK (.node it p kids) = labelsL it.ref kids := by
  simp [labelsOK]

theorem labels_eq (t : Tree) : labelsOK t = labelsL t.it.ref t.kids := by cases t; exact labels_node _ _ _

theorem labels_setParent (r : Ref) (t : Tree) : labelsOK (t.setParent r) = labelsOK t := by
  cases t; simp [Tree.setParent, labelsOK]

theorem parent_setParent (r : Ref) (t : Tree) : (t.setParent r).parent = r := by cases t; rfl

theorem flush_labels (cs : Bool) (o : Ref) (txt : List Tree) :
    ∀ y ∈ flushText cs o txt, y.parent = o ∧ labelsOK y = true := by
  intro y hy
  unfold flushText at hy
  by_cases he : txt.isEmpty
  · simp [he] at hy
  · simp only [he, Bool.false_eq_true, if_false, List.mem_singleton] at hy
    subst hy
    exact ⟨rfl, by simp [labelsOK, labelsL]⟩

mutual
/-- after `normalize` every node below carries the right parent, whatever it carried before -/
theorem norm_labels (cs : Bool) : ∀ t : Tree, labelsOK (norm cs t) = true
  | .node it p kids => by
    simp only [norm, labels_node]
    exact (labelsL_iff _ _).2 (normKids_labels (cs && !it.nosub) it.ref kids [])
theorem normKids_labels (cs : Bool) (o : Ref) : ∀ (ks txt : List Tree),
    ∀ y ∈ normKids cs o ks txt, y.parent = o ∧ labelsOK y = true
  | [], txt => by simp only [normKids]; exact flush_labels cs o txt
  | k :: ks, txt => by
    unfold normKids
    by_cases he : k.it.elem
    · simp only [he, if_true]
      intro y hy
      rcases List.mem_append.1 hy with hy | hy
      · exact flush_labels cs o txt y hy
      · rcases List.mem_cons.1 hy with rfl | hy
        · exact ⟨parent_setParent _ _, by rw [labels_setParent]; exact norm_labels cs k⟩
        · exact normKids_labels cs o ks [] y hy
    · have he' : k.it.elem = false := by simpa using he
      simp only [he', Bool.false_eq_true, if_false]
      exact normKids_labels cs o ks (txt ++ [k])
end

theorem labels_append {t x : Tree} (ht : labelsOK t = true) (hx : labelsOK x = true) : labelsOK (t.append x) = true := by
  cases t with
  | node it p kids =>
    rw [labels_node] at ht
    simp only [Tree.append, Tree.it, Tree.kids, Tree.parent, labels_node]
    rw [labelsL_iff] at ht ⊢
    intro y hy
    rcases List.mem_append.1 hy with hy | hy
    · exact ht y hy
    · simp only [List.mem_singleton] at hy; subst hy
      exact ⟨parent_setParent _ _, by rw [labels_setParent]; exact hx⟩

theorem mkPar_labels (proto : Item) (o p : Ref) (k : Nat) (b : Bool) (kids : List Tree)
    (h : ∀ x ∈ kids, x.parent = .syn o k ∧ labelsOK x = true) : labelsOK (mkPar proto o p k b kids) = true := by
  simp only [mkPar, labels_node]; exact (labelsL_iff _ _).2 h

theorem parLoop_labels (proto : Item) (o : Ref) : ∀ (kids done : List Tree) (cur : Tree),
    (∀ y ∈ done, labelsOK y = true) → labelsOK cur = true → (∀ y ∈ kids, y.parent = o ∧ labelsOK y = true) →
    (∀ y ∈ (parLoop proto o done cur kids).1, labelsOK y = true) ∧
    (∀ y ∈ (parLoop proto o done cur kids).2, y.parent = o ∧ labelsOK y = true)
  | [], done, cur, hd, hc, _ => by
    simp only [parLoop]
    refine ⟨?_, by simp⟩
    intro y hy
    rcases List.mem_append.1 hy with hy | hy
    · exact hd y hy
    · simp only [List.mem_singleton] at hy; subst hy; exact hc
  | x :: r, done, cur, hd, hc, hk => by
    have hx := (hk x (by simp)).2
    have hr : ∀ y ∈ r, y.parent = o ∧ labelsOK y = true := fun y hy => hk y (by simp [hy])
    have hdc : ∀ y ∈ done ++ [cur], labelsOK y = true := fun y hy => by
      rcases List.mem_append.1 hy with hy | hy
      · exact hd y hy
      · simp only [List.mem_singleton] at hy; subst hy; exact hc
    unfold parLoop
    split
    · exact parLoop_labels proto o r _ x hdc hx hr
    · split
      · refine ⟨?_, hr⟩
        intro y hy
        simp only [List.mem_append, List.mem_cons, List.mem_singleton, List.not_mem_nil, or_false] at hy
        rcases hy with hy | rfl | rfl
        · exact hd y hy
        · exact hc
        · exact hx
      · split
        · refine parLoop_labels proto o r _ _ ?_ (mkPar_labels _ _ _ _ _ _ (by simp)) hr
          intro y hy
          simp only [List.mem_append, List.mem_cons, List.mem_singleton, List.not_mem_nil, or_false] at hy
          rcases hy with hy | rfl | rfl
          · exact hd y hy
          · exact hc
          · refine mkPar_labels _ _ _ _ _ _ ?_
            intro z hz
            simp only [List.mem_singleton] at hz; subst hz
            exact ⟨parent_setParent _ _, by rw [labels_setParent]; exact hx⟩
        · exact parLoop_labels proto o r done _ hd (labels_append hc hx) hr

theorem parResult_labels (it : Item) (p : Ref) (kids : List Tree) (proto : Item)
    (h : labelsOK (.node it p kids) = true) : labelsOK (parResult it p kids proto) = true := by
  rw [labels_node, labelsL_iff] at h
  obtain ⟨c1, c2⟩ := parLoop_labels proto it.ref kids [] (mkPar proto it.ref it.ref 0 false [])
    (by simp) (mkPar_labels _ _ _ _ _ _ (by simp)) h
  unfold parResult
  rw [labels_node, labelsL_iff]
  intro y hy
  rcases List.mem_append.1 (List.mem_filter.1 hy).1 with hy | hy
  · obtain ⟨n, hn, rfl⟩ := List.mem_map.1 hy
    refine ⟨parent_setParent _ _, ?_⟩
    rw [labels_setParent]
    split
    · exact norm_labels true n
    · exact c1 n hn
  · exact c2 y hy

theorem closed_labels : Closed (fun t => labelsOK t = true) where
  sp := fun r t h => by rw [labels_setParent]; exact h
  app := fun t x _ ht hx => labels_append ht hx
  par := fun b t _ ht => by
    cases t with
    | node it p kids =>
      rcases paragraphs_eq b it p kids with h | h
      · rw [h]; exact norm_labels true _
      · rw [h]; exact parResult_labels it p kids _ ht

end PlasVerif.Proofs.Digest
