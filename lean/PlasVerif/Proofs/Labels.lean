import PlasVerif.Spec.Crossref
/-! Helper lemmas for C09 (cross-reference table).  Property statements are in `Properties/C09.lean`. -/
namespace PlasVerif.Proofs.Labels
open PlasVerif.Model.Labels PlasVerif.Spec.Crossref

/-! ### lists of names -/

theorem labelNames_append (a b : List Op) : labelNames (a ++ b) = labelNames a ++ labelNames b := by
  induction a with
  | nil => rfl
  | cons op a ih => cases op <;> simp [labelNames, ih] ; split <;> simp

theorem refKeys_append (a b : List Op) : refKeys (a ++ b) = refKeys a ++ refKeys b := by
  induction a with
  | nil => rfl
  | cons op a ih => cases op <;> simp [refKeys, ih] ; split <;> simp

theorem mem_refKeys {h : List Op} {r s l} (hm : Op.ref r s l ∈ h) (hl : l ≠ 0) : (r, s) ∈ refKeys h := by
  induction h with
  | nil => cases hm
  | cons op h ih =>
    rcases List.mem_cons.1 hm with heq | hm'
    · subst heq; simp [refKeys, hl]
    · have := ih hm'
      cases op <;> simp [refKeys, this] ; split <;> simp [this]

theorem mem_labelNames_of_mem {h : List Op} {l nd} (hm : Op.label l nd ∈ h) (hl : l ≠ 0) : l ∈ labelNames h := by
  induction h with
  | nil => cases hm
  | cons op h ih =>
    rcases List.mem_cons.1 hm with heq | hm'
    · subst heq; simp [labelNames, hl]
    · have := ih hm'
      cases op <;> simp [labelNames, this] ; split <;> simp [this]

/-! ### the patch loop -/

theorem patchVal_idem (ids : NodeId → Option Label) (l n) (v : Target) :
    patchVal ids l n (patchVal ids l n v) = patchVal ids l n v := by
  unfold patchVal
  by_cases h : idOf ids v = some l
  · simp [h]
  · simp [h]

theorem foldl_patch (ids : NodeId → Option Label) (l n) (objs : List RefId) :
    ∀ (f : RefId → Slot → Option Target) (r : RefId) (s : Slot),
    (objs.foldl (patchObj ids l n) f) r s =
      if r ∈ objs then (f r s).map (patchVal ids l n) else f r s := by
  induction objs with
  | nil => intro f r s; simp
  | cons o objs ih =>
    intro f r s
    simp only [List.foldl_cons, ih]
    by_cases hro : r = o
    · subst hro
      by_cases hm : r ∈ objs
      · simp [hm, patchObj, Option.map_map, Function.comp_def, patchVal_idem]
      · simp [hm, patchObj]
    · by_cases hm : r ∈ objs
      · simp [hm, patchObj, hro]
      · simp [hm, patchObj, hro]

/-! ### effect of one operation on each component -/

/-- the state after the "attach" half of `Context.label` -/
def attachSt (st : State) (l : Label) (nd : Option NodeId) : State :=
  match named st.current nd with
  | some n => { st with labels := upd st.labels l (some n), ids := upd st.ids n (some l) }
  | none => st

theorem label_eq (st : State) (l : Label) (nd : Option NodeId) :
    label st l nd =
      if l = 0 then st else
      match (attachSt st l nd).refs l, (attachSt st l nd).labels l with
      | some objs, some n =>
        { attachSt st l nd with
          idref := objs.foldl (patchObj (attachSt st l nd).ids l n) (attachSt st l nd).idref,
          refs := upd (attachSt st l nd).refs l none }
      | _, _ => attachSt st l nd := by
  unfold label attachSt named
  cases nd <;> rfl

theorem attachSt_refs (st l nd) : (attachSt st l nd).refs = st.refs := by
  unfold attachSt; split <;> rfl
theorem attachSt_idref (st l nd) : (attachSt st l nd).idref = st.idref := by
  unfold attachSt; split <;> rfl
theorem attachSt_current (st l nd) : (attachSt st l nd).current = st.current := by
  unfold attachSt; split <;> rfl
theorem attachSt_nums (st l nd) : (attachSt st l nd).nums = st.nums := by
  unfold attachSt; split <;> rfl

theorem label_labels (st l nd) : (label st l nd).labels = if l = 0 then st.labels else (attachSt st l nd).labels := by
  rw [label_eq]; split
  · rfl
  · split <;> rfl
theorem label_ids (st l nd) : (label st l nd).ids = if l = 0 then st.ids else (attachSt st l nd).ids := by
  rw [label_eq]; split
  · rfl
  · split <;> rfl
theorem label_current (st l nd) : (label st l nd).current = st.current := by
  rw [label_eq]; split
  · rfl
  · split <;> simp [attachSt_current]
theorem label_nums (st l nd) : (label st l nd).nums = st.nums := by
  rw [label_eq]; split
  · rfl
  · split <;> simp [attachSt_nums]

theorem ref_labels (st r s l) : (ref st r s l).labels = st.labels := by
  unfold ref; split
  · rfl
  · split <;> rfl
theorem ref_ids (st r s l) : (ref st r s l).ids = st.ids := by
  unfold ref; split
  · rfl
  · split <;> rfl
theorem ref_current (st r s l) : (ref st r s l).current = st.current := by
  unfold ref; split
  · rfl
  · split <;> rfl
theorem ref_nums (st r s l) : (ref st r s l).nums = st.nums := by
  unfold ref; split
  · rfl
  · split <;> rfl

/-! ### `labels` is the spec's `attach` -/

theorem labels_unchanged (h : List Op) : ∀ (st : State) (l : Label), l ∉ labelNames h →
    (h.foldl step st).labels l = st.labels l := by
  induction h with
  | nil => intro st l _; rfl
  | cons op h ih =>
    intro st l hl
    cases op with
    | numbered n => simpa [step] using ih _ l (by simpa [labelNames] using hl)
    | number n v => simpa [step] using ih _ l (by simpa [labelNames] using hl)
    | ref r s l' => simpa [step, ref_labels] using ih (ref st r s l') l (by simpa [labelNames] using hl)
    | label l' nd =>
      simp only [List.foldl_cons, step]
      by_cases h0 : l' = 0
      · have := ih (label st l' nd) l (by simpa [labelNames, h0] using hl)
        rw [this, label_labels]; simp [h0]
      · have hl2 : l ≠ l' ∧ l ∉ labelNames h := by simpa [labelNames, h0] using hl
        rw [ih (label st l' nd) l hl2.2, label_labels]
        simp only [h0, if_false]
        unfold attachSt; split
        · simp [upd, hl2.1]
        · rfl

theorem labels_eq_attachFrom (h : List Op) : ∀ (st : State) (l : Label), (labelNames h).Nodup →
    st.labels l = none → (h.foldl step st).labels l = attachFrom st.current h l := by
  induction h with
  | nil => intro st l _ hn; simpa [attachFrom] using hn
  | cons op h ih =>
    intro st l hd hn
    cases op with
    | numbered n => simpa [step, attachFrom] using ih { st with current := some n } l (by simpa [labelNames] using hd) hn
    | number n v => simpa [step, attachFrom] using ih { st with nums := upd st.nums n (some v) } l (by simpa [labelNames] using hd) hn
    | ref r s l' =>
      have := ih (ref st r s l') l (by simpa [labelNames] using hd) (by simpa [ref_labels] using hn)
      simpa [step, attachFrom, ref_current] using this
    | label l' nd =>
      simp only [List.foldl_cons, step, attachFrom]
      by_cases h0 : l' = 0
      · have := ih (label st l' nd) l (by simpa [labelNames, h0] using hd)
          (by rw [label_labels]; simpa [h0] using hn)
        rw [this, label_current]; simp [h0]
      · have hd2 : l' ∉ labelNames h ∧ (labelNames h).Nodup := by simpa [labelNames, h0] using hd
        by_cases hl : l' = l
        · subst hl
          rw [labels_unchanged h _ _ hd2.1, label_labels]
          simp only [h0, if_false]
          unfold attachSt; split
          · next n hn' => simp [upd, hn', h0]
          · next hn' => simp [hn', hn, h0]
        · have := ih (label st l' nd) l hd2.2 (by
            rw [label_labels]; simp only [h0, if_false]
            unfold attachSt; split
            · simp [upd, Ne.symm hl, hn]
            · exact hn)
          rw [this, label_current]; simp [hl]

theorem run_labels (h : List Op) (hl : LabelsDistinct h) (l : Label) : (run h).labels l = attach h l :=
  labels_eq_attachFrom h init l hl rfl

/-! ### identifiers and numbers -/

theorem ids_eq_identFrom (h : List Op) : ∀ (st : State) (n : NodeId),
    (h.foldl step st).ids n = identFrom st.current (st.ids n) h n := by
  induction h with
  | nil => intro st n; rfl
  | cons op h ih =>
    intro st n
    cases op with
    | numbered m => simpa [step, identFrom] using ih { st with current := some m } n
    | number m v => simpa [step, identFrom] using ih { st with nums := upd st.nums m (some v) } n
    | ref r s l => simpa [step, identFrom, ref_ids, ref_current] using ih (ref st r s l) n
    | label l nd =>
      simp only [List.foldl_cons, step, identFrom]
      rw [ih, label_current, label_ids]
      by_cases h0 : l = 0
      · simp [h0]
      · simp only [h0, if_false, ne_eq, not_false_eq_true, true_and]
        unfold attachSt
        cases hm : named st.current nd with
        | none => simp
        | some m =>
          by_cases hmn : m = n
          · simp [upd, hmn]
          · simp [upd, hmn, Ne.symm hmn]

theorem nums_eq_numberFrom (h : List Op) : ∀ (st : State) (n : NodeId),
    (h.foldl step st).nums n = numberFrom (st.nums n) h n := by
  induction h with
  | nil => intro st n; rfl
  | cons op h ih =>
    intro st n
    cases op with
    | numbered m => simpa [step, numberFrom] using ih { st with current := some m } n
    | number m v =>
      simp only [List.foldl_cons, step, numberFrom]
      rw [ih]
      by_cases hmn : m = n
      · simp [upd, hmn]
      · simp [upd, hmn, Ne.symm hmn]
    | ref r s l => simpa [step, numberFrom, ref_nums] using ih (ref st r s l) n
    | label l nd => simpa [step, numberFrom, label_nums] using ih (label st l nd) n

theorem identFrom_no_attach (h : List Op) : ∀ (cur : Option NodeId) (acc : Option Label) (n : NodeId),
    n ∉ attachedNodes cur h → identFrom cur acc h n = acc := by
  induction h with
  | nil => intros; rfl
  | cons op h ih =>
    intro cur acc n hn
    cases op with
    | numbered m => simpa [identFrom] using ih (some m) acc n (by simpa [attachedNodes] using hn)
    | number m v => simpa [identFrom] using ih cur acc n (by simpa [attachedNodes] using hn)
    | ref r s l => simpa [identFrom] using ih cur acc n (by simpa [attachedNodes] using hn)
    | label l nd =>
      simp only [identFrom]
      by_cases h0 : l = 0
      · simp only [h0, ne_eq, not_true_eq_false, false_and, if_false]
        exact ih cur acc n (by simpa [attachedNodes, h0] using hn)
      · simp only [attachedNodes, h0, if_false] at hn
        cases hnm : named cur nd with
        | none => simp only [hnm] at hn; simpa [hnm] using ih cur acc n hn
        | some m =>
          simp only [hnm, List.mem_cons, not_or] at hn
          have : ¬ (some m = some n) := by simpa using Ne.symm hn.1
          simp only [this, and_false, if_false]
          exact ih cur acc n hn.2

theorem identFrom_attach (h : List Op) : ∀ (cur : Option NodeId) (acc : Option Label) (l : Label) (n : NodeId),
    (attachedNodes cur h).Nodup → attachFrom cur h l = some n → identFrom cur acc h n = some l := by
  induction h with
  | nil => intro cur acc l n _ ha; simp [attachFrom] at ha
  | cons op h ih =>
    intro cur acc l n hd ha
    cases op with
    | numbered m => simpa [identFrom] using ih (some m) acc l n (by simpa [attachedNodes] using hd) (by simpa [attachFrom] using ha)
    | number m v => simpa [identFrom] using ih cur acc l n (by simpa [attachedNodes] using hd) (by simpa [attachFrom] using ha)
    | ref r s l' => simpa [identFrom] using ih cur acc l n (by simpa [attachedNodes] using hd) (by simpa [attachFrom] using ha)
    | label l' nd =>
      simp only [identFrom]
      by_cases h0 : l' = 0
      · simp only [h0, ne_eq, not_true_eq_false, false_and, if_false]
        exact ih cur acc l n (by simpa [attachedNodes, h0] using hd) (by simpa [attachFrom, h0] using ha)
      · simp only [attachedNodes, h0, if_false] at hd
        by_cases hl : l' = l
        · subst hl
          simp only [attachFrom, h0, ne_eq, not_false_eq_true, and_self, if_true] at ha
          simp only [ha, List.nodup_cons] at hd
          simp only [ha, ne_eq, h0, not_false_eq_true, and_self, if_true]
          exact identFrom_no_attach h cur (some l') n hd.1
        · simp only [attachFrom, hl, false_and, if_false] at ha
          cases hnm : named cur nd with
          | none => simp only [hnm] at hd; simpa [hnm] using ih cur acc l n hd ha
          | some m =>
            simp only [hnm, List.nodup_cons] at hd
            by_cases hmn : m = n
            · subst hmn
              simp only [ne_eq, h0, not_false_eq_true, and_self, if_true]
              exact ih cur (some l') l m hd.2 ha
            · have : ¬ (some m = some n) := by simpa using hmn
              simp only [this, and_false, if_false]
              exact ih cur acc l n hd.2 ha

/-! ### the skeleton determines `attach` -/

theorem attachFrom_skeleton (h : List Op) : ∀ (cur : Option NodeId) (l : Label),
    attachFrom cur (skeleton h) l = attachFrom cur h l := by
  induction h with
  | nil => intros; rfl
  | cons op h ih =>
    intro cur l
    cases op with
    | numbered n => simpa [skeleton, attachFrom] using ih (some n) l
    | number n v => simpa [skeleton, attachFrom] using ih cur l
    | ref r s l' => simpa [skeleton, attachFrom] using ih cur l
    | label l' nd =>
      have := ih cur l
      simp only [skeleton] at this
      simp [skeleton, attachFrom, this]

theorem attachFrom_not_named (h : List Op) : ∀ (cur : Option NodeId) (l : Label),
    l ∉ labelNames h → attachFrom cur h l = none := by
  induction h with
  | nil => intros; rfl
  | cons op h ih =>
    intro cur l hl
    cases op with
    | numbered n => simpa [attachFrom] using ih (some n) l (by simpa [labelNames] using hl)
    | number n v => simpa [attachFrom] using ih cur l (by simpa [labelNames] using hl)
    | ref r s l' => simpa [attachFrom] using ih cur l (by simpa [labelNames] using hl)
    | label l' nd =>
      by_cases h0 : l' = 0
      · simpa [attachFrom, h0] using ih cur l (by simpa [labelNames, h0] using hl)
      · have hl2 : l ≠ l' ∧ l ∉ labelNames h := by simpa [labelNames, h0] using hl
        simpa [attachFrom, Ne.symm hl2.1] using ih cur l hl2.2

end PlasVerif.Proofs.Labels
