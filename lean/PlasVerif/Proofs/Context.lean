import PlasVerif.Spec.Balanced
/-! Helper lemmas for C04 (frame invariant of balanced histories). -/
namespace PlasVerif.Proofs.Context
open PlasVerif.Model.Context PlasVerif.Model.Catcodes PlasVerif.Spec.Balanced

/-! ## `mapFrames` -/

theorem mapFrames_cons_ne (L G : Frame → Frame) (f : Frame) (t : Ctx) (h : t ≠ []) :
    mapFrames L G (f :: t) = L f :: mapFrames L G t := by
  cases t with
  | nil => exact absurd rfl h
  | cons a b => rfl

theorem mapFrames_length (L G : Frame → Frame) (c : Ctx) : (mapFrames L G c).length = c.length := by
  induction c with
  | nil => rfl
  | cons f t ih =>
    cases t with
    | nil => rfl
    | cons a b => rw [mapFrames_cons_ne L G f (a :: b) (by simp)]; simp [ih]

theorem mapFrames_ne_nil (L G : Frame → Frame) (c : Ctx) (h : c ≠ []) : mapFrames L G c ≠ [] := by
  intro h'
  have := mapFrames_length L G c
  rw [h'] at this
  cases c with
  | nil => exact h rfl
  | cons _ _ => simp at this

theorem mapFrames_comp (L1 G1 L2 G2 : Frame → Frame) (c : Ctx) :
    mapFrames L2 G2 (mapFrames L1 G1 c) = mapFrames (L2 ∘ L1) (G2 ∘ G1) c := by
  induction c with
  | nil => rfl
  | cons f t ih =>
    cases t with
    | nil => rfl
    | cons a b =>
      rw [mapFrames_cons_ne L1 G1 f (a :: b) (by simp), mapFrames_cons_ne (L2 ∘ L1) (G2 ∘ G1) f (a :: b) (by simp),
        mapFrames_cons_ne L2 G2 _ _ (mapFrames_ne_nil L1 G1 (a :: b) (by simp)), ih]
      rfl

theorem mapFrames_congr {L G L' G' : Frame → Frame} (h1 : ∀ f, L f = L' f) (h2 : ∀ f, G f = G' f) (c : Ctx) :
    mapFrames L G c = mapFrames L' G' c := by
  have e1 : L = L' := funext h1
  have e2 : G = G' := funext h2
  rw [e1, e2]

theorem mapFrames_id (c : Ctx) : mapFrames id id c = c := by
  induction c with
  | nil => rfl
  | cons f t ih =>
    cases t with
    | nil => rfl
    | cons a b => rw [mapFrames_cons_ne id id f (a :: b) (by simp), ih]; rfl

/-! ## the model's stack operations as `mapFrames` -/

theorem modifyGlobal_eq (g : Frame → Frame) (c : Ctx) : modifyGlobal g c = mapFrames id g c := by
  induction c with
  | nil => rfl
  | cons f t ih =>
    cases t with
    | nil => rfl
    | cons a b => simp only [modifyGlobal] at ih ⊢; rw [mapFrames_cons_ne id g f (a :: b) (by simp), ih]; rfl

theorem modifyGlobal_cons_ne (g : Frame → Frame) (f : Frame) (t : Ctx) (h : t ≠ []) :
    modifyGlobal g (f :: t) = f :: modifyGlobal g t := by
  cases t with
  | nil => exact absurd rfl h
  | cons a b => simp [modifyGlobal]

theorem modifyGlobal_ne_nil (g : Frame → Frame) (c : Ctx) (h : c ≠ []) : modifyGlobal g c ≠ [] := by
  rw [modifyGlobal_eq]; exact mapFrames_ne_nil _ _ c h

theorem dropLocalsL_eq (ns : List Nat) (c : Ctx) :
    dropLocalsL ns c = mapFrames (fun f => { f with macros := f.macros.filter (fun p => !ns.contains p.1) }) id c := by
  induction c with
  | nil => rfl
  | cons f t ih =>
    cases t with
    | nil => rfl
    | cons a b => simp only [dropLocalsL] at ih ⊢; rw [mapFrames_cons_ne _ id f (a :: b) (by simp), ih]

theorem dropLetsL_eq (ls : List Nat) (c : Ctx) :
    dropLetsL ls c = mapFrames (fun f => { f with lets := f.lets.filter (fun p => !ls.contains p.1) }) id c := by
  induction c with
  | nil => rfl
  | cons f t ih =>
    cases t with
    | nil => rfl
    | cons a b => simp only [dropLetsL] at ih ⊢; rw [mapFrames_cons_ne _ id f (a :: b) (by simp), ih]

theorem dropLocalsL_ne_nil (ns : List Nat) (c : Ctx) (h : c ≠ []) : dropLocalsL ns c ≠ [] := by
  rw [dropLocalsL_eq]; exact mapFrames_ne_nil _ _ c h

theorem dropLetsL_ne_nil (ls : List Nat) (c : Ctx) (h : c ≠ []) : dropLetsL ls c ≠ [] := by
  rw [dropLetsL_eq]; exact mapFrames_ne_nil _ _ c h

theorem dropLocalsL_cons_ne (ns : List Nat) (f : Frame) (t : Ctx) (h : t ≠ []) :
    dropLocalsL ns (f :: t) =
      { f with macros := f.macros.filter (fun p => !ns.contains p.1) } :: dropLocalsL ns t := by
  cases t with
  | nil => exact absurd rfl h
  | cons a b => rfl

theorem dropLetsL_cons_ne (ls : List Nat) (f : Frame) (t : Ctx) (h : t ≠ []) :
    dropLetsL ls (f :: t) =
      { f with lets := f.lets.filter (fun p => !ls.contains p.1) } :: dropLetsL ls t := by
  cases t with
  | nil => exact absurd rfl h
  | cons a b => rfl

/-! ## `shape` -/

theorem filter_const_true {β} (l : List β) : l.filter (fun _ => true) = l := by
  induction l with
  | nil => rfl
  | cons x l ih => simp [List.filter_cons]

theorem filter_notin_nil {β} (l : List (Nat × β)) : l.filter (fun p => !([] : List Nat).contains p.1) = l := by
  simp [filter_const_true]

theorem shape_nil (c : Ctx) : shape {} c = c := by
  have h1 : ∀ f, ({} : Delta).localF f = id f := by
    intro f; cases f; simp [Delta.localF, filter_const_true]
  have h2 : ∀ f, ({} : Delta).globalF f = id f := by
    intro f; cases f; simp [Delta.globalF]
  rw [shape, mapFrames_congr h1 h2, mapFrames_id]

theorem shape_length (d : Delta) (c : Ctx) : (shape d c).length = c.length := mapFrames_length _ _ c

theorem shape_ne_nil (d : Delta) (c : Ctx) (h : c ≠ []) : shape d c ≠ [] := mapFrames_ne_nil _ _ c h

theorem filter_filter_contains {β} (a b : List Nat) (l : List (Nat × β)) :
    (l.filter (fun p => !b.contains p.1)).filter (fun p => !a.contains p.1) = l.filter (fun p => !(a ++ b).contains p.1) := by
  simp only [List.filter_filter]
  congr 1
  funext p
  simp [List.contains_append, Bool.and_comm]

theorem shape_shape (d1 d2 : Delta) (c : Ctx) : shape d2 (shape d1 c) = shape (d2.app d1) c := by
  simp only [shape]
  rw [mapFrames_comp]
  apply mapFrames_congr
  · intro f
    simp only [Function.comp, Delta.localF, Delta.app, filter_filter_contains]
  · intro f
    simp only [Function.comp, Delta.globalF, Delta.app, List.append_assoc]

theorem addGlobal_eq_shape (n : Nat) (v : Val) (c : Ctx) : addGlobal n v c = shape { g := [(n, v)] } c := by
  rw [addGlobal, modifyGlobal_eq, shape]
  apply mapFrames_congr
  · intro f; cases f; simp [Delta.localF, filter_const_true]
  · intro f; simp [Delta.globalF]

theorem addGlobalLet_eq_shape (d t : Nat) (c : Ctx) :
    modifyGlobal (fun f => { f with lets := (d, t) :: f.lets }) c = shape { gl := [(d, t)] } c := by
  rw [modifyGlobal_eq, shape]
  apply mapFrames_congr
  · intro f; cases f; simp [Delta.localF, filter_const_true]
  · intro f; simp [Delta.globalF]

theorem dropLocalsL_eq_shape (ns : List Nat) (c : Ctx) : dropLocalsL ns c = shape { ns := ns } c := by
  rw [dropLocalsL_eq, shape]
  apply mapFrames_congr
  · intro f; simp [Delta.localF, filter_const_true]
  · intro f; cases f; simp [Delta.globalF]

theorem dropLetsL_eq_shape (ls : List Nat) (c : Ctx) : dropLetsL ls c = shape { ls := ls } c := by
  rw [dropLetsL_eq, shape]
  apply mapFrames_congr
  · intro f; simp [Delta.localF, filter_const_true]
  · intro f; cases f; simp [Delta.globalF]

theorem Delta.sub_refl (d : Delta) : d.sub d := ⟨fun _ h => h, fun _ h => h, fun _ h => h, fun _ h => h⟩

theorem Delta.nil_sub (d : Delta) : ({} : Delta).sub d := ⟨by simp, by simp, by simp, by simp⟩

/-- changing what is below a frame: the frame keeps its object and categories -/
theorem shape_cons (d : Delta) (f : Frame) (t : Ctx) :
    ∃ f1 d1, shape d (f :: t) = f1 :: shape d1 t ∧ f1.obj = f.obj ∧ f1.cats = f.cats ∧ Delta.sub d1 d := by
  cases t with
  | nil => exact ⟨d.globalF f, {}, rfl, rfl, rfl, Delta.nil_sub d⟩
  | cons a b => exact ⟨d.localF f, d, rfl, rfl, rfl, Delta.sub_refl d⟩

/-! ## `justified` -/

theorem justified_nil (ops : List Op) : ({} : Delta).justified ops := ⟨by simp, by simp, by simp, by simp⟩

theorem justified_mono {d : Delta} {ops ops' : List Op} (h : d.justified ops) (hs : ∀ op ∈ ops, op ∈ ops') :
    d.justified ops' := by
  obtain ⟨h1, h2, h3, h4⟩ := h
  refine ⟨?_, ?_, ?_, ?_⟩
  · intro x hx; obtain ⟨op, ho, hp⟩ := h1 x hx; exact ⟨op, hs op ho, hp⟩
  · intro x hx; obtain ⟨op, ho, hp⟩ := h2 x hx; exact ⟨op, hs op ho, hp⟩
  · intro x hx; obtain ⟨op, ho, hp⟩ := h3 x hx; exact ⟨op, hs op ho, hp⟩
  · intro x hx; obtain ⟨op, ho, hp⟩ := h4 x hx; exact ⟨op, hs op ho, hp⟩

theorem justified_sub {d1 d : Delta} {ops : List Op} (hs : Delta.sub d1 d) (h : d.justified ops) : d1.justified ops :=
  ⟨fun x hx => h.1 x (hs.1 x hx), fun x hx => h.2.1 x (hs.2.1 x hx), fun x hx => h.2.2.1 x (hs.2.2.1 x hx),
    fun x hx => h.2.2.2 x (hs.2.2.2 x hx)⟩

theorem justified_app {d1 d2 : Delta} {ops : List Op} (h2 : d2.justified ops) (h1 : d1.justified ops) :
    (d2.app d1).justified ops := by
  refine ⟨?_, ?_, ?_, ?_⟩ <;> intro x hx <;> simp only [Delta.app] at hx <;> rcases List.mem_append.mp hx with h | h
  · exact h2.1 x h
  · exact h1.1 x h
  · exact h2.2.1 x h
  · exact h1.2.1 x h
  · exact h2.2.2.1 x h
  · exact h1.2.2.1 x h
  · exact h2.2.2.2 x h
  · exact h1.2.2.2 x h

/-- a plain operation on `f :: t` changes only the top frame (keeping its object), adds globals below and
    — for `\\gdef` and `\\global\\let` — drops the local bindings / aliases of the assigned name below; every component of
    the change is accounted for by the operation -/
theorem plain_step (o : Op) (ho : Op.plain o = true) (f : Frame) (t : Ctx) :
    ∃ f' d, step (f :: t) o = f' :: shape d t ∧ f'.obj = f.obj ∧ d.justified [o] := by
  -- an operation whose effect on the whole stack is `shape d0` with `d0` justified
  have viaShape : ∀ (d0 : Delta), d0.justified [o] → ∀ c', c' = shape d0 (f :: t) →
      ∃ f' d, c' = f' :: shape d t ∧ f'.obj = f.obj ∧ d.justified [o] := by
    intro d0 hj c' hc
    obtain ⟨f1, d1, h1, h2, _, hs⟩ := shape_cons d0 f t
    exact ⟨f1, d1, by rw [hc, h1], h2, justified_sub hs hj⟩
  -- an operation that only rewrites the top frame
  have top : ∀ (f' : Frame), f'.obj = f.obj → ∃ f'' d, f' :: t = f'' :: shape d t ∧ f''.obj = f.obj ∧ d.justified [o] := by
    intro f' h
    exact ⟨f', {}, by rw [shape_nil], h, justified_nil _⟩
  cases o with
  | push _ _ => simp [Op.plain] at ho
  | pop _ => simp [Op.plain] at ho
  | addGlobal n v =>
    exact viaShape { g := [(n, v)] } ⟨by simp [globalSource], by simp, by simp, by simp⟩ _ (addGlobal_eq_shape n v _)
  | addLocal n v => exact top { f with macros := (n, v) :: f.macros } rfl
  | letTok d tk => exact top { f with lets := (d, tk) :: f.lets } rfl
  | setCat ch k => exact top { f with cats := setCat f.cats ch k } rfl
  | setVerbatim => exact top { f with cats := verbatimCats } rfl
  | lookup n =>
    simp only [step, lookup]
    cases hf : find n (f :: t) with
    | some v => exact top f rfl
    | none =>
      exact viaShape { g := [(n, .unrec n)] } ⟨by simp [globalSource], by simp, by simp, by simp⟩ _ (addGlobal_eq_shape n _ _)
  | letCs d s =>
    simp only [step, letCs, lookup]
    cases hf : find s (f :: t) with
    | some v => exact top { f with macros := (d, v) :: f.macros } rfl
    | none =>
      obtain ⟨f', d', h1, h2, h3⟩ := viaShape { g := [(s, .unrec s)] } ⟨by simp [globalSource], by simp, by simp, by simp⟩ _
        (addGlobal_eq_shape s (.unrec s) (f :: t))
      simp only [h1, addLocal, modifyTop]
      exact ⟨{ f' with macros := (d, .unrec s) :: f'.macros }, d', rfl, h2, h3⟩
  | gdef n v =>
    refine viaShape { g := [(n, v)], ns := [n] } ⟨by simp [globalSource], by simp [isGdef], by simp, by simp⟩ _ ?_
    simp only [step, defGlobal]
    rw [addGlobal_eq_shape, dropLocalsL_eq_shape, shape_shape]; rfl
  | gletCs d s =>
    simp only [step, letGlobalCs, lookup]
    cases hf : find s (f :: t) with
    | some v =>
      refine viaShape { g := [(d, v)], ns := [d], ls := [d] } ⟨by simp [globalSource], by simp [isGdef], by simp, by simp [isGlet]⟩ _ ?_
      simp only
      rw [addGlobal_eq_shape, dropLetsL_eq_shape, dropLocalsL_eq_shape, shape_shape, shape_shape]; rfl
    | none =>
      refine viaShape { g := [(d, .unrec s), (s, .unrec s)], ns := [d], ls := [d] }
        ⟨by simp [globalSource], by simp [isGdef], by simp, by simp [isGlet]⟩ _ ?_
      simp only
      rw [addGlobal_eq_shape, dropLetsL_eq_shape, dropLocalsL_eq_shape, addGlobal_eq_shape, shape_shape, shape_shape, shape_shape]; rfl
  | gletTok d tk =>
    refine viaShape { gl := [(d, tk)], ns := [d], ls := [d] } ⟨by simp, by simp [isGdef], by simp [isGlet], by simp [isGlet]⟩ _ ?_
    simp only [step, letGlobalTok]
    rw [addGlobalLet_eq_shape, dropLetsL_eq_shape, dropLocalsL_eq_shape, shape_shape, shape_shape]; rfl

theorem run_append (a b : List Op) (c : Ctx) : run (a ++ b) c = run b (run a c) := by
  simp [run, List.foldl_append]

theorem run_cons (o : Op) (ops : List Op) (c : Ctx) : run (o :: ops) c = run ops (step c o) := rfl

/-- closing a group pops exactly the frame that the matching push created -/
theorem pop_own_frame (o o' : Option ObjRef) (fnew : Frame) (rest : Ctx) (h : fnew.obj = o)
    (hc : closes o o' = true) (hr : rest ≠ []) : pop o' (fnew :: rest) = rest := by
  cases rest with
  | nil => exact absurd rfl hr
  | cons a b =>
    cases o with
    | none =>
      cases o' with
      | none => simp [pop, popNone, h]
      | some r => simp [closes] at hc
    | some x =>
      cases o' with
      | none => simp [closes] at hc
      | some r =>
        simp only [closes, Bool.or_eq_true, Bool.and_eq_true, beq_iff_eq, bne_iff_ne, ne_eq] at hc
        simp only [pop, popObj, h]
        by_cases h1 : x.id = r.id
        · simp [h1]
        · rcases hc with hc | ⟨hp, hc⟩
          · exact absurd hc h1
          · simp only [h1, if_false, hp]
            rcases hc with ⟨ht, hm⟩ | hn
            · simp [ht, hm]
            · by_cases ht : x.typeId = r.typeId ∧ r.modeEnd = true
              · simp [ht]
              · simp [ht, hn]

theorem push_notDoc (o : Option ObjRef) (l : List (Nat × Val)) (c : Ctx) (h : notDoc o = true) :
    push o l c = { macros := l, lets := [], cats := cats c, obj := o } :: c := by
  cases o with
  | none => rfl
  | some r => simp [notDoc] at h; simp [push, h]

/-- **frame invariant**: a balanced history run on `f :: t` leaves `t` untouched except for a change `d` (definitions and
    aliases added to the global frame; local bindings / aliases of globally assigned names dropped at every level); it keeps
    the depth and the top frame's object; every component of `d` is accounted for by an operation of the history -/
theorem balanced_frame {ops : List Op} (hb : Balanced ops) :
    ∀ (f : Frame) (t : Ctx), ∃ f' d, run ops (f :: t) = f' :: shape d t ∧ f'.obj = f.obj ∧ d.justified ops := by
  induction hb with
  | nil => intro f t; exact ⟨f, {}, by simp [run, shape_nil], rfl, justified_nil _⟩
  | op o rest ho _ ih =>
    intro f t
    obtain ⟨f1, d1, h1, e1, j1⟩ := plain_step o ho f t
    obtain ⟨f2, d2, h2, e2, j2⟩ := ih f1 (shape d1 t)
    refine ⟨f2, d2.app d1, ?_, e2.trans e1, ?_⟩
    · rw [run_cons, h1, h2, shape_shape]
    · exact justified_app (justified_mono j2 (fun op h => List.mem_cons_of_mem _ h))
        (justified_mono j1 (fun op h => by simp at h; simp [h]))
  | group o o' locals body rest hnd hcl _ _ ihb ihr =>
    intro f t
    obtain ⟨fb, db, hb1, eb, jb⟩ := ihb { macros := locals, lets := [], cats := cats (f :: t), obj := o } (f :: t)
    obtain ⟨f1, d1, h1, e1, _, sub1⟩ := shape_cons db f t
    obtain ⟨f2, d2, h2, e2, j2⟩ := ihr f1 (shape d1 t)
    refine ⟨f2, d2.app d1, ?_, e2.trans e1, ?_⟩
    · rw [run_cons, run_append, run_cons]
      simp only [step]
      rw [push_notDoc o locals (f :: t) hnd, hb1, pop_own_frame o o' fb _ eb hcl (by rw [h1]; simp), h1, h2, shape_shape]
    · exact justified_app (justified_mono j2 (fun op h => by simp [h]))
        (justified_mono (justified_sub sub1 jb) (fun op h => by simp [h]))


/-! ## what `shape` does and does not change -/

theorem cats_shape (d : Delta) (c : Ctx) : cats (shape d c) = cats c := by
  cases c with
  | nil => rfl
  | cons f t =>
    obtain ⟨f1, d1, h1, _, hc, _⟩ := shape_cons d f t
    rw [h1]; simp [cats, hc]

theorem lookup_cons {β} (n a : Nat) (b : β) (l : List (Nat × β)) :
    List.lookup n ((a, b) :: l) = if n == a then some b else List.lookup n l := by
  simp only [List.lookup]
  cases (n == a) <;> rfl

theorem lookup_filter_other {β} (n : Nat) (ns : List Nat) (hn : n ∉ ns) (l : List (Nat × β)) :
    (l.filter (fun p => !ns.contains p.1)).lookup n = l.lookup n := by
  induction l with
  | nil => rfl
  | cons x l ih =>
    obtain ⟨a, b⟩ := x
    rw [List.filter_cons]
    by_cases hc : (!ns.contains a) = true
    · rw [if_pos hc, lookup_cons, lookup_cons, ih]
    · rw [if_neg hc, lookup_cons, ih]
      have hmem : a ∈ ns := by simpa using hc
      have hne : (n == a) = false := by
        rw [beq_eq_false_iff_ne]
        intro e; subst e; exact hn hmem
      rw [hne]; rfl

theorem lookup_filter_self {β} (n : Nat) (l : List (Nat × β)) :
    (l.filter (fun p => ![n].contains p.1)).lookup n = none := by
  induction l with
  | nil => rfl
  | cons x l ih =>
    obtain ⟨a, b⟩ := x
    rw [List.filter_cons]
    by_cases ha : a = n
    · have hc : ¬ (![n].contains a) = true := by subst ha; simp
      rw [if_neg hc]; exact ih
    · have hc : (![n].contains a) = true := by simp [ha]
      have hne : (n == a) = false := by
        rw [beq_eq_false_iff_ne]; exact fun e => ha e.symm
      rw [if_pos hc, lookup_cons, hne, ih]; rfl


theorem lookup_append_other {β} (n : Nat) (g l : List (Nat × β)) (hn : ∀ x ∈ g, x.1 ≠ n) : (g ++ l).lookup n = l.lookup n := by
  induction g with
  | nil => rfl
  | cons x g ih =>
    obtain ⟨a, b⟩ := x
    have hx : a ≠ n := hn (a, b) List.mem_cons_self
    have : (n == a) = false := by rw [beq_eq_false_iff_ne]; exact fun h => hx h.symm
    rw [List.cons_append, lookup_cons, this]
    exact ih (fun y hy => hn y (List.mem_cons_of_mem _ hy))

/-- a name whose aliases the change does not touch means the same token before and after -/
theorem getLet_shape (n : Nat) (d : Delta) (c : Ctx) (hgl : ∀ x ∈ d.gl, x.1 ≠ n) (hls : n ∉ d.ls) :
    getLet n (shape d c) = getLet n c := by
  induction c with
  | nil => rfl
  | cons f t ih =>
    cases t with
    | nil =>
      show (match (d.gl ++ f.lets).lookup n with | some v => some v | none => none) = (match f.lets.lookup n with | some v => some v | none => none)
      rw [lookup_append_other n d.gl f.lets hgl]
    | cons a b =>
      rw [shape, mapFrames_cons_ne _ _ f (a :: b) (by simp)]
      show (match (f.lets.filter (fun p => !d.ls.contains p.1)).lookup n with | some v => some v | none => getLet n (shape d (a :: b))) = (match f.lets.lookup n with | some v => some v | none => getLet n (a :: b))
      rw [lookup_filter_other n d.ls hls, ih]

/-- a name without a global binding in `d.g` that was not globally assigned means the same before and after -/
theorem find_shape (n : Nat) (d : Delta) (c : Ctx) (hg : ∀ x ∈ d.g, x.1 ≠ n) (hn : n ∉ d.ns) :
    find n (shape d c) = find n c := by
  induction c with
  | nil => rfl
  | cons f t ih =>
    cases t with
    | nil =>
      show (match (d.g ++ f.macros).lookup n with | some v => some v | none => none) = (match f.macros.lookup n with | some v => some v | none => none)
      rw [lookup_append_other n d.g f.macros hg]
    | cons a b =>
      rw [shape, mapFrames_cons_ne _ _ f (a :: b) (by simp)]
      show (match (f.macros.filter (fun p => !d.ns.contains p.1)).lookup n with | some v => some v | none => find n (shape d (a :: b))) = (match f.macros.lookup n with | some v => some v | none => find n (a :: b))
      rw [lookup_filter_other n d.ns hn, ih]

theorem find_dropLocalsL (n : Nat) (ns : List Nat) (hn : n ∉ ns) (c : Ctx) : find n (dropLocalsL ns c) = find n c := by
  rw [dropLocalsL_eq_shape]; exact find_shape n _ c (by simp) hn

theorem find_dropLetsL (n : Nat) (ls : List Nat) (c : Ctx) : find n (dropLetsL ls c) = find n c := by
  rw [dropLetsL_eq_shape]; exact find_shape n _ c (by simp) (by simp)

/-! ## global definitions persist through any history -/

theorem findGlobal_modifyTop_macros (n : Nat) (c : Ctx) (h : Frame → Frame)
    (hm : ∀ f, (h f).macros.lookup n = f.macros.lookup n) : findGlobal n (modifyTop h c) = findGlobal n c := by
  cases c with
  | nil => rfl
  | cons f t =>
    cases t with
    | nil => simp [modifyTop, findGlobal, hm]
    | cons a b => simp [modifyTop, findGlobal]

theorem findGlobal_popNone (n : Nat) (c : Ctx) : findGlobal n (popNone c) = findGlobal n c := by
  induction c with
  | nil => rfl
  | cons f t ih =>
    cases t with
    | nil => rfl
    | cons a b =>
      simp only [popNone]
      split
      · simp [findGlobal]
      · rw [ih]; simp [findGlobal]

theorem findGlobal_popObj (n : Nat) (o : ObjRef) (c : Ctx) : findGlobal n (popObj o c) = findGlobal n c := by
  induction c with
  | nil => rfl
  | cons f t ih =>
    cases t with
    | nil => rfl
    | cons a b =>
      simp only [popObj]
      split
      · rw [ih]; simp [findGlobal]
      · split
        · simp [findGlobal]
        · split
          · rfl
          · split
            · simp [findGlobal]
            · split
              · simp [findGlobal]
              · rw [ih]; simp [findGlobal]

theorem findGlobal_globalOnly (n : Nat) (c : Ctx) : findGlobal n (globalOnly c) = findGlobal n c := by
  induction c with
  | nil => rfl
  | cons f t ih =>
    cases t with
    | nil => rfl
    | cons a b => simp only [globalOnly]; rw [ih]; simp [findGlobal]

theorem globalOnly_ne_nil (c : Ctx) (h : c ≠ []) : globalOnly c ≠ [] := by
  induction c with
  | nil => exact absurd rfl h
  | cons f t ih =>
    cases t with
    | nil => simp [globalOnly]
    | cons a b => simp only [globalOnly]; exact ih (by simp)

theorem findGlobal_cons_ne (n : Nat) (f : Frame) (c : Ctx) (h : c ≠ []) : findGlobal n (f :: c) = findGlobal n c := by
  cases c with
  | nil => exact absurd rfl h
  | cons a b => rfl

theorem findGlobal_addGlobal_other (n m : Nat) (v : Val) (c : Ctx) (h : m ≠ n) :
    findGlobal n (addGlobal m v c) = findGlobal n c := by
  induction c with
  | nil => rfl
  | cons f t ih =>
    cases t with
    | nil =>
      have : (n == m) = false := by simp; exact fun e => h e.symm
      simp [addGlobal, modifyGlobal, findGlobal, List.lookup, this]
    | cons a b =>
      simp only [addGlobal] at ih ⊢
      rw [modifyGlobal_cons_ne _ f (a :: b) (by simp), findGlobal_cons_ne n f _ (modifyGlobal_ne_nil _ _ (by simp)), ih]
      rfl




theorem findGlobal_dropLetsL (n : Nat) (ls : List Nat) (c : Ctx) : findGlobal n (dropLetsL ls c) = findGlobal n c := by
  induction c with
  | nil => rfl
  | cons f t ih =>
    cases t with
    | nil => rfl
    | cons a b =>
      rw [dropLetsL_cons_ne ls f (a :: b) (by simp), findGlobal_cons_ne n _ _ (dropLetsL_ne_nil ls (a :: b) (by simp)), ih]
      rfl

theorem findGlobal_modifyGlobal_lets (n : Nat) (c : Ctx) (h : Frame → Frame)
    (hm : ∀ f, (h f).macros = f.macros) : findGlobal n (modifyGlobal h c) = findGlobal n c := by
  induction c with
  | nil => rfl
  | cons f t ih =>
    cases t with
    | nil => simp [modifyGlobal, findGlobal, hm]
    | cons a b =>
      rw [modifyGlobal_cons_ne _ f (a :: b) (by simp), findGlobal_cons_ne n f _ (modifyGlobal_ne_nil _ _ (by simp)), ih]
      rfl

theorem findGlobal_dropLocalsL (n : Nat) (ns : List Nat) (c : Ctx) : findGlobal n (dropLocalsL ns c) = findGlobal n c := by
  induction c with
  | nil => rfl
  | cons f t ih =>
    cases t with
    | nil => rfl
    | cons a b =>
      rw [dropLocalsL_cons_ne ns f (a :: b) (by simp), findGlobal_cons_ne n _ _ (dropLocalsL_ne_nil ns (a :: b) (by simp)), ih]
      rfl

/-- after `\gdef\n` the name means the new definition at every level -/
theorem find_defGlobal (n : Nat) (v : Val) (c : Ctx) (h : c ≠ []) : find n (defGlobal n v c) = some v := by
  unfold defGlobal
  induction c with
  | nil => exact absurd rfl h
  | cons f t ih =>
    cases t with
    | nil => simp [dropLocalsL, addGlobal, modifyGlobal, find, List.lookup]
    | cons a b =>
      rw [dropLocalsL_cons_ne [n] f (a :: b) (by simp), addGlobal,
        modifyGlobal_cons_ne _ _ _ (dropLocalsL_ne_nil [n] (a :: b) (by simp))]
      have hl := lookup_filter_self n f.macros
      show (match (f.macros.filter (fun p => ![n].contains p.1)).lookup n with | some v => some v | none => find n _) = some v
      rw [hl]
      exact ih (by simp)

/-- lookups of macros do not see the alias components of a change -/
theorem find_shape_macros_only (n : Nat) (d : Delta) (c : Ctx) :
    find n (shape d c) = find n (shape { g := d.g, ns := d.ns } c) := by
  induction c with
  | nil => rfl
  | cons f t ih =>
    cases t with
    | nil => rfl
    | cons a b =>
      rw [shape, shape, mapFrames_cons_ne _ _ f (a :: b) (by simp), mapFrames_cons_ne _ _ f (a :: b) (by simp)]
      show (match (f.macros.filter (fun p => !d.ns.contains p.1)).lookup n with | some v => some v | none => find n (shape d (a :: b))) =
        (match (f.macros.filter (fun p => !d.ns.contains p.1)).lookup n with | some v => some v | none => find n (shape { g := d.g, ns := d.ns } (a :: b)))
      rw [ih]

/-- after `\\global\\let\\d=\\s` the name `d` means, at every level, what `\\s` meant (an undefined `\\s` having first become a
    global placeholder, as for any lookup) -/
theorem find_letGlobalCs (d s : Nat) (c : Ctx) (h : c ≠ []) :
    find d (letGlobalCs d s c) = some (lookup s c).1 := by
  have key : ∀ (v : Val) (c' : Ctx), c' ≠ [] → find d (addGlobal d v (dropLetsL [d] (dropLocalsL [d] c'))) = some v := by
    intro v c' h'
    have e : addGlobal d v (dropLetsL [d] (dropLocalsL [d] c')) = shape { g := [(d, v)], ns := [d], ls := [d] } c' := by
      rw [addGlobal_eq_shape, dropLetsL_eq_shape, dropLocalsL_eq_shape, shape_shape, shape_shape]; rfl
    have e2 : defGlobal d v c' = shape { g := [(d, v)], ns := [d] } c' := by
      rw [defGlobal, addGlobal_eq_shape, dropLocalsL_eq_shape, shape_shape]; rfl
    rw [e, find_shape_macros_only, ← e2]
    exact find_defGlobal d v c' h'
  simp only [letGlobalCs, lookup]
  cases hf : find s c with
  | some v => exact key v c h
  | none => exact key _ _ (modifyGlobal_ne_nil _ c h)

/-- `op` writes (or may write) a binding for `n` somewhere -/
def touches (n : Nat) : Op → Bool
  | .addGlobal m _ => m == n
  | .addLocal m _ => m == n
  | .lookup m => m == n
  | .letCs d s => d == n || s == n
  | .gdef m _ => m == n
  | .gletCs d s => d == n || s == n
  | _ => false

theorem popNone_ne_nil (c : Ctx) (h : c ≠ []) : popNone c ≠ [] := by
  induction c with
  | nil => exact absurd rfl h
  | cons f t ih =>
    cases t with
    | nil => simp [popNone]
    | cons a b =>
      simp only [popNone]
      split
      · simp
      · exact ih (by simp)

theorem popObj_ne_nil (o : ObjRef) (c : Ctx) (h : c ≠ []) : popObj o c ≠ [] := by
  induction c with
  | nil => exact absurd rfl h
  | cons f t ih =>
    cases t with
    | nil => simp [popObj]
    | cons a b =>
      simp only [popObj]
      split
      · exact ih (by simp)
      · split
        · simp
        · split
          · simp
          · split
            · simp
            · split
              · simp
              · exact ih (by simp)

theorem modifyTop_ne_nil (g : Frame → Frame) (c : Ctx) (h : c ≠ []) : modifyTop g c ≠ [] := by
  cases c with
  | nil => exact absurd rfl h
  | cons f t => simp [modifyTop]

theorem step_ne_nil (c : Ctx) (op : Op) (h : c ≠ []) : step c op ≠ [] := by
  cases op with
  | push o l => simp [step, push]
  | pop o => cases o with
    | none => exact popNone_ne_nil c h
    | some r => exact popObj_ne_nil r c h
  | addGlobal n v => exact modifyGlobal_ne_nil _ c h
  | addLocal n v => exact modifyTop_ne_nil _ c h
  | letCs d s =>
    simp only [step, letCs, lookup]
    split <;> exact modifyTop_ne_nil _ _ (by first | exact h | exact modifyGlobal_ne_nil _ c h)
  | letTok d t => exact modifyTop_ne_nil _ c h
  | setCat ch k => exact modifyTop_ne_nil _ c h
  | setVerbatim => exact modifyTop_ne_nil _ c h
  | lookup n =>
    simp only [step, lookup]
    split
    · exact h
    · exact modifyGlobal_ne_nil _ c h
  | gdef n v => exact modifyGlobal_ne_nil _ _ (dropLocalsL_ne_nil [n] c h)
  | gletCs d s =>
    simp only [step, letGlobalCs, lookup]
    split <;> exact modifyGlobal_ne_nil _ _ (dropLetsL_ne_nil _ _ (dropLocalsL_ne_nil _ _
      (by first | exact h | exact modifyGlobal_ne_nil _ c h)))
  | gletTok d t => exact modifyGlobal_ne_nil _ _ (dropLetsL_ne_nil _ _ (dropLocalsL_ne_nil _ c h))

theorem findGlobal_step (n : Nat) (c : Ctx) (op : Op) (h : c ≠ []) (ht : touches n op = false) :
    findGlobal n (step c op) = findGlobal n c := by
  cases op with
  | push o l =>
    simp only [step, push]
    cases o with
    | none => exact findGlobal_cons_ne n _ c h
    | some r =>
      simp only
      split
      · rw [findGlobal_cons_ne n _ _ (globalOnly_ne_nil c h), findGlobal_globalOnly]
      · exact findGlobal_cons_ne n _ c h
  | pop o => cases o with
    | none => exact findGlobal_popNone n c
    | some r => exact findGlobal_popObj n r c
  | addGlobal m v =>
    simp [touches] at ht
    exact findGlobal_addGlobal_other n m v c ht
  | addLocal m v =>
    simp [touches] at ht
    have : (n == m) = false := by simp; exact fun e => ht e.symm
    exact findGlobal_modifyTop_macros n c _ (fun f => by simp [List.lookup, this])
  | letTok d t => exact findGlobal_modifyTop_macros n c _ (fun f => rfl)
  | setCat ch k => exact findGlobal_modifyTop_macros n c _ (fun f => rfl)
  | setVerbatim => exact findGlobal_modifyTop_macros n c _ (fun f => rfl)
  | lookup m =>
    simp [touches] at ht
    simp only [step, lookup]
    split
    · rfl
    · exact findGlobal_addGlobal_other n m _ c ht
  | letCs d s =>
    simp [touches] at ht
    have hd : (n == d) = false := by simp; exact fun e => ht.1 e.symm
    simp only [step, letCs, lookup]
    split
    · exact findGlobal_modifyTop_macros n c _ (fun f => by simp [List.lookup, hd])
    · simp only [addLocal]
      rw [findGlobal_modifyTop_macros n _ _ (fun f => by simp [List.lookup, hd])]
      exact findGlobal_addGlobal_other n s _ c ht.2
  | gdef m v =>
    simp [touches] at ht
    simp only [step, defGlobal]
    rw [findGlobal_addGlobal_other n m v _ ht, findGlobal_dropLocalsL]
  | gletCs d s =>
    simp [touches] at ht
    simp only [step, letGlobalCs, lookup]
    split
    · rw [findGlobal_addGlobal_other n d _ _ ht.1, findGlobal_dropLetsL, findGlobal_dropLocalsL]
    · rw [findGlobal_addGlobal_other n d _ _ ht.1, findGlobal_dropLetsL, findGlobal_dropLocalsL]
      exact findGlobal_addGlobal_other n s _ c ht.2
  | gletTok d t =>
    simp only [step, letGlobalTok]
    rw [findGlobal_modifyGlobal_lets n _ (fun f => { f with lets := (d, t) :: f.lets }) (fun f => rfl),
      findGlobal_dropLetsL, findGlobal_dropLocalsL]

theorem findGlobal_run (n : Nat) (ops : List Op) : ∀ (c : Ctx), c ≠ [] → (∀ op ∈ ops, touches n op = false) →
    findGlobal n (run ops c) = findGlobal n c := by
  induction ops with
  | nil => intro c _ _; rfl
  | cons o ops ih =>
    intro c h ht
    rw [run_cons, ih (step c o) (step_ne_nil c o h) (fun op hop => ht op (List.mem_cons_of_mem _ hop)),
      findGlobal_step n c o h (ht o List.mem_cons_self)]

theorem findGlobal_addGlobal_same (n : Nat) (v : Val) (c : Ctx) (h : c ≠ []) :
    findGlobal n (addGlobal n v c) = some v := by
  induction c with
  | nil => exact absurd rfl h
  | cons f t ih =>
    cases t with
    | nil => simp [addGlobal, modifyGlobal, findGlobal, List.lookup]
    | cons a b =>
      simp only [addGlobal] at ih ⊢
      rw [modifyGlobal_cons_ne _ f (a :: b) (by simp), findGlobal_cons_ne n f _ (modifyGlobal_ne_nil _ _ (by simp))]
      exact ih (by simp)

end PlasVerif.Proofs.Context
