import PlasVerif.Spec.Balanced
/-! Helper lemmas for C04 (frame invariant of balanced histories). -/
namespace PlasVerif.Proofs.Context
open PlasVerif.Model.Context PlasVerif.Model.Catcodes PlasVerif.Spec.Balanced

theorem modifyGlobal_cons_ne (g : Frame → Frame) (f : Frame) (t : Ctx) (h : t ≠ []) :
    modifyGlobal g (f :: t) = f :: modifyGlobal g t := by
  cases t with
  | nil => exact absurd rfl h
  | cons a b => simp [modifyGlobal]

theorem modifyGlobal_length (g : Frame → Frame) (c : Ctx) : (modifyGlobal g c).length = c.length := by
  induction c with
  | nil => rfl
  | cons f t ih =>
    cases t with
    | nil => simp [modifyGlobal]
    | cons a b => simp [modifyGlobal] at ih ⊢; exact ih

theorem extG_nil (c : Ctx) : extG [] c = c := by
  unfold extG
  induction c with
  | nil => rfl
  | cons f t ih =>
    cases t with
    | nil => simp [modifyGlobal]
    | cons a b => simp [modifyGlobal] at ih ⊢; exact ih

theorem extG_length (g : List (Nat × Val)) (c : Ctx) : (extG g c).length = c.length :=
  modifyGlobal_length _ c

theorem extG_ne_nil (g : List (Nat × Val)) (c : Ctx) (h : c ≠ []) : extG g c ≠ [] := by
  intro h'
  have := extG_length g c
  rw [h'] at this
  cases c with
  | nil => exact h rfl
  | cons _ _ => simp at this

theorem modifyGlobal_ne_nil (g : Frame → Frame) (c : Ctx) (h : c ≠ []) : modifyGlobal g c ≠ [] := by
  intro h'
  have := modifyGlobal_length g c
  rw [h'] at this
  cases c with
  | nil => exact h rfl
  | cons _ _ => simp at this

theorem modifyGlobal_comp (g1 g2 : Frame → Frame) (c : Ctx) :
    modifyGlobal g2 (modifyGlobal g1 c) = modifyGlobal (g2 ∘ g1) c := by
  induction c with
  | nil => rfl
  | cons f t ih =>
    cases t with
    | nil => simp [modifyGlobal]
    | cons a b =>
      rw [modifyGlobal_cons_ne g1 f (a :: b) (by simp), modifyGlobal_cons_ne (g2 ∘ g1) f (a :: b) (by simp),
        modifyGlobal_cons_ne g2 f _ (modifyGlobal_ne_nil g1 (a :: b) (by simp)), ih]

theorem extG_extG (g1 g2 : List (Nat × Val)) (c : Ctx) : extG g2 (extG g1 c) = extG (g2 ++ g1) c := by
  unfold extG
  rw [modifyGlobal_comp]
  congr 1
  funext f
  simp [Function.comp]

theorem extG_cons_ne (g : List (Nat × Val)) (f : Frame) (t : Ctx) (h : t ≠ []) :
    extG g (f :: t) = f :: extG g t := modifyGlobal_cons_ne _ f t h

/-- adding globals below a frame: the frame keeps its object, lets and categories -/
theorem extG_cons (g : List (Nat × Val)) (f : Frame) (t : Ctx) :
    ∃ f1 g1, extG g (f :: t) = f1 :: extG g1 t ∧ f1.obj = f.obj ∧ f1.cats = f.cats ∧ f1.lets = f.lets ∧
      (∀ x ∈ g1, x ∈ g) := by
  cases t with
  | nil => exact ⟨{ f with macros := g ++ f.macros }, [], by simp [extG, modifyGlobal], rfl, rfl, rfl, by simp⟩
  | cons a b => exact ⟨f, g, by simp [extG, modifyGlobal], rfl, rfl, rfl, fun _ h => h⟩

theorem addGlobal_eq_extG (n : Nat) (v : Val) (c : Ctx) : addGlobal n v c = extG [(n, v)] c := rfl

/-! ## `dropLocalsL` and `shape` -/

theorem dropLocalsL_length (ns : List Nat) (c : Ctx) : (dropLocalsL ns c).length = c.length := by
  induction c with
  | nil => rfl
  | cons f t ih =>
    cases t with
    | nil => rfl
    | cons a b => simp only [dropLocalsL, List.length_cons] at ih ⊢; omega

theorem dropLocalsL_ne_nil (ns : List Nat) (c : Ctx) (h : c ≠ []) : dropLocalsL ns c ≠ [] := by
  intro h'
  have := dropLocalsL_length ns c
  rw [h'] at this
  cases c with
  | nil => exact h rfl
  | cons _ _ => simp at this

theorem dropLocalsL_cons_ne (ns : List Nat) (f : Frame) (t : Ctx) (h : t ≠ []) :
    dropLocalsL ns (f :: t) =
      { f with macros := f.macros.filter (fun p => !ns.contains p.1) } :: dropLocalsL ns t := by
  cases t with
  | nil => exact absurd rfl h
  | cons a b => rfl

theorem dropLocalsL_nil (c : Ctx) : dropLocalsL [] c = c := by
  induction c with
  | nil => rfl
  | cons f t ih =>
    cases t with
    | nil => rfl
    | cons a b => rw [dropLocalsL_cons_ne [] f (a :: b) (by simp), ih]; cases f; simp

theorem dropLocalsL_comp (a b : List Nat) (c : Ctx) :
    dropLocalsL a (dropLocalsL b c) = dropLocalsL (a ++ b) c := by
  induction c with
  | nil => rfl
  | cons f t ih =>
    cases t with
    | nil => rfl
    | cons x y =>
      rw [dropLocalsL_cons_ne b f (x :: y) (by simp), dropLocalsL_cons_ne (a ++ b) f (x :: y) (by simp),
        dropLocalsL_cons_ne a _ _ (dropLocalsL_ne_nil b (x :: y) (by simp)), ih]
      congr 1
      simp only [List.filter_filter]
      congr 2
      funext p
      simp [List.contains_append, Bool.and_comm]

theorem dropLocalsL_extG (ns : List Nat) (g : List (Nat × Val)) (c : Ctx) :
    dropLocalsL ns (extG g c) = extG g (dropLocalsL ns c) := by
  induction c with
  | nil => rfl
  | cons f t ih =>
    cases t with
    | nil => rfl
    | cons x y =>
      rw [extG_cons_ne g f (x :: y) (by simp), dropLocalsL_cons_ne ns f (x :: y) (by simp),
        dropLocalsL_cons_ne ns f _ (extG_ne_nil g (x :: y) (by simp)),
        extG_cons_ne g _ _ (dropLocalsL_ne_nil ns (x :: y) (by simp)), ih]

theorem shape_nil (c : Ctx) : shape [] [] c = c := by
  rw [shape, dropLocalsL_nil, extG_nil]

theorem shape_names_nil (g : List (Nat × Val)) (c : Ctx) : shape g [] c = extG g c := by
  rw [shape, dropLocalsL_nil]

theorem shape_length (g : List (Nat × Val)) (ns : List Nat) (c : Ctx) : (shape g ns c).length = c.length := by
  rw [shape, extG_length, dropLocalsL_length]

theorem shape_ne_nil (g : List (Nat × Val)) (ns : List Nat) (c : Ctx) (h : c ≠ []) : shape g ns c ≠ [] :=
  extG_ne_nil g _ (dropLocalsL_ne_nil ns c h)

theorem shape_shape (g1 g2 : List (Nat × Val)) (n1 n2 : List Nat) (c : Ctx) :
    shape g2 n2 (shape g1 n1 c) = shape (g2 ++ g1) (n2 ++ n1) c := by
  simp only [shape]
  rw [dropLocalsL_extG, extG_extG, dropLocalsL_comp]

/-- changing what is below a frame: the frame keeps its object, lets and categories -/
theorem shape_cons (g : List (Nat × Val)) (ns : List Nat) (f : Frame) (t : Ctx) :
    ∃ f1 g1 n1, shape g ns (f :: t) = f1 :: shape g1 n1 t ∧ f1.obj = f.obj ∧ f1.cats = f.cats ∧ f1.lets = f.lets ∧
      (∀ x ∈ g1, x ∈ g) ∧ (∀ x ∈ n1, x ∈ ns) := by
  cases t with
  | nil =>
    exact ⟨{ f with macros := g ++ f.macros }, [], [], by simp [shape, extG, modifyGlobal, dropLocalsL], rfl, rfl, rfl,
      by simp, by simp⟩
  | cons a b =>
    refine ⟨{ f with macros := f.macros.filter (fun p => !ns.contains p.1) }, g, ns, ?_, rfl, rfl, rfl,
      fun _ h => h, fun _ h => h⟩
    rw [shape, dropLocalsL_cons_ne ns f (a :: b) (by simp),
      extG_cons_ne g _ _ (dropLocalsL_ne_nil ns (a :: b) (by simp))]
    rfl

/-- a plain operation on `f :: t` changes only the top frame (keeping its object), adds globals below and
    — for `\gdef` — drops the local bindings of the defined name below; a name is added to the global
    frame only by an operation that is a global source for it -/
theorem plain_step (o : Op) (ho : Op.plain o = true) (f : Frame) (t : Ctx) :
    ∃ f' g ns, step (f :: t) o = f' :: shape g ns t ∧ f'.obj = f.obj ∧
      (∀ x ∈ g, globalSource x.1 o = true) ∧ (∀ n ∈ ns, isGdef n o = true) := by
  have hadd : ∀ n v, ∃ f' g, addGlobal n v (f :: t) = f' :: extG g t ∧ f'.obj = f.obj ∧ ∀ x ∈ g, x = (n, v) := by
    intro n v
    rw [addGlobal_eq_extG]
    obtain ⟨f1, g1, h1, h2, _, _, h5⟩ := extG_cons [(n, v)] f t
    exact ⟨f1, g1, h1, h2, fun x hx => by simpa using h5 x hx⟩
  have top : ∀ (f' : Frame), f'.obj = f.obj → ∃ f'' g ns, f' :: t = f'' :: shape g ns t ∧ f''.obj = f.obj ∧
      (∀ x ∈ g, globalSource x.1 o = true) ∧ (∀ n ∈ ns, isGdef n o = true) := by
    intro f' h
    exact ⟨f', [], [], by rw [shape_nil], h, by simp, by simp⟩
  cases o with
  | push _ _ => simp [Op.plain] at ho
  | pop _ => simp [Op.plain] at ho
  | addGlobal n v =>
    obtain ⟨f', g, h1, h2, h3⟩ := hadd n v
    exact ⟨f', g, [], by rw [shape_names_nil]; exact h1, h2, fun x hx => by rw [h3 x hx]; simp [globalSource], by simp⟩
  | addLocal n v => exact top { f with macros := (n, v) :: f.macros } rfl
  | letTok d tk => exact top { f with lets := (d, tk) :: f.lets } rfl
  | setCat ch k => exact top { f with cats := setCat f.cats ch k } rfl
  | setVerbatim => exact top { f with cats := verbatimCats } rfl
  | lookup n =>
    simp only [step, lookup]
    cases hf : find n (f :: t) with
    | some v => exact top f rfl
    | none =>
      obtain ⟨f', g, h1, h2, h3⟩ := hadd n (.unrec n)
      exact ⟨f', g, [], by rw [shape_names_nil]; exact h1, h2, fun x hx => by rw [h3 x hx]; simp [globalSource], by simp⟩
  | letCs d s =>
    simp only [step, letCs, lookup]
    cases hf : find s (f :: t) with
    | some v => exact top { f with macros := (d, v) :: f.macros } rfl
    | none =>
      obtain ⟨f', g, h1, h2, h3⟩ := hadd s (.unrec s)
      simp only [h1, addLocal, modifyTop]
      exact ⟨{ f' with macros := (d, .unrec s) :: f'.macros }, g, [], by rw [shape_names_nil], h2,
        fun x hx => by rw [h3 x hx]; simp [globalSource], by simp⟩
  | gdef n v =>
    obtain ⟨f1, g1, n1, h1, h2, _, _, h5, h6⟩ := shape_cons [(n, v)] [n] f t
    refine ⟨f1, g1, n1, ?_, h2, ?_, ?_⟩
    · simp only [step, defGlobal, addGlobal_eq_extG]; exact h1
    · intro x hx; have := h5 x hx; simp at this; rw [this]; simp [globalSource]
    · intro m hm; have := h6 m hm; simp at this; rw [this]; simp [isGdef]

theorem run_append (a b : List Op) (c : Ctx) : run (a ++ b) c = run b (run a c) := by
  simp [run, List.foldl_append]

theorem run_cons (o : Op) (ops : List Op) (c : Ctx) : run (o :: ops) c = run ops (step c o) := rfl

/-- closing a group pops exactly the frame that the matching push created -/
theorem pop_own_frame (o o' : Option ObjRef) (fnew : Frame) (rest : Ctx) (h : fnew.obj = o)
    (hc : closes o o' = true) (hr : rest ≠ []) : pop o' (fnew :: rest) = rest := by
  cases rest with
  | nil => exact absurd rfl hr
  | cons a b =>
    cases o with
    | none =>
      cases o' with
      | none => simp [pop, popNone, h]
      | some r => simp [closes] at hc
    | some x =>
      cases o' with
      | none => simp [closes] at hc
      | some r =>
        simp only [closes, Bool.or_eq_true, Bool.and_eq_true, beq_iff_eq, bne_iff_ne, ne_eq] at hc
        simp only [pop, popObj, h]
        by_cases h1 : x.id = r.id
        · simp [h1]
        · rcases hc with hc | ⟨hp, hc⟩
          · exact absurd hc h1
          · simp only [h1, if_false, hp]
            rcases hc with ⟨ht, hm⟩ | hn
            · simp [ht, hm]
            · by_cases ht : x.typeId = r.typeId ∧ r.modeEnd = true
              · simp [ht]
              · simp [ht, hn]

theorem push_notDoc (o : Option ObjRef) (l : List (Nat × Val)) (c : Ctx) (h : notDoc o = true) :
    push o l c = { macros := l, lets := [], cats := cats c, obj := o } :: c := by
  cases o with
  | none => rfl
  | some r => simp [notDoc] at h; simp [push, h]

/-- **frame invariant**: a balanced history run on `f :: t` leaves `t` untouched except for definitions
    added to the global frame and the local bindings of `\gdef`-ed names dropped at every level; it keeps the
    depth and the top frame's object; every name added to the global frame has a global-source operation
    in the history, every dropped name a `\gdef` -/
theorem balanced_frame {ops : List Op} (hb : Balanced ops) :
    ∀ (f : Frame) (t : Ctx), ∃ f' g ns, run ops (f :: t) = f' :: shape g ns t ∧ f'.obj = f.obj ∧
      (∀ x ∈ g, ∃ op ∈ ops, globalSource x.1 op = true) ∧ (∀ n ∈ ns, ∃ op ∈ ops, isGdef n op = true) := by
  induction hb with
  | nil => intro f t; exact ⟨f, [], [], by simp [run, shape_nil], rfl, by simp, by simp⟩
  | op o rest ho _ ih =>
    intro f t
    obtain ⟨f1, g1, n1, h1, e1, s1, d1⟩ := plain_step o ho f t
    obtain ⟨f2, g2, n2, h2, e2, s2, d2⟩ := ih f1 (shape g1 n1 t)
    refine ⟨f2, g2 ++ g1, n2 ++ n1, ?_, e2.trans e1, ?_, ?_⟩
    · rw [run_cons, h1, h2, shape_shape]
    · intro x hx
      rcases List.mem_append.mp hx with h | h
      · obtain ⟨op, hop, hs⟩ := s2 x h
        exact ⟨op, List.mem_cons_of_mem _ hop, hs⟩
      · exact ⟨o, List.mem_cons_self, s1 x h⟩
    · intro x hx
      rcases List.mem_append.mp hx with h | h
      · obtain ⟨op, hop, hs⟩ := d2 x h
        exact ⟨op, List.mem_cons_of_mem _ hop, hs⟩
      · exact ⟨o, List.mem_cons_self, d1 x h⟩
  | group o o' locals body rest hnd hcl _ _ ihb ihr =>
    intro f t
    obtain ⟨fb, gb, nb, hb1, eb, sb, db⟩ := ihb { macros := locals, lets := [], cats := cats (f :: t), obj := o } (f :: t)
    obtain ⟨f1, g1, n1, h1, e1, _, _, sub1, subn⟩ := shape_cons gb nb f t
    obtain ⟨f2, g2, n2, h2, e2, s2, d2⟩ := ihr f1 (shape g1 n1 t)
    refine ⟨f2, g2 ++ g1, n2 ++ n1, ?_, e2.trans e1, ?_, ?_⟩
    · rw [run_cons, run_append, run_cons]
      simp only [step]
      rw [push_notDoc o locals (f :: t) hnd, hb1, pop_own_frame o o' fb _ eb hcl (by rw [h1]; simp), h1, h2, shape_shape]
    · intro x hx
      rcases List.mem_append.mp hx with h | h
      · obtain ⟨op, hop, hs⟩ := s2 x h
        exact ⟨op, by simp [hop], hs⟩
      · obtain ⟨op, hop, hs⟩ := sb x (sub1 x h)
        exact ⟨op, by simp [hop], hs⟩
    · intro x hx
      rcases List.mem_append.mp hx with h | h
      · obtain ⟨op, hop, hs⟩ := d2 x h
        exact ⟨op, by simp [hop], hs⟩
      · obtain ⟨op, hop, hs⟩ := db x (subn x h)
        exact ⟨op, by simp [hop], hs⟩

/-! ## what `extG` does and does not change -/

theorem cats_extG (g : List (Nat × Val)) (c : Ctx) : cats (extG g c) = cats c := by
  cases c with
  | nil => rfl
  | cons f t =>
    obtain ⟨f1, g1, h1, _, hc, _, _⟩ := extG_cons g f t
    rw [h1]; simp [cats, hc]

theorem getLet_extG (n : Nat) (g : List (Nat × Val)) (c : Ctx) : getLet n (extG g c) = getLet n c := by
  induction c with
  | nil => rfl
  | cons f t ih =>
    cases t with
    | nil => simp [extG, modifyGlobal, getLet]
    | cons a b =>
      rw [extG_cons_ne g f (a :: b) (by simp)]
      show (match f.lets.lookup n with | some v => some v | none => getLet n (extG g (a :: b))) = (match f.lets.lookup n with | some v => some v | none => getLet n (a :: b))
      rw [ih]

/-- a name without a global binding in `g` means the same before and after -/
theorem find_extG (n : Nat) (g : List (Nat × Val)) (c : Ctx) (hn : ∀ x ∈ g, x.1 ≠ n) :
    find n (extG g c) = find n c := by
  have hl : ∀ (l : List (Nat × Val)), (g ++ l).lookup n = l.lookup n := by
    intro l
    induction g with
    | nil => rfl
    | cons x g ih =>
      have hx : x.1 ≠ n := hn x (List.mem_cons_self)
      have : (n == x.1) = false := by simp; exact fun h => hx h.symm
      rw [List.cons_append]
      cases x with
      | mk a b => simp only [List.lookup] at *; simp [this]; exact ih (fun y hy => hn y (List.mem_cons_of_mem _ hy))
  induction c with
  | nil => rfl
  | cons f t ih =>
    cases t with
    | nil => simp [extG, modifyGlobal, find, hl]
    | cons a b =>
      rw [extG_cons_ne g f (a :: b) (by simp)]
      show (match f.macros.lookup n with | some v => some v | none => find n (extG g (a :: b))) = (match f.macros.lookup n with | some v => some v | none => find n (a :: b))
      rw [ih]

/-! ## global definitions persist through any history -/

theorem findGlobal_modifyTop_macros (n : Nat) (c : Ctx) (h : Frame → Frame)
    (hm : ∀ f, (h f).macros.lookup n = f.macros.lookup n) : findGlobal n (modifyTop h c) = findGlobal n c := by
  cases c with
  | nil => rfl
  | cons f t =>
    cases t with
    | nil => simp [modifyTop, findGlobal, hm]
    | cons a b => simp [modifyTop, findGlobal]

theorem findGlobal_popNone (n : Nat) (c : Ctx) : findGlobal n (popNone c) = findGlobal n c := by
  induction c with
  | nil => rfl
  | cons f t ih =>
    cases t with
    | nil => rfl
    | cons a b =>
      simp only [popNone]
      split
      · simp [findGlobal]
      · rw [ih]; simp [findGlobal]

theorem findGlobal_popObj (n : Nat) (o : ObjRef) (c : Ctx) : findGlobal n (popObj o c) = findGlobal n c := by
  induction c with
  | nil => rfl
  | cons f t ih =>
    cases t with
    | nil => rfl
    | cons a b =>
      simp only [popObj]
      split
      · rw [ih]; simp [findGlobal]
      · split
        · simp [findGlobal]
        · split
          · rfl
          · split
            · simp [findGlobal]
            · split
              · simp [findGlobal]
              · rw [ih]; simp [findGlobal]

theorem findGlobal_globalOnly (n : Nat) (c : Ctx) : findGlobal n (globalOnly c) = findGlobal n c := by
  induction c with
  | nil => rfl
  | cons f t ih =>
    cases t with
    | nil => rfl
    | cons a b => simp only [globalOnly]; rw [ih]; simp [findGlobal]

theorem globalOnly_ne_nil (c : Ctx) (h : c ≠ []) : globalOnly c ≠ [] := by
  induction c with
  | nil => exact absurd rfl h
  | cons f t ih =>
    cases t with
    | nil => simp [globalOnly]
    | cons a b => simp only [globalOnly]; exact ih (by simp)

theorem findGlobal_cons_ne (n : Nat) (f : Frame) (c : Ctx) (h : c ≠ []) : findGlobal n (f :: c) = findGlobal n c := by
  cases c with
  | nil => exact absurd rfl h
  | cons a b => rfl

theorem findGlobal_addGlobal_other (n m : Nat) (v : Val) (c : Ctx) (h : m ≠ n) :
    findGlobal n (addGlobal m v c) = findGlobal n c := by
  induction c with
  | nil => rfl
  | cons f t ih =>
    cases t with
    | nil =>
      have : (n == m) = false := by simp; exact fun e => h e.symm
      simp [addGlobal, modifyGlobal, findGlobal, List.lookup, this]
    | cons a b =>
      simp only [addGlobal] at ih ⊢
      rw [modifyGlobal_cons_ne _ f (a :: b) (by simp), findGlobal_cons_ne n f _ (modifyGlobal_ne_nil _ _ (by simp)), ih]
      rfl



theorem cats_dropLocalsL (ns : List Nat) (c : Ctx) : cats (dropLocalsL ns c) = cats c := by
  cases c with
  | nil => rfl
  | cons f t =>
    cases t with
    | nil => rfl
    | cons a b => rfl

theorem getLet_dropLocalsL (n : Nat) (ns : List Nat) (c : Ctx) : getLet n (dropLocalsL ns c) = getLet n c := by
  induction c with
  | nil => rfl
  | cons f t ih =>
    cases t with
    | nil => rfl
    | cons a b =>
      rw [dropLocalsL_cons_ne ns f (a :: b) (by simp)]
      show (match f.lets.lookup n with | some v => some v | none => getLet n (dropLocalsL ns (a :: b))) = (match f.lets.lookup n with | some v => some v | none => getLet n (a :: b))
      rw [ih]

theorem lookup_cons (n a : Nat) (b : Val) (l : List (Nat × Val)) :
    List.lookup n ((a, b) :: l) = if n == a then some b else List.lookup n l := by
  simp only [List.lookup]
  cases (n == a) <;> rfl

theorem lookup_filter_other (n : Nat) (ns : List Nat) (hn : n ∉ ns) (l : List (Nat × Val)) :
    (l.filter (fun p => !ns.contains p.1)).lookup n = l.lookup n := by
  induction l with
  | nil => rfl
  | cons x l ih =>
    obtain ⟨a, b⟩ := x
    rw [List.filter_cons]
    by_cases hc : (!ns.contains a) = true
    · rw [if_pos hc, lookup_cons, lookup_cons, ih]
    · rw [if_neg hc, lookup_cons, ih]
      have hmem : a ∈ ns := by simpa using hc
      have hne : (n == a) = false := by
        rw [beq_eq_false_iff_ne]
        intro e; subst e; exact hn hmem
      rw [hne]; rfl

theorem lookup_filter_self (n : Nat) (l : List (Nat × Val)) :
    (l.filter (fun p => ![n].contains p.1)).lookup n = none := by
  induction l with
  | nil => rfl
  | cons x l ih =>
    obtain ⟨a, b⟩ := x
    rw [List.filter_cons]
    by_cases ha : a = n
    · have hc : ¬ (![n].contains a) = true := by subst ha; simp
      rw [if_neg hc]; exact ih
    · have hc : (![n].contains a) = true := by simp [ha]
      have hne : (n == a) = false := by
        rw [beq_eq_false_iff_ne]; exact fun e => ha e.symm
      rw [if_pos hc, lookup_cons, hne, ih]; rfl

/-- a name that was not `\gdef`-ed keeps its bindings at every level -/
theorem find_dropLocalsL (n : Nat) (ns : List Nat) (hn : n ∉ ns) (c : Ctx) : find n (dropLocalsL ns c) = find n c := by
  induction c with
  | nil => rfl
  | cons f t ih =>
    cases t with
    | nil => rfl
    | cons a b =>
      rw [dropLocalsL_cons_ne ns f (a :: b) (by simp)]
      show (match (f.macros.filter (fun p => !ns.contains p.1)).lookup n with | some v => some v | none => find n (dropLocalsL ns (a :: b))) = (match f.macros.lookup n with | some v => some v | none => find n (a :: b))
      rw [lookup_filter_other n ns hn, ih]

theorem cats_shape (g : List (Nat × Val)) (ns : List Nat) (c : Ctx) : cats (shape g ns c) = cats c := by
  rw [shape, cats_extG, cats_dropLocalsL]

theorem getLet_shape (n : Nat) (g : List (Nat × Val)) (ns : List Nat) (c : Ctx) : getLet n (shape g ns c) = getLet n c := by
  rw [shape, getLet_extG, getLet_dropLocalsL]

theorem find_shape (n : Nat) (g : List (Nat × Val)) (ns : List Nat) (c : Ctx) (hg : ∀ x ∈ g, x.1 ≠ n) (hn : n ∉ ns) :
    find n (shape g ns c) = find n c := by
  rw [shape, find_extG n g _ hg, find_dropLocalsL n ns hn]

theorem findGlobal_dropLocalsL (n : Nat) (ns : List Nat) (c : Ctx) : findGlobal n (dropLocalsL ns c) = findGlobal n c := by
  induction c with
  | nil => rfl
  | cons f t ih =>
    cases t with
    | nil => rfl
    | cons a b =>
      rw [dropLocalsL_cons_ne ns f (a :: b) (by simp), findGlobal_cons_ne n _ _ (dropLocalsL_ne_nil ns (a :: b) (by simp)), ih]
      rfl

/-- after `\gdef\n` the name means the new definition at every level -/
theorem find_defGlobal (n : Nat) (v : Val) (c : Ctx) (h : c ≠ []) : find n (defGlobal n v c) = some v := by
  unfold defGlobal
  induction c with
  | nil => exact absurd rfl h
  | cons f t ih =>
    cases t with
    | nil => simp [dropLocalsL, addGlobal, modifyGlobal, find, List.lookup]
    | cons a b =>
      rw [dropLocalsL_cons_ne [n] f (a :: b) (by simp), addGlobal,
        modifyGlobal_cons_ne _ _ _ (dropLocalsL_ne_nil [n] (a :: b) (by simp))]
      have hl := lookup_filter_self n f.macros
      show (match (f.macros.filter (fun p => ![n].contains p.1)).lookup n with | some v => some v | none => find n _) = some v
      rw [hl]
      exact ih (by simp)

/-- `op` writes (or may write) a binding for `n` somewhere -/
def touches (n : Nat) : Op → Bool
  | .addGlobal m _ => m == n
  | .addLocal m _ => m == n
  | .lookup m => m == n
  | .letCs d s => d == n || s == n
  | .gdef m _ => m == n
  | _ => false

theorem popNone_ne_nil (c : Ctx) (h : c ≠ []) : popNone c ≠ [] := by
  induction c with
  | nil => exact absurd rfl h
  | cons f t ih =>
    cases t with
    | nil => simp [popNone]
    | cons a b =>
      simp only [popNone]
      split
      · simp
      · exact ih (by simp)

theorem popObj_ne_nil (o : ObjRef) (c : Ctx) (h : c ≠ []) : popObj o c ≠ [] := by
  induction c with
  | nil => exact absurd rfl h
  | cons f t ih =>
    cases t with
    | nil => simp [popObj]
    | cons a b =>
      simp only [popObj]
      split
      · exact ih (by simp)
      · split
        · simp
        · split
          · simp
          · split
            · simp
            · split
              · simp
              · exact ih (by simp)

theorem modifyTop_ne_nil (g : Frame → Frame) (c : Ctx) (h : c ≠ []) : modifyTop g c ≠ [] := by
  cases c with
  | nil => exact absurd rfl h
  | cons f t => simp [modifyTop]

theorem step_ne_nil (c : Ctx) (op : Op) (h : c ≠ []) : step c op ≠ [] := by
  cases op with
  | push o l => simp [step, push]
  | pop o => cases o with
    | none => exact popNone_ne_nil c h
    | some r => exact popObj_ne_nil r c h
  | addGlobal n v => exact modifyGlobal_ne_nil _ c h
  | addLocal n v => exact modifyTop_ne_nil _ c h
  | letCs d s =>
    simp only [step, letCs, lookup]
    split <;> exact modifyTop_ne_nil _ _ (by first | exact h | exact modifyGlobal_ne_nil _ c h)
  | letTok d t => exact modifyTop_ne_nil _ c h
  | setCat ch k => exact modifyTop_ne_nil _ c h
  | setVerbatim => exact modifyTop_ne_nil _ c h
  | lookup n =>
    simp only [step, lookup]
    split
    · exact h
    · exact modifyGlobal_ne_nil _ c h
  | gdef n v => exact modifyGlobal_ne_nil _ _ (dropLocalsL_ne_nil [n] c h)

theorem findGlobal_step (n : Nat) (c : Ctx) (op : Op) (h : c ≠ []) (ht : touches n op = false) :
    findGlobal n (step c op) = findGlobal n c := by
  cases op with
  | push o l =>
    simp only [step, push]
    cases o with
    | none => exact findGlobal_cons_ne n _ c h
    | some r =>
      simp only
      split
      · rw [findGlobal_cons_ne n _ _ (globalOnly_ne_nil c h), findGlobal_globalOnly]
      · exact findGlobal_cons_ne n _ c h
  | pop o => cases o with
    | none => exact findGlobal_popNone n c
    | some r => exact findGlobal_popObj n r c
  | addGlobal m v =>
    simp [touches] at ht
    exact findGlobal_addGlobal_other n m v c ht
  | addLocal m v =>
    simp [touches] at ht
    have : (n == m) = false := by simp; exact fun e => ht e.symm
    exact findGlobal_modifyTop_macros n c _ (fun f => by simp [List.lookup, this])
  | letTok d t => exact findGlobal_modifyTop_macros n c _ (fun f => rfl)
  | setCat ch k => exact findGlobal_modifyTop_macros n c _ (fun f => rfl)
  | setVerbatim => exact findGlobal_modifyTop_macros n c _ (fun f => rfl)
  | lookup m =>
    simp [touches] at ht
    simp only [step, lookup]
    split
    · rfl
    · exact findGlobal_addGlobal_other n m _ c ht
  | letCs d s =>
    simp [touches] at ht
    have hd : (n == d) = false := by simp; exact fun e => ht.1 e.symm
    simp only [step, letCs, lookup]
    split
    · exact findGlobal_modifyTop_macros n c _ (fun f => by simp [List.lookup, hd])
    · simp only [addLocal]
      rw [findGlobal_modifyTop_macros n _ _ (fun f => by simp [List.lookup, hd])]
      exact findGlobal_addGlobal_other n s _ c ht.2
  | gdef m v =>
    simp [touches] at ht
    simp only [step, defGlobal]
    rw [findGlobal_addGlobal_other n m v _ ht, findGlobal_dropLocalsL]

theorem findGlobal_run (n : Nat) (ops : List Op) : ∀ (c : Ctx), c ≠ [] → (∀ op ∈ ops, touches n op = false) →
    findGlobal n (run ops c) = findGlobal n c := by
  induction ops with
  | nil => intro c _ _; rfl
  | cons o ops ih =>
    intro c h ht
    rw [run_cons, ih (step c o) (step_ne_nil c o h) (fun op hop => ht op (List.mem_cons_of_mem _ hop)),
      findGlobal_step n c o h (ht o List.mem_cons_self)]

theorem findGlobal_addGlobal_same (n : Nat) (v : Val) (c : Ctx) (h : c ≠ []) :
    findGlobal n (addGlobal n v c) = some v := by
  induction c with
  | nil => exact absurd rfl h
  | cons f t ih =>
    cases t with
    | nil => simp [addGlobal, modifyGlobal, findGlobal, List.lookup]
    | cons a b =>
      simp only [addGlobal] at ih ⊢
      rw [modifyGlobal_cons_ne _ f (a :: b) (by simp), findGlobal_cons_ne n f _ (modifyGlobal_ne_nil _ _ (by simp))]
      exact ih (by simp)

end PlasVerif.Proofs.Context
