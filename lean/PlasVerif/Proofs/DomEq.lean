import PlasVerif.Proofs.DomTreeBelow
/-! `Node.__eq__` (`eqNode`) of the heap model: two nodes whose unfolded trees have the same shape are equal, and a
deep clone `isEqualNode` its original. -/
namespace PlasVerif.Proofs.DomEq
open PlasVerif.Model.Dom PlasVerif.Proofs.Dom PlasVerif.Proofs.DomViews PlasVerif.Proofs.DomClone
open PlasVerif.Proofs.DomNormalize PlasVerif.Proofs.DomWF
open PlasVerif.Spec PlasVerif.Spec.DomTree

theorem kindOf_inj {a b : Kind} (h : kindOf a = kindOf b) : a = b := by
  cases a <;> cases b <;> simp [kindOf] at h <;> rfl

theorem shapeL_map_nil {F : Nat → Tree} {l : List Nat} (h : shapeL (l.map F) = []) : l = [] := by
  cases l with
  | nil => rfl
  | cons a l => simp [shapeL] at h

/-- pairwise comparison of two child lists from the shapes of their unfolded trees -/
theorem all2_of_shapes {h : Heap} (g F : Nat)
    (ih : ∀ a b : Nat, (abs g (toLL h) a).shape = (abs g (toLL h) b).shape →
      (abs (g + 1) (toLL h) a).shape = (abs (g + 1) (toLL h) b).shape → abs g (toLL h) b = abs (g + 1) (toLL h) b →
      eqNode F h a b = true ∧ eqNode F h b a = true) :
    ∀ (ka kb : List Nat), shapeL (ka.map (abs g (toLL h))) = shapeL (kb.map (abs g (toLL h))) →
      shapeL (ka.map (abs (g + 1) (toLL h))) = shapeL (kb.map (abs (g + 1) (toLL h))) →
      (∀ c ∈ kb, abs g (toLL h) c = abs (g + 1) (toLL h) c) →
      all2 (fun x y => x == y || eqNode F h x y) ka kb = true ∧ all2 (fun x y => x == y || eqNode F h x y) kb ka = true := by
  intro ka
  induction ka with
  | nil =>
    intro kb h0 _ _
    have : kb = [] := shapeL_map_nil h0.symm
    subst this; simp [all2]
  | cons x xs ihx =>
    intro kb h0 h1 hc
    cases kb with
    | nil => simp [shapeL] at h0
    | cons y ys =>
      simp only [List.map_cons, shapeL, List.cons.injEq] at h0 h1
      have e := ih x y h0.1 h1.1 (hc y (by simp))
      have t := ihx ys h0.2 h1.2 (fun c hm => hc c (by simp [hm]))
      simp [all2, e.1, e.2, t.1, t.2]

/-- **equal shapes (at two consecutive depths, the second tree complete) ⇒ `__eq__` both ways**, for any fuel above the depth -/
theorem eq_of_shapes {h : Heap} (ha : NoAlias h) (hb : NoAttr2 h) : ∀ (g : Nat) (a b : Nat) (F : Nat), g + 1 ≤ F →
    (abs g (toLL h) a).shape = (abs g (toLL h) b).shape →
    (abs (g + 1) (toLL h) a).shape = (abs (g + 1) (toLL h) b).shape →
    abs g (toLL h) b = abs (g + 1) (toLL h) b →
    eqNode F h a b = true ∧ eqNode F h b a = true := by
  intro g
  induction g with
  | zero =>
    intro a b F hF h0 h1 hcb
    obtain ⟨F', rfl⟩ : ∃ F', F = F' + 1 := ⟨F - 1, by omega⟩
    by_cases hka : h.kind a = .text
    · have hkta : (toLL h).kind a = .text := by simp [hka, kindOf]
      rw [abs_text hkta] at h0
      by_cases hkb : h.kind b = .text
      · have hktb : (toLL h).kind b = .text := by simp [hkb, kindOf]
        rw [abs_text hktb] at h0
        simp only [Tree.shape, Shape.text.injEq, toLL_text] at h0
        simp [eqNode, hka, hkb, h0]
      · have hktb : (toLL h).kind b ≠ .text := by simp only [toLL_kind]; exact fun e => hkb ((kindOf_text _).mp e)
        rw [abs_zero_node hktb] at h0
        simp [Tree.shape] at h0
    · have hkta : (toLL h).kind a ≠ .text := by simp only [toLL_kind]; exact fun e => hka ((kindOf_text _).mp e)
      by_cases hkb : h.kind b = .text
      · have hktb : (toLL h).kind b = .text := by simp [hkb, kindOf]
        rw [abs_zero_node hkta, abs_text hktb] at h0
        simp [Tree.shape] at h0
      · have hktb : (toLL h).kind b ≠ .text := by simp only [toLL_kind]; exact fun e => hkb ((kindOf_text _).mp e)
        rw [abs_zero_node hkta, abs_zero_node hktb] at h0
        rw [abs_succ_node hkta, abs_succ_node hktb] at h1
        rw [abs_zero_node hktb, abs_succ_node hktb] at hcb
        simp only [Tree.shape, Shape.node.injEq, toLL_kind, toLL_name, toLL_kids, shapeL] at h0 h1
        simp only [Tree.node.injEq, toLL_kids, true_and] at hcb
        have hkbn : h.kids b = [] := List.map_eq_nil_iff.mp hcb.symm
        have hkan : h.kids a = [] := by
          have := h1.2.2; rw [hkbn] at this; exact shapeL_map_nil this
        have hkk : h.kind a = h.kind b := kindOf_inj h0.1
        simp [eqNode, hka, hkb, hkk, h0.2.1, ha a, ha b, hb a, hb b, eqOpt, childList_eq ha, hkan, hkbn, all2]
  | succ g ih =>
    intro a b F hF h0 h1 hcb
    obtain ⟨F', rfl⟩ : ∃ F', F = F' + 1 := ⟨F - 1, by omega⟩
    by_cases hka : h.kind a = .text
    · have hkta : (toLL h).kind a = .text := by simp [hka, kindOf]
      rw [abs_text hkta] at h0
      by_cases hkb : h.kind b = .text
      · have hktb : (toLL h).kind b = .text := by simp [hkb, kindOf]
        rw [abs_text hktb] at h0
        simp only [Tree.shape, Shape.text.injEq, toLL_text] at h0
        simp [eqNode, hka, hkb, h0]
      · have hktb : (toLL h).kind b ≠ .text := by simp only [toLL_kind]; exact fun e => hkb ((kindOf_text _).mp e)
        rw [abs_succ_node hktb] at h0
        simp [Tree.shape] at h0
    · have hkta : (toLL h).kind a ≠ .text := by simp only [toLL_kind]; exact fun e => hka ((kindOf_text _).mp e)
      by_cases hkb : h.kind b = .text
      · have hktb : (toLL h).kind b = .text := by simp [hkb, kindOf]
        rw [abs_succ_node hkta, abs_text hktb] at h0
        simp [Tree.shape] at h0
      · have hktb : (toLL h).kind b ≠ .text := by simp only [toLL_kind]; exact fun e => hkb ((kindOf_text _).mp e)
        rw [abs_succ_node hkta, abs_succ_node hktb] at h0 h1
        rw [abs_succ_node hktb, abs_succ_node hktb] at hcb
        simp only [Tree.shape, Shape.node.injEq, toLL_kind, toLL_name, toLL_kids] at h0 h1
        simp only [Tree.node.injEq, toLL_kids, true_and] at hcb
        have hpt : ∀ c ∈ h.kids b, abs g (toLL h) c = abs (g + 1) (toLL h) c := List.map_inj_left.mp hcb
        have hkk : h.kind a = h.kind b := kindOf_inj h0.1
        have hl := all2_of_shapes g F' (fun x y e0 e1 ec => ih x y F' (by omega) e0 e1 ec) (h.kids a) (h.kids b)
          h0.2.2 h1.2.2 hpt
        simp [eqNode, hka, hkb, hkk, h0.2.1, ha a, ha b, hb a, hb b, eqOpt, childList_eq ha, hl.1, hl.2]

end PlasVerif.Proofs.DomEq
