import PlasVerif.Model.FileLookup
/-! Helper lemmas for the file-lookup part of C17: a memo table is transparent when its key determines the lookup. -/
namespace PlasVerif.Proofs.FileLookup
open PlasVerif.Model.FileLookup

/-- the key determines the result of the lookup -/
def Determines {κ} (key : Req → List Nat → κ) (fs : FS) : Prop :=
  ∀ r r' ti ti', key r ti = key r' ti' → find fs ti r = find fs ti' r'

def Sound {κ} [BEq κ] (key : Req → List Nat → κ) (fs : FS) (cache : List (κ × Res)) : Prop :=
  ∀ r ti res, cache.lookup (key r ti) = some res → res = find fs ti r

theorem memoLookup_sound {κ} [BEq κ] [LawfulBEq κ] (key : Req → List Nat → κ) (fs : FS) (hd : Determines key fs)
    (cache : List (κ × Res)) (ti : List Nat) (r : Req) (h : Sound key fs cache) :
    (memoLookup key fs cache ti r).2 = find fs ti r ∧ Sound key fs (memoLookup key fs cache ti r).1 := by
  unfold memoLookup
  cases hc : cache.lookup (key r ti) with
  | some res => exact ⟨h r ti res hc, h⟩
  | none =>
    simp only
    cases hf : find fs ti r with
    | notFound => exact ⟨rfl, h⟩
    | asis =>
      refine ⟨rfl, fun r' ti' res' h' => ?_⟩
      simp only [List.lookup_cons] at h'
      by_cases e : key r' ti' = key r ti
      · simp [e] at h'; rw [← h', ← hf]; exact hd r r' ti ti' e.symm
      · have : (key r' ti' == key r ti) = false := by simpa using e
        rw [this] at h'; exact h r' ti' res' h'
    | found d =>
      refine ⟨rfl, fun r' ti' res' h' => ?_⟩
      simp only [List.lookup_cons] at h'
      by_cases e : key r' ti' = key r ti
      · simp [e] at h'; rw [← h', ← hf]; exact hd r r' ti ti' e.symm
      · have : (key r' ti' == key r ti) = false := by simpa using e
        rw [this] at h'; exact h r' ti' res' h'

theorem memoRun_eq {κ} [BEq κ] [LawfulBEq κ] (key : Req → List Nat → κ) (fs : FS) (hd : Determines key fs) :
    ∀ (reqs : List (List Nat × Req)) (cache : List (κ × Res)), Sound key fs cache →
      memoRun key fs cache reqs = reqs.map (fun q => find fs q.1 q.2)
  | [], _, _ => rfl
  | (ti, r) :: rest, cache, h => by
    obtain ⟨h1, h2⟩ := memoLookup_sound key fs hd cache ti r h
    simp only [memoRun, List.map_cons]
    rw [h1, memoRun_eq key fs hd rest _ h2]

end PlasVerif.Proofs.FileLookup
