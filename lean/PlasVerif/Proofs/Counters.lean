import PlasVerif.Spec.NumberingRules
/-! Helper lemmas for C08: the counter store, the recursive reset, representations. -/
namespace PlasVerif.Proofs.Counters
open PlasVerif.Model.Counters PlasVerif.Model.Numbering PlasVerif.Spec.NumberingRules PlasVerif.Generated.Counters

/-! ## store -/

theorem val_nil (x : Name) : val [] x = none := rfl

theorem val_cons (c : Ctr) (s : Store) (x : Name) :
    val (c :: s) x = if c.name = x then some c.value else val s x := by
  by_cases h : c.name = x <;> simp [val, h]

theorem setVal_cons (c : Ctr) (s : Store) (n : Name) (v : Int) :
    setVal (c :: s) n v = (if c.name = n then { c with value := v } else c) :: setVal s n v := by
  simp [setVal]

theorem val_setVal (s : Store) (n : Name) (v : Int) (x : Name) :
    val (setVal s n v) x = if x = n then (val s x).map (fun _ => v) else val s x := by
  induction s with
  | nil => simp [val_nil, setVal]
  | cons c s ih =>
    rw [setVal_cons, val_cons, val_cons, ih]
    by_cases hx : x = n <;> by_cases hc : c.name = n <;> by_cases hcx : c.name = x <;> simp_all

theorem skel_setVal (s : Store) (n : Name) (v : Int) : skel (setVal s n v) = skel s := by
  simp only [skel, setVal, List.map_map]
  apply List.map_congr_left
  intro c _
  by_cases h : c.name = n <;> simp [h]

theorem mem_skel {s : Store} {c : Ctr} (h : c ∈ s) : (c.name, c.resetby) ∈ skel s := by
  simp only [skel, List.mem_map]
  exact ⟨c, h, rfl⟩

theorem resetTest_iff (r : Option Name) (self : Name) :
    resetTest r self = true ↔ r = some self ∧ self ≠ "" := by
  cases r with
  | none => simp [resetTest]
  | some r =>
    simp only [resetTest, Bool.and_eq_true, bne_iff_ne, beq_iff_eq, Option.some.injEq]
    constructor
    · rintro ⟨⟨_, h2⟩, h3⟩; exact ⟨h3, h2⟩
    · rintro ⟨h1, h2⟩; subst h1; exact ⟨⟨h2, h2⟩, rfl⟩


/-! ## the recursive reset -/

attribute [local instance] Classical.propDecidable

/-- the per-counter action of the `for` loop of `resetcounters` -/
def loopBody (f : Nat) (self : Name) (acc : Store) (c : Ctr) : Except Err Store :=
  if resetTest c.resetby self then resetFrom f c.name (setVal acc c.name 0) else pure acc

theorem resetFrom_succ (f : Nat) (self : Name) (s : Store) :
    resetFrom (f + 1) self s = s.foldlM (loopBody f self) s := rfl

/-- what one run of the loop over the snapshot `es` does, given the effect of the recursive calls -/
theorem loop_effect (F : Forest) (f : Nat) (self : Name)
    (ih : ∀ (n : Name) (s s' : Store), skel s = F → resetFrom f n s = .ok s' →
      skel s' = F ∧ ∀ x, val s' x = if Within F x n then (val s x).map (fun _ => 0) else val s x) :
    ∀ (es : List Ctr) (acc s' : Store), skel acc = F → es.foldlM (loopBody f self) acc = .ok s' →
      skel s' = F ∧ ∀ x, val s' x =
        if (∃ c ∈ es, resetTest c.resetby self = true ∧ (x = c.name ∨ Within F x c.name))
        then (val acc x).map (fun _ => 0) else val acc x := by
  intro es
  induction es with
  | nil =>
    intro acc s' hs h
    simp only [List.foldlM_nil, pure, Except.pure, Except.ok.injEq] at h
    subst h
    simp [hs]
  | cons c es ihes =>
    intro acc s' hs h
    rw [List.foldlM_cons] at h
    by_cases ht : resetTest c.resetby self = true
    · simp only [loopBody, ht, if_true, bind, Except.bind] at h
      cases hr : resetFrom f c.name (setVal acc c.name 0) with
      | error e => rw [hr] at h; cases h
      | ok acc1 =>
        rw [hr] at h
        have h1 := ih c.name (setVal acc c.name 0) acc1 (by rw [skel_setVal, hs]) hr
        have h2 := ihes acc1 s' h1.1 h
        refine ⟨h2.1, fun x => ?_⟩
        rw [h2.2 x, h1.2 x, val_setVal]
        have hiff : (∃ c' ∈ c :: es, resetTest c'.resetby self = true ∧ (x = c'.name ∨ Within F x c'.name)) ↔
            ((x = c.name ∨ Within F x c.name) ∨
              (∃ c' ∈ es, resetTest c'.resetby self = true ∧ (x = c'.name ∨ Within F x c'.name))) := by
          constructor
          · rintro ⟨c', hm, h1, h2⟩
            rcases List.mem_cons.mp hm with rfl | hm
            · exact Or.inl h2
            · exact Or.inr ⟨c', hm, h1, h2⟩
          · rintro (h | ⟨c', hm, h1, h2⟩)
            · exact ⟨c, List.mem_cons_self, ht, h⟩
            · exact ⟨c', List.mem_cons_of_mem _ hm, h1, h2⟩
        simp only [hiff]
        by_cases hP : (∃ c' ∈ es, resetTest c'.resetby self = true ∧ (x = c'.name ∨ Within F x c'.name)) <;>
          by_cases hw : Within F x c.name <;> by_cases hx : x = c.name <;>
          simp [hP, hw, hx, Option.map_map, Function.comp_def]
    · simp only [loopBody, ht, Bool.false_eq_true, if_false, bind, Except.bind, pure, Except.pure] at h
      have h2 := ihes acc s' hs h
      refine ⟨h2.1, fun x => ?_⟩
      rw [h2.2 x]
      have : (∃ c' ∈ c :: es, resetTest c'.resetby self = true ∧ (x = c'.name ∨ Within F x c'.name)) ↔
          (∃ c' ∈ es, resetTest c'.resetby self = true ∧ (x = c'.name ∨ Within F x c'.name)) := by
        constructor
        · rintro ⟨c', hm, h1, h2⟩
          rcases List.mem_cons.mp hm with rfl | hm
          · exact absurd h1 ht
          · exact ⟨c', hm, h1, h2⟩
        · rintro ⟨c', hm, h1, h2⟩
          exact ⟨c', List.mem_cons_of_mem _ hm, h1, h2⟩
      simp only [this]

/-- the counters zeroed by the loop over the whole store are exactly those declared within `self`, transitively -/
theorem children_iff_within (s : Store) (self x : Name) :
    (∃ c ∈ s, resetTest c.resetby self = true ∧ (x = c.name ∨ Within (skel s) x c.name)) ↔ Within (skel s) x self := by
  constructor
  · rintro ⟨c, hm, ht, hx⟩
    have ht' := (resetTest_iff _ _).mp ht
    have hd : Within (skel s) c.name self := by
      have := mem_skel hm
      rw [ht'.1] at this
      exact Within.direct this ht'.2
    rcases hx with rfl | hx
    · exact hd
    · exact Within.trans hx hd
  · intro h
    induction h with
    | @direct x c hm hne =>
      simp only [skel, List.mem_map] at hm
      obtain ⟨e, he, heq⟩ := hm
      simp only [Prod.mk.injEq] at heq
      refine ⟨e, he, (resetTest_iff _ _).mpr ⟨heq.2, hne⟩, Or.inl heq.1.symm⟩
    | @trans x y c _ _ _ ih2 =>
      obtain ⟨e, he, ht, hy⟩ := ih2
      refine ⟨e, he, ht, Or.inr ?_⟩
      rcases hy with rfl | hy
      · assumption
      · exact Within.trans (by assumption) hy

/-- `resetcounters`, whenever it returns: the reset relation is unchanged and exactly the counters declared
    within `self` (transitively) are zero, all others keep their value -/
theorem resetFrom_exact : ∀ (f : Nat) (n : Name) (s s' : Store), resetFrom f n s = .ok s' →
    skel s' = skel s ∧ ∀ x, val s' x = if Within (skel s) x n then (val s x).map (fun _ => 0) else val s x := by
  intro f
  induction f with
  | zero => intro n s s' h; cases h
  | succ f ih =>
    intro n s s' h
    rw [resetFrom_succ] at h
    have key := loop_effect (skel s) f n
      (fun n s1 s1' hs1 h1 => by
        have := ih n s1 s1' h1
        rw [hs1] at this
        exact this) s s s' rfl h
    refine ⟨key.1, fun x => ?_⟩
    rw [key.2 x]
    simp only [children_iff_within]


/-- a height function on counter names: every counter is strictly lower than the counter it is reset by -/
def Ranked (F : Forest) (h : Name → Nat) : Prop := ∀ x p, (x, some p) ∈ F → p ≠ "" → h x < h p

theorem loop_ok (F : Forest) (h : Name → Nat) (hr : Ranked F h) (f : Nat) (self : Name) (hself : h self < f + 1)
    (ih : ∀ (n : Name) (s : Store), skel s = F → h n < f → ∃ s', resetFrom f n s = .ok s') :
    ∀ (es : List Ctr) (acc : Store), (∀ c ∈ es, (c.name, c.resetby) ∈ F) → skel acc = F →
      ∃ s', es.foldlM (loopBody f self) acc = .ok s' := by
  intro es
  induction es with
  | nil => intro acc _ _; exact ⟨acc, rfl⟩
  | cons c es ihes =>
    intro acc hm hs
    rw [List.foldlM_cons]
    by_cases ht : resetTest c.resetby self = true
    · have ht' := (resetTest_iff _ _).mp ht
      have hc : (c.name, some self) ∈ F := by
        have := hm c List.mem_cons_self
        rwa [ht'.1] at this
      have hlt : h c.name < f := by have := hr _ _ hc ht'.2; omega
      obtain ⟨acc1, h1⟩ := ih c.name (setVal acc c.name 0) (by rw [skel_setVal, hs]) hlt
      have hs1 := (resetFrom_exact f c.name _ acc1 h1).1
      rw [skel_setVal, hs] at hs1
      obtain ⟨s', h2⟩ := ihes acc1 (fun c' hc' => hm c' (List.mem_cons_of_mem _ hc')) hs1
      exact ⟨s', by simp only [loopBody, ht, if_true, bind, Except.bind, h1, h2]⟩
    · obtain ⟨s', h2⟩ := ihes acc (fun c' hc' => hm c' (List.mem_cons_of_mem _ hc')) hs
      exact ⟨s', by simp only [loopBody, ht, Bool.false_eq_true, if_false, bind, Except.bind, pure, Except.pure, h2]⟩

/-- on a ranked (acyclic) reset relation the recursion returns as soon as the fuel exceeds the height of the counter -/
theorem resetFrom_ok (F : Forest) (h : Name → Nat) (hr : Ranked F h) :
    ∀ (f : Nat) (n : Name) (s : Store), skel s = F → h n < f → ∃ s', resetFrom f n s = .ok s' := by
  intro f
  induction f with
  | zero => intro n s _ hlt; omega
  | succ f ih =>
    intro n s hs hlt
    rw [resetFrom_succ]
    exact loop_ok F h hr f n hlt ih s s (fun c hc => by rw [← hs]; exact mem_skel hc) hs


/-! ## the life cycle of a numbered object -/

theorem construct_ok (st st' : St) (tag : String) (c : Name) (level : Int) (hc : c ≠ "")
    (h : step st (.construct tag c false level) = .ok st') :
    ∃ s, stepc st.store c = .ok s ∧ capture { st with store := s } tag c level = .ok st' := by
  have hcb : (c == "") = false := by simpa using hc
  simp only [step, numbered, stepOwn, Bool.false_eq_true, if_false, hcb] at h
  cases hs : stepc st.store c with
  | error e => rw [hs] at h; cases h
  | ok s => rw [hs] at h; exact ⟨s, rfl, h⟩

theorem capture_store (st st' : St) (tag : String) (c : Name) (level : Int)
    (h : capture st tag c level = .ok st') : st'.store = st.store := by
  simp only [capture] at h
  split at h
  · split at h
    · simp only [Except.ok.injEq] at h; rw [← h]
    · cases h
  · simp only [Except.ok.injEq] at h; rw [← h]

end PlasVerif.Proofs.Counters
