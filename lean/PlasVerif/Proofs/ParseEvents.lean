import PlasVerif.Model.ParseEvents
/-! Helper lemmas about the event protocol of `Macro.parse` (C09). -/
namespace PlasVerif.Proofs.ParseEvents
open PlasVerif.Model.Labels PlasVerif.Model.ParseEvents

/-- after the first argument nothing but the argument contents happens -/
theorem argLoop_succ (n : NodeId) (as : List Arg) : ∀ (idx : Nat) (c : Ctr),
    argLoop n (idx + 1) c as = (contents as, c) := by
  induction as with
  | nil => intro idx c; rfl
  | cons a as ih =>
    intro idx c
    simp [argLoop, ih, contents, List.flatMap_cons]

/-- `self.counter` when `postParse` runs -/
def finalCtr (m : MacroCall) : Ctr :=
  match m.args with
  | a :: _ => if a.isModifier = true ∧ a.given = true then .empty else m.counter
  | [] => m.counter

theorem refstep_of_ne_none (n : NodeId) {c : Ctr} (h : c ≠ .none) : refstep n c = [.numbered n] := by
  cases c <;> simp_all [refstep]

/-- a macro with a counter: it becomes the current object before any argument content is read
    (a leading `*` is read first, it has no content) -/
theorem parse_countered (m : MacroCall) (hc : m.counter ≠ .none)
    (hmod : ∀ a ∈ m.args, a.isModifier = true → a.content = []) :
    parse m = .numbered m.node :: (contents m.args ++ postParse m.node (finalCtr m) m.num m.numberedLevel) := by
  unfold parse finalCtr
  cases hargs : m.args with
  | nil => simp [refstep_of_ne_none m.node hc, contents]
  | cons a as =>
    simp only [argLoop, argLoop_succ]
    cases hm : a.isModifier with
    | false => simp [refstep_of_ne_none m.node hc, contents, List.flatMap_cons]
    | true =>
      have hcont : a.content = [] := hmod a (by simp [hargs]) hm
      cases hg : a.given with
      | true => simp [hcont, refstep, contents, List.flatMap_cons]
      | false => simp [hcont, refstep_of_ne_none m.node hc, contents, List.flatMap_cons]

/-- the starred form: current object, but no number is written -/
theorem parse_starred (m : MacroCall) (as : List Arg) (hargs : m.args = ⟨true, true, []⟩ :: as) :
    parse m = .numbered m.node :: contents as := by
  unfold parse
  simp [hargs, argLoop, argLoop_succ, refstep, postParse]

/-- a macro without counter (and without a given `*`) is transparent -/
theorem parse_uncountered (m : MacroCall) (hc : m.counter = .none)
    (hstar : ∀ a as, m.args = a :: as → ¬ (a.isModifier = true ∧ a.given = true)) :
    parse m = contents m.args := by
  unfold parse
  cases hargs : m.args with
  | nil => simp [hc, refstep, postParse, contents]
  | cons a as =>
    have := hstar a as hargs
    simp only [argLoop, argLoop_succ]
    cases hm : a.isModifier <;> cases hg : a.given <;>
      simp_all [refstep, postParse, contents, List.flatMap_cons]

end PlasVerif.Proofs.ParseEvents
