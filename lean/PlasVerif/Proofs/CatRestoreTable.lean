import PlasVerif.Generated.CatPaths
import PlasVerif.Proofs.EnableBalance
/-!
# The per-type character categories are restored on every return path

`PlasVerif.Generated.CatPaths.catSkeletons` is regenerated from the current `plasTeX/TeX.py` on every run
(`harness/props/c05_paths.py`, `gen_catpaths`): the skeleton of `readArgumentAndSource` in which the creation of the
dictionary of saved categories opens an obligation (`disable`) and the loop restoring them discharges it (`enable`).
This module **fails to build** exactly when some `return` / fall-off-the-end path leaves the obligation open
(exits by an escaping exception are exempt, as for the enable counter).
-/
namespace PlasVerif.Proofs.CatRestoreTable
open PlasVerif.Model.EnableBalance PlasVerif.Proofs.EnableBalance
open PlasVerif.Generated.CatPaths (catSkeletons)

set_option maxRecDepth 100000 in
theorem all_cat_balanced : ∀ p ∈ catSkeletons, balanced p.2 = true := by decide

theorem all_cat_paths_restored :
    ∀ p ∈ catSkeletons, ∀ n m : Int, Exec p.2 n .returned m ∨ Exec p.2 n .normal m → m = n :=
  fun p hp => balanced_sound (all_cat_balanced p hp)

end PlasVerif.Proofs.CatRestoreTable
