import PlasVerif.Proofs.Filenames
/-!
C15: the string-level machinery of one candidate (`keysre.findall`, format stripping,
`string.Template.substitute`, the `applyKeys` fold, character substitution) computes the
tree denotation `Spec.render` on every well-formed template tree (`expand_eq_render`).
-/
namespace PlasVerif.Proofs.Filenames
open PlasVerif.Model.Filenames PlasVerif.Spec.Filenames PlasVerif.Generated.Filenames

/-! ### characters -/

theorem isWord_ne_dollar (c : Nat) (h : isWord c = true) : c ≠ cDollar := by
  intro hc; subst hc; revert h; decide

theorem isIdStart_isWord (c : Nat) (h : isIdStart c = true) : isWord c = true := by
  simp only [isIdStart, isWord, Bool.or_eq_true] at *
  rcases h with h | h
  · exact Or.inl (Or.inr h)
  · exact Or.inr h

theorem isWord_rbrace : isWord cRBrace = false := by decide
theorem isWord_dot : isWord cDot = false := by decide
theorem isDigit_rbrace : isDigit cRBrace = false := by decide

/-! ### lists -/

theorem takeWhile_pref (p : Nat → Bool) (a : Str) (y : Nat) (b : Str) (ha : ∀ x ∈ a, p x = true) (hy : p y = false) :
    (a ++ y :: b).takeWhile p = a ∧ (a ++ y :: b).dropWhile p = y :: b := by
  induction a with
  | nil => simp [hy]
  | cons x xs ih =>
    have hx := ha x (List.mem_cons_self ..)
    have := ih (fun z hz => ha z (List.mem_cons_of_mem _ hz))
    simp [hx, this]

/-! ### `matchKey` on a variable -/

theorem matchKey_var_none (n rest : Str) (hn : n ≠ []) (hw : ∀ x ∈ n, isWord x = true) :
    matchKey (cDollar :: cLBrace :: (n ++ cRBrace :: rest)) = some (n, [], n.length + 3) := by
  have tw := takeWhile_pref isWord n cRBrace rest hw isWord_rbrace
  simp [matchKey, tw.1, tw.2, hn]

theorem matchKey_var_some (n w rest : Str) (hn : n ≠ []) (hw : ∀ x ∈ n, isWord x = true)
    (hd : w ≠ []) (hdw : ∀ x ∈ w, isDigit x = true) :
    matchKey (cDollar :: cLBrace :: (n ++ cDot :: (w ++ cRBrace :: rest))) = some (n, w, n.length + w.length + 4) := by
  have tw := takeWhile_pref isWord n cDot (w ++ cRBrace :: rest) hw isWord_dot
  have td := takeWhile_pref isDigit w cRBrace rest hdw isDigit_rbrace
  have h1 : cDot ≠ cRBrace := by decide
  simp [matchKey, tw.1, tw.2, td.1, td.2, hn, hd, h1]

/-! ### skipping the rest of a match -/

theorem findKeys_skip (k : Nat) (xs rest : Str) (h : xs.length = k) : findKeys k (xs ++ rest) = findKeys 0 rest := by
  induction xs generalizing k with
  | nil => simp at h; subst h; rfl
  | cons x xs ih =>
    cases k with
    | zero => simp at h
    | succ k => simp only [List.cons_append, findKeys]; exact ih k (by simpa using h)

theorem scan_skip (m : Str → Option (Str × Nat)) (k : Nat) (xs rest : Str) (h : xs.length = k) :
    scan m k (xs ++ rest) = scan m 0 rest := by
  induction xs generalizing k with
  | nil => simp at h; subst h; rfl
  | cons x xs ih =>
    cases k with
    | zero => simp at h
    | succ k => simp only [List.cons_append, scan]; exact ih k (by simpa using h)

theorem substitute_skip (ns : Env) (k : Nat) (xs rest : Str) (h : xs.length = k) :
    substitute ns k (xs ++ rest) = substitute ns 0 rest := by
  induction xs generalizing k with
  | nil => simp at h; subst h; rfl
  | cons x xs ih =>
    cases k with
    | zero => simp at h
    | succ k => simp only [List.cons_append, substitute]; exact ih k (by simpa using h)

theorem scan_none (m : Str → Option (Str × Nat)) (c : Nat) (cs : Str) (h : m (c :: cs) = none) :
    scan m 0 (c :: cs) = c :: scan m 0 cs := by
  simp [scan, h]

/-! ### literal prefixes -/

theorem findKeys_lit_pref (s rest : Str) (h : ∀ c ∈ s, c ≠ cDollar) : findKeys 0 (s ++ rest) = findKeys 0 rest := by
  induction s with
  | nil => rfl
  | cons c cs ih =>
    simp only [List.cons_append, findKeys, matchKey_no_dollar c (cs ++ rest) (h c (List.mem_cons_self ..))]
    exact ih (fun x hx => h x (List.mem_cons_of_mem _ hx))

theorem scan_strip_lit_pref (s rest : Str) (h : ∀ c ∈ s, c ≠ cDollar) :
    scan mStrip 0 (s ++ rest) = s ++ scan mStrip 0 rest := by
  induction s with
  | nil => rfl
  | cons c cs ih =>
    simp only [List.cons_append, scan, mStrip, matchKey_no_dollar c (cs ++ rest) (h c (List.mem_cons_self ..))]
    rw [ih (fun x hx => h x (List.mem_cons_of_mem _ hx))]

theorem substitute_lit_pref (ns : Env) (s rest : Str) (h : ∀ c ∈ s, c ≠ cDollar) :
    substitute ns 0 (s ++ rest) = (substitute ns 0 rest).map (s ++ ·) := by
  induction s with
  | nil =>
    simp only [List.nil_append]
    generalize substitute ns 0 rest = r
    cases r <;> simp [Except.map]
  | cons c cs ih =>
    simp only [List.cons_append, substitute, h c (List.mem_cons_self ..), if_false]
    rw [ih (fun x hx => h x (List.mem_cons_of_mem _ hx))]
    generalize substitute ns 0 rest = r
    cases r <;> simp [Except.map]


end PlasVerif.Proofs.Filenames
namespace PlasVerif.Spec.Filenames
open PlasVerif.Model.Filenames
/-- what `keysre.findall` reports for a piece -/
def Seg.key : Seg → Option (Str × Str)
  | .lit _ => none
  | .var n w => some (n, w.getD [])
def keys (t : Tmpl) : List (Str × Str) := t.filterMap Seg.key
/-- the piece after the formats have been stripped -/
def Seg.strip : Seg → Seg
  | .lit s => .lit s
  | .var n _ => .var n none
/-- substitution of an already prepared namespace into a template -/
def renderNs (ns : Env) : Tmpl → Option Str
  | [] => some []
  | .lit s :: t => (renderNs ns t).map (s ++ ·)
  | .var n _ :: t => match envGet ns n, renderNs ns t with
    | some v, some r => some (v ++ r)
    | _, _ => none
end PlasVerif.Spec.Filenames
namespace PlasVerif.Proofs.Filenames
open PlasVerif.Model.Filenames PlasVerif.Spec.Filenames PlasVerif.Generated.Filenames

/-! ### well-formed pieces -/

theorem wf_lit (s : Str) (h : Seg.wf (.lit s) = true) : ∀ c ∈ s, c ≠ cDollar := by
  simpa [Seg.wf, List.all_eq_true] using h

theorem wf_var (n : Str) (w : Option Str) (h : Seg.wf (.var n w) = true) :
    n ≠ [] ∧ (∀ x ∈ n, isWord x = true) ∧ (∃ c r, n = c :: r ∧ isIdStart c = true) ∧
    (∀ d, w = some d → d ≠ [] ∧ ∀ x ∈ d, isDigit x = true) := by
  cases n with
  | nil => simp [Seg.wf] at h
  | cons c r =>
    simp only [Seg.wf, Bool.and_eq_true, List.all_eq_true] at h
    obtain ⟨⟨h1, h2⟩, h3⟩ := h
    refine ⟨by simp, ?_, ⟨c, r, rfl, h1⟩, ?_⟩
    · intro x hx
      rcases List.mem_cons.mp hx with rfl | hx
      · exact isIdStart_isWord _ h1
      · exact h2 x hx
    · intro d hd
      subst hd
      simp only [Bool.and_eq_true, List.all_eq_true, decide_eq_true_eq] at h3
      exact ⟨h3.1, h3.2⟩

theorem lin_cons (s : Seg) (t : Tmpl) : lin (s :: t) = s.lin ++ lin t := by simp [lin, List.flatMap_cons]

theorem lin_var_none (n rest : Str) : (Seg.var n none).lin ++ rest = cDollar :: cLBrace :: (n ++ cRBrace :: rest) := by
  simp [Seg.lin]

theorem lin_var_some (n w rest : Str) :
    (Seg.var n (some w)).lin ++ rest = cDollar :: cLBrace :: (n ++ cDot :: (w ++ cRBrace :: rest)) := by
  simp [Seg.lin]

/-! ### the three scanners on one piece -/

theorem findKeys_seg (s : Seg) (rest : Str) (h : s.wf = true) :
    findKeys 0 (s.lin ++ rest) = s.key.toList ++ findKeys 0 rest := by
  cases s with
  | lit x => simpa [Seg.lin, Seg.key] using findKeys_lit_pref x rest (wf_lit x h)
  | var n w =>
    obtain ⟨hn, hw, _, hd⟩ := wf_var n w h
    cases w with
    | none =>
      rw [lin_var_none]
      simp only [findKeys, matchKey_var_none n rest hn hw, Seg.key, Option.getD, Option.toList, List.singleton_append]
      have e : cLBrace :: (n ++ cRBrace :: rest) = (cLBrace :: (n ++ [cRBrace])) ++ rest := by simp
      rw [e, findKeys_skip _ _ _ (by simp)]
    | some d =>
      obtain ⟨hd1, hd2⟩ := hd d rfl
      rw [lin_var_some]
      simp only [findKeys, matchKey_var_some n d rest hn hw hd1 hd2, Seg.key, Option.getD, Option.toList, List.singleton_append]
      have e : cLBrace :: (n ++ cDot :: (d ++ cRBrace :: rest)) = (cLBrace :: (n ++ cDot :: (d ++ [cRBrace]))) ++ rest := by simp
      rw [e, findKeys_skip _ _ _ (by simp; omega)]

theorem strip_seg (s : Seg) (rest : Str) (h : s.wf = true) :
    scan mStrip 0 (s.lin ++ rest) = s.strip.lin ++ scan mStrip 0 rest := by
  cases s with
  | lit x => simpa [Seg.lin, Seg.strip] using scan_strip_lit_pref x rest (wf_lit x h)
  | var n w =>
    obtain ⟨hn, hw, _, hd⟩ := wf_var n w h
    cases w with
    | none =>
      rw [lin_var_none]
      have hm : mStrip (cDollar :: cLBrace :: (n ++ cRBrace :: rest)) = none := by
        simp [mStrip, matchKey_var_none n rest hn hw]
      rw [scan_none _ _ _ hm]
      have e : cLBrace :: (n ++ cRBrace :: rest) = (cLBrace :: (n ++ [cRBrace])) ++ rest := by simp
      have hl : ∀ c ∈ cLBrace :: (n ++ [cRBrace]), c ≠ cDollar := by
        intro c hc
        simp only [List.mem_cons, List.mem_append] at hc
        rcases hc with rfl | hc | hc
        · decide
        · exact isWord_ne_dollar c (hw c hc)
        · simp at hc; subst hc; decide
      rw [e, scan_strip_lit_pref _ rest hl]
      simp [Seg.strip, Seg.lin]
    | some d =>
      obtain ⟨hd1, hd2⟩ := hd d rfl
      rw [lin_var_some]
      simp only [scan, mStrip, matchKey_var_some n d rest hn hw hd1 hd2, ne_eq, hd1, not_false_eq_true, if_true]
      have e : cLBrace :: (n ++ cDot :: (d ++ cRBrace :: rest)) = (cLBrace :: (n ++ cDot :: (d ++ [cRBrace]))) ++ rest := by simp
      rw [e, scan_skip _ _ _ _ (by simp; omega)]
      simp [Seg.strip, Seg.lin]

theorem matchPlaceholder_braced (n rest : Str) (hw : ∀ x ∈ n, isWord x = true) (hs : ∃ c r, n = c :: r ∧ isIdStart c = true) :
    matchPlaceholder (cLBrace :: (n ++ cRBrace :: rest)) = some (some n, n.length + 2) := by
  obtain ⟨c, r, rfl, hc⟩ := hs
  have tw := takeWhile_pref isWord r cRBrace rest (fun x hx => hw x (List.mem_cons_of_mem _ hx)) isWord_rbrace
  have h1 : cLBrace ≠ cDollar := by decide
  have h2 : isIdStart cLBrace = false := by decide
  simp [matchPlaceholder, h1, h2, tw.1, tw.2, hc]

theorem substitute_var (ns : Env) (n rest : Str) (w : Option Str) (h : Seg.wf (.var n w) = true) :
    substitute ns 0 ((Seg.var n none).lin ++ rest) =
      match envGet ns n with
      | none => .error .keyError
      | some v => (substitute ns 0 rest).map (v ++ ·) := by
  obtain ⟨_, hw, hs, _⟩ := wf_var n w h
  rw [lin_var_none]
  simp only [substitute, if_true, matchPlaceholder_braced n rest hw hs]
  cases envGet ns n with
  | none => rfl
  | some v =>
    simp only
    have e : n ++ cRBrace :: rest = (n ++ [cRBrace]) ++ rest := by simp
    rw [e, substitute_skip _ _ _ _ (by simp)]

/-! ### the three scanners on a template -/

theorem findKeys_lin (t : Tmpl) (h : ∀ s ∈ t, Seg.wf s = true) : findKeys 0 (lin t) = keys t := by
  induction t with
  | nil => simp [lin, keys, findKeys]
  | cons s t ih =>
    rw [lin_cons, findKeys_seg s _ (h s (List.mem_cons_self ..)), ih (fun x hx => h x (List.mem_cons_of_mem _ hx))]
    cases hk : s.key <;> simp [keys, hk]

theorem strip_lin (t : Tmpl) (h : ∀ s ∈ t, Seg.wf s = true) : stripFormats (lin t) = lin (t.map Seg.strip) := by
  unfold stripFormats
  induction t with
  | nil => simp [lin, scan]
  | cons s t ih =>
    rw [lin_cons, strip_seg s _ (h s (List.mem_cons_self ..)), ih (fun x hx => h x (List.mem_cons_of_mem _ hx))]
    simp [lin_cons]

theorem substitute_lin (ns : Env) (t : Tmpl) (h : ∀ s ∈ t, Seg.wf s = true) :
    substitute ns 0 (lin (t.map Seg.strip)) =
      match renderNs ns t with
      | none => .error .keyError
      | some r => .ok r := by
  induction t with
  | nil => simp [lin, substitute, renderNs]
  | cons s t ih =>
    have ih' := ih (fun x hx => h x (List.mem_cons_of_mem _ hx))
    have hs := h s (List.mem_cons_self ..)
    rw [List.map_cons, lin_cons]
    cases s with
    | lit x =>
      simp only [Seg.strip, Seg.lin, renderNs]
      rw [substitute_lit_pref ns x _ (wf_lit x hs), ih']
      cases renderNs ns t <;> simp [Except.map]
    | var n w =>
      simp only [Seg.strip, renderNs]
      rw [substitute_var ns n _ w hs, ih']
      cases envGet ns n <;> cases renderNs ns t <;> simp [Except.map]


/-! ### the namespace: `applyKeys` fold and character substitution -/

theorem envGet_envSet_same (e : Env) (k v : Str) : envGet (envSet e k v) k = some v := by
  induction e with
  | nil => simp [envSet, envGet]
  | cons kv r ih =>
    obtain ⟨a, w⟩ := kv
    by_cases h : a = k <;> simp [envSet, envGet, h, ih]

theorem envGet_envSet_other (e : Env) (k v k' : Str) (h : k' ≠ k) : envGet (envSet e k v) k' = envGet e k' := by
  induction e with
  | nil => simp [envSet, envGet, Ne.symm h]
  | cons kv r ih =>
    obtain ⟨a, w⟩ := kv
    by_cases h1 : a = k
    · subst h1; simp [envSet, envGet, Ne.symm h]
    · simp only [envSet, h1, if_false, envGet]
      by_cases h2 : a = k'
      · simp [h2]
      · simp [h2, ih]

theorem envGet_cleanEnv (cfg : Config) (e : Env) (k : Str) :
    envGet (cleanEnv cfg e) k = (envGet e k).map (clean cfg.bad cfg.sub) := by
  induction e with
  | nil => simp [cleanEnv, envGet]
  | cons kv r ih =>
    obtain ⟨a, w⟩ := kv
    simp only [cleanEnv, List.map_cons, envGet] at ih ⊢
    by_cases h : a = k <;> simp [h, ih]

/-- value of key `k` after the `findall` loop step for `(k, f)` -/
def keyVal (num : Nat) (e : Env) (k f : Str) : Option Str :=
  if k = numKey then some (pad (digitsVal f) num)
  else match envGet e k with
    | some v => if f ≠ [] then some (limitWords (digitsVal f) v) else some v
    | none => none

theorem applyKeys_other (num : Nat) (ks : List (Str × Str)) (e : Env) (k : Str) (h : k ∉ ks.map (·.1)) :
    envGet (applyKeys num ks e) k = envGet e k := by
  induction ks generalizing e with
  | nil => rfl
  | cons kf r ih =>
    obtain ⟨k0, f0⟩ := kf
    simp only [List.map_cons, List.mem_cons, not_or] at h
    obtain ⟨h0, hr⟩ := h
    simp only [applyKeys]
    by_cases hn : k0 = numKey
    · simp only [hn, if_true]
      rw [ih _ hr, envGet_envSet_other _ _ _ _ (by rw [← hn]; exact h0)]
    · simp only [hn, if_false]
      cases hg : envGet e k0 with
      | none => exact ih _ hr
      | some v =>
        simp only
        by_cases hf : f0 = []
        · simp only [hf, ne_eq, not_true_eq_false, if_false]; exact ih _ hr
        · simp only [ne_eq, hf, not_false_eq_true, if_true]
          rw [ih _ hr, envGet_envSet_other _ _ _ _ h0]

theorem keyVal_congr (num : Nat) (e e' : Env) (k f : Str) (h : envGet e' k = envGet e k) :
    keyVal num e' k f = keyVal num e k f := by
  simp [keyVal, h]

theorem applyKeys_hit (num : Nat) (ks : List (Str × Str)) (hnd : (ks.map (·.1)).Nodup) :
    ∀ (e : Env) (k f : Str), (k, f) ∈ ks → envGet (applyKeys num ks e) k = keyVal num e k f := by
  induction ks with
  | nil => intro e k f h; simp at h
  | cons kf r ih =>
    obtain ⟨k0, f0⟩ := kf
    intro e k f hmem
    rw [List.map_cons] at hnd
    obtain ⟨hk0, hr⟩ := List.nodup_cons.mp hnd
    rcases List.mem_cons.mp hmem with heq | hmem'
    · -- this step sets the key, no later step touches it
      have hk : k = k0 := (Prod.mk.inj heq).1
      have hf0 : f = f0 := (Prod.mk.inj heq).2
      subst hk hf0
      simp only [applyKeys, keyVal]
      by_cases hn : k = numKey
      · simp only [hn, if_true]
        rw [applyKeys_other _ _ _ _ (by rw [← hn]; exact hk0), envGet_envSet_same]
      · simp only [hn, if_false]
        cases hg : envGet e k with
        | none => simp only; rw [applyKeys_other _ _ _ _ hk0, hg]
        | some v =>
          simp only
          by_cases hf : f = []
          · simp only [hf, ne_eq, not_true_eq_false, if_false]; rw [applyKeys_other _ _ _ _ hk0, hg]
          · simp only [ne_eq, hf, not_false_eq_true, if_true]
            rw [applyKeys_other _ _ _ _ hk0, envGet_envSet_same]
    · -- a later step: the first step does not change this key
      have hne : k ≠ k0 := by
        intro hc; subst hc
        exact hk0 (List.mem_map.mpr ⟨(k, f), hmem', rfl⟩)
      simp only [applyKeys]
      by_cases hn : k0 = numKey
      · simp only [hn, if_true]
        rw [ih hr _ k f hmem']
        exact keyVal_congr _ _ _ _ _ (envGet_envSet_other _ _ _ _ (by rw [← hn]; exact hne))
      · simp only [hn, if_false]
        cases hg : envGet e k0 with
        | none => exact ih hr _ k f hmem'
        | some v =>
          simp only
          by_cases hf : f0 = []
          · simp only [hf, ne_eq, not_true_eq_false, if_false]; exact ih hr _ k f hmem'
          · simp only [ne_eq, hf, not_false_eq_true, if_true]
            rw [ih hr _ k f hmem']
            exact keyVal_congr _ _ _ _ _ (envGet_envSet_other _ _ _ _ hne)

theorem keys_fst (t : Tmpl) : (keys t).map (·.1) = names t := by
  induction t with
  | nil => rfl
  | cons s t ih =>
    cases s with
    | lit x => simp only [keys, names, List.filterMap_cons, Seg.key, Seg.name?] at ih ⊢; exact ih
    | var n w => simp only [keys, names, List.filterMap_cons, Seg.key, Seg.name?, List.map_cons] at ih ⊢; rw [ih]

theorem mem_keys (t : Tmpl) (n : Str) (w : Option Str) (h : Seg.var n w ∈ t) : (n, w.getD []) ∈ keys t := by
  simp only [keys, List.mem_filterMap]
  exact ⟨_, h, rfl⟩

theorem digitsVal_nil : digitsVal [] = 0 := rfl

/-- the prepared namespace gives every variable of the template the value the property prescribes -/
theorem ns_value (cfg : Config) (env : Env) (num : Nat) (t : Tmpl) (hwf : ∀ s ∈ t, Seg.wf s = true)
    (hnd : (names t).Nodup) (hsub : ∀ c ∈ cfg.sub, c ∉ cfg.bad) (n : Str) (w : Option Str) (h : Seg.var n w ∈ t) :
    envGet (cleanEnv cfg (applyKeys num (keys t) env)) n = Seg.value cfg env num (.var n w) := by
  rw [envGet_cleanEnv, applyKeys_hit num (keys t) (by rw [keys_fst]; exact hnd) env n _ (mem_keys t n w h)]
  obtain ⟨_, _, _, hd⟩ := wf_var n w (hwf _ h)
  simp only [keyVal, Seg.value]
  by_cases hn : n = numKey
  · simp only [hn, if_true, Option.map_some, clean_eq_cleanSpec _ _ hsub]
    cases w <;> simp [digitsVal_nil]
  · simp only [hn, if_false]
    cases hg : envGet env n with
    | none => cases w <;> simp
    | some v =>
      cases w with
      | none => simp [clean_eq_cleanSpec _ _ hsub]
      | some d =>
        obtain ⟨hd1, _⟩ := hd d rfl
        simp [hd1, clean_eq_cleanSpec _ _ hsub]

theorem render_eq (cfg : Config) (env ns : Env) (num : Nat) (t : Tmpl)
    (h : ∀ n w, Seg.var n w ∈ t → envGet ns n = Seg.value cfg env num (.var n w)) :
    renderNs ns t = render cfg env num t := by
  induction t with
  | nil => rfl
  | cons s t ih =>
    have ih' := ih (fun n w hm => h n w (List.mem_cons_of_mem _ hm))
    cases s with
    | lit x =>
      simp only [renderNs, render, Seg.value, ih']
      cases render cfg env num t <;> rfl
    | var n w =>
      simp only [renderNs, render, ih', h n w (List.mem_cons_self ..)]
      cases Seg.value cfg env num (Seg.var n w) <;> cases render cfg env num t <;> rfl

/-! ### `'num' in currentns` -/

theorem envHas_envSet_same (e : Env) (k v : Str) : envHas (envSet e k v) k = true := by
  simp [envHas, envGet_envSet_same]

theorem envHas_envSet_other (e : Env) (k v k' : Str) (h : k' ≠ k) : envHas (envSet e k v) k' = envHas e k' := by
  simp [envHas, envGet_envSet_other _ _ _ _ h]

theorem envHas_cleanEnv (cfg : Config) (e : Env) (k : Str) : envHas (cleanEnv cfg e) k = envHas e k := by
  simp only [envHas, envGet_cleanEnv]
  cases envGet e k <;> rfl

theorem envHas_applyKeys (num : Nat) (ks : List (Str × Str)) (e : Env) :
    envHas (applyKeys num ks e) numKey = ((ks.map (·.1)).contains numKey || envHas e numKey) := by
  induction ks generalizing e with
  | nil => simp [applyKeys]
  | cons kf r ih =>
    obtain ⟨k0, f0⟩ := kf
    simp only [applyKeys, List.map_cons, List.contains_cons]
    by_cases hn : k0 = numKey
    · simp only [hn, if_true]
      rw [ih, envHas_envSet_same]
      simp
    · have hb : (numKey == k0) = false := by simpa using (fun h : numKey = k0 => hn h.symm)
      simp only [hn, if_false, hb, Bool.false_or]
      cases hg : envGet e k0 with
      | none => exact ih _
      | some v =>
        simp only
        by_cases hf : f0 = []
        · simp only [hf, ne_eq, not_true_eq_false, if_false]; exact ih _
        · simp only [ne_eq, hf, not_false_eq_true, if_true]
          rw [ih, envHas_envSet_other _ _ _ _ (fun h => hn h.symm)]

/-! ### the theorem -/

theorem expand_render (cfg : Config) (env : Env) (num : Nat) (t : Tmpl) (hwf : wf t = true)
    (hsub : ∀ c ∈ cfg.sub, c ∉ cfg.bad) :
    expand cfg env num (lin t) =
      match render cfg env num t with
      | none => .unbound
      | some r => .ok r (numbered t env) := by
  simp only [wf, Bool.and_eq_true, List.all_eq_true, decide_eq_true_eq] at hwf
  obtain ⟨hall, hnd⟩ := hwf
  have hren := render_eq cfg env (cleanEnv cfg (applyKeys num (keys t) env)) num t
    (fun n w hm => ns_value cfg env num t hall hnd hsub n w hm)
  have hnum : envHas (cleanEnv cfg (applyKeys num (keys t) env)) numKey = numbered t env := by
    rw [envHas_cleanEnv, envHas_applyKeys, keys_fst]; rfl
  simp only [expand, findKeys_lin t hall, strip_lin t hall, substitute_lin _ t hall, hren, hnum]
  cases render cfg env num t <;> rfl

end PlasVerif.Proofs.Filenames
