import PlasVerif.Spec.TableTree
/-! Helper lemmas for C10: `compileColspec` on the spelling of a specification tree. -/
namespace PlasVerif.Proofs.Colspec
open PlasVerif.Model.Lists PlasVerif.Model.Arrays PlasVerif.Spec.TableTree

def prep (l : List CTok) : Option (List CTok × List CTok) → Option (List CTok × List CTok)
  | none => none
  | some (a, r) => some (l ++ a, r)

@[simp] theorem prep_nil (x) : prep [] x = x := by
  cases x with
  | none => rfl
  | some p => obtain ⟨a, r⟩ := p; rfl

theorem prep_append (l1 l2 : List CTok) (x) : prep (l1 ++ l2) x = prep l1 (prep l2 x) := by
  cases x with
  | none => rfl
  | some p => obtain ⟨a, r⟩ := p; simp [prep]

theorem readGroup_chs (w : List Nat) (d : Nat) (X : List CTok) :
    readGroup d (chs w ++ X) = prep (chs w) (readGroup d X) := by
  induction w with
  | nil => simp [chs]
  | cons c cs ih =>
    simp only [chs, List.map_cons, List.cons_append] at ih ⊢
    simp only [readGroup, ih]
    cases readGroup d X with
    | none => rfl
    | some p => obtain ⟨a, r⟩ := p; simp [prep]

theorem readGroup_bg (d : Nat) (X : List CTok) : readGroup d (.bg :: X) = prep [.bg] (readGroup (d + 1) X) := by
  simp only [readGroup]
  cases readGroup (d + 1) X with
  | none => rfl
  | some p => obtain ⟨a, r⟩ := p; simp [prep]

theorem readGroup_eg_succ (d : Nat) (X : List CTok) : readGroup (d + 1) (.eg :: X) = prep [.eg] (readGroup d X) := by
  have h : readGroup (d + 1) (.eg :: X) = (readGroup d X).map fun (a, r) => (.eg :: a, r) := by
    simp [readGroup]
  rw [h]
  cases readGroup d X with
  | none => simp [prep]
  | some p => obtain ⟨a, r⟩ := p; simp [prep]

theorem readGroup_ch (c d : Nat) (X : List CTok) : readGroup d (.ch c :: X) = prep [.ch c] (readGroup d X) := by
  simp only [readGroup]
  cases readGroup d X with
  | none => rfl
  | some p => obtain ⟨a, r⟩ := p; simp [prep]

/-- a group `{ body }` whose body is transparent for `readGroup` is read as one unit -/
theorem readGroup_braced (body : List CTok) (hb : ∀ d X, readGroup d (body ++ X) = prep body (readGroup d X))
    (d : Nat) (X : List CTok) :
    readGroup d (.bg :: (body ++ .eg :: X)) = prep (.bg :: (body ++ [.eg])) (readGroup d X) := by
  rw [readGroup_bg, hb, readGroup_eg_succ]
  cases readGroup d X with
  | none => rfl
  | some p => obtain ⟨a, r⟩ := p; simp [prep]

mutual
theorem item_transparent : ∀ (i : CItem) (d : Nat) (X : List CTok), readGroup d (i.render ++ X) = prep i.render (readGroup d X)
  | .col c, d, X => by simpa [CItem.render] using readGroup_ch c d X
  | .bar, d, X => by simpa [CItem.render] using readGroup_ch 124 d X
  | .pcol c w, d, X => by
    have := readGroup_braced (chs w) (fun d X => readGroup_chs w d X) d X
    simp only [CItem.render, List.cons_append, List.append_assoc, List.singleton_append, List.nil_append]
    rw [readGroup_ch, this, ← prep_append]; rfl
  | .at_ w, d, X => by
    have := readGroup_braced (chs w) (fun d X => readGroup_chs w d X) d X
    simp only [CItem.render, List.cons_append, List.append_assoc, List.singleton_append, List.nil_append]
    rw [readGroup_ch, this, ← prep_append]; rfl
  | .gt w, d, X => by
    have := readGroup_braced (chs w) (fun d X => readGroup_chs w d X) d X
    simp only [CItem.render, List.cons_append, List.append_assoc, List.singleton_append, List.nil_append]
    rw [readGroup_ch, this, ← prep_append]; rfl
  | .star ds body, d, X => by
    have h1 := readGroup_braced (chs ds) (fun d X => readGroup_chs ds d X)
    have h2 := readGroup_braced body.render (fun d X => spec_transparent body d X)
    simp only [CItem.render, List.cons_append, List.append_assoc, List.singleton_append, List.nil_append]
    rw [readGroup_ch, h1, h2, ← prep_append, ← prep_append]
    simp
theorem spec_transparent : ∀ (s : CSpec) (d : Nat) (X : List CTok), readGroup d (s.render ++ X) = prep s.render (readGroup d X)
  | .nil, d, X => by simp [CSpec.render]
  | .cons i rest, d, X => by
    simp only [CSpec.render, List.append_assoc]
    rw [item_transparent i, spec_transparent rest, ← prep_append]
end

theorem readArg_braced (body : List CTok) (hb : ∀ d X, readGroup d (body ++ X) = prep body (readGroup d X)) (X : List CTok) :
    readArg (.bg :: (body ++ .eg :: X)) = some (body, X) := by
  rw [readArg, hb]
  simp [readGroup, prep]

theorem numArg_digits (ds : List Nat) (h : ds.all isDigit = true) : numArg (chs ds) = numVal ds := by
  unfold numArg numVal chs
  generalize 0 = acc
  induction ds generalizing acc with
  | nil => rfl
  | cons c cs ih =>
    have hc : (48 ≤ c ∧ c ≤ 57) ∧ cs.all isDigit = true := by simpa [isDigit] using h
    simp only [List.map_cons, List.foldl_cons, hc.1, and_self, if_true]
    exact ih hc.2 _

abbrev St := List ColStyle × Bool

theorem repeat_steps (body : List CTok) (bc : Nat) (den : St → St)
    (hb : ∀ (f : Nat) (tl : List CTok) (st : St), compileLoop true (f + bc) (body ++ tl) st.1 st.2 = compileLoop true f tl (den st).1 (den st).2) :
    ∀ (n f : Nat) (tl : List CTok) (st : St),
      compileLoop true (f + n * bc) (repeatToks n body tl) st.1 st.2 = compileLoop true f tl (iter den n st).1 (iter den n st).2 := by
  intro n
  induction n with
  | zero => intro f tl st; simp [repeatToks, iter]
  | succ n ih =>
    intro f tl st
    have : f + (n + 1) * bc = (f + n * bc) + bc := by rw [Nat.succ_mul]; omega
    rw [this, repeatToks, hb, ih]; rfl

mutual
theorem item_steps : ∀ (i : CItem), i.wf = true → ∀ (f : Nat) (tl : List CTok) (st : St),
    compileLoop true (f + i.cost) (i.render ++ tl) st.1 st.2 = compileLoop true f tl (i.den st).1 (i.den st).2
  | .col c, hwf, f, tl, (out, lb) => by
    have h : (((((c ≠ 124 ∧ c ≠ 62) ∧ c ≠ 60) ∧ c ≠ 64) ∧ c ≠ 42) ∧ takesArg (.ch c) = false) := by
      simpa [CItem.wf, plainLetter] using hwf
    simp [CItem.render, CItem.cost, CItem.den, compileLoop, h, newCol]
  | .pcol c w, hwf, f, tl, (out, lb) => by
    have h : takesArg (.ch c) = true := by simpa [CItem.wf, argLetter] using hwf
    have hc : c = 112 ∨ c = 100 ∨ c = 80 ∨ c = 68 := by simpa [takesArg, or_assoc] using h
    have hr := readArg_braced (chs w) (fun d X => readGroup_chs w d X) tl
    simp only [CItem.render, CItem.cost, CItem.den, List.cons_append, List.append_assoc, List.singleton_append]
    rw [compileLoop]
    rcases hc with rfl | rfl | rfl | rfl <;> simp [hr, newCol, takesArg]
  | .bar, _, f, tl, (out, lb) => by
    cases out with
    | nil => simp [CItem.render, CItem.cost, CItem.den, compileLoop, barOn]
    | cons o os => simp [CItem.render, CItem.cost, CItem.den, compileLoop, barOn]
  | .at_ w, _, f, tl, (out, lb) => by
    have hr := readArg_braced (chs w) (fun d X => readGroup_chs w d X) tl
    simp only [CItem.render, CItem.cost, CItem.den, List.cons_append, List.append_assoc, List.singleton_append]
    rw [compileLoop]; simp [hr]
  | .gt w, _, f, tl, (out, lb) => by
    have hr := readArg_braced (chs w) (fun d X => readGroup_chs w d X) tl
    simp only [CItem.render, CItem.cost, CItem.den, List.cons_append, List.append_assoc, List.singleton_append]
    rw [compileLoop]; simp [hr]
  | .star ds body, hwf, f, tl, (out, lb) => by
    have hw : ds.all isDigit = true ∧ body.wf = true := by simpa [CItem.wf] using hwf
    have hb := spec_steps body hw.2
    have h1 := readArg_braced (chs ds) (fun d X => readGroup_chs ds d X) (.bg :: (body.render ++ .eg :: tl))
    have h2 := readArg_braced body.render (fun d X => spec_transparent body d X) tl
    have hrep := repeat_steps body.render body.cost (fun s => body.den s) hb (numVal ds) f tl (out, lb)
    simp only [CItem.render, CItem.cost, CItem.den, List.cons_append, List.append_assoc, List.singleton_append]
    have : f + (1 + numVal ds * body.cost) = (f + numVal ds * body.cost) + 1 := by omega
    rw [this, compileLoop]
    simp [h1, h2, numArg_digits ds hw.1, hrep]
theorem spec_steps : ∀ (s : CSpec), s.wf = true → ∀ (f : Nat) (tl : List CTok) (st : St),
    compileLoop true (f + s.cost) (s.render ++ tl) st.1 st.2 = compileLoop true f tl (s.den st).1 (s.den st).2
  | .nil, _, f, tl, st => by simp [CSpec.render, CSpec.cost, CSpec.den]
  | .cons i rest, hwf, f, tl, st => by
    have hw : i.wf = true ∧ rest.wf = true := by simpa [CSpec.wf] using hwf
    have : f + (i.cost + rest.cost) = (f + rest.cost) + i.cost := by omega
    simp only [CSpec.render, CSpec.cost, CSpec.den, List.append_assoc]
    rw [this, item_steps i hw.1, spec_steps rest hw.2]
end

theorem colspec_ok (s : CSpec) (hwf : s.wf = true) (f : Nat) :
    compileColspec (f + s.cost + 1) s.render =
      match s.columns with
      | some cols => .ok cols
      | none => .error .indexError := by
  have h := spec_steps s hwf (f + 1) [] ([], false)
  have e : f + s.cost + 1 = f + 1 + s.cost := by omega
  simp only [List.append_nil] at h
  rw [compileColspec, e, h]
  unfold CSpec.columns
  rcases hd : s.den ([], false) with ⟨out, lb⟩
  cases lb <;> cases out <;> simp [compileLoop]

/-! ### the number of columns -/

theorem setLastBr_length : ∀ out : List ColStyle, (setLastBr out).length = out.length
  | [] => rfl
  | [_] => rfl
  | _ :: b :: cs => by simp [setLastBr, setLastBr_length (b :: cs)]

theorem barOn_length (st : St) : (barOn st).1.length = st.1.length := by
  obtain ⟨out, lb⟩ := st
  cases out with
  | nil => rfl
  | cons o os => simp [barOn, setLastBr_length]

theorem iter_length (den : St → St) (k : Nat) (h : ∀ st, (den st).1.length = st.1.length + k) :
    ∀ (n : Nat) (st : St), (iter den n st).1.length = st.1.length + n * k := by
  intro n
  induction n with
  | zero => intro st; simp [iter]
  | succ n ih => intro st; rw [iter, ih, h, Nat.succ_mul]; omega

mutual
theorem item_length : ∀ (i : CItem) (st : St), (i.den st).1.length = st.1.length + i.count
  | .col c, (out, lb) => by simp [CItem.den, CItem.count]
  | .pcol c w, (out, lb) => by simp [CItem.den, CItem.count]
  | .bar, st => by simp [CItem.den, CItem.count, barOn_length]
  | .at_ _, st => by simp [CItem.den, CItem.count]
  | .gt _, st => by simp [CItem.den, CItem.count]
  | .star ds body, st => by
    simp only [CItem.den, CItem.count]
    exact iter_length (fun s => body.den s) body.count (fun st => spec_length body st) (numVal ds) st
theorem spec_length : ∀ (s : CSpec) (st : St), (s.den st).1.length = st.1.length + s.count
  | .nil, st => by simp [CSpec.den, CSpec.count]
  | .cons i rest, st => by
    simp only [CSpec.den, CSpec.count]
    rw [spec_length rest, item_length i]; omega
end

theorem columns_length (s : CSpec) (_hwf : s.wf = true) (cols : List ColStyle) (h : s.columns = some cols) :
    cols.length = s.count := by
  have hl := spec_length s ([], false)
  unfold CSpec.columns at h
  rcases hd : s.den ([], false) with ⟨out, lb⟩
  rw [hd] at h hl
  cases lb <;> cases out <;> simp at h hl <;> subst h <;> simp_all

end PlasVerif.Proofs.Colspec
