import PlasVerif.Spec.NumberingRules
/-! Helper lemmas for C08: the lexer of `TheCounter.format` (`Model.splitFormat`, the two regex passes) reads back
    every well-formed format exactly as it was spelled. -/
set_option linter.unusedSimpArgs false
set_option linter.unusedVariables false
namespace PlasVerif.Proofs.Lexer
open PlasVerif.Model.Counters PlasVerif.Spec.NumberingRules

/-! ## characters -/

theorem isWord_dollar : isWord '$' = false := by decide
theorem isWord_lbrace : isWord '{' = false := by decide
theorem isWord_rbrace : isWord '}' = false := by decide
theorem isWord_dot : isWord '.' = false := by decide
theorem isSpace_rbrace : isSpaceChar '}' = false := by decide
theorem isName_rbrace : isNameChar '}' = false := by decide
theorem isName_dot : isNameChar '.' = false := by decide

theorem nameB_all (w : List Char) (h : nameB w = true) : w.all isNameChar = true := by
  simp only [nameB, Bool.and_eq_true, List.all_eq_true] at h ⊢
  exact fun c hc => (h.2 c hc).1

theorem nameB_nonempty (w : List Char) (h : nameB w = true) : w.isEmpty = false := by
  simp only [nameB, Bool.and_eq_true, Bool.not_eq_true'] at h; exact h.1

theorem nameB_dollar_free (w : List Char) (h : nameB w = true) : w.all (· != '$') = true := by
  simp only [nameB, Bool.and_eq_true, List.all_eq_true] at h ⊢
  exact fun c hc => (h.2 c hc).2

theorem dropWhile_space_name (w r : List Char) (hw : nameB w = true) :
    (w ++ r).dropWhile isSpaceChar = w ++ r := by
  cases w with
  | nil => simp [nameB] at hw
  | cons a w =>
    have ha := nameB_all _ hw
    simp only [List.all_cons, Bool.and_eq_true] at ha
    have : isSpaceChar a = false := by
      have := ha.1
      simp only [isNameChar, Bool.and_eq_true, Bool.not_eq_true'] at this
      exact this.1.1.1
    simp [List.dropWhile, this]

theorem not_space_of_word (c : Char) (h : isWord c = true) : isSpaceChar c = false := by
  cases hs : isSpaceChar c with
  | false => rfl
  | true =>
    simp only [isSpaceChar, Bool.or_eq_true, beq_iff_eq] at hs
    rcases hs with ((((rfl | rfl) | rfl) | rfl) | rfl) | rfl <;> revert h <;> decide

theorem ne_dollar_of_word (c : Char) (h : isWord c = true) : (c == '$') = false := by
  cases hc : c == '$' with
  | false => rfl
  | true =>
    have : c = '$' := by simpa using hc
    subst this; revert h; decide

/-! ## list helpers -/

theorem takeWhile_append_stop {p : Char → Bool} (w : List Char) (c : Char) (r : List Char)
    (hw : w.all p = true) (hc : p c = false) : (w ++ c :: r).takeWhile p = w := by
  induction w with
  | nil => simp [List.takeWhile, hc]
  | cons a w ih =>
    simp only [List.all_cons, Bool.and_eq_true] at hw
    simp [List.takeWhile, hw.1, ih hw.2]

theorem dropWhile_append_stop {p : Char → Bool} (w : List Char) (c : Char) (r : List Char)
    (hw : w.all p = true) (hc : p c = false) : (w ++ c :: r).dropWhile p = c :: r := by
  induction w with
  | nil => simp [List.dropWhile, hc]
  | cons a w ih =>
    simp only [List.all_cons, Bool.and_eq_true] at hw
    simp [List.dropWhile, hw.1, ih hw.2]

theorem dropWhile_space_word (w r : List Char) (hw : wordB w = true) :
    (w ++ r).dropWhile isSpaceChar = w ++ r := by
  cases w with
  | nil => simp [wordB] at hw
  | cons a w =>
    simp only [wordB, List.isEmpty_cons, Bool.not_false, Bool.true_and, List.all_cons, Bool.and_eq_true] at hw
    simp [List.dropWhile, not_space_of_word a hw.1]

theorem wordB_all (w : List Char) (h : wordB w = true) : w.all isWord = true := by
  simp only [wordB, Bool.and_eq_true] at h; exact h.2

theorem wordB_nonempty (w : List Char) (h : wordB w = true) : w.isEmpty = false := by
  simp only [wordB, Bool.and_eq_true, Bool.not_eq_true'] at h; exact h.1

/-! ## `matchRef` on a spelled reference -/

theorem matchRef_plain (n rest : List Char) (hn : nameB n = true) :
    matchRef (n ++ '}' :: rest) = some (String.ofList n, none, rest) := by
  have h1 := dropWhile_space_name n ('}' :: rest) hn
  have h2 := takeWhile_append_stop n '}' rest (nameB_all n hn) isName_rbrace
  have h3 := dropWhile_append_stop n '}' rest (nameB_all n hn) isName_rbrace
  simp only [matchRef, h1, h2, h3, nameB_nonempty n hn, Bool.false_eq_true, if_false, List.dropWhile, isSpace_rbrace]
  rfl

theorem matchRef_fmt (n f rest : List Char) (hn : nameB n = true) (hf : wordB f = true) :
    matchRef (n ++ '.' :: (f ++ '}' :: rest)) = some (String.ofList n, some (String.ofList f), rest) := by
  have h1 := dropWhile_space_name n ('.' :: (f ++ '}' :: rest)) hn
  have h2 := takeWhile_append_stop n '.' (f ++ '}' :: rest) (nameB_all n hn) isName_dot
  have h3 := dropWhile_append_stop n '.' (f ++ '}' :: rest) (nameB_all n hn) isName_dot
  have h4 := takeWhile_append_stop f '}' rest (wordB_all f hf) isWord_rbrace
  have h5 := dropWhile_append_stop f '}' rest (wordB_all f hf) isWord_rbrace
  simp only [matchRef, h1, h2, h3, h4, h5, nameB_nonempty n hn, wordB_nonempty f hf, Bool.false_eq_true, if_false,
    List.dropWhile, isSpace_rbrace]

/-! ## first pass: nothing to do when no `$` is followed by a word character -/

/-- no `$` is directly followed by a word character -/
def ndw : List Char → Bool
  | [] => true
  | c :: r => !(c == '$' && (match r with | d :: _ => isWord d | [] => false)) && ndw r

theorem pass1_step (c : Char) (r : List Char)
    (h : (c == '$' && (match r with | d :: _ => isWord d | [] => false)) = false) :
    pass1 false (c :: r) = c :: pass1 false r := by
  cases r with
  | nil =>
    conv => lhs; rw [pass1.eq_def]
    simp
  | cons d r' =>
    have h' : (c == '$' && isWord d) = false := h
    conv => lhs; rw [pass1.eq_def]
    simp only [Bool.false_and, Bool.false_eq_true, if_false, List.nil_append, h']

theorem pass1_id : ∀ (t : List Char), ndw t = true → pass1 false t = t := by
  intro t
  induction t with
  | nil => intro _; rfl
  | cons c r ih =>
    intro h
    simp only [ndw, Bool.and_eq_true, Bool.not_eq_true'] at h
    rw [pass1_step c r h.1, ih h.2]

theorem ndw_append_free (s t : List Char) (hs : s.all (· != '$') = true) : ndw (s ++ t) = ndw t := by
  induction s with
  | nil => rfl
  | cons c s ih =>
    simp only [List.all_cons, Bool.and_eq_true, bne_iff_ne, ne_eq] at hs
    have hc : (c == '$') = false := by simpa using hs.1
    simp only [List.cons_append, ndw, hc, Bool.false_and, Bool.not_false, Bool.true_and]
    exact ih (by simpa using hs.2)

theorem word_dollar_free (w : List Char) (h : w.all isWord = true) : w.all (· != '$') = true := by
  simp only [List.all_eq_true] at h ⊢
  intro c hc
  have := ne_dollar_of_word c (h c hc)
  simp [bne, this]

theorem ndw_ref (body t : List Char) (hb : body.all (· != '$') = true) :
    ndw ('$' :: '{' :: (body ++ t)) = ndw t := by
  have : ndw ('$' :: '{' :: (body ++ t)) = ndw ('{' :: (body ++ t)) := by
    simp [ndw, isWord_lbrace]
  rw [this, show '{' :: (body ++ t) = ('{' :: body) ++ t from rfl, ndw_append_free]
  simp only [List.all_cons, Bool.and_eq_true]
  exact ⟨by decide, hb⟩

theorem renderFormat_cons (i : FItem) (rest : List FItem) :
    renderFormat (i :: rest) = renderItem i ++ renderFormat rest := by
  simp [renderFormat]

theorem render_ref_none (n : List Char) (rest : List FItem) :
    renderFormat (.ref n none :: rest) = '$' :: '{' :: (n ++ '}' :: renderFormat rest) := by
  simp [renderFormat_cons, renderItem]

theorem render_ref_some (n f : List Char) (rest : List FItem) :
    renderFormat (.ref n (some f) :: rest) = '$' :: '{' :: (n ++ '.' :: (f ++ '}' :: renderFormat rest)) := by
  simp [renderFormat_cons, renderItem]

theorem render_text (s : List Char) (rest : List FItem) :
    renderFormat (.text s :: rest) = s ++ renderFormat rest := by
  simp [renderFormat_cons, renderItem]

theorem ndw_render : ∀ (items : List FItem), wfItems items = true → ndw (renderFormat items) = true := by
  intro items
  induction items with
  | nil => intro _; rfl
  | cons i rest ih =>
    intro h
    cases i with
    | text s =>
      simp only [wfItems, Bool.and_eq_true] at h
      rw [render_text, ndw_append_free s _ h.1.1.2]
      exact ih h.2
    | ref n fm =>
      simp only [wfItems, Bool.and_eq_true] at h
      have hn := nameB_dollar_free n h.1.1
      cases fm with
      | none =>
        rw [render_ref_none, show n ++ '}' :: renderFormat rest = (n ++ ['}']) ++ renderFormat rest by simp, ndw_ref]
        · exact ih h.2
        · simp [List.all_append, hn]
      | some f =>
        have hf := word_dollar_free f (wordB_all f h.1.2)
        rw [render_ref_some, show n ++ '.' :: (f ++ '}' :: renderFormat rest) =
              (n ++ '.' :: (f ++ ['}'])) ++ renderFormat rest by simp, ndw_ref]
        · exact ih h.2
        · simp [List.all_append, hn, hf]

/-! ## second pass -/

/-- what the second pass must produce, with the literal text accumulated so far (reversed) -/
def expect : List Char → List FItem → List Piece
  | acc, [] => flushLit acc
  | acc, .text s :: rest => expect (s.reverse ++ acc) rest
  | acc, .ref n fm :: rest => flushLit acc ++ .ref (String.ofList n) (fm.map String.ofList) :: expect [] rest

theorem pass2_other (f : Nat) (c : Char) (r acc : List Char) (hc : (c == '$') = false) :
    pass2 (f + 1) (c :: r) acc = pass2 f r (c :: acc) := by
  simp [pass2, hc]

theorem pass2_ref (f : Nat) (r' acc : List Char) (n : String) (fm : Option String) (rest : List Char)
    (hm : matchRef r' = some (n, fm, rest)) :
    pass2 (f + 1) ('$' :: '{' :: r') acc = flushLit acc ++ .ref n fm :: pass2 f rest [] := by
  simp [pass2, hm]

theorem pass2_text : ∀ (s : List Char), s.all (· != '$') = true → ∀ (f : Nat) (t acc : List Char),
    pass2 (f + s.length) (s ++ t) acc = pass2 f t (s.reverse ++ acc) := by
  intro s
  induction s with
  | nil => intro _ f t acc; rfl
  | cons c s ih =>
    intro hs f t acc
    simp only [List.all_cons, Bool.and_eq_true] at hs
    have hc : (c == '$') = false := by simpa using hs.1
    have : f + (c :: s).length = (f + s.length) + 1 := by simp; omega
    rw [this, List.cons_append, pass2_other _ _ _ _ hc, ih hs.2]
    simp

/-- the second pass on a spelled format, with enough fuel -/
theorem pass2_render : ∀ (items : List FItem), wfItems items = true → ∀ (f : Nat) (acc : List Char),
    (renderFormat items).length < f → pass2 f (renderFormat items) acc = expect acc items := by
  intro items
  induction items with
  | nil =>
    intro _ f acc hf
    cases f with
    | zero => rfl
    | succ f => rfl
  | cons i rest ih =>
    intro h f acc hf
    cases i with
    | text s =>
      simp only [wfItems, Bool.and_eq_true] at h
      rw [render_text] at hf ⊢
      simp only [List.length_append] at hf
      obtain ⟨g, rfl⟩ : ∃ g, f = g + s.length := ⟨f - s.length, by omega⟩
      rw [pass2_text s h.1.1.2, expect]
      exact ih h.2 g _ (by omega)
    | ref n fm =>
      simp only [wfItems, Bool.and_eq_true] at h
      cases fm with
      | none =>
        rw [render_ref_none] at hf ⊢
        simp only [List.length_cons, List.length_append] at hf
        obtain ⟨g, rfl⟩ : ∃ g, f = g + 1 := ⟨f - 1, by omega⟩
        rw [pass2_ref g _ acc _ _ _ (matchRef_plain n _ h.1.1), expect, ih h.2 g [] (by omega)]
        rfl
      | some fm =>
        rw [render_ref_some] at hf ⊢
        simp only [List.length_cons, List.length_append] at hf
        obtain ⟨g, rfl⟩ : ∃ g, f = g + 1 := ⟨f - 1, by omega⟩
        rw [pass2_ref g _ acc _ _ _ (matchRef_fmt n fm _ h.1.1 h.1.2), expect, ih h.2 g [] (by omega)]
        rfl

/-- with literal texts non-empty and never adjacent, the accumulated text is flushed as exactly one piece per text -/
theorem expect_wf : ∀ (items : List FItem), wfItems items = true → expect [] items = items.map FItem.toPiece := by
  intro items
  induction items with
  | nil => intro _; rfl
  | cons i rest ih =>
    intro h
    cases i with
    | ref n fm =>
      simp only [wfItems, Bool.and_eq_true] at h
      simp [expect, flushLit, FItem.toPiece, ih h.2]
    | text s =>
      simp only [wfItems, Bool.and_eq_true, Bool.not_eq_true'] at h
      have hne : s.isEmpty = false := h.1.1.1
      cases rest with
      | nil =>
        simp [expect, flushLit, FItem.toPiece, hne]
      | cons j rest' =>
        cases j with
        | text s' => simp at h
        | ref n fm =>
          have h2 := h.2
          simp only [wfItems, Bool.and_eq_true] at h2
          have := ih h.2
          simp only [expect, flushLit, List.isEmpty_nil, if_true, List.nil_append, List.map_cons, FItem.toPiece] at this
          simp [expect, flushLit, FItem.toPiece, hne, this]

/-- **the lexer reads back what was spelled** -/
theorem split_render (items : List FItem) (h : wfItems items = true) :
    splitFormat (String.ofList (renderFormat items)) = items.map FItem.toPiece := by
  simp only [splitFormat, String.toList_ofList]
  rw [pass1_id _ (ndw_render items h), pass2_render items h _ [] (by omega), expect_wf items h]

end PlasVerif.Proofs.Lexer
