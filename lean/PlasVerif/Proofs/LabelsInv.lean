import PlasVerif.Proofs.Labels
/-! The pending-queue invariant of `Context.label` / `Context.ref` (helper for C09). -/
namespace PlasVerif.Proofs.Labels
open PlasVerif.Model.Labels PlasVerif.Spec.Crossref

/-- what a reference to `l` must hold in state `st` -/
def target (st : State) (l : Label) : Target :=
  match st.labels l with
  | some n => .node n
  | none => .placeholder l

variable {R : Label → Prop}

/-- Invariant after the prefix `pre` (`R` = the labels pre-loaded by `Context.restore`, i.e. from other jobs' `.paux` files):
* only labels written so far, or restored ones, are in the table;
* a node whose `@id` is `l` is the table entry of `l`;
* every reference written so far holds the labelled node if its label is known, and otherwise a
  placeholder **and** its object is queued under that label. -/
structure Inv (R : Label → Prop) (pre : List Op) (st : State) : Prop where
  labelled : ∀ l n, st.labels l = some n → l ∈ labelNames pre ∨ R l
  idsLab : ∀ m l, st.ids m = some l → st.labels l = some m
  refsOk : ∀ r s l, l ≠ 0 → Op.ref r s l ∈ pre →
    st.idref r s = some (target st l) ∧ (st.labels l = none → ∃ objs, st.refs l = some objs ∧ r ∈ objs)

theorem inv_init : Inv R [] init := by
  constructor
  · intro l n h; simp [init] at h
  · intro m l h; simp [init] at h
  · intro r s l _ h; cases h

theorem inv_numbered {pre st} (n : NodeId) (hi : Inv R pre st) :
    Inv R (pre ++ [.numbered n]) (step st (.numbered n)) := by
  constructor
  · intro l m h; rcases hi.labelled l m h with h' | h' <;> simp [labelNames_append, h']
  · exact hi.idsLab
  · intro r s l hl hm
    have hm' : Op.ref r s l ∈ pre := by simpa using hm
    exact hi.refsOk r s l hl hm'

theorem inv_number {pre st} (n : NodeId) (v : Num) (hi : Inv R pre st) :
    Inv R (pre ++ [.number n v]) (step st (.number n v)) := by
  constructor
  · intro l m h; rcases hi.labelled l m h with h' | h' <;> simp [labelNames_append, h']
  · exact hi.idsLab
  · intro r s l hl hm
    have hm' : Op.ref r s l ∈ pre := by simpa using hm
    exact hi.refsOk r s l hl hm'

theorem inv_ref {pre st} (r : RefId) (s : Slot) (l : Label) (hi : Inv R pre st)
    (hfresh : l ≠ 0 → (r, s) ∉ refKeys pre) :
    Inv R (pre ++ [.ref r s l]) (step st (.ref r s l)) := by
  by_cases h0 : l = 0
  · -- blank label: nothing happens
    have hst : step st (.ref r s l) = st := by simp [step, ref, h0]
    rw [hst]
    constructor
    · intro l' m h; rcases hi.labelled l' m h with h' | h' <;> simp [labelNames_append, h']
    · exact hi.idsLab
    · intro r' s' l' hl' hm
      have hm' : Op.ref r' s' l' ∈ pre := by
        rcases List.mem_append.1 hm with h | h
        · exact h
        · have : r' = r ∧ s' = s ∧ l' = l := by simpa using h
          exact absurd (this.2.2.trans h0) hl'
      exact hi.refsOk r' s' l' hl' hm'
  · have hfr := hfresh h0
    cases hlab : st.labels l with
    | some n =>
      have hst : step st (.ref r s l) = { st with idref := upd2 st.idref r s (some (.node n)) } := by
        simp [step, ref, h0, hlab]
      rw [hst]
      constructor
      · intro l' m h; rcases hi.labelled l' m h with h' | h' <;> simp [labelNames_append, h']
      · exact hi.idsLab
      · intro r' s' l' hl' hm
        rcases List.mem_append.1 hm with h | h
        · have hk : ¬ (r' = r ∧ s' = s) := by
            intro hk; apply hfr; rw [← hk.1, ← hk.2]; exact mem_refKeys h hl'
          have := hi.refsOk r' s' l' hl' h
          simpa [upd2, hk, target] using this
        · have : r' = r ∧ s' = s ∧ l' = l := by simpa using h
          obtain ⟨rfl, rfl, rfl⟩ := this
          simp [upd2, target, hlab]
    | none =>
      have hst : step st (.ref r s l) =
          { st with refs := upd st.refs l (some ((st.refs l).getD [] ++ [r])),
                    idref := upd2 st.idref r s (some (.placeholder l)) } := by
        simp [step, ref, h0, hlab]
      rw [hst]
      constructor
      · intro l' m h; rcases hi.labelled l' m h with h' | h' <;> simp [labelNames_append, h']
      · exact hi.idsLab
      · intro r' s' l' hl' hm
        rcases List.mem_append.1 hm with h | h
        · have hk : ¬ (r' = r ∧ s' = s) := by
            intro hk; apply hfr; rw [← hk.1, ← hk.2]; exact mem_refKeys h hl'
          have := hi.refsOk r' s' l' hl' h
          refine ⟨by simpa [upd2, hk, target] using this.1, ?_⟩
          intro hn
          obtain ⟨objs, ho, hmem⟩ := this.2 hn
          by_cases hll : l' = l
          · subst hll
            exact ⟨objs ++ [r], by simp [upd, ho], by simp [hmem]⟩
          · exact ⟨objs, by simp [upd, hll, ho], hmem⟩
        · have : r' = r ∧ s' = s ∧ l' = l := by simpa using h
          obtain ⟨rfl, rfl, rfl⟩ := this
          refine ⟨by simp [upd2, target, hlab], ?_⟩
          intro _
          exact ⟨(st.refs l').getD [] ++ [r'], by simp [upd], by simp⟩

theorem inv_label {pre st} (l : Label) (nd : Option NodeId) (hi : Inv R pre st)
    (hfresh : l ≠ 0 → l ∉ labelNames pre ∧ ¬ R l) :
    Inv R (pre ++ [.label l nd]) (step st (.label l nd)) := by
  have hpre : ∀ r s l', Op.ref r s l' ∈ pre ++ [Op.label l nd] → Op.ref r s l' ∈ pre := by
    intro r s l' hm; simpa using hm
  by_cases h0 : l = 0
  · have hst : step st (.label l nd) = st := by simp [step, label, h0]
    rw [hst]
    constructor
    · intro l' m h; rcases hi.labelled l' m h with h' | h' <;> simp [labelNames_append, h']
    · exact hi.idsLab
    · intro r s l' hl' hm; exact hi.refsOk r s l' hl' (hpre r s l' hm)
  · have hfr := hfresh h0
    have hnone : st.labels l = none := by
      cases h : st.labels l with
      | none => rfl
      | some n => rcases hi.labelled l n h with h' | h'
                  · exact absurd h' hfr.1
                  · exact absurd h' hfr.2
    have hnames : labelNames (pre ++ [Op.label l nd]) = labelNames pre ++ [l] := by
      simp [labelNames_append, labelNames, h0]
    cases hnm : named st.current nd with
    | none =>
      -- no object to attach to: nothing is written, nothing is patched
      have hst : step st (.label l nd) = st := by
        simp only [step, label_eq, h0, if_false]
        have ha : attachSt st l nd = st := by simp [attachSt, hnm]
        rw [ha, hnone]
        split <;> simp_all
      rw [hst]
      constructor
      · intro l' m h; rcases hi.labelled l' m h with h' | h' <;> simp [hnames, h']
      · exact hi.idsLab
      · intro r s l' hl' hm; exact hi.refsOk r s l' hl' (hpre r s l' hm)
    | some n =>
      have ha : attachSt st l nd = { st with labels := upd st.labels l (some n), ids := upd st.ids n (some l) } := by
        simp [attachSt, hnm]
      -- facts shared by both sub-cases
      have hlabelled : ∀ l' m, upd st.labels l (some n) l' = some m → l' ∈ labelNames (pre ++ [Op.label l nd]) ∨ R l' := by
        intro l' m h
        by_cases hll : l' = l
        · simp [hnames, hll]
        · have : st.labels l' = some m := by simpa [upd, hll] using h
          rcases hi.labelled l' m this with h' | h' <;> simp [hnames, h']
      have hids : ∀ m l', upd st.ids n (some l) m = some l' → upd st.labels l (some n) l' = some m := by
        intro m l' h
        by_cases hmn : m = n
        · subst hmn
          have : l = l' := by simpa [upd] using h
          simp [upd, this]
        · have h' : st.ids m = some l' := by simpa [upd, hmn] using h
          have h2 := hi.idsLab m l' h'
          have : l' ≠ l := by intro e; rw [e, hnone] at h2; cases h2
          simpa [upd, this] using h2
      cases hrefs : st.refs l with
      | none =>
        have hst : step st (.label l nd) = { st with labels := upd st.labels l (some n), ids := upd st.ids n (some l) } := by
          simp only [step, label_eq, h0, if_false, ha, hrefs]
        rw [hst]
        constructor
        · exact hlabelled
        · exact hids
        · intro r s l' hl' hm
          have hold := hi.refsOk r s l' hl' (hpre r s l' hm)
          have hll : l' ≠ l := by
            intro e; subst e
            obtain ⟨objs, ho, _⟩ := hold.2 hnone
            rw [hrefs] at ho; cases ho
          simpa [target, upd, hll] using hold
      | some objs =>
        have hst : step st (.label l nd) =
            { st with labels := upd st.labels l (some n), ids := upd st.ids n (some l),
                      idref := objs.foldl (patchObj (upd st.ids n (some l)) l n) st.idref,
                      refs := upd st.refs l none } := by
          simp only [step, label_eq, h0, if_false, ha, hrefs]
          simp [upd]
        rw [hst]
        constructor
        · exact hlabelled
        · exact hids
        · intro r s l' hl' hm
          have hold := hi.refsOk r s l' hl' (hpre r s l' hm)
          simp only [foldl_patch]
          by_cases hll : l' = l
          · subst hll
            obtain ⟨objs', ho, hmem⟩ := hold.2 hnone
            have : objs' = objs := by rw [hrefs] at ho; cases ho; rfl
            subst this
            refine ⟨?_, by simp [upd]⟩
            have hv : st.idref r s = some (.placeholder l') := by simpa [target, hnone] using hold.1
            simp [hmem, hv, patchVal, idOf, target, upd]
          · have htl : target { st with labels := upd st.labels l (some n) } l' = target st l' := by
              simp [target, upd, hll]
            refine ⟨?_, ?_⟩
            · have hv := hold.1
              have hkeep : patchVal (upd st.ids n (some l)) l n (target st l') = target st l' := by
                unfold target
                cases hl'' : st.labels l' with
                | none => simp [patchVal, idOf, hll]
                | some m =>
                  by_cases hmn : m = n
                  · simp [patchVal, hmn]
                  · have : st.ids m ≠ some l := by
                      intro e; have := hi.idsLab m l e; rw [hnone] at this; cases this
                    simp [patchVal, idOf, upd, hmn, this]
              show (if r ∈ objs then Option.map (patchVal (upd st.ids n (some l)) l n) (st.idref r s) else st.idref r s) =
                some (target { st with labels := upd st.labels l (some n) } l')
              rw [htl, hv]
              by_cases hmem : r ∈ objs
              · simp [hmem, hkeep]
              · simp [hmem]
            · intro hn
              have hn' : st.labels l' = none := by simpa [upd, hll] using hn
              obtain ⟨o, ho, hm'⟩ := hold.2 hn'
              exact ⟨o, by simp [upd, hll, ho], hm'⟩

theorem inv_step {pre st} (op : Op) (hi : Inv R pre st)
    (hl : (labelNames (pre ++ [op])).Nodup) (hr : (refKeys (pre ++ [op])).Nodup)
    (hR : ∀ l ∈ labelNames (pre ++ [op]), ¬ R l) :
    Inv R (pre ++ [op]) (step st op) := by
  cases op with
  | numbered n => exact inv_numbered n hi
  | number n v => exact inv_number n v hi
  | label l nd =>
    apply inv_label l nd hi
    intro h0
    have : (labelNames pre ++ [l]).Nodup := by simpa [labelNames_append, labelNames, h0] using hl
    refine ⟨?_, hR l (by simp [labelNames_append, labelNames, h0])⟩
    intro hm
    have := List.nodup_append.1 this
    exact this.2.2 l hm l (by simp) rfl
  | ref r s l =>
    apply inv_ref r s l hi
    intro h0
    have : (refKeys pre ++ [(r, s)]).Nodup := by simpa [refKeys_append, refKeys, h0] using hr
    intro hm
    have := List.nodup_append.1 this
    exact this.2.2 (r, s) hm (r, s) (by simp) rfl

theorem inv_foldl (rest : List Op) : ∀ (pre : List Op) (st : State), Inv R pre st →
    (labelNames (pre ++ rest)).Nodup → (refKeys (pre ++ rest)).Nodup →
    (∀ l ∈ labelNames (pre ++ rest), ¬ R l) →
    Inv R (pre ++ rest) (rest.foldl step st) := by
  induction rest with
  | nil => intro pre st hi _ _ _; simpa using hi
  | cons op rest ih =>
    intro pre st hi hl hr hR
    have e : pre ++ op :: rest = (pre ++ [op]) ++ rest := by simp
    rw [e] at hl hr hR ⊢
    have hR1 : ∀ l ∈ labelNames (pre ++ [op]), ¬ R l := by
      intro l hm; apply hR l; rw [labelNames_append (pre ++ [op]) rest]; exact List.mem_append_left _ hm
    have hl1 : (labelNames (pre ++ [op])).Nodup := by
      rw [labelNames_append (pre ++ [op]) rest] at hl; exact (List.nodup_append.1 hl).1
    have hr1 : (refKeys (pre ++ [op])).Nodup := by
      rw [refKeys_append (pre ++ [op]) rest] at hr; exact (List.nodup_append.1 hr).1
    exact ih (pre ++ [op]) (step st op) (inv_step op hi hl1 hr1 hR1) hl hr hR

/-- the same from any start state that satisfies the invariant for the empty prefix (e.g. after `Context.restore`) -/
theorem inv_runFrom (st0 : State) (h0 : Inv R [] st0) (h : List Op) (hl : LabelsDistinct h) (hr : RefKeysDistinct h)
    (hR : ∀ l ∈ labelNames h, ¬ R l) : Inv R h (runFrom st0 h) := by
  have := inv_foldl h [] st0 h0 (by simpa [LabelsDistinct] using hl) (by simpa [RefKeysDistinct] using hr)
    (by simpa using hR)
  simpa [runFrom] using this

theorem inv_run (h : List Op) (hl : LabelsDistinct h) (hr : RefKeysDistinct h) :
    Inv (fun _ => False) h (run h) :=
  inv_runFrom init inv_init h hl hr (fun _ _ hf => hf)

/-! ### `Context.restore`: the state it leaves satisfies the invariant for the empty prefix -/

/-- table entries are among `L` / `N`, and a node whose id is `l` is the entry of `l` -/
structure Restored (st : State) (L : List Label) (N : List NodeId) : Prop where
  dom : ∀ l n, st.labels l = some n → l ∈ L ∧ n ∈ N
  idsLab : ∀ m l, st.ids m = some l → st.labels l = some m

theorem restored_step {st L N} (e : Entry) (hJ : Restored st L N) (hl : e.lab ∉ L) (_hn : e.node ∉ N) :
    Restored (restore st e) (L ++ [e.lab]) (N ++ [e.node]) := by
  constructor
  · intro l n h
    by_cases hle : l = e.lab
    · have : e.node = n := by simpa [restore, upd, hle] using h
      simp [hle, ← this]
    · have h' : st.labels l = some n := by simpa [restore, upd, hle] using h
      have := hJ.dom l n h'
      simp [this.1, this.2]
  · intro m l h
    by_cases hme : m = e.node
    · have : e.lab = l := by simpa [restore, upd, hme] using h
      simp [restore, upd, hme, ← this]
    · have h' : st.ids m = some l := by simpa [restore, upd, hme] using h
      have h2 := hJ.idsLab m l h'
      have hle : l ≠ e.lab := by
        intro e'; rw [e'] at h2; exact hl (hJ.dom _ _ h2).1
      simpa [restore, upd, hle] using h2

theorem restored_all (es : List Entry) : ∀ (st : State) (L : List Label) (N : List NodeId), Restored st L N →
    (L ++ es.map Entry.lab).Nodup → (N ++ es.map Entry.node).Nodup →
    Restored (restoreAll st es) (L ++ es.map Entry.lab) (N ++ es.map Entry.node) := by
  induction es with
  | nil => intro st L N hJ _ _; simpa [restoreAll] using hJ
  | cons e es ih =>
    intro st L N hJ hl hn
    have hl' : ((L ++ [e.lab]) ++ es.map Entry.lab).Nodup := by simpa using hl
    have hn' : ((N ++ [e.node]) ++ es.map Entry.node).Nodup := by simpa using hn
    have h1 : e.lab ∉ L := by
      intro hm
      have := (List.nodup_append.1 hl).2.2 e.lab hm e.lab (by simp) rfl
      exact this
    have h2 : e.node ∉ N := by
      intro hm
      have := (List.nodup_append.1 hn).2.2 e.node hm e.node (by simp) rfl
      exact this
    have := ih (restore st e) (L ++ [e.lab]) (N ++ [e.node]) (restored_step e hJ h1 h2) hl' hn'
    simpa [restoreAll] using this

/-- after restoring entries with pairwise distinct labels and nodes the invariant holds for the
    empty prefix, with `R` = the restored labels -/
theorem inv_restoreAll (es : List Entry) (hl : (es.map Entry.lab).Nodup) (hn : (es.map Entry.node).Nodup) :
    Inv (fun l => l ∈ es.map Entry.lab) [] (restoreAll init es) := by
  have h0 : Restored init [] [] := ⟨by intro l n h; simp [init] at h, by intro m l h; simp [init] at h⟩
  have := restored_all es init [] [] h0 (by simpa using hl) (by simpa using hn)
  constructor
  · intro l n h; right; simpa using (this.dom l n h).1
  · exact this.idsLab
  · intro r s l _ hm; cases hm

theorem restoreAll_current (es : List Entry) : ∀ st : State, (restoreAll st es).current = st.current := by
  induction es with
  | nil => intro st; rfl
  | cons e es ih => intro st; simpa [restoreAll, restore] using ih (restore st e)

theorem restoreAll_append (a b : List Entry) (st : State) :
    restoreAll st (a ++ b) = restoreAll (restoreAll st a) b := by
  simp [restoreAll, List.foldl_append]

theorem foldl_restoreAll (files : List PauxFile) : ∀ st : State,
    files.foldl (fun st f => restoreAll st f.entries) st = restoreAll st (files.flatMap PauxFile.entries) := by
  induction files with
  | nil => intro st; rfl
  | cons f files ih => intro st; simp [List.flatMap_cons, restoreAll_append, ih]

end PlasVerif.Proofs.Labels
