import PlasVerif.Model.TemplateExpr
import PlasVerif.Proofs.Escape
/-! Helper lemmas for C12: Jinja2's `escape` filter. -/
namespace PlasVerif.Proofs.TemplateExpr
open PlasVerif.Model.Escape PlasVerif.Model.TemplateExpr PlasVerif.Spec.HtmlText PlasVerif.Proofs.Escape

theorem escape5_cons (c : Nat) (t : List Nat) : escape5 (c :: t) = escape5Char c ++ escape5 t := by
  simp [escape5]

theorem matchRef_39 (t : List Nat) : matchRef (35 :: 51 :: 57 :: 59 :: t) = some (39, t) := by
  have := matchRef_numeric [51, 57] (by simp) (by decide) t
  simpa [parseDec] using this

theorem matchRef_34 (t : List Nat) : matchRef (35 :: 51 :: 52 :: 59 :: t) = some (34, t) := by
  have := matchRef_numeric [51, 52] (by simp) (by decide) t
  simpa [parseDec] using this

theorem decode_escape5Char (c : Nat) (t : List Nat) : decode (escape5Char c ++ t) = c :: decode t := by
  unfold escape5Char
  split
  · rename_i h; subst h; exact decode_amp_some (matchRef_amp t)
  · split
    · rename_i h; subst h; exact decode_amp_some (matchRef_lt t)
    · split
      · rename_i h; subst h; exact decode_amp_some (matchRef_gt t)
      · split
        · rename_i h; subst h; exact decode_amp_some (matchRef_39 t)
        · split
          · rename_i h; subst h; exact decode_amp_some (matchRef_34 t)
          · rename_i h _ _ _ _; exact decode_cons_ne h t

theorem decode_escape5_append (s t : List Nat) : decode (escape5 s ++ t) = s ++ decode t := by
  induction s with
  | nil => simp [escape5]
  | cons c cs ih => rw [escape5_cons, List.append_assoc, decode_escape5Char, ih]; rfl

theorem escape5Char_clean (c : Nat) :
    60 ∉ escape5Char c ∧ 62 ∉ escape5Char c ∧ 34 ∉ escape5Char c ∧ 39 ∉ escape5Char c := by
  unfold escape5Char
  split
  · simp
  · split
    · simp
    · split
      · simp
      · split
        · simp
        · split
          · simp
          · rename_i h1 h2 h3 h4 h5
            simp
            omega

theorem escape5_clean (s : List Nat) :
    60 ∉ escape5 s ∧ 62 ∉ escape5 s ∧ 34 ∉ escape5 s ∧ 39 ∉ escape5 s := by
  simp only [escape5, List.mem_flatMap, not_exists, not_and]
  exact ⟨fun c _ => (escape5Char_clean c).1, fun c _ => (escape5Char_clean c).2.1,
         fun c _ => (escape5Char_clean c).2.2.1, fun c _ => (escape5Char_clean c).2.2.2⟩

theorem refsOnly_escape5 (s : List Nat) : refsOnly (escape5 s) = true := by
  induction s with
  | nil => simp [escape5, refsOnly]
  | cons c cs ih =>
    rw [escape5_cons]
    unfold escape5Char
    split
    · simp [refsOnly, matchRef_amp, ih]
    · split
      · simp [refsOnly, matchRef_lt, ih]
      · split
        · simp [refsOnly, matchRef_gt, ih]
        · split
          · simp [refsOnly, matchRef_39, ih]
          · split
            · simp [refsOnly, matchRef_34, ih]
            · rename_i h _ _ _ _
              simp [refsOnly, h, ih]


/-! ### simpleTAL escaping -/

theorem talEscapeText_eq (s : List Nat) : talEscapeText s = textDefault false s := by
  simp only [textDefault, talEscapeText]
  rw [applyChain_flatMap]
  congr 1
  funext c
  rw [escChar_eq]

theorem matchRef_quot (t : List Nat) : matchRef (113 :: 117 :: 111 :: 116 :: 59 :: t) = some (34, t) := by
  simp [matchRef, matchNamed, namedRefs, stripPrefix?]

theorem talEscapeAttr_cons (c : Nat) (t : List Nat) : talEscapeAttr (c :: t) = talEscapeAttrChar c ++ talEscapeAttr t := by
  simp [talEscapeAttr]

theorem decode_talEscapeAttrChar (c : Nat) (hc : c ≠ 39) (t : List Nat) :
    decode (talEscapeAttrChar c ++ t) = c :: decode t := by
  unfold talEscapeAttrChar
  split
  · rename_i h; subst h; exact decode_amp_some (matchRef_amp t)
  · split
    · rename_i h; subst h; exact decode_amp_some (matchRef_lt t)
    · split
      · rename_i h; subst h; exact decode_amp_some (matchRef_gt t)
      · split
        · rename_i h; subst h; exact decode_amp_some (matchRef_quot t)
        · rename_i h _ _ _
          exact decode_cons_ne h t

theorem decode_talEscapeAttr (s : List Nat) (h : 39 ∉ s) : decode (talEscapeAttr s) = s := by
  induction s with
  | nil => simp [talEscapeAttr, decode_nil]
  | cons c cs ih =>
    have hc : c ≠ 39 := by intro e; subst e; simp at h
    rw [talEscapeAttr_cons, decode_talEscapeAttrChar c hc, ih (by intro e; exact h (by simp [e]))]

theorem talEscapeAttrChar_clean (c : Nat) :
    60 ∉ talEscapeAttrChar c ∧ 62 ∉ talEscapeAttrChar c ∧ 34 ∉ talEscapeAttrChar c := by
  unfold talEscapeAttrChar
  split
  · simp
  · split
    · simp
    · split
      · simp
      · split
        · simp
        · split
          · simp
          · rename_i h1 h2 h3 h4 h5
            simp
            omega

theorem talEscapeAttr_clean (s : List Nat) :
    60 ∉ talEscapeAttr s ∧ 62 ∉ talEscapeAttr s ∧ 34 ∉ talEscapeAttr s := by
  simp only [talEscapeAttr, List.mem_flatMap, not_exists, not_and]
  exact ⟨fun c _ => (talEscapeAttrChar_clean c).1, fun c _ => (talEscapeAttrChar_clean c).2.1,
         fun c _ => (talEscapeAttrChar_clean c).2.2⟩

end PlasVerif.Proofs.TemplateExpr
