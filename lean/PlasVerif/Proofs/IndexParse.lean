import PlasVerif.Spec.Index
set_option linter.unusedVariables false
/-! Helper lemmas for C18, part 6: the `! @ | "` parser on rendered entries of the Spec grammar. -/
namespace PlasVerif.Proofs.Index
open PlasVerif.Model.Index PlasVerif.Spec.Index

def appendAll (s : PState) (l : List Tok) : PState := l.foldl PState.append s

theorem parseGo_plain (s : PState) (t : Tok) (rest : List Tok) (h : isSpecial t = false) :
    parseGo s (t :: rest) = parseGo (s.append t) rest := by
  cases t with
  | oth i => exact parseGo.eq_4 _ _ _
  | ch l c =>
    simp [isSpecial] at h
    conv => lhs; unfold parseGo
    simp [h]

theorem parseGo_items : ∀ (items : List Item) (s : PState) (rest : List Tok), itemsWf items = true →
    parseGo s (renderItems items ++ rest) = parseGo (appendAll s (unq items)) rest := by
  intro items; induction items with
  | nil => intro s rest _; simp [renderItems, unq, appendAll]
  | cons it items ih =>
    intro s rest h
    simp only [itemsWf, List.all_cons, Bool.and_eq_true] at h
    have ih' := ih (s := s.append it.tok) rest (by simpa [itemsWf] using h.2)
    cases it with
    | plain t =>
      have ht : isSpecial t = false := by simpa [Item.wf] using h.1
      simp only [renderItems, List.flatMap_cons, Item.render, List.cons_append, List.nil_append, unq, List.map_cons,
        appendAll, List.foldl_cons, Item.tok] at ih' ⊢
      rw [parseGo_plain _ _ _ ht]; exact ih'
    | quoted t =>
      simp only [renderItems, List.flatMap_cons, Item.render, List.cons_append, List.nil_append, unq, List.map_cons,
        appendAll, List.foldl_cons, Item.tok] at ih' ⊢
      simp only [parseGo, cQuote, if_true]
      exact ih'

theorem appendAll_some (s : PState) (c l : List Tok) (h : s.current = some c) :
    appendAll s l = { s with current := some (c ++ l) } := by
  induction l generalizing s c with
  | nil => cases s; simp_all [appendAll]
  | cons t l ih =>
    simp only [appendAll, List.foldl_cons]
    have : (s.append t).current = some (c ++ [t]) := by simp [PState.append, h]
    have := ih (s.append t) (c ++ [t]) this
    simp only [appendAll] at this
    rw [this]
    cases s; simp_all [PState.append]

theorem appendAll_none (s : PState) (l : List Tok) (h : s.current = none) :
    appendAll s l = { s with format := s.format ++ l } := by
  induction l generalizing s with
  | nil => cases s; simp_all [appendAll]
  | cons t l ih =>
    simp only [appendAll, List.foldl_cons]
    have : (s.append t).current = none := by simp [PState.append, h]
    have := ih (s.append t) this
    simp only [appendAll] at this
    rw [this]
    cases s; simp_all [PState.append]

theorem parseGo_at (s : PState) (rest : List Tok) : parseGo s (Tok.ch false 64 :: rest) =
    parseGo { s with sortkey := s.sortkey ++ [s.curRef], current := some [] } rest := by
  conv => lhs; unfold parseGo
  simp [cQuote, cBang, cAt]

theorem parseGo_bang (s : PState) (rest : List Tok) : parseGo s (Tok.ch false 33 :: rest) =
    parseGo { s.pushKey with current := some [] } rest := by
  conv => lhs; unfold parseGo
  simp [cQuote, cBang]

theorem parseGo_bar (s : PState) (rest : List Tok) : parseGo s (Tok.ch false 124 :: rest) =
    parseGo { s.pushKey with current := none } rest := by
  conv => lhs; unfold parseGo
  simp [cQuote, cBang, cAt, cBar]

abbrev skOf (l : SLevel) : List Tok := l.sk

/-- the state at the end of level `l` (before the separator), `K`/`S` the keys and sort keys before it -/
def pre (l : SLevel) (K S : List (List Tok)) : PState :=
  { sortkey := (S ++ (match l.sort with | none => [] | some s => [unq s])).map Ref.own,
    key := K.map Ref.own, current := some (unq l.disp), format := [] }

def st (K S : List (List Tok)) : PState :=
  { sortkey := S.map Ref.own, key := K.map Ref.own, current := some [], format := [] }

theorem parseGo_level (l : SLevel) (K S : List (List Tok)) (rest : List Tok) (h : l.wf = true) :
    parseGo (st K S) (l.render ++ rest) = parseGo (pre l K S) rest := by
  obtain ⟨sort, disp⟩ := l
  simp only [SLevel.wf, Bool.and_eq_true] at h
  cases sort with
  | none =>
    simp only [SLevel.render, List.nil_append]
    rw [parseGo_items _ _ _ h.1, appendAll_some _ [] _ rfl]
    simp [pre, st]
  | some sk =>
    simp only [SLevel.render, List.append_assoc, List.cons_append, List.nil_append, cAt]
    rw [parseGo_items _ _ _ h.2, appendAll_some _ [] _ rfl, parseGo_at]
    rw [parseGo_items _ _ _ h.1, appendAll_some _ [] _ rfl]
    simp [pre, st, PState.curRef]

theorem pushKey_pre (l : SLevel) (K S : List (List Tok)) (h : S.length = K.length) :
    (pre l K S).pushKey = { sortkey := (S ++ [skOf l]).map Ref.own, key := (K ++ [unq l.disp]).map Ref.own,
                            current := some (unq l.disp), format := [] } := by
  obtain ⟨sort, disp⟩ := l
  cases sort with
  | none => simp [pre, PState.pushKey, PState.curRef, SLevel.sk, h]
  | some sk => simp [pre, PState.pushKey, PState.curRef, SLevel.sk, h]

/-- the state at the end of the last level of `l :: more` -/
def finalPre : SLevel → List (List Tok) → List (List Tok) → List SLevel → PState
  | l, K, S, [] => pre l K S
  | l, K, S, m :: ms => finalPre m (K ++ [unq l.disp]) (S ++ [skOf l]) ms

theorem parseGo_more : ∀ (more : List SLevel) (l : SLevel) (K S : List (List Tok)) (rest : List Tok),
    S.length = K.length → more.all SLevel.wf = true →
    parseGo (pre l K S) (renderMore more ++ rest) = parseGo (finalPre l K S more) rest := by
  intro more; induction more with
  | nil => intro l K S rest _ _; simp [renderMore, finalPre]
  | cons m ms ih =>
    intro l K S rest hlen hwf
    simp only [List.all_cons, Bool.and_eq_true] at hwf
    simp only [renderMore, List.cons_append, List.append_assoc, finalPre, cBang]
    rw [parseGo_bang, pushKey_pre l K S hlen]
    have : ({ sortkey := (S ++ [skOf l]).map Ref.own, key := (K ++ [unq l.disp]).map Ref.own,
              current := some [], format := [] } : PState) = st (K ++ [unq l.disp]) (S ++ [skOf l]) := rfl
    rw [this, parseGo_level m _ _ _ hwf.1]
    exact ih m _ _ rest (by simp [hlen]) hwf.2

theorem pushKey_finalPre : ∀ (more : List SLevel) (l : SLevel) (K S : List (List Tok)), S.length = K.length →
    ((finalPre l K S more).pushKey.sortkey = (S ++ (l :: more).map skOf).map Ref.own ∧
     (finalPre l K S more).pushKey.key = (K ++ (l :: more).map fun x => unq x.disp).map Ref.own ∧
     (finalPre l K S more).pushKey.format = [] ∧ (finalPre l K S more).format = []) := by
  intro more; induction more with
  | nil => intro l K S h; rw [finalPre, pushKey_pre l K S h]; simp [pre]
  | cons m ms ih =>
    intro l K S h
    have := ih m (K ++ [unq l.disp]) (S ++ [skOf l]) (by simp [h])
    simpa [finalPre] using this

theorem parseEntry_render (e : SEntry) (h : e.wf = true) : parseEntry e.render = e.denote := by
  obtain ⟨first, more, format⟩ := e
  simp only [SEntry.wf, Bool.and_eq_true] at h
  obtain ⟨⟨h1, h2⟩, h3⟩ := h
  have hst : ({} : PState) = st [] [] := rfl
  have hfin := pushKey_finalPre more first [] [] rfl
  cases format with
  | none =>
    have hp : parseGo {} (SEntry.render ⟨first, more, none⟩) = finalPre first [] [] more := by
      simp only [SEntry.render, List.append_nil]
      rw [hst, parseGo_level first [] [] _ h1]
      have := parseGo_more more first [] [] [] rfl h2
      simpa [parseGo] using this
    simp only [parseEntry, hp, hfin.2.2.2, List.isEmpty_nil, if_true, hfin.1, hfin.2.1, hfin.2.2.1]
    simp [SEntry.denote, SEntry.sortkeys, SEntry.keys, SEntry.levels, Function.comp_def]
  | some f =>
    simp only [Bool.and_eq_true] at h3
    have hf : (unq f).isEmpty = false := by
      cases f with
      | nil => simp at h3
      | cons a f => simp [unq]
    have hp : parseGo {} (SEntry.render ⟨first, more, some f⟩) =
        { (finalPre first [] [] more).pushKey with current := none, format := unq f } := by
      simp only [SEntry.render, cBar]
      rw [hst, List.append_assoc, parseGo_level first [] [] _ h1, parseGo_more more first [] [] _ rfl h2, parseGo_bar]
      have e : renderItems f = renderItems f ++ [] := by simp
      rw [e, parseGo_items _ _ _ h3.1, appendAll_none _ _ rfl]
      simp [parseGo, hfin.2.2.1]
    simp only [parseEntry, hp, hf, Bool.false_eq_true, if_false, hfin.1, hfin.2.1]
    simp [SEntry.denote, SEntry.sortkeys, SEntry.keys, SEntry.levels, fmtOf, Function.comp_def]

end PlasVerif.Proofs.Index
