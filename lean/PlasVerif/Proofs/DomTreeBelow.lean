import PlasVerif.Proofs.DomWF
/-! In a heap that satisfies the invariant, is acyclic and well-formed, the part below a non-fragment node is a
tree: its unfolding (to any depth) repeats no node. -/
namespace PlasVerif.Proofs.DomTreeBelow
open PlasVerif.Model.Dom PlasVerif.Proofs.Dom PlasVerif.Proofs.DomViews PlasVerif.Proofs.DomClone
open PlasVerif.Proofs.DomNormalize PlasVerif.Proofs.DomWF
open PlasVerif.Spec PlasVerif.Spec.DomTree

theorem ids_reaches (h : Heap) : ∀ (f : Nat) (c i : Nat), i ∈ (abs f (toLL h) c).ids → Reaches h c i := by
  intro f
  induction f with
  | zero =>
    intro c i hi
    have : i = c := by
      simp only [abs] at hi
      split at hi <;> simpa [Tree.ids, idsL] using hi
    subst this; exact .refl _
  | succ f ih =>
    intro c i hi
    by_cases hk : (toLL h).kind c = .text
    · rw [abs_text hk] at hi
      simp only [Tree.ids, List.mem_singleton] at hi
      subst hi; exact .refl _
    · rw [abs_succ_node hk] at hi
      simp only [Tree.ids, List.mem_cons, toLL_kids] at hi
      rcases hi with e | hi
      · subst e; exact .refl _
      · obtain ⟨d, hd, hdi⟩ := idsL_map_mem hi
        exact .step c d i hd (ih d i hdi)

theorem reaches_tail_cases {h : Heap} {a c : Nat} (hr : Reaches h a c) :
    a = c ∨ ∃ w, Reaches h a w ∧ c ∈ h.kids w := by
  induction hr with
  | refl a => exact Or.inl rfl
  | step a b c hm _ ih =>
    rcases ih with e | ⟨w, hw, hc⟩
    · subst e; exact Or.inr ⟨a, .refl a, hm⟩
    · exact Or.inr ⟨w, .step a b w hm hw, hc⟩

theorem rank_mono {h : Heap} {r : Nat → Nat} (hr : ∀ n x, x ∈ h.kids n → r x < r n) {a b : Nat}
    (hab : Reaches h a b) : r b ≤ r a ∧ (a ≠ b → r b < r a) := by
  induction hab with
  | refl a => exact ⟨Nat.le_refl _, fun hne => absurd rfl hne⟩
  | step a b c hm _ ih =>
    have := hr a b hm
    exact ⟨by omega, fun _ => by omega⟩

/-- every node that is listed below a non-fragment node `x` is a non-fragment node whose lister is its parent -/
theorem reach_nonfrag {h : Heap} (hw : WF h) {x i : Nat} (hx : h.kind x ≠ .frag) (hxl : x < (h.next : Nat))
    (hr : Reaches h x i) : h.kind i ≠ .frag ∧ i < (h.next : Nat) := by
  induction hr with
  | refl a => exact ⟨hx, hxl⟩
  | step a b c hm _ ih =>
    have := hw.1 a hxl b hm
    exact ih this.2 this.1

/-- two non-fragment nodes that both reach `i` lie on one branch -/
theorem reach_common {h : Heap} (hinv : Inv h) (hw : WF h) {r : Nat → Nat} (hr : ∀ n x, x ∈ h.kids n → r x < r n)
    {x y : Nat} (hx : h.kind x ≠ .frag) (hy : h.kind y ≠ .frag) (hxl : x < (h.next : Nat)) (hyl : y < (h.next : Nat)) :
    ∀ (k : Nat) (i : Nat), r x - r i ≤ k → Reaches h x i → Reaches h y i → Reaches h x y ∨ Reaches h y x := by
  intro k
  induction k with
  | zero =>
    intro i hk hxi hyi
    have := rank_mono hr hxi
    by_cases e : x = i
    · subst e; exact Or.inr hyi
    · have := this.2 e; omega
  | succ k ih =>
    intro i hk hxi hyi
    rcases reaches_tail_cases hxi with e | ⟨w, hxw, hiw⟩
    · subst e; exact Or.inr hyi
    · rcases reaches_tail_cases hyi with e | ⟨w', hyw', hiw'⟩
      · subst e; exact Or.inl hxi
      · have hwk := (reach_nonfrag hw hx hxl hxw).1
        have hwk' := (reach_nonfrag hw hy hyl hyw').1
        have p1 := hinv.1 w i hwk hiw
        have p2 := hinv.1 w' i hwk' hiw'
        rw [p1] at p2
        cases p2
        have h1 := hr w i hiw
        have h2 := (rank_mono hr hxw).1
        exact ih w (by omega) hxw hyw'

theorem idsL_nodup (F : Nat → Tree) : ∀ (l : List Nat), l.Nodup → (∀ c ∈ l, (F c).ids.Nodup) →
    (∀ c ∈ l, ∀ d ∈ l, c ≠ d → ∀ i ∈ (F c).ids, i ∉ (F d).ids) → (idsL (l.map F)).Nodup := by
  intro l
  induction l with
  | nil => intro _ _ _; simp [idsL]
  | cons c l ih =>
    intro hn h1 h2
    rw [idsL_map_cons]
    have hn' := List.nodup_cons.mp hn
    refine List.nodup_append.mpr ⟨h1 c (by simp), ih hn'.2 (fun d hd => h1 d (by simp [hd]))
      (fun d hd e he hne => h2 d (by simp [hd]) e (by simp [he]) hne), ?_⟩
    intro i hi j hj hij
    subst hij
    obtain ⟨d, hd, hdi⟩ := idsL_map_mem hj
    exact h2 c (by simp) d (by simp [hd]) (fun e => hn'.1 (e ▸ hd)) i hi hdi

/-- **the part of a well-formed, acyclic heap with correct parent links below a non-fragment node is a tree** -/
theorem tree_below {h : Heap} (hinv : Inv h) (hac : Acyclic h) (hw : WF h) :
    ∀ (f : Nat) (s : Nat), h.kind s ≠ .frag → s < (h.next : Nat) → (abs f (toLL h) s).ids.Nodup := by
  obtain ⟨r, hr⟩ := hac
  intro f
  induction f with
  | zero =>
    intro s _ _
    simp only [abs]; split <;> simp [Tree.ids, idsL]
  | succ f ih =>
    intro s hk hs
    by_cases hkt : (toLL h).kind s = .text
    · rw [abs_text hkt]; simp [Tree.ids]
    · rw [abs_succ_node hkt]
      simp only [Tree.ids, toLL_kids]
      have hkid : ∀ c ∈ h.kids s, c < (h.next : Nat) ∧ h.kind c ≠ .frag := fun c hc => hw.1 s hs c hc
      refine List.nodup_cons.mpr ⟨?_, ?_⟩
      · intro hm
        obtain ⟨c, hc, hci⟩ := idsL_map_mem hm
        exact acyclic_irrefl ⟨r, hr⟩ s c hc (ids_reaches h f c s hci)
      · apply idsL_nodup _ _ (hinv.2 s hk) (fun c hc => ih c (hkid c hc).2 (hkid c hc).1)
        intro c hc d hd hne i hic hid
        have rc := ids_reaches h f c i hic
        have rd := ids_reaches h f d i hid
        -- c and d would lie on one branch; but both are children of s
        have key : ∀ {u v : Nat}, u ∈ h.kids s → v ∈ h.kids s → u ≠ v → ¬ Reaches h u v := by
          intro u v hu hv huv huv'
          rcases reaches_tail_cases huv' with e | ⟨w, huw, hvw⟩
          · exact huv e
          · have hwk := (reach_nonfrag hw (hkid u hu).2 (hkid u hu).1 huw).1
            have p1 := hinv.1 w v hwk hvw
            have p2 := hinv.1 s v hk hv
            rw [p1] at p2
            have e : w = s := Option.some.inj p2
            rw [e] at huw
            exact acyclic_irrefl ⟨r, hr⟩ s u hu huw
        rcases reach_common hinv hw hr (hkid c hc).2 (hkid d hd).2 (hkid c hc).1 (hkid d hd).1 _ i (Nat.le_refl _) rc rd
          with h1 | h1
        · exact key hc hd hne h1
        · exact key hd hc (Ne.symm hne) h1

/-- pigeonhole: a list of distinct naturals below `N` has at most `N` elements -/
theorem nodup_length_le : ∀ (N : Nat) (l : List Nat), l.Nodup → (∀ x ∈ l, x < N) → l.length ≤ N := by
  intro N
  induction N with
  | zero =>
    intro l _ hb
    cases l with
    | nil => simp
    | cons a l => exact absurd (hb a (by simp)) (Nat.not_lt_zero _)
  | succ N ih =>
    intro l hn hb
    have h1 : (l.erase N).Nodup := hn.sublist (List.erase_sublist)
    have h2 : ∀ x ∈ l.erase N, x < N := by
      intro x hx
      have := (List.Nodup.mem_erase_iff hn).mp hx
      have := hb x this.2
      omega
    have := ih (l.erase N) h1 h2
    have hl : l.length ≤ (l.erase N).length + 1 := by
      by_cases hm : N ∈ l
      · rw [List.length_erase_of_mem hm]; omega
      · rw [List.erase_of_not_mem hm]; omega
    omega

/-- either the unfolding to depth `g` still contains a full-length path (so at least `g + 1` nodes) or it is complete -/
theorem deep_or_complete (m : LL) : ∀ (g : Nat) (s : Nat),
    g + 1 ≤ (abs g m s).ids.length ∨ abs g m s = abs (g + 1) m s := by
  intro g
  induction g with
  | zero =>
    intro s; left
    simp only [abs]; split <;> simp [Tree.ids, idsL]
  | succ g ih =>
    intro s
    by_cases hk : m.kind s = .text
    · right; rw [abs_text hk, abs_text hk]
    · rw [abs_succ_node hk g, abs_succ_node hk (g + 1)]
      by_cases hex : ∃ c ∈ m.kids s, g + 1 ≤ (abs g m c).ids.length
      · left
        obtain ⟨c, hc, hlen⟩ := hex
        simp only [Tree.ids, List.length_cons]
        have key : ∀ (l : List Nat), c ∈ l → (abs g m c).ids.length ≤ (idsL (l.map (abs g m))).length := by
          intro l
          induction l with
          | nil => intro hm; cases hm
          | cons d ds ihd =>
            intro hm
            simp only [List.map_cons, idsL, List.length_append]
            rcases List.mem_cons.mp hm with e | hm'
            · subst e; omega
            · have := ihd hm'; omega
        have := key (m.kids s) hc
        omega
      · right
        congr 1
        apply List.map_congr_left
        intro c hc
        rcases ih c with h1 | h1
        · exact absurd ⟨c, hc, h1⟩ hex
        · exact h1

/-- **the recursion fuel suffices**: in a well-formed acyclic heap with correct parent links, unfolding a non-fragment
    node to a depth of at least the number of allocated nodes gives the whole tree -/
theorem unfolding_complete {h : Heap} (hinv : Inv h) (hac : Acyclic h) (hw : WF h) (s : Nat) (hk : h.kind s ≠ .frag)
    (hs : s < (h.next : Nat)) (g : Nat) (hg : (h.next : Nat) ≤ g) :
    abs g (toLL h) s = abs (g + 1) (toLL h) s := by
  rcases deep_or_complete (toLL h) g s with h1 | h1
  · have hnd := tree_below hinv hac hw g s hk hs
    have hlt := nodup_length_le h.next _ hnd (fun i hi => abs_ids_lt hw.1 g s hs i hi)
    omegaId
  · exact h1

theorem unfolding_stable {h : Heap} (hinv : Inv h) (hac : Acyclic h) (hw : WF h) (s : Nat) (hk : h.kind s ≠ .frag)
    (hs : s < (h.next : Nat)) (g : Nat) (hg : (h.next : Nat) ≤ g) : ∀ k : Nat, abs (g + k) (toLL h) s = abs g (toLL h) s := by
  intro k
  induction k with
  | zero => rfl
  | succ k ih =>
    rw [← ih]
    exact (unfolding_complete hinv hac hw s hk hs (g + k) (by omegaId)).symm

end PlasVerif.Proofs.DomTreeBelow
