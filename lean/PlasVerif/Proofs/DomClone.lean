import PlasVerif.Proofs.DomViews
/-! `cloneNode(deep=True)` of the heap model: the clone is a fresh, detached copy of the subtree (same shape, disjoint ids). -/
namespace PlasVerif.Proofs.DomClone
open PlasVerif.Model.Dom PlasVerif.Proofs.Dom PlasVerif.Proofs.DomViews
open PlasVerif.Spec PlasVerif.Spec.DomTree

/-- `omega` after unfolding the abbreviation `Id := Nat` (comparisons between node ids are stated at type `Id`) -/
macro "omegaId" : tactic => `(tactic| ((try simp only [PlasVerif.Model.Dom.Id, PlasVerif.Spec.DomTree.Id] at *); omega))

/-! ### trees unfolded from two list models that agree on the nodes involved -/

theorem mem_idsL_map {f : Nat → Tree} {l : List Nat} {d i : Nat} (hd : d ∈ l) (hi : i ∈ (f d).ids) :
    i ∈ idsL (l.map f) := by
  induction l with
  | nil => cases hd
  | cons a l ih =>
    simp only [List.map_cons, idsL, List.mem_append]
    rcases List.mem_cons.mp hd with e | hm
    · subst e; exact Or.inl hi
    · exact Or.inr (ih hm)

theorem idsL_map_mem {f : Nat → Tree} {l : List Nat} {i : Nat} (hi : i ∈ idsL (l.map f)) : ∃ d ∈ l, i ∈ (f d).ids := by
  induction l with
  | nil => simp [idsL] at hi
  | cons a l ih =>
    simp only [List.map_cons, idsL, List.mem_append] at hi
    rcases hi with h | h
    · exact ⟨a, by simp, h⟩
    · obtain ⟨d, hd, hdi⟩ := ih h; exact ⟨d, by simp [hd], hdi⟩

theorem shapeL_append (a b : List Tree) : shapeL (a ++ b) = shapeL a ++ shapeL b := by
  induction a with
  | nil => simp [shapeL]
  | cons t ts ih => simp [shapeL, ih]

theorem idsL_append (a b : List Tree) : idsL (a ++ b) = idsL a ++ idsL b := by
  induction a with
  | nil => simp [idsL]
  | cons t ts ih => simp [idsL, ih]

/-- two list models agree at node `i` -/
def SameAt (m m' : LL) (i : Nat) : Prop :=
  m'.kids i = m.kids i ∧ m'.kind i = m.kind i ∧ m'.text i = m.text i ∧ m'.name i = m.name i

theorem abs_ids_root (g : Nat) (m : LL) (c : Nat) : c ∈ (abs g m c).ids := by
  cases g <;> simp only [abs] <;> split <;> simp [Tree.ids]

theorem abs_congr : ∀ (g : Nat) (m m' : LL) (c : Nat), (∀ i ∈ (abs g m c).ids, SameAt m m' i) → abs g m' c = abs g m c := by
  intro g
  induction g with
  | zero =>
    intro m m' c hf
    obtain ⟨_, hk, ht, hn⟩ := hf c (abs_ids_root 0 m c)
    simp only [abs, hk, ht, hn]
  | succ g ih =>
    intro m m' c hf
    obtain ⟨hkids, hk, ht, hn⟩ := hf c (abs_ids_root (g + 1) m c)
    simp only [abs, hk, ht, hn, hkids]
    split
    · rfl
    · rename_i hnt
      congr 1
      apply List.map_congr_left
      intro d hd
      apply ih
      intro i hi
      apply hf
      simp only [abs, hnt, if_false, Tree.ids, List.mem_cons]
      exact Or.inr (mem_idsL_map hd hi)

/-- below `B` the child lists stay below `B` and list no fragment -/
def Closed (h : Heap) (B : Nat) : Prop := ∀ n, n < B → ∀ c ∈ h.kids n, c < B ∧ h.kind c ≠ .frag

theorem abs_ids_lt {h : Heap} {B : Nat} (hc : Closed h B) : ∀ (g : Nat) (c : Nat), c < B → ∀ i ∈ (abs g (toLL h) c).ids, i < B := by
  intro g
  induction g with
  | zero =>
    intro c hlt i hi
    simp only [abs] at hi
    split at hi <;>
      (simp only [Tree.ids, idsL, List.mem_cons, List.mem_nil_iff, or_false, List.mem_singleton, List.not_mem_nil] at hi
       subst hi; exact hlt)
  | succ g ih =>
    intro c hlt i hi
    simp only [abs] at hi
    split at hi
    · simp only [Tree.ids, List.mem_singleton] at hi; subst hi; exact hlt
    · simp only [Tree.ids, List.mem_cons] at hi
      rcases hi with e | hi
      · subst e; exact hlt
      · obtain ⟨d, hd, hdi⟩ := idsL_map_mem hi
        exact ih d (hc c hlt d hd).1 i hdi

/-! ### the specification of one `clone` call and of the loop over the children -/

/-- nothing is listed beyond the allocation counter -/
def Fresh (h : Heap) : Prop := ∀ n : Nat, (h.next : Nat) ≤ n → h.kids n = []

/-- `h'` has the same list-model fields as `h` at node `n` -/
def SameH (h h' : Heap) (n : Nat) : Prop :=
  h'.kids n = h.kids n ∧ h'.kind n = h.kind n ∧ h'.text n = h.text n ∧ h'.name n = h.name n

theorem sameAt_of_sameH {h h' : Heap} {n : Nat} (hs : SameH h h' n) : SameAt (toLL h) (toLL h') n := by
  obtain ⟨h1, h2, h3, h4⟩ := hs
  exact ⟨h1, by simp [h2], by simp [h3], by simp [h4]⟩

theorem SameH.trans {h1 h2 h3 : Heap} {n : Nat} (a : SameH h1 h2 n) (b : SameH h2 h3 n) : SameH h1 h3 n :=
  ⟨b.1.trans a.1, b.2.1.trans a.2.1, b.2.2.1.trans a.2.2.1, b.2.2.2.trans a.2.2.2⟩

/-- the recursion fuel `f` covers the whole subtree of `s`: unfolding it one level less deep already gives everything -/
def Complete (f : Nat) (h : Heap) (s : Nat) : Prop :=
  ∃ f', f = f' + 1 ∧ abs f' (toLL h) s = abs (f' + 1) (toLL h) s

theorem complete_child {f : Nat} {h : Heap} {s x : Nat} (hc : Complete (f + 1) h s) (hk : h.kind s ≠ .text)
    (hx : x ∈ h.kids s) : Complete f h x := by
  obtain ⟨f', e, hcs⟩ := hc
  have e' : f' = f := by omegaId
  subst e'
  have hkt : (toLL h).kind s ≠ .text := by simp only [toLL_kind]; exact fun e => hk ((kindOf_text _).mp e)
  cases f' with
  | zero =>
    simp only [abs, hkt, if_false, Tree.node.injEq, true_and, toLL_kids] at hcs
    have : h.kids s = [] := List.map_eq_nil_iff.mp hcs.symm
    rw [this] at hx; cases hx
  | succ f'' =>
    simp only [abs, hkt, if_false, Tree.node.injEq, true_and, toLL_kids] at hcs
    exact ⟨f'', rfl, List.map_inj_left.mp hcs x hx⟩

structure CloneSpec (f B : Nat) (h : Heap) (s : Nat) (r : Heap × Nat) : Prop where
  noAlias : NoAlias r.1
  noAttr2 : NoAttr2 r.1
  owned : Owned h → Owned r.1
  closedAll : Closed h h.next → Closed r.1 r.1.next
  inv : Inv h → Closed h h.next → Complete f h s → Inv r.1
  fresh : Fresh r.1
  next_le : (h.next : Nat) ≤ (r.1.next : Nat)
  frame : ∀ n : Nat, n < (h.next : Nat) → SameH h r.1 n
  pframe : ∀ n : Nat, B ≤ n → n < (h.next : Nat) → r.1.parent n = h.parent n
  lt : r.2 < (r.1.next : Nat)
  nofrag : h.kind s ≠ .frag → r.1.kind r.2 ≠ .frag
  edges : ∀ n c : Nat, (h.next : Nat) ≤ n → c ∈ r.1.kids n → c < B ∨ n < c
  place : r.2 < B ∨ (h.next : Nat) ≤ r.2
  shape : ∀ g : Nat, g < f → (abs g (toLL r.1) r.2).shape = (abs g (toLL h) s).shape ∧
            ∀ i ∈ (abs g (toLL r.1) r.2).ids, (h.next : Nat) ≤ i ∧ i < (r.1.next : Nat)
  root : 0 < f → r.2 = h.next ∧ r.1.parent r.2 = none

/-- the state of the loop `for x in self.childNodes: node.append(x.cloneNode(True))`; the clone is node `h.next` -/
structure FoldInv (f B : Nat) (h : Heap) (s : Nat) (a : Heap) (done : List Nat) : Prop where
  noAlias : NoAlias a
  noAttr2 : NoAttr2 a
  owned : Owned h → Owned a
  closedAll : Closed h h.next → Closed a a.next
  inv : Inv h → Closed h h.next → Complete (f + 1) h s → Inv a
  fresh : Fresh a
  next_lt : (h.next : Nat) < (a.next : Nat)
  frame : ∀ n : Nat, n < (h.next : Nat) → SameH h a n
  pframe : ∀ n : Nat, B ≤ n → n < (h.next : Nat) → a.parent n = h.parent n
  vfields : a.kind h.next = h.kind s ∧ a.text h.next = h.text s ∧ a.name h.next = h.name s ∧ a.parent h.next = none
  edges : ∀ n c : Nat, (h.next : Nat) ≤ n → c ∈ a.kids n → c < B ∨ n < c
  kidsv : ∀ g : Nat, g < f → shapeL ((a.kids h.next).map (abs g (toLL a))) = shapeL (done.map (abs g (toLL h))) ∧
            ∀ i ∈ idsL ((a.kids h.next).map (abs g (toLL a))), (h.next : Nat) < i ∧ i < (a.next : Nat)

theorem closed_of_frame {h a : Heap} {B : Nat} (hcl : Closed h B) (hB : B ≤ (h.next : Nat))
    (hf : ∀ n : Nat, n < (h.next : Nat) → SameH h a n) : Closed a B := by
  intro n hn c hc
  rw [(hf n (by omegaId)).1] at hc
  have := hcl n hn c hc
  have hcB := this.1
  exact ⟨this.1, by rw [(hf c (by omegaId)).2.1]; exact this.2⟩

theorem closed_putAt {h : Heap} (hc : Closed h h.next) (s k y : Nat) (hy : y < (h.next : Nat)) (hk : h.kind y ≠ .frag) :
    Closed (putAt h s k y) (putAt h s k y).next := by
  intro n hn c hcm
  show c < (h.next : Nat) ∧ h.kind c ≠ .frag
  by_cases hns : n = s
  · subst hns
    rw [putAt_kids_self] at hcm
    rcases mem_middle.mp hcm with e | hm
    · subst e; exact ⟨hy, hk⟩
    · exact hc n hn c hm
  · rw [putAt_kids_other h s k y n hns] at hcm; exact hc n hn c hcm

theorem fold_step {f B : Nat}
    (ih : ∀ (B : Nat) (h : Heap) (s : Nat), NoAlias h → NoAttr2 h → Fresh h → Closed h B → s < B → B ≤ (h.next : Nat) →
      CloneSpec f B h s (clone f h s true))
    {h : Heap} {s : Nat} {a : Heap} {done : List Nat} {x : Nat}
    (hcl : Closed h B) (hB : B ≤ (h.next : Nat)) (inv : FoldInv f B h s a done) (hx : x < B) (hxk : h.kind x ≠ .frag)
    (hxm : x ∈ h.kids s) (hst : h.kind s ≠ .text) :
    FoldInv f B h s (append (fuelOf (clone f a x true).1) (clone f a x true).1 h.next (clone f a x true).2) (done ++ [x]) := by
  have hcla := closed_of_frame hcl hB inv.frame
  have spec := ih B a x inv.noAlias inv.noAttr2 inv.fresh hcla hx (by have := inv.next_lt; omegaId)
  generalize clone f a x true = r at spec ⊢
  obtain ⟨a1, cx⟩ := r
  simp only at spec ⊢
  have hvlt : (h.next : Nat) < (a.next : Nat) := inv.next_lt
  have hxa : a.kind x ≠ .frag := by rw [(inv.frame x (by omegaId)).2.1]; exact hxk
  have hcxk : a1.kind cx ≠ .frag := spec.nofrag hxa
  rw [append_fuelOf spec.noAlias h.next cx hcxk]
  have hv1 : SameH a a1 h.next := spec.frame h.next hvlt
  have hcxv : cx ≠ h.next := by rcases spec.place with h1 | h1 <;> omegaId
  -- fields of the new state
  have kids_v : (putAt a1 h.next (a1.kids h.next).length cx).kids h.next = a.kids h.next ++ [cx] := by
    rw [putAt_end_kids, hv1.1]
  have kids_o : ∀ n : Nat, n ≠ h.next → (putAt a1 h.next (a1.kids h.next).length cx).kids n = a1.kids n :=
    fun n hn => putAt_kids_other a1 h.next _ cx n hn
  have same1 : ∀ n : Nat, n ≠ h.next → SameH a1 (putAt a1 h.next (a1.kids h.next).length cx) n :=
    fun n hn => ⟨kids_o n hn, rfl, rfl, rfl⟩
  have samea : ∀ n : Nat, n ≠ h.next → n < (a.next : Nat) → SameH a (putAt a1 h.next (a1.kids h.next).length cx) n :=
    fun n hn hlt => (spec.frame n hlt).trans (same1 n hn)
  have par : ∀ n : Nat, n ≠ cx → (putAt a1 h.next (a1.kids h.next).length cx).parent n = a1.parent n := by
    intro n hn; simp [putAt, upd, hn]
  refine ⟨noAlias_putAt spec.noAlias _ _ _, fun n => spec.noAttr2 n,
    fun ho => owned_putAt (spec.owned (inv.owned ho)) _ _ _,
    fun hc => closed_putAt (spec.closedAll (inv.closedAll hc)) _ _ cx spec.lt hcxk, ?_, ?_, ?_, ?_, ?_, ?_, ?_, ?_⟩
  · -- the invariant, when the fuel covers the subtree
    intro hi hc hcs
    have hia := inv.inv hi hc hcs
    have hca : Closed a a.next := inv.closedAll hc
    have hxh : ∀ g : Nat, abs g (toLL a) x = abs g (toLL h) x := by
      intro g
      apply abs_congr
      intro i hi'
      have := abs_ids_lt hcl g x hx i hi'
      exact sameAt_of_sameH (inv.frame i (by omegaId))
    have hcx : Complete f a x := by
      obtain ⟨f', e, hce⟩ := complete_child hcs hst hxm
      exact ⟨f', e, by rw [hxh, hxh]; exact hce⟩
    have hi1 : Inv a1 := spec.inv hia hca hcx
    have hfpos : 0 < f := by obtain ⟨f', e, _⟩ := hcx; omegaId
    have hcxn : cx = a.next := (spec.root hfpos).1
    have hdet : Detached a1 cx := by
      intro n hn hm
      by_cases hna : n < (a.next : Nat)
      · rw [(spec.frame n hna).1] at hm
        have := (hca n hna cx hm).1
        omegaId
      · rcases spec.edges n cx (by omegaId) hm with h1 | h1 <;> omegaId
    exact inv_putAt hi1 h.next _ cx hdet
  · -- fresh
    intro n hn
    have hn1 : (a1.next : Nat) ≤ n := hn
    have : n ≠ h.next := by have := spec.next_le; omegaId
    rw [kids_o n this]; exact spec.fresh n hn1
  · show (h.next : Nat) < (a1.next : Nat)
    have := spec.next_le; omegaId
  · intro n hn
    exact (inv.frame n hn).trans (samea n (by omegaId) (by omegaId))
  · intro n hB' hn
    have hncx : n ≠ cx := by rcases spec.place with h1 | h1 <;> omegaId
    rw [par n hncx, spec.pframe n hB' (by omegaId), inv.pframe n hB' hn]
  · obtain ⟨k1, k2, k3, k4⟩ := inv.vfields
    refine ⟨hv1.2.1.trans k1, hv1.2.2.1.trans k2, hv1.2.2.2.trans k3, ?_⟩
    rw [par h.next (Ne.symm hcxv), spec.pframe h.next hB hvlt, k4]
  · intro n c hn hc
    by_cases hnv : n = h.next
    · subst hnv
      rw [kids_v] at hc
      rcases List.mem_append.mp hc with hc | hc
      · exact inv.edges _ c (Nat.le_refl _) hc
      · simp only [List.mem_singleton] at hc; subst hc
        rcases spec.place with h1 | h1
        · exact Or.inl h1
        · right; omegaId
    · rw [kids_o n hnv] at hc
      by_cases hna : n < (a.next : Nat)
      · rw [(spec.frame n hna).1] at hc; exact inv.edges n c hn hc
      · exact spec.edges n c (by omegaId) hc
  · intro g hg
    obtain ⟨ks, ki⟩ := inv.kidsv g hg
    obtain ⟨ss, si⟩ := spec.shape g hg
    -- the clones made so far are untouched
    have old : ∀ c ∈ a.kids h.next, abs g (toLL (putAt a1 h.next (a1.kids h.next).length cx)) c = abs g (toLL a) c := by
      intro c hc
      apply abs_congr
      intro i hi
      have := ki i (mem_idsL_map hc hi)
      exact sameAt_of_sameH (samea i (by omegaId) this.2)
    have newc : abs g (toLL (putAt a1 h.next (a1.kids h.next).length cx)) cx = abs g (toLL a1) cx := by
      apply abs_congr
      intro i hi
      have := si i hi
      exact sameAt_of_sameH (same1 i (by omegaId))
    have orig : abs g (toLL a) x = abs g (toLL h) x := by
      apply abs_congr
      intro i hi
      have := abs_ids_lt hcl g x hx i hi
      exact sameAt_of_sameH (inv.frame i (by omegaId))
    rw [kids_v, List.map_append, List.map_append, shapeL_append, shapeL_append, idsL_append,
      List.map_congr_left old, ks]
    refine ⟨?_, ?_⟩
    · simp only [List.map_cons, List.map_nil, shapeL, newc, ss, orig]
    · intro i hi
      rcases List.mem_append.mp hi with hi | hi
      · have := ki i hi
        have h2 := spec.next_le
        exact ⟨this.1, by show i < (a1.next : Nat); omegaId⟩
      · simp only [List.map_cons, List.map_nil, idsL, List.append_nil, newc] at hi
        have := si i hi
        exact ⟨by omegaId, this.2⟩

theorem fold_all {f B : Nat}
    (ih : ∀ (B : Nat) (h : Heap) (s : Nat), NoAlias h → NoAttr2 h → Fresh h → Closed h B → s < B → B ≤ (h.next : Nat) →
      CloneSpec f B h s (clone f h s true))
    {h : Heap} {s : Nat} (hcl : Closed h B) (hB : B ≤ (h.next : Nat)) :
    ∀ (xs : List Nat) (a : Heap) (done : List Nat), FoldInv f B h s a done →
      (∀ x ∈ xs, x < B ∧ h.kind x ≠ .frag ∧ x ∈ h.kids s) → h.kind s ≠ .text →
      FoldInv f B h s (xs.foldl (fun a x =>
        append (fuelOf (clone f a x true).1) (clone f a x true).1 h.next (clone f a x true).2) a) (done ++ xs) := by
  intro xs
  induction xs with
  | nil => intro a done inv _ _; simpa using inv
  | cons x xs ihx =>
    intro a done inv hxs hst
    rw [List.foldl_cons]
    have := ihx _ (done ++ [x]) (fold_step ih hcl hB inv (hxs x (by simp)).1 (hxs x (by simp)).2.1
      (hxs x (by simp)).2.2 hst) (fun y hy => hxs y (by simp [hy])) hst
    simpa using this

/-- the state right after `node = type(self)(); node.parentNode = None; node.ownerDocument = self.ownerDocument` -/
def cloneRoot (h : Heap) (s : Nat) : Heap :=
  { h with next := h.next + 1, kids := upd h.kids h.next [],
           parent := upd (upd h.parent h.next none) h.next none,
           owner := upd (upd h.owner h.next (some 0)) h.next (h.owner s),
           kind := upd h.kind h.next (h.kind s), text := upd h.text h.next (h.text s),
           name := upd h.name h.next (h.name s), attr := upd h.attr h.next none,
           attr2 := upd h.attr2 h.next none }

theorem clone_succ_eq (f : Nat) (h : Heap) (s : Nat) (ha : NoAlias h) (hb : NoAttr2 h) (hs : s ≠ h.next) :
    clone (f + 1) h s true =
      if h.kind s = .text then (cloneRoot h s, h.next)
      else ((h.kids s).foldl (fun a x =>
        append (fuelOf (clone f a x true).1) (clone f a x true).1 h.next (clone f a x true).2) (cloneRoot h s), h.next) := by
  have hcl : childList (cloneRoot h s) s = h.kids s := by
    simp [childList, cn, cloneRoot, upd, hs, ha s]
  rw [clone]
  simp only [create, ha s, hb s]
  split
  · rfl
  · simp only [if_true]
    show (List.foldl _ (cloneRoot h s) (childList (cloneRoot h s) s), h.next) = _
    rw [hcl]

theorem foldInv_root {f B : Nat} {h : Heap} {s : Nat} (ha : NoAlias h) (hb : NoAttr2 h) (hf : Fresh h) (hB : B ≤ (h.next : Nat)) :
    FoldInv f B h s (cloneRoot h s) [] := by
  have hne : ∀ n : Nat, n < (h.next : Nat) → n ≠ h.next := fun n hn => by omegaId
  refine ⟨?_, ?_, ?_, ?_, ?_, ?_, ?_, ?_, ?_, ?_, ?_, ?_⟩
  · intro n; simp only [cloneRoot, upd]; split
    · rfl
    · exact ha n
  · intro n; simp only [cloneRoot, upd]; split
    · rfl
    · exact hb n
  · intro ho n
    simp only [cloneRoot, upd]; split
    · exact ho s
    · exact ho n
  · intro hc n hn c hcm
    simp only [cloneRoot, upd] at hn hcm ⊢
    by_cases hnv : n = h.next
    · simp [hnv] at hcm
    · simp only [hnv, if_false] at hcm
      have hn' : n < (h.next : Nat) := by omegaId
      have := hc n hn' c hcm
      have hcv : c ≠ h.next := by have := this.1; omegaId
      simp only [hcv, if_false]
      exact ⟨by have := this.1; omegaId, this.2⟩
  · -- the invariant: the fresh node lists nothing and is listed nowhere
    intro hi hc _
    obtain ⟨i1, i2⟩ := hi
    have hkids : ∀ n : Nat, n ≠ h.next → (cloneRoot h s).kids n = h.kids n := fun n hn => by simp [cloneRoot, upd, hn]
    have hkv : (cloneRoot h s).kids h.next = [] := by simp [cloneRoot, upd]
    refine ⟨?_, ?_⟩
    · intro n c hn hcm
      by_cases hnv : n = h.next
      · rw [hnv, hkv] at hcm; cases hcm
      · rw [hkids n hnv] at hcm
        have hnlt : n < (h.next : Nat) := by
          apply Nat.lt_of_not_le; intro hle
          rw [hf n hle] at hcm; cases hcm
        have hcl' := (hc n hnlt c hcm).1
        have hcv : c ≠ h.next := by omegaId
        have hkn : h.kind n ≠ .frag := by simpa [cloneRoot, upd, hnv] using hn
        simp [cloneRoot, upd, hcv, i1 n c hkn hcm]
    · intro n hn
      by_cases hnv : n = h.next
      · rw [hnv, hkv]; exact List.nodup_nil
      · rw [hkids n hnv]
        have hkn : h.kind n ≠ .frag := by simpa [cloneRoot, upd, hnv] using hn
        exact i2 n hkn
  · intro n hn
    have : n ≠ h.next := by simp only [cloneRoot] at hn; omegaId
    simp only [cloneRoot, upd, this, if_false]
    exact hf n (by simp only [cloneRoot] at hn; omegaId)
  · simp only [cloneRoot]; omegaId
  · intro n hn
    simp [SameH, cloneRoot, upd, hne n hn]
  · intro n _ hn
    simp [cloneRoot, upd, hne n hn]
  · simp [cloneRoot, upd]
  · intro n c hn hc
    by_cases hnv : n = h.next
    · simp [cloneRoot, upd, hnv] at hc
    · simp only [cloneRoot, upd, hnv, if_false] at hc
      rw [hf n hn] at hc; cases hc
  · intro g _
    simp [cloneRoot, upd, shapeL, idsL]

/-- **the specification of `cloneNode(True)`** (any fuel `f`, any closed region `B` containing the subtree) -/
theorem clone_spec : ∀ (f B : Nat) (h : Heap) (s : Nat), NoAlias h → NoAttr2 h → Fresh h → Closed h B → s < B → B ≤ (h.next : Nat) →
    CloneSpec f B h s (clone f h s true) := by
  intro f
  induction f with
  | zero =>
    intro B h s ha hb hf hcl hs hB
    simp only [clone]
    refine ⟨ha, hb, id, id, fun _ _ hc => by obtain ⟨f', e, _⟩ := hc; omegaId, hf, Nat.le_refl _, fun n _ => ⟨rfl, rfl, rfl, rfl⟩, fun n _ _ => rfl, by omegaId, fun hk => hk, ?_,
      Or.inl hs, fun g hg => absurd hg (Nat.not_lt_zero _), fun h0 => absurd h0 (Nat.lt_irrefl _)⟩
    intro n c hn hc
    rw [hf n hn] at hc; cases hc
  | succ f ih =>
    intro B h s ha hb hf hcl hs hB
    have hsn : s ≠ h.next := by omegaId
    rw [clone_succ_eq f h s ha hb hsn]
    have root := foldInv_root (f := f) (B := B) (s := s) ha hb hf hB
    by_cases hk : h.kind s = .text
    · -- a text node: no children are copied
      simp only [hk, if_true]
      obtain ⟨k1, k2, k3, k4⟩ := root.vfields
      refine ⟨root.noAlias, root.noAttr2, root.owned, root.closedAll, root.inv, root.fresh, by have := root.next_lt; omegaId, root.frame, root.pframe, root.next_lt,
        fun _ => by rw [k1, hk]; simp, root.edges, Or.inr (Nat.le_refl _), ?_, fun _ => ⟨rfl, k4⟩⟩
      intro g _
      have e1 : ∀ g, abs g (toLL (cloneRoot h s)) h.next = .text h.next (h.text s) := by
        intro g; cases g <;> simp [abs, k1, hk, kindOf, k2]
      have e2 : ∀ g, abs g (toLL h) s = .text s (h.text s) := by
        intro g; cases g <;> simp [abs, hk, kindOf]
      rw [e1, e2]
      refine ⟨by simp [Tree.shape], ?_⟩
      intro i hi
      simp only [Tree.ids, List.mem_singleton] at hi
      subst hi
      exact ⟨Nat.le_refl _, root.next_lt⟩
    · simp only [hk, if_false]
      have hxs : ∀ x ∈ h.kids s, x < B ∧ h.kind x ≠ .frag ∧ x ∈ h.kids s := fun x hx => ⟨(hcl s hs x hx).1, (hcl s hs x hx).2, hx⟩
      have fin := fold_all ih hcl hB (h.kids s) (cloneRoot h s) [] root hxs hk
      simp only [List.nil_append] at fin
      generalize (h.kids s).foldl (fun a x =>
        append (fuelOf (clone f a x true).1) (clone f a x true).1 h.next (clone f a x true).2) (cloneRoot h s) = a at fin ⊢
      obtain ⟨k1, k2, k3, k4⟩ := fin.vfields
      have hkt : kindOf (h.kind s) ≠ .text := fun e => hk ((kindOf_text _).mp e)
      refine ⟨fin.noAlias, fin.noAttr2, fin.owned, fin.closedAll, fin.inv, fin.fresh, by have := fin.next_lt; omegaId, fin.frame, fin.pframe, fin.next_lt,
        fun hnf => by rw [k1]; exact hnf, fin.edges, Or.inr (Nat.le_refl _), ?_, fun _ => ⟨rfl, k4⟩⟩
      intro g hg
      cases g with
      | zero =>
        simp only [abs, toLL_kind, k1, hkt, if_false, toLL_name, toLL_text, k3]
        refine ⟨by simp [Tree.shape, shapeL], ?_⟩
        intro i hi
        simp only [Tree.ids, idsL, List.mem_cons, List.not_mem_nil, or_false] at hi
        subst hi
        exact ⟨Nat.le_refl _, fin.next_lt⟩
      | succ g =>
        obtain ⟨ks, ki⟩ := fin.kidsv g (by omegaId)
        simp only [abs, toLL_kind, k1, hkt, if_false, toLL_name, toLL_text, k3, toLL_kids]
        refine ⟨by simp only [Tree.shape]; rw [ks], ?_⟩
        intro i hi
        simp only [Tree.ids, List.mem_cons] at hi
        rcases hi with e | hi
        · subst e; exact ⟨Nat.le_refl _, fin.next_lt⟩
        · have := ki i hi
          exact ⟨by omegaId, this.2⟩

/-! ### a clone keeps the heap acyclic -/

/-- an upper bound of `r` on the nodes below `n` -/
def rankBound (r : Nat → Nat) : Nat → Nat
  | 0 => 0
  | n + 1 => max (rankBound r n) (r n)

theorem le_rankBound (r : Nat → Nat) : ∀ (n c : Nat), c < n → r c ≤ rankBound r n := by
  intro n
  induction n with
  | zero => intro c hc; omega
  | succ n ih =>
    intro c hc
    simp only [rankBound]
    by_cases e : c = n
    · subst e; exact Nat.le_max_right _ _
    · exact Nat.le_trans (ih c (by omega)) (Nat.le_max_left _ _)

/-- old edges keep their ranks; the edges of the fresh nodes lead to old nodes or to fresher ones -/
theorem acyclic_of_cloneSpec {f B : Nat} {h : Heap} {s : Nat} {r : Heap × Nat} (spec : CloneSpec f B h s r)
    (hB : B ≤ (h.next : Nat)) (hcl : Closed h h.next) (hac : Acyclic h) : Acyclic r.1 := by
  obtain ⟨r0, hr0⟩ := hac
  refine ⟨fun n => if n < (h.next : Nat) then r0 n else rankBound r0 h.next + 1 + ((r.1.next : Nat) - n), ?_⟩
  intro n c hc
  by_cases hn : n < (h.next : Nat)
  · rw [(spec.frame n hn).1] at hc
    have hcl' := (hcl n hn c hc).1
    have hcn : c < (h.next : Nat) := hcl'
    simp only [hn, hcn, if_true]
    exact hr0 n c hc
  · have hn' : (h.next : Nat) ≤ n := Nat.le_of_not_lt hn
    have hnN : n < (r.1.next : Nat) := by
      apply Nat.lt_of_not_le
      intro hle
      rw [spec.fresh n hle] at hc; cases hc
    simp only [hn, if_false]
    rcases spec.edges n c hn' hc with h1 | h1
    · have hcn : c < (h.next : Nat) := Nat.lt_of_lt_of_le h1 hB
      simp only [hcn, if_true]
      have := le_rankBound r0 h.next c hcn
      omegaId
    · have hcn : ¬ c < (h.next : Nat) := by omegaId
      simp only [hcn, if_false]
      omegaId

end PlasVerif.Proofs.DomClone
