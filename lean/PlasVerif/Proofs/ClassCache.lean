import PlasVerif.Model.ClassCache
/-! Helper lemmas for the class-cache part of C17: a sound cache stays sound and is transparent. -/
namespace PlasVerif.Proofs.ClassCache
open PlasVerif.Model.ClassCache

/-- every cached entry is what the uncached computation gives for that very class -/
def Sound {τ} (f : Nat → τ) (cache : Cache τ) : Prop := ∀ c t, cache.lookup c = some t → t = f c

theorem sound_nil {τ} (f : Nat → τ) : Sound f ([] : Cache τ) := by
  intro c t h; simp [List.lookup] at h

theorem lookup_sound {τ} (mro : Nat → List Nat) (f : Nat → τ) (cache : Cache τ) (c : Nat) (h : Sound f cache) :
    (lookup false mro f cache c).2 = f c ∧ Sound f (lookup false mro f cache c).1 := by
  unfold lookup cached
  simp only [Bool.false_eq_true, if_false]
  cases hc : cache.lookup c with
  | some t => exact ⟨h c t hc, h⟩
  | none =>
    refine ⟨rfl, ?_⟩
    intro c' t' h'
    simp only [List.lookup_cons] at h'
    by_cases e : c' = c
    · subst e; simp at h'; exact h'.symm
    · have : (c' == c) = false := by simpa using e
      rw [this] at h'
      exact h c' t' h'

theorem lookups_sound {τ} (mro : Nat → List Nat) (f : Nat → τ) :
    ∀ (cs : List Nat) (cache : Cache τ), Sound f cache →
      (lookups false mro f cache cs).2 = cs.map f ∧ Sound f (lookups false mro f cache cs).1
  | [], cache, h => ⟨rfl, h⟩
  | c :: cs, cache, h => by
    obtain ⟨h1, h2⟩ := lookup_sound mro f cache c h
    obtain ⟨h3, h4⟩ := lookups_sound mro f cs _ h2
    simp only [lookups, List.map_cons]
    exact ⟨by rw [h1, h3], h4⟩

end PlasVerif.Proofs.ClassCache
