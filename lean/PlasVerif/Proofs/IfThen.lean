import PlasVerif.Spec.BoolExpr
/-! Helper lemmas for C19 (shunting-yard correctness).  Property statements are in `Properties/C19.lean`. -/
namespace PlasVerif.Proofs.IfThen
open PlasVerif.Model.IfThen PlasVerif.Spec.BoolExpr PlasVerif.Generated.IfThen

end PlasVerif.Proofs.IfThen
namespace PlasVerif.Spec.BoolExpr
open PlasVerif.Model.IfThen
-- postfix code split into emitted part `out` and pending operators `pend` (top first)
mutual
def Atom.out : Atom → List Tok
  | .lit b => [.bool b]
  | .cmp a _ b => [.num a, .num b]
  | .paren e => e.out ++ e.pend
  | .neg a => a.out
def Atom.pend : Atom → List Tok
  | .lit _ => []
  | .cmp _ r _ => [r.tok]
  | .paren _ => []
  | .neg a => a.pend ++ [.not]
def Expr.out : Expr → List Tok
  | .atom a => a.out
  | .and e a => e.out ++ e.pend ++ a.out
  | .or e a => e.out ++ e.pend ++ a.out
def Expr.pend : Expr → List Tok
  | .atom a => a.pend
  | .and _ a => a.pend ++ [.and]
  | .or _ a => a.pend ++ [.or]
end
end PlasVerif.Spec.BoolExpr
namespace PlasVerif.Proofs.IfThen
open PlasVerif.Model.IfThen PlasVerif.Spec.BoolExpr PlasVerif.Generated.IfThen
attribute [local simp] precLt precGt precEq precAnd precOr precNot precLpar precRpar precNum precBool

section eqs
variable (e : Expr) (a : Atom) (b : Bool) (x y : Int) (r : Rel)
@[simp] theorem lin_lit : (Atom.lit b).lin = [.bool b] := by rw [Atom.lin]
@[simp] theorem lin_cmp : (Atom.cmp x r y).lin = [.num x, r.tok, .num y] := by rw [Atom.lin]
@[simp] theorem lin_paren : (Atom.paren e).lin = .lpar :: (e.lin ++ [.rpar]) := by rw [Atom.lin]
@[simp] theorem lin_neg : (Atom.neg a).lin = .not :: a.lin := by rw [Atom.lin]
@[simp] theorem lin_atom : (Expr.atom a).lin = a.lin := by rw [Expr.lin]
@[simp] theorem lin_and : (Expr.and e a).lin = e.lin ++ .and :: a.lin := by rw [Expr.lin]
@[simp] theorem lin_or : (Expr.or e a).lin = e.lin ++ .or :: a.lin := by rw [Expr.lin]
@[simp] theorem out_lit : (Atom.lit b).out = [.bool b] := by rw [Atom.out]
@[simp] theorem out_cmp : (Atom.cmp x r y).out = [.num x, .num y] := by rw [Atom.out]
@[simp] theorem out_paren : (Atom.paren e).out = e.out ++ e.pend := by rw [Atom.out]
@[simp] theorem out_neg : (Atom.neg a).out = a.out := by rw [Atom.out]
@[simp] theorem out_atom : (Expr.atom a).out = a.out := by rw [Expr.out]
@[simp] theorem out_and : (Expr.and e a).out = e.out ++ e.pend ++ a.out := by rw [Expr.out]
@[simp] theorem out_or : (Expr.or e a).out = e.out ++ e.pend ++ a.out := by rw [Expr.out]
@[simp] theorem pend_lit : (Atom.lit b).pend = [] := by rw [Atom.pend]
@[simp] theorem pend_cmp : (Atom.cmp x r y).pend = [r.tok] := by rw [Atom.pend]
@[simp] theorem pend_paren : (Atom.paren e).pend = [] := by rw [Atom.pend]
@[simp] theorem pend_neg : (Atom.neg a).pend = a.pend ++ [.not] := by rw [Atom.pend]
@[simp] theorem pend_atom : (Expr.atom a).pend = a.pend := by rw [Expr.pend]
@[simp] theorem pend_and : (Expr.and e a).pend = a.pend ++ [.and] := by rw [Expr.pend]
@[simp] theorem pend_or : (Expr.or e a).pend = a.pend ++ [.or] := by rw [Expr.pend]
@[simp] theorem den_lit : (Atom.lit b).den = b := by rw [Atom.den]
@[simp] theorem den_cmp : (Atom.cmp x r y).den = r.holds x y := by rw [Atom.den]
@[simp] theorem den_paren : (Atom.paren e).den = e.den := by rw [Atom.den]
@[simp] theorem den_neg : (Atom.neg a).den = !a.den := by rw [Atom.den]
@[simp] theorem den_atom : (Expr.atom a).den = a.den := by rw [Expr.den]
@[simp] theorem den_and : (Expr.and e a).den = (e.den && a.den) := by rw [Expr.den]
@[simp] theorem den_or : (Expr.or e a).den = (e.den || a.den) := by rw [Expr.den]
end eqs

theorem prec_pend_atom_ge : ∀ (a : Atom), ∀ t ∈ a.pend, 1 ≤ prec t := by
  intro a
  induction a using Atom.rec (motive_2 := fun _ => True) with
  | lit b => simp
  | cmp a r b => cases r <;> simp [Rel.tok, prec]
  | paren e _ => simp
  | neg a ih => intro t ht; simp at ht; rcases ht with h | h; exact ih t h; subst h; simp [prec]
  | atom => trivial
  | and => trivial
  | or => trivial

theorem prec_pend_expr_ge : ∀ (e : Expr), ∀ t ∈ e.pend, 1 ≤ prec t := by
  intro e
  cases e with
  | atom a => simpa using prec_pend_atom_ge a
  | and e a => intro t ht; simp at ht; rcases ht with h | h; exact prec_pend_atom_ge a t h; subst h; simp [prec]
  | or e a => intro t ht; simp at ht; rcases ht with h | h; exact prec_pend_atom_ge a t h; subst h; simp [prec]

/-- the stack below is empty or its top has precedence `< p` -/
def Below (p : Nat) : List Tok → Prop
  | [] => True
  | t :: _ => prec t < p

theorem popWhile_pend (p : Nat) (ops s : List Tok) (h1 : ∀ t ∈ ops, p ≤ prec t) (h2 : Below p s) :
    popWhile p (ops ++ s) = (ops, s) := by
  induction ops with
  | nil =>
    cases s with
    | nil => simp [popWhile]
    | cons t s => simp [Below] at h2; simp [popWhile]; omega
  | cons t ops ih =>
    have := ih (fun x hx => h1 x (List.mem_cons_of_mem _ hx))
    simp [popWhile, h1 t (List.mem_cons_self), this]

theorem popToLpar_pend (ops s : List Tok) (h1 : ∀ t ∈ ops, 1 ≤ prec t) :
    popToLpar (ops ++ .lpar :: s) = .ok (ops, s) := by
  induction ops with
  | nil => simp [popToLpar]
  | cons t ops ih =>
    have ht := h1 t (List.mem_cons_self)
    have := ih (fun x hx => h1 x (List.mem_cons_of_mem _ hx))
    cases t <;> simp_all [popToLpar, prec, Except.map]

section steps
variable (ts stack out : List Tok)
theorem tp_num (n : Int) : toPostfix (.num n :: ts) stack out = toPostfix ts stack (out ++ [.num n]) := by simp [toPostfix]
theorem tp_bool (b : Bool) : toPostfix (.bool b :: ts) stack out = toPostfix ts stack (out ++ [.bool b]) := by simp [toPostfix]
theorem tp_lpar : toPostfix (.lpar :: ts) stack out = toPostfix ts (.lpar :: stack) out := by simp [toPostfix]
theorem tp_not : toPostfix (.not :: ts) stack out = toPostfix ts (.not :: stack) out := by simp [toPostfix]
theorem tp_rpar (a s : List Tok) (h : popToLpar stack = .ok (a, s)) :
    toPostfix (.rpar :: ts) stack out = toPostfix ts s (out ++ a) := by simp [toPostfix, h]
theorem tp_and (a s : List Tok) (h : popWhile 1 stack = (a, s)) :
    toPostfix (.and :: ts) stack out = toPostfix ts (.and :: s) (out ++ a) := by simp [toPostfix, prec, h]
theorem tp_or (a s : List Tok) (h : popWhile 1 stack = (a, s)) :
    toPostfix (.or :: ts) stack out = toPostfix ts (.or :: s) (out ++ a) := by simp [toPostfix, prec, h]
theorem tp_rel (r : Rel) (a s : List Tok) (h : popWhile 2 stack = (a, s)) :
    toPostfix (r.tok :: ts) stack out = toPostfix ts (r.tok :: s) (out ++ a) := by
  cases r <;> simp [toPostfix, prec, Rel.tok, h]
end steps

theorem below_1_2 {s : List Tok} (h : Below 1 s) : Below 2 s := by
  cases s with
  | nil => trivial
  | cons t s => simp [Below] at *; omega

mutual
theorem atom_sy (a : Atom) (s out rest : List Tok) (hs : Below 2 s) :
    toPostfix (a.lin ++ rest) s out = toPostfix rest (a.pend ++ s) (out ++ a.out) := by
  cases a with
  | lit b => simp [tp_bool]
  | cmp x r y =>
    have h := popWhile_pend 2 [] s (by simp) hs
    simp only [List.nil_append] at h
    simp [tp_num, tp_rel _ _ _ r [] s h]
  | paren e =>
    have ih := expr_sy e (.lpar :: s) out (.rpar :: rest) (by simp [Below, prec])
    have hp := popToLpar_pend e.pend s (prec_pend_expr_ge e)
    simp only [lin_paren, List.cons_append, List.append_assoc, List.nil_append, tp_lpar]
    rw [ih, tp_rpar _ _ _ _ _ hp]
    simp
  | neg a =>
    have ih := atom_sy a (.not :: s) out rest (by simp [Below, prec])
    simp only [lin_neg, List.cons_append, tp_not, ih]
    simp
theorem expr_sy (e : Expr) (s out rest : List Tok) (hs : Below 1 s) :
    toPostfix (e.lin ++ rest) s out = toPostfix rest (e.pend ++ s) (out ++ e.out) := by
  cases e with
  | atom a => simpa using atom_sy a s out rest (below_1_2 hs)
  | and e a =>
    have ihe := expr_sy e s out (.and :: (a.lin ++ rest)) hs
    have ihp := popWhile_pend 1 e.pend s (prec_pend_expr_ge e) hs
    have iha := atom_sy a (.and :: s) (out ++ e.out ++ e.pend) rest (by simp [Below, prec])
    simp only [lin_and, List.append_assoc, List.cons_append, ihe]
    rw [tp_and _ _ _ _ _ ihp, iha]
    simp
  | or e a =>
    have ihe := expr_sy e s out (.or :: (a.lin ++ rest)) hs
    have ihp := popWhile_pend 1 e.pend s (prec_pend_expr_ge e) hs
    have iha := atom_sy a (.or :: s) (out ++ e.out ++ e.pend) rest (by simp [Below, prec])
    simp only [lin_or, List.append_assoc, List.cons_append, ihe]
    rw [tp_or _ _ _ _ _ ihp, iha]
    simp
end

theorem toPostfix_expr (e : Expr) : toPostfix e.lin [] [] = .ok (e.out ++ e.pend) := by
  have := expr_sy e [] [] [] (by simp [Below])
  simpa [toPostfix] using this

section ev
variable (ts : List Tok) (st : List Val)
theorem ev_num (n : Int) : evalPostfix (.num n :: ts) st = evalPostfix ts (.n n :: st) := by simp [evalPostfix]
theorem ev_bool (b : Bool) : evalPostfix (.bool b :: ts) st = evalPostfix ts (.b b :: st) := by simp [evalPostfix]
theorem ev_and (x y : Bool) : evalPostfix (.and :: ts) (.b x :: .b y :: st) = evalPostfix ts (.b (x && y) :: st) := by simp [evalPostfix]
theorem ev_or (x y : Bool) : evalPostfix (.or :: ts) (.b x :: .b y :: st) = evalPostfix ts (.b (x || y) :: st) := by simp [evalPostfix]
theorem ev_not (x : Bool) : evalPostfix (.not :: ts) (.b x :: st) = evalPostfix ts (.b (!x) :: st) := by simp [evalPostfix]
theorem ev_rel (r : Rel) (x y : Int) : evalPostfix (r.tok :: ts) (.n y :: .n x :: st) = evalPostfix ts (.b (r.holds x y) :: st) := by
  cases r <;> simp [evalPostfix, Rel.tok, Rel.holds]
end ev

mutual
theorem atom_ev (a : Atom) (rest : List Tok) (st : List Val) :
    evalPostfix (a.out ++ a.pend ++ rest) st = evalPostfix rest (.b a.den :: st) := by
  cases a with
  | lit b => simp [ev_bool]
  | cmp x r y => simp [ev_num, ev_rel]
  | paren e => simpa using expr_ev e rest st
  | neg a =>
    have ih := atom_ev a (.not :: rest) st
    simp only [out_neg, pend_neg, den_neg, List.append_assoc, List.singleton_append] at ih ⊢
    rw [ih, ev_not]
theorem expr_ev (e : Expr) (rest : List Tok) (st : List Val) :
    evalPostfix (e.out ++ e.pend ++ rest) st = evalPostfix rest (.b e.den :: st) := by
  cases e with
  | atom a => simpa using atom_ev a rest st
  | and e a =>
    have ihe := expr_ev e (a.out ++ a.pend ++ .and :: rest) st
    have iha := atom_ev a (.and :: rest) (.b e.den :: st)
    simp only [out_and, pend_and, den_and, List.append_assoc, List.singleton_append] at ihe iha ⊢
    rw [ihe, iha, ev_and, Bool.and_comm]
  | or e a =>
    have ihe := expr_ev e (a.out ++ a.pend ++ .or :: rest) st
    have iha := atom_ev a (.or :: rest) (.b e.den :: st)
    simp only [out_or, pend_or, den_or, List.append_assoc, List.singleton_append] at ihe iha ⊢
    rw [ihe, iha, ev_or, Bool.or_comm]
end

theorem evalPostfix_expr (e : Expr) : evalPostfix (e.out ++ e.pend) [] = .ok [.b e.den] := by
  have h := expr_ev e [] []
  simp only [List.append_nil] at h
  simp [h, evalPostfix]

end PlasVerif.Proofs.IfThen
