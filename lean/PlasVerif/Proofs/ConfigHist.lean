import PlasVerif.Proofs.ConfigDest
/-!
Histories: layers applied one after the other, assignments, and read-backs in between.  Every observed state is,
option by option, the denotation of the history up to that read-back: nothing observed is ever stale.
-/
namespace PlasVerif.Proofs.ConfigHist
open PlasVerif.Model.Config PlasVerif.Spec.Config PlasVerif.Proofs.Config PlasVerif.Proofs.ConfigRouting
  PlasVerif.Proofs.ConfigDest

theorem typedDflt_val (o : Opt) (h : typedDflt o = true) : typedVal o.ty o.dflt = true := by
  unfold typedDflt at h; unfold typedVal
  cases hty : o.ty <;> cases hd : o.dflt <;> simp_all

theorem shaped_typed {ty : Ty} {v : Val} (h : shaped ty v = true) : typedVal ty v = true := by
  cases ty <;> cases v <;> simp_all [shaped, typedVal]

/-- the file stage from an arbitrary current value -/
theorem files_den_from {ty : Ty} {cur : Val} (ht : typedVal ty cur = true) {ms : List Mention} {v : Val}
    (h : ms.foldlM (applyMention ty) cur = .ok v) : denFilesFrom ty cur ms = some v := by
  unfold denFilesFrom
  cases ty with
  | atom t =>
    have := fold_atom t ms cur v h
    cases hl : ms.getLast? with
    | none => simp [this.1 hl]
    | some m => simpa using this.2 m hl
  | list =>
    cases cur with
    | list xs => simp [fold_list ms xs v h]
    | atom a => simp [typedVal] at ht
    | dict kvs => simp [typedVal] at ht
  | dict t l =>
    cases cur with
    | dict kvs =>
      obtain ⟨kvs', hv, hr⟩ := fold_dict t l ms kvs v h
      simp [hr, hv]
    | atom a => simp [typedVal] at ht
    | list xs => simp [typedVal] at ht

theorem denFilesFrom_typed {ty : Ty} {cur v : Val} {ms : List Mention} (h : denFilesFrom ty cur ms = some v) :
    typedVal ty v = true := by
  unfold denFilesFrom at h
  cases ty with
  | atom t => rfl
  | list =>
    cases cur with
    | list xs => simp at h; subst h; rfl
    | atom a => simp at h
    | dict kvs => simp at h
  | dict t l =>
    cases cur with
    | dict kvs =>
      simp only [] at h
      cases hf : ms.foldlM (dictMention t) kvs with
      | none => simp [hf] at h
      | some r => simp [hf] at h; subst h; rfl
    | atom a => simp at h
    | list xs => simp at h

theorem denCli_typed {o : Opt} {cur v : Val} {occs : List Occ} (h : denCli o cur occs = some v) : typedVal o.ty v = true := by
  unfold denCli at h
  cases hty : o.ty with
  | atom t => rfl
  | list =>
    cases cur with
    | list xs => simp [hty] at h; subst h; rfl
    | atom a => simp [hty] at h
    | dict kvs => simp [hty] at h
  | dict t l =>
    cases cur with
    | dict kvs =>
      simp only [hty] at h
      simp only [Functor.map, Option.map_eq_some_iff] at h
      obtain ⟨r, _, rfl⟩ := h
      rfl
    | atom a => simp [hty] at h
    | list xs => simp [hty] at h

/-- assignments give a value of the option's class -/
def assignOk (T : Table) : Step → Prop
  | .assign sec key v => ∀ o ∈ T, o.sec = sec → o.key = key → shaped o.ty v = true
  | _ => True

/-- one step, seen from one option -/
theorem stepHist_refines {T : Table} (hwf : WF T = true) (hwc : WFcli T = true) {i : Nat} {o : Opt} (hi : T[i]? = some o)
    {st st' : St} (ht : typedVal o.ty (st i) = true) (s : Step) (hs : assignOk T s)
    (h : stepHist false T st s = .ok st') : denStep T i o (st i) s = some (st' i) := by
  simp only [WF, Bool.and_eq_true] at hwf
  obtain ⟨hd, _⟩ := hwf
  cases s with
  | read f =>
    simp only [stepHist] at h
    have h1 := file_refines hd hi f st st' h
    rw [optFold_mentions] at h1
    have hfl : flat [f] = f.flatMap secItems := by simp [flat]; rfl
    simp only [denStep, mentions, hfl]
    exact files_den_from ht h1
  | cli argv =>
    simp only [stepHist, bind, Except.bind] at h
    cases hp : parseArgs T argv with
    | error e => simp [hp] at h
    | ok u =>
      simp only [hp] at h
      have hu := updateFrom_spec T argv T 0 st st' h i o hi
      simp only [Nat.zero_add] at hu
      rw [updateOptD_eq hwc hi argv hp _ ht] at hu
      exact cli_den ht hu
  | assign sec key v =>
    simp only [stepHist, assign] at h
    cases hf : findIdx T sec key with
    | none => simp [hf] at h
    | some j =>
      simp only [hf, pure, Except.pure, Except.ok.injEq] at h
      subst h
      obtain ⟨hjl, hpj, _⟩ := List.findIdx?_eq_some_iff_getElem.mp hf
      simp only [Bool.and_eq_true, decide_eq_true_eq] at hpj
      by_cases ha : o.sec = sec ∧ o.key = key
      · have := findIdx_of_key hd hi
        rw [ha.1, ha.2, hf] at this
        have hji : j = i := Option.some.inj this
        subst hji
        have hsh := hs o (List.mem_of_getElem? hi) ha.1 ha.2
        simp [denStep, ha.1, ha.2, hsh, set_same]
      · have hne : i ≠ j := by
          intro e; subst e
          have : T[i] = o := by
            have := List.getElem?_eq_getElem hjl; rw [hi] at this; exact (Option.some.inj this).symm
          rw [this] at hpj; exact ha hpj
        have hc : (decide (o.sec = sec) && decide (o.key = key)) = false := by
          simp only [Bool.and_eq_false_iff, decide_eq_false_iff_not]
          by_cases h1 : o.sec = sec
          · right; exact fun h2 => ha ⟨h1, h2⟩
          · left; exact h1
        simp [denStep, hc, set_other _ _ hne]
  | observe =>
    simp only [stepHist, pure, Except.pure, Except.ok.injEq] at h
    subst h; rfl

theorem denStep_typed {T : Table} {i : Nat} {o : Opt} {cur v : Val} (ht : typedVal o.ty cur = true) (s : Step)
    (h : denStep T i o cur s = some v) : typedVal o.ty v = true := by
  cases s with
  | read f => exact denFilesFrom_typed h
  | cli argv => exact denCli_typed h
  | assign sec key w =>
    simp only [denStep] at h
    split at h
    · split at h
      · rename_i hsh; simp only [Option.some.injEq] at h; subst h; exact shaped_typed hsh
      · cases h
    · simp only [Option.some.injEq] at h; subst h; exact ht
  | observe => simp only [denStep, Option.some.injEq] at h; subst h; exact ht

/-- **No stale read-back.**  Every state observed during a history is, for every option, the denotation of the
    steps that precede that observation, applied to the starting values. -/
theorem hist_observed {T : Table} (hwf : WF T = true) (hwc : WFcli T = true) : ∀ (steps : List Step) (st : St),
    (∀ i o, T[i]? = some o → typedVal o.ty (st i) = true) → (∀ s ∈ steps, assignOk T s) →
    ∀ s' ∈ (hist false T steps st).1, ∃ pre post, steps = pre ++ Step.observe :: post ∧
      ∀ i o, T[i]? = some o → pre.foldlM (denStep T i o) (st i) = some (s' i) := by
  intro steps
  induction steps with
  | nil => intro st _ _ s' hs'; simp [hist] at hs'
  | cons s r ih =>
    intro st ht hok s' hs'
    simp only [hist] at hs'
    cases hstep : stepHist false T st s with
    | error e => simp [hstep] at hs'
    | ok st1 =>
      simp only [hstep] at hs'
      have hone : ∀ i o, T[i]? = some o → denStep T i o (st i) s = some (st1 i) :=
        fun i o hi => stepHist_refines hwf hwc hi (ht i o hi) s (hok s List.mem_cons_self) hstep
      have ht1 : ∀ i o, T[i]? = some o → typedVal o.ty (st1 i) = true :=
        fun i o hi => denStep_typed (ht i o hi) s (hone i o hi)
      have hrest : s' ∈ (hist false T r st1).1 → ∃ pre post, s :: r = pre ++ Step.observe :: post ∧
          ∀ i o, T[i]? = some o → pre.foldlM (denStep T i o) (st i) = some (s' i) := by
        intro hm
        obtain ⟨pre, post, hr, hden⟩ := ih st1 ht1 (fun x hx => hok x (List.mem_cons_of_mem _ hx)) s' hm
        refine ⟨s :: pre, post, by rw [hr]; rfl, ?_⟩
        intro i o hi
        simp only [List.foldlM_cons, hone i o hi, bind, Option.bind]
        exact hden i o hi
      cases s with
      | observe =>
        simp only [List.mem_cons] at hs'
        rcases hs' with he | hm
        · have : st1 = st := by
            simp only [stepHist, pure, Except.pure, Except.ok.injEq] at hstep; exact hstep.symm
          rw [he, this]
          exact ⟨[], r, rfl, fun i o _ => rfl⟩
        · exact hrest hm
      | read f => exact hrest hs'
      | cli a => exact hrest hs'
      | assign a b c => exact hrest hs'

def isObserve : Step → Bool | .observe => true | _ => false

/-- a history that raises nothing is observed exactly once per `observe` step -/
theorem hist_count (T : Table) : ∀ (steps : List Step) (st : St), (hist false T steps st).2 = none →
    (hist false T steps st).1.length = (steps.filter isObserve).length := by
  intro steps
  induction steps with
  | nil => intro st _; rfl
  | cons s r ih =>
    intro st h
    simp only [hist] at h ⊢
    cases hstep : stepHist false T st s with
    | error e => simp [hstep] at h
    | ok st1 =>
      simp only [hstep] at h ⊢
      have := ih st1 h
      cases s <;> simp [isObserve, this, List.filter_cons]

end PlasVerif.Proofs.ConfigHist
