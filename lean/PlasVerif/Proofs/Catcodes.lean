import PlasVerif.Model.Catcodes
/-! Helper lemmas about the category table model (C01, reused by C04 and C11). -/
namespace PlasVerif.Proofs.Catcodes
open PlasVerif.Model.Catcodes PlasVerif.Generated.Catcodes

/-- 16 classes, pairwise disjoint (decidable for a concrete table) -/
def Partition (t : CatTable) : Prop :=
  t.length = 16 ∧ ∀ i, i < 16 → ∀ j, j < 16 → i ≠ j → ∀ c ∈ cls t i, c ∉ cls t j

/-- executable check of `Partition` for a concrete table -/
def partitionB (t : CatTable) : Bool :=
  t.length == 16 && (List.range 16).all fun i => (List.range 16).all fun j =>
    i == j || (cls t i).all fun c => !(cls t j).contains c

theorem partitionB_sound {t : CatTable} (h : partitionB t = true) : Partition t := by
  simp only [partitionB, Bool.and_eq_true, beq_iff_eq, List.all_eq_true, List.mem_range, Bool.or_eq_true,
    Bool.not_eq_true', List.contains_eq_mem, decide_eq_false_iff_not] at h
  refine ⟨h.1, ?_⟩
  intro i hi j hj hij c hc
  rcases h.2 i hi j hj with h' | h'
  · exact absurd h' hij
  · exact h' c hc

/-- tables reachable by `\catcode` assignments from the default or the verbatim table -/
inductive Reachable : CatTable → Prop
  | default : Reachable defaultCats
  | verbatim : Reachable verbatimCats
  | set (t : CatTable) (c k : Nat) : Reachable t → k < 16 → Reachable (setCat t c k)

theorem mem_cls_setCat (t : CatTable) (c k i d : Nat) :
    d ∈ cls (setCat t c k) i ↔ (d ≠ c ∧ d ∈ cls t i) ∨ (d = c ∧ i = k ∧ k ≠ 12 ∧ k < t.length) := by
  unfold setCat cls
  by_cases hk : k = 12
  · simp [hk, List.getD_eq_getElem?_getD, List.getElem?_map]
    cases h : t[i]? <;> simp
    exact And.comm
  · simp [hk, List.getD_eq_getElem?_getD, List.getElem?_map, List.getElem?_modify]
    cases h : t[i]? with
    | none =>
      simp
      intro _ hik
      have := List.getElem?_eq_none_iff.mp h
      omega
    | some v =>
      have hi : i < t.length := by
        have := List.getElem?_eq_some_iff.mp h
        exact this.1
      simp
      by_cases hki : k = i
      · subst hki; simp; by_cases hd : d = c <;> simp [hd, hi]
      · simp [hki]; constructor
        · rintro ⟨a, b⟩; exact Or.inl ⟨b, a⟩
        · rintro (⟨a, b⟩ | ⟨a, b, _⟩)
          · exact ⟨b, a⟩
          · exact absurd b.symm hki

theorem length_setCat (t : CatTable) (c k : Nat) : (setCat t c k).length = t.length := by
  unfold setCat; split <;> simp

theorem cls_out_of_range (t : CatTable) (i : Nat) (h : t.length ≤ i) : cls t i = [] := by
  unfold cls; simp [List.getD_eq_getElem?_getD, List.getElem?_eq_none_iff.mpr h]

/-- in a partition table a character lies in at most one class (any indices) -/
theorem Partition.unique {t : CatTable} (hp : Partition t) {i j c : Nat}
    (hi : c ∈ cls t i) (hj : c ∈ cls t j) : i = j := by
  by_cases h : i = j
  · exact h
  · have li : i < 16 := by
      by_cases h' : i < 16
      · exact h'
      · rw [cls_out_of_range t i (by have := hp.1; omega)] at hi; simp at hi
    have lj : j < 16 := by
      by_cases h' : j < 16
      · exact h'
      · rw [cls_out_of_range t j (by have := hp.1; omega)] at hj; simp at hj
    exact absurd hj (hp.2 i li j lj h c hi)

theorem partition_setCat {t : CatTable} (hp : Partition t) (c k : Nat) : Partition (setCat t c k) := by
  refine ⟨by rw [length_setCat]; exact hp.1, ?_⟩
  intro i _ j _ hij d hdi hdj
  rw [mem_cls_setCat] at hdi hdj
  rcases hdi with ⟨hne, hi⟩ | ⟨he, hik, _, _⟩
  · rcases hdj with ⟨_, hj⟩ | ⟨he', _, _, _⟩
    · exact hij (hp.unique hi hj)
    · exact hne he'
  · rcases hdj with ⟨hne, _⟩ | ⟨_, hjk, _, _⟩
    · exact hne he
    · exact hij (hik.trans hjk.symm)

theorem partition_default : Partition defaultCats := partitionB_sound (by decide +kernel)
theorem partition_verbatim : Partition verbatimCats := partitionB_sound (by decide +kernel)

theorem partition_reachable {t : CatTable} (h : Reachable t) : Partition t := by
  induction h with
  | default => exact partition_default
  | verbatim => exact partition_verbatim
  | set t c k _ _ ih => exact partition_setCat ih c k

/-- a character listed in class `i` of the lookup order is found as `i` -/
theorem whichCodeIn_mem {t : CatTable} (hp : Partition t) {c i : Nat} (hc : c ∈ cls t i) :
    ∀ (o : List Nat), i ∈ o → whichCodeIn t c o = i := by
  intro o
  induction o with
  | nil => simp
  | cons j o ih =>
    intro hi
    unfold whichCodeIn
    by_cases hj : c ∈ cls t j
    · simp [hj]; exact hp.unique hj hc
    · simp [hj]
      rcases List.mem_cons.mp hi with h | h
      · subst h; exact absurd hc hj
      · exact ih h

theorem whichCodeIn_none {t : CatTable} {c : Nat} :
    ∀ (o : List Nat), (∀ i ∈ o, c ∉ cls t i) → whichCodeIn t c o = 12 := by
  intro o
  induction o with
  | nil => intro _; rfl
  | cons j o ih =>
    intro h
    unfold whichCodeIn
    simp [h j (List.mem_cons_self)]
    exact ih (fun i hi => h i (List.mem_cons_of_mem _ hi))

theorem whichCodeIn_cases (t : CatTable) (c : Nat) (o : List Nat) :
    (whichCodeIn t c o ∈ o ∧ c ∈ cls t (whichCodeIn t c o)) ∨ (whichCodeIn t c o = 12 ∧ ∀ i ∈ o, c ∉ cls t i) := by
  induction o with
  | nil => right; simp [whichCodeIn]
  | cons j o ih =>
    unfold whichCodeIn
    by_cases hj : c ∈ cls t j
    · left; simp [hj]
    · simp only [hj, if_false]
      rcases ih with ⟨a, b⟩ | ⟨a, b⟩
      · left; exact ⟨List.mem_cons_of_mem _ a, b⟩
      · right; refine ⟨a, ?_⟩
        intro i hi
        rcases List.mem_cons.mp hi with h | h
        · subst h; exact hj
        · exact b i h

theorem order_complete : ∀ k, k < 16 → k ≠ 12 → k ∈ lookupOrder := by decide +kernel
theorem order_no12 : 12 ∉ lookupOrder := by decide +kernel

theorem whichCodeIn_congr (t t' : CatTable) (d : Nat) (h : ∀ i, d ∈ cls t' i ↔ d ∈ cls t i) :
    ∀ o, whichCodeIn t' d o = whichCodeIn t d o := by
  intro o
  induction o with
  | nil => rfl
  | cons j o ih => unfold whichCodeIn; simp [h j, ih]

end PlasVerif.Proofs.Catcodes
