import PlasVerif.Spec.LabelStore
/-!
Helper lemmas for C20: Python-dict association lists, the two update loops, `Macro.persist`
followed by `Macro.restore`.
-/
namespace PlasVerif.Proofs.Persist
open PlasVerif.Model.Persist PlasVerif.Generated.Persist PlasVerif.Spec.LabelStore

set_option linter.unusedSectionVars false
section alist
variable {κ α : Type} [DecidableEq κ]

@[simp] theorem keys_nil : keys ([] : List (κ × α)) = [] := rfl
@[simp] theorem keys_cons (k : κ) (v : α) (l : List (κ × α)) : keys ((k, v) :: l) = k :: keys l := rfl
@[simp] theorem keys_append (l l' : List (κ × α)) : keys (l ++ l') = keys l ++ keys l' := by simp [keys]

@[simp] theorem aget_aset_self (k : κ) (v : α) (l : List (κ × α)) : aget k (aset k v l) = some v := by
  induction l with
  | nil => simp [aset, aget]
  | cons h t ih => grind [aset, aget]

theorem aget_aset_ne {k k' : κ} (h : k' ≠ k) (v : α) (l : List (κ × α)) :
    aget k' (aset k v l) = aget k' l := by
  induction l with
  | nil => grind [aset, aget]
  | cons hd t ih => grind [aset, aget]

theorem aget_isSome_iff (k : κ) (l : List (κ × α)) : (aget k l).isSome ↔ k ∈ keys l := by
  induction l with
  | nil => simp [aget]
  | cons hd t ih => obtain ⟨k', v'⟩ := hd; grind [aget, keys_cons]

theorem aget_none_iff (k : κ) (l : List (κ × α)) : aget k l = none ↔ k ∉ keys l := by
  rw [← aget_isSome_iff]; cases aget k l <;> simp

theorem aset_fresh {k : κ} {l : List (κ × α)} (h : k ∉ keys l) (v : α) : aset k v l = l ++ [(k, v)] := by
  induction l with
  | nil => simp [aset]
  | cons hd t ih => obtain ⟨k', v'⟩ := hd; grind [aset, keys_cons]

theorem keys_aset_mem {k : κ} {l : List (κ × α)} (h : k ∈ keys l) (v : α) : keys (aset k v l) = keys l := by
  induction l with
  | nil => simp at h
  | cons hd t ih => obtain ⟨k', v'⟩ := hd; grind [aset, keys_cons]

theorem mem_keys_aset (k k' : κ) (v : α) (l : List (κ × α)) :
    k' ∈ keys (aset k v l) ↔ k' = k ∨ k' ∈ keys l := by
  by_cases h : k ∈ keys l
  · rw [keys_aset_mem h]; grind
  · rw [aset_fresh h]; simp; grind

theorem nodup_keys_aset {l : List (κ × α)} (h : (keys l).Nodup) (k : κ) (v : α) : (keys (aset k v l)).Nodup := by
  by_cases hk : k ∈ keys l
  · rw [keys_aset_mem hk]; exact h
  · rw [aset_fresh hk]; simp [List.nodup_append]; grind

theorem foldl_aset_nodup (kvs : List (κ × α)) (acc : List (κ × α)) (h : (keys acc).Nodup) :
    (keys (kvs.foldl (fun d kv => aset kv.1 kv.2 d) acc)).Nodup := by
  induction kvs generalizing acc with
  | nil => simpa
  | cons hd t ih => simp only [List.foldl_cons]; exact ih _ (nodup_keys_aset h _ _)

theorem toDict_nodup (kvs : List (κ × α)) : (keys (toDict kvs)).Nodup :=
  foldl_aset_nodup kvs [] (by simp)

theorem foldl_aset_fresh (l acc : List (κ × α)) (h : (keys (acc ++ l)).Nodup) :
    l.foldl (fun d kv => aset kv.1 kv.2 d) acc = acc ++ l := by
  induction l generalizing acc with
  | nil => simp
  | cons hd t ih =>
    obtain ⟨k, v⟩ := hd
    simp only [List.foldl_cons]
    have hk : k ∉ keys acc := by
      simp [List.nodup_append] at h; grind
    rw [aset_fresh hk, ih]
    · simp
    · simpa using h

theorem aget_of_mem_nodup {l : List (κ × α)} (h : (keys l).Nodup) {k : κ} {v : α} (hm : (k, v) ∈ l) :
    aget k l = some v := by
  induction l with
  | nil => simp at hm
  | cons hd t ih =>
    obtain ⟨k1, v1⟩ := hd
    simp only [keys_cons, List.nodup_cons] at h
    rcases List.mem_cons.1 hm with e | e
    · cases e; simp [aget]
    · have : k1 ≠ k := by
        intro e'; subst e'; exact h.1 (List.mem_map.2 ⟨(_, v), e, rfl⟩)
      simp [aget, this]; exact ih h.2 e

theorem nodup_map_inj {β γ : Type} (f : β → γ) (l : List β) (h : (l.map f).Nodup) {a b : β}
    (ha : a ∈ l) (hb : b ∈ l) (e : f a = f b) : a = b := by
  induction l with
  | nil => simp at ha
  | cons hd t ih =>
    simp only [List.map_cons, List.nodup_cons, List.mem_map, not_exists, not_and] at h
    rcases List.mem_cons.1 ha with ha1 | ha1 <;> rcases List.mem_cons.1 hb with hb1 | hb1
    · rw [ha1, hb1]
    · rw [ha1] at e; exact absurd e.symm (h.1 b hb1)
    · rw [hb1] at e; exact absurd e (h.1 a ha1)
    · exact ih h.2 ha1 hb1

theorem toDict_eq_self {l : List (κ × α)} (h : (keys l).Nodup) : toDict l = l := by
  have := foldl_aset_fresh l [] (by simpa using h)
  simpa [toDict] using this

end alist

/-! ### `Context.persist`: the update loop -/

theorem persistLoop_frame (k' : Key) (src : Src) (data : List (Key × Val))
    (h : ∀ kn ∈ src, Key.str kn.1 ≠ k') : aget k' (persistLoop src data) = aget k' data := by
  induction src generalizing data with
  | nil => rfl
  | cons hd t ih =>
    obtain ⟨k, n⟩ := hd
    simp only [persistLoop]
    rw [ih _ (fun kn hkn => h kn (List.mem_cons_of_mem _ hkn))]
    exact aget_aset_ne (fun e => h (k, n) (List.mem_cons_self) e.symm) _ _

theorem persistLoop_get (src : Src) (data : List (Key × Val)) (hnd : (keys src).Nodup)
    (k : String) (n : SrcNode) (hmem : (k, n) ∈ src) :
    aget (.str k) (persistLoop src data) = some (.dict (macroPersist n)) := by
  induction src generalizing data with
  | nil => simp at hmem
  | cons hd t ih =>
    obtain ⟨k1, n1⟩ := hd
    simp only [persistLoop]
    simp only [keys_cons, List.nodup_cons] at hnd
    rcases List.mem_cons.1 hmem with h | h
    · cases h
      rw [persistLoop_frame]
      · simp
      · intro kn hkn e
        apply hnd.1
        have : kn.1 = k := by cases e; rfl
        rw [← this]; exact List.mem_map.2 ⟨kn, hkn, rfl⟩
    · exact ih _ hnd.2 h

theorem persistLoop_nodup (src : Src) (data : List (Key × Val)) (h : (keys data).Nodup) :
    (keys (persistLoop src data)).Nodup := by
  induction src generalizing data with
  | nil => exact h
  | cons hd t ih => obtain ⟨k, n⟩ := hd; exact ih _ (nodup_keys_aset h _ _)

/-- saving into an empty section writes exactly the labels, in order -/
theorem persistLoop_fresh (src : Src) (acc : List (Key × Val))
    (h : (keys acc ++ src.map (fun kn => Key.str kn.1)).Nodup) :
    persistLoop src acc = acc ++ src.map (fun kn => (Key.str kn.1, Val.dict (macroPersist kn.2))) := by
  induction src generalizing acc with
  | nil => simp [persistLoop]
  | cons hd t ih =>
    obtain ⟨k, n⟩ := hd
    simp only [persistLoop]
    have hk : Key.str k ∉ keys acc := by
      simp [List.nodup_append] at h; grind
    rw [aset_fresh hk, ih]
    · simp
    · simpa using h

/-! ### `Context.restore`: the loop -/

theorem restoreLoop_frame (k : Key) (es : List (Key × Val)) (L : Labels) (h : k ∉ keys es) :
    aget k (restoreLoop es L) = aget k L := by
  induction es generalizing L with
  | nil => rfl
  | cons hd t ih =>
    obtain ⟨k1, v1⟩ := hd
    simp only [keys_cons, List.mem_cons, not_or] at h
    simp only [restoreLoop]
    split
    · rw [ih _ h.2]; exact aget_aset_ne h.1 _ _
    · exact ih _ h.2

theorem restoreLoop_get (es : List (Key × Val)) (L : Labels) (hnd : (keys es).Nodup)
    (k : Key) (v : Val) (n : Node) (hget : aget k es = some v) (hok : restoreEntry v = .ok n) :
    aget k (restoreLoop es L) = some n := by
  induction es generalizing L with
  | nil => simp [aget] at hget
  | cons hd t ih =>
    obtain ⟨k1, v1⟩ := hd
    simp only [keys_cons, List.nodup_cons] at hnd
    simp only [restoreLoop]
    by_cases hk : k1 = k
    · subst hk
      simp [aget] at hget; subst hget
      rw [hok]; simp only
      rw [restoreLoop_frame _ _ _ hnd.1]; simp
    · simp [aget, hk] at hget
      split
      · exact ih _ hnd.2 hget
      · exact ih _ hnd.2 hget

/-- labels already present never disappear -/
theorem restoreLoop_mono (es : List (Key × Val)) (L : Labels) (k : Key) (h : k ∈ keys L) :
    k ∈ keys (restoreLoop es L) := by
  induction es generalizing L with
  | nil => exact h
  | cons hd t ih =>
    obtain ⟨k1, v1⟩ := hd
    simp only [restoreLoop]
    split
    · exact ih _ ((mem_keys_aset _ _ _ _).2 (Or.inr h))
    · exact ih _ h

/-- every label present afterwards was there before or comes from an entry of the file -/
theorem restoreLoop_origin (es : List (Key × Val)) (L : Labels) (k : Key) (n : Node)
    (h : aget k (restoreLoop es L) = some n) :
    aget k L = some n ∨ ∃ v, (k, v) ∈ es ∧ restoreEntry v = .ok n := by
  induction es generalizing L with
  | nil => exact Or.inl h
  | cons hd t ih =>
    obtain ⟨k1, v1⟩ := hd
    simp only [restoreLoop] at h
    split at h
    · next n1 hn1 =>
      rcases ih _ h with h' | ⟨v, hv, hr⟩
      · by_cases hk : k = k1
        · subst hk; simp at h'; subst h'
          exact Or.inr ⟨v1, List.mem_cons_self, hn1⟩
        · rw [aget_aset_ne hk] at h'; exact Or.inl h'
      · exact Or.inr ⟨v, List.mem_cons_of_mem _ hv, hr⟩
    · rcases ih _ h with h' | ⟨v, hv, hr⟩
      · exact Or.inl h'
      · exact Or.inr ⟨v, List.mem_cons_of_mem _ hv, hr⟩

/-- when every entry restores, the restored key list is the old one followed by the file's -/
theorem restoreLoop_keys (es : List (Key × Val)) (L : Labels)
    (hnd : (keys L ++ keys es).Nodup) (hok : ∀ kv ∈ es, ∃ n, restoreEntry kv.2 = .ok n) :
    keys (restoreLoop es L) = keys L ++ keys es := by
  induction es generalizing L with
  | nil => simp [restoreLoop]
  | cons hd t ih =>
    obtain ⟨k1, v1⟩ := hd
    obtain ⟨n, hn⟩ := hok (k1, v1) List.mem_cons_self
    simp only [restoreLoop]
    simp only at hn
    rw [hn]; simp only
    have hk : k1 ∉ keys L := by
      simp [List.nodup_append] at hnd; grind
    rw [ih]
    · rw [aset_fresh hk]; simp
    · rw [aset_fresh hk]; simpa using hnd
    · exact fun kv hkv => hok kv (List.mem_cons_of_mem _ hkv)


/-! ### `Macro.persist` then `Macro.restore` -/

/-- the pairs `Macro.persist` stores, attribute by attribute -/
def persistPairs (n : SrcNode) : List String → List (Key × Val)
  | [] => []
  | name :: r =>
    match persistVal (getattrSrc n name) with
    | none => persistPairs n r
    | some v => (.str name, v) :: persistPairs n r

theorem mem_keys_persistPairs (n : SrcNode) (names : List String) (k : Key)
    (h : k ∈ keys (persistPairs n names)) : ∃ name ∈ names, k = .str name := by
  induction names with
  | nil => simp [persistPairs] at h
  | cons a r ih =>
    simp only [persistPairs] at h
    split at h
    · obtain ⟨nm, h1, h2⟩ := ih h; exact ⟨nm, List.mem_cons_of_mem _ h1, h2⟩
    · simp only [keys_cons, List.mem_cons] at h
      rcases h with h | h
      · exact ⟨a, List.mem_cons_self, h⟩
      · obtain ⟨nm, h1, h2⟩ := ih h; exact ⟨nm, List.mem_cons_of_mem _ h1, h2⟩

theorem macroPersist_foldl (n : SrcNode) (names : List String) (acc : List (Key × Val))
    (hnd : names.Nodup) (hfresh : ∀ name ∈ names, Key.str name ∉ keys acc) :
    names.foldl (persistStep n) acc = acc ++ persistPairs n names := by
  induction names generalizing acc with
  | nil => simp [persistPairs]
  | cons a r ih =>
    simp only [List.foldl_cons, persistPairs, persistStep]
    simp only [List.nodup_cons] at hnd
    cases hv : persistVal (getattrSrc n a) with
    | none => simp only; exact ih _ hnd.2 (fun nm h => hfresh nm (List.mem_cons_of_mem _ h))
    | some v =>
      simp only
      rw [aset_fresh (hfresh a List.mem_cons_self), ih _ hnd.2]
      · simp
      · intro nm h
        simp only [keys_append, keys_cons, keys_nil, List.mem_append, List.mem_singleton, not_or]
        refine ⟨hfresh nm (List.mem_cons_of_mem _ h), ?_⟩
        intro e; cases e; exact hnd.1 h

theorem macroPersist_eq (n : SrcNode) (hnd : refAttributes.Nodup) :
    macroPersist n = persistPairs n refAttributes := by
  have := macroPersist_foldl n refAttributes [] hnd (by simp)
  simpa [macroPersist] using this

theorem persistPairs_nodup (n : SrcNode) (names : List String) (hnd : names.Nodup) :
    (keys (persistPairs n names)).Nodup := by
  induction names with
  | nil => simp [persistPairs]
  | cons a r ih =>
    simp only [List.nodup_cons] at hnd
    simp only [persistPairs]
    split
    · exact ih hnd.2
    · simp only [keys_cons, List.nodup_cons]
      refine ⟨?_, ih hnd.2⟩
      intro h
      obtain ⟨nm, h1, h2⟩ := mem_keys_persistPairs _ _ _ h
      cases h2; exact hnd.1 h1

theorem aget_persistPairs (n : SrcNode) (names : List String) (name : String) :
    aget (.str name) (persistPairs n names) = if name ∈ names then persistVal (getattrSrc n name) else none := by
  induction names with
  | nil => simp [persistPairs, aget]
  | cons a r ih =>
    simp only [persistPairs]
    by_cases ha : a = name
    · subst ha
      cases hv : persistVal (getattrSrc n a) with
      | none => simp only [ih]; simp [hv]
      | some v => simp [aget]
    · cases hv : persistVal (getattrSrc n a) with
      | none => simp only [ih]; simp [Ne.symm ha]
      | some v => simp [aget, ha, ih]; grind

theorem mem_persistPairs (n : SrcNode) (names : List String) (name : String) (v : Val)
    (hm : name ∈ names) (hv : persistVal (getattrSrc n name) = some v) :
    (Key.str name, v) ∈ persistPairs n names := by
  induction names with
  | nil => simp at hm
  | cons a r ih =>
    simp only [persistPairs]
    by_cases ha : a = name
    · subst ha; rw [hv]; exact List.mem_cons_self
    · have : name ∈ r := by
        rcases List.mem_cons.1 hm with h | h
        · exact absurd h.symm ha
        · exact h
      split
      · exact ih this
      · exact List.mem_cons_of_mem _ (ih this)

def applyAll : List (Key × Val) → Node → Node
  | [], nd => nd
  | (k, v) :: r, nd => applyAll r (aset (slotOf k) v nd)

/-- an entry whose `setattr` cannot raise -/
def SafeEntry (kv : Key × Val) : Prop :=
  remapKey kv.1 ∉ readOnlyAttrs ∧ ((aget (remapKey kv.1) deleteOnFalsy).isSome → kv.2.truthy = true)

theorem macroRestore_safe (es : List (Key × Val)) (nd : Node) (h : ∀ kv ∈ es, SafeEntry kv) :
    macroRestore es nd = .ok (applyAll es nd) := by
  induction es generalizing nd with
  | nil => rfl
  | cons hd t ih =>
    obtain ⟨k, v⟩ := hd
    obtain ⟨h1, h2⟩ := h (k, v) List.mem_cons_self
    simp only at h1 h2
    have hs : setAttr nd (remapKey k) v = .ok (aset (slotOf k) v nd) := by
      unfold setAttr slotOf
      rw [if_neg h1]
      cases hd : aget (remapKey k) deleteOnFalsy with
      | none => rfl
      | some s => simp only; rw [if_pos (h2 (by simp [hd]))]
    simp only [macroRestore, hs, applyAll]
    exact ih _ (fun kv hkv => h kv (List.mem_cons_of_mem _ hkv))

theorem applyAll_frame (es : List (Key × Val)) (nd : Node) (s : String)
    (h : ∀ kv ∈ es, slotOf kv.1 ≠ s) : aget s (applyAll es nd) = aget s nd := by
  induction es generalizing nd with
  | nil => rfl
  | cons hd t ih =>
    obtain ⟨k, v⟩ := hd
    simp only [applyAll]
    rw [ih _ (fun kv hkv => h kv (List.mem_cons_of_mem _ hkv))]
    exact aget_aset_ne (fun e => h (k, v) List.mem_cons_self e.symm) _ _

theorem applyAll_get (es : List (Key × Val)) (nd : Node) (hnd : (es.map (fun kv => slotOf kv.1)).Nodup)
    (k : Key) (v : Val) (hm : (k, v) ∈ es) : aget (slotOf k) (applyAll es nd) = some v := by
  induction es generalizing nd with
  | nil => simp at hm
  | cons hd t ih =>
    obtain ⟨k1, v1⟩ := hd
    simp only [List.map_cons, List.nodup_cons] at hnd
    simp only [applyAll]
    rcases List.mem_cons.1 hm with h | h
    · cases h
      rw [applyAll_frame]
      · simp
      · intro kv hkv e
        exact hnd.1 (List.mem_map.2 ⟨kv, hkv, e⟩)
    · exact ih _ hnd.2 h

theorem slots_persistPairs_sublist (n : SrcNode) (names : List String) :
    List.Sublist ((persistPairs n names).map (fun kv => slotOf kv.1)) (names.map (fun nm => slotOf (.str nm))) := by
  induction names with
  | nil => simp [persistPairs]
  | cons a r ih =>
    simp only [persistPairs]
    split
    · exact List.Sublist.cons _ ih
    · simp only [List.map_cons]; exact List.Sublist.cons_cons _ ih

/-- `SrcOk` unfolded -/
def SrcOk' (n : SrcNode) : Prop :=
  (∀ name ∈ refAttributes, (aget (remapKey (.str name)) deleteOnFalsy).isSome →
      ∀ v, persistVal (getattrSrc n name) = some v → v.truthy = true) ∧
  (∀ v, persistVal (getattrSrc n "macroName") = some v → ∃ s, v = .str s)

theorem srcOk_unfold (n : SrcNode) (h : SrcOk n) : SrcOk' n := by
  unfold SrcOk srcOkB at h
  simp only [Bool.and_eq_true, List.all_eq_true, Bool.or_eq_true, Bool.not_eq_true'] at h
  constructor
  · intro name hname hdel v hv
    rcases h.1 name hname with h1 | h1
    · rw [h1] at hdel; simp at hdel
    · rw [hv] at h1; exact h1
  · intro v hv
    have h2 := h.2
    rw [hv] at h2
    cases v <;> simp at h2
    exact ⟨_, rfl⟩

/-- facts about the regenerated tables that the round trip needs (checked by `decide` in `Properties/C20.lean`) -/
structure TablesOk : Prop where
  nodup : refAttributes.Nodup
  slots : (refAttributes.map (fun nm => slotOf (.str nm))).Nodup
  writable : ∀ name ∈ refAttributes, remapKey (.str name) ∉ readOnlyAttrs

theorem restoreEntry_macroPersist (T : TablesOk) (n : SrcNode) (hok0 : SrcOk n) :
    restoreEntry (.dict (macroPersist n)) = .ok (applyAll (persistPairs n refAttributes) []) := by
  have hok := srcOk_unfold n hok0
  rw [macroPersist_eq n T.nodup]
  unfold restoreEntry
  simp only
  rw [toDict_eq_self (persistPairs_nodup n _ T.nodup)]
  have hcls : ∃ s, lookupClass ((aget (.str "macroName") (persistPairs n refAttributes)).getD (.str "Macro")) = .ok s := by
    rw [aget_persistPairs]
    split
    · cases hv : persistVal (getattrSrc n "macroName") with
      | none => exact ⟨"Macro", rfl⟩
      | some v => obtain ⟨s, rfl⟩ := hok.2 v hv; exact ⟨s, rfl⟩
    · exact ⟨"Macro", rfl⟩
  obtain ⟨s, hs⟩ := hcls
  rw [hs]; simp only
  apply macroRestore_safe
  intro kv hkv
  obtain ⟨k, v⟩ := kv
  have hk : k ∈ keys (persistPairs n refAttributes) := List.mem_map.2 ⟨(k, v), hkv, rfl⟩
  obtain ⟨name, hname, rfl⟩ := mem_keys_persistPairs _ _ _ hk
  refine ⟨T.writable name hname, ?_⟩
  intro hdel
  have hnd := persistPairs_nodup n _ T.nodup
  have hget : aget (Key.str name) (persistPairs n refAttributes) = some v := aget_of_mem_nodup hnd hkv
  rw [aget_persistPairs, if_pos hname] at hget
  exact hok.1 name hname hdel v hget

/-- every persisted attribute is found on the restored node under its slot -/
theorem restored_attr (T : TablesOk) (n : SrcNode) (name : String) (hname : name ∈ refAttributes) (v : Val)
    (hv : persistVal (getattrSrc n name) = some v) :
    aget (slotOf (.str name)) (applyAll (persistPairs n refAttributes) []) = some v :=
  applyAll_get _ _ (List.Nodup.sublist (slots_persistPairs_sublist n _) T.slots) _ _
    (mem_persistPairs n _ name v hname hv)

/-- an attribute that was `None` at the end of the run is absent on the restored node -/
theorem restored_absent (T : TablesOk) (n : SrcNode) (name : String) (hname : name ∈ refAttributes)
    (hv : persistVal (getattrSrc n name) = none) :
    aget (slotOf (.str name)) (applyAll (persistPairs n refAttributes) []) = none := by
  rw [applyAll_frame]
  · rfl
  · intro kv hkv e
    obtain ⟨k, v⟩ := kv
    have hk : k ∈ keys (persistPairs n refAttributes) := List.mem_map.2 ⟨(k, v), hkv, rfl⟩
    obtain ⟨nm, hnm, rfl⟩ := mem_keys_persistPairs _ _ _ hk
    have hinj : nm = name := nodup_map_inj (fun nm => slotOf (.str nm)) _ T.slots hnm hname e
    subst hinj
    have hm : (aget (Key.str nm) (persistPairs n refAttributes)).isSome := (aget_isSome_iff _ _).2 hk
    rw [aget_persistPairs, if_pos hname, hv] at hm
    simp at hm


/-! ### file level -/

variable {β : Type}

/-- the renderer section `restore` reads from a file (`none`: nothing readable) -/
def oldSection (c : Codec β) (r : String) : File β → Option Val
  | .missing => none
  | .bytes b =>
    match c.dec b with
    | some (.dict kvs) => aget (.str r) (toDict kvs)
    | _ => none

/-- what `restore` does with a section -/
def restoreFrom (sec : Option Val) (L : Labels) : Labels :=
  match sec with
  | some (.dict data) => restoreLoop (toDict data) L
  | _ => L

theorem restore_eq (c : Codec β) (r : String) (f : File β) (L : Labels) :
    restore c r f L = .ok (restoreFrom (oldSection c r f) L) := by
  cases f with
  | missing => rfl
  | bytes b =>
    simp only [restore, restoreWith, restoreBody, oldSection]
    cases hd : c.dec b with
    | none => rfl
    | some v =>
      cases v with
      | dict kvs =>
        simp only
        cases hs : aget (Key.str r) (toDict kvs) with
        | none => rfl
        | some sec => cases sec <;> rfl
      | _ => rfl

/-- the entries of the renderer section `persist` starts from -/
def oldData (c : Codec β) (r : String) (f : File β) : List (Key × Val) :=
  match aget (.str r) (loadOld c r f) with
  | some (.dict data) => data
  | _ => []

theorem loadOld_spec (c : Codec β) (r : String) (f : File β) :
    (keys (loadOld c r f)).Nodup ∧ aget (.str r) (loadOld c r f) = some (.dict (oldData c r f)) := by
  unfold oldData
  cases f with
  | missing => simp [loadOld, freshDict, aget]
  | bytes b =>
    simp only [loadOld]
    cases hd : c.dec b with
    | none => simp [freshDict, aget]
    | some v =>
      cases v with
      | dict kvs =>
        simp only
        cases hs : aget (Key.str r) (toDict kvs) with
        | none => simp only; exact ⟨nodup_keys_aset (toDict_nodup _) _ _, by simp⟩
        | some sec =>
          cases sec with
          | dict data => simp only [hs]; exact ⟨toDict_nodup _, trivial⟩
          | _ => simp only; exact ⟨nodup_keys_aset (toDict_nodup _) _ _, by simp⟩
      | _ => simp [freshDict, aget]

/-- the dictionary `persist` dumps -/
def newDict (c : Codec β) (r : String) (src : Src) (f : File β) : List (Key × Val) :=
  aset (.str r) (.dict (persistLoop src (toDict (oldData c r f)))) (loadOld c r f)

theorem persist_eq (c : Codec β) (r : String) (src : Src) (f : File β) :
    persist c r src f = .ok (.bytes (c.enc (.dict (newDict c r src f)))) := by
  unfold persist persistTail
  rw [(loadOld_spec c r f).2]
  rfl

theorem newDict_nodup (c : Codec β) (r : String) (src : Src) (f : File β) : (keys (newDict c r src f)).Nodup :=
  nodup_keys_aset (loadOld_spec c r f).1 _ _

theorem newDict_self (c : Codec β) (r : String) (src : Src) (f : File β) :
    aget (.str r) (newDict c r src f) = some (.dict (persistLoop src (toDict (oldData c r f)))) := by
  simp [newDict]

theorem loadOld_other (c : Codec β) (r r2 : String) (f : File β) (h : r2 ≠ r) :
    aget (.str r2) (loadOld c r f) = oldSection c r2 f := by
  have hk : Key.str r2 ≠ Key.str r := fun e => h (by cases e; rfl)
  cases f with
  | missing => simp [loadOld, freshDict, aget, oldSection, Ne.symm hk]
  | bytes b =>
    simp only [loadOld, oldSection]
    cases hd : c.dec b with
    | none => simp [freshDict, aget, Ne.symm hk]
    | some v =>
      cases v with
      | dict kvs =>
        simp only
        cases hs : aget (Key.str r) (toDict kvs) with
        | none => simp only; exact aget_aset_ne hk _ _
        | some sec =>
          cases sec with
          | dict data => rfl
          | _ => simp only; exact aget_aset_ne hk _ _
      | _ => simp [freshDict, aget, Ne.symm hk]

theorem newDict_other (c : Codec β) (r r2 : String) (src : Src) (f : File β) (h : r2 ≠ r) :
    aget (.str r2) (newDict c r src f) = oldSection c r2 f := by
  have hk : Key.str r2 ≠ Key.str r := fun e => h (by cases e; rfl)
  unfold newDict
  rw [aget_aset_ne hk, loadOld_other c r r2 f h]

theorem oldSection_enc (c : Codec β) (hc : c.Lawful) (r : String) (d : List (Key × Val)) (hd : (keys d).Nodup) :
    oldSection c r (.bytes (c.enc (.dict d))) = aget (.str r) d := by
  simp [oldSection, hc (.dict d), toDict_eq_self hd]

theorem oldData_of_unreadable (c : Codec β) (r : String) (f : File β) (h : oldSection c r f = none) :
    oldData c r f = [] := by
  unfold oldData
  cases f with
  | missing => simp [loadOld, freshDict, aget]
  | bytes b =>
    simp only [oldSection] at h
    simp only [loadOld]
    cases hd : c.dec b with
    | none => simp [freshDict, aget]
    | some v =>
      cases v with
      | dict kvs => rw [hd] at h; simp only at h; simp [h]
      | _ => simp [freshDict, aget]

theorem nodup_map_of_inj {γ δ : Type} (g : γ → δ) (hg : ∀ a b, g a = g b → a = b) (l : List γ) (h : l.Nodup) :
    (l.map g).Nodup := by
  induction l with
  | nil => simp
  | cons a t ih =>
    simp only [List.nodup_cons] at h
    simp only [List.map_cons, List.nodup_cons, List.mem_map, not_exists, not_and]
    exact ⟨fun x hx e => h.1 (hg _ _ e ▸ hx), ih h.2⟩

theorem run_append (c : Codec β) (a b : List (Op β)) (f : File β) :
    run c (a ++ b) f = (match run c a f with | .ok f' => run c b f' | .error e => .error e) := by
  induction a generalizing f with
  | nil => rfl
  | cons op ops ih =>
    simp only [List.cons_append, run]
    cases step c op f with
    | ok f' => exact ih f'
    | error e => rfl

/-! ### nothing is invented by `persist` -/

theorem mem_keys_persistLoop (src : Src) (data : List (Key × Val)) (k : Key)
    (h : k ∈ keys (persistLoop src data)) : k ∈ keys data ∨ ∃ kn ∈ src, k = Key.str kn.1 := by
  induction src generalizing data with
  | nil => exact Or.inl h
  | cons hd t ih =>
    obtain ⟨k1, n1⟩ := hd
    simp only [persistLoop] at h
    rcases ih _ h with h' | ⟨kn, hkn, e⟩
    · rcases (mem_keys_aset _ _ _ _).1 h' with e | h''
      · exact Or.inr ⟨(k1, n1), List.mem_cons_self, e⟩
      · exact Or.inl h''
    · exact Or.inr ⟨kn, List.mem_cons_of_mem _ hkn, e⟩

/-! ### xr -/

theorem append_left_cancel' {p a b : String} (h : p ++ a = p ++ b) : a = b := by
  have h1 := congrArg String.toList h
  simp only [String.toList_append] at h1
  exact String.toList_inj.1 (List.append_cancel_left h1)

theorem xrEntry_key (pfx : String) (url : Option String) (k : Key) (v : Val) (k' : Key) (v' : Val)
    (h : xrEntry pfx url k v = .ok (k', v')) : ∃ l, k = .str l ∧ k' = .str (pfx ++ l) := by
  unfold xrEntry at h
  split at h
  · simp only at h
    split at h
    · cases h
    · split at h
      · cases h; exact ⟨_, rfl, rfl⟩
      · cases h
  · cases h

theorem xrBlock_frame (pfx : String) (url : Option String) (es : List (Key × Val)) (L : XLabels) (l : String)
    (h : Key.str l ∉ keys es) : aget (.str (pfx ++ l)) (xrBlock pfx url es L) = aget (.str (pfx ++ l)) L := by
  induction es generalizing L with
  | nil => rfl
  | cons hd t ih =>
    obtain ⟨k1, v1⟩ := hd
    simp only [keys_cons, List.mem_cons, not_or] at h
    simp only [xrBlock]
    split
    · next k' v' hk =>
      rw [ih _ h.2]
      obtain ⟨l1, rfl, rfl⟩ := xrEntry_key _ _ _ _ _ _ hk
      apply aget_aset_ne
      intro e
      have : pfx ++ l = pfx ++ l1 := Key.str.inj e
      exact h.1 (by rw [append_left_cancel' this])
    · exact ih _ h.2

theorem xrBlock_get (pfx : String) (url : Option String) (es : List (Key × Val)) (L : XLabels)
    (hnd : (keys es).Nodup) (l : String) (v v' : Val) (hget : aget (.str l) es = some v)
    (hok : xrEntry pfx url (.str l) v = .ok (.str (pfx ++ l), v')) :
    aget (.str (pfx ++ l)) (xrBlock pfx url es L) = some v' := by
  induction es generalizing L with
  | nil => simp [aget] at hget
  | cons hd t ih =>
    obtain ⟨k1, v1⟩ := hd
    simp only [keys_cons, List.nodup_cons] at hnd
    simp only [xrBlock]
    by_cases hk : k1 = Key.str l
    · subst hk
      simp [aget] at hget; subst hget
      rw [hok]; simp only
      rw [xrBlock_frame _ _ _ _ _ hnd.1]; simp
    · simp [aget, hk] at hget
      split
      · exact ih _ hnd.2 hget
      · exact ih _ hnd.2 hget

/-- every label xr holds afterwards was there before or is `prefix + l` for an entry `l` of the block -/
theorem xrBlock_origin (pfx : String) (url : Option String) (es : List (Key × Val)) (L : XLabels) (k : Key)
    (h : k ∈ keys (xrBlock pfx url es L)) : k ∈ keys L ∨ ∃ l, Key.str l ∈ keys es ∧ k = .str (pfx ++ l) := by
  induction es generalizing L with
  | nil => exact Or.inl h
  | cons hd t ih =>
    obtain ⟨k1, v1⟩ := hd
    simp only [xrBlock] at h
    split at h
    · next k' v' hk =>
      obtain ⟨l1, rfl, rfl⟩ := xrEntry_key _ _ _ _ _ _ hk
      rcases ih _ h with h' | ⟨l, hl, e⟩
      · rcases (mem_keys_aset _ _ _ _).1 h' with e | h''
        · exact Or.inr ⟨l1, by simp, e⟩
        · exact Or.inl h''
      · exact Or.inr ⟨l, by simp [hl], e⟩
    · rcases ih _ h with h' | ⟨l, hl, e⟩
      · exact Or.inl h'
      · exact Or.inr ⟨l, by simp [hl], e⟩

theorem xrEntry_saved (T : TablesOk) (pfx : String) (k : String) (n : SrcNode) :
    xrEntry pfx none (.str k) (.dict (macroPersist n)) = .ok (.str (pfx ++ k), .dict (macroPersist n)) := by
  unfold xrEntry
  simp only
  have : toDict (macroPersist n) = macroPersist n := by
    rw [macroPersist_eq n T.nodup]; exact toDict_eq_self (persistPairs_nodup n _ T.nodup)
  rw [this]

theorem xrLoadR_persist (c : Codec β) (hc : c.Lawful) (r pfx : String) (url : Option String) (src : Src) (f : File β)
    (L : XLabels) :
    xrLoadR c r pfx url (.bytes (c.enc (.dict (newDict c r src f)))) L =
      xrBlock pfx url (persistLoop src (toDict (oldData c r f))) L := by
  simp only [xrLoadR, hc (.dict _), toDict_eq_self (newDict_nodup c r src f), newDict_self,
    toDict_eq_self (persistLoop_nodup _ _ (toDict_nodup _))]

/-! ### `Compile.parse` -/

/-- the labels after the loop over the files, as a function -/
def parseFold (c : Codec β) (r job : String) : List (String × File β) → Labels → Labels
  | [], L => L
  | (name, f) :: rest, L =>
    if name = job then parseFold c r job rest L else parseFold c r job rest (restoreFrom (oldSection c r f) L)

theorem parseRestores_eq (c : Codec β) (r job : String) (files : List (String × File β)) (L : Labels) :
    parseRestores c r job files L = .ok (parseFold c r job files L) := by
  induction files generalizing L with
  | nil => rfl
  | cons hd t ih =>
    obtain ⟨name, f⟩ := hd
    simp only [parseRestores, parseFold]
    split
    · exact ih L
    · rw [restore_eq]; exact ih _

theorem restoreFrom_mono (sec : Option Val) (L : Labels) (k : Key) (h : k ∈ keys L) : k ∈ keys (restoreFrom sec L) := by
  unfold restoreFrom
  split
  · exact restoreLoop_mono _ _ _ h
  · exact h

theorem parseFold_mono (c : Codec β) (r job : String) (files : List (String × File β)) (L : Labels) (k : Key)
    (h : k ∈ keys L) : k ∈ keys (parseFold c r job files L) := by
  induction files generalizing L with
  | nil => exact h
  | cons hd t ih =>
    obtain ⟨name, f⟩ := hd
    simp only [parseFold]
    split
    · exact ih L h
    · exact ih _ (restoreFrom_mono _ _ _ h)

/-- nothing is invented by the loop: a label present afterwards was known before or is a key of the section of a
    file that is not the job's own -/
theorem parseFold_origin (c : Codec β) (r job : String) (files : List (String × File β)) (L : Labels) (k : Key)
    (h : k ∈ keys (parseFold c r job files L)) :
    k ∈ keys L ∨ ∃ nf ∈ files, nf.1 ≠ job ∧ ∃ data, oldSection c r nf.2 = some (.dict data) ∧ k ∈ keys (toDict data) := by
  induction files generalizing L with
  | nil => exact Or.inl h
  | cons hd t ih =>
    obtain ⟨name, f⟩ := hd
    simp only [parseFold] at h
    split at h
    · rcases ih L h with h' | ⟨nf, hnf, rest⟩
      · exact Or.inl h'
      · exact Or.inr ⟨nf, List.mem_cons_of_mem _ hnf, rest⟩
    · next hne =>
      rcases ih _ h with h' | ⟨nf, hnf, rest⟩
      · unfold restoreFrom at h'
        split at h'
        · next data hsec =>
          obtain ⟨n, hn⟩ := Option.isSome_iff_exists.1 ((aget_isSome_iff k _).2 h')
          rcases restoreLoop_origin _ _ _ _ hn with h0 | ⟨v, hv, _⟩
          · exact Or.inl ((aget_isSome_iff k L).1 (by simp [h0]))
          · exact Or.inr ⟨(name, f), List.mem_cons_self, hne, data, hsec, List.mem_map.2 ⟨(k, v), hv, rfl⟩⟩
        · exact Or.inl h'
      · exact Or.inr ⟨nf, List.mem_cons_of_mem _ hnf, rest⟩

end PlasVerif.Proofs.Persist
