import PlasVerif.Proofs.Urls
/-! Helper lemmas for C14: navigation (`SectionUtils.links`: next / prev over the file-producing sections). -/
namespace PlasVerif.Proofs.UrlsNav
open PlasVerif.Model.Urls PlasVerif.Spec.Links PlasVerif.Proofs.Urls

@[simp] theorem allSections_node (anc lv id num file kids) :
    allSections anc (.node lv id num file kids) =
      (.node lv id num file kids, url (.node lv id num file kids) anc) ::
        allSectionsList (.node lv id num file kids :: anc) kids := by rw [allSections]
@[simp] theorem allSectionsList_nil (anc) : allSectionsList anc [] = [] := by rw [allSectionsList]
@[simp] theorem allSectionsList_cons (anc k ks) :
    allSectionsList anc (k :: ks) = (if isSub k then allSections anc k else []) ++ allSectionsList anc ks := by
  rw [allSectionsList]

/- every section of `allSections` is a node of the tree with its real URL -/
mutual
theorem allSections_sub (anc : List Tree) : ∀ (t : Tree), ∀ p ∈ allSections anc t, p ∈ urls anc t
  | .node lv id num file kids => by
    intro p hp
    simp only [allSections_node, List.mem_cons] at hp
    rcases hp with rfl | hp
    · simp
    · simp [allSectionsList_sub _ kids p hp]
theorem allSectionsList_sub (anc : List Tree) : ∀ (ks : List Tree), ∀ p ∈ allSectionsList anc ks, p ∈ urlsList anc ks
  | [] => by simp
  | k :: ks => by
    intro p hp
    simp only [allSectionsList_cons, List.mem_append] at hp
    rcases hp with hp | hp
    · split at hp
      · simp [allSections_sub anc k p hp]
      · simp at hp
    · simp [allSectionsList_sub anc ks p hp]
end

/- the URL of a file-producing section is its file, without fragment -/
mutual
theorem allSections_fileurl (anc : List Tree) : ∀ (t : Tree), ∀ p ∈ allSections anc t, ∀ f,
    p.1.file = some f → p.2 = ⟨some f, none⟩
  | .node lv id num file kids => by
    intro p hp f hf
    simp only [allSections_node, List.mem_cons] at hp
    rcases hp with rfl | hp
    · simp only [Tree.file] at hf; subst hf; simp [url, Tree.file]
    · exact allSectionsList_fileurl _ kids p hp f hf
theorem allSectionsList_fileurl (anc : List Tree) : ∀ (ks : List Tree), ∀ p ∈ allSectionsList anc ks, ∀ f,
    p.1.file = some f → p.2 = ⟨some f, none⟩
  | [] => by simp
  | k :: ks => by
    intro p hp f hf
    simp only [allSectionsList_cons, List.mem_append] at hp
    rcases hp with hp | hp
    · split at hp
      · exact allSections_fileurl anc k p hp f hf
      · simp at hp
    · exact allSectionsList_fileurl anc ks p hp f hf
end

/-- files of the sections, in order -/
def secFiles (L : List (Tree × Url)) : List Nat := L.filterMap (fun p => p.1.file)

/- the files of `allSections` are a sublist of the files of the tree (so they are distinct when those are) -/
mutual
theorem allSections_files_sublist (anc : List Tree) : ∀ (t : Tree),
    (secFiles (allSections anc t)).Sublist (filesOf t)
  | .node lv id num file kids => by
    have ih := allSectionsList_files_sublist (.node lv id num file kids :: anc) kids
    cases file with
    | none => simpa [secFiles, Tree.file] using ih
    | some f => simpa [secFiles, Tree.file] using ih
theorem allSectionsList_files_sublist (anc : List Tree) : ∀ (ks : List Tree),
    (secFiles (allSectionsList anc ks)).Sublist (filesOfList ks)
  | [] => by simp [secFiles]
  | k :: ks => by
    have a := allSections_files_sublist anc k
    have b := allSectionsList_files_sublist anc ks
    simp only [allSectionsList_cons, filesOfList_cons, secFiles, List.filterMap_append]
    refine List.Sublist.append ?_ (by simpa [secFiles] using b)
    split
    · simpa [secFiles] using a
    · simp
end

/- under `tocOK`, every file of the tree belongs to a section of `allSections` -/
mutual
theorem allSections_complete (anc : List Tree) : ∀ (t : Tree), tocOK t = true → ∀ f ∈ filesOf t,
    ∃ p ∈ allSections anc t, p.1.file = some f
  | .node lv id num file kids => by
    intro hok f hm
    simp only [filesOf_node, List.mem_append] at hm
    rcases hm with hm | hm
    · cases file with
      | none => simp at hm
      | some f0 =>
        simp at hm; subst hm
        exact ⟨(.node lv id num (some f) kids, url (.node lv id num (some f) kids) anc), by simp, rfl⟩
    · obtain ⟨p, hp, e⟩ := allSectionsList_complete (.node lv id num file kids :: anc) kids (by simpa using hok) f hm
      exact ⟨p, by simp [hp], e⟩
theorem allSectionsList_complete (anc : List Tree) : ∀ (ks : List Tree), tocOKList ks = true → ∀ f ∈ filesOfList ks,
    ∃ p ∈ allSectionsList anc ks, p.1.file = some f
  | [] => by simp
  | k :: ks => by
    intro hok f hm
    simp only [tocOKList_cons, Bool.and_eq_true, Bool.or_eq_true] at hok
    simp only [filesOfList_cons, List.mem_append] at hm
    rcases hm with hm | hm
    · rcases hok.1 with he | hk
      · rw [List.isEmpty_iff.mp he] at hm; simp at hm
      · obtain ⟨p, hp, e⟩ := allSections_complete anc k hk.2 f hm
        exact ⟨p, by simp [hk.1.1, hp], e⟩
    · obtain ⟨p, hp, e⟩ := allSectionsList_complete anc ks hok.2 f hm
      exact ⟨p, by simp [hp], e⟩
end

/-! ### the `for item in sections` loop -/

theorem nextOf_mem (f : Nat) : ∀ (L : List (Tree × Url)) (b : Bool) (u : Url),
    nextOf f L b = some u → ∃ p ∈ L, p.2 = u := by
  intro L
  induction L with
  | nil => intro b u h; simp [nextOf] at h
  | cons p ps ih =>
    intro b u h
    simp only [nextOf] at h
    split at h
    · obtain ⟨q, hq, e⟩ := ih true u h; exact ⟨q, by simp [hq], e⟩
    · split at h
      · exact ⟨p, by simp, by simpa using h⟩
      · obtain ⟨q, hq, e⟩ := ih false u h; exact ⟨q, by simp [hq], e⟩

theorem prevOf_mem (f : Nat) : ∀ (L : List (Tree × Url)) (prev : Option Url) (u : Url),
    prevOf f L prev = some u → prev = some u ∨ ∃ p ∈ L, p.2 = u := by
  intro L
  induction L with
  | nil => intro prev u h; simp [prevOf] at h; exact .inl h
  | cons p ps ih =>
    intro prev u h
    simp only [prevOf] at h
    split at h
    · exact .inl h
    · rcases ih (some p.2) u h with e | ⟨q, hq, e⟩
      · exact .inr ⟨p, by simp, by simpa using e⟩
      · exact .inr ⟨q, by simp [hq], e⟩

/-- `next` of the section at position i is the section at position i+1 (sections identified by distinct files) -/
theorem nextOf_spec (f : Nat) : ∀ (pre : List (Tree × Url)) (p q : Tree × Url) (post : List (Tree × Url)),
    p.1.file = some f → (∀ x ∈ pre, x.1.file ≠ some f) → q.1.file ≠ some f →
    nextOf f (pre ++ p :: q :: post) false = some q.2 := by
  intro pre
  induction pre with
  | nil => intro p q post hp _ hq; simp [nextOf, hp, hq]
  | cons x pre ih =>
    intro p q post hp hpre hq
    have hx : x.1.file ≠ some f := hpre x (by simp)
    simp only [List.cons_append, nextOf, hx, if_false]
    exact ih p q post hp (fun y hy => hpre y (by simp [hy])) hq

/-- `prev` of the section at position i+1 is the section at position i -/
theorem prevOf_spec (f : Nat) : ∀ (pre : List (Tree × Url)) (p q : Tree × Url) (post : List (Tree × Url)) (pv : Option Url),
    q.1.file = some f → (∀ x ∈ pre, x.1.file ≠ some f) → p.1.file ≠ some f →
    prevOf f (pre ++ p :: q :: post) pv = some p.2 := by
  intro pre
  induction pre with
  | nil => intro p q post pv hq _ hp; simp [prevOf, hp, hq]
  | cons x pre ih =>
    intro p q post pv hq hpre hp
    have hx : x.1.file ≠ some f := hpre x (by simp)
    simp only [List.cons_append, prevOf, hx, if_false]
    exact ih p q post _ hq (fun y hy => hpre y (by simp [hy])) hp

/-- in a list whose files are pairwise distinct, the neighbours of an element have other files -/
theorem distinct_split (pre : List (Tree × Url)) (p q : Tree × Url) (post : List (Tree × Url)) (f : Nat)
    (hn : (secFiles (pre ++ p :: q :: post)).Nodup) (hp : p.1.file = some f) :
    (∀ x ∈ pre, x.1.file ≠ some f) ∧ q.1.file ≠ some f := by
  simp only [secFiles, List.filterMap_append, List.filterMap_cons, hp] at hn
  have h := List.nodup_append.mp hn
  refine ⟨?_, ?_⟩
  · intro x hx hxf
    exact h.2.2 f (List.mem_filterMap.mpr ⟨x, hx, hxf⟩) f (by simp) rfl
  · intro hq
    have h2 := h.2.1
    simp only [hq, List.nodup_cons] at h2
    exact h2.1 (by simp)

theorem distinct_split' (pre : List (Tree × Url)) (p q : Tree × Url) (post : List (Tree × Url)) (f : Nat)
    (hn : (secFiles (pre ++ p :: q :: post)).Nodup) (hq : q.1.file = some f) :
    (∀ x ∈ pre, x.1.file ≠ some f) ∧ p.1.file ≠ some f := by
  simp only [secFiles, List.filterMap_append, List.filterMap_cons, hq] at hn
  have h := List.nodup_append.mp hn
  refine ⟨?_, ?_⟩
  · intro x hx hxf
    refine h.2.2 f (List.mem_filterMap.mpr ⟨x, hx, hxf⟩) f ?_ rfl
    cases hpf : p.1.file <;> simp
  · intro hp
    have h2 := h.2.1
    simp only [hp, List.nodup_cons] at h2
    exact h2.1 (by simp)

/-- a property that holds at one element of a list and is transported by `next` holds for all later elements -/
theorem chain_all (S : List (Tree × Url)) (P : Tree × Url → Prop)
    (hstep : ∀ pre p q post, S = pre ++ p :: q :: post → P p → P q) :
    ∀ (rest pre : List (Tree × Url)) (p : Tree × Url), S = pre ++ p :: rest → P p → ∀ x ∈ rest, P x := by
  intro rest
  induction rest with
  | nil => intro _ _ _ _ x hx; simp at hx
  | cons q post ih =>
    intro pre p hS hp x hx
    have hq : P q := hstep pre p q post hS hp
    simp only [List.mem_cons] at hx
    rcases hx with rfl | hx
    · exact hq
    · exact ih (pre ++ [p]) q (by simp [hS]) hq x hx

/-! ### file numbers handed out by `cacheFilenames` are pairwise distinct -/

mutual
theorem pass_files (touch mk : Int → Bool) : ∀ (t : Tree) (g f : Nat), filesOf t = [] →
    ∃ n, filesOf (pass touch mk t g f).1 = List.range' f n ∧ (pass touch mk t g f).2.2 = f + n
  | .node lv id num file kids, g, f => by
    intro h0
    simp only [filesOf_node, List.append_eq_nil_iff] at h0
    have hfile : file = none := by cases file <;> simp_all
    subst hfile
    rw [pass]
    cases hm : mk lv
    · obtain ⟨n, h1, h2⟩ := passList_files touch mk kids (if touch lv then getId id g else (default, g)).2 f h0.2
      exact ⟨n, by simp [hm, h1], by simp [hm, h2]⟩
    · obtain ⟨n, h1, h2⟩ := passList_files touch mk kids (if touch lv then getId id g else (default, g)).2 (f + 1) h0.2
      refine ⟨n + 1, ?_, ?_⟩
      · simp [hm, h1, List.range'_succ]
      · simp [hm, h2]; omega
theorem passList_files (touch mk : Int → Bool) : ∀ (ts : List Tree) (g f : Nat), filesOfList ts = [] →
    ∃ n, filesOfList (passList touch mk ts g f).1 = List.range' f n ∧ (passList touch mk ts g f).2.2 = f + n
  | [], g, f => by intro _; rw [passList]; exact ⟨0, by simp, by simp⟩
  | t :: ts, g, f => by
    intro h0
    simp only [filesOfList_cons, List.append_eq_nil_iff] at h0
    rw [passList]
    obtain ⟨n1, a1, a2⟩ := pass_files touch mk t g f h0.1
    obtain ⟨n2, b1, b2⟩ := passList_files touch mk ts (pass touch mk t g f).2.1 (pass touch mk t g f).2.2 h0.2
    rw [a2] at b1 b2
    refine ⟨n1 + n2, ?_, ?_⟩
    · simp only [filesOfList_cons, a1, a2, b1]
      rw [List.range'_append_1]
    · simp only [a2, b2]; omega
end

/- a pass that creates no file names leaves the files alone -/
mutual
theorem pass_nofiles (touch : Int → Bool) : ∀ (t : Tree) (g f : Nat),
    filesOf (pass touch (fun _ => false) t g f).1 = filesOf t
  | .node lv id num file kids, g, f => by
    rw [pass]
    simp [passList_nofiles touch kids]
theorem passList_nofiles (touch : Int → Bool) : ∀ (ts : List Tree) (g f : Nat),
    filesOfList (passList touch (fun _ => false) ts g f).1 = filesOfList ts
  | [], g, f => by rw [passList]
  | t :: ts, g, f => by
    rw [passList]
    simp [pass_nofiles touch t, passList_nofiles touch ts]
end

theorem prepare_files_nodup (split : Int) (t : Tree) (g : Nat) (h0 : filesOf t = []) :
    (filesOf (prepare split t g)).Nodup := by
  unfold prepare touchAll cacheFilenames
  rw [pass_nofiles]
  obtain ⟨n, h1, _⟩ := pass_files (fun lv => decide (lv ≤ split)) (fun lv => decide (lv ≤ split)) t g 0 h0
  rw [h1]
  exact List.nodup_range'

/-! ### reachability through the chain of `next` links -/

theorem secFiles_filter_sublist (q : Tree × Url → Bool) (L : List (Tree × Url)) :
    (secFiles (L.filter q)).Sublist (secFiles L) :=
  List.Sublist.filterMap _ List.filter_sublist

theorem fileSections_nodup (root : Tree) (hn : (filesOf root).Nodup) : (secFiles (fileSections root)).Nodup :=
  ((secFiles_filter_sublist _ _).trans (allSections_files_sublist [] root)).nodup hn

theorem mem_fileSections {root : Tree} {p : Tree × Url} (h : p ∈ fileSections root) :
    p ∈ allSections [] root ∧ ∃ f, p.1.file = some f := by
  unfold fileSections at h
  rw [List.mem_filter] at h
  refine ⟨h.1, ?_⟩
  have := h.2
  simp only [hasFile, Option.isSome_iff_exists] at this
  exact this

/-- the page of section `p` links to the page of the next section `q` of `fileSections` -/
theorem next_links_neighbour (root : Tree) (hn : (filesOf root).Nodup) (pre : List (Tree × Url)) (p q : Tree × Url)
    (post : List (Tree × Url)) (hS : fileSections root = pre ++ p :: q :: post) :
    ∃ fp fq, p.1.file = some fp ∧ q.1.file = some fq ∧
      nextOf fp (fileSections root) false = some ⟨some fq, none⟩ ∧
      prevOf fq (fileSections root) none = some ⟨some fp, none⟩ := by
  have hp : p ∈ fileSections root := by rw [hS]; simp
  have hq : q ∈ fileSections root := by rw [hS]; simp
  obtain ⟨hpa, fp, hfp⟩ := mem_fileSections hp
  obtain ⟨hqa, fq, hfq⟩ := mem_fileSections hq
  have hnd := fileSections_nodup root hn
  rw [hS] at hnd
  have d := distinct_split pre p q post fp hnd hfp
  have d' := distinct_split' pre p q post fq hnd hfq
  refine ⟨fp, fq, hfp, hfq, ?_, ?_⟩
  · rw [hS, nextOf_spec fp pre p q post hfp d.1 d.2, allSections_fileurl [] root q hqa fq hfq]
  · rw [hS, prevOf_spec fq pre p q post none hfq d'.1 d'.2, allSections_fileurl [] root p hpa fp hfp]

/-- every file-producing section is reachable from the root's page along `next` links -/
theorem next_chain_reaches (root : Tree) (f0 : Nat) (hf0 : root.file = some f0) (hn : (filesOf root).Nodup)
    (step : Nat → Nat → Prop)
    (hstep : ∀ a b, nextOf a (fileSections root) false = some ⟨some b, none⟩ → step a b) :
    ∀ p ∈ fileSections root, ∀ f, p.1.file = some f → Reachable f0 step f := by
  cases root with
  | node lv id num file kids =>
    simp only [Tree.file] at hf0
    subst hf0
    let root := Tree.node lv id num (some f0) kids
    have hS : fileSections root = (root, url root []) :: (allSectionsList [root] kids).filter (fun p => hasFile p.1) := by
      simp [fileSections, root, hasFile, Tree.file, List.filter_cons]
    let P : Tree × Url → Prop := fun x => ∀ f, x.1.file = some f → Reachable f0 step f
    have hchain := chain_all (fileSections root) P (by
      intro pre p q post hS' hp f hf
      obtain ⟨fp, fq, hfp, hfq, hnx, _⟩ := next_links_neighbour root hn pre p q post hS'
      have : f = fq := by rw [hfq] at hf; exact (Option.some.inj hf).symm
      subst this
      exact Reachable.next (hp fp hfp) (hstep fp f hnx))
      ((allSectionsList [root] kids).filter (fun p => hasFile p.1)) [] (root, url root []) (by simpa using hS)
      (by intro f hf
          have : f = f0 := by simpa [root, Tree.file] using hf.symm
          subst this; exact Reachable.start)
    intro p hp f hf
    rw [hS] at hp
    simp only [List.mem_cons] at hp
    rcases hp with rfl | hp
    · have : f = f0 := by simpa [root, Tree.file] using hf.symm
      subst this; exact Reachable.start
    · exact hchain p hp f hf

end PlasVerif.Proofs.UrlsNav
