import PlasVerif.Model.Dom
/-! Helper lemmas for C06: what each modelled DOM operation does to the heap fields when no node uses the
`self`-attribute alias and the argument is a single (non-fragment) node, and the invariant lemmas. -/
namespace PlasVerif.Proofs.Dom
open PlasVerif.Model.Dom

/-- no node uses the `self`-attribute alias -/
def NoAlias (h : Heap) : Prop := ∀ n, h.attr n = none

/-- no element holds a fragment under another attribute key (`attributes['title']`) -/
def NoAttr2 (h : Heap) : Prop := ∀ n, h.attr2 n = none

/-- every child listed by a non-fragment node names that node as parent, and is listed once -/
def Inv (h : Heap) : Prop :=
  (∀ n c, h.kind n ≠ .frag → c ∈ h.kids n → h.parent c = some n) ∧
  (∀ n, h.kind n ≠ .frag → (h.kids n).Nodup)

/-- listed by no non-fragment node -/
def Detached (h : Heap) (c : Id) : Prop := ∀ n, h.kind n ≠ .frag → c ∉ h.kids n

/-- listed by no non-fragment node other than `s` (the node may be moved inside `s`) -/
def DetachedExcept (h : Heap) (s c : Id) : Prop := ∀ n, h.kind n ≠ .frag → n ≠ s → c ∉ h.kids n

theorem cn_eq {h : Heap} (ha : NoAlias h) (s : Id) : cn h s = s := by simp [cn, ha s]
theorem childList_eq {h : Heap} (ha : NoAlias h) (s : Id) : childList h s = h.kids s := by
  simp [childList, cn_eq ha]

/-! ### field equations -/

/-- the state after inserting one node at list position `k` -/
def putAt (h : Heap) (s : Id) (k : Nat) (c : Id) : Heap :=
  { h with kids := upd h.kids s ((h.kids s).take k ++ c :: (h.kids s).drop k),
           parent := upd h.parent c (if h.kind s = .frag then h.parent s else some s),
           owner := upd h.owner c (h.owner s) }

/-- the state after taking out position `j` (holding `x`) -/
def takeAt (h : Heap) (s : Id) (j : Nat) (x : Id) : Heap :=
  { h with kids := upd h.kids s ((h.kids s).eraseIdx j),
           parent := upd h.parent x (if h.parent x = some s then none else h.parent x) }

theorem insert_leaf_eq {h : Heap} (ha : NoAlias h) (fuel : Nat) (s : Id) (i : Int) (c : Id) (hc : h.kind c ≠ .frag) :
    insert (fuel + 1) h s i c = putAt h s (pyInsPos (h.kids s).length i) c := by
  simp [Model.Dom.insert, hc, insertLeaf, setPO, rawInsert, ha s, putAt, pyInsert]

theorem append_leaf_eq {h : Heap} (ha : NoAlias h) (fuel : Nat) (s c : Id) (hc : h.kind c ≠ .frag) :
    append (fuel + 1) h s c = putAt h s (h.kids s).length c := by
  simp [append, hc, appendLeaf, setPO, rawAppend, ha s, putAt]

theorem pop_eq {h : Heap} (ha : NoAlias h) (s : Id) (i : Int) (j : Nat) (x : Id)
    (hj : pyPopPos (h.kids s).length i = some j) (hx : (h.kids s)[j]? = some x) :
    pop h s i = (takeAt h s j x, some x) := by
  simp only [pop, cn_eq ha, hj, hx, takeAt]
  congr 2
  by_cases hp : h.parent x = some s <;> simp [hp]

theorem pop_none {h : Heap} (ha : NoAlias h) (s : Id) (i : Int)
    (hj : pyPopPos (h.kids s).length i = none) : pop h s i = (h, none) := by
  simp only [pop, cn_eq ha, hj]

theorem pyPopPos_lt {n : Nat} {i : Int} {j : Nat} (h : pyPopPos n i = some j) : j < n := by
  unfold pyPopPos at h
  by_cases hi : i < 0
  · simp only [hi, if_true] at h
    split at h
    · cases h
    · injection h with h; omega
  · simp only [hi, if_false] at h
    split at h
    · cases h
    · injection h with h; omega

theorem pyPopPos_nat {n k : Nat} (hk : k < n) : pyPopPos n (k : Int) = some k := by
  unfold pyPopPos; simp; omega

theorem pyInsPos_nat {n k : Nat} (hk : k ≤ n) : pyInsPos n (k : Int) = k := by
  unfold pyInsPos
  split
  · omega
  · split
    · omega
    · simp

/-- `pop` either changes nothing or is `takeAt` at a valid position -/
theorem pop_cases {h : Heap} (ha : NoAlias h) (s : Id) (i : Int) :
    (pop h s i).1 = h ∨ ∃ j x, j < (h.kids s).length ∧ (h.kids s)[j]? = some x ∧ (pop h s i).1 = takeAt h s j x := by
  cases hj : pyPopPos (h.kids s).length i with
  | none => left; rw [pop_none ha s i hj]
  | some j =>
    have hlt := pyPopPos_lt hj
    right
    refine ⟨j, (h.kids s)[j], hlt, List.getElem?_eq_getElem hlt, ?_⟩
    rw [pop_eq ha s i j _ hj (List.getElem?_eq_getElem hlt)]

/-! ### list facts -/

theorem mem_middle {l : List Id} {k : Nat} {c x : Id} : x ∈ l.take k ++ c :: l.drop k ↔ x = c ∨ x ∈ l := by
  have := (List.perm_middle (a := c) (l₁ := l.take k) (l₂ := l.drop k)).mem_iff (a := x)
  rw [this, List.take_append_drop]; simp

theorem nodup_middle {l : List Id} {k : Nat} {c : Id} (hn : l.Nodup) (hc : c ∉ l) : (l.take k ++ c :: l.drop k).Nodup := by
  have := (List.perm_middle (a := c) (l₁ := l.take k) (l₂ := l.drop k)).nodup_iff
  rw [this, List.take_append_drop]
  exact List.nodup_cons.mpr ⟨hc, hn⟩

theorem not_mem_eraseIdx_of_nodup {l : List Id} {j : Nat} {x : Id} (hn : l.Nodup) (hx : l[j]? = some x) :
    x ∉ l.eraseIdx j := by
  intro hc
  rcases List.mem_eraseIdx_iff_getElem.mp hc with ⟨i', hi', hne', he'⟩
  rcases List.getElem?_eq_some_iff.mp hx with ⟨hl, he⟩
  have e1 := List.Nodup.idxOf_getElem hn i' hi'
  have e2 := List.Nodup.idxOf_getElem hn j hl
  rw [he'] at e1; rw [he] at e2
  exact hne' (e1.symm.trans e2)

/-! ### the invariant under the two primitive steps -/

theorem inv_putAt {h : Heap} (hinv : Inv h) (s : Id) (k : Nat) (c : Id) (hd : Detached h c) : Inv (putAt h s k c) := by
  obtain ⟨h1, h2⟩ := hinv
  refine ⟨?_, ?_⟩
  · intro n x hn hx
    simp only [putAt, upd] at hn hx ⊢
    by_cases hns : n = s
    · subst hns
      simp only [if_true] at hx
      rcases mem_middle.mp hx with hx | hx
      · subst hx; simp [hn]
      · have hne : x ≠ c := fun e => hd n hn (e ▸ hx)
        simp [hne, h1 n x hn hx]
    · simp only [hns, if_false] at hx
      have hne : x ≠ c := fun e => hd n hn (e ▸ hx)
      simp [hne, h1 n x hn hx]
  · intro n hn
    simp only [putAt, upd] at hn ⊢
    by_cases hns : n = s
    · subst hns; simp only [if_true]; exact nodup_middle (h2 n hn) (hd n hn)
    · simp only [hns, if_false]; exact h2 n hn

theorem inv_takeAt {h : Heap} (hinv : Inv h) (s : Id) (j : Nat) (x : Id) (hx : (h.kids s)[j]? = some x) :
    Inv (takeAt h s j x) := by
  obtain ⟨h1, h2⟩ := hinv
  have hxm : x ∈ h.kids s := List.mem_of_getElem? hx
  refine ⟨?_, ?_⟩
  · intro n c hn hc
    simp only [takeAt, upd] at hn hc ⊢
    by_cases hns : n = s
    · subst hns
      simp only [if_true] at hc
      have hcm : c ∈ h.kids n := List.mem_of_mem_eraseIdx hc
      have hne : c ≠ x := fun e => not_mem_eraseIdx_of_nodup (h2 n hn) hx (e ▸ hc)
      simp [hne, h1 n c hn hcm]
    · simp only [hns, if_false] at hc
      have hp := h1 n c hn hc
      by_cases hcx : c = x
      · subst hcx
        have hne : ¬ (n = s) := hns
        simp [hp, hne]
      · simp [hcx, hp]
  · intro n hn
    simp only [takeAt, upd] at hn ⊢
    by_cases hns : n = s
    · subst hns; simp only [if_true]; exact List.Nodup.sublist (List.eraseIdx_sublist _ _) (h2 n hn)
    · simp only [hns, if_false]; exact h2 n hn

theorem inv_pop {h : Heap} (ha : NoAlias h) (hinv : Inv h) (s : Id) (i : Int) : Inv (pop h s i).1 := by
  rcases pop_cases ha s i with he | ⟨j, x, _, hx, he⟩
  · rw [he]; exact hinv
  · rw [he]; exact inv_takeAt hinv s j x hx

/-! ### frame facts: kinds, aliases, detachedness -/

@[simp] theorem putAt_kind (h : Heap) (s : Id) (k : Nat) (c : Id) : (putAt h s k c).kind = h.kind := rfl
@[simp] theorem putAt_attr (h : Heap) (s : Id) (k : Nat) (c : Id) : (putAt h s k c).attr = h.attr := rfl
@[simp] theorem takeAt_kind (h : Heap) (s : Id) (j : Nat) (x : Id) : (takeAt h s j x).kind = h.kind := rfl
@[simp] theorem takeAt_attr (h : Heap) (s : Id) (j : Nat) (x : Id) : (takeAt h s j x).attr = h.attr := rfl
@[simp] theorem putAt_next (h : Heap) (s : Id) (k : Nat) (c : Id) : (putAt h s k c).next = h.next := rfl
@[simp] theorem takeAt_next (h : Heap) (s : Id) (j : Nat) (x : Id) : (takeAt h s j x).next = h.next := rfl

theorem putAt_kids_self (h : Heap) (s : Id) (k : Nat) (c : Id) :
    (putAt h s k c).kids s = (h.kids s).take k ++ c :: (h.kids s).drop k := by simp [putAt, upd]
theorem putAt_kids_other (h : Heap) (s : Id) (k : Nat) (c : Id) (n : Id) (hn : n ≠ s) :
    (putAt h s k c).kids n = h.kids n := by simp [putAt, upd, hn]
theorem takeAt_kids_self (h : Heap) (s : Id) (j : Nat) (x : Id) :
    (takeAt h s j x).kids s = (h.kids s).eraseIdx j := by simp [takeAt, upd]
theorem takeAt_kids_other (h : Heap) (s : Id) (j : Nat) (x : Id) (n : Id) (hn : n ≠ s) :
    (takeAt h s j x).kids n = h.kids n := by simp [takeAt, upd, hn]

theorem pop_kind {h : Heap} (ha : NoAlias h) (s : Id) (i : Int) : (pop h s i).1.kind = h.kind := by
  rcases pop_cases ha s i with he | ⟨j, x, _, _, he⟩ <;> rw [he]; rfl
theorem pop_attr {h : Heap} (ha : NoAlias h) (s : Id) (i : Int) : (pop h s i).1.attr = h.attr := by
  rcases pop_cases ha s i with he | ⟨j, x, _, _, he⟩ <;> rw [he]; rfl
theorem pop_next {h : Heap} (ha : NoAlias h) (s : Id) (i : Int) : (pop h s i).1.next = h.next := by
  rcases pop_cases ha s i with he | ⟨j, x, _, _, he⟩ <;> rw [he]; rfl

theorem detached_takeAt {h : Heap} (s : Id) (j : Nat) (x d : Id) (hd : Detached h d) : Detached (takeAt h s j x) d := by
  intro n hn hm
  simp only [takeAt, upd] at hn hm
  by_cases hns : n = s
  · subst hns; simp only [if_true] at hm; exact hd n hn (List.mem_of_mem_eraseIdx hm)
  · simp only [hns, if_false] at hm; exact hd n hn hm

theorem detached_pop {h : Heap} (ha : NoAlias h) (s : Id) (i : Int) (d : Id) (hd : Detached h d) :
    Detached (pop h s i).1 d := by
  rcases pop_cases ha s i with he | ⟨j, x, _, _, he⟩ <;> rw [he]
  · exact hd
  · exact detached_takeAt s j x d hd

theorem detached_putAt {h : Heap} (s : Id) (k : Nat) (c d : Id) (hdc : d ≠ c) (hd : Detached h d) :
    Detached (putAt h s k c) d := by
  intro n hn hm
  simp only [putAt, upd] at hn hm
  by_cases hns : n = s
  · subst hns; simp only [if_true] at hm
    rcases mem_middle.mp hm with e | hm
    · exact hdc e
    · exact hd n hn hm
  · simp only [hns, if_false] at hm; exact hd n hn hm

/-! ### the composite operations on single-node arguments -/

theorem noAlias_putAt {h : Heap} (ha : NoAlias h) (s : Id) (k : Nat) (c : Id) : NoAlias (putAt h s k c) := fun n => ha n
theorem noAlias_takeAt {h : Heap} (ha : NoAlias h) (s : Id) (j : Nat) (x : Id) : NoAlias (takeAt h s j x) := fun n => ha n
theorem noAlias_pop {h : Heap} (ha : NoAlias h) (s : Id) (i : Int) : NoAlias (pop h s i).1 := by
  intro n; rw [pop_attr ha]; exact ha n

theorem splices_leaf (h : Heap) (s c : Id) (hc : h.kind c ≠ .frag) : splices h s c = false := by
  simp [splices, hc]

theorem insert_fuelOf {h : Heap} (ha : NoAlias h) (s : Id) (i : Int) (c : Id) (hc : h.kind c ≠ .frag) :
    insert (fuelOf h) h s i c = putAt h s (pyInsPos (h.kids s).length i) c :=
  insert_leaf_eq ha (h.next + 1) s i c hc

theorem append_fuelOf {h : Heap} (ha : NoAlias h) (s c : Id) (hc : h.kind c ≠ .frag) :
    append (fuelOf h) h s c = putAt h s (h.kids s).length c :=
  append_leaf_eq ha (h.next + 1) s c hc

theorem opAppend_leaf {h : Heap} (ha : NoAlias h) (s c : Id) (hc : h.kind c ≠ .frag) :
    opAppend h s c = (putAt h s (h.kids s).length c, none) := by
  simp [opAppend, splices_leaf h s c hc, append_fuelOf ha s c hc]

theorem opInsert_leaf {h : Heap} (ha : NoAlias h) (s : Id) (i : Int) (c : Id) (hc : h.kind c ≠ .frag) :
    opInsert h s i c = (putAt h s (pyInsPos (h.kids s).length i) c, none) := by
  simp [opInsert, splices_leaf h s c hc, insert_fuelOf ha s i c hc]

theorem opPop_fst (h : Heap) (s : Id) (i : Int) : (opPop h s i).1 = (pop h s i).1 := by
  unfold opPop; split <;> simp_all

theorem removeChild_mem {h : Heap} (ha : NoAlias h) (s c : Id) (hm : c ∈ h.kids s) :
    (removeChild h s c).1 = takeAt h s ((h.kids s).idxOf c) c := by
  have hlt := List.idxOf_lt_length_of_mem hm
  have hx : (h.kids s)[(h.kids s).idxOf c]? = some c := by
    rw [List.getElem?_eq_getElem hlt, List.getElem_idxOf hlt]
  simp only [removeChild, childList_eq ha, hm, if_true]
  rw [pop_eq ha s _ _ c (pyPopPos_nat hlt) hx]

theorem removeChild_not_mem {h : Heap} (ha : NoAlias h) (s c : Id) (hm : c ∉ h.kids s) :
    (removeChild h s c).1 = h := by
  simp only [removeChild, childList_eq ha, hm, if_false]

theorem removeChild_cases {h : Heap} (ha : NoAlias h) (s c : Id) :
    (c ∉ h.kids s ∧ (removeChild h s c).1 = h) ∨
    (c ∈ h.kids s ∧ (removeChild h s c).1 = takeAt h s ((h.kids s).idxOf c) c) := by
  by_cases hm : c ∈ h.kids s
  · right; exact ⟨hm, removeChild_mem ha s c hm⟩
  · left; exact ⟨hm, removeChild_not_mem ha s c hm⟩

theorem removeChild_kids_self {h : Heap} (ha : NoAlias h) (s c : Id) :
    (removeChild h s c).1.kids s = (h.kids s).erase c := by
  rcases removeChild_cases ha s c with ⟨hm, he⟩ | ⟨hm, he⟩ <;> rw [he]
  · exact (List.erase_of_not_mem hm).symm
  · rw [takeAt_kids_self]; exact (List.erase_eq_eraseIdx_of_idxOf rfl).symm

theorem removeChild_kids_other {h : Heap} (ha : NoAlias h) (s c n : Id) (hn : n ≠ s) :
    (removeChild h s c).1.kids n = h.kids n := by
  rcases removeChild_cases ha s c with ⟨_, he⟩ | ⟨_, he⟩ <;> rw [he]
  exact takeAt_kids_other h s _ c n hn

theorem removeChild_kind {h : Heap} (ha : NoAlias h) (s c : Id) : (removeChild h s c).1.kind = h.kind := by
  rcases removeChild_cases ha s c with ⟨_, he⟩ | ⟨_, he⟩ <;> rw [he]; rfl
theorem removeChild_next {h : Heap} (ha : NoAlias h) (s c : Id) : (removeChild h s c).1.next = h.next := by
  rcases removeChild_cases ha s c with ⟨_, he⟩ | ⟨_, he⟩ <;> rw [he]; rfl
theorem noAlias_removeChild {h : Heap} (ha : NoAlias h) (s c : Id) : NoAlias (removeChild h s c).1 := by
  rcases removeChild_cases ha s c with ⟨_, he⟩ | ⟨_, he⟩ <;> rw [he]
  · exact ha
  · exact noAlias_takeAt ha _ _ _

theorem inv_removeChild {h : Heap} (ha : NoAlias h) (hinv : Inv h) (s c : Id) : Inv (removeChild h s c).1 := by
  rcases removeChild_cases ha s c with ⟨_, he⟩ | ⟨hm, he⟩ <;> rw [he]
  · exact hinv
  · have hlt := List.idxOf_lt_length_of_mem hm
    exact inv_takeAt hinv s _ c (by rw [List.getElem?_eq_getElem hlt, List.getElem_idxOf hlt])

theorem detached_removeChild {h : Heap} (ha : NoAlias h) (s c d : Id) (hd : Detached h d) :
    Detached (removeChild h s c).1 d := by
  rcases removeChild_cases ha s c with ⟨_, he⟩ | ⟨_, he⟩ <;> rw [he]
  · exact hd
  · exact detached_takeAt s _ c d hd

/-- after `removeChild(new)` a node that was listed at most by `s` is listed nowhere -/
theorem detached_after_remove {h : Heap} (ha : NoAlias h) (hinv : Inv h) (s c : Id) (hd : DetachedExcept h s c) :
    Detached (removeChild h s c).1 c := by
  intro n hn hm
  rw [removeChild_kind ha] at hn
  by_cases hns : n = s
  · subst hns
    rw [removeChild_kids_self ha] at hm
    exact ((List.Nodup.mem_erase_iff (hinv.2 n hn)).mp hm).1 rfl
  · rw [removeChild_kids_other ha s c n hns] at hm
    exact hd n hn hns hm

theorem insertRel_eq {h : Heap} (ha : NoAlias h) (off : Nat) (s new ref : Id) (hc : h.kind new ≠ .frag) :
    (insertRel off h s new ref).1 =
      let h1 := (removeChild h s new).1
      if ref ∈ h1.kids s then putAt h1 s (pyInsPos (h1.kids s).length (((h1.kids s).idxOf ref + off : Nat) : Int)) new
      else h1 := by
  have ha1 := noAlias_removeChild ha s new
  have hc1 : (removeChild h s new).1.kind new ≠ .frag := by rw [removeChild_kind ha]; exact hc
  simp only [insertRel, childList_eq ha1, splices_leaf _ s new hc1]
  split
  · simp [insert_fuelOf ha1 s _ new hc1]
  · rfl

theorem replaceChild_eq {h : Heap} (ha : NoAlias h) (s new old : Id) (hc : h.kind new ≠ .frag) :
    (replaceChild h s new old).1 =
      let h1 := (removeChild h s new).1
      if old ∈ h1.kids s then
        let h2 := (pop h1 s ((h1.kids s).idxOf old)).1
        putAt h2 s (pyInsPos (h2.kids s).length ((h1.kids s).idxOf old)) new
      else h1 := by
  have ha1 := noAlias_removeChild ha s new
  have ha2 := noAlias_pop ha1 s (((removeChild h s new).1.kids s).idxOf old)
  have hc2 : (pop (removeChild h s new).1 s (((removeChild h s new).1.kids s).idxOf old)).1.kind new ≠ .frag := by
    rw [pop_kind ha1, removeChild_kind ha]; exact hc
  simp only [replaceChild, childList_eq ha1, splices_leaf _ s new hc2]
  split
  · simp [insert_fuelOf ha2 s _ new hc2]
  · rfl

theorem setItem_eq {h : Heap} (ha : NoAlias h) (s : Id) (i : Int) (c : Id) (hc : h.kind c ≠ .frag) :
    (setItem h s i c).1 = (pop (putAt h s (pyInsPos (h.kids s).length i) c) s (i + 1)).1 := by
  simp only [setItem, splices_leaf h s c hc, hc, if_false, insert_fuelOf ha s i c hc]
  exact opPop_fst _ _ _

/-- `extend` with single nodes: a fold of appends -/
def appendAll (h : Heap) (s : Id) (cs : List Id) : Heap := cs.foldl (fun a c => putAt a s (a.kids s).length c) h

theorem extend_eq (s : Id) (cs : List Id) : ∀ (h : Heap), NoAlias h → (∀ c ∈ cs, h.kind c ≠ .frag) →
    extend h s cs = (appendAll h s cs, none) := by
  induction cs with
  | nil => intro h _ _; rfl
  | cons c cs ih =>
    intro h ha hk
    have hc := hk c (by simp)
    have := ih (putAt h s (h.kids s).length c) (noAlias_putAt ha _ _ _) (fun d hd => hk d (by simp [hd]))
    simp only [extend, List.foldl_cons, opAppend_leaf ha s c hc] at this ⊢
    exact this

theorem appendAll_cons (h : Heap) (s c : Id) (cs : List Id) :
    appendAll h s (c :: cs) = appendAll (putAt h s (h.kids s).length c) s cs := rfl

theorem putAt_end_kids (h : Heap) (s c : Id) : (putAt h s (h.kids s).length c).kids s = h.kids s ++ [c] := by
  simp [putAt_kids_self]

theorem kids_appendAll (s : Id) (cs : List Id) : ∀ (h : Heap),
    (appendAll h s cs).kids s = h.kids s ++ cs ∧ ∀ n, n ≠ s → (appendAll h s cs).kids n = h.kids n := by
  induction cs with
  | nil => intro h; simp [appendAll]
  | cons c cs ih =>
    intro h
    rw [appendAll_cons]
    obtain ⟨h1, h2⟩ := ih (putAt h s (h.kids s).length c)
    refine ⟨?_, ?_⟩
    · rw [h1, putAt_end_kids]; simp
    · intro n hn; rw [h2 n hn, putAt_kids_other h s _ c n hn]

theorem inv_appendAll (s : Id) (cs : List Id) : ∀ (h : Heap), NoAlias h → Inv h → cs.Nodup →
    (∀ c ∈ cs, Detached h c) → NoAlias (appendAll h s cs) ∧ Inv (appendAll h s cs) := by
  induction cs with
  | nil => intro h ha hi _ _; exact ⟨ha, hi⟩
  | cons c cs ih =>
    intro h ha hi hn hd
    rw [appendAll_cons]
    have hn' := List.nodup_cons.mp hn
    apply ih _ (noAlias_putAt ha _ _ _) (inv_putAt hi s _ c (hd c (by simp))) hn'.2
    intro d hdm
    exact detached_putAt s _ c d (fun e => hn'.1 (e ▸ hdm)) (hd d (by simp [hdm]))

theorem take_eraseIdx_self (l : List Id) (k : Nat) (hk : k < l.length) : (l.eraseIdx k).take k = l.take k := by
  rw [List.eraseIdx_eq_take_drop_succ, List.take_append_of_le_length (by simp; omega)]
  simp [List.take_take]

theorem drop_eraseIdx_self (l : List Id) (k : Nat) (hk : k < l.length) : (l.eraseIdx k).drop k = l.drop (k + 1) := by
  rw [List.eraseIdx_eq_take_drop_succ, List.drop_append_of_le_length (by simp; omega)]
  simp

theorem eraseIdx_succ_middle (l : List Id) (k : Nat) (c : Id) (hk : k < l.length) :
    (l.take k ++ c :: l.drop k).eraseIdx (k + 1) = l.take k ++ c :: l.drop (k + 1) := by
  rw [List.eraseIdx_append_of_length_le (by simp; omega)]
  simp [List.length_take, Nat.min_eq_left (Nat.le_of_lt hk)]

/-! ### fragment arguments: splicing -/

theorem take_succ_middle (l : List Id) (k : Nat) (c : Id) (hk : k ≤ l.length) :
    (l.take k ++ c :: l.drop k).take (k + 1) = l.take k ++ [c] := by
  rw [List.take_append]
  simp [List.length_take, Nat.min_eq_left hk, List.take_take]

theorem drop_succ_middle (l : List Id) (k : Nat) (c : Id) (hk : k ≤ l.length) :
    (l.take k ++ c :: l.drop k).drop (k + 1) = l.drop k := by
  rw [List.drop_append]
  simp [List.length_take, Nat.min_eq_left hk]

theorem append_succ_frag (f : Nat) (h : Heap) (s c : Id) (hc : h.kind c = .frag) :
    append (f + 1) h s c = setPO ((h.kids c).foldl (fun a it => append f a s it) h) s c := by
  rw [append]; simp [hc]

theorem insert_succ_frag (f : Nat) (h : Heap) (s : Id) (i : Int) (c : Id) (hc : h.kind c = .frag) :
    insert (f + 1) h s i c =
      setPO ((h.kids c).foldl (fun (a : Heap × Int) it => (insert f a.1 s a.2 it, a.2 + 1)) (h, i)).1 s c := by
  rw [Model.Dom.insert]; simp [hc]

theorem inv_setPO {h : Heap} (hinv : Inv h) (s c : Id) (hd : Detached h c) : Inv (setPO h s c) := by
  obtain ⟨h1, h2⟩ := hinv
  refine ⟨?_, h2⟩
  intro n x hn hx
  have hne : x ≠ c := fun e => hd n hn (e ▸ hx)
  simp [setPO, upd, hne, h1 n x hn hx]

@[simp] theorem setPO_kids (h : Heap) (s c : Id) : (setPO h s c).kids = h.kids := rfl
@[simp] theorem setPO_kind (h : Heap) (s c : Id) : (setPO h s c).kind = h.kind := rfl
theorem noAlias_setPO {h : Heap} (ha : NoAlias h) (s c : Id) : NoAlias (setPO h s c) := fun n => ha n

theorem appendAll_kind (s : Id) (cs : List Id) : ∀ h : Heap, (appendAll h s cs).kind = h.kind := by
  induction cs with
  | nil => intro h; rfl
  | cons c cs ih => intro h; rw [appendAll_cons, ih]; rfl

theorem foldl_append_leaf (f : Nat) (s : Id) (l : List Id) : ∀ h : Heap, NoAlias h → (∀ it ∈ l, h.kind it ≠ .frag) →
    l.foldl (fun a it => append (f + 1) a s it) h = appendAll h s l := by
  induction l with
  | nil => intro h _ _; rfl
  | cons c cs ih =>
    intro h ha hk
    rw [List.foldl_cons, append_leaf_eq ha f s c (hk c (by simp)), appendAll_cons]
    exact ih _ (noAlias_putAt ha _ _ _) (fun d hd => hk d (by simp [hd]))

theorem append_frag_eq {h : Heap} (ha : NoAlias h) (s c : Id) (hc : h.kind c = .frag)
    (hit : ∀ it ∈ h.kids c, h.kind it ≠ .frag) :
    append (fuelOf h) h s c = setPO (appendAll h s (h.kids c)) s c := by
  show append (h.next + 1 + 1) h s c = _
  rw [append_succ_frag (h.next + 1) h s c hc, foldl_append_leaf h.next s (h.kids c) h ha hit]

theorem splices_ne {h : Heap} (ha : NoAlias h) (s c : Id) (hne : c ≠ s) : splices h s c = false := by
  simp [splices, cn_eq ha, hne]

theorem detached_appendAll (s : Id) (cs : List Id) (d : Id) : ∀ h : Heap, d ∉ cs → Detached h d →
    Detached (appendAll h s cs) d := by
  induction cs with
  | nil => intro h _ hd; exact hd
  | cons c cs ih =>
    intro h hm hd
    rw [appendAll_cons]
    exact ih _ (fun e => hm (by simp [e])) (detached_putAt s _ c d (fun e => hm (by simp [e])) hd)

/-- the state after splicing the items in at positions `i, i+1, …` (Python's `for item in frag: insert(i, item); i += 1`) -/
def insertAll (h : Heap) (s : Id) (i : Int) (cs : List Id) : Heap × Int :=
  cs.foldl (fun a it => (putAt a.1 s (pyInsPos (a.1.kids s).length a.2) it, a.2 + 1)) (h, i)

theorem insertAll_cons (h : Heap) (s : Id) (i : Int) (c : Id) (cs : List Id) :
    insertAll h s i (c :: cs) = insertAll (putAt h s (pyInsPos (h.kids s).length i) c) s (i + 1) cs := rfl

theorem foldl_insert_leaf (f : Nat) (s : Id) (l : List Id) : ∀ (h : Heap) (i : Int), NoAlias h →
    (∀ it ∈ l, h.kind it ≠ .frag) →
    l.foldl (fun (a : Heap × Int) it => (insert (f + 1) a.1 s a.2 it, a.2 + 1)) (h, i) = insertAll h s i l := by
  induction l with
  | nil => intro h i _ _; rfl
  | cons c cs ih =>
    intro h i ha hk
    rw [List.foldl_cons, insertAll_cons]
    simp only [insert_leaf_eq ha f s i c (hk c (by simp))]
    exact ih _ _ (noAlias_putAt ha _ _ _) (fun d hd => hk d (by simp [hd]))

theorem insert_frag_eq {h : Heap} (ha : NoAlias h) (s : Id) (i : Int) (c : Id) (hc : h.kind c = .frag)
    (hit : ∀ it ∈ h.kids c, h.kind it ≠ .frag) :
    insert (fuelOf h) h s i c = setPO (insertAll h s i (h.kids c)).1 s c := by
  show insert (h.next + 1 + 1) h s i c = _
  rw [insert_succ_frag (h.next + 1) h s i c hc, foldl_insert_leaf h.next s (h.kids c) h i ha hit]

theorem inv_insertAll (s : Id) (cs : List Id) : ∀ (h : Heap) (i : Int), NoAlias h → Inv h → cs.Nodup →
    (∀ c ∈ cs, Detached h c) → NoAlias (insertAll h s i cs).1 ∧ Inv (insertAll h s i cs).1 := by
  induction cs with
  | nil => intro h i ha hi _ _; exact ⟨ha, hi⟩
  | cons c cs ih =>
    intro h i ha hi hn hd
    rw [insertAll_cons]
    have hn' := List.nodup_cons.mp hn
    apply ih _ _ (noAlias_putAt ha _ _ _) (inv_putAt hi s _ c (hd c (by simp))) hn'.2
    intro d hdm
    exact detached_putAt s _ c d (fun e => hn'.1 (e ▸ hdm)) (hd d (by simp [hdm]))

theorem detached_insertAll (s : Id) (cs : List Id) (d : Id) : ∀ (h : Heap) (i : Int), d ∉ cs → Detached h d →
    Detached (insertAll h s i cs).1 d := by
  induction cs with
  | nil => intro h i _ hd; exact hd
  | cons c cs ih =>
    intro h i hm hd
    rw [insertAll_cons]
    exact ih _ _ (fun e => hm (by simp [e])) (detached_putAt s _ c d (fun e => hm (by simp [e])) hd)

theorem kids_insertAll (s : Id) (cs : List Id) : ∀ (h : Heap) (k : Nat), k ≤ (h.kids s).length →
    (insertAll h s k cs).1.kids s = (h.kids s).take k ++ cs ++ (h.kids s).drop k ∧
    ∀ n, n ≠ s → (insertAll h s k cs).1.kids n = h.kids n := by
  induction cs with
  | nil => intro h k _; simp [insertAll]
  | cons c cs ih =>
    intro h k hk
    rw [insertAll_cons, pyInsPos_nat hk]
    have hlen : k + 1 ≤ ((putAt h s k c).kids s).length := by rw [putAt_kids_self]; simp; omega
    obtain ⟨h1, h2⟩ := ih (putAt h s k c) (k + 1) hlen
    have hcast : ((k : Int) + 1) = ((k + 1 : Nat) : Int) := by omega
    rw [hcast]
    refine ⟨?_, ?_⟩
    · rw [h1, putAt_kids_self]
      have e1 := take_succ_middle (h.kids s) k c hk
      have e2 := drop_succ_middle (h.kids s) k c hk
      rw [e1, e2]; simp
    · intro n hn; rw [h2 n hn, putAt_kids_other h s k c n hn]

/-! ### owner document -/

/-- every node belongs to the document (node 0) that created it -/
def Owned (h : Heap) : Prop := ∀ n, h.owner n = some 0

theorem owned_putAt {h : Heap} (ho : Owned h) (s : Id) (k : Nat) (c : Id) : Owned (putAt h s k c) := by
  intro n; simp only [putAt, upd]; split
  · exact ho s
  · exact ho n
theorem owned_takeAt {h : Heap} (ho : Owned h) (s : Id) (j : Nat) (x : Id) : Owned (takeAt h s j x) := fun n => ho n
theorem owned_setPO {h : Heap} (ho : Owned h) (s c : Id) : Owned (setPO h s c) := by
  intro n; simp only [setPO, upd]; split
  · exact ho s
  · exact ho n
theorem owned_pop {h : Heap} (ha : NoAlias h) (ho : Owned h) (s : Id) (i : Int) : Owned (pop h s i).1 := by
  rcases pop_cases ha s i with he | ⟨j, x, _, _, he⟩ <;> rw [he]
  · exact ho
  · exact owned_takeAt ho s j x
theorem owned_removeChild {h : Heap} (ha : NoAlias h) (ho : Owned h) (s c : Id) : Owned (removeChild h s c).1 := by
  rcases removeChild_cases ha s c with ⟨_, he⟩ | ⟨_, he⟩ <;> rw [he]
  · exact ho
  · exact owned_takeAt ho s _ c
theorem owned_appendAll (s : Id) (cs : List Id) : ∀ h : Heap, Owned h → Owned (appendAll h s cs) := by
  induction cs with
  | nil => intro h ho; exact ho
  | cons c cs ih => intro h ho; rw [appendAll_cons]; exact ih _ (owned_putAt ho s _ c)
theorem owned_insertAll (s : Id) (cs : List Id) : ∀ (h : Heap) (i : Int), Owned h → Owned (insertAll h s i cs).1 := by
  induction cs with
  | nil => intro h i ho; exact ho
  | cons c cs ih => intro h i ho; rw [insertAll_cons]; exact ih _ _ (owned_putAt ho s _ c)

/-! ### acyclicity -/

/-- `b` is `a` or a descendant of `a` through the child lists -/
inductive Reaches (h : Heap) : Id → Id → Prop
  | refl (a : Id) : Reaches h a a
  | step (a b c : Id) : b ∈ h.kids a → Reaches h b c → Reaches h a c

theorem Reaches.tail {h : Heap} {a b c : Id} (hab : Reaches h a b) (hbc : c ∈ h.kids b) : Reaches h a c := by
  induction hab with
  | refl a => exact .step a c c hbc (.refl c)
  | step a b d hm _ ih => exact .step a b c hm (ih hbc)

/-- a rank decreases along every child edge: no node is its own descendant -/
def Acyclic (h : Heap) : Prop := ∃ r : Id → Nat, ∀ n x, x ∈ h.kids n → r x < r n

open Classical in
theorem acyclic_putAt {h : Heap} (hac : Acyclic h) (s : Id) (k : Nat) (c : Id) (hnr : ¬ Reaches h c s) :
    Acyclic (putAt h s k c) := by
  obtain ⟨r, hr⟩ := hac
  refine ⟨fun n => if Reaches h c n then r n else r n + r c + 1, ?_⟩
  intro n x hx
  have hold : x ∈ h.kids n → (if Reaches h c x then r x else r x + r c + 1) < (if Reaches h c n then r n else r n + r c + 1) := by
    intro hm
    have := hr n x hm
    by_cases hn : Reaches h c n
    · have hxr : Reaches h c x := hn.tail hm
      simp only [hn, hxr, if_true]; exact this
    · simp only [hn, if_false]
      split <;> omega
  simp only [putAt, upd] at hx
  by_cases hns : n = s
  · subst hns
    simp only [if_true] at hx
    rcases mem_middle.mp hx with e | hm
    · subst e
      simp only [Reaches.refl, if_true, hnr, if_false]; omega
    · exact hold hm
  · simp only [hns, if_false] at hx
    exact hold hx

theorem acyclic_takeAt {h : Heap} (hac : Acyclic h) (s : Id) (j : Nat) (x : Id) : Acyclic (takeAt h s j x) := by
  obtain ⟨r, hr⟩ := hac
  refine ⟨r, ?_⟩
  intro n y hy
  simp only [takeAt, upd] at hy
  by_cases hns : n = s
  · subst hns; simp only [if_true] at hy; exact hr n y (List.mem_of_mem_eraseIdx hy)
  · simp only [hns, if_false] at hy; exact hr n y hy

theorem acyclic_pop {h : Heap} (ha : NoAlias h) (hac : Acyclic h) (s : Id) (i : Int) : Acyclic (pop h s i).1 := by
  rcases pop_cases ha s i with he | ⟨j, x, _, _, he⟩ <;> rw [he]
  · exact hac
  · exact acyclic_takeAt hac s j x

theorem acyclic_removeChild {h : Heap} (ha : NoAlias h) (hac : Acyclic h) (s c : Id) : Acyclic (removeChild h s c).1 := by
  rcases removeChild_cases ha s c with ⟨_, he⟩ | ⟨_, he⟩ <;> rw [he]
  · exact hac
  · exact acyclic_takeAt hac s _ c

/-- an acyclic heap has no node that reaches itself through a child -/
theorem acyclic_irrefl {h : Heap} (hac : Acyclic h) (a b : Id) (hm : b ∈ h.kids a) : ¬ Reaches h b a := by
  obtain ⟨r, hr⟩ := hac
  have mono : ∀ x y, Reaches h x y → r y ≤ r x := by
    intro x y hxy
    induction hxy with
    | refl a => exact Nat.le_refl _
    | step a b c hm' _ ih => have := hr a b hm'; omega
  intro hba
  have := mono b a hba
  have := hr a b hm
  omega

theorem reaches_mono {h1 h : Heap} (hsub : ∀ n x, x ∈ h1.kids n → x ∈ h.kids n) {a b : Id}
    (hr : Reaches h1 a b) : Reaches h a b := by
  induction hr with
  | refl a => exact .refl a
  | step a b c hm _ ih => exact .step a b c (hsub a b hm) ih

theorem takeAt_kids_sub (h : Heap) (s : Id) (j : Nat) (x : Id) : ∀ n y, y ∈ (takeAt h s j x).kids n → y ∈ h.kids n := by
  intro n y hy
  simp only [takeAt, upd] at hy
  by_cases hns : n = s
  · subst hns; simp only [if_true] at hy; exact List.mem_of_mem_eraseIdx hy
  · simp only [hns, if_false] at hy; exact hy

theorem pop_kids_sub {h : Heap} (ha : NoAlias h) (s : Id) (i : Int) : ∀ n y, y ∈ (pop h s i).1.kids n → y ∈ h.kids n := by
  rcases pop_cases ha s i with he | ⟨j, x, _, _, he⟩ <;> rw [he]
  · exact fun _ _ hm => hm
  · exact takeAt_kids_sub h s j x

theorem removeChild_kids_sub {h : Heap} (ha : NoAlias h) (s c : Id) :
    ∀ n y, y ∈ (removeChild h s c).1.kids n → y ∈ h.kids n := by
  rcases removeChild_cases ha s c with ⟨_, he⟩ | ⟨_, he⟩ <;> rw [he]
  · exact fun _ _ hm => hm
  · exact takeAt_kids_sub h s _ c

/-- a path to `s` in the heap after putting `c` below `s` is (up to its first arrival at `s`) a path of the old heap -/
theorem reaches_putAt_target {h : Heap} (s : Id) (k : Nat) (c : Id) {a t : Id} (hr : Reaches (putAt h s k c) a t)
    (ht : t = s) : Reaches h a s := by
  induction hr with
  | refl a => subst ht; exact .refl _
  | step a b d hm _ ih =>
    have ihb := ih ht
    simp only [putAt, upd] at hm
    by_cases has : a = s
    · subst has; exact .refl _
    · simp only [has, if_false] at hm; exact .step a b s hm ihb

theorem acyclic_setPO {h : Heap} (hac : Acyclic h) (s c : Id) : Acyclic (setPO h s c) := hac

theorem acyclic_appendAll (s : Id) (cs : List Id) : ∀ h : Heap, Acyclic h → (∀ c ∈ cs, ¬ Reaches h c s) →
    Acyclic (appendAll h s cs) := by
  induction cs with
  | nil => intro h hac _; exact hac
  | cons c cs ih =>
    intro h hac hn
    rw [appendAll_cons]
    apply ih _ (acyclic_putAt hac s _ c (hn c (by simp)))
    intro d hd hr
    exact hn d (by simp [hd]) (reaches_putAt_target s _ c hr rfl)

theorem acyclic_insertAll (s : Id) (cs : List Id) : ∀ (h : Heap) (i : Int), Acyclic h → (∀ c ∈ cs, ¬ Reaches h c s) →
    Acyclic (insertAll h s i cs).1 := by
  induction cs with
  | nil => intro h i hac _; exact hac
  | cons c cs ih =>
    intro h i hac hn
    rw [insertAll_cons]
    apply ih _ _ (acyclic_putAt hac s _ c (hn c (by simp)))
    intro d hd hr
    exact hn d (by simp [hd]) (reaches_putAt_target s _ c hr rfl)

theorem reaches_leaf {h : Heap} {a b : Id} (hk : h.kids a = []) (hr : Reaches h a b) : a = b := by
  cases hr with
  | refl => rfl
  | step _ x _ hm _ => rw [hk] at hm; cases hm

/-! ### fragment arguments for the moving operations, item assignment and extend -/

theorem insertAll_snd (s : Id) (cs : List Id) : ∀ (h : Heap) (i : Int), (insertAll h s i cs).2 = i + cs.length := by
  induction cs with
  | nil => intro h i; simp [insertAll]
  | cons c cs ih => intro h i; rw [insertAll_cons, ih]; simp; omega

theorem insertAll_kind (s : Id) (cs : List Id) : ∀ (h : Heap) (i : Int), (insertAll h s i cs).1.kind = h.kind := by
  induction cs with
  | nil => intro h i; rfl
  | cons c cs ih => intro h i; rw [insertAll_cons, ih]; rfl

theorem noAlias_insertAll (s : Id) (cs : List Id) : ∀ (h : Heap) (i : Int), NoAlias h → NoAlias (insertAll h s i cs).1 := by
  induction cs with
  | nil => intro h i ha; exact ha
  | cons c cs ih => intro h i ha; rw [insertAll_cons]; exact ih _ _ (noAlias_putAt ha _ _ _)

theorem noAlias_appendAll (s : Id) (cs : List Id) : ∀ (h : Heap), NoAlias h → NoAlias (appendAll h s cs) := by
  induction cs with
  | nil => intro h ha; exact ha
  | cons c cs ih => intro h ha; rw [appendAll_cons]; exact ih _ (noAlias_putAt ha _ _ _)

theorem pop_kids_other {h : Heap} (ha : NoAlias h) (s : Id) (i : Int) (n : Id) (hn : n ≠ s) :
    (pop h s i).1.kids n = h.kids n := by
  rcases pop_cases ha s i with he | ⟨j, x, _, _, he⟩ <;> rw [he]
  exact takeAt_kids_other h s j x n hn

theorem insertRel_frag_eq {h : Heap} (ha : NoAlias h) (off : Nat) (s new ref : Id) (hk : h.kind new = .frag)
    (hne : new ≠ s) (hit : ∀ it ∈ h.kids new, h.kind it ≠ .frag) :
    (insertRel off h s new ref).1 =
      let h1 := (removeChild h s new).1
      if ref ∈ h1.kids s then setPO (insertAll h1 s (((h1.kids s).idxOf ref + off : Nat) : Int) (h.kids new)).1 s new
      else h1 := by
  have ha1 := noAlias_removeChild ha s new
  have hk1 : (removeChild h s new).1.kind new = .frag := by rw [removeChild_kind ha]; exact hk
  have hkids : (removeChild h s new).1.kids new = h.kids new := removeChild_kids_other ha s new new hne
  have hit1 : ∀ it ∈ (removeChild h s new).1.kids new, (removeChild h s new).1.kind it ≠ .frag := by
    rw [hkids, removeChild_kind ha]; exact hit
  simp only [insertRel, childList_eq ha1, splices_ne ha1 s new hne]
  split
  · simp [insert_frag_eq ha1 s _ new hk1 hit1, hkids]
  · rfl

theorem replaceChild_frag_eq {h : Heap} (ha : NoAlias h) (s new old : Id) (hk : h.kind new = .frag)
    (hne : new ≠ s) (hit : ∀ it ∈ h.kids new, h.kind it ≠ .frag) :
    (replaceChild h s new old).1 =
      let h1 := (removeChild h s new).1
      if old ∈ h1.kids s then
        let h2 := (pop h1 s ((h1.kids s).idxOf old)).1
        setPO (insertAll h2 s ((h1.kids s).idxOf old) (h.kids new)).1 s new
      else h1 := by
  have ha1 := noAlias_removeChild ha s new
  have ha2 := noAlias_pop ha1 s (((removeChild h s new).1.kids s).idxOf old)
  have hk2 : (pop (removeChild h s new).1 s (((removeChild h s new).1.kids s).idxOf old)).1.kind new = .frag := by
    rw [pop_kind ha1, removeChild_kind ha]; exact hk
  have hkids : (pop (removeChild h s new).1 s (((removeChild h s new).1.kids s).idxOf old)).1.kids new = h.kids new := by
    rw [pop_kids_other ha1 s _ new hne, removeChild_kids_other ha s new new hne]
  have hit2 : ∀ it ∈ (pop (removeChild h s new).1 s (((removeChild h s new).1.kids s).idxOf old)).1.kids new,
      (pop (removeChild h s new).1 s (((removeChild h s new).1.kids s).idxOf old)).1.kind it ≠ .frag := by
    rw [hkids, pop_kind ha1, removeChild_kind ha]; exact hit
  simp only [replaceChild, childList_eq ha1, splices_ne ha2 s new hne]
  split
  · simp [insert_frag_eq ha2 s _ new hk2 hit2, hkids]
  · rfl

theorem setItem_frag_eq {h : Heap} (ha : NoAlias h) (s : Id) (i : Int) (c : Id) (hk : h.kind c = .frag)
    (hne : c ≠ s) (hit : ∀ it ∈ h.kids c, h.kind it ≠ .frag) :
    setItem h s i c = opPop (insertAll h s i (h.kids c)).1 s (i + (h.kids c).length) := by
  have hf := foldl_insert_leaf (h.next + 1) s (h.kids c) h i ha hit
  have hfuel : fuelOf h = h.next + 1 + 1 := rfl
  simp only [setItem, splices_ne ha s c hne, hk, if_true, Bool.false_eq_true, if_false, hfuel, hf, insertAll_snd]

/-- `append` (any fuel, any argument) touches neither kinds nor the `self` attributes -/
theorem append_kind_attr : ∀ (fuel : Nat) (h : Heap) (s c : Id),
    (append fuel h s c).kind = h.kind ∧ (append fuel h s c).attr = h.attr := by
  intro fuel
  induction fuel with
  | zero => intro h s c; exact ⟨rfl, rfl⟩
  | succ f ih =>
    intro h s c
    rw [append]
    split
    · have : ∀ (l : List Id) (a : Heap), (l.foldl (fun a it => append f a s it) a).kind = a.kind ∧
          (l.foldl (fun a it => append f a s it) a).attr = a.attr := by
        intro l
        induction l with
        | nil => intro a; exact ⟨rfl, rfl⟩
        | cons x xs ihl =>
          intro a
          rw [List.foldl_cons]
          have h1 := ihl (append f a s x)
          have h2 := ih a s x
          exact ⟨h1.1.trans h2.1, h1.2.trans h2.2⟩
      exact this (h.kids c) h
    · simp only [appendLeaf, setPO, rawAppend]
      split <;> exact ⟨rfl, rfl⟩

theorem opAppend_kind (h : Heap) (s c : Id) : (opAppend h s c).1.kind = h.kind := by
  unfold opAppend; split
  · rfl
  · exact (append_kind_attr _ h s c).1

theorem noAlias_opAppend {h : Heap} (ha : NoAlias h) (s c : Id) : NoAlias (opAppend h s c).1 := by
  intro n
  unfold opAppend; split
  · exact ha n
  · rw [(append_kind_attr _ h s c).2]; exact ha n

/-- `extend` over arguments none of which makes the splice loop diverge is the fold of `append` -/
theorem extend_any_eq (s : Id) (cs : List Id) : ∀ (h : Heap), NoAlias h → (∀ c ∈ cs, h.kind c = .frag → c ≠ s) →
    extend h s cs = (cs.foldl (fun a c => (opAppend a s c).1) h, none) := by
  induction cs with
  | nil => intro h _ _; rfl
  | cons c cs ih =>
    intro h ha hk
    have hsp : splices h s c = false := by
      by_cases hc : h.kind c = .frag
      · exact splices_ne ha s c (hk c (by simp) hc)
      · exact splices_leaf h s c hc
    have hop : opAppend h s c = ((opAppend h s c).1, none) := by
      simp [opAppend, hsp]
    have := ih (opAppend h s c).1 (noAlias_opAppend ha s c)
      (fun d hd hkd => hk d (by simp [hd]) (by rw [opAppend_kind] at hkd; exact hkd))
    simp only [extend, List.foldl_cons] at this ⊢
    rw [hop]
    exact this

/-- a fragment argument: not the receiver, listed nowhere, its items distinct, detached single nodes -/
def FragArg (h : Heap) (s c : Id) : Prop :=
  h.kind c = .frag ∧ c ≠ s ∧ Detached h c ∧ (h.kids c).Nodup ∧ ∀ it ∈ h.kids c, h.kind it ≠ .frag ∧ Detached h it

theorem FragArg.not_self_item {h : Heap} {s c : Id} (hp : FragArg h s c) : c ∉ h.kids c :=
  fun hm => (hp.2.2.2.2 c hm).1 hp.1

/-- `insertBefore/insertAfter(fragment, ref)` -/
theorem insertRel_frag_inv {h : Heap} (ha : NoAlias h) (hi : Inv h) (off : Nat) (s new ref : Id) (hp : FragArg h s new) :
    NoAlias (insertRel off h s new ref).1 ∧ Inv (insertRel off h s new ref).1 := by
  obtain ⟨hk, hne, hdc, hnd, hit⟩ := hp
  rw [insertRel_frag_eq ha off s new ref hk hne (fun it hm => (hit it hm).1)]
  have ha1 := noAlias_removeChild ha s new
  have hi1 := inv_removeChild ha hi s new
  simp only
  split
  · have := inv_insertAll s (h.kids new) (removeChild h s new).1
      ((((removeChild h s new).1.kids s).idxOf ref + off : Nat) : Int) ha1 hi1 hnd
      (fun it hm => detached_removeChild ha s new it (hit it hm).2)
    exact ⟨noAlias_setPO this.1 s new, inv_setPO this.2 s new
      (detached_insertAll s _ new _ _ (fun hm => (hit new hm).1 hk) (detached_removeChild ha s new new hdc))⟩
  · exact ⟨ha1, hi1⟩

theorem insertRel_frag_owned {h : Heap} (ha : NoAlias h) (ho : Owned h) (off : Nat) (s new ref : Id) (hp : FragArg h s new) :
    Owned (insertRel off h s new ref).1 := by
  obtain ⟨hk, hne, _, _, hit⟩ := hp
  rw [insertRel_frag_eq ha off s new ref hk hne (fun it hm => (hit it hm).1)]
  simp only
  split
  · exact owned_setPO (owned_insertAll s _ _ _ (owned_removeChild ha ho s new)) s new
  · exact owned_removeChild ha ho s new

theorem insertRel_frag_acyclic {h : Heap} (ha : NoAlias h) (hac : Acyclic h) (off : Nat) (s new ref : Id)
    (hp : FragArg h s new) (hs : ∀ it ∈ h.kids new, ¬ Reaches h it s) : Acyclic (insertRel off h s new ref).1 := by
  obtain ⟨hk, hne, _, _, hit⟩ := hp
  rw [insertRel_frag_eq ha off s new ref hk hne (fun it hm => (hit it hm).1)]
  simp only
  split
  · exact acyclic_setPO (acyclic_insertAll s _ _ _ (acyclic_removeChild ha hac s new)
      (fun it hm hr => hs it hm (reaches_mono (removeChild_kids_sub ha s new) hr))) s new
  · exact acyclic_removeChild ha hac s new

/-- `replaceChild(fragment, old)` -/
theorem replaceChild_frag_inv {h : Heap} (ha : NoAlias h) (hi : Inv h) (s new old : Id) (hp : FragArg h s new) :
    NoAlias (replaceChild h s new old).1 ∧ Inv (replaceChild h s new old).1 := by
  obtain ⟨hk, hne, hdc, hnd, hit⟩ := hp
  rw [replaceChild_frag_eq ha s new old hk hne (fun it hm => (hit it hm).1)]
  have ha1 := noAlias_removeChild ha s new
  have hi1 := inv_removeChild ha hi s new
  simp only
  split
  · have ha2 := noAlias_pop ha1 s (((removeChild h s new).1.kids s).idxOf old)
    have hi2 := inv_pop ha1 hi1 s (((removeChild h s new).1.kids s).idxOf old)
    have := inv_insertAll s (h.kids new) _ (((removeChild h s new).1.kids s).idxOf old) ha2 hi2 hnd
      (fun it hm => detached_pop ha1 s _ it (detached_removeChild ha s new it (hit it hm).2))
    exact ⟨noAlias_setPO this.1 s new, inv_setPO this.2 s new
      (detached_insertAll s _ new _ _ (fun hm => (hit new hm).1 hk)
        (detached_pop ha1 s _ new (detached_removeChild ha s new new hdc)))⟩
  · exact ⟨ha1, hi1⟩

theorem replaceChild_frag_owned {h : Heap} (ha : NoAlias h) (ho : Owned h) (s new old : Id) (hp : FragArg h s new) :
    Owned (replaceChild h s new old).1 := by
  obtain ⟨hk, hne, _, _, hit⟩ := hp
  rw [replaceChild_frag_eq ha s new old hk hne (fun it hm => (hit it hm).1)]
  simp only
  split
  · exact owned_setPO (owned_insertAll s _ _ _ (owned_pop (noAlias_removeChild ha s new) (owned_removeChild ha ho s new) _ _)) s new
  · exact owned_removeChild ha ho s new

theorem replaceChild_frag_acyclic {h : Heap} (ha : NoAlias h) (hac : Acyclic h) (s new old : Id)
    (hp : FragArg h s new) (hs : ∀ it ∈ h.kids new, ¬ Reaches h it s) : Acyclic (replaceChild h s new old).1 := by
  obtain ⟨hk, hne, _, _, hit⟩ := hp
  rw [replaceChild_frag_eq ha s new old hk hne (fun it hm => (hit it hm).1)]
  have ha1 := noAlias_removeChild ha s new
  simp only
  split
  · exact acyclic_setPO (acyclic_insertAll s _ _ _ (acyclic_pop ha1 (acyclic_removeChild ha hac s new) _ _)
      (fun it hm hr => hs it hm (reaches_mono (removeChild_kids_sub ha s new) (reaches_mono (pop_kids_sub ha1 s _) hr)))) s new
  · exact acyclic_removeChild ha hac s new

/-- `node[i] = fragment` -/
theorem setItem_frag_inv {h : Heap} (ha : NoAlias h) (hi : Inv h) (s : Id) (i : Int) (c : Id) (hp : FragArg h s c) :
    NoAlias (setItem h s i c).1 ∧ Inv (setItem h s i c).1 := by
  obtain ⟨hk, hne, _, hnd, hit⟩ := hp
  rw [setItem_frag_eq ha s i c hk hne (fun it hm => (hit it hm).1), opPop_fst]
  have := inv_insertAll s (h.kids c) h i ha hi hnd (fun it hm => (hit it hm).2)
  exact ⟨noAlias_pop this.1 _ _, inv_pop this.1 this.2 _ _⟩

theorem setItem_frag_owned {h : Heap} (ha : NoAlias h) (ho : Owned h) (s : Id) (i : Int) (c : Id) (hp : FragArg h s c) :
    Owned (setItem h s i c).1 := by
  obtain ⟨hk, hne, _, _, hit⟩ := hp
  rw [setItem_frag_eq ha s i c hk hne (fun it hm => (hit it hm).1), opPop_fst]
  exact owned_pop (noAlias_insertAll s _ h i ha) (owned_insertAll s _ h i ho) _ _

theorem setItem_frag_acyclic {h : Heap} (ha : NoAlias h) (hac : Acyclic h) (s : Id) (i : Int) (c : Id)
    (hp : FragArg h s c) (hs : ∀ it ∈ h.kids c, ¬ Reaches h it s) : Acyclic (setItem h s i c).1 := by
  obtain ⟨hk, hne, _, _, hit⟩ := hp
  rw [setItem_frag_eq ha s i c hk hne (fun it hm => (hit it hm).1), opPop_fst]
  exact acyclic_pop (noAlias_insertAll s _ h i ha) (acyclic_insertAll s _ h i hac hs) _ _

/-! ### `extend` with arbitrary (single or fragment) items -/

/-- "detached or fragment argument" -/
def ArgOK (h : Heap) (s c : Id) : Prop := (h.kind c ≠ .frag ∧ Detached h c) ∨ FragArg h s c

/-- the nodes an argument stands for -/
def itemsOf (h : Heap) (c : Id) : List Id := if h.kind c = .frag then h.kids c else [c]

theorem opAppend_frag_eq {h : Heap} (ha : NoAlias h) (s c : Id) (hp : FragArg h s c) :
    opAppend h s c = (setPO (appendAll h s (h.kids c)) s c, none) := by
  obtain ⟨hk, hne, _, _, hit⟩ := hp
  simp only [opAppend, splices_ne ha s c hne, Bool.false_eq_true, if_false,
    append_frag_eq ha s c hk (fun it hm => (hit it hm).1)]

theorem opAppend_argOK_inv {h : Heap} (ha : NoAlias h) (hi : Inv h) (s c : Id) (hp : ArgOK h s c) :
    NoAlias (opAppend h s c).1 ∧ Inv (opAppend h s c).1 := by
  rcases hp with ⟨hk, hd⟩ | hp
  · rw [opAppend_leaf ha s c hk]; exact ⟨noAlias_putAt ha _ _ _, inv_putAt hi s _ c hd⟩
  · rw [opAppend_frag_eq ha s c hp]
    have := inv_appendAll s (h.kids c) h ha hi hp.2.2.2.1 (fun it hm => (hp.2.2.2.2 it hm).2)
    exact ⟨noAlias_setPO this.1 s c, inv_setPO this.2 s c (detached_appendAll s _ c h hp.not_self_item hp.2.2.1)⟩

theorem opAppend_argOK_owned {h : Heap} (ha : NoAlias h) (ho : Owned h) (s c : Id) (hp : ArgOK h s c) :
    Owned (opAppend h s c).1 := by
  rcases hp with ⟨hk, _⟩ | hp
  · rw [opAppend_leaf ha s c hk]; exact owned_putAt ho _ _ _
  · rw [opAppend_frag_eq ha s c hp]; exact owned_setPO (owned_appendAll s _ h ho) s c

theorem opAppend_argOK_acyclic {h : Heap} (ha : NoAlias h) (hac : Acyclic h) (s c : Id) (hp : ArgOK h s c)
    (hs : ∀ it ∈ itemsOf h c, ¬ Reaches h it s) : Acyclic (opAppend h s c).1 := by
  rcases hp with ⟨hk, _⟩ | hp
  · rw [opAppend_leaf ha s c hk]; exact acyclic_putAt hac _ _ _ (hs c (by simp [itemsOf, hk]))
  · rw [opAppend_frag_eq ha s c hp]
    exact acyclic_setPO (acyclic_appendAll s _ h hac (fun it hm => hs it (by simp [itemsOf, hp.1, hm]))) s c

/-- every item of an `extend` is a legal argument in the state in which it is appended -/
def ExtendPre (s : Id) : Heap → List Id → Prop
  | _, [] => True
  | h, c :: cs => ArgOK h s c ∧ ExtendPre s (opAppend h s c).1 cs

/-- … and none of them is an ancestor of the receiver -/
def ExtendSafe (s : Id) : Heap → List Id → Prop
  | _, [] => True
  | h, c :: cs => (∀ it ∈ itemsOf h c, ¬ Reaches h it s) ∧ ExtendSafe s (opAppend h s c).1 cs

theorem extendPre_frag_ne (s : Id) (cs : List Id) : ∀ h : Heap, ExtendPre s h cs → ∀ c ∈ cs, h.kind c = .frag → c ≠ s := by
  induction cs with
  | nil => intro h _ c hc; cases hc
  | cons d ds ih =>
    intro h hp c hc hk
    rcases List.mem_cons.mp hc with e | hm
    · subst e
      rcases hp.1 with ⟨hnk, _⟩ | hf
      · exact absurd hk hnk
      · exact hf.2.1
    · exact ih _ hp.2 c hm (by rw [opAppend_kind]; exact hk)

theorem extend_any_fst {h : Heap} (ha : NoAlias h) (s : Id) (cs : List Id) (hp : ExtendPre s h cs) :
    (extend h s cs).1 = cs.foldl (fun a c => (opAppend a s c).1) h ∧ (extend h s cs).2 = none := by
  rw [extend_any_eq s cs h ha (extendPre_frag_ne s cs h hp)]; exact ⟨rfl, rfl⟩

theorem extend_any_inv (s : Id) (cs : List Id) : ∀ h : Heap, NoAlias h → Inv h → ExtendPre s h cs →
    NoAlias (cs.foldl (fun a c => (opAppend a s c).1) h) ∧ Inv (cs.foldl (fun a c => (opAppend a s c).1) h) := by
  induction cs with
  | nil => intro h ha hi _; exact ⟨ha, hi⟩
  | cons c cs ih =>
    intro h ha hi hp
    have := opAppend_argOK_inv ha hi s c hp.1
    exact ih _ this.1 this.2 hp.2

theorem extend_any_owned (s : Id) (cs : List Id) : ∀ h : Heap, NoAlias h → Inv h → Owned h → ExtendPre s h cs →
    Owned (cs.foldl (fun a c => (opAppend a s c).1) h) := by
  induction cs with
  | nil => intro h _ _ ho _; exact ho
  | cons c cs ih =>
    intro h ha hi ho hp
    have := opAppend_argOK_inv ha hi s c hp.1
    exact ih _ this.1 this.2 (opAppend_argOK_owned ha ho s c hp.1) hp.2

theorem extend_any_acyclic (s : Id) (cs : List Id) : ∀ h : Heap, NoAlias h → Inv h → Acyclic h → ExtendPre s h cs →
    ExtendSafe s h cs → Acyclic (cs.foldl (fun a c => (opAppend a s c).1) h) := by
  induction cs with
  | nil => intro h _ _ hac _ _; exact hac
  | cons c cs ih =>
    intro h ha hi hac hp hs
    have := opAppend_argOK_inv ha hi s c hp.1
    exact ih _ this.1 this.2 (opAppend_argOK_acyclic ha hac s c hp.1 hs.1) hp.2 hs.2

theorem flatMap_congr_mem {l : List Id} {f g : Id → List Id} (h : ∀ d ∈ l, f d = g d) : l.flatMap f = l.flatMap g := by
  induction l with
  | nil => rfl
  | cons a l ih => simp [List.flatMap_cons, h a (by simp), ih (fun d hd => h d (by simp [hd]))]

theorem eraseIdx_after_block (l items : List Id) (k : Nat) (hk : k < l.length) :
    (l.take k ++ items ++ l.drop k).eraseIdx (k + items.length) = l.take k ++ items ++ l.drop (k + 1) := by
  have hlen : (l.take k ++ items).length = k + items.length := by
    simp [List.length_take, Nat.min_eq_left (Nat.le_of_lt hk)]
  rw [List.eraseIdx_append_of_length_le (by omega), hlen, Nat.sub_self]
  congr 1
  rw [List.drop_eq_getElem_cons hk]; simp

/-! ### the other attribute-held fragment (`attr2`) is touched by no list operation -/

@[simp] theorem putAt_attr2 (h : Heap) (s : Id) (k : Nat) (c : Id) : (putAt h s k c).attr2 = h.attr2 := rfl
@[simp] theorem takeAt_attr2 (h : Heap) (s : Id) (j : Nat) (x : Id) : (takeAt h s j x).attr2 = h.attr2 := rfl
@[simp] theorem setPO_attr2 (h : Heap) (s c : Id) : (setPO h s c).attr2 = h.attr2 := rfl

theorem pop_attr2 {h : Heap} (ha : NoAlias h) (s : Id) (i : Int) : (pop h s i).1.attr2 = h.attr2 := by
  rcases pop_cases ha s i with he | ⟨j, x, _, _, he⟩ <;> rw [he]; rfl
theorem removeChild_attr2 {h : Heap} (ha : NoAlias h) (s c : Id) : (removeChild h s c).1.attr2 = h.attr2 := by
  rcases removeChild_cases ha s c with ⟨_, he⟩ | ⟨_, he⟩ <;> rw [he]; rfl
theorem appendAll_attr2 (s : Id) (cs : List Id) : ∀ h : Heap, (appendAll h s cs).attr2 = h.attr2 := by
  induction cs with
  | nil => intro h; rfl
  | cons c cs ih => intro h; rw [appendAll_cons, ih]; rfl
theorem insertAll_attr2 (s : Id) (cs : List Id) : ∀ (h : Heap) (i : Int), (insertAll h s i cs).1.attr2 = h.attr2 := by
  induction cs with
  | nil => intro h i; rfl
  | cons c cs ih => intro h i; rw [insertAll_cons, ih]; rfl

theorem opAppend_argOK_attr2 {h : Heap} (ha : NoAlias h) (s c : Id) (hp : ArgOK h s c) : (opAppend h s c).1.attr2 = h.attr2 := by
  rcases hp with ⟨hk, _⟩ | hp
  · rw [opAppend_leaf ha s c hk]; rfl
  · rw [opAppend_frag_eq ha s c hp]; exact appendAll_attr2 s _ h

theorem extend_any_attr2 (s : Id) (cs : List Id) : ∀ h : Heap, NoAlias h → Inv h → ExtendPre s h cs →
    (cs.foldl (fun a c => (opAppend a s c).1) h).attr2 = h.attr2 := by
  induction cs with
  | nil => intro h _ _ _; rfl
  | cons c cs ih =>
    intro h ha hi hp
    have := opAppend_argOK_inv ha hi s c hp.1
    rw [List.foldl_cons, ih _ this.1 this.2 hp.2, opAppend_argOK_attr2 ha s c hp.1]

end PlasVerif.Proofs.Dom
