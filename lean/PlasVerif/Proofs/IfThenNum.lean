import PlasVerif.Model.IfThenNum
import PlasVerif.Spec.Numeral
namespace PlasVerif.Proofs.IfThenNum
open PlasVerif.Model.IfThen PlasVerif.Spec.Numeral

theorem digitChar_facts : ∀ d : Fin 10, (digitChar d.val).isDigit = true ∧ (digitChar d.val).toNat - 48 = d.val
    ∧ digitChar d.val ≠ '+' ∧ digitChar d.val ≠ '-' ∧ digitChar d.val ≠ ' ' := by decide

theorem digitChar_isDigit {d : Nat} (h : d < 10) : (digitChar d).isDigit = true := (digitChar_facts ⟨d, h⟩).1
theorem digitChar_val {d : Nat} (h : d < 10) : (digitChar d).toNat - 48 = d := (digitChar_facts ⟨d, h⟩).2.1

theorem readSigns_blanks (s : Int) (k : Nat) (rest : List Char) :
    readSigns s (List.replicate k ' ' ++ rest) = readSigns s rest := by
  induction k with
  | zero => rfl
  | succ k ih => simp only [List.replicate_succ, List.cons_append, readSigns]; simpa using ih

theorem readSigns_digit (s : Int) {d : Nat} (h : d < 10) (rest : List Char) :
    readSigns s (digitChar d :: rest) = (s, digitChar d :: rest) := by
  have f := digitChar_facts ⟨d, h⟩
  simp only [readSigns, f.2.2.1, f.2.2.2.1, f.2.2.2.2, if_false]

theorem readSigns_spell (s : Int) (signs : List Sign) (rest : List Char) :
    readSigns s (signs.flatMap (fun g => (if g.minus then '-' else '+') :: List.replicate g.blanks ' ') ++ rest)
      = readSigns (s * signValue signs) rest := by
  induction signs generalizing s with
  | nil => simp [signValue]
  | cons g r ih =>
    simp only [List.flatMap_cons, List.cons_append, List.append_assoc, signValue]
    cases hm : g.minus
    · simp only [readSigns, Bool.false_eq_true, if_false, if_true, readSigns_blanks, ih, Int.one_mul]
    · have : ('-' : Char) ≠ '+' := by decide
      simp only [readSigns, if_true, this, if_false, readSigns_blanks, ih, Int.neg_mul, Int.mul_neg, Int.one_mul]

theorem readDigits_map (acc : Nat) (ds : List Nat) (h : ∀ d ∈ ds, d < 10) :
    readDigits acc (ds.map digitChar) = (ds.foldl (fun a d => a * 10 + d) acc, []) := by
  induction ds generalizing acc with
  | nil => rfl
  | cons d r ih =>
    have hd : d < 10 := h d (by simp)
    simp only [List.map_cons, readDigits, digitChar_isDigit hd, if_true, digitChar_val hd, List.foldl_cons]
    exact ih _ (fun x hx => h x (by simp [hx]))

end PlasVerif.Proofs.IfThenNum
