import PlasVerif.Proofs.DomViews
/-! Helper lemmas connecting the Spec's executable domain checks (`argOK`, `items`, index ranges) with the heap model. -/
namespace PlasVerif.Proofs.DomSpec
open PlasVerif.Model.Dom PlasVerif.Proofs.Dom PlasVerif.Proofs.DomViews
open PlasVerif.Spec

theorem kindOf_frag (k : Kind) : kindOf k = .frag ↔ k = .frag := by cases k <;> simp [kindOf]

theorem argOK_frag {h : Heap} {s c : Id} {b : Bool} (hk : h.kind c = .frag) (hok : DomTree.argOK (toLL h) s c b = true) :
    c ≠ s ∧ ∀ it ∈ h.kids c, h.kind it ≠ .frag := by
  have hk' : (toLL h).kind c = .frag := by simp [hk, kindOf]
  simp only [DomTree.argOK, hk', if_true, Bool.and_eq_true, List.all_eq_true, bne_iff_ne, ne_eq] at hok
  refine ⟨hok.2.1.1, ?_⟩
  intro it hit
  have := (hok.2.1.2 it (by simpa using hit)).1
  simp only [DomTree.nodeOK, Bool.and_eq_true, bne_iff_ne, ne_eq, toLL_kind] at this
  intro e
  exact this.1.1.1.1 (by simp [e, kindOf])

theorem items_leaf {h : Heap} {c : Id} (hk : h.kind c ≠ .frag) : DomTree.items (toLL h) c = [c] := by
  have hk' : kindOf (h.kind c) ≠ .frag := fun e => hk ((kindOf_frag _).mp e)
  simp [DomTree.items, hk']

theorem items_frag {h : Heap} {c : Id} (hk : h.kind c = .frag) : DomTree.items (toLL h) c = h.kids c := by
  simp [DomTree.items, hk, kindOf]

/-- a child-list map that is `v` at `s` and the old map elsewhere -/
theorem kids_eq_set {k k0 : Id → List Id} {s : Id} {v : List Id} (h1 : k s = v) (h2 : ∀ n, n ≠ s → k n = k0 n) :
    k = DomTree.set k0 s v := by
  funext n; by_cases hn : n = s
  · subst hn; simp [DomTree.set, h1]
  · simp [DomTree.set, hn, h2 n hn]

theorem pyPopPos_range {n : Nat} {i : Int} (h1 : -(n : Int) ≤ i) (h2 : i < n) :
    pyPopPos n i = some (if i < 0 then i + n else i).toNat := by
  unfold pyPopPos
  by_cases hi : i < 0
  · have hc : ¬ (i + ↑n < 0 ∨ i + ↑n ≥ ↑n) := by omega
    simp [hi, hc]
  · simp [hi] <;> omega

end PlasVerif.Proofs.DomSpec
