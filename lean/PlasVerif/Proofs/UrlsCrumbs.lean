import PlasVerif.Proofs.Urls
/-! Helper lemmas for C14: `up` links and breadcrumbs are URLs of nodes of the tree. -/
namespace PlasVerif.Proofs.UrlsCrumbs
open PlasVerif.Model.Urls PlasVerif.Proofs.Urls

@[simp] theorem nodesA_node (anc lv id info file kids) :
    nodesA anc (.node lv id info file kids) =
      (.node lv id info file kids, anc) :: nodesAList (.node lv id info file kids :: anc) kids := by rw [nodesA]
@[simp] theorem nodesAList_nil (anc) : nodesAList anc [] = [] := by rw [nodesAList]
@[simp] theorem nodesAList_cons (anc t ts) : nodesAList anc (t :: ts) = nodesA anc t ++ nodesAList anc ts := by
  rw [nodesAList]

/- `urls` is `nodesA` with the URL computed from the recorded chain -/
mutual
theorem urls_eq (anc : List Tree) : ∀ (t : Tree), urls anc t = (nodesA anc t).map (fun p => (p.1, url p.1 p.2))
  | .node lv id info file kids => by
    simp only [urls_node, nodesA_node, List.map_cons]
    rw [urlsList_eq]
theorem urlsList_eq (anc : List Tree) : ∀ (ts : List Tree),
    urlsList anc ts = (nodesAList anc ts).map (fun p => (p.1, url p.1 p.2))
  | [] => by simp
  | t :: ts => by
    simp only [urlsList_cons, nodesAList_cons, List.map_append]
    rw [urls_eq anc t, urlsList_eq anc ts]
end

/- the recorded chains are closed under taking ancestors: an ancestor of a node of the subtree is an ancestor
   of the subtree's root (it lies on `anc`) or itself a node of the subtree, recorded with its own chain -/
mutual
theorem anc_closed (anc : List Tree) : ∀ (t : Tree), ∀ p ∈ nodesA anc t, ∀ pre x rest, p.2 = pre ++ x :: rest →
    (∃ pre', anc = pre' ++ x :: rest) ∨ (x, rest) ∈ nodesA anc t
  | .node lv id info file kids => by
    intro p hp pre x rest he
    simp only [nodesA_node, List.mem_cons] at hp
    rcases hp with rfl | hp
    · exact .inl ⟨pre, he⟩
    · rcases anc_closedList (.node lv id info file kids :: anc) kids p hp pre x rest he with ⟨pre', h⟩ | h
      · cases pre' with
        | nil =>
          simp only [List.nil_append, List.cons.injEq] at h
          right
          rw [← h.1, ← h.2]
          simp
        | cons y pre'' =>
          simp only [List.cons_append, List.cons.injEq] at h
          exact .inl ⟨pre'', h.2⟩
      · right; simp [h]
theorem anc_closedList (anc : List Tree) : ∀ (ts : List Tree), ∀ p ∈ nodesAList anc ts, ∀ pre x rest,
    p.2 = pre ++ x :: rest → (∃ pre', anc = pre' ++ x :: rest) ∨ (x, rest) ∈ nodesAList anc ts
  | [] => by intro p hp; simp at hp
  | t :: ts => by
    intro p hp pre x rest he
    simp only [nodesAList_cons, List.mem_append] at hp
    rcases hp with hp | hp
    · rcases anc_closed anc t p hp pre x rest he with h | h
      · exact .inl h
      · right; simp [h]
    · rcases anc_closedList anc ts p hp pre x rest he with h | h
      · exact .inl h
      · right; simp [h]
end

/-- every breadcrumb collected by walking up is the URL of an ancestor, computed with that ancestor's own chain -/
theorem crumbsUp_mem : ∀ (a : List Tree), ∀ u ∈ crumbsUp a, ∃ pre x rest, a = pre ++ x :: rest ∧ u = url x rest
  | [], u, h => by simp [crumbsUp] at h
  | y :: ys, u, h => by
    simp only [crumbsUp] at h
    split at h
    · simp only [List.mem_cons] at h
      rcases h with rfl | h
      · exact ⟨[], y, ys, rfl, rfl⟩
      · obtain ⟨pre, x, rest, e, eu⟩ := crumbsUp_mem ys u h
        exact ⟨y :: pre, x, rest, by simp [e], eu⟩
    · simp only [List.mem_singleton] at h
      exact ⟨[], y, ys, rfl, h⟩

/-- all navigation URLs derived from a node's ancestors are URLs of nodes of the whole tree -/
theorem crumb_is_node_url (root : Tree) (n : Tree) (a : List Tree) (hn : (n, a) ∈ nodesA [] root) (u : Url)
    (hu : u ∈ breadcrumbs n a ∨ upOf n a = some u) : ∃ p ∈ urls [] root, p.2 = u := by
  have self : ∃ p ∈ urls [] root, p.2 = url n a := by
    rw [urls_eq]
    exact ⟨(n, url n a), List.mem_map.mpr ⟨(n, a), hn, rfl⟩, rfl⟩
  have ofAnc : ∀ pre x rest, a = pre ++ x :: rest → ∃ p ∈ urls [] root, p.2 = url x rest := by
    intro pre x rest e
    rcases anc_closed [] root (n, a) hn pre x rest e with ⟨pre', h⟩ | h
    · cases pre' <;> simp at h
    · rw [urls_eq]
      exact ⟨(x, url x rest), List.mem_map.mpr ⟨(x, rest), h, rfl⟩, rfl⟩
  rcases hu with hu | hu
  · unfold breadcrumbs at hu
    simp only [List.mem_reverse, List.mem_cons] at hu
    rcases hu with rfl | hu
    · exact self
    · split at hu
      · obtain ⟨pre, x, rest, e, eu⟩ := crumbsUp_mem a u hu
        rw [eu]; exact ofAnc pre x rest e
      · simp at hu
  · unfold upOf at hu
    split at hu
    · cases a with
      | nil => simp at hu
      | cons x rest =>
        simp only [Option.some.injEq] at hu
        rw [← hu]; exact ofAnc [] x rest rfl
    · simp at hu

/-! ### floats -/

@[simp] theorem descendants_node (lv id info file kids) : descendants (.node lv id info file kids) = descendantsList kids := by
  rw [descendants]
@[simp] theorem descendantsList_nil : descendantsList [] = [] := by rw [descendantsList]
@[simp] theorem descendantsList_cons (t ts) : descendantsList (t :: ts) = (t :: descendants t) ++ descendantsList ts := by
  rw [descendantsList]
@[simp] theorem countCaps_node (lv id info file kids) : countCaps (.node lv id info file kids) = countCapsList kids := by
  rw [countCaps]
@[simp] theorem countCapsList_nil : countCapsList [] = 0 := by rw [countCapsList]
@[simp] theorem countCapsList_cons (t ts) :
    countCapsList (t :: ts) = (if isCaption t then 1 else 0) + countCaps t + countCapsList ts := by rw [countCapsList]

/- `allChildNodes` sees every caption below the node exactly once, however deeply it is nested -/
mutual
theorem caps_length : ∀ (t : Tree), ((descendants t).filter isCaption).length = countCaps t
  | .node lv id info file kids => by simpa using capsList_length kids
theorem capsList_length : ∀ (ts : List Tree), ((descendantsList ts).filter isCaption).length = countCapsList ts
  | [] => by simp
  | t :: ts => by
    simp only [descendantsList_cons, List.cons_append, List.filter_cons, List.filter_append, countCapsList_cons]
    have a := caps_length t
    have b := capsList_length ts
    split <;> simp [a, b] <;> omega
end

end PlasVerif.Proofs.UrlsCrumbs
