import PlasVerif.Properties.C01
import PlasVerif.Model.MathParse
/-!
Helper lemmas for C11 (mathematics): a compositional description of what the C01 tokenizer
model makes of a string, blanks aside (`LexesTo`), its rules for the lexical pieces that
`Macro.source` emits, and the induction over formulas.
-/
namespace PlasVerif.Proofs.MathSource
open PlasVerif.Model.Catcodes PlasVerif.Model.Tokenizer PlasVerif.Generated.Catcodes
open PlasVerif.Model.MathSource PlasVerif.Model.MathParse PlasVerif.Spec.MathFormula
open PlasVerif.Proofs.Tokenizer

/-- tokens of `s` from tokenizer state `(st, p)`, blanks removed -/
def lexS (st : St) (p : Bool) (s : List Nat) : List Tok := stripBlanks (tokFrom defaultCats st p s)

/-- whatever follows and whatever state the tokenizer is in, `s` contributes exactly the tokens `T` (blanks aside) -/
def LexesTo (s : List Nat) (T : List Tok) : Prop :=
  ∀ st p rest, ∃ st' p', lexS st p (s ++ rest) = T ++ lexS st' p' rest

theorem strip_cons_ne (t : Tok) (l : List Tok) (h : t ≠ .space) : stripBlanks (t :: l) = t :: stripBlanks l := by
  have : (t != Tok.space) = true := by simpa using h
  simp [stripBlanks, List.filter, this]

theorem strip_cons_space (l : List Tok) : stripBlanks (.space :: l) = stripBlanks l := by
  simp [stripBlanks, List.filter]

namespace LexesTo

theorem nil : LexesTo [] [] := fun st p _ => ⟨st, p, rfl⟩

theorem append {s1 s2 : List Nat} {T1 T2 : List Tok} (h1 : LexesTo s1 T1) (h2 : LexesTo s2 T2) :
    LexesTo (s1 ++ s2) (T1 ++ T2) := by
  intro st p rest
  obtain ⟨st1, p1, e1⟩ := h1 st p (s2 ++ rest)
  obtain ⟨st2, p2, e2⟩ := h2 st1 p1 rest
  exact ⟨st2, p2, by rw [List.append_assoc, e1, e2, List.append_assoc]⟩

theorem cons_char {c cat : Nat} (hw : whichCode defaultCats c = cat) (hc : cat ∈ [1, 2, 3, 4, 6, 8, 11, 12])
    {s : List Nat} {T : List Tok} (h : LexesTo s T) : LexesTo (c :: s) (.ch cat c :: T) := by
  intro st p rest
  obtain ⟨st', p', e⟩ := h .M false rest
  refine ⟨st', p', ?_⟩
  have := PlasVerif.Properties.C01.rule_char defaultCats st p c (s ++ rest) (by rw [hw]; exact hc)
  rw [hw] at this
  show stripBlanks (tokFrom defaultCats st p (c :: (s ++ rest))) = _
  rw [this, strip_cons_ne _ _ (by simp)]
  show _ :: lexS .M false (s ++ rest) = _
  rw [e]; rfl

theorem char {c cat : Nat} (hw : whichCode defaultCats c = cat) (hc : cat ∈ [1, 2, 3, 4, 6, 8, 11, 12]) :
    LexesTo [c] [.ch cat c] := cons_char hw hc nil

theorem blank : LexesTo [32] [] := by
  intro st p rest
  have h10 : ∀ b ∈ [32], whichCode defaultCats b = 10 := by decide +kernel
  cases st with
  | N =>
    refine ⟨.N, p, ?_⟩
    show stripBlanks (tokFrom defaultCats .N p ([32] ++ rest)) = _
    rw [blanks_skipped defaultCats .N (by simp) p [32] rest h10]; rfl
  | S =>
    refine ⟨.S, p, ?_⟩
    show stripBlanks (tokFrom defaultCats .S p ([32] ++ rest)) = _
    rw [blanks_skipped defaultCats .S (by simp) p [32] rest h10]; rfl
  | M =>
    refine ⟨.S, false, ?_⟩
    show stripBlanks (tokFrom defaultCats .M p (32 :: [] ++ rest)) = _
    rw [blank_run_collapses defaultCats p 32 [] rest h10, strip_cons_space]; rfl

/-- a character that stops a control word -/
def Stop (d : Nat) : Prop :=
  whichCode defaultCats d ≠ 11 ∧ whichCode defaultCats d ≠ 7 ∧ whichCode defaultCats d ≠ 9 ∧ whichCode defaultCats d ≠ 15

theorem letters_11 : ∀ c ∈ asciiLetters, whichCode defaultCats c = 11 := by decide +kernel

theorem isLetter_11 {c : Nat} (h : PlasVerif.Spec.MathFormula.isLetter c = true) : whichCode defaultCats c = 11 :=
  letters_11 c (by simpa [PlasVerif.Spec.MathFormula.isLetter] using h)

/-- escape character, a non-empty run of letters, then something that is not a letter: one control word -/
theorem cword {l : Nat} {w : List Nat} (hl : whichCode defaultCats l = 11) (hw : ∀ c ∈ w, whichCode defaultCats c = 11)
    {d : Nat} {s' : List Nat} {T : List Tok} (hd : Stop d) (h : LexesTo (d :: s') T) :
    LexesTo (92 :: (l :: w) ++ (d :: s')) (.cs (l :: w) :: T) := by
  intro st p rest
  obtain ⟨st', p', e⟩ := h .S (l :: w == parName) rest
  refine ⟨st', p', ?_⟩
  have he : whichCode defaultCats 92 = 0 := by decide +kernel
  have := PlasVerif.Properties.C01.rule_control_word defaultCats st p 92 l w [] ((d :: s') ++ rest) he hl hw
    (by simp) (by simpa [StopsWord, Stop] using hd)
  simp only [List.nil_append] at this
  show stripBlanks (tokFrom defaultCats st p ((92 :: (l :: w) ++ (d :: s')) ++ rest)) = _
  have e2 : (92 :: (l :: w) ++ (d :: s')) ++ rest = 92 :: l :: w ++ ((d :: s') ++ rest) := by simp
  rw [e2, this, strip_cons_ne _ _ (by simp)]
  show _ :: lexS .S (l :: w == parName) ((d :: s') ++ rest) = _
  rw [e]; rfl

/-- escape character followed by one non-letter: a control symbol -/
theorem csymbol {c : Nat} (hc : whichCode defaultCats c ∉ [11, 5, 7, 9, 15]) {s : List Nat} {T : List Tok}
    (h : LexesTo s T) : LexesTo (92 :: c :: s) (.cs [c] :: T) := by
  intro st p rest
  obtain ⟨st', p', e⟩ := h .M false rest
  refine ⟨st', p', ?_⟩
  have he : whichCode defaultCats 92 = 0 := by decide +kernel
  have := PlasVerif.Properties.C01.rule_control_symbol defaultCats st p 92 c (s ++ rest) he hc
  show stripBlanks (tokFrom defaultCats st p (92 :: c :: (s ++ rest))) = _
  rw [this, strip_cons_ne _ _ (by simp)]
  show _ :: lexS .M false (s ++ rest) = _
  rw [e]; rfl

/-- a superscript character not followed by another one is an ordinary character token -/
theorem hat {d : Nat} {s' : List Nat} {T : List Tok} (hd : d ≠ 94) (h : LexesTo (d :: s') T) :
    LexesTo (94 :: d :: s') (.ch 7 94 :: T) := by
  intro st p rest
  obtain ⟨st', p', e⟩ := h .M false rest
  refine ⟨st', p', ?_⟩
  have h7 : whichCode defaultCats 94 = 7 := by decide +kernel
  have hn := nextChar_super_single defaultCats 94 d (s' ++ rest) h7 hd
  have := tok_other_class defaultCats st p (94 :: d :: (s' ++ rest)) (d :: (s' ++ rest)) 7 94 hn (by simp)
  show stripBlanks (tokFrom defaultCats st p (94 :: d :: (s' ++ rest))) = _
  rw [this, strip_cons_ne _ _ (by simp)]
  have hcc : classCat 7 = 7 := by decide +kernel
  rw [hcc]
  show _ :: lexS .M false ((d :: s') ++ rest) = _
  rw [e]; rfl

theorem cast {s s' : List Nat} {T T' : List Tok} (h : LexesTo s T) (hs : s = s') (hT : T = T') : LexesTo s' T' :=
  hs ▸ hT ▸ h

end LexesTo

open LexesTo

abbrev mIsLetter := PlasVerif.Model.MathSource.isLetter
abbrev sIsLetter := PlasVerif.Spec.MathFormula.isLetter

theorem isLetter_eq (c : Nat) : mIsLetter c = sIsLetter c := rfl

/-! ## alphabets -/

theorem mathChars_code : ∀ c ∈ mathChars, whichCode defaultCats c = catOf c := by decide +kernel
theorem mathChars_not_hat : ∀ c ∈ mathChars, c ≠ 94 := by decide +kernel
theorem csymChars_ok : ∀ c ∈ csymChars, whichCode defaultCats c ∉ [11, 5, 7, 9, 15] := by decide +kernel

theorem catOf_mem (c : Nat) : catOf c ∈ [1, 2, 3, 4, 6, 8, 11, 12] := by
  unfold catOf; split <;> simp

theorem lex_chars (s : List Nat) (h : ∀ c ∈ s, c ∈ mathChars) : LexesTo s (s.map chTok) := by
  induction s with
  | nil => exact LexesTo.nil
  | cons c s ih =>
    exact cons_char (mathChars_code c (h c (by simp))) (catOf_mem c) (ih (fun x hx => h x (by simp [hx])))

/-- first character of an argument source: a letter (then `Macro.source` inserts a blank) or something that
    stops a control word; never a superscript character -/
def HeadOK (d : Nat) : Prop := (sIsLetter d = true ∨ Stop d) ∧ d ≠ 94

def Headed (a : List Nat) : Prop := ∃ d s', a = d :: s' ∧ HeadOK d

theorem stop_of_code {d : Nat} (h : whichCode defaultCats d = 12 ∨ whichCode defaultCats d = 0 ∨ whichCode defaultCats d = 1
    ∨ whichCode defaultCats d = 10) : Stop d := by
  unfold Stop; omega

theorem headOK_mathChar {c : Nat} (h : c ∈ mathChars) : HeadOK c := by
  refine ⟨?_, mathChars_not_hat c h⟩
  have hc := mathChars_code c h
  unfold catOf at hc
  by_cases hl : sIsLetter c = true
  · exact Or.inl hl
  · right; simp only [hl] at hc; exact stop_of_code (Or.inl (by simpa using hc))

theorem headOK_92 : HeadOK 92 := ⟨Or.inr (stop_of_code (Or.inr (Or.inl (by decide +kernel)))), by decide⟩
theorem headOK_123 : HeadOK 123 := ⟨Or.inr (stop_of_code (Or.inr (Or.inr (Or.inl (by decide +kernel))))), by decide⟩
theorem headOK_91 : HeadOK 91 := ⟨Or.inr (stop_of_code (Or.inl (by decide +kernel))), by decide⟩
theorem stop_32 : Stop 32 := stop_of_code (Or.inr (Or.inr (Or.inr (by decide +kernel))))
theorem stop_123 : Stop 123 := stop_of_code (Or.inr (Or.inr (Or.inl (by decide +kernel))))

theorem name_split {n : List Nat} (hn : isName n = true) :
    ∃ l w, n = l :: w ∧ whichCode defaultCats l = 11 ∧ (∀ c ∈ w, whichCode defaultCats c = 11) ∧ sIsLetter l = true := by
  cases n with
  | nil => simp [isName] at hn
  | cons l w =>
    simp only [isName, List.isEmpty_cons, Bool.not_false, List.all_cons, Bool.true_and, Bool.and_eq_true] at hn
    exact ⟨l, w, rfl, isLetter_11 hn.1, fun c hc => isLetter_11 (List.all_eq_true.mp hn.2 c hc), hn.1⟩

/-- `fixArg` for a control-word name: a blank when there is no argument source or it begins with a letter -/
theorem fixArg_name {n : List Nat} (hn : isName n = true) (a : List Nat) :
    fixArg n a = match a with
      | [] => [32]
      | c :: r => if sIsLetter c then 32 :: c :: r else c :: r := by
  obtain ⟨l, w, rfl, _, _, hl⟩ := name_split hn
  cases a with
  | nil => rfl
  | cons c r =>
    have hl' : mIsLetter l = true := hl
    cases w with
    | nil => simp [fixArg, hl', isLetter_eq]
    | cons x w => simp [fixArg, isLetter_eq]

/-- `\name` followed by the (possibly empty) argument source: one control word, then the argument's tokens -/
theorem lex_macro {n : List Nat} (hn : isName n = true) {a : List Nat} {T : List Tok} (ha : LexesTo a T)
    (hh : a = [] ∨ Headed a) : LexesTo (92 :: n ++ fixArg n a) (.cs n :: T) := by
  obtain ⟨l, w, rfl, hl, hw, _⟩ := name_split hn
  have hsp : LexesTo (32 :: a) T := (blank.append ha).cast (by simp) (by simp)
  rw [fixArg_name hn]
  rcases hh with rfl | ⟨d, s', rfl, hd⟩
  · exact cword hl hw stop_32 hsp
  · by_cases hlt : sIsLetter d = true
    · simp only [hlt, if_true]; exact cword hl hw stop_32 hsp
    · simp only [hlt, Bool.false_eq_true, if_false]
      rcases hd.1 with h | h
      · exact absurd h hlt
      · exact cword hl hw h ha

/-- `fixArg` for the one-character names of the active characters `^ _ &` -/
theorem fixArg_active (c : Nat) (hc : mIsLetter c = false) (d : Nat) (r : List Nat) : fixArg [c] (d :: r) = d :: r := by
  simp [fixArg, hc]

theorem mathTree_isNil (f : F) : (mathTree f).isNil = f.isNil := by cases f <;> rfl

theorem lex_argSource {a : F} {br : Bool} (h : LexesTo (src (mathTree a)) (toks a)) :
    LexesTo (argSource br (mathTree a)) (wrapT br (toks a)) := by
  cases br with
  | false => simpa [argSource, wrapT] using h
  | true =>
    have h1 : LexesTo [125] [tRB] := char (c := 125) (cat := 2) (by decide +kernel) (by simp)
    exact (cons_char (c := 123) (cat := 1) (by decide +kernel) (by simp) (h.append h1)).cast
      (by simp [argSource]) (by simp [wrapT, tLB])

theorem argSource_headed {a : F} {br : Bool} (hw : WF a = true) (hs : (br || isSingle a) = true) :
    Headed (argSource br (mathTree a)) := by
  cases br with
  | true => exact ⟨123, _, rfl, headOK_123⟩
  | false =>
    simp only [Bool.false_or] at hs
    match a, hs, hw with
    | .ch c .nil, _, hw =>
      simp only [WF, Bool.and_true, List.contains_eq_mem, decide_eq_true_eq] at hw
      exact ⟨c, [], rfl, headOK_mathChar hw⟩
    | .sym n .nil, _, _ => exact ⟨92, _, rfl, headOK_92⟩
    | .csym c .nil, _, _ => exact ⟨92, _, rfl, headOK_92⟩

theorem lex_braced {s : List Nat} {T : List Tok} (h : LexesTo s T) : LexesTo (123 :: s ++ [125]) (tLB :: T ++ [tRB]) := by
  have h1 : LexesTo [125] [tRB] := char (c := 125) (cat := 2) (by decide +kernel) (by simp)
  exact (cons_char (c := 123) (cat := 1) (by decide +kernel) (by simp) (h.append h1)).cast (by simp) (by simp [tLB])

/-- `\begin{name}` argument-source body `\end{name}` -/
theorem lex_env (name : List Nat) (hname : ∀ c ∈ name, c ∈ mathChars) {a body : List Nat} {Ta Tb : List Tok}
    (ha : LexesTo a Ta) (hb : LexesTo body Tb) :
    LexesTo (92 :: PlasVerif.Model.MathSource.strBegin ++ 123 :: name ++ 125 :: a ++
              (body ++ 92 :: PlasVerif.Model.MathSource.strEnd ++ 123 :: name ++ [125]))
      ((.cs PlasVerif.Spec.MathFormula.strBegin :: tLB :: name.map chTok ++ [tRB]) ++ Ta ++ Tb ++
        (.cs PlasVerif.Spec.MathFormula.strEnd :: tLB :: name.map chTok ++ [tRB])) := by
  have hn := lex_braced (lex_chars name hname)
  have hl4 : ∀ c ∈ [101, 103, 105, 110], whichCode defaultCats c = 11 := by decide +kernel
  have hl2 : ∀ c ∈ [110, 100], whichCode defaultCats c = 11 := by decide +kernel
  have hend : LexesTo (92 :: (101 :: [110, 100]) ++ (123 :: (name ++ [125]))) (.cs (101 :: [110, 100]) :: (tLB :: name.map chTok ++ [tRB])) :=
    cword (by decide +kernel) hl2 stop_123 (hn.cast (by simp) rfl)
  have htail := hn.append (ha.append (hb.append hend))
  have hall : LexesTo (92 :: (98 :: [101, 103, 105, 110]) ++ (123 :: (name ++ [125] ++ (a ++ (body ++ (92 :: (101 :: [110, 100]) ++ (123 :: (name ++ [125]))))))))
      (.cs (98 :: [101, 103, 105, 110]) :: _) :=
    cword (by decide +kernel) hl4 stop_123 (htail.cast (by simp) rfl)
  exact hall.cast (by simp [PlasVerif.Model.MathSource.strBegin, PlasVerif.Model.MathSource.strEnd])
    (by simp [PlasVerif.Spec.MathFormula.strBegin, PlasVerif.Spec.MathFormula.strEnd])

theorem strArray_chars : ∀ c ∈ strArray, c ∈ mathChars := by decide +kernel
theorem strEquation_chars : ∀ c ∈ strEquation, c ∈ mathChars := by decide +kernel

/-- the reconstructed source of every well-formed formula lexes (blanks aside) to the formula's own tokens -/
theorem lex_src (f : F) (hw : WF f = true) : LexesTo (src (mathTree f)) (toks f) := by
  induction f with
  | nil => exact LexesTo.nil
  | ch c r ih =>
    simp only [WF, Bool.and_eq_true, List.contains_eq_mem, decide_eq_true_eq] at hw
    exact (cons_char (mathChars_code c hw.1) (catOf_mem c) (ih hw.2)).cast (by simp [mathTree, src]) (by simp [toks, chTok])
  | sp r ih =>
    simp only [WF] at hw
    exact (blank.append (ih hw)).cast (by simp [mathTree, src]) (by simp [toks])
  | sym n r ih =>
    simp only [WF, Bool.and_eq_true] at hw
    exact ((lex_macro hw.1 LexesTo.nil (Or.inl rfl)).append (ih hw.2)).cast (by simp [mathTree, src]) (by simp [toks])
  | csym c r ih =>
    simp only [WF, Bool.and_eq_true, List.contains_eq_mem, decide_eq_true_eq] at hw
    exact (csymbol (csymChars_ok c hw.1) (blank.append (ih hw.2))).cast (by simp [mathTree, src, fixArg]) (by simp [toks])
  | grp b r ihb ihr =>
    simp only [WF, Bool.and_eq_true] at hw
    exact ((lex_braced (ihb hw.1)).append (ihr hw.2)).cast (by simp [mathTree, src]) (by simp [toks])
  | sup br a r iha ihr =>
    simp only [WF, Bool.and_eq_true] at hw
    obtain ⟨⟨hwa, hs⟩, hwr⟩ := hw
    have hA := lex_argSource (br := br) (iha hwa)
    obtain ⟨d, s', hds, hd⟩ := argSource_headed hwa hs
    have hfix : fixArg [94] (argSource br (mathTree a)) = argSource br (mathTree a) := by
      rw [hds]; exact fixArg_active 94 (by decide +kernel) d s'
    have hh : LexesTo (94 :: argSource br (mathTree a)) (.ch 7 94 :: wrapT br (toks a)) := by
      rw [hds] at hA ⊢; exact hat hd.2 hA
    exact (hh.append (ihr hwr)).cast (by simp [mathTree, src, hfix]) (by simp [toks])
  | sub br a r iha ihr =>
    simp only [WF, Bool.and_eq_true] at hw
    obtain ⟨⟨hwa, hs⟩, hwr⟩ := hw
    have hA := lex_argSource (br := br) (iha hwa)
    obtain ⟨d, s', hds, hd⟩ := argSource_headed hwa hs
    have hfix : fixArg [95] (argSource br (mathTree a)) = argSource br (mathTree a) := by
      rw [hds]; exact fixArg_active 95 (by decide +kernel) d s'
    have hh : LexesTo (95 :: argSource br (mathTree a)) (.ch 8 95 :: wrapT br (toks a)) :=
      cons_char (c := 95) (cat := 8) (by decide +kernel) (by simp) hA
    exact (hh.append (ihr hwr)).cast (by simp [mathTree, src, hfix]) (by simp [toks])
  | cmd1 n br a r iha ihr =>
    simp only [WF, Bool.and_eq_true] at hw
    obtain ⟨⟨⟨hn, hwa⟩, hs⟩, hwr⟩ := hw
    exact ((lex_macro hn (lex_argSource (br := br) (iha hwa)) (Or.inr (argSource_headed hwa hs))).append (ihr hwr)).cast
      (by simp [mathTree, src]) (by simp [toks])
  | cmd2 n b1 a1 b2 a2 r ih1 ih2 ihr =>
    simp only [WF, Bool.and_eq_true] at hw
    obtain ⟨⟨⟨⟨⟨hn, hw1⟩, hs1⟩, hw2⟩, hs2⟩, hwr⟩ := hw
    have hA := (lex_argSource (br := b1) (ih1 hw1)).append (lex_argSource (br := b2) (ih2 hw2))
    obtain ⟨d, s', hds, hd⟩ := argSource_headed hw1 hs1
    have hH : Headed (argSource b1 (mathTree a1) ++ argSource b2 (mathTree a2)) :=
      ⟨d, s' ++ argSource b2 (mathTree a2), by rw [hds]; rfl, hd⟩
    exact ((lex_macro hn hA (Or.inr hH)).append (ihr hwr)).cast (by simp [mathTree, src]) (by simp [toks])
  | root o br a r iho iha ihr =>
    simp only [WF, Bool.and_eq_true] at hw
    obtain ⟨⟨⟨hwo, hwa⟩, hs⟩, hwr⟩ := hw
    have h91 : (91 : Nat) ∈ mathChars := by decide +kernel
    have h93 : (93 : Nat) ∈ mathChars := by decide +kernel
    have hO : LexesTo (optSource (mathTree o)) (chTok 91 :: toks o ++ [chTok 93]) :=
      (cons_char (mathChars_code 91 h91) (catOf_mem 91)
        ((iho hwo).append (char (mathChars_code 93 h93) (catOf_mem 93)))).cast (by simp [optSource]) (by simp [chTok])
    have hA := hO.append (lex_argSource (br := br) (iha hwa))
    have hH : Headed (optSource (mathTree o) ++ argSource br (mathTree a)) := ⟨91, _, rfl, headOK_91⟩
    have hn : isName strSqrt = true := by decide +kernel
    exact ((lex_macro hn hA (Or.inr hH)).append (ihr hwr)).cast (by simp [mathTree, src]) (by simp [toks])
  | math b r ihb ihr =>
    simp only [WF, Bool.and_eq_true, Bool.not_eq_true'] at hw
    obtain ⟨⟨hwb, hb⟩, hwr⟩ := hw
    have h36 : LexesTo [36] [Tok.ch 3 36] := char (c := 36) (cat := 3) (by decide +kernel) (by simp)
    have hm : LexesTo (36 :: src (mathTree b) ++ [36]) (.ch 3 36 :: toks b ++ [.ch 3 36]) :=
      (cons_char (c := 36) (cat := 3) (by decide +kernel) (by simp) ((ihb hwb).append h36)).cast (by simp) (by simp)
    exact (hm.append (ihr hwr)).cast (by simp [mathTree, src, mathTree_isNil, hb]) (by simp [toks])
  | arr spec b r ihb ihr =>
    simp only [WF, Bool.and_eq_true, Bool.not_eq_true'] at hw
    obtain ⟨⟨⟨hsp, hwb⟩, hb⟩, hwr⟩ := hw
    have hspec : ∀ c ∈ spec, c ∈ mathChars := by
      intro c hc; have := List.all_eq_true.mp hsp c hc; simpa using this
    have he := lex_env strArray strArray_chars (lex_braced (lex_chars spec hspec)) (ihb hwb)
    exact (he.append (ihr hwr)).cast (by simp [mathTree, src, mathTree_isNil, hb]) (by simp [toks])
  | amp r ih =>
    simp only [WF] at hw
    exact (cons_char (c := 38) (cat := 4) (by decide +kernel) (by simp) (blank.append (ih hw))).cast
      (by simp [mathTree, src, fixArg]) (by simp [toks])

/-! ## what the author writes (`Spec.render`) -/

theorem stop_91 : Stop 91 := stop_of_code (Or.inl (by decide +kernel))

theorem lex_wrapR {a : F} {br : Bool} (h : LexesTo (render a) (toks a)) :
    LexesTo (wrapR br (render a)) (wrapT br (toks a)) := by
  cases br with
  | false => simpa [wrapR, wrapT] using h
  | true => exact (lex_braced h).cast (by simp [wrapR]) (by simp [wrapT])

theorem wrapR_headed {a : F} {br : Bool} (hw : WF a = true) (hs : (br || isSingle a) = true) :
    Headed (wrapR br (render a)) := by
  cases br with
  | true => exact ⟨123, _, rfl, headOK_123⟩
  | false =>
    simp only [Bool.false_or] at hs
    match a, hs, hw with
    | .ch c .nil, _, hw =>
      simp only [WF, Bool.and_true, List.contains_eq_mem, decide_eq_true_eq] at hw
      exact ⟨c, [], rfl, headOK_mathChar hw⟩
    | .sym n .nil, _, _ => exact ⟨92, _, rfl, headOK_92⟩
    | .csym c .nil, _, _ => exact ⟨92, _, rfl, headOK_92⟩

/-- `\name␣` followed by anything: one control word (the blank `render` writes after every control word) -/
theorem lex_cw_blank {n : List Nat} (hn : isName n = true) {s : List Nat} {T : List Tok} (h : LexesTo s T) :
    LexesTo (92 :: n ++ 32 :: s) (.cs n :: T) := by
  obtain ⟨l, w, rfl, hl, hw, _⟩ := name_split hn
  exact cword hl hw stop_32 ((blank.append h).cast (by simp) (by simp))

/-- the formula as written lexes (blanks aside) to the formula's tokens: `toks` is the author's token sequence -/
theorem lex_render (f : F) (hw : WF f = true) : LexesTo (render f) (toks f) := by
  induction f with
  | nil => exact LexesTo.nil
  | ch c r ih =>
    simp only [WF, Bool.and_eq_true, List.contains_eq_mem, decide_eq_true_eq] at hw
    exact (cons_char (mathChars_code c hw.1) (catOf_mem c) (ih hw.2)).cast (by simp [render]) (by simp [toks, chTok])
  | sp r ih =>
    simp only [WF] at hw
    exact (blank.append (ih hw)).cast (by simp [render]) (by simp [toks])
  | sym n r ih =>
    simp only [WF, Bool.and_eq_true] at hw
    exact (lex_cw_blank hw.1 (ih hw.2)).cast (by simp [render]) (by simp [toks])
  | csym c r ih =>
    simp only [WF, Bool.and_eq_true, List.contains_eq_mem, decide_eq_true_eq] at hw
    exact (csymbol (csymChars_ok c hw.1) (ih hw.2)).cast (by simp [render]) (by simp [toks])
  | grp b r ihb ihr =>
    simp only [WF, Bool.and_eq_true] at hw
    exact ((lex_braced (ihb hw.1)).append (ihr hw.2)).cast (by simp [render]) (by simp [toks])
  | sup br a r iha ihr =>
    simp only [WF, Bool.and_eq_true] at hw
    obtain ⟨⟨hwa, hs⟩, hwr⟩ := hw
    have hA := lex_wrapR (br := br) (iha hwa)
    obtain ⟨d, s', hds, hd⟩ := wrapR_headed hwa hs
    have hh : LexesTo (94 :: wrapR br (render a)) (.ch 7 94 :: wrapT br (toks a)) := by
      rw [hds] at hA ⊢; exact hat hd.2 hA
    exact (hh.append (ihr hwr)).cast (by simp [render]) (by simp [toks])
  | sub br a r iha ihr =>
    simp only [WF, Bool.and_eq_true] at hw
    obtain ⟨⟨hwa, hs⟩, hwr⟩ := hw
    have hh : LexesTo (95 :: wrapR br (render a)) (.ch 8 95 :: wrapT br (toks a)) :=
      cons_char (c := 95) (cat := 8) (by decide +kernel) (by simp) (lex_wrapR (br := br) (iha hwa))
    exact (hh.append (ihr hwr)).cast (by simp [render]) (by simp [toks])
  | cmd1 n br a r iha ihr =>
    simp only [WF, Bool.and_eq_true] at hw
    obtain ⟨⟨⟨hn, hwa⟩, hs⟩, hwr⟩ := hw
    exact (lex_cw_blank hn ((lex_wrapR (br := br) (iha hwa)).append (ihr hwr))).cast (by simp [render]) (by simp [toks])
  | cmd2 n b1 a1 b2 a2 r ih1 ih2 ihr =>
    simp only [WF, Bool.and_eq_true] at hw
    obtain ⟨⟨⟨⟨⟨hn, hw1⟩, hs1⟩, hw2⟩, hs2⟩, hwr⟩ := hw
    exact (lex_cw_blank hn (((lex_wrapR (br := b1) (ih1 hw1)).append (lex_wrapR (br := b2) (ih2 hw2))).append (ihr hwr))).cast
      (by simp [render]) (by simp [toks])
  | root o br a r iho iha ihr =>
    simp only [WF, Bool.and_eq_true] at hw
    obtain ⟨⟨⟨hwo, hwa⟩, hs⟩, hwr⟩ := hw
    have h91 : (91 : Nat) ∈ mathChars := by decide +kernel
    have h93 : (93 : Nat) ∈ mathChars := by decide +kernel
    have htail : LexesTo (91 :: (render o ++ 93 :: (wrapR br (render a) ++ render r)))
        (chTok 91 :: (toks o ++ chTok 93 :: (wrapT br (toks a) ++ toks r))) :=
      cons_char (mathChars_code 91 h91) (catOf_mem 91)
        ((iho hwo).append (cons_char (mathChars_code 93 h93) (catOf_mem 93)
          ((lex_wrapR (br := br) (iha hwa)).append (ihr hwr))))
    have hl3 : ∀ c ∈ [113, 114, 116], whichCode defaultCats c = 11 := by decide +kernel
    have hall : LexesTo (92 :: (115 :: [113, 114, 116]) ++ (91 :: (render o ++ 93 :: (wrapR br (render a) ++ render r))))
        (.cs (115 :: [113, 114, 116]) :: _) := cword (by decide +kernel) hl3 stop_91 htail
    exact hall.cast (by simp [render, strSqrt]) (by simp [toks, strSqrt, chTok])
  | math b r ihb ihr =>
    simp only [WF, Bool.and_eq_true, Bool.not_eq_true'] at hw
    obtain ⟨⟨hwb, _⟩, hwr⟩ := hw
    have h36 : LexesTo [36] [Tok.ch 3 36] := char (c := 36) (cat := 3) (by decide +kernel) (by simp)
    exact ((cons_char (c := 36) (cat := 3) (by decide +kernel) (by simp) ((ihb hwb).append h36)).append (ihr hwr)).cast
      (by simp [render]) (by simp [toks])
  | arr spec b r ihb ihr =>
    simp only [WF, Bool.and_eq_true, Bool.not_eq_true'] at hw
    obtain ⟨⟨⟨hsp, hwb⟩, _⟩, hwr⟩ := hw
    have hspec : ∀ c ∈ spec, c ∈ mathChars := by
      intro c hc; have := List.all_eq_true.mp hsp c hc; simpa using this
    have he := lex_env strArray strArray_chars (lex_braced (lex_chars spec hspec)) (ihb hwb)
    exact (he.append (ihr hwr)).cast
      (by simp [render, PlasVerif.Model.MathSource.strBegin, PlasVerif.Model.MathSource.strEnd,
        PlasVerif.Spec.MathFormula.strBegin, PlasVerif.Spec.MathFormula.strEnd]) (by simp [toks])
  | amp r ih =>
    simp only [WF] at hw
    exact (cons_char (c := 38) (cat := 4) (by decide +kernel) (by simp) (ih hw)).cast (by simp [render]) (by simp [toks])

theorem lexS_nil (st : St) (p : Bool) : lexS st p [] = [] := by
  simp [lexS, tok_eof defaultCats st p [] (nextChar_nil _), stripBlanks]

/-- closing the compositional statement: the whole string, from the initial tokenizer state -/
theorem LexesTo.tokenize {s : List Nat} {T : List Tok} (h : LexesTo s T) :
    stripBlanks (PlasVerif.Model.Tokenizer.tokenize defaultCats s) = T := by
  obtain ⟨st', p', e⟩ := h .N false []
  rw [List.append_nil, lexS_nil, List.append_nil] at e
  exact e

end PlasVerif.Proofs.MathSource
