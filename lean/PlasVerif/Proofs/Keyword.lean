import PlasVerif.Proofs.Numbers
/-! The keyword matcher (`readKeyword` / `matchWord` / `tryWords`): a word spelled in any letter case is recognised and
exactly it is consumed; a word that clashes with the spelled one, or extends it while the next token does not continue
it, fails and pushes everything back. -/
namespace PlasVerif.Proofs.Keyword
open PlasVerif.Spec.Conform
open PlasVerif.Model.Numbers PlasVerif.Spec.Literals PlasVerif.Proofs.Numbers


/-- the tried word `w` and the spelled word `sp` differ (case-insensitively) at a position both have -/
def clash : List Nat → List Nat → Bool
  | l :: ls, c :: cs => if upper l = upper c then clash ls cs else true
  | _, _ => false

/-- the tried word `w` properly extends the spelled word `sp`: the next letter of `w` -/
def ext : List Nat → List Nat → Option Nat
  | l :: _, [] => some l
  | l :: ls, c :: cs => if upper l = upper c then ext ls cs else none
  | [], _ => none


def failsOn (w sp : List Nat) (r : List Tok) : Bool :=
  clash w sp || (match ext w sp with | some l => restOK l r | none => false)

theorem tokUpper_ch (c : Nat) : tokUpper (.ch c) = some (upper c) := rfl
theorem isElem_ch (c : Nat) : isElem (.ch c) = false := rfl

theorem matchWord_clash (w : List Nat) : ∀ (sp : List Nat) (acc r : List Tok), clash w sp = true →
    matchWord w (sp.map .ch ++ r) acc = (false, acc.reverse ++ (sp.map .ch ++ r)) := by
  induction w with
  | nil => intro sp acc r h; simp [clash] at h
  | cons l ls ih =>
    intro sp acc r h
    cases sp with
    | nil => simp [clash] at h
    | cons c cs =>
      simp only [clash] at h
      by_cases he : upper l = upper c
      · simp only [he, if_true] at h
        cases ls with
        | nil => simp [clash] at h
        | cons l2 ls2 =>
          have := ih cs (.ch c :: acc) r h
          simp [matchWord, isElem_ch, tokUpper_ch, he, this]
      · have he' : ¬ upper c = upper l := fun e => he e.symm
        simp [matchWord, isElem_ch, tokUpper_ch, he']

theorem matchWord_ext (w : List Nat) : ∀ (sp : List Nat) (acc r : List Tok) (l : Nat), ext w sp = some l →
    restOK l r = true → matchWord w (sp.map .ch ++ r) acc = (false, acc.reverse ++ (sp.map .ch ++ r)) := by
  induction w with
  | nil => intro sp acc r l h; cases sp <;> simp [ext] at h
  | cons l0 ls ih =>
    intro sp acc r l h hr
    cases sp with
    | nil =>
      simp only [ext, Option.some.injEq] at h
      subst h
      cases r with
      | nil => simp [matchWord]
      | cons t ts =>
        simp only [restOK, Bool.and_eq_true, Bool.not_eq_true', bne_iff_ne, ne_eq] at hr
        simp [matchWord, hr.1, hr.2]
    | cons c cs =>
      simp only [ext] at h
      by_cases he : upper l0 = upper c
      · simp only [he, if_true] at h
        cases ls with
        | nil => cases cs <;> simp [ext] at h
        | cons l2 ls2 =>
          have := ih cs (.ch c :: acc) r l h hr
          simp [matchWord, isElem_ch, tokUpper_ch, he, this]
      · simp [he] at h

theorem matchWord_fails (w sp : List Nat) (acc r : List Tok) (h : failsOn w sp r = true) :
    matchWord w (sp.map .ch ++ r) acc = (false, acc.reverse ++ (sp.map .ch ++ r)) := by
  simp only [failsOn, Bool.or_eq_true] at h
  rcases h with h | h
  · exact matchWord_clash w sp acc r h
  · cases he : ext w sp with
    | none => simp [he] at h
    | some l => rw [he] at h; exact matchWord_ext w sp acc r l he h

theorem matchWord_same (w : List Nat) : ∀ (sp : List Nat) (acc r : List Tok), w ≠ [] → sameWord sp w = true →
    matchWord w (sp.map .ch ++ r) acc = (true, r) := by
  induction w with
  | nil => intro sp acc r h; exact absurd rfl h
  | cons l ls ih =>
    intro sp acc r _ hs
    cases sp with
    | nil => simp [sameWord] at hs
    | cons c cs =>
      simp only [sameWord, List.map_cons, beq_iff_eq, List.cons.injEq] at hs
      cases ls with
      | nil =>
        have : cs = [] := by simpa using hs.2
        subst this
        simp [matchWord, isElem_ch, tokUpper_ch, hs.1]
      | cons l2 ls2 =>
        have := ih cs (.ch c :: acc) r (by simp) (by simpa [sameWord] using hs.2)
        simp [matchWord, isElem_ch, tokUpper_ch, hs.1, this]

theorem clash_congr (w : List Nat) : ∀ (sp u : List Nat), sp.map upper = u.map upper → clash w sp = clash w u := by
  induction w with
  | nil => intro sp u _; cases sp <;> cases u <;> rfl
  | cons l ls ih =>
    intro sp u h
    cases sp with
    | nil => cases u with
      | nil => rfl
      | cons _ _ => simp at h
    | cons c cs => cases u with
      | nil => simp at h
      | cons d ds =>
        simp only [List.map_cons, List.cons.injEq] at h
        simp [clash, h.1, ih cs ds h.2]

theorem ext_congr (w : List Nat) : ∀ (sp u : List Nat), sp.map upper = u.map upper → ext w sp = ext w u := by
  induction w with
  | nil => intro sp u _; cases sp <;> cases u <;> rfl
  | cons l ls ih =>
    intro sp u h
    cases sp with
    | nil => cases u with
      | nil => rfl
      | cons _ _ => simp at h
    | cons c cs => cases u with
      | nil => simp at h
      | cons d ds =>
        simp only [List.map_cons, List.cons.injEq] at h
        simp [ext, h.1, ih cs ds h.2]

theorem failsOn_congr (w sp u : List Nat) (r : List Tok) (h : sameWord sp u = true) : failsOn w sp r = failsOn w u r := by
  have h' : sp.map upper = u.map upper := by simpa [sameWord] using h
  simp [failsOn, clash_congr w sp u h', ext_congr w sp u h']

/-- a word that the stream does not go on to spell fails and pushes back exactly what it read -/
theorem matchWord_cont (w : List Nat) : ∀ (r acc : List Tok), contOK w r = true →
    matchWord w r acc = (false, acc.reverse ++ r) := by
  induction w with
  | nil => intro r acc h; simp [contOK] at h
  | cons l ls ih =>
    intro r acc h
    cases r with
    | nil => simp [matchWord]
    | cons t ts =>
      simp only [contOK, Bool.and_eq_true, Bool.not_eq_true'] at h
      by_cases hm : tokUpper t = some (upper l)
      · simp only [hm, if_true] at h
        cases ls with
        | nil => simp [contOK] at h
        | cons l2 ls2 =>
          have := ih ts (t :: acc) h.2
          simp [matchWord, h.1, hm, this]
      · simp [matchWord, h.1, hm]

/-- `tryWords` skips every word that fails on the spelled one … -/
theorem tryWords_skip (pre T : List (List Nat × Rat)) (sp : List Nat) (r : List Tok)
    (h : ∀ x ∈ pre, failsOn x.1 sp r = true) :
    tryWords (pre ++ T) (sp.map .ch ++ r) = tryWords T (sp.map .ch ++ r) := by
  induction pre with
  | nil => rfl
  | cons x pre ih =>
    have hx := matchWord_fails x.1 sp [] r (h x (List.mem_cons_self))
    simp only [List.reverse_nil, List.nil_append] at hx
    simp only [List.cons_append, tryWords, hx]
    exact ih (fun y hy => h y (List.mem_cons_of_mem _ hy))

/-- … and takes the first one that is spelled, consuming it and one optional space -/
theorem tryWords_hit (w : List Nat × Rat) (T : List (List Nat × Rat)) (sp : List Nat) (r : List Tok)
    (hne : w.1 ≠ []) (hs : sameWord sp w.1 = true) :
    tryWords (w :: T) (sp.map .ch ++ r) = (some w, readOneOptionalSpace r) := by
  simp [tryWords, matchWord_same w.1 sp [] r hne hs]

theorem tryWords_select (T : List (List Nat × Rat)) (i : Nat) (w : List Nat × Rat) (sp : List Nat) (r : List Tok)
    (hi : T[i]? = some w) (hne : w.1 ≠ []) (hs : sameWord sp w.1 = true)
    (hf : ∀ x ∈ T.take i, failsOn x.1 w.1 r = true) :
    tryWords T (sp.map .ch ++ r) = (some w, readOneOptionalSpace r) := by
  have hsplit : T = T.take i ++ w :: T.drop (i + 1) := by
    have hlt : i < T.length := by
      rcases Nat.lt_or_ge i T.length with h | h
      · exact h
      · simp [List.getElem?_eq_none h] at hi
    have hw : T[i] = w := by simpa [List.getElem?_eq_getElem hlt] using hi
    rw [← hw]; simp
  rw [hsplit, tryWords_skip _ _ sp r (fun x hx => by rw [failsOn_congr x.1 sp w.1 r hs]; exact hf x hx)]
  exact tryWords_hit w _ sp r hne hs

theorem tryWords_none (T : List (List Nat × Rat)) (sp : List Nat) (r : List Tok)
    (h : ∀ x ∈ T, failsOn x.1 sp r = true) : tryWords T (sp.map .ch ++ r) = (none, sp.map .ch ++ r) := by
  have := tryWords_skip T [] sp r h
  simpa [tryWords] using this

/-! blanks -/

theorem ros_spaces' (n : Nat) (r : List Tok) : readOptionalSpaces (spaces n ++ r) = readOptionalSpaces r := by
  induction n with
  | zero => simp [spaces]
  | succ n ih => simpa [spaces, List.replicate_succ, readOptionalSpaces] using ih

theorem ros_noSp (r : List Tok) (h : noSp r = true) : readOptionalSpaces r = r := by
  cases r with
  | nil => rfl
  | cons t ts => cases t <;> simp_all [readOptionalSpaces, noSp]

theorem ros_idem (ts : List Tok) : readOptionalSpaces (readOptionalSpaces ts) = readOptionalSpaces ts := by
  induction ts with
  | nil => rfl
  | cons t ts ih =>
    by_cases h : t = .sp
    · simp [readOptionalSpaces, h, ih]
    · simp [readOptionalSpaces, h]

theorem ros_oneSpace (z : List Tok) : readOptionalSpaces (readOneOptionalSpace z) = readOptionalSpaces z := by
  cases z with
  | nil => rfl
  | cons t ts => cases t <;> simp [readOneOptionalSpace, readOptionalSpaces]

theorem oneSpace_opt (sp : Bool) (r : List Tok) (h : (sp || noSp r) = true) : readOneOptionalSpace (optSpace sp ++ r) = r := by
  cases sp with
  | true => simp [optSpace, readOneOptionalSpace]
  | false =>
    simp only [Bool.false_or] at h
    cases r with
    | nil => rfl
    | cons t ts => cases t <;> simp_all [optSpace, readOneOptionalSpace, noSp]

end PlasVerif.Proofs.Keyword
