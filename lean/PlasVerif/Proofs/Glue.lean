import PlasVerif.Proofs.Dimen
/-! Glue literals: `readGlue` = dimension, optional `plus` stretch, optional `minus` shrink. -/
namespace PlasVerif.Proofs.Glue
open PlasVerif.Spec.Conform
open PlasVerif.Model.Numbers PlasVerif.Spec.Literals PlasVerif.Proofs.Numbers PlasVerif.Proofs.Keyword PlasVerif.Proofs.Units
open PlasVerif.Proofs.Dimen PlasVerif.Generated.Units

theorem signLoop_ros (s : Int) (ts : List Tok) : signLoop s (readOptionalSpaces ts) = signLoop s ts := by
  induction ts with
  | nil => rfl
  | cons t ts ih =>
    by_cases h : t = .sp
    · subst h; simpa [readOptionalSpaces, signLoop, expand] using ih
    · simp [readOptionalSpaces, h]

/-- two sign runs in a row (the signs of the glue and of its dimension) are one run -/
theorem readSigns_two (s1 s2 : Signs) (r : List Tok) (h : noSign r = true) :
    readOptionalSigns (s1.render ++ (s2.render ++ r)) = (s1.den * s2.den, settle r) := by
  unfold readOptionalSigns Signs.render Signs.den
  rw [signLoop_ros]
  simp only [List.append_assoc]
  rw [signLoop_spaces, signLoop_items, signLoop_spaces, signLoop_items, signLoop_stop _ _ h]
  simp

theorem readSigns_oneSpace (Y : List Tok) : readOptionalSigns (readOneOptionalSpace Y) = readOptionalSigns Y := by
  unfold readOptionalSigns; rw [ros_oneSpace]

theorem readDimen_oneSpace (comb : Rat → Rat → Rat) (T : List (List Nat × Rat)) (Y : List Tok) :
    readDimenWith comb T (readOneOptionalSpace Y) = readDimenWith comb T Y := by
  simp only [readDimenWith, readSigns_oneSpace]

theorem parity_pm (items : List (Bool × Nat)) : parity items = 1 ∨ parity items = -1 := by
  induction items with
  | nil => left; rfl
  | cons it rest ih =>
    obtain ⟨m, k⟩ := it
    cases m <;> simp only [parity, Bool.false_eq_true, if_false, if_true]
    · exact ih
    · rcases ih with h | h <;> simp [h]


theorem rpm_none (kw : List Nat) (Z : List Tok) (h : contOK kw (readOptionalSpaces Z) = true) :
    readPlusMinus combine kw Z = .ok (none, readOptionalSpaces Z) := by
  have := matchWord_cont kw (readOptionalSpaces Z) [] h
  simp only [List.reverse_nil, List.nil_append] at this
  simp [readPlusMinus, readKeyword, tryWords, this]

theorem rpm_some (kw w : List Nat) (D : DimLit) (Z Y : List Tok) (hne : kw ≠ []) (hs : sameWord w kw = true)
    (hZ : readOptionalSpaces Z = w.map .ch ++ (D.render ++ Y)) (hw : dimWf true D = true) (hL : filOK D Y = true) :
    ∃ v, readPlusMinus combine kw Z = .ok (some v, dimRest D Y) ∧ decode v = (D.den.order, D.den.amount) := by
  obtain ⟨v, hv, hdec⟩ := dimen_core true D Y hw hL
  refine ⟨v, ?_, hdec⟩
  have hhit := tryWords_hit (kw, (0 : Rat)) [] w (D.render ++ Y) hne hs
  simp only [tableFor, if_true] at hv
  simp [readPlusMinus, readKeyword, hZ, hhit, readDimen_oneSpace, hv]


theorem ros_optSpace (sp : Bool) (Y : List Tok) : readOptionalSpaces (optSpace sp ++ Y) = readOptionalSpaces Y := by
  cases sp <;> simp [optSpace, readOptionalSpaces]

theorem ros_dimRest (l : DimLit) (Y : List Tok) : readOptionalSpaces (dimRest l Y) = readOptionalSpaces Y := by
  unfold dimRest
  split
  · rfl
  · rfl
  · rw [ros_oneSpace, ros_optSpace]

theorem dimRest_noSp (l : DimLit) (R : List Tok) (h : noSp R = true) : dimRest l R = R := by
  unfold dimRest
  split
  · rfl
  · rfl
  · exact oneSpace_opt _ R (by simp [h])

def dv (x : Rat) : DimVal := ⟨(decode x).1, (decode x).2⟩

def pmRest (p : Option (Nat × List Nat × DimLit)) (Y : List Tok) : List Tok :=
  match p with | none => readOptionalSpaces Y | some (_, _, d) => dimRest d Y

/-- one `plus` / `minus` step of `readGlue` -/
theorem pm_step (kw : List Nat) (p : Option (Nat × List Nat × DimLit)) (Z Y : List Tok) (hne : kw ≠ [])
    (hZ : readOptionalSpaces Z = readOptionalSpaces (pmRender p ++ Y)) (hw : pmWf kw p = true)
    (hf : pmFollow kw p Y = true) :
    ∃ ov, readPlusMinus combine kw Z = .ok (ov, pmRest p Y) ∧ ov.map dv = p.map (·.2.2.den) := by
  cases p with
  | none =>
    simp only [pmRender, List.nil_append] at hZ
    simp only [pmFollow] at hf
    refine ⟨none, ?_, rfl⟩
    rw [rpm_none kw Z (by rw [hZ]; exact hf), hZ]; rfl
  | some kwd =>
    obtain ⟨k, w, D⟩ := kwd
    simp only [pmWf, Bool.and_eq_true] at hw
    simp only [pmFollow] at hf
    obtain ⟨c, cs, rfl⟩ := sameWord_ne_nil hw.1 hne
    have hZ' : readOptionalSpaces Z = (c :: cs).map .ch ++ (D.render ++ Y) := by
      rw [hZ]; simp only [pmRender, List.append_assoc]
      rw [ros_spaces']; exact ros_noSp _ rfl
    obtain ⟨v, hv, hdec⟩ := rpm_some kw (c :: cs) D Z Y hne hw.1 hZ' hw.2 hf
    refine ⟨some v, by simpa [pmRest] using hv, ?_⟩
    simp [dv, hdec, DimLit.den]

theorem ros_pmRest (p : Option (Nat × List Nat × DimLit)) (Y : List Tok) :
    readOptionalSpaces (pmRest p Y) = readOptionalSpaces Y := by
  cases p with
  | none => exact ros_idem Y
  | some kwd => obtain ⟨k, w, D⟩ := kwd; exact ros_dimRest D Y

theorem pmRest_noSp (p : Option (Nat × List Nat × DimLit)) (R : List Tok) (h : noSp R = true) : pmRest p R = R := by
  cases p with
  | none => exact ros_noSp R h
  | some kwd => obtain ⟨k, w, D⟩ := kwd; exact dimRest_noSp D R h



def glueDecode (v : Glue) : GlueVal := ⟨dv v.dim, v.stretch.map dv, v.shrink.map dv⟩

theorem glue_render (g : GlueLit) (R : List Tok) :
    g.render ++ R = g.signs.render ++ (g.dim.render ++ (pmRender g.plus ++ (pmRender g.minus ++ R))) := by
  obtain ⟨sg, dim, plus, minus⟩ := g
  unfold GlueLit.render pmRender
  cases plus with
  | none => cases minus with
    | none => simp
    | some m => obtain ⟨k, w, d⟩ := m; simp [List.append_assoc]
  | some p =>
    obtain ⟨k, w, d⟩ := p
    cases minus with
    | none => simp [List.append_assoc]
    | some m => obtain ⟨k2, w2, d2⟩ := m; simp [List.append_assoc]

theorem decode_zero (v a : Rat) (h : decode v = (0, a)) : v = a := by
  simp only [decode] at h
  repeat' split at h
  all_goals simp_all

theorem range_pm (s : Int) (x : Rat) (hs : s = 1 ∨ s = -1) (h : -2000000000 < x ∧ x < 2000000000) :
    -2000000000 < (s : Rat) * x ∧ (s : Rat) * x < 2000000000 := by
  rcases hs with rfl | rfl
  · simpa using h
  · have : ((-1 : Int) : Rat) * x = -x := by simp; grind
    rw [this]; constructor <;> grind


theorem unitWf_false_filOK (sg : Signs) (d : DecBody) (u : UnitLit) (Y : List Tok) (h : unitWf false u = true) :
    filOK ⟨sg, .inl d, u⟩ Y = true := by
  unfold filOK
  cases hk : u.kind with
  | fil j => simp [unitWf, hk] at h
  | phys i => rfl
  | reg v => rfl

theorem unitWf_false_order (u : UnitLit) (h : unitWf false u = true) : u.kind.den.1 = 0 := by
  cases hk : u.kind with
  | fil j => simp [unitWf, hk] at h
  | phys i => simp [UnitKind.den]
  | reg v => simp [UnitKind.den]

/-- **Glue.** `readGlue` on every conforming glue literal returns the TeX value of its three parts (orders decoded) and
    consumes exactly the literal. -/
theorem glue_reads (g : GlueLit) (R : List Tok) (hw : glueWf g = true) (hf : glueFollow g R = true) :
    ∃ v, readGlue (g.render ++ R) = .ok (v, R) ∧ glueDecode v = g.den := by
  rw [glue_render]
  obtain ⟨sg, ⟨dsg, body, u⟩, plus, minus⟩ := g
  simp only [glueWf, Bool.and_eq_true] at hw
  obtain ⟨⟨⟨hdim, hbody⟩, hplus⟩, hminus⟩ := hw
  simp only [dimWf, Bool.and_eq_true, decide_eq_true_eq] at hdim
  obtain ⟨hdb, hrange⟩ := hdim
  have hs1 := parity_pm sg.items
  have hs2 := parity_pm dsg.items
  cases body with
  | inr v =>
    simp only [Bool.and_eq_true, Option.isNone_iff_eq_none] at hbody
    obtain ⟨rfl, rfl⟩ := hbody
    have hsig := readSigns_two sg dsg (Tok.reg v false :: R) (by simp [noSign])
    refine ⟨⟨((sg.den * dsg.den : Int) : Rat) * (v : Rat), none, none⟩, ?_, ?_⟩
    · simp only [pmRender, DimLit.render, List.nil_append, List.append_assoc, List.cons_append]
      simp only [readGlue, readGlueWith, hsig, settle, expand]
    · simp only [DimLit.den] at hrange
      have hr := range_pm sg.den _ hs1 hrange
      have he : ((sg.den * dsg.den : Int) : Rat) * (v : Rat) = (sg.den : Rat) * ((dsg.den : Rat) * (v : Rat)) := by grind
      simp only [glueDecode, dv, GlueLit.den, DimLit.den, Option.map_none, he, decode_finite _ hr.1 hr.2]
  | inl d =>
    simp only [Bool.and_eq_true] at hdb
    obtain ⟨hd, hu⟩ := hdb
    simp only [glueFollow, Bool.and_eq_true] at hf
    obtain ⟨⟨hnsp, hfp⟩, hfm⟩ := hf
    -- the stream behind the two sign runs
    obtain ⟨c, tl, hr, h1, h2⟩ := dec_render_head d hd
    let Y := pmRender plus ++ (pmRender minus ++ R)
    have hX : (DimLit.render ⟨dsg, .inl d, u⟩) ++ Y = dsg.render ++ (d.render ++ (u.render ++ Y)) := by
      simp [DimLit.render, List.append_assoc]
    have hsig := readSigns_two sg dsg (d.render ++ (u.render ++ Y)) (by rw [hr]; exact noSign_ch c _ h1 h2)
    -- the dimension, read with the plain unit table
    have hl' : dimWf false ⟨⟨0, []⟩, .inl d, u⟩ = true := by
      simp only [dimWf, Bool.and_eq_true, decide_eq_true_eq, hd, hu, true_and]
      simp only [DimLit.den, Signs.den, parity] at hrange ⊢
      rcases hs2 with h | h <;> rw [h] at hrange
      · simpa using hrange
      · have e : ((-1 : Int) : Rat) * d.den * u.kind.den.2 = -(((1 : Int) : Rat) * d.den * u.kind.den.2) := by grind
        rw [e] at hrange; constructor <;> grind
    obtain ⟨v1, hv1, hdec1⟩ := dimen_core false ⟨⟨0, []⟩, .inl d, u⟩ Y hl' (unitWf_false_filOK _ d u Y hu)
    have hrender1 : (DimLit.render ⟨⟨0, []⟩, .inl d, u⟩) ++ Y = d.render ++ (u.render ++ Y) := by
      simp [DimLit.render, Signs.render, spaces, renderItems, List.append_assoc]
    rw [hrender1] at hv1
    simp only [tableFor, Bool.false_eq_true, if_false] at hv1
    have hord : (DimLit.den ⟨⟨0, []⟩, .inl d, u⟩).order = 0 := unitWf_false_order u hu
    rw [hord] at hdec1
    have hv1eq := decode_zero _ _ hdec1
    -- plus, then minus
    obtain ⟨st, hst, hstv⟩ := pm_step kwPlus plus (dimRest ⟨⟨0, []⟩, .inl d, u⟩ Y) (pmRender minus ++ R) (by simp [kwPlus])
      (ros_dimRest _ _) hplus hfp
    obtain ⟨sh, hsh, hshv⟩ := pm_step kwMinus minus (pmRest plus (pmRender minus ++ R)) R (by simp [kwMinus])
      (ros_pmRest _ _) hminus hfm
    rw [pmRest_noSp minus R hnsp] at hsh
    refine ⟨⟨((sg.den * dsg.den : Int) : Rat) * v1, st, sh⟩, ?_, ?_⟩
    · rw [hX]
      simp only [readGlue, readGlueWith, hsig]
      rw [hr] at hv1 ⊢
      simp only [List.cons_append, settle, expand] at hv1 ⊢
      simp only [hv1, hst, hsh]
    · simp only [glueDecode, GlueLit.den, hstv, hshv]
      have hr' := range_pm sg.den _ hs1 hrange
      simp only [DimLit.den] at hr' hv1eq ⊢
      have he : ((sg.den * dsg.den : Int) : Rat) * v1 = (sg.den : Rat) * ((dsg.den : Rat) * d.den * u.kind.den.2) := by
        rw [hv1eq]; simp only [Signs.den, parity]; grind
      simp only [dv, he, decode_finite _ hr'.1 hr'.2, unitWf_false_order u hu]

end PlasVerif.Proofs.Glue
