import PlasVerif.Proofs.FilenamesExpand
/-!
C15: the generator model, run on the linearisation of well-formed template trees, refines the
reference generator of the Spec (`Spec.srequestFuel` / `srequest`), request by request.
-/
namespace PlasVerif.Model.Filenames
/-- result of the pass loop without the pass counter: `none` = an exception escaped -/
def Loop.res : Loop → Option (Option Str × Nat)
  | .issued s n _ => some (some s, n)
  | .gaveUp n _ => some (none, n)
  | .raised _ _ => none
end PlasVerif.Model.Filenames

namespace PlasVerif.Proofs.Filenames
open PlasVerif.Model.Filenames PlasVerif.Spec.Filenames PlasVerif.Generated.Filenames

/-- the walk a Spec search result stands for -/
def toWalk (env : Env) : Option Str × List Tmpl × Nat → Walk
  | (some nm, rest, n) => .issued nm (rest.map lin) n
  | (none, _, n) => .fell env n

theorem staticWalk_fst_cons (cfg : Config) (taken : List Str) (item : Str) (rest : List Str) (vars : Env) (num : Nat) :
    (staticWalk cfg taken (item :: rest) vars num).1 =
      match expand cfg vars num item with
      | .unbound => (staticWalk cfg taken rest vars num).1
      | .invalid => .raised rest num
      | .ok r used =>
        if addExt cfg.ext r ∈ taken then (staticWalk cfg taken rest vars (bump num used)).1
        else .issued (addExt cfg.ext r) rest (bump num used) := by
  rw [staticWalk]
  cases expand cfg vars num item with
  | unbound => rfl
  | invalid => rfl
  | ok r used =>
    simp only
    split <;> rfl

theorem altWalk_fst_cons (cfg : Config) (taken : List Str) (item : Str) (rest : List Str) (vars : Env) (num : Nat) :
    (altWalk cfg taken (item :: rest) vars num).1 =
      match expand cfg vars num item with
      | .unbound => (altWalk cfg taken rest (envErase vars numKey) num).1
      | .invalid => .raised rest num
      | .ok r used =>
        if addExt cfg.ext r ∈ taken then (altWalk cfg taken rest vars (bump num used)).1
        else .issued (addExt cfg.ext r) rest (bump num used) := by
  rw [altWalk]
  cases expand cfg vars num item with
  | unbound => rfl
  | invalid => rfl
  | ok r used =>
    simp only
    split <;> rfl

theorem bump_numbered (num : Nat) (u : Bool) : (if u = true then num + 1 else num) = bump num u := by
  simp [bump]

/-- static names: the model's walk is the Spec's search for the first fresh template -/
theorem static_sim (cfg : Config) (taken : List Str) (env : Env) (hsub : ∀ c ∈ cfg.sub, c ∉ cfg.bad) :
    ∀ (ts : List Tmpl) (num : Nat), (∀ t ∈ ts, wf t = true) →
    (staticWalk cfg taken (ts.map lin) env num).1 = toWalk env (firstFresh cfg taken env ts num) ∧
    ∀ t ∈ (firstFresh cfg taken env ts num).2.1, t ∈ ts := by
  intro ts
  induction ts with
  | nil => intro num _; simp [staticWalk, firstFresh, toWalk]
  | cons t ts ih =>
    intro num hwf
    have hw := hwf t (List.mem_cons_self ..)
    have ih' := fun n => ih n (fun x hx => hwf x (List.mem_cons_of_mem _ hx))
    rw [List.map_cons, staticWalk_fst_cons, expand_render cfg env num t hw hsub]
    simp only [firstFresh, candidate]
    cases render cfg env num t with
    | none =>
      simp only [Option.map_none]
      exact ⟨(ih' num).1, fun x hx => List.mem_cons_of_mem _ ((ih' num).2 x hx)⟩
    | some r =>
      simp only [Option.map_some, bump_numbered]
      by_cases ht : addExt cfg.ext r ∈ taken
      · simp only [ht, if_true]
        exact ⟨(ih' _).1, fun x hx => List.mem_cons_of_mem _ ((ih' _).2 x hx)⟩
      · simp only [ht, if_false, toWalk]
        exact ⟨trivial, fun x hx => List.mem_cons_of_mem _ hx⟩

/-- one wildcard pass (the caller does not bind `num`, so deleting it is a no-op) -/
theorem alt_sim (cfg : Config) (taken : List Str) (env : Env) (hsub : ∀ c ∈ cfg.sub, c ∉ cfg.bad)
    (hnum : envGet env numKey = none) :
    ∀ (ts : List Tmpl) (num : Nat), (∀ t ∈ ts, wf t = true) →
    (altWalk cfg taken (ts.map lin) env num).1 = toWalk env (firstFresh cfg taken env ts num) := by
  intro ts
  induction ts with
  | nil => intro num _; simp [altWalk, firstFresh, toWalk]
  | cons t ts ih =>
    intro num hwf
    have hw := hwf t (List.mem_cons_self ..)
    have ih' := fun n => ih n (fun x hx => hwf x (List.mem_cons_of_mem _ hx))
    rw [List.map_cons, altWalk_fst_cons, expand_render cfg env num t hw hsub, envErase_of_none env numKey hnum]
    simp only [firstFresh, candidate]
    cases render cfg env num t with
    | none => simp only [Option.map_none]; exact ih' num
    | some r =>
      simp only [Option.map_some, bump_numbered]
      by_cases ht : addExt cfg.ext r ∈ taken
      · simp only [ht, if_true]; exact ih' _
      · simp only [ht, if_false, toWalk]

/-- the pass loop is the Spec's `passes` -/
theorem pass_sim (cfg : Config) (taken : List Str) (env : Env) (hsub : ∀ c ∈ cfg.sub, c ∉ cfg.bad)
    (hnum : envGet env numKey = none) (wild : List Tmpl) (hwf : ∀ t ∈ wild, wf t = true) :
    ∀ (fuel num p : Nat),
    (passLoop cfg taken (wild.map lin) fuel env num p).1.res = some (passes cfg taken env wild fuel num) := by
  intro fuel
  induction fuel with
  | zero => intro num p; simp [passLoop, passes, Loop.res]
  | succ fuel ih =>
    intro num p
    have ha := alt_sim cfg taken env hsub hnum wild num hwf
    simp only [passLoop, passes]
    generalize altWalk cfg taken (wild.map lin) env num = res at ha
    obtain ⟨w, ev⟩ := res
    simp only at ha
    subst ha
    generalize firstFresh cfg taken env wild num = ff
    obtain ⟨o, rest, n'⟩ := ff
    cases o with
    | some nm => simp [toWalk, Loop.res]
    | none =>
      simp only [toWalk]
      by_cases hf : fuel = 0
      · subst hf; simp [Loop.res, passes]
      · simp only [hf, if_false]
        have := ih n' (p + 1)
        generalize passLoop cfg taken (wild.map lin) fuel env n' (p + 1) = r2 at this
        obtain ⟨l, ev'⟩ := r2
        exact this


end PlasVerif.Proofs.Filenames
namespace PlasVerif.Spec.Filenames
open PlasVerif.Model.Filenames
/-- the model state `st` runs the linearisation of the Spec state `sst` -/
structure Rel (st : State) (sst : SState) : Prop where
  statics : st.statics = sst.statics.map lin
  wildcard : st.wildcard = sst.wildcard.map lin
  num : st.num = sst.num
  taken : st.taken = sst.taken
  base : st.base = sst.base
  dead : st.dead = sst.dead
  vars : st.dead = false → st.vars = st.base
  wfS : ∀ t ∈ sst.statics, wf t = true
  wfW : ∀ t ∈ sst.wildcard, wf t = true
end PlasVerif.Spec.Filenames
namespace PlasVerif.Proofs.Filenames
open PlasVerif.Model.Filenames PlasVerif.Spec.Filenames PlasVerif.Generated.Filenames

/-- one request of the model = one request of the Spec with the budget that is left -/
theorem request_sim (cfg : Config) (hsub : ∀ c ∈ cfg.sub, c ∉ cfg.bad) (st : State) (sst : SState) (b : Env)
    (hR : Rel st sst) (hnum : envGet (envUpdate sst.base b) numKey = none) :
    (request cfg st b).2.1 = (srequestFuel cfg (passesLeft st.passes) sst b).2 ∧
    Rel (request cfg st b).1 (srequestFuel cfg (passesLeft st.passes) sst b).1 := by
  obtain ⟨h1, h2, h3, h4, h5, h6, h7, h8, h9⟩ := hR
  unfold request srequestFuel
  by_cases hd : st.dead = true
  · have hd2 : sst.dead = true := by rw [← h6]; exact hd
    simp only [hd, hd2, if_true]
    refine ⟨by first | trivial | rfl, ⟨?_, ?_, ?_, ?_, ?_, ?_, ?_, ?_, ?_⟩⟩
    all_goals first | rfl | assumption | (intro h; simp at h; done) | (simp [*]; done) | skip
  · have hd' : st.dead = false := by simpa using hd
    have hd2 : sst.dead = false := by rw [← h6]; exact hd'
    have hv : envUpdate st.vars b = envUpdate sst.base b := by rw [h7 hd', h5]
    simp only [hd', hd2, Bool.false_eq_true, if_false, hv, h1, h3, h4]
    have hs := static_sim cfg sst.taken (envUpdate sst.base b) hsub sst.statics sst.num h8
    generalize staticWalk cfg sst.taken (sst.statics.map lin) (envUpdate sst.base b) sst.num = res at hs
    obtain ⟨w, ev⟩ := res
    generalize firstFresh cfg sst.taken (envUpdate sst.base b) sst.statics sst.num = ff at hs
    obtain ⟨o, rest, n'⟩ := ff
    obtain ⟨hw, hrest⟩ := hs
    simp only at hw hrest
    subst hw
    cases o with
    | some nm =>
      simp only [toWalk]
      refine ⟨by first | trivial | rfl, ⟨?_, ?_, ?_, ?_, ?_, ?_, ?_, ?_, ?_⟩⟩
      all_goals first | rfl | assumption | (intro h; simp at h; done) | (intro _; rfl) | (simp [*]; done) | skip
      exact fun t ht => h8 t (hrest t ht)
    | none =>
      simp only [toWalk]
      unfold wildcardPhase
      simp only [h2, h4]
      have hp := pass_sim cfg sst.taken (envUpdate sst.base b) hsub hnum sst.wildcard h9 (passesLeft st.passes) n' st.passes
      generalize passLoop cfg sst.taken (sst.wildcard.map lin) (passesLeft st.passes) (envUpdate sst.base b) n' st.passes = r2 at hp
      obtain ⟨l, ev'⟩ := r2
      generalize passes cfg sst.taken (envUpdate sst.base b) sst.wildcard (passesLeft st.passes) n' = pp at hp
      obtain ⟨o2, n''⟩ := pp
      cases l with
      | issued s n q =>
        simp only [Loop.res, Option.some.injEq, Prod.mk.injEq] at hp
        obtain ⟨ho, hn⟩ := hp
        subst ho hn
        simp only
        refine ⟨by first | trivial | rfl, ⟨?_, ?_, ?_, ?_, ?_, ?_, ?_, ?_, ?_⟩⟩
        all_goals first | rfl | assumption | (intro h; simp at h; done) | (intro _; rfl) | (simp [*]; done) | skip
      | raised n q => simp [Loop.res] at hp
      | gaveUp n q =>
        simp only [Loop.res, Option.some.injEq, Prod.mk.injEq] at hp
        obtain ⟨ho, hn⟩ := hp
        subst ho hn
        simp only
        refine ⟨by first | trivial | rfl, ⟨?_, ?_, ?_, ?_, ?_, ?_, ?_, ?_, ?_⟩⟩
        all_goals first | rfl | assumption | (intro h; simp at h; done) | (intro _; rfl) | (simp [*]; done) | skip


/-! ### a larger budget does not change a request that succeeds -/

theorem passes_mono (cfg : Config) (taken : List Str) (env : Env) (wild : List Tmpl) (nm : Str) (n' : Nat) :
    ∀ (k num k' : Nat), passes cfg taken env wild k num = (some nm, n') → k ≤ k' →
    passes cfg taken env wild k' num = (some nm, n') := by
  intro k
  induction k with
  | zero => intro num k' h; simp [passes] at h
  | succ k ih =>
    intro num k' h hk
    cases k' with
    | zero => omega
    | succ k' =>
      simp only [passes] at h ⊢
      generalize firstFresh cfg taken env wild num = ff at h
      obtain ⟨o, rest, m⟩ := ff
      cases o with
      | some x => exact h
      | none => exact ih m k' h (by omega)

theorem srequestFuel_mono (cfg : Config) (sst : SState) (b : Env) (k k' : Nat) (nm : Str)
    (h : (srequestFuel cfg k sst b).2 = .name nm) (hk : k ≤ k') :
    srequestFuel cfg k' sst b = srequestFuel cfg k sst b := by
  unfold srequestFuel at h ⊢
  by_cases hd : sst.dead = true
  · simp [hd]
  · have hd' : sst.dead = false := by simpa using hd
    simp only [hd', Bool.false_eq_true, if_false] at h ⊢
    generalize firstFresh cfg sst.taken (envUpdate sst.base b) sst.statics sst.num = ff at h
    obtain ⟨o, rest, m⟩ := ff
    cases o with
    | some x => rfl
    | none =>
      simp only at h ⊢
      generalize hp : passes cfg sst.taken (envUpdate sst.base b) sst.wildcard k m = pp at h
      obtain ⟨o2, m2⟩ := pp
      cases o2 with
      | some x => rw [passes_mono cfg _ _ _ x m2 k m k' hp hk]
      | none => simp at h

theorem srequestFuel_base (cfg : Config) (sst : SState) (b : Env) (k : Nat) :
    (srequestFuel cfg k sst b).1.base = sst.base := by
  unfold srequestFuel
  by_cases hd : sst.dead = true
  · simp [hd]
  · have hd' : sst.dead = false := by simpa using hd
    simp only [hd', Bool.false_eq_true, if_false]
    generalize firstFresh cfg sst.taken (envUpdate sst.base b) sst.statics sst.num = ff
    obtain ⟨o, rest, m⟩ := ff
    cases o with
    | some x => rfl
    | none =>
      simp only
      generalize passes cfg sst.taken (envUpdate sst.base b) sst.wildcard k m = pp
      obtain ⟨o2, m2⟩ := pp
      cases o2 <;> rfl

theorem passesLeft_le (p : Nat) : passesLeft p ≤ passBound + 1 := by
  unfold passesLeft; omega

/-- a request of the model that issues a name issues the name the Spec prescribes, and the states stay related -/
theorem request_name_spec (cfg : Config) (hsub : ∀ c ∈ cfg.sub, c ∉ cfg.bad) (st : State) (sst : SState) (b : Env)
    (hR : Rel st sst) (hnum : envGet (envUpdate sst.base b) numKey = none) (nm : Str)
    (h : (request cfg st b).2.1 = .name nm) :
    (srequest cfg sst b).2 = .name nm ∧ Rel (request cfg st b).1 (srequest cfg sst b).1 := by
  obtain ⟨h1, h2⟩ := request_sim cfg hsub st sst b hR hnum
  have h3 : (srequestFuel cfg (passesLeft st.passes) sst b).2 = .name nm := by rw [← h1]; exact h
  have h4 := srequestFuel_mono cfg sst b (passesLeft st.passes) (passBound + 1) nm h3 (passesLeft_le _)
  unfold srequest
  rw [h4]
  exact ⟨h3, h2⟩

theorem srun_cons (cfg : Config) (sst : SState) (b : Env) (bs : List Env) :
    srun cfg sst (b :: bs) = (srequest cfg sst b).2 :: srun cfg (srequest cfg sst b).1 bs := by
  simp [srun]

theorem history_spec (cfg : Config) (hsub : ∀ c ∈ cfg.sub, c ∉ cfg.bad) (bs : List Env) :
    ∀ (st : State) (sst : SState), Rel st sst →
    (∀ b ∈ bs, envGet (envUpdate sst.base b) numKey = none) →
    (∀ r ∈ results cfg st bs, ∃ nm, r = .name nm) →
    results cfg st bs = srun cfg sst bs := by
  induction bs with
  | nil => intro st sst _ _ _; simp [results, run, srun]
  | cons b bs ih =>
    intro st sst hR hnum hall
    rw [results_cons] at hall ⊢
    rw [srun_cons]
    obtain ⟨nm, hnm⟩ := hall _ (List.mem_cons_self ..)
    obtain ⟨h1, h2⟩ := request_name_spec cfg hsub st sst b hR (hnum b (List.mem_cons_self ..)) nm hnm
    rw [hnm, h1]
    congr 1
    apply ih _ _ h2
    · intro b' hb'
      have : (srequest cfg sst b).1.base = sst.base := srequestFuel_base cfg sst b _
      rw [this]
      exact hnum b' (List.mem_cons_of_mem _ hb')
    · intro r hr
      exact hall r (List.mem_cons_of_mem _ hr)

/-! ### initial states are related -/

theorem splitItems_tree (ss : List Str) (ws : List Str) (hw : ws ≠ []) :
    splitItems (ss.map Item.name ++ [Item.alts ws]) = (ss, ws) := by
  induction ss with
  | nil => simp [splitItems]
  | cons x xs ih =>
    simp only [List.map_cons, List.cons_append, splitItems, ih]
    cases xs with
    | nil => cases ws with
      | nil => exact absurd rfl hw
      | cons a as => rfl
    | cons y ys => rfl

theorem initial_rel (statics wildcard : List Tmpl) (vars : Env) (reserved : List Str) (hw : wildcard ≠ [])
    (h1 : ∀ t ∈ statics, wf t = true) (h2 : ∀ t ∈ wildcard, wf t = true) :
    Rel (initial ((statics.map lin).map Item.name ++ [Item.alts (wildcard.map lin)]) vars reserved)
      (sinit statics wildcard vars reserved) := by
  have hs := splitItems_tree (statics.map lin) (wildcard.map lin) (by simpa using hw)
  unfold initial
  rw [hs]
  exact ⟨rfl, rfl, rfl, rfl, rfl, rfl, fun _ => rfl, h1, h2⟩

end PlasVerif.Proofs.Filenames
