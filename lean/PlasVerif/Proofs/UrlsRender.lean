import PlasVerif.Proofs.Urls
import PlasVerif.Model.Render
/-!
C14 ↔ C13: the file a URL names (`Renderable.url`, `Model/Urls.lean`) is the file into which C13's model of
`Renderable.__str__` (`Model/Render.lean`: `child` / `strKids`, with layouts and footnote collection) writes the
node's own template output.  Depends only on the two *models*, not on C13's proofs.
-/
namespace PlasVerif.Proofs.UrlsRender
open PlasVerif.Model PlasVerif.Model.Urls PlasVerif.Proofs.Urls

/- embedding of a C14 render tree into C13's annotated tree: `tag` names the node in the token stream
   (`Tok.op (tag n)` is the opening of n's own template), `fname` spells the file rank as a name;
   no node is a footnote (footnote marks/texts are C13's own clause) -/
def labOf : Option Urls.Id → Option String
  | some (.lab s) => some s
  | _ => none

mutual
def toRender (tag : Urls.Tree → Nat) (fname : Nat → String) : Urls.Tree → (Render.ATree String)
  | .node lv id num file kids =>
    .elem { tag := tag (.node lv id num file kids), level := lv, foot := false,
            id := labOf id,
            title := none, ref := (if num.num = "" then none else some num.num), name := "" }
          (file.map fname) (toRenderL tag fname kids)
def toRenderL (tag : Urls.Tree → Nat) (fname : Nat → String) : List Urls.Tree → List (Render.ATree String)
  | [] => []
  | t :: ts => toRender tag fname t :: toRenderL tag fname ts
end

@[simp] theorem toRenderL_nil (tag fname) : toRenderL tag fname [] = [] := by rw [toRenderL]
@[simp] theorem toRenderL_cons (tag fname t ts) :
    toRenderL tag fname (t :: ts) = toRender tag fname t :: toRenderL tag fname ts := by rw [toRenderL]

theorem strKids_cons' (c : Render.ATree String) (cs : List (Render.ATree String)) : Render.strKids (c :: cs) =
    ((Render.child c).1 ++ (Render.strKids cs).1, (Render.child c).2 ++ (Render.strKids cs).2) := by rw [Render.strKids]
theorem strKids_nil' : Render.strKids ([] : List (Render.ATree String)) = ([], []) := by rw [Render.strKids]

theorem child_none' (a : Render.Attrs) (ks : List (Render.ATree String)) (h : a.foot = false) : Render.child (.elem a none ks) =
    (.op a.tag :: ((Render.strKids ks).1 ++ [.cl a.tag]), (Render.strKids ks).2) := by
  rw [Render.child]; simp [h]

theorem child_some' (a : Render.Attrs) (n : String) (ks : List (Render.ATree String)) (h : a.foot = false) : Render.child (.elem a (some n) ks) =
    ([], (Render.strKids ks).2 ++ (if a.level < Render.ENDSECTIONS_LEVEL then Render.footOutL ks else ([], [])).2
        ++ [(n, .lop a.tag :: (.op a.tag :: ((Render.strKids ks).1 ++ [.cl a.tag])
              ++ (if a.level < Render.ENDSECTIONS_LEVEL then Render.footOutL ks else ([], [])).1 ++ [.lcl a.tag]))]) := by
  rw [Render.child]; simp [h]

theorem child_node_none (tag : Urls.Tree → Nat) (fname : Nat → String) (lv id num kids) :
    Render.child (toRender tag fname (.node lv id num none kids)) =
      (.op (tag (.node lv id num none kids)) ::
          ((Render.strKids (toRenderL tag fname kids)).1 ++ [.cl (tag (.node lv id num none kids))]),
        (Render.strKids (toRenderL tag fname kids)).2) := by
  rw [toRender]; exact child_none' _ _ rfl

/-- the content C13's render writes into the file of a file-producing node -/
def fileToks (tag : Urls.Tree → Nat) (fname : Nat → String) (lv : Int) (id : Option Urls.Id) (num : Urls.Info) (f : Nat)
    (kids : List Urls.Tree) : List Render.Tok :=
  .lop (tag (.node lv id num (some f) kids)) ::
    (.op (tag (.node lv id num (some f) kids)) ::
        ((Render.strKids (toRenderL tag fname kids)).1 ++ [.cl (tag (.node lv id num (some f) kids))])
      ++ (if lv < Render.ENDSECTIONS_LEVEL then Render.footOutL (toRenderL tag fname kids) else ([], [])).1
      ++ [.lcl (tag (.node lv id num (some f) kids))])

theorem child_node_some (tag : Urls.Tree → Nat) (fname : Nat → String) (lv id num f kids) :
    Render.child (toRender tag fname (.node lv id num (some f) kids)) =
      ([], (Render.strKids (toRenderL tag fname kids)).2
          ++ (if lv < Render.ENDSECTIONS_LEVEL then Render.footOutL (toRenderL tag fname kids) else ([], [])).2
          ++ [(fname f, fileToks tag fname lv id num f kids)]) := by
  rw [toRender]; exact child_some' _ _ _ rfl

theorem op_mem_fileToks (tag fname lv id num f kids) :
    Render.Tok.op (tag (.node lv id num (some f) kids)) ∈ fileToks tag fname lv id num f kids := by
  simp [fileToks]

theorem inl_mem_fileToks (tag fname lv id num f kids) (x : Render.Tok)
    (h : x ∈ (Render.strKids (toRenderL tag fname kids)).1) : x ∈ fileToks tag fname lv id num f kids := by
  simp [fileToks, h]

/-- where C13's render puts the opening of node `n`'s template, relative to what `url` says -/
def GoodR (fname : Nat → String) (anc : List Urls.Tree) (inl : List Render.Tok) (files : List (Render.File String))
    (tg : Nat) (u : Url) : Prop :=
  (u.file = walkUp anc ∧ Render.Tok.op tg ∈ inl) ∨
  (∃ f toks, u.file = some f ∧ (fname f, toks) ∈ files ∧ Render.Tok.op tg ∈ toks)

theorem GoodR.mono {fname anc inl files tg u inl' files'} (h : GoodR fname anc inl files tg u)
    (h1 : ∀ i ∈ inl, i ∈ inl') (h2 : ∀ p ∈ files, p ∈ files') : GoodR fname anc inl' files' tg u := by
  rcases h with ⟨a, b⟩ | ⟨f, toks, a, b, c⟩
  · exact .inl ⟨a, h1 _ b⟩
  · exact .inr ⟨f, toks, a, h2 _ b, c⟩

mutual
theorem owner_tree (tag : Urls.Tree → Nat) (fname : Nat → String) (anc : List Urls.Tree) :
    ∀ (t : Urls.Tree), ∀ p ∈ urls anc t,
      GoodR fname anc (Render.child (toRender tag fname t)).1 (Render.child (toRender tag fname t)).2 (tag p.1) p.2
  | .node lv id num file kids => by
    intro p hp
    have ih := owner_list tag fname (.node lv id num file kids :: anc) kids
    simp only [urls_node, List.mem_cons] at hp
    cases file with
    | none =>
      rw [child_node_none]
      have hw : walkUp (Urls.Tree.node lv id num none kids :: anc) = walkUp anc := walkUp_cons_none _ _ rfl
      rcases hp with rfl | hp
      · exact .inl ⟨by simp [url, Urls.Tree.file], by simp⟩
      · rcases ih p hp with ⟨a, b⟩ | ⟨f', toks, a, b, c⟩
        · exact .inl ⟨by rw [a, hw], by simp [b]⟩
        · exact .inr ⟨f', toks, a, b, c⟩
    | some f =>
      rw [child_node_some]
      right
      rcases hp with rfl | hp
      · exact ⟨f, fileToks tag fname lv id num f kids, by simp [url, Urls.Tree.file], by simp, op_mem_fileToks ..⟩
      · rcases ih p hp with ⟨a, b⟩ | ⟨f', toks, a, b, c⟩
        · refine ⟨f, fileToks tag fname lv id num f kids, ?_, by simp, inl_mem_fileToks _ _ _ _ _ _ _ _ b⟩
          rw [a]; exact walkUp_cons_some _ _ _ rfl
        · exact ⟨f', toks, a, by simp [b], c⟩
theorem owner_list (tag : Urls.Tree → Nat) (fname : Nat → String) (anc : List Urls.Tree) :
    ∀ (ts : List Urls.Tree), ∀ p ∈ urlsList anc ts,
      GoodR fname anc (Render.strKids (toRenderL tag fname ts)).1 (Render.strKids (toRenderL tag fname ts)).2 (tag p.1) p.2
  | [] => by intro p hp; simp at hp
  | t :: ts => by
    intro p hp
    simp only [urlsList_cons, List.mem_append] at hp
    simp only [toRenderL_cons, strKids_cons']
    rcases hp with hp | hp
    · exact (owner_tree tag fname anc t p hp).mono (fun i hi => by simp [hi]) (fun q hq => by simp [hq])
    · exact (owner_list tag fname anc ts p hp).mono (fun i hi => by simp [hi]) (fun q hq => by simp [hq])
end

end PlasVerif.Proofs.UrlsRender
