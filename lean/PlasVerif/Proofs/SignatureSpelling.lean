import PlasVerif.Proofs.Signature
/-! The signature compiler on every spelling of a signature (free blanks between the words), not only the canonical one. -/
namespace PlasVerif.Proofs.SignatureSpelling
open PlasVerif.Model.Signature PlasVerif.Spec.Signature PlasVerif.Proofs.Signature

theorem follow_eq (r : List Nat) : follow r = followOK r := by cases r <;> rfl

theorem lex_blanks (n : Nat) : ∀ (f : Nat) (r : List Nat), lexFuel (f + n) (List.replicate n 32 ++ r) = lexFuel f r := by
  induction n with
  | zero => intro f r; simp
  | succ n ih =>
    intro f r
    have : f + (n + 1) = (f + n) + 1 := by omega
    rw [this]
    simp only [List.replicate_succ, List.cons_append, lexFuel, show isWord 32 = false by decide,
      show isSpace 32 = true by decide, Bool.false_eq_true, if_false, if_true]
    exact ih f r

theorem follow_blanks (n : Nat) (r : List Nat) (hn : 0 < n) : follow (List.replicate n 32 ++ r) = true := by
  cases n with
  | zero => omega
  | succ n => simp [List.replicate_succ, follow_space]

theorem followOK_append (w r : List Nat) (hne : w ≠ []) : followOK (w ++ r) = followOK w := by
  cases w with
  | nil => exact absurd rfl hne
  | cons c cs => rfl

theorem punct_step (w : List Nat) (h : isPunctWord w = true) (f : Nat) (r : List Nat) :
    lexFuel (f + 1) (w ++ r) = w :: lexFuel f r := by
  unfold isPunctWord at h
  split at h
  · rename_i c
    simp only [Bool.and_eq_true, Bool.not_eq_true', identChar_eq] at h
    have hb : isSpace c = false := h.2
    simp [lexFuel, h.1, hb]
  · simp at h

theorem joinGaps_length_words (ws : List (List Nat)) : ∀ gs, (∀ w ∈ ws, w ≠ []) → ws.length ≤ (joinGaps ws gs).length := by
  induction ws with
  | nil => intro gs _; simp [joinGaps]
  | cons w ws ih =>
    intro gs h
    have hw : 1 ≤ w.length := by
      cases w with | nil => exact absurd rfl (h [] (by simp)) | cons _ _ => simp
    cases ws with
    | nil => simp [joinGaps]; omega
    | cons w2 ws2 =>
      have := ih gs.tail (fun x hx => h x (List.mem_cons_of_mem _ hx))
      simp only [joinGaps, List.length_append, List.length_cons, List.length_replicate] at this ⊢
      omega

/-- the lexer returns exactly the words, whatever the blanks between them -/
theorem lex_joinGaps (ws : List (List Nat)) : ∀ (gs : List Nat) (f : Nat), (∀ w ∈ ws, LexAtomic w) →
    gapsOK ws gs = true → (joinGaps ws gs).length ≤ f → lexFuel f (joinGaps ws gs) = ws := by
  induction ws with
  | nil => intro gs f _ _ _; simp [joinGaps, lexFuel_nil]
  | cons w ws ih =>
    intro gs f h hg hf
    obtain ⟨hne, hw⟩ := h w (by simp)
    have hlen : 1 ≤ w.length := by cases w with | nil => exact absurd rfl hne | cons _ _ => simp
    cases ws with
    | nil =>
      simp only [joinGaps, List.length_append, List.length_replicate] at hf ⊢
      obtain ⟨f', rfl⟩ : ∃ f', f = f' + gs.headD 0 + 1 := ⟨f - gs.headD 0 - 1, by omega⟩
      have hfol : follow (List.replicate (gs.headD 0) 32 ++ []) = true := by
        rcases Nat.eq_zero_or_pos (gs.headD 0) with h0 | h0
        · rw [h0]; rfl
        · exact follow_blanks _ _ h0
      have := hw (f' + gs.headD 0) (List.replicate (gs.headD 0) 32 ++ []) hfol
      simp only [List.append_nil] at this
      rw [this]
      have hb := lex_blanks (gs.headD 0) f' []
      simp only [List.append_nil] at hb
      rw [hb, lexFuel_nil]
    | cons w2 ws2 =>
      simp only [gapsOK, Bool.and_eq_true, Bool.or_eq_true, decide_eq_true_eq] at hg
      obtain ⟨hgap, hrest⟩ := hg
      have hne2 : w2 ≠ [] := (h w2 (by simp)).1
      have hwords := joinGaps_length_words (w2 :: ws2) gs.tail (fun x hx => (h x (List.mem_cons_of_mem _ hx)).1)
      simp only [joinGaps, List.length_append, List.length_replicate] at hf ⊢
      have hJ : 1 ≤ (joinGaps (w2 :: ws2) gs.tail).length := by simp at hwords; omega
      obtain ⟨f', rfl⟩ : ∃ f', f = f' + gs.headD 1 + 1 := ⟨f - gs.headD 1 - 1, by omega⟩
      have hstep : lexFuel (f' + gs.headD 1 + 1) (w ++ (List.replicate (gs.headD 1) 32 ++ joinGaps (w2 :: ws2) gs.tail)) =
          w :: lexFuel (f' + gs.headD 1) (List.replicate (gs.headD 1) 32 ++ joinGaps (w2 :: ws2) gs.tail) := by
        rcases hgap with (hpos | hp) | hfo
        · exact hw _ _ (follow_blanks _ _ hpos)
        · exact punct_step w hp _ _
        · rcases Nat.eq_zero_or_pos (gs.headD 1) with h0 | h0
          · apply hw
            rw [h0]
            simp only [List.replicate_zero, List.nil_append]
            cases ws2 with
            | nil => simp only [joinGaps]; rw [follow_eq, followOK_append _ _ hne2]; exact hfo
            | cons w3 ws3 => simp only [joinGaps]; rw [follow_eq, followOK_append _ _ hne2]; exact hfo
          · exact hw _ _ (follow_blanks _ _ h0)
      rw [hstep, lex_blanks]
      rw [ih gs.tail f' (fun x hx => h x (List.mem_cons_of_mem _ hx)) hrest (by omega)]

theorem lexArgs_spaced (lead : Nat) (gaps : List Nat) (sig : Sig) (h : WF sig = true)
    (hg : gapsOK (sigItems sig) gaps = true) : lexArgs (renderSpaced lead gaps sig) = sigItems sig := by
  unfold lexArgs renderSpaced
  have hlen : (List.replicate lead 32 ++ joinGaps (sigItems sig) gaps).length =
      (joinGaps (sigItems sig) gaps).length + lead := by simp; omega
  rw [hlen, lex_blanks]
  exact lex_joinGaps _ gaps _ (words_atomic sig h) hg (Nat.le_refl _)

/-- **Signature compiler, any spelling.** Every well-formed signature, written with any number of blanks in front,
    between its words (none needed next to brackets, modifiers and `=`) and behind, compiles to exactly the declared
    arguments. -/
theorem compile_render_spaced (lead : Nat) (gaps : List Nat) (sig : Sig) (h : WF sig = true)
    (hg : gapsOK (sigItems sig) gaps = true) (hne : sig ≠ []) :
    compileArgs (renderSpaced lead gaps sig) = .ok (expected sig) := by
  unfold compileArgs
  split
  · rename_i he
    exfalso
    have := lexArgs_spaced lead gaps sig h hg
    simp only [List.isEmpty_iff] at he
    rw [he] at this
    cases sig with
    | nil => exact hne rfl
    | cons x rest =>
      have hx : sigItems (x :: rest) ≠ [] := by
        cases x with
        | modifier m => simp [sigItems, itemWords]
        | equals => simp [sigItems, itemWords]
        | arg d n ty => cases d <;> simp [sigItems, itemWords, Delim.opening, Delim.closing]
      exact hx (by rw [← this]; rfl)
  · rw [lexArgs_spaced lead gaps sig h hg, compile_items_render sig h]

end PlasVerif.Proofs.SignatureSpelling
