import PlasVerif.Spec.ListTree
/-!
Helper lemmas for C10 (digestion): the loops of the model absorb the rendering of a
well-formed block list and rebuild exactly the prescribed nodes.
-/
namespace PlasVerif.Proofs.Lists
open PlasVerif.Model.Lists PlasVerif.Spec.ListTree

abbrev Res := Option (List Node × Option Node × Stream)

/-- the only thing the loops need to know about the absorbing node -/
def modeOk (m : Mode) (self : Tok) : Prop := m = .env → self.kind.level = ENVIRONMENT_LEVEL

def prependRes (ns : List Node) : Res → Res
  | none => none
  | some (cs, e, r) => some (ns ++ cs, e, r)

@[simp] theorem prependRes_nil (R : Res) : prependRes [] R = R := by
  cases R with
  | none => rfl
  | some x => obtain ⟨a, b, c⟩ := x; rfl

@[simp] theorem prependRes_cons (n : Node) (ns : List Node) (R : Res) :
    prependRes (n :: ns) R = consRes n (prependRes ns R) := by
  cases R with
  | none => rfl
  | some x => obtain ⟨a, b, c⟩ := x; rfl

@[simp] theorem level_text (s : Nat) : (Kind.text s).level = 1001 := rfl
@[simp] theorem level_space : Kind.space.level = 1001 := rfl
@[simp] theorem level_par : Kind.par.level = 101 := rfl
@[simp] theorem level_cmd (s : Nat) : (Kind.cmd s).level = 1001 := rfl
@[simp] theorem level_hline : Kind.hline.level = 1001 := rfl
@[simp] theorem level_cline (a b : Nat) : (Kind.cline a b).level = 1001 := rfl
@[simp] theorem level_vline : Kind.vline.level = 1001 := rfl
@[simp] theorem level_mcol (a : Nat) (b : ColStyle) (c : Nat) : (Kind.mcol a b c).level = 1001 := rfl
@[simp] theorem level_begin (c : Cls) (t : Nat) : (Kind.begin_ c t).level = 201 := rfl
@[simp] theorem level_end (c : Cls) (t : Nat) : (Kind.end_ c t).level = 201 := rfl
@[simp] theorem level_grpB : Kind.grpB.level = 1001 := rfl
@[simp] theorem level_grpE : Kind.grpE.level = 1001 := rfl
@[simp] theorem level_item (t : Nat) : (Kind.item t).level = 1001 := rfl
@[simp] theorem level_amp : Kind.amp.level = 1001 := rfl
@[simp] theorem level_endrow : Kind.endrow.level = 1001 := rfl
@[simp] theorem level_row : Kind.row.level = 1001 := rfl
@[simp] theorem level_cell : Kind.cell.level = 1001 := rfl

theorem loop_leaf (k : Kind) (hk : isLeafKind k = true) (m : Mode) (self : Tok) (d f : Nat) (rest : Stream)
    (hd : self.depth ≤ d) (hm : modeOk m self) :
    loop (f + 2) m self (mkT d k :: rest) = consRes (mkT d k) (loop (f + 1) m self rest) := by
  have hnd : ¬ d < self.depth := by omega
  cases m with
  | env =>
    have hl := hm rfl
    cases k <;> simp [isLeafKind] at hk <;>
      simp [loop, classify, mkT, Node.kind, Node.depth, Node.tok, Kind.isElement, digestNode, isEndOf, isItemKind, hl,
        hnd, PAR_LEVEL, ENVIRONMENT_LEVEL, COMMAND_LEVEL]
  | until_ e =>
    cases k <;> simp [isLeafKind] at hk <;> cases e <;>
      simp [loop, classify, mkT, Node.kind, Node.depth, Node.tok, Kind.isElement, digestNode, EndClass.isInstance, hnd]
  | grp =>
    cases k <;> simp [isLeafKind] at hk <;>
      simp [loop, classify, mkT, Node.kind, Node.depth, Node.tok, Kind.isElement, digestNode, hnd,
        PAR_LEVEL, ENDSECTIONS_LEVEL, COMMAND_LEVEL]

/-- kinds that open a nested structure -/
def isHeadKind : Kind → Bool
  | .grpB | .begin_ _ _ => true
  | _ => false

theorem loop_head (t : Tok) (hk : isHeadKind t.kind = true) (m : Mode) (self : Tok) (f : Nat) (s s' : Stream)
    (cs : List Node) (hd : self.depth ≤ t.depth) (hm : modeOk m self)
    (hdig : digestNode f (.mk t []) s = some (.mk t cs, s')) :
    loop (f + 1) m self (.mk t [] :: s) = consRes (.mk t cs) (loop f m self s') := by
  obtain ⟨td, tk⟩ := t
  have hnd : ¬ td < self.depth := by simp at hd; omega
  cases m with
  | env =>
    have hl := hm rfl
    cases tk <;> simp [isHeadKind] at hk <;>
      simp_all [loop, classify, Node.kind, Node.depth, Node.tok, Kind.isElement, isEndOf, isItemKind,
        PAR_LEVEL, ENVIRONMENT_LEVEL] <;> (intro h; first | omega | (have := of_decide_eq_true h; omega))
  | until_ e =>
    cases tk <;> simp [isHeadKind] at hk <;> cases e <;>
      simp_all [loop, classify, Node.kind, Node.depth, Node.tok, Kind.isElement, EndClass.isInstance] <;> (intro h; first | omega | (have := of_decide_eq_true h; omega))
  | grp =>
    cases tk <;> simp [isHeadKind] at hk <;>
      simp_all [loop, classify, Node.kind, Node.depth, Node.tok, Kind.isElement,
        PAR_LEVEL, ENDSECTIONS_LEVEL, ENVIRONMENT_LEVEL, COMMAND_LEVEL] <;>
      simp [show ¬ td < self.depth by omega]


/-! ### shape of a rendering: head token + tail -/

def headTok (d : Nat) : Block → Tok
  | .leaf k => ⟨d, k⟩
  | .grp _ => ⟨d + 1, .grpB⟩
  | .env ty _ => ⟨d + 1, .begin_ .env ty⟩
  | .list ty _ _ => ⟨d + 1, .begin_ .list ty⟩
  | .table ty _ _ _ => ⟨d + 2, .begin_ .array ty⟩

def tailR (d : Nat) : Block → Stream
  | .leaf _ => []
  | .grp bs => bs.render (d + 1) ++ [mkT d .grpE]
  | .env ty bs => bs.render (d + 1) ++ [mkT d (.end_ .env ty)]
  | .list ty nsp is => blanks (d + 1) nsp ++ (is.render (d + 1) ++ [mkT d (.end_ .list ty)])
  | .table ty c cs rs =>
    mkT (d + 2) .row :: mkT (d + 2) .cell ::
      (c.render (d + 2) ++ (cs.render (d + 2) ++ (rs.render (d + 2) ++ [mkT d (.end_ .array ty)])))

theorem render_eq (b : Block) (d : Nat) : b.render d = .mk (headTok d b) [] :: tailR d b := by
  cases b <;> simp [Block.render, headTok, tailR, mkT]

theorem node_eq (b : Block) (d : Nat) (h : b.isLeaf = false) : b.node d = .mk (headTok d b) (b.node d).ch := by
  cases b <;> simp [Block.isLeaf] at h <;> simp [Block.node, headTok, Node.ch]

theorem head_kind (b : Block) (d : Nat) (h : b.isLeaf = false) : isHeadKind (headTok d b).kind = true := by
  cases b <;> simp [Block.isLeaf] at h <;> simp [headTok, isHeadKind]

theorem head_depth (b : Block) (d : Nat) : d ≤ (headTok d b).depth := by
  cases b <;> simp [headTok]

/-! ### stopping facts -/

theorem stop_grpE (g d : Nat) (self : Tok) (tl : Stream) (hg : 1 ≤ g) :
    loop g .grp self (mkT d .grpE :: tl) = some ([], none, tl) := by
  obtain ⟨g', rfl⟩ : ∃ g', g = g' + 1 := ⟨g - 1, by omega⟩
  simp [loop, classify, mkT, Node.kind, Node.tok, Kind.isElement, ENDSECTIONS_LEVEL]

theorem stop_envEnd (g d sd : Nat) (c : Cls) (ty : Nat) (tl : Stream) (hg : 1 ≤ g) :
    loop g .env ⟨sd, .begin_ c ty⟩ (mkT d (.end_ c ty) :: tl) = some ([], none, tl) := by
  obtain ⟨g', rfl⟩ : ∃ g', g = g' + 1 := ⟨g - 1, by omega⟩
  simp [loop, classify, mkT, Node.kind, Node.tok, Kind.isElement, isEndOf, PAR_LEVEL]

def StopsItem (d : Nat) (tl : Stream) : Prop :=
  ∃ e, ∀ g term, 2 ≤ g → loop g (.until_ .item) ⟨d, .item term⟩ tl = some ([], e, tl)

def StopsCell (D : Nat) (X : Stream) : Prop :=
  ∃ e, (∀ g, 2 ≤ g → loop g (.until_ .cellEnd) ⟨D, .cell⟩ X = some ([], e, X)) ∧ (∀ n, e = some n → n.kind ≠ .amp)

def StopsRow (D : Nat) (X : Stream) (eX : Option Node) : Prop :=
  ∀ g, 2 ≤ g → loop g (.until_ .endrow) ⟨D, .row⟩ X = some ([], eX, X)

/-- a closing token of lower depth stops every `digestUntil` -/
theorem stop_until_end (g d D : Nat) (e : EndClass) (k : Kind) (c : Cls) (ty : Nat) (tl : Stream) (hg : 2 ≤ g) (hd : d < D) :
    loop g (.until_ e) ⟨D, k⟩ (mkT d (.end_ c ty) :: tl) = some ([], none, mkT d (.end_ c ty) :: tl) := by
  obtain ⟨g', rfl⟩ : ∃ g', g = g' + 2 := ⟨g - 2, by omega⟩
  cases e <;> simp [loop, classify, mkT, Node.kind, Node.tok, Node.depth, Kind.isElement, EndClass.isInstance, digestNode, hd]

theorem stopsItem_end (d : Nat) (c : Cls) (ty : Nat) (tl : Stream) : StopsItem (d + 1) (mkT d (.end_ c ty) :: tl) :=
  ⟨none, fun g _ hg => stop_until_end g d (d + 1) .item _ c ty tl hg (by omega)⟩

theorem stopsItem_items (d : Nat) (is : Items) (tl : Stream) (h : StopsItem d tl) : StopsItem d (is.render d ++ tl) := by
  cases is with
  | nil => simpa [Items.render] using h
  | cons term nsp body rest =>
    refine ⟨some (mkT d (.item term)), fun g t hg => ?_⟩
    obtain ⟨g', rfl⟩ : ∃ g', g = g' + 1 := ⟨g - 1, by omega⟩
    simp [Items.render, loop, classify, mkT, Node.kind, Node.tok, Kind.isElement, EndClass.isInstance]
  | consD term nsp body ty db rest =>
    refine ⟨some (mkT d (.item term)), fun g t hg => ?_⟩
    obtain ⟨g', rfl⟩ : ∃ g', g = g' + 1 := ⟨g - 1, by omega⟩
    simp [Items.render, loop, classify, mkT, Node.kind, Node.tok, Kind.isElement, EndClass.isInstance]

theorem skipWs_spaces (d : Nat) (n : List Bool) (X : Stream) : skipWs (blanks d n ++ X) = skipWs X := by
  induction n with
  | nil => simp [blanks]
  | cons p ps ih => cases p <;> simpa [blanks, skipWs, isWs, mkT] using ih

theorem listSkip_spaces (d : Nat) (n : List Bool) (X : Stream) : listSkip (blanks d n ++ X) = listSkip X := by
  induction n with
  | nil => simp [blanks]
  | cons p ps ih => cases p <;> simpa [blanks, listSkip, isWs, mkT] using ih

theorem skipWs_items (d : Nat) (is : Items) (tl : Stream) (h : skipWs tl = tl) :
    skipWs (is.render d ++ tl) = is.render d ++ tl := by
  cases is with
  | nil => simpa [Items.render] using h
  | cons term nsp body rest => simp [Items.render, skipWs, isWs, mkT]
  | consD term nsp body ty db rest => simp [Items.render, skipWs, isWs, mkT]

theorem listSkip_items (d d' : Nat) (is : Items) (c : Cls) (ty : Nat) (tl : Stream) :
    listSkip (is.render d ++ mkT d' (.end_ c ty) :: tl) = is.render d ++ mkT d' (.end_ c ty) :: tl := by
  cases is with
  | nil => simp [Items.render, listSkip, isWs, mkT, Node.kind, Node.tok]
  | cons term nsp body rest => simp [Items.render, listSkip, isWs, mkT, Node.kind, Node.tok]
  | consD term nsp body ty db rest => simp [Items.render, listSkip, isWs, mkT, Node.kind, Node.tok]

theorem skipWs_body (d : Nat) (body : Blocks) (X : Stream) (h1 : body.startsNonWs = true) (h2 : body.wf = true)
    (hX : skipWs X = X) : skipWs (body.render d ++ X) = body.render d ++ X := by
  cases body with
  | nil => simpa [Blocks.render] using hX
  | cons b bs =>
    cases b with
    | leaf k =>
      cases k <;> simp [Blocks.startsNonWs] at h1 <;> simp [Blocks.wf, Block.wf, isLeafKind] at h2 <;>
        simp [Blocks.render, Block.render, skipWs, isWs, mkT]
    | grp _ => simp [Blocks.render, Block.render, skipWs, isWs, mkT]
    | env _ _ => simp [Blocks.render, Block.render, skipWs, isWs, mkT]
    | list _ _ _ => simp [Blocks.render, Block.render, skipWs, isWs, mkT]
    | table _ _ _ _ => simp [Blocks.render, Block.render, skipWs, isWs, mkT]


theorem stop_decl_item (g dd ty t : Nat) (ds : Nat) (sch : List Node) (rest : Stream) (hg : 1 ≤ g) :
    loop g .env ⟨dd, .begin_ .env ty⟩ (.mk ⟨ds, .item t⟩ sch :: rest) = some ([], none, .mk ⟨ds, .item t⟩ sch :: rest) := by
  obtain ⟨g', rfl⟩ : ∃ g', g = g' + 1 := ⟨g - 1, by omega⟩
  simp [loop, classify, Node.kind, Node.tok, Kind.isElement, isEndOf, isItemKind, isListKind, PAR_LEVEL]

/-- what follows an item's trailing declaration stops the declaration (leaving itself on the stream) -/
def StopsDeclAt (d : Nat) (tl : Stream) : Prop :=
  ∀ ty g, 2 ≤ g → loop g .env ⟨d + 1, .begin_ .env ty⟩ tl = some ([], none, tl)

theorem stopsDecl_end (d : Nat) (ty' : Nat) (tl : Stream) : StopsDeclAt (d + 1) (mkT d (.end_ .list ty') :: tl) := by
  intro ty g hg
  obtain ⟨g', rfl⟩ : ∃ g', g = g' + 2 := ⟨g - 2, by omega⟩
  simp [loop, classify, mkT, Node.kind, Node.tok, Node.depth, Kind.isElement, isEndOf, isItemKind, digestNode, PAR_LEVEL,
    show d < d + 1 + 1 by omega]

theorem stopsDecl_items (d : Nat) (is : Items) (tl : Stream) (h : StopsDeclAt d tl) : StopsDeclAt d (is.render d ++ tl) := by
  cases is with
  | nil => simpa [Items.render] using h
  | cons term nsp body rest =>
    intro ty g hg
    simpa [Items.render, mkT] using stop_decl_item g (d + 1) ty term d [] _ (by omega)
  | consD term nsp body ty' db rest =>
    intro ty g hg
    simpa [Items.render, mkT] using stop_decl_item g (d + 1) ty term d [] _ (by omega)

/-! ### the main induction -/

/-- a loop absorbs the rendering of `bs` and then goes on with whatever follows -/
def LsProp (bs : Blocks) : Prop :=
  ∀ (d : Nat) (m : Mode) (self : Tok) (k : Nat) (tl : Stream) (R : Res),
    bs.wf = true → self.depth ≤ d → modeOk m self →
    (∀ f, k ≤ f → loop f m self tl = R) →
    ∀ f, k + bs.cost ≤ f → loop f m self (bs.render d ++ tl) = prependRes (bs.nodes d) R

/-- digesting the head token of a nested structure absorbs exactly its rendering -/
def AProp (b : Block) : Prop :=
  ∀ (d f : Nat) (tl : Stream), b.wf = true → b.isLeaf = false → b.cost ≤ f →
    digestNode f (.mk (headTok d b) []) (tailR d b ++ tl) = some (b.node d, tl)

def IProp (is : Items) : Prop :=
  ∀ (d : Nat) (self : Tok) (k : Nat) (tl : Stream) (R : Res),
    is.wf = true → self.depth ≤ d → modeOk .env self → isListKind self.kind = true → skipWs tl = tl → StopsItem d tl →
    StopsDeclAt d tl →
    (∀ f, k ≤ f → loop f .env self tl = R) →
    ∀ f, k + is.cost ≤ f → loop f .env self (is.render d ++ tl) = prependRes (is.nodes d) R

def CProp (cs : Cells) : Prop :=
  ∀ (D : Nat) (c : Blocks) (X : Stream) (eX : Option Node),
    LsProp c → c.wf = true → cs.wf = true → StopsCell D X → StopsRow D X eX →
    ∀ f, c.cost + cs.cost + 6 ≤ f →
      loop f (.until_ .endrow) ⟨D, .row⟩ (mkT D .cell :: (c.render D ++ (cs.render D ++ X)))
        = some (.mk ⟨D, .cell⟩ (c.nodes D) :: cs.nodes D, eX, X)

def RProp (rs : Rows) : Prop :=
  ∀ (d ty : Nat) (c : Blocks) (cs : Cells) (tl : Stream),
    LsProp c → CProp cs → c.wf = true → cs.wf = true → rs.wf = true →
    ∀ f, c.cost + cs.cost + rs.cost + 9 ≤ f →
      loop f .env ⟨d + 2, .begin_ .array ty⟩
          (mkT (d + 2) .row :: mkT (d + 2) .cell ::
            (c.render (d + 2) ++ (cs.render (d + 2) ++ (rs.render (d + 2) ++ mkT d (.end_ .array ty) :: tl))))
        = some (.mk ⟨d + 2, .row⟩ (.mk ⟨d + 2, .cell⟩ (c.nodes (d + 2)) :: cs.nodes (d + 2)) :: rs.nodes (d + 2), none, tl)

theorem stopsCell_rows (d ty : Nat) (rs : Rows) (tl : Stream) :
    StopsCell (d + 2) (rs.render (d + 2) ++ mkT d (.end_ .array ty) :: tl) := by
  cases rs with
  | nil =>
    exact ⟨none, fun g hg => by
      simpa [Rows.render] using stop_until_end g d (d + 2) .cellEnd _ .array ty tl hg (by omega), by simp⟩
  | cons c cs rest =>
    refine ⟨some (mkT (d + 2) .endrow), fun g hg => ?_, ?_⟩
    · obtain ⟨g', rfl⟩ : ∃ g', g = g' + 1 := ⟨g - 1, by omega⟩
      simp [Rows.render, loop, classify, mkT, Node.kind, Node.tok, Kind.isElement, EndClass.isInstance]
    · intro n hn; cases hn; simp [mkT, Node.kind, Node.tok]

def rowEnd (d : Nat) : Rows → Option Node
  | .nil => none
  | .cons _ _ _ => some (mkT (d + 2) .endrow)

theorem stopsRow_rows (d ty : Nat) (rs : Rows) (tl : Stream) :
    StopsRow (d + 2) (rs.render (d + 2) ++ mkT d (.end_ .array ty) :: tl) (rowEnd d rs) := by
  intro g hg
  cases rs with
  | nil => simpa [Rows.render, rowEnd] using stop_until_end g d (d + 2) .endrow _ .array ty tl hg (by omega)
  | cons c cs rest =>
    obtain ⟨g', rfl⟩ : ∃ g', g = g' + 1 := ⟨g - 1, by omega⟩
    simp [Rows.render, rowEnd, loop, classify, mkT, Node.kind, Node.tok, Kind.isElement, EndClass.isInstance]

def afterCell (e : Option Node) (X : Stream) : Stream :=
  match e with
  | some n => if n.kind == .amp then X.tail else X
  | none => X

theorem cell_digest (D : Nat) (c : Blocks) (X : Stream) (e : Option Node) (hc : LsProp c) (hcw : c.wf = true)
    (hstop : ∀ g, 2 ≤ g → loop g (.until_ .cellEnd) ⟨D, .cell⟩ X = some ([], e, X)) (f : Nat) (hf : c.cost + 3 ≤ f) :
    digestNode f (mkT D .cell) (c.render D ++ X) =
      some (.mk ⟨D, .cell⟩ (c.nodes D), afterCell e X) := by
  obtain ⟨f', rfl⟩ : ∃ f', f = f' + 1 := ⟨f - 1, by omega⟩
  have h := hc D (.until_ .cellEnd) ⟨D, .cell⟩ 2 X _ hcw (Nat.le_refl _) (by intro h; cases h) hstop f' (by omega)
  simp only [mkT, digestNode]
  rw [h]
  cases e <;> simp [prependRes, afterCell]

theorem row_step (D f : Nat) (s s' : Stream) (cs : List Node)
    (hdig : digestNode f (.mk ⟨D, .cell⟩ []) s = some (.mk ⟨D, .cell⟩ cs, s')) :
    loop (f + 1) (.until_ .endrow) ⟨D, .row⟩ (.mk ⟨D, .cell⟩ [] :: s) =
      consRes (.mk ⟨D, .cell⟩ cs) (loop f (.until_ .endrow) ⟨D, .row⟩ s') := by
  simp [loop, classify, Node.kind, Node.tok, Node.depth, Kind.isElement, EndClass.isInstance, hdig]

theorem env_row_step (D ty f : Nat) (s s' : Stream) (cs : List Node)
    (hdig : digestNode f (.mk ⟨D, .row⟩ []) s = some (.mk ⟨D, .row⟩ cs, s')) :
    loop (f + 1) .env ⟨D, .begin_ .array ty⟩ (.mk ⟨D, .row⟩ [] :: s) =
      consRes (.mk ⟨D, .row⟩ cs) (loop f .env ⟨D, .begin_ .array ty⟩ s') := by
  simp [loop, classify, Node.kind, Node.tok, Node.depth, Kind.isElement, isEndOf, isItemKind, hdig, PAR_LEVEL]

theorem stop_amp (g D : Nat) (Y : Stream) (hg : 2 ≤ g) :
    loop g (.until_ .cellEnd) ⟨D, .cell⟩ (mkT D .amp :: Y) = some ([], some (mkT D .amp), mkT D .amp :: Y) := by
  obtain ⟨g', rfl⟩ : ∃ g', g = g' + 1 := ⟨g - 1, by omega⟩
  simp [loop, classify, mkT, Node.kind, Node.tok, Kind.isElement, EndClass.isInstance]

mutual
theorem blocks_ok : ∀ bs : Blocks, LsProp bs
  | .nil => by
    intro d m self k tl R _ _ _ h f hf
    simpa [Blocks.render, Blocks.nodes] using h f (by simp [Blocks.cost] at hf; omega)
  | .cons b bs => by
    intro d m self k tl R hwf hd hm h f hf
    have hA := block_ok b
    have hwf' : b.wf = true ∧ bs.wf = true := by simpa [Blocks.wf] using hwf
    have ih := blocks_ok bs d m self k tl R hwf'.2 hd hm h
    simp only [Blocks.cost] at hf
    simp only [Blocks.render, Blocks.nodes, List.append_assoc, prependRes_cons]
    by_cases hl : b.isLeaf = true
    · cases b with
      | leaf kk =>
        obtain ⟨f', rfl⟩ : ∃ f', f = f' + 2 := ⟨f - 2, by simp [Block.cost] at hf; omega⟩
        simp only [Block.render, List.cons_append, List.nil_append, Block.node]
        rw [loop_leaf kk (by simpa [Block.wf] using hwf'.1) m self d f' _ hd hm,
          ih (f' + 1) (by simp [Block.cost] at hf; omega)]
      | grp _ => simp [Block.isLeaf] at hl
      | env _ _ => simp [Block.isLeaf] at hl
      | list _ _ _ => simp [Block.isLeaf] at hl
      | table _ _ _ _ => simp [Block.isLeaf] at hl
    · have hl' : b.isLeaf = false := by simpa using hl
      obtain ⟨f', rfl⟩ : ∃ f', f = f' + 1 := ⟨f - 1, by omega⟩
      have hdig := hA d f' (bs.render d ++ tl) hwf'.1 hl' (by omega)
      rw [node_eq b d hl'] at hdig ⊢
      rw [render_eq, List.cons_append,
        loop_head (headTok d b) (head_kind b d hl') m self f' _ _ _
          (Nat.le_trans hd (head_depth b d)) hm hdig,
        ih f' (by omega)]
theorem block_ok : ∀ b : Block, AProp b
  | .leaf _ => by intro d f tl _ hl; simp [Block.isLeaf] at hl
  | .grp bs => by
    intro d f tl hwf _ hf
    obtain ⟨f', rfl⟩ : ∃ f', f = f' + 1 := ⟨f - 1, by simp [Block.cost] at hf; omega⟩
    have h := blocks_ok bs (d + 1) .grp ⟨d + 1, .grpB⟩ 1 (mkT d .grpE :: tl) (some ([], none, tl))
      (by simpa [Block.wf] using hwf) (Nat.le_refl _) (by intro h; cases h)
      (fun g hg => stop_grpE g d _ tl hg) f' (by simp [Block.cost] at hf; omega)
    simp only [tailR, headTok, digestNode, Block.node, List.append_assoc, List.cons_append, List.nil_append]
    rw [h]; simp [prependRes]
  | .env ty bs => by
    intro d f tl hwf _ hf
    obtain ⟨f', rfl⟩ : ∃ f', f = f' + 1 := ⟨f - 1, by simp [Block.cost] at hf; omega⟩
    have h := blocks_ok bs (d + 1) .env ⟨d + 1, .begin_ .env ty⟩ 1 (mkT d (.end_ .env ty) :: tl) (some ([], none, tl))
      (by simpa [Block.wf] using hwf) (Nat.le_refl _) (by intro _; rfl)
      (fun g hg => stop_envEnd g d _ .env ty tl hg) f' (by simp [Block.cost] at hf; omega)
    simp only [tailR, headTok, digestNode, Block.node, List.append_assoc, List.cons_append, List.nil_append]
    rw [show (Cls.env == Cls.list) = false from rfl]
    simp only [Bool.false_eq_true, if_false]
    rw [h]; simp [prependRes]
  | .list ty nsp is => by
    intro d f tl hwf _ hf
    obtain ⟨f', rfl⟩ : ∃ f', f = f' + 1 := ⟨f - 1, by simp [Block.cost] at hf; omega⟩
    have h := items_ok is (d + 1) ⟨d + 1, .begin_ .list ty⟩ 1 (mkT d (.end_ .list ty) :: tl) (some ([], none, tl))
      (by simpa [Block.wf] using hwf) (Nat.le_refl _) (by intro _; rfl) rfl
      (by simp [skipWs, isWs, mkT]) (stopsItem_end d .list ty tl) (stopsDecl_end d ty tl)
      (fun g hg => stop_envEnd g d _ .list ty tl hg) f' (by simp [Block.cost] at hf; omega)
    simp only [tailR, headTok, digestNode, Block.node, List.append_assoc, List.cons_append, List.nil_append]
    rw [show (Cls.list == Cls.list) = true from rfl]
    simp only [if_true]
    rw [listSkip_spaces, listSkip_items, h]; simp [prependRes]
  | .table ty c cs rs => by
    intro d f tl hwf _ hf
    obtain ⟨f', rfl⟩ : ∃ f', f = f' + 1 := ⟨f - 1, by simp [Block.cost] at hf; omega⟩
    have hw : (c.wf = true ∧ cs.wf = true) ∧ rs.wf = true := by simpa [Block.wf] using hwf
    have h := rows_ok rs d ty c cs tl (blocks_ok c) (cells_ok cs) hw.1.1 hw.1.2 hw.2 f'
      (by simp [Block.cost] at hf; omega)
    simp only [tailR, headTok, digestNode, Block.node, List.append_assoc, List.cons_append, List.nil_append]
    rw [show (Cls.array == Cls.list) = false from rfl]
    simp only [Bool.false_eq_true, if_false]
    rw [h]
theorem items_ok : ∀ is : Items, IProp is
  | .nil => by
    intro d self k tl R _ _ _ _ _ _ _ h f hf
    simpa [Items.render, Items.nodes] using h f (by simp [Items.cost] at hf; omega)
  | .cons term nsp body rest => by
    intro d self k tl R hwf hd hm hlist hws hst hsd h f hf
    have hw : (body.startsNonWs = true ∧ body.wf = true) ∧ rest.wf = true := by simpa [Items.wf] using hwf
    have ih := items_ok rest d self k tl R hw.2 hd hm hlist hws hst hsd h
    simp only [Items.cost] at hf
    obtain ⟨f', rfl⟩ : ∃ f', f = f' + 2 := ⟨f - 2, by omega⟩
    obtain ⟨e, he⟩ := stopsItem_items d rest tl hst
    have hbody := blocks_ok body d (.until_ .item) ⟨d, .item term⟩ 2 (rest.render d ++ tl) _ hw.1.2
      (Nat.le_refl _) (by intro h; cases h) (fun g hg => he g term hg) f' (by omega)
    have hskip : skipWs (blanks d nsp ++ (body.render d ++ (rest.render d ++ tl))) = body.render d ++ (rest.render d ++ tl) := by
      rw [skipWs_spaces, skipWs_body d body _ hw.1.1 hw.1.2 (skipWs_items d rest tl hws)]
    have hdig : digestNode (f' + 1) (mkT d (.item term)) (blanks d nsp ++ (body.render d ++ (rest.render d ++ tl)))
        = some (.mk ⟨d, .item term⟩ (body.nodes d), rest.render d ++ tl) := by
      simp only [mkT, digestNode]
      rw [hskip, hbody]; simp [prependRes]
    have hnd : ¬ d < self.depth := by omega
    have hl := hm rfl
    simp only [Items.render, Items.nodes, List.cons_append, List.append_assoc, prependRes_cons]
    rw [← ih (f' + 1) (by omega)]
    simp only [loop, classify, mkT, Node.kind, Node.tok, level_item, hl, Kind.isElement, isEndOf] at hdig ⊢
    simp [PAR_LEVEL, ENVIRONMENT_LEVEL, hdig, Node.depth, Node.tok, hnd, isItemKind, hlist]
  | .consD term nsp body ty db rest => by
    intro d self k tl R hwf hd hm hlist hws hst hsd h f hf
    have hw : ((body.startsNonWs = true ∧ body.wf = true) ∧ db.wf = true) ∧ rest.wf = true := by simpa [Items.wf] using hwf
    have ih := items_ok rest d self k tl R hw.2 hd hm hlist hws hst hsd h
    simp only [Items.cost] at hf
    obtain ⟨f', rfl⟩ : ∃ f', f = f' + 2 := ⟨f - 2, by omega⟩
    obtain ⟨e, he⟩ := stopsItem_items d rest tl hst
    have hsd' := stopsDecl_items d rest tl hsd
    -- the declaration absorbs `db` and stops at what follows the item
    have hdecl : ∀ g, db.cost + 3 ≤ g → digestNode g (.mk ⟨d + 1, .begin_ .env ty⟩ []) (db.render (d + 1) ++ (rest.render d ++ tl))
        = some (.mk ⟨d + 1, .begin_ .env ty⟩ (db.nodes (d + 1)), rest.render d ++ tl) := by
      intro g hg
      obtain ⟨g', rfl⟩ : ∃ g', g = g' + 1 := ⟨g - 1, by omega⟩
      have hb := blocks_ok db (d + 1) .env ⟨d + 1, .begin_ .env ty⟩ 2 (rest.render d ++ tl) (some ([], none, rest.render d ++ tl))
        hw.1.2 (Nat.le_refl _) (by intro _; rfl) (fun g hg => hsd' ty g hg) g' (by omega)
      simp only [digestNode]
      rw [show (Cls.env == Cls.list) = false from rfl]
      simp only [Bool.false_eq_true, if_false]
      rw [hb]; simp [prependRes]
    -- the item's `digestUntil` sees the declaration token after the body, then stops at what follows
    have hR : ∀ g, db.cost + 4 ≤ g → loop g (.until_ .item) ⟨d, .item term⟩
        (.mk ⟨d + 1, .begin_ .env ty⟩ [] :: (db.render (d + 1) ++ (rest.render d ++ tl)))
        = some ([.mk ⟨d + 1, .begin_ .env ty⟩ (db.nodes (d + 1))], e, rest.render d ++ tl) := by
      intro g hg
      obtain ⟨g', rfl⟩ : ∃ g', g = g' + 1 := ⟨g - 1, by omega⟩
      rw [loop_head ⟨d + 1, .begin_ .env ty⟩ rfl (.until_ .item) ⟨d, .item term⟩ g' _ _ _ (by simp) (by intro h; cases h)
        (hdecl g' (by omega)), he g' term (by omega)]
      rfl
    have hbody := blocks_ok body d (.until_ .item) ⟨d, .item term⟩ (db.cost + 4) _ _ hw.1.1.2
      (Nat.le_refl _) (by intro h; cases h) hR f' (by omega)
    have hskip : skipWs (blanks d nsp ++ (body.render d ++ (.mk ⟨d + 1, .begin_ .env ty⟩ [] :: (db.render (d + 1) ++ (rest.render d ++ tl)))))
        = body.render d ++ (.mk ⟨d + 1, .begin_ .env ty⟩ [] :: (db.render (d + 1) ++ (rest.render d ++ tl))) := by
      rw [skipWs_spaces, skipWs_body d body _ hw.1.1.1 hw.1.1.2 (by simp [skipWs, isWs])]
    have hdig : digestNode (f' + 1) (mkT d (.item term))
        (blanks d nsp ++ (body.render d ++ (.mk ⟨d + 1, .begin_ .env ty⟩ [] :: (db.render (d + 1) ++ (rest.render d ++ tl)))))
        = some (.mk ⟨d, .item term⟩ (body.nodes d ++ [.mk ⟨d + 1, .begin_ .env ty⟩ (db.nodes (d + 1))]), rest.render d ++ tl) := by
      simp only [mkT, digestNode]
      rw [hskip, hbody]; simp [prependRes]
    have hnd : ¬ d < self.depth := by omega
    have hl := hm rfl
    simp only [Items.render, Items.nodes, List.cons_append, List.append_assoc, prependRes_cons]
    rw [← ih (f' + 1) (by omega)]
    simp only [loop, classify, mkT, Node.kind, Node.tok, level_item, hl, Kind.isElement, isEndOf] at hdig ⊢
    simp [PAR_LEVEL, ENVIRONMENT_LEVEL, hdig, Node.depth, Node.tok, hnd, isItemKind, hlist]
theorem cells_ok : ∀ cs : Cells, CProp cs
  | .nil => by
    intro D c X eX hc hcw _ hsc hsr f hf
    obtain ⟨f', rfl⟩ : ∃ f', f = f' + 1 := ⟨f - 1, by omega⟩
    obtain ⟨e, he, hne⟩ := hsc
    have hdig := cell_digest D c X e hc hcw he f' (by omega)
    have hrest : afterCell e X = X := by
      cases e with
      | none => rfl
      | some n => simp [afterCell, hne n rfl]
    rw [hrest] at hdig
    simp only [Cells.render, Cells.nodes, List.nil_append]
    simp only [mkT] at hdig ⊢
    rw [row_step D f' _ _ _ hdig, hsr f' (by simp [Cells.cost] at hf; omega)]; rfl
  | .cons c2 rest => by
    intro D c X eX hc hcw hw hsc hsr f hf
    have hw' : c2.wf = true ∧ rest.wf = true := by simpa [Cells.wf] using hw
    simp only [Cells.cost] at hf
    obtain ⟨f', rfl⟩ : ∃ f', f = f' + 1 := ⟨f - 1, by omega⟩
    have ih := cells_ok rest D c2 X eX (blocks_ok c2) hw'.1 hw'.2 hsc hsr f' (by omega)
    have hdig := cell_digest D c (mkT D .amp :: mkT D .cell :: (c2.render D ++ (rest.render D ++ X)))
      (some (mkT D .amp)) hc hcw (fun g hg => stop_amp g D _ hg) f' (by omega)
    simp only [afterCell, mkT, Node.kind, Node.tok, beq_self_eq_true, if_true, List.tail_cons] at hdig
    simp only [Cells.render, Cells.nodes, List.cons_append, List.append_assoc]
    simp only [mkT] at ih ⊢
    rw [row_step D f' _ _ _ hdig, ih]; rfl
theorem rows_ok : ∀ rs : Rows, RProp rs
  | .nil => by
    intro d ty c cs tl hc hcs hcw hcsw _ f hf
    obtain ⟨f', rfl⟩ : ∃ f', f = f' + 2 := ⟨f - 2, by omega⟩
    have hrow := hcs (d + 2) c (mkT d (.end_ .array ty) :: tl) none hc hcw hcsw
      (by simpa [Rows.render] using stopsCell_rows d ty .nil tl)
      (by simpa [Rows.render, rowEnd] using stopsRow_rows d ty .nil tl) f' (by simp [Rows.cost] at hf; omega)
    have hdig : digestNode (f' + 1) (mkT (d + 2) .row)
        (mkT (d + 2) .cell :: (c.render (d + 2) ++ (cs.render (d + 2) ++ mkT d (.end_ .array ty) :: tl)))
        = some (.mk ⟨d + 2, .row⟩ (.mk ⟨d + 2, .cell⟩ (c.nodes (d + 2)) :: cs.nodes (d + 2)), mkT d (.end_ .array ty) :: tl) := by
      simp only [mkT, digestNode] at hrow ⊢
      rw [hrow]; simp
    simp only [Rows.render, Rows.nodes, List.nil_append]
    have hstop := stop_envEnd (f' + 1) d (d + 2) .array ty tl (by omega)
    simp only [mkT] at hdig hstop ⊢
    rw [env_row_step (d + 2) ty (f' + 1) _ _ _ hdig, hstop]; rfl
  | .cons c' cs' rest => by
    intro d ty c cs tl hc hcs hcw hcsw hw f hf
    have hw' : (c'.wf = true ∧ cs'.wf = true) ∧ rest.wf = true := by simpa [Rows.wf] using hw
    simp only [Rows.cost] at hf
    obtain ⟨f', rfl⟩ : ∃ f', f = f' + 2 := ⟨f - 2, by omega⟩
    have ih := rows_ok rest d ty c' cs' tl (blocks_ok c') (cells_ok cs') hw'.1.1 hw'.1.2 hw'.2 (f' + 1) (by omega)
    have hrow := hcs (d + 2) c ((Rows.cons c' cs' rest).render (d + 2) ++ mkT d (.end_ .array ty) :: tl)
      (rowEnd d (.cons c' cs' rest)) hc hcw hcsw
      (stopsCell_rows d ty _ tl) (stopsRow_rows d ty _ tl) f' (by omega)
    have hdig : digestNode (f' + 1) (mkT (d + 2) .row)
        (mkT (d + 2) .cell :: (c.render (d + 2) ++ (cs.render (d + 2) ++
          ((Rows.cons c' cs' rest).render (d + 2) ++ mkT d (.end_ .array ty) :: tl))))
        = some (.mk ⟨d + 2, .row⟩ (.mk ⟨d + 2, .cell⟩ (c.nodes (d + 2)) :: cs.nodes (d + 2)),
            mkT (d + 2) .row :: mkT (d + 2) .cell ::
              (c'.render (d + 2) ++ (cs'.render (d + 2) ++ (rest.render (d + 2) ++ mkT d (.end_ .array ty) :: tl)))) := by
      simp only [mkT, digestNode] at hrow ⊢
      rw [hrow]; simp [rowEnd, Rows.render, mkT]
    simp only [mkT] at hdig ih ⊢
    rw [env_row_step (d + 2) ty (f' + 1) _ _ _ hdig, ih]; simp [Rows.nodes, consRes]
end


/-! ### a declaration (an environment token without end) stops at the cell / row delimiter -/

theorem stop_decl (g D ty : Nat) (stop : Node) (rest : Stream)
    (hk : stop.kind = .amp ∨ stop.kind = .endrow) (hd : stop.depth ≤ D) (hg : 2 ≤ g) :
    loop g .env ⟨D + 1, .begin_ .env ty⟩ (stop :: rest) = some ([], none, stop :: rest) := by
  obtain ⟨g', rfl⟩ : ∃ g', g = g' + 2 := ⟨g - 2, by omega⟩
  obtain ⟨⟨sd, sk⟩, sch⟩ := stop
  simp only [Node.kind, Node.tok, Node.depth] at hk hd
  have hlt : sd < D + 1 := by omega
  rcases hk with rfl | rfl <;>
    simp [loop, classify, Node.kind, Node.tok, Node.depth, Kind.isElement, isEndOf, isItemKind, digestNode, PAR_LEVEL, hlt]

theorem decl_digest (D ty : Nat) (bs : Blocks) (stop : Node) (rest : Stream) (hwf : bs.wf = true)
    (hk : stop.kind = .amp ∨ stop.kind = .endrow) (hd : stop.depth ≤ D) (f : Nat) (hf : bs.cost + 3 ≤ f) :
    digestNode f (mkT (D + 1) (.begin_ .env ty)) (bs.render (D + 1) ++ stop :: rest)
      = some (.mk ⟨D + 1, .begin_ .env ty⟩ (bs.nodes (D + 1)), stop :: rest) := by
  obtain ⟨f', rfl⟩ : ∃ f', f = f' + 1 := ⟨f - 1, by omega⟩
  have h := blocks_ok bs (D + 1) .env ⟨D + 1, .begin_ .env ty⟩ 2 (stop :: rest) (some ([], none, stop :: rest))
    hwf (Nat.le_refl _) (by intro _; rfl) (fun g hg => stop_decl g D ty stop rest hk hd hg) f' (by omega)
  simp only [mkT, digestNode]
  rw [show (Cls.env == Cls.list) = false from rfl]
  simp only [Bool.false_eq_true, if_false]
  rw [h]; simp [prependRes]

/-! ### … and at the next `\item` (the `container` test of `Environment.digest`) -/

theorem decl_digest_item (dd ty t ds : Nat) (bs : Blocks) (rest : Stream) (hwf : bs.wf = true)
    (f : Nat) (hf : bs.cost + 2 ≤ f) :
    digestNode f (mkT dd (.begin_ .env ty)) (bs.render dd ++ mkT ds (.item t) :: rest)
      = some (.mk ⟨dd, .begin_ .env ty⟩ (bs.nodes dd), mkT ds (.item t) :: rest) := by
  obtain ⟨f', rfl⟩ : ∃ f', f = f' + 1 := ⟨f - 1, by omega⟩
  have h := blocks_ok bs dd .env ⟨dd, .begin_ .env ty⟩ 1 (mkT ds (.item t) :: rest) (some ([], none, mkT ds (.item t) :: rest))
    hwf (Nat.le_refl _) (by intro _; rfl) (fun g hg => stop_decl_item g dd ty t ds [] rest hg) f' (by omega)
  simp only [mkT, digestNode]
  rw [show (Cls.env == Cls.list) = false from rfl]
  simp only [Bool.false_eq_true, if_false]
  simp only [mkT] at h
  rw [h]; simp [prependRes]

/-- an item whose body ends in a declaration: the item holds its body and the declaration node, the
    declaration holds what follows it, and the next `\item` is left on the stream -/
theorem item_decl_digest (d t t' ty : Nat) (body bs : Blocks) (rest : Stream)
    (hb1 : body.startsNonWs = true) (hb2 : body.wf = true) (hwf : bs.wf = true) (f : Nat)
    (hf : body.cost + bs.cost + 6 ≤ f) :
    digestNode f (mkT d (.item t))
        (body.render d ++ mkT (d + 1) (.begin_ .env ty) :: (bs.render (d + 1) ++ mkT d (.item t') :: rest))
      = some (.mk ⟨d, .item t⟩ (body.nodes d ++ [.mk ⟨d + 1, .begin_ .env ty⟩ (bs.nodes (d + 1))]), mkT d (.item t') :: rest) := by
  obtain ⟨f', rfl⟩ : ∃ f', f = f' + 1 := ⟨f - 1, by omega⟩
  have hR : ∀ g, bs.cost + 4 ≤ g → loop g (.until_ .item) ⟨d, .item t⟩
      (mkT (d + 1) (.begin_ .env ty) :: (bs.render (d + 1) ++ mkT d (.item t') :: rest))
      = some ([.mk ⟨d + 1, .begin_ .env ty⟩ (bs.nodes (d + 1))], some (mkT d (.item t')), mkT d (.item t') :: rest) := by
    intro g hg
    obtain ⟨g', rfl⟩ : ∃ g', g = g' + 1 := ⟨g - 1, by omega⟩
    have hdig := decl_digest_item (d + 1) ty t' d bs rest hwf g' (by omega)
    simp only [mkT] at hdig ⊢
    rw [loop_head ⟨d + 1, .begin_ .env ty⟩ rfl (.until_ .item) ⟨d, .item t⟩ g' _ _ _ (by simp) (by intro h; cases h) hdig]
    obtain ⟨g'', rfl⟩ : ∃ g'', g' = g'' + 1 := ⟨g' - 1, by omega⟩
    simp [loop, classify, Node.kind, Node.tok, Kind.isElement, EndClass.isInstance, consRes]
  have hbody := blocks_ok body d (.until_ .item) ⟨d, .item t⟩ (bs.cost + 4) _ _ hb2 (Nat.le_refl _) (by intro h; cases h) hR f' (by omega)
  have hskip : skipWs (body.render d ++ mkT (d + 1) (.begin_ .env ty) :: (bs.render (d + 1) ++ mkT d (.item t') :: rest))
      = body.render d ++ mkT (d + 1) (.begin_ .env ty) :: (bs.render (d + 1) ++ mkT d (.item t') :: rest) :=
    skipWs_body d body _ hb1 hb2 (by simp [skipWs, isWs, mkT])
  simp only [mkT, digestNode] at hskip hbody ⊢
  rw [hskip, hbody]; simp [prependRes]

/-! ### shape of the prescribed nodes -/

theorem items_shape : ∀ (is : Items) (d : Nat),
    (is.nodes d).length = is.length ∧
    (is.nodes d).map (fun n => n.kind) = is.terms.map Kind.item ∧
    (is.nodes d).map Node.ch = is.children d
  | .nil, d => by simp [Items.nodes, Items.length, Items.terms, Items.children]
  | .cons t n b r, d => by
    have ih := items_shape r d
    simp only [Items.nodes, Items.length, Items.terms, Items.children, List.length_cons, List.map_cons, ih]
    simp [Node.kind, Node.tok, Node.ch]
  | .consD t n b ty db r, d => by
    have ih := items_shape r d
    simp only [Items.nodes, Items.length, Items.terms, Items.children, List.length_cons, List.map_cons, ih]
    simp [Node.kind, Node.tok, Node.ch]

theorem cells_shape : ∀ (cs : Cells) (d : Nat), (cs.nodes d).map Node.ch = cs.toList.map (·.nodes d)
  | .nil, d => by simp [Cells.nodes, Cells.toList]
  | .cons c r, d => by simp [Cells.nodes, Cells.toList, cells_shape r d, Node.ch]

theorem rows_shape : ∀ (rs : Rows) (d : Nat),
    (rs.nodes d).map (fun r => r.ch.map Node.ch) = rs.toList.map (fun r => r.map (·.nodes d))
  | .nil, d => by simp [Rows.nodes, Rows.toList]
  | .cons c cs r, d => by
    simp only [Rows.nodes, Rows.toList, List.map_cons, rows_shape r d]
    simp [cells_shape cs d, Node.ch]

end PlasVerif.Proofs.Lists
