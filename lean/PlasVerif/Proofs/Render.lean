import PlasVerif.Spec.Split
/-!
Helper lemmas for C13: relation between the tree after `cacheFilenames` (`ATree`) and the document (`Tree`),
what `assign` guarantees, and what `child` / `footOut` produce on consistently annotated trees.
-/
namespace PlasVerif.Proofs.Render
open PlasVerif.Model.Render PlasVerif.Spec.Split

/-! ### forgetting the cached names -/
mutual
def erase : ATree → Tree
  | .text m => .text m
  | .elem a _ ks => .elem a (eraseL ks)
def eraseL : List ATree → List Tree
  | [] => []
  | t :: ts => erase t :: eraseL ts
end

mutual
/-- every element has a cached name exactly when its level is at or above `lvl` -/
def ann (lvl : Int) : ATree → Bool
  | .text _ => true
  | .elem a f ks => (f.isSome == decide (a.level ≤ lvl)) && annL lvl ks
def annL (lvl : Int) : List ATree → Bool
  | [] => true
  | t :: ts => ann lvl t && annL lvl ts
end

mutual
/-- cached names in document (pre-)order -/
def fileNames : ATree → List String
  | .text _ => []
  | .elem _ f ks => f.toList ++ fileNamesL ks
def fileNamesL : List ATree → List String
  | [] => []
  | t :: ts => fileNames t ++ fileNamesL ts
end

def unitReqs (lvl : Int) (t : Tree) : List Req := (units lvl t).map fun u => req u.attrs
def unitReqsL (lvl : Int) (ts : List Tree) : List Req := (unitsL lvl ts).map fun u => req u.attrs

/-! ### equations -/
@[simp] theorem erase_text (m) : erase (.text m) = .text m := by rw [erase]
@[simp] theorem erase_elem (a f ks) : erase (.elem a f ks) = .elem a (eraseL ks) := by rw [erase]
@[simp] theorem eraseL_nil : eraseL [] = [] := by rw [eraseL]
@[simp] theorem eraseL_cons (t ts) : eraseL (t :: ts) = erase t :: eraseL ts := by rw [eraseL]
@[simp] theorem ann_text (l m) : ann l (.text m) = true := by rw [ann]
@[simp] theorem ann_elem (l a f ks) : ann l (.elem a f ks) = ((f.isSome == decide (a.level ≤ l)) && annL l ks) := by rw [ann]
@[simp] theorem annL_nil (l) : annL l [] = true := by rw [annL]
@[simp] theorem annL_cons (l t ts) : annL l (t :: ts) = (ann l t && annL l ts) := by rw [annL]
@[simp] theorem fileNames_text (m) : fileNames (.text m) = [] := by rw [fileNames]
@[simp] theorem fileNames_elem (a f ks) : fileNames (.elem a f ks) = f.toList ++ fileNamesL ks := by rw [fileNames]
@[simp] theorem fileNamesL_nil : fileNamesL [] = [] := by rw [fileNamesL]
@[simp] theorem fileNamesL_cons (t ts) : fileNamesL (t :: ts) = fileNames t ++ fileNamesL ts := by rw [fileNamesL]

@[simp] theorem texts_text (m) : texts (.text m) = [m] := by rw [texts]
@[simp] theorem texts_elem (a ks) : texts (.elem a ks) = textsL ks := by rw [texts]
@[simp] theorem textsL_nil : textsL [] = [] := by rw [textsL]
@[simp] theorem textsL_cons (t ts) : textsL (t :: ts) = texts t ++ textsL ts := by rw [textsL]
@[simp] theorem body_text (l m) : body l (.text m) = [m] := by rw [body]
@[simp] theorem body_elem (l a ks) : body l (.elem a ks) = if isUnit l a || a.foot then [] else bodyL l ks := by rw [body]
@[simp] theorem bodyL_nil (l) : bodyL l [] = [] := by rw [bodyL]
@[simp] theorem bodyL_cons (l t ts) : bodyL l (t :: ts) = body l t ++ bodyL l ts := by rw [bodyL]
@[simp] theorem foot_text (l m) : foot l (.text m) = [] := by rw [foot]
@[simp] theorem foot_elem (l a ks) :
    foot l (.elem a ks) = if isUnit l a then [] else if a.foot then textsL ks else footL l ks := by rw [foot]
@[simp] theorem footL_nil (l) : footL l [] = [] := by rw [footL]
@[simp] theorem footL_cons (l t ts) : footL l (t :: ts) = foot l t ++ footL l ts := by rw [footL]
@[simp] theorem units_text (l m) : units l (.text m) = [] := by rw [units]
@[simp] theorem units_elem (l a ks) :
    units l (.elem a ks) = if isUnit l a then ⟨a, bodyL l ks, footL l ks⟩ :: unitsL l ks else unitsL l ks := by rw [units]
@[simp] theorem unitsL_nil (l) : unitsL l [] = [] := by rw [unitsL]
@[simp] theorem unitsL_cons (l t ts) : unitsL l (t :: ts) = units l t ++ unitsL l ts := by rw [unitsL]
@[simp] theorem owners_text (l c m) : owners l c (.text m) = [(m, c)] := by rw [owners]
@[simp] theorem owners_elem (l c a ks) :
    owners l c (.elem a ks) = ownersL l (if isUnit l a then a.tag else c) ks := by rw [owners]
@[simp] theorem ownersL_nil (l c) : ownersL l c [] = [] := by rw [ownersL]
@[simp] theorem ownersL_cons (l c t ts) : ownersL l c (t :: ts) = owners l c t ++ ownersL l c ts := by rw [ownersL]
@[simp] theorem wf_text (l i m) : wf l i (.text m) = true := by rw [wf]
@[simp] theorem wf_elem (l i a ks) : wf l i (.elem a ks) =
    ((if i then !isUnit l a && !a.foot else !(isUnit l a && a.foot)) && wfL l (i || a.foot) ks) := by rw [wf]
@[simp] theorem wfL_nil (l i) : wfL l i [] = true := by rw [wfL]
@[simp] theorem wfL_cons (l i t ts) : wfL l i (t :: ts) = (wf l i t && wfL l i ts) := by rw [wfL]

@[simp] theorem strKids_nil : strKids [] = ([], []) := by rw [strKids]
@[simp] theorem strKids_cons (c cs) :
    strKids (c :: cs) = ((child c).1 ++ (strKids cs).1, (child c).2 ++ (strKids cs).2) := by rw [strKids]
@[simp] theorem child_text (m) : child (.text m) = ([.txt m], []) := by rw [child]
theorem child_none (a ks) : child (.elem a none ks) =
    (if a.foot then ([Tok.mark a.tag], []) else (.op a.tag :: ((strKids ks).1 ++ [.cl a.tag]), (strKids ks).2)) := by
  rw [child]
theorem child_some (a n ks) : child (.elem a (some n) ks) =
    ([], (if a.foot then ([Tok.mark a.tag], ([] : List File)) else (.op a.tag :: ((strKids ks).1 ++ [.cl a.tag]), (strKids ks).2)).2
        ++ (if a.level < ENDSECTIONS_LEVEL then footOutL ks else ([], [])).2
        ++ [(n, .lop a.tag :: ((if a.foot then ([Tok.mark a.tag], ([] : List File)) else (.op a.tag :: ((strKids ks).1 ++ [.cl a.tag]), (strKids ks).2)).1
              ++ (if a.level < ENDSECTIONS_LEVEL then footOutL ks else ([], [])).1 ++ [.lcl a.tag]))]) := by
  rw [child]
@[simp] theorem footOut_text (m) : footOut (.text m) = ([], []) := by rw [footOut]
theorem footOut_elem (a f ks) : footOut (.elem a f ks) =
    (if a.foot then
      ((if claims a f then (([], []) : List Tok × List File) else footOutL ks).1 ++ (.fop a.tag :: ((strKids ks).1 ++ [.fcl a.tag])),
       (if claims a f then (([], []) : List Tok × List File) else footOutL ks).2 ++ (strKids ks).2)
     else (if claims a f then ([], []) else footOutL ks)) := by
  rw [footOut]
@[simp] theorem footOutL_nil : footOutL [] = ([], []) := by rw [footOutL]
@[simp] theorem footOutL_cons (c cs) :
    footOutL (c :: cs) = ((footOut c).1 ++ (footOutL cs).1, (footOut c).2 ++ (footOutL cs).2) := by rw [footOutL]

/-! ### text markers of token lists -/
@[simp] theorem textsOf_nil : textsOf [] = [] := rfl
@[simp] theorem textsOf_txt (m r) : textsOf (.txt m :: r) = m :: textsOf r := rfl
@[simp] theorem textsOf_op (t r) : textsOf (.op t :: r) = textsOf r := rfl
@[simp] theorem textsOf_cl (t r) : textsOf (.cl t :: r) = textsOf r := rfl
@[simp] theorem textsOf_mark (t r) : textsOf (.mark t :: r) = textsOf r := rfl
@[simp] theorem textsOf_lop (t r) : textsOf (.lop t :: r) = textsOf r := rfl
@[simp] theorem textsOf_lcl (t r) : textsOf (.lcl t :: r) = textsOf r := rfl
@[simp] theorem textsOf_fop (t r) : textsOf (.fop t :: r) = textsOf r := rfl
@[simp] theorem textsOf_fcl (t r) : textsOf (.fcl t :: r) = textsOf r := rfl
@[simp] theorem textsOf_append (a b : List Tok) : textsOf (a ++ b) = textsOf a ++ textsOf b := by
  induction a with
  | nil => simp
  | cons x xs ih => cases x <;> simp [ih]

/-! ### the generator run -/
theorem run_nil {σ} (g : Gen σ) (s : σ) : run g s [] = .ok ([], s) := rfl

theorem run_append {σ} (g : Gen σ) (r1 r2 : List Req) (s s1 s2 : σ) (n1 n2 : List String)
    (h1 : run g s r1 = .ok (n1, s1)) (h2 : run g s1 r2 = .ok (n2, s2)) :
    run g s (r1 ++ r2) = .ok (n1 ++ n2, s2) := by
  induction r1 generalizing s n1 with
  | nil => simp [run] at h1; obtain ⟨rfl, rfl⟩ := h1; simpa using h2
  | cons r rs ih =>
    simp only [run, List.cons_append] at h1 ⊢
    cases hg : g.next s r with
    | error e => simp [hg] at h1
    | ok p =>
      obtain ⟨n, s'⟩ := p
      simp only [hg] at h1 ⊢
      cases hr : run g s' rs with
      | error e => simp [hr] at h1
      | ok q =>
        obtain ⟨ns, s''⟩ := q
        simp only [hr, Except.ok.injEq, Prod.mk.injEq] at h1
        obtain ⟨rfl, rfl⟩ := h1
        rw [ih s' ns hr]
        simp

theorem run_length {σ} (g : Gen σ) (rs : List Req) (s s' : σ) (ns : List String)
    (h : run g s rs = .ok (ns, s')) : ns.length = rs.length := by
  induction rs generalizing s ns with
  | nil => simp [run] at h; simp [h.1.symm]
  | cons r rs ih =>
    simp only [run] at h
    cases hg : g.next s r with
    | error e => simp [hg] at h
    | ok p =>
      obtain ⟨n, s1⟩ := p
      simp only [hg] at h
      cases hr : run g s1 rs with
      | error e => simp [hr] at h
      | ok q =>
        obtain ⟨ns', s2⟩ := q
        simp only [hr, Except.ok.injEq, Prod.mk.injEq] at h
        obtain ⟨rfl, rfl⟩ := h
        simp [ih s1 ns' hr]

/-! ### what `cacheFilenames` guarantees -/
mutual
theorem assign_spec {σ} (g : Gen σ) (lvl : Int) (t : Tree) (s s' : σ) (t' : ATree)
    (h : assign g lvl s t = .ok (t', s')) :
    erase t' = t ∧ ann lvl t' = true ∧ run g s (unitReqs lvl t) = .ok (fileNames t', s') := by
  cases t with
  | text m =>
    rw [assign] at h
    simp only [Except.ok.injEq, Prod.mk.injEq] at h
    obtain ⟨rfl, rfl⟩ := h
    simp [unitReqs, run]
  | elem a ks =>
    rw [assign] at h
    by_cases hl : a.level > lvl
    · simp only [filenameOf, hl, if_true] at h
      cases hk : assignL g lvl s ks with
      | error e => simp [hk] at h
      | ok p =>
        obtain ⟨ks', s2⟩ := p
        simp only [hk, Except.ok.injEq, Prod.mk.injEq] at h
        obtain ⟨rfl, rfl⟩ := h
        obtain ⟨he, ha, hr⟩ := assignL_spec g lvl ks s s2 ks' hk
        have hu : isUnit lvl a = false := by simp [isUnit]; omega
        refine ⟨by simp [he], by simp [ha]; omega, ?_⟩
        simpa [unitReqs, unitReqsL, hu] using hr
    · simp only [filenameOf, hl, if_false] at h
      cases hg : g.next s (req a) with
      | error e => simp [hg] at h
      | ok q =>
        obtain ⟨n, s1⟩ := q
        simp only [hg] at h
        cases hk : assignL g lvl s1 ks with
        | error e => simp [hk] at h
        | ok p =>
          obtain ⟨ks', s2⟩ := p
          simp only [hk, Except.ok.injEq, Prod.mk.injEq] at h
          obtain ⟨rfl, rfl⟩ := h
          obtain ⟨he, ha, hr⟩ := assignL_spec g lvl ks s1 s2 ks' hk
          have hu : isUnit lvl a = true := by simp [isUnit]; omega
          refine ⟨by simp [he], by simp [ha]; omega, ?_⟩
          simp only [unitReqs, units_elem, hu, if_true, List.map_cons, run, hg, fileNames_elem, Option.toList_some,
            List.singleton_append]
          simp only [unitReqsL] at hr
          rw [hr]
theorem assignL_spec {σ} (g : Gen σ) (lvl : Int) (ts : List Tree) (s s' : σ) (ts' : List ATree)
    (h : assignL g lvl s ts = .ok (ts', s')) :
    eraseL ts' = ts ∧ annL lvl ts' = true ∧ run g s (unitReqsL lvl ts) = .ok (fileNamesL ts', s') := by
  cases ts with
  | nil =>
    rw [assignL] at h
    simp only [Except.ok.injEq, Prod.mk.injEq] at h
    obtain ⟨rfl, rfl⟩ := h
    simp [unitReqsL, run]
  | cons t ts =>
    rw [assignL] at h
    cases ht : assign g lvl s t with
    | error e => simp [ht] at h
    | ok p =>
      obtain ⟨t', s1⟩ := p
      simp only [ht] at h
      cases hk : assignL g lvl s1 ts with
      | error e => simp [hk] at h
      | ok q =>
        obtain ⟨ts2, s2⟩ := q
        simp only [hk, Except.ok.injEq, Prod.mk.injEq] at h
        obtain ⟨rfl, rfl⟩ := h
        obtain ⟨he, ha, hr⟩ := assign_spec g lvl t s s1 t' ht
        obtain ⟨he2, ha2, hr2⟩ := assignL_spec g lvl ts s1 s2 ts2 hk
        refine ⟨by simp [he, he2], by simp [ha, ha2], ?_⟩
        simp only [unitReqsL, unitsL_cons, List.map_append, fileNamesL_cons]
        exact run_append g _ _ s s1 s2 _ _ hr hr2
end

/-! ### inside a footnote (no unit, no footnote below): everything is inline -/
mutual
theorem infoot (lvl : Int) (t : ATree) (ha : ann lvl t = true) (hw : wf lvl true (erase t) = true) :
    textsOf (child t).1 = texts (erase t) ∧ (child t).2 = [] ∧ footOut t = ([], []) ∧
    fileNames t = [] ∧ units lvl (erase t) = [] := by
  cases t with
  | text m => simp
  | elem a f ks =>
    simp only [erase_elem, wf_elem, if_true, Bool.true_or, Bool.and_eq_true, Bool.not_eq_true'] at hw
    simp only [ann_elem, Bool.and_eq_true, beq_iff_eq] at ha
    obtain ⟨⟨hu, hf⟩, hwk⟩ := hw
    obtain ⟨hfile, hak⟩ := ha
    have hu' : decide (a.level ≤ lvl) = false := by simpa [isUnit] using hu
    rw [hu'] at hfile
    have hnone : f = none := by cases f <;> simp_all
    subst hnone
    obtain ⟨i1, i2, i3, i4, i5⟩ := infootL lvl ks hak hwk
    simp [child_none, footOut_elem, claims, hf, hu, i1, i2, i3, i4, i5]
theorem infootL (lvl : Int) (ts : List ATree) (ha : annL lvl ts = true) (hw : wfL lvl true (eraseL ts) = true) :
    textsOf (strKids ts).1 = textsL (eraseL ts) ∧ (strKids ts).2 = [] ∧ footOutL ts = ([], []) ∧
    fileNamesL ts = [] ∧ unitsL lvl (eraseL ts) = [] := by
  cases ts with
  | nil => simp
  | cons t ts =>
    simp only [eraseL_cons, wfL_cons, Bool.and_eq_true] at hw
    simp only [annL_cons, Bool.and_eq_true] at ha
    obtain ⟨i1, i2, i3, i4, i5⟩ := infoot lvl t ha.1 hw.1
    obtain ⟨j1, j2, j3, j4, j5⟩ := infootL lvl ts ha.2 hw.2
    simp [i1, i2, i3, i4, i5, j1, j2, j3, j4, j5]
end

/-! ### the main invariant of rendering on a consistently annotated, well-formed tree -/
theorem lt_ends_of_le {a lvl : Int} (hl : lvl < ENDSECTIONS_LEVEL) (h : a ≤ lvl) : a < ENDSECTIONS_LEVEL := by
  simp only [ENDSECTIONS_LEVEL] at *; omega

mutual
theorem main (lvl : Int) (hl : lvl < ENDSECTIONS_LEVEL) (t : ATree) (ha : ann lvl t = true)
    (hw : wf lvl false (erase t) = true) :
    textsOf (child t).1 = body lvl (erase t) ∧
    textsOf (footOut t).1 = foot lvl (erase t) ∧ (footOut t).2 = [] ∧
    (fileNames t).length = (units lvl (erase t)).length ∧
    List.Perm ((child t).2.map summary) (List.zipWith expected (fileNames t) (units lvl (erase t))) := by
  cases t with
  | text m => simp
  | elem a f ks =>
    simp only [erase_elem, wf_elem, Bool.false_or, Bool.and_eq_true] at hw
    simp only [ann_elem, Bool.and_eq_true, beq_iff_eq] at ha
    obtain ⟨hfile, hak⟩ := ha
    obtain ⟨hnf, hwk⟩ := hw
    by_cases hu : a.level ≤ lvl
    · -- a unit: its own file
      have hU : isUnit lvl a = true := by simp [isUnit, hu]
      have hfoot : a.foot = false := by simpa [hU] using hnf
      have hsome : f.isSome = true := by simpa [hu] using hfile
      obtain ⟨n, rfl⟩ := Option.isSome_iff_exists.mp hsome
      rw [hfoot] at hwk
      obtain ⟨i1, i2, i3, i4, i5⟩ := mainL lvl hl ks hak hwk
      have hlt : a.level < ENDSECTIONS_LEVEL := lt_ends_of_le hl hu
      refine ⟨by simp [child_some, hU], by simp [footOut_elem, claims, hlt, hfoot, hU], by simp [footOut_elem, claims, hlt, hfoot],
        by simp [hU, i4], ?_⟩
      simp only [child_some, hfoot, hlt, if_true, i3, List.append_nil, List.map_append, List.map_cons, List.map_nil,
        fileNames_elem, Option.toList_some, List.singleton_append, erase_elem, units_elem, hU, List.zipWith_cons_cons]
      have hs : summary (n, Tok.lop a.tag :: (Tok.op a.tag :: ((strKids ks).1 ++ [Tok.cl a.tag]) ++ (footOutL ks).1 ++ [Tok.lcl a.tag]))
          = expected n ⟨a, bodyL lvl (eraseL ks), footL lvl (eraseL ks)⟩ := by
        simp [summary, expected, i1, i2]
      simp only [Bool.false_eq_true, if_false]
      rw [hs]
      exact (List.perm_append_comm).trans (List.Perm.cons _ i5)
    · have hU : isUnit lvl a = false := by simp [isUnit, hu]
      have hnone : f = none := by
        cases f with
        | none => rfl
        | some n => simp [hu] at hfile
      subst hnone
      by_cases hfoot : a.foot = true
      · -- a footnote: mark inline, text bubbles up
        rw [hfoot] at hwk
        obtain ⟨i1, i2, i3, i4, i5⟩ := infootL lvl ks hak hwk
        simp [child_none, footOut_elem, claims, hfoot, hU, i1, i2, i3, i4, i5]
      · have hfoot' : a.foot = false := by simpa using hfoot
        rw [hfoot'] at hwk
        obtain ⟨i1, i2, i3, i4, i5⟩ := mainL lvl hl ks hak hwk
        simp [child_none, footOut_elem, claims, hfoot', hU, i1, i2, i3, i4, i5]
theorem mainL (lvl : Int) (hl : lvl < ENDSECTIONS_LEVEL) (ts : List ATree) (ha : annL lvl ts = true)
    (hw : wfL lvl false (eraseL ts) = true) :
    textsOf (strKids ts).1 = bodyL lvl (eraseL ts) ∧
    textsOf (footOutL ts).1 = footL lvl (eraseL ts) ∧ (footOutL ts).2 = [] ∧
    (fileNamesL ts).length = (unitsL lvl (eraseL ts)).length ∧
    List.Perm ((strKids ts).2.map summary) (List.zipWith expected (fileNamesL ts) (unitsL lvl (eraseL ts))) := by
  cases ts with
  | nil => simp
  | cons t ts =>
    simp only [eraseL_cons, wfL_cons, Bool.and_eq_true] at hw
    simp only [annL_cons, Bool.and_eq_true] at ha
    obtain ⟨i1, i2, i3, i4, i5⟩ := main lvl hl t ha.1 hw.1
    obtain ⟨j1, j2, j3, j4, j5⟩ := mainL lvl hl ts ha.2 hw.2
    refine ⟨by simp [i1, j1], by simp [i2, j2], by simp [i3, j3], by simp [i4, j4], ?_⟩
    simp only [strKids_cons, List.map_append, fileNamesL_cons, eraseL_cons, unitsL_cons]
    rw [List.zipWith_append i4]
    exact List.Perm.append i5 j5
end

/-! ### facts about the prescription itself (no model involved) -/

/-- all text the property assigns to a list of units -/
def utexts (us : List PlasVerif.Spec.Split.Unit) : List Nat := us.flatMap fun u => u.body ++ u.foot

@[simp] theorem utexts_nil : utexts [] = [] := rfl
@[simp] theorem utexts_cons (u us) : utexts (u :: us) = (u.body ++ u.foot) ++ utexts us := rfl
@[simp] theorem utexts_append (a b) : utexts (a ++ b) = utexts a ++ utexts b := by simp [utexts]

mutual
theorem spec_infoot (lvl : Int) (t : Tree) (hw : wf lvl true t = true) :
    units lvl t = [] ∧ body lvl t = texts t ∧ foot lvl t = [] ∧ ∀ cur m u, (m, u) ∈ owners lvl cur t → u = cur ∧ m ∈ texts t := by
  cases t with
  | text m => simp
  | elem a ks =>
    simp only [wf_elem, if_true, Bool.true_or, Bool.and_eq_true, Bool.not_eq_true'] at hw
    obtain ⟨⟨hu, hf⟩, hwk⟩ := hw
    obtain ⟨i1, i2, i3, i4⟩ := spec_infootL lvl ks hwk
    refine ⟨by simp [hu, i1], by simp [hu, hf, i2], by simp [hu, hf, i3], ?_⟩
    intro cur m u h
    simp only [owners_elem, hu, Bool.false_eq_true, if_false] at h
    simpa using i4 cur m u h
theorem spec_infootL (lvl : Int) (ts : List Tree) (hw : wfL lvl true ts = true) :
    unitsL lvl ts = [] ∧ bodyL lvl ts = textsL ts ∧ footL lvl ts = [] ∧
    ∀ cur m u, (m, u) ∈ ownersL lvl cur ts → u = cur ∧ m ∈ textsL ts := by
  cases ts with
  | nil => simp
  | cons t ts =>
    simp only [wfL_cons, Bool.and_eq_true] at hw
    obtain ⟨i1, i2, i3, i4⟩ := spec_infoot lvl t hw.1
    obtain ⟨j1, j2, j3, j4⟩ := spec_infootL lvl ts hw.2
    refine ⟨by simp [i1, j1], by simp [i2, j2], by simp [i3, j3], ?_⟩
    intro cur m u h
    simp only [ownersL_cons, List.mem_append] at h
    rcases h with h | h
    · have := i4 cur m u h; simp [this.1, this.2]
    · have := j4 cur m u h; simp [this.1, this.2]
end

mutual
/-- nothing is lost and nothing repeated by the prescription: the texts of all units of a subtree plus what the
    subtree contributes to the enclosing unit are the texts of the subtree -/
theorem conserve (lvl : Int) (t : Tree) (hw : wf lvl false t = true) :
    List.Perm (utexts (units lvl t) ++ (body lvl t ++ foot lvl t)) (texts t) := by
  cases t with
  | text m => simp
  | elem a ks =>
    simp only [wf_elem, Bool.false_or, Bool.and_eq_true] at hw
    obtain ⟨hnf, hwk⟩ := hw
    by_cases hU : isUnit lvl a = true
    · have hfoot : a.foot = false := by simpa [hU] using hnf
      rw [hfoot] at hwk
      have ih := conserveL lvl ks hwk
      simp only [units_elem, hU, if_true, utexts_cons, body_elem, Bool.true_or, foot_elem, List.append_nil, texts_elem]
      exact (List.perm_append_comm).trans ih
    · have hU' : isUnit lvl a = false := by simpa using hU
      by_cases hfoot : a.foot = true
      · rw [hfoot] at hwk
        obtain ⟨i1, _, _, _⟩ := spec_infootL lvl ks hwk
        simp [hU', hfoot, i1]
      · have hfoot' : a.foot = false := by simpa using hfoot
        rw [hfoot'] at hwk
        have ih := conserveL lvl ks hwk
        simpa [hU', hfoot'] using ih
theorem conserveL (lvl : Int) (ts : List Tree) (hw : wfL lvl false ts = true) :
    List.Perm (utexts (unitsL lvl ts) ++ (bodyL lvl ts ++ footL lvl ts)) (textsL ts) := by
  cases ts with
  | nil => simp
  | cons t ts =>
    simp only [wfL_cons, Bool.and_eq_true] at hw
    have i := conserve lvl t hw.1
    have j := conserveL lvl ts hw.2
    simp only [unitsL_cons, utexts_append, bodyL_cons, footL_cons, textsL_cons]
    rw [List.perm_iff_count] at *
    intro x
    have hi := i x
    have hj := j x
    simp only [List.count_append] at *
    omega
end

mutual
/-- the nearest enclosing unit of a text is the unit whose region holds it -/
theorem owners_spec (lvl : Int) (t : Tree) (hw : wf lvl false t = true) (cur m u : Nat)
    (h : (m, u) ∈ owners lvl cur t) :
    (u = cur ∧ m ∈ body lvl t ++ foot lvl t) ∨ ∃ un ∈ units lvl t, un.attrs.tag = u ∧ m ∈ un.body ++ un.foot := by
  cases t with
  | text m' => simp at h; simp [h.1, h.2]
  | elem a ks =>
    simp only [wf_elem, Bool.false_or, Bool.and_eq_true] at hw
    obtain ⟨hnf, hwk⟩ := hw
    by_cases hU : isUnit lvl a = true
    · have hfoot : a.foot = false := by simpa [hU] using hnf
      rw [hfoot] at hwk
      simp only [owners_elem, hU, if_true] at h
      right
      rcases owners_specL lvl ks hwk a.tag m u h with ⟨h1, h2⟩ | ⟨un, h1, h2⟩
      · exact ⟨⟨a, bodyL lvl ks, footL lvl ks⟩, by simp [hU], h1.symm, h2⟩
      · exact ⟨un, by simp [hU, h1], h2⟩
    · have hU' : isUnit lvl a = false := by simpa using hU
      simp only [owners_elem, hU', Bool.false_eq_true, if_false] at h
      by_cases hfoot : a.foot = true
      · rw [hfoot] at hwk
        obtain ⟨_, _, _, i4⟩ := spec_infootL lvl ks hwk
        have := i4 cur m u h
        left
        simp [hU', hfoot, this.1, this.2]
      · have hfoot' : a.foot = false := by simpa using hfoot
        rw [hfoot'] at hwk
        simpa [hU', hfoot'] using owners_specL lvl ks hwk cur m u h
theorem owners_specL (lvl : Int) (ts : List Tree) (hw : wfL lvl false ts = true) (cur m u : Nat)
    (h : (m, u) ∈ ownersL lvl cur ts) :
    (u = cur ∧ m ∈ bodyL lvl ts ++ footL lvl ts) ∨ ∃ un ∈ unitsL lvl ts, un.attrs.tag = u ∧ m ∈ un.body ++ un.foot := by
  cases ts with
  | nil => simp at h
  | cons t ts =>
    simp only [wfL_cons, Bool.and_eq_true] at hw
    simp only [ownersL_cons, List.mem_append] at h
    rcases h with h | h
    · rcases owners_spec lvl t hw.1 cur m u h with ⟨h1, h2⟩ | ⟨un, h1, h2⟩
      · left; refine ⟨h1, ?_⟩
        simp only [bodyL_cons, footL_cons, List.mem_append] at h2 ⊢
        rcases h2 with h2 | h2 <;> simp [h2]
      · right; exact ⟨un, by simp [h1], h2⟩
    · rcases owners_specL lvl ts hw.2 cur m u h with ⟨h1, h2⟩ | ⟨un, h1, h2⟩
      · left; refine ⟨h1, ?_⟩
        simp only [bodyL_cons, footL_cons, List.mem_append] at h2 ⊢
        rcases h2 with h2 | h2 <;> simp [h2]
      · right; exact ⟨un, by simp [h1], h2⟩
end

/-! ### zipping names with units -/
theorem zipWith_expected_texts (names : List String) (us : List PlasVerif.Spec.Split.Unit) (h : names.length = us.length) :
    (List.zipWith expected names us).flatMap (fun e => e.2.2) = utexts us := by
  induction names generalizing us with
  | nil => cases us <;> simp_all
  | cons n ns ih =>
    cases us with
    | nil => simp at h
    | cons u us => simp [expected, ih us (by simpa using h)]

theorem zipWith_expected_names (names : List String) (us : List PlasVerif.Spec.Split.Unit) (h : names.length = us.length) :
    (List.zipWith expected names us).map (fun e => e.1) = names := by
  induction names generalizing us with
  | nil => cases us <;> simp_all
  | cons n ns ih =>
    cases us with
    | nil => simp at h
    | cons u us => simp [expected, ih us (by simpa using h)]

theorem zipWith_expected_content (names : List String) (us : List PlasVerif.Spec.Split.Unit) (h : names.length = us.length) :
    (List.zipWith expected names us).map (fun e => e.2) = us.map fun u => (some (Tok.lop u.attrs.tag), u.body ++ u.foot) := by
  induction names generalizing us with
  | nil => cases us <;> simp_all
  | cons n ns ih =>
    cases us with
    | nil => simp at h
    | cons u us => simp [expected, ih us (by simpa using h)]

theorem zipWith_expected_mem (names : List String) (us : List PlasVerif.Spec.Split.Unit) (h : names.length = us.length) (u : PlasVerif.Spec.Split.Unit)
    (hu : u ∈ us) : ∃ n, expected n u ∈ List.zipWith expected names us := by
  induction names generalizing us with
  | nil => cases us <;> simp_all
  | cons n ns ih =>
    cases us with
    | nil => simp at hu
    | cons v vs =>
      simp only [List.mem_cons] at hu
      rcases hu with rfl | hu
      · exact ⟨n, by simp⟩
      · obtain ⟨n', hn'⟩ := ih vs (by simpa using h) hu
        exact ⟨n', by simp [hn']⟩

theorem zipWith_expected_mem' (names : List String) (us : List PlasVerif.Spec.Split.Unit) (e : String × Option Tok × List Nat)
    (he : e ∈ List.zipWith expected names us) : ∃ u ∈ us, e.2 = (some (Tok.lop u.attrs.tag), u.body ++ u.foot) := by
  induction names generalizing us with
  | nil => simp at he
  | cons n ns ih =>
    cases us with
    | nil => simp at he
    | cons v vs =>
      simp only [List.zipWith_cons_cons, List.mem_cons] at he
      rcases he with rfl | he
      · exact ⟨v, by simp, rfl⟩
      · obtain ⟨u, hu, h⟩ := ih vs he
        exact ⟨u, by simp [hu], h⟩

end PlasVerif.Proofs.Render
