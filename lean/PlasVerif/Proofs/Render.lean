import PlasVerif.Spec.Split
/-!
Helper lemmas for C13: relation between the tree after `cacheFilenames` (`ATree`) and the document (`Tree`),
what `assign` guarantees, and what `child` / `footOut` produce on consistently annotated trees.
-/
namespace PlasVerif.Proofs.Render
open PlasVerif.Model.Render PlasVerif.Spec.Split

/-! ### forgetting the cached names -/
mutual
def erase {ν} : ATree ν → Tree
  | .text m => .text m
  | .elem a _ ks => .elem a (eraseL ks)
  | .uni a _ ks => .uni a (eraseL ks)
def eraseL {ν} : List (ATree ν) → List Tree
  | [] => []
  | t :: ts => erase t :: eraseL ts
end

mutual
/-- every element has a cached name exactly when its level is at or above `lvl` -/
def ann {ν} (lvl : Int) : ATree ν → Bool
  | .text _ => true
  | .elem a f ks => (f.isSome == decide (a.level ≤ lvl)) && annL lvl ks
  | .uni a f ks => (f.isSome == decide (a.level ≤ lvl)) && annL lvl ks
def annL {ν} (lvl : Int) : List (ATree ν) → Bool
  | [] => true
  | t :: ts => ann lvl t && annL lvl ts
end

mutual
/-- cached names in document (pre-)order -/
def fileNames {ν} : ATree ν → List ν
  | .text _ => []
  | .elem _ f ks => f.toList ++ fileNamesL ks
  | .uni _ f ks => f.toList ++ fileNamesL ks
def fileNamesL {ν} : List (ATree ν) → List ν
  | [] => []
  | t :: ts => fileNames t ++ fileNamesL ts
end

def unitReqs (lvl : Int) (t : Tree) : List Req := (units lvl t).map fun u => req u.attrs
def unitReqsL (lvl : Int) (ts : List Tree) : List Req := (unitsL lvl ts).map fun u => req u.attrs

/-! ### equations -/
variable {ν : Type}
@[simp] theorem erase_text (m) : erase (.text m : ATree ν) = .text m := by rw [erase]
@[simp] theorem erase_elem (a) (f : Option ν) (ks) : erase (.elem a f ks) = .elem a (eraseL ks) := by rw [erase]
@[simp] theorem erase_uni (a) (f : Option ν) (ks) : erase (.uni a f ks) = .uni a (eraseL ks) := by rw [erase]
@[simp] theorem eraseL_nil : eraseL ([] : List (ATree ν)) = [] := by rw [eraseL]
@[simp] theorem eraseL_cons (t : ATree ν) (ts) : eraseL (t :: ts) = erase t :: eraseL ts := by rw [eraseL]
@[simp] theorem ann_text (l m) : ann l (.text m : ATree ν) = true := by rw [ann]
@[simp] theorem ann_elem (l a) (f : Option ν) (ks) : ann l (.elem a f ks) = ((f.isSome == decide (a.level ≤ l)) && annL l ks) := by rw [ann]
@[simp] theorem ann_uni (l a) (f : Option ν) (ks) : ann l (.uni a f ks) = ((f.isSome == decide (a.level ≤ l)) && annL l ks) := by rw [ann]
@[simp] theorem annL_nil (l) : annL l ([] : List (ATree ν)) = true := by rw [annL]
@[simp] theorem annL_cons (l) (t : ATree ν) (ts) : annL l (t :: ts) = (ann l t && annL l ts) := by rw [annL]
@[simp] theorem fileNames_text (m) : fileNames (.text m : ATree ν) = [] := by rw [fileNames]
@[simp] theorem fileNames_elem (a) (f : Option ν) (ks) : fileNames (.elem a f ks) = f.toList ++ fileNamesL ks := by rw [fileNames]
@[simp] theorem fileNames_uni (a) (f : Option ν) (ks) : fileNames (.uni a f ks) = f.toList ++ fileNamesL ks := by rw [fileNames]
@[simp] theorem fileNamesL_nil : fileNamesL ([] : List (ATree ν)) = [] := by rw [fileNamesL]
@[simp] theorem fileNamesL_cons (t : ATree ν) (ts) : fileNamesL (t :: ts) = fileNames t ++ fileNamesL ts := by rw [fileNamesL]

@[simp] theorem texts_text (m) : texts (.text m) = [m] := by rw [texts]
@[simp] theorem texts_elem (a ks) : texts (.elem a ks) = textsL ks := by rw [texts]
@[simp] theorem texts_uni (a ks) : texts (.uni a ks) = textsL ks := by rw [texts]
@[simp] theorem textsL_nil : textsL [] = [] := by rw [textsL]
@[simp] theorem textsL_cons (t ts) : textsL (t :: ts) = texts t ++ textsL ts := by rw [textsL]
@[simp] theorem body_text (l m) : body l (.text m) = [m] := by rw [body]
@[simp] theorem body_elem (l a ks) : body l (.elem a ks) = if isUnit l a || a.foot then [] else bodyL l ks := by rw [body]
@[simp] theorem body_uni (l a ks) : body l (.uni a ks) = [] := by rw [body]
@[simp] theorem bodyL_nil (l) : bodyL l [] = [] := by rw [bodyL]
@[simp] theorem bodyL_cons (l t ts) : bodyL l (t :: ts) = body l t ++ bodyL l ts := by rw [bodyL]
@[simp] theorem foot_text (l m) : foot l (.text m) = [] := by rw [foot]
@[simp] theorem foot_elem (l a ks) :
    foot l (.elem a ks) = if isUnit l a then [] else if a.foot then footL l ks ++ bodyL l ks else footL l ks := by rw [foot]
@[simp] theorem foot_uni (l a ks) : foot l (.uni a ks) = if isUnit l a then [] else footL l ks := by rw [foot]
@[simp] theorem footL_nil (l) : footL l [] = [] := by rw [footL]
@[simp] theorem footL_cons (l t ts) : footL l (t :: ts) = foot l t ++ footL l ts := by rw [footL]
@[simp] theorem units_text (l m) : units l (.text m) = [] := by rw [units]
@[simp] theorem units_elem (l a ks) :
    units l (.elem a ks) = if isUnit l a then ⟨a, bodyL l ks, footL l ks⟩ :: unitsL l ks else unitsL l ks := by rw [units]
@[simp] theorem units_uni (l a ks) :
    units l (.uni a ks) = if isUnit l a then ⟨a, bodyL l ks, footL l ks⟩ :: unitsL l ks else unitsL l ks := by rw [units]
@[simp] theorem unitsL_nil (l) : unitsL l [] = [] := by rw [unitsL]
@[simp] theorem unitsL_cons (l t ts) : unitsL l (t :: ts) = units l t ++ unitsL l ts := by rw [unitsL]
@[simp] theorem owners_text (l c m) : owners l c (.text m) = [(m, c)] := by rw [owners]
@[simp] theorem owners_elem (l c a ks) :
    owners l c (.elem a ks) = ownersL l (if isUnit l a then a.tag else c) ks := by rw [owners]
@[simp] theorem owners_uni (l c a ks) :
    owners l c (.uni a ks) = ownersL l (if isUnit l a then a.tag else c) ks := by rw [owners]
@[simp] theorem ownersL_nil (l c) : ownersL l c [] = [] := by rw [ownersL]
@[simp] theorem ownersL_cons (l c t ts) : ownersL l c (t :: ts) = owners l c t ++ ownersL l c ts := by rw [ownersL]
@[simp] theorem wf_text (l m) : wf l (.text m) = true := by rw [wf]
@[simp] theorem wf_elem (l a ks) : wf l (.elem a ks) = (!(isUnit l a && a.foot) && wfL l ks) := by rw [wf]
@[simp] theorem wf_uni (l a ks) : wf l (.uni a ks) = (!isUnit l a && !a.foot && ks.isEmpty) := by rw [wf]
@[simp] theorem wfL_nil (l) : wfL l [] = true := by rw [wfL]
@[simp] theorem wfL_cons (l t ts) : wfL l (t :: ts) = (wf l t && wfL l ts) := by rw [wfL]
@[simp] theorem footFree_text (l i m) : footFree l i (.text m) = true := by rw [footFree]
@[simp] theorem footFree_elem (l i a ks) : footFree l i (.elem a ks) =
    (!(i && isUnit l a) && footFreeL l (i || a.foot) ks) := by rw [footFree]
@[simp] theorem footFree_uni (l i a ks) : footFree l i (.uni a ks) =
    (!(i && isUnit l a) && footFreeL l (i || a.foot) ks) := by rw [footFree]
@[simp] theorem footFreeL_nil (l i) : footFreeL l i [] = true := by rw [footFreeL]
@[simp] theorem footFreeL_cons (l i t ts) : footFreeL l i (t :: ts) = (footFree l i t && footFreeL l i ts) := by rw [footFreeL]

@[simp] theorem strKids_nil : strKids ([] : List (ATree ν)) = ([], []) := by rw [strKids]
@[simp] theorem strKids_cons (c : ATree ν) (cs) :
    strKids (c :: cs) = ((child c).1 ++ (strKids cs).1, (child c).2 ++ (strKids cs).2) := by rw [strKids]
@[simp] theorem child_text (m) : child (.text m : ATree ν) = ([.txt m], []) := by rw [child]
theorem child_none (a) (ks : List (ATree ν)) : child (.elem a none ks) =
    (if a.foot then ([Tok.mark a.tag], []) else (.op a.tag :: ((strKids ks).1 ++ [.cl a.tag]), (strKids ks).2)) := by
  rw [child]
theorem child_some (a) (n : ν) (ks) : child (.elem a (some n) ks) =
    ([], (if a.foot then ([Tok.mark a.tag], ([] : List (File ν))) else (.op a.tag :: ((strKids ks).1 ++ [.cl a.tag]), (strKids ks).2)).2
        ++ (if a.level < ENDSECTIONS_LEVEL then footOutL ks else ([], [])).2
        ++ [(n, .lop a.tag :: ((if a.foot then ([Tok.mark a.tag], ([] : List (File ν))) else (.op a.tag :: ((strKids ks).1 ++ [.cl a.tag]), (strKids ks).2)).1
              ++ (if a.level < ENDSECTIONS_LEVEL then footOutL ks else ([], [])).1 ++ [.lcl a.tag]))]) := by
  rw [child]
@[simp] theorem child_uni (a) (f : Option ν) (ks) : child (.uni a f ks) = ([Tok.uni a.tag], []) := by rw [child]
@[simp] theorem footOut_text (m) : footOut (.text m : ATree ν) = ([], []) := by rw [footOut]
theorem footOut_elem (a) (f : Option ν) (ks) : footOut (.elem a f ks) =
    (if a.foot then
      ((if claims a f then (([], []) : List Tok × List (File ν)) else footOutL ks).1 ++ (.fop a.tag :: ((strKids ks).1 ++ [.fcl a.tag])),
       (if claims a f then (([], []) : List Tok × List (File ν)) else footOutL ks).2 ++ (strKids ks).2)
     else (if claims a f then ([], []) else footOutL ks)) := by
  rw [footOut]
theorem footOut_uni (a) (f : Option ν) (ks) : footOut (.uni a f ks) =
    (if a.foot then
      ((if claims a f then (([], []) : List Tok × List (File ν)) else footOutL ks).1 ++ [Tok.fop a.tag, Tok.uni a.tag, Tok.fcl a.tag],
       (if claims a f then (([], []) : List Tok × List (File ν)) else footOutL ks).2)
     else (if claims a f then ([], []) else footOutL ks)) := by
  rw [footOut]
@[simp] theorem footOutL_nil : footOutL ([] : List (ATree ν)) = ([], []) := by rw [footOutL]
@[simp] theorem footOutL_cons (c : ATree ν) (cs) :
    footOutL (c :: cs) = ((footOut c).1 ++ (footOutL cs).1, (footOut c).2 ++ (footOutL cs).2) := by rw [footOutL]

/-! ### text markers of token lists -/
@[simp] theorem textsOf_nil : textsOf [] = [] := rfl
@[simp] theorem textsOf_txt (m r) : textsOf (.txt m :: r) = m :: textsOf r := rfl
@[simp] theorem textsOf_op (t r) : textsOf (.op t :: r) = textsOf r := rfl
@[simp] theorem textsOf_cl (t r) : textsOf (.cl t :: r) = textsOf r := rfl
@[simp] theorem textsOf_mark (t r) : textsOf (.mark t :: r) = textsOf r := rfl
@[simp] theorem textsOf_uni (t r) : textsOf (.uni t :: r) = textsOf r := rfl
@[simp] theorem textsOf_lop (t r) : textsOf (.lop t :: r) = textsOf r := rfl
@[simp] theorem textsOf_lcl (t r) : textsOf (.lcl t :: r) = textsOf r := rfl
@[simp] theorem textsOf_fop (t r) : textsOf (.fop t :: r) = textsOf r := rfl
@[simp] theorem textsOf_fcl (t r) : textsOf (.fcl t :: r) = textsOf r := rfl
@[simp] theorem textsOf_append (a b : List Tok) : textsOf (a ++ b) = textsOf a ++ textsOf b := by
  induction a with
  | nil => simp
  | cons x xs ih => cases x <;> simp [ih]

/-! ### the generator run -/
theorem run_nil {σ} (g : Gen σ ν) (s : σ) : run g s [] = .ok ([], s) := rfl

theorem run_append {σ} (g : Gen σ ν) (r1 r2 : List Req) (s s1 s2 : σ) (n1 n2 : List ν)
    (h1 : run g s r1 = .ok (n1, s1)) (h2 : run g s1 r2 = .ok (n2, s2)) :
    run g s (r1 ++ r2) = .ok (n1 ++ n2, s2) := by
  induction r1 generalizing s n1 with
  | nil => simp [run] at h1; obtain ⟨rfl, rfl⟩ := h1; simpa using h2
  | cons r rs ih =>
    simp only [run, List.cons_append] at h1 ⊢
    cases hg : g.next s r with
    | error e => simp [hg] at h1
    | ok p =>
      obtain ⟨n, s'⟩ := p
      simp only [hg] at h1 ⊢
      cases hr : run g s' rs with
      | error e => simp [hr] at h1
      | ok q =>
        obtain ⟨ns, s''⟩ := q
        simp only [hr, Except.ok.injEq, Prod.mk.injEq] at h1
        obtain ⟨rfl, rfl⟩ := h1
        rw [ih s' ns hr]
        simp

theorem run_length {σ} (g : Gen σ ν) (rs : List Req) (s s' : σ) (ns : List ν)
    (h : run g s rs = .ok (ns, s')) : ns.length = rs.length := by
  induction rs generalizing s ns with
  | nil => simp [run] at h; simp [h.1.symm]
  | cons r rs ih =>
    simp only [run] at h
    cases hg : g.next s r with
    | error e => simp [hg] at h
    | ok p =>
      obtain ⟨n, s1⟩ := p
      simp only [hg] at h
      cases hr : run g s1 rs with
      | error e => simp [hr] at h
      | ok q =>
        obtain ⟨ns', s2⟩ := q
        simp only [hr, Except.ok.injEq, Prod.mk.injEq] at h
        obtain ⟨rfl, rfl⟩ := h
        simp [ih s1 ns' hr]

/-! ### what `cacheFilenames` guarantees -/
mutual
theorem assign_spec {σ} (g : Gen σ ν) (lvl : Int) (t : Tree) (s s' : σ) (t' : ATree ν)
    (h : assign g lvl s t = .ok (t', s')) :
    erase t' = t ∧ ann lvl t' = true ∧ run g s (unitReqs lvl t) = .ok (fileNames t', s') := by
  cases t with
  | text m =>
    rw [assign] at h
    simp only [Except.ok.injEq, Prod.mk.injEq] at h
    obtain ⟨rfl, rfl⟩ := h
    simp [unitReqs, run]
  | elem a ks =>
    rw [assign] at h
    by_cases hl : a.level > lvl
    · simp only [filenameOf, hl, if_true] at h
      cases hk : assignL g lvl s ks with
      | error e => simp [hk] at h
      | ok p =>
        obtain ⟨ks', s2⟩ := p
        simp only [hk, Except.ok.injEq, Prod.mk.injEq] at h
        obtain ⟨rfl, rfl⟩ := h
        obtain ⟨he, ha, hr⟩ := assignL_spec g lvl ks s s2 ks' hk
        have hu : isUnit lvl a = false := by simp [isUnit]; omega
        refine ⟨by simp [he], by simp [ha]; omega, ?_⟩
        simpa [unitReqs, unitReqsL, hu] using hr
    · simp only [filenameOf, hl, if_false] at h
      cases hg : g.next s (req a) with
      | error e => simp [hg] at h
      | ok q =>
        obtain ⟨n, s1⟩ := q
        simp only [hg] at h
        cases hk : assignL g lvl s1 ks with
        | error e => simp [hk] at h
        | ok p =>
          obtain ⟨ks', s2⟩ := p
          simp only [hk, Except.ok.injEq, Prod.mk.injEq] at h
          obtain ⟨rfl, rfl⟩ := h
          obtain ⟨he, ha, hr⟩ := assignL_spec g lvl ks s1 s2 ks' hk
          have hu : isUnit lvl a = true := by simp [isUnit]; omega
          refine ⟨by simp [he], by simp [ha]; omega, ?_⟩
          simp only [unitReqs, units_elem, hu, if_true, List.map_cons, run, hg, fileNames_elem, Option.toList_some,
            List.singleton_append]
          simp only [unitReqsL] at hr
          rw [hr]
  | uni a ks =>
    rw [assign] at h
    by_cases hl : a.level > lvl
    · simp only [filenameOf, hl, if_true] at h
      cases hk : assignL g lvl s ks with
      | error e => simp [hk] at h
      | ok p =>
        obtain ⟨ks', s2⟩ := p
        simp only [hk, Except.ok.injEq, Prod.mk.injEq] at h
        obtain ⟨rfl, rfl⟩ := h
        obtain ⟨he, ha, hr⟩ := assignL_spec g lvl ks s s2 ks' hk
        have hu : isUnit lvl a = false := by simp [isUnit]; omega
        refine ⟨by simp [he], by simp [ha]; omega, ?_⟩
        simpa [unitReqs, unitReqsL, hu] using hr
    · simp only [filenameOf, hl, if_false] at h
      cases hg : g.next s (req a) with
      | error e => simp [hg] at h
      | ok q =>
        obtain ⟨n, s1⟩ := q
        simp only [hg] at h
        cases hk : assignL g lvl s1 ks with
        | error e => simp [hk] at h
        | ok p =>
          obtain ⟨ks', s2⟩ := p
          simp only [hk, Except.ok.injEq, Prod.mk.injEq] at h
          obtain ⟨rfl, rfl⟩ := h
          obtain ⟨he, ha, hr⟩ := assignL_spec g lvl ks s1 s2 ks' hk
          have hu : isUnit lvl a = true := by simp [isUnit]; omega
          refine ⟨by simp [he], by simp [ha]; omega, ?_⟩
          simp only [unitReqs, units_uni, hu, if_true, List.map_cons, run, hg, fileNames_uni, Option.toList_some,
            List.singleton_append]
          simp only [unitReqsL] at hr
          rw [hr]
theorem assignL_spec {σ} (g : Gen σ ν) (lvl : Int) (ts : List Tree) (s s' : σ) (ts' : List (ATree ν))
    (h : assignL g lvl s ts = .ok (ts', s')) :
    eraseL ts' = ts ∧ annL lvl ts' = true ∧ run g s (unitReqsL lvl ts) = .ok (fileNamesL ts', s') := by
  cases ts with
  | nil =>
    rw [assignL] at h
    simp only [Except.ok.injEq, Prod.mk.injEq] at h
    obtain ⟨rfl, rfl⟩ := h
    simp [unitReqsL, run]
  | cons t ts =>
    rw [assignL] at h
    cases ht : assign g lvl s t with
    | error e => simp [ht] at h
    | ok p =>
      obtain ⟨t', s1⟩ := p
      simp only [ht] at h
      cases hk : assignL g lvl s1 ts with
      | error e => simp [hk] at h
      | ok q =>
        obtain ⟨ts2, s2⟩ := q
        simp only [hk, Except.ok.injEq, Prod.mk.injEq] at h
        obtain ⟨rfl, rfl⟩ := h
        obtain ⟨he, ha, hr⟩ := assign_spec g lvl t s s1 t' ht
        obtain ⟨he2, ha2, hr2⟩ := assignL_spec g lvl ts s1 s2 ts2 hk
        refine ⟨by simp [he, he2], by simp [ha, ha2], ?_⟩
        simp only [unitReqsL, unitsL_cons, List.map_append, fileNamesL_cons]
        exact run_append g _ _ s s1 s2 _ _ hr hr2
end

/-! ### without units inside footnotes, nothing is written while footnote text is printed -/
mutual
theorem nofiles (lvl : Int) (i : Bool) (t : ATree ν) (ha : ann lvl t = true) (hw : footFree lvl i (erase t) = true) :
    (footOut t).2 = [] ∧ (i = true → (child t).2 = []) := by
  cases t with
  | text m => simp
  | elem a f ks =>
    simp only [erase_elem, footFree_elem, Bool.and_eq_true, Bool.not_eq_true'] at hw
    simp only [ann_elem, Bool.and_eq_true, beq_iff_eq] at ha
    obtain ⟨hfile, hak⟩ := ha
    obtain ⟨hnu, hwk⟩ := hw
    obtain ⟨k1, k2⟩ := nofilesL lvl (i || a.foot) ks hak hwk
    refine ⟨?_, ?_⟩
    · rw [footOut_elem]
      by_cases hfoot : a.foot = true
      · have k2' := k2 (by simp [hfoot])
        by_cases hc : claims a f = true <;> simp [hfoot, hc, k1, k2']
      · have hfoot' : a.foot = false := by simpa using hfoot
        by_cases hc : claims a f = true <;> simp [hfoot', hc, k1]
    · intro hi
      subst hi
      have hu : isUnit lvl a = false := by simpa using hnu
      have hu' : decide (a.level ≤ lvl) = false := by simpa [isUnit] using hu
      rw [hu'] at hfile
      have hnone : f = none := by cases f <;> simp_all
      subst hnone
      have k2' := k2 (by simp)
      by_cases hfoot : a.foot = true <;> simp [child_none, hfoot, k2']
  | uni a f ks =>
    simp only [erase_uni, footFree_uni, Bool.and_eq_true, Bool.not_eq_true'] at hw
    simp only [ann_uni, Bool.and_eq_true, beq_iff_eq] at ha
    obtain ⟨k1, _⟩ := nofilesL lvl (i || a.foot) ks ha.2 hw.2
    refine ⟨?_, fun _ => by simp⟩
    rw [footOut_uni]
    by_cases hfoot : a.foot = true <;> by_cases hc : claims a f = true <;> simp [hfoot, hc, k1]
theorem nofilesL (lvl : Int) (i : Bool) (ts : List (ATree ν)) (ha : annL lvl ts = true)
    (hw : footFreeL lvl i (eraseL ts) = true) :
    (footOutL ts).2 = [] ∧ (i = true → (strKids ts).2 = []) := by
  cases ts with
  | nil => simp
  | cons t ts =>
    simp only [eraseL_cons, footFreeL_cons, Bool.and_eq_true] at hw
    simp only [annL_cons, Bool.and_eq_true] at ha
    obtain ⟨i1, i2⟩ := nofiles lvl i t ha.1 hw.1
    obtain ⟨j1, j2⟩ := nofilesL lvl i ts ha.2 hw.2
    refine ⟨by simp [i1, j1], fun hi => by simp [i2 hi, j2 hi]⟩
end

/-! ### the main invariant of rendering on a consistently annotated, well-formed tree -/
theorem lt_ends_of_le {a lvl : Int} (hl : lvl < ENDSECTIONS_LEVEL) (h : a ≤ lvl) : a < ENDSECTIONS_LEVEL := by
  simp only [ENDSECTIONS_LEVEL] at *; omega

mutual
/-- the files written while a subtree is rendered (`child`) and while its footnote text is printed by the owning
    layout (`footOut`) are together the files of the subtree's units -/
theorem main (lvl : Int) (hl : lvl < ENDSECTIONS_LEVEL) (t : ATree ν) (ha : ann lvl t = true)
    (hw : wf lvl (erase t) = true) :
    textsOf (child t).1 = body lvl (erase t) ∧
    textsOf (footOut t).1 = foot lvl (erase t) ∧
    (fileNames t).length = (units lvl (erase t)).length ∧
    List.Perm (((child t).2 ++ (footOut t).2).map summary)
      (List.zipWith expected (fileNames t) (units lvl (erase t))) := by
  cases t with
  | text m => simp
  | elem a f ks =>
    simp only [erase_elem, wf_elem, Bool.and_eq_true] at hw
    simp only [ann_elem, Bool.and_eq_true, beq_iff_eq] at ha
    obtain ⟨hfile, hak⟩ := ha
    obtain ⟨hnf, hwk⟩ := hw
    obtain ⟨i1, i2, i4, i5⟩ := mainL lvl hl ks hak hwk
    by_cases hu : a.level ≤ lvl
    · -- a unit: its own file
      have hU : isUnit lvl a = true := by simp [isUnit, hu]
      have hfoot : a.foot = false := by simpa [hU] using hnf
      have hsome : f.isSome = true := by simpa [hu] using hfile
      obtain ⟨n, rfl⟩ := Option.isSome_iff_exists.mp hsome
      have hlt : a.level < ENDSECTIONS_LEVEL := lt_ends_of_le hl hu
      refine ⟨by simp [child_some, hU], by simp [footOut_elem, claims, hlt, hfoot, hU], by simp [hU, i4], ?_⟩
      have hfo : (footOut (ATree.elem a (some n) ks)).2 = [] := by simp [footOut_elem, claims, hlt, hfoot]
      rw [hfo, List.append_nil]
      simp only [child_some, hfoot, hlt, if_true, List.map_append, List.map_cons, List.map_nil,
        fileNames_elem, Option.toList_some, List.singleton_append, erase_elem, units_elem, hU, List.zipWith_cons_cons]
      have hs : summary (n, Tok.lop a.tag :: (Tok.op a.tag :: ((strKids ks).1 ++ [Tok.cl a.tag]) ++ (footOutL ks).1 ++ [Tok.lcl a.tag]))
          = expected n ⟨a, bodyL lvl (eraseL ks), footL lvl (eraseL ks)⟩ := by
        simp [summary, expected, i1, i2]
      simp only [Bool.false_eq_true, if_false]
      rw [hs]
      simp only [List.map_append] at i5
      exact (List.perm_append_comm).trans (List.Perm.cons _ i5)
    · have hU : isUnit lvl a = false := by simp [isUnit, hu]
      have hnone : f = none := by
        cases f with
        | none => rfl
        | some n => simp [hu] at hfile
      subst hnone
      by_cases hfoot : a.foot = true
      · -- a footnote: mark inline, text (and whatever its text writes) bubbles up
        refine ⟨by simp [child_none, hfoot, hU], by simp [footOut_elem, claims, hfoot, hU, i1, i2], by simp [hU, i4], ?_⟩
        simp only [child_none, footOut_elem, claims, hfoot, if_true, Option.isSome_none, Bool.false_and, Bool.false_eq_true,
          if_false, List.nil_append, fileNames_elem, Option.toList_none, erase_elem, units_elem, hU]
        exact (List.perm_append_comm.map summary).trans i5
      · have hfoot' : a.foot = false := by simpa using hfoot
        refine ⟨by simp [child_none, hfoot', hU, i1], by simp [footOut_elem, claims, hfoot', hU, i2], by simp [hU, i4], ?_⟩
        simpa [child_none, footOut_elem, claims, hfoot', hU] using i5
  | uni a f ks =>
    -- printed as its unicode equivalent: in the domain a leaf that is neither unit nor footnote
    simp only [erase_uni, wf_uni, Bool.and_eq_true, Bool.not_eq_true', List.isEmpty_iff] at hw
    obtain ⟨⟨hU, hfoot⟩, hemp⟩ := hw
    simp only [ann_uni, Bool.and_eq_true, beq_iff_eq] at ha
    have hu' : decide (a.level ≤ lvl) = false := by simpa [isUnit] using hU
    have hfile := ha.1
    rw [hu'] at hfile
    have hnone : f = none := by cases f <;> simp_all
    subst hnone
    cases ks with
    | cons k ks' => simp at hemp
    | nil => simp [footOut_uni, claims, hfoot, hU]
theorem mainL (lvl : Int) (hl : lvl < ENDSECTIONS_LEVEL) (ts : List (ATree ν)) (ha : annL lvl ts = true)
    (hw : wfL lvl (eraseL ts) = true) :
    textsOf (strKids ts).1 = bodyL lvl (eraseL ts) ∧
    textsOf (footOutL ts).1 = footL lvl (eraseL ts) ∧
    (fileNamesL ts).length = (unitsL lvl (eraseL ts)).length ∧
    List.Perm (((strKids ts).2 ++ (footOutL ts).2).map summary)
      (List.zipWith expected (fileNamesL ts) (unitsL lvl (eraseL ts))) := by
  cases ts with
  | nil => simp
  | cons t ts =>
    simp only [eraseL_cons, wfL_cons, Bool.and_eq_true] at hw
    simp only [annL_cons, Bool.and_eq_true] at ha
    obtain ⟨i1, i2, i4, i5⟩ := main lvl hl t ha.1 hw.1
    obtain ⟨j1, j2, j4, j5⟩ := mainL lvl hl ts ha.2 hw.2
    refine ⟨by simp [i1, j1], by simp [i2, j2], by simp [i4, j4], ?_⟩
    simp only [strKids_cons, footOutL_cons, fileNamesL_cons, eraseL_cons, unitsL_cons]
    rw [List.zipWith_append i4]
    have h := List.Perm.append i5 j5
    rw [← List.map_append] at h
    refine List.Perm.trans (List.Perm.map summary ?_) h
    -- (A₁ ++ A₂) ++ (B₁ ++ B₂) ~ (A₁ ++ B₁) ++ (A₂ ++ B₂)
    simp only [List.append_assoc]
    exact List.Perm.append_left _ (List.perm_append_comm_assoc _ _ _)
end

/-! ### the children of the document node: only `document` elements are rendered, the others write nothing -/

theorem mem_eraseL (t : ATree ν) (ts : List (ATree ν)) (h : t ∈ ts) : erase t ∈ eraseL ts := by
  induction ts with
  | nil => simp at h
  | cons x xs ih =>
    simp only [eraseL_cons, List.mem_cons] at h ⊢
    rcases h with rfl | h
    · exact Or.inl rfl
    · exact Or.inr (ih h)

/-- a subtree without units writes no file -/
theorem inert_nofiles (lvl : Int) (hl : lvl < ENDSECTIONS_LEVEL) (t : ATree ν) (ha : ann lvl t = true)
    (hw : wf lvl (erase t) = true) (hu : units lvl (erase t) = []) : (child t).2 = [] ∧ (footOut t).2 = [] := by
  obtain ⟨_, _, _, i5⟩ := main lvl hl t ha hw
  rw [hu, List.zipWith_nil_right] at i5
  have : ((child t).2 ++ (footOut t).2).map summary = [] := i5.eq_nil
  have h2 : (child t).2 ++ (footOut t).2 = [] := by simpa using this
  exact List.append_eq_nil_iff.mp h2

theorem isDocLevel_erase (t : ATree ν) : t.isDocLevel = isDocRoot (erase t) := by
  cases t <;> simp [ATree.isDocLevel, isDocRoot]

theorem tops_render (lvl : Int) (hl : lvl < ENDSECTIONS_LEVEL) (ts : List (ATree ν)) (ha : annL lvl ts = true)
    (hw : wfL lvl (eraseL ts) = true)
    (hall : ∀ t ∈ ts, isDocRoot (erase t) = true ∨ units lvl (erase t) = [])
    (hcorner : DOCUMENT_LEVEL ≤ lvl ∨ footFreeL lvl false (eraseL ts) = true) :
    (footOutL ts).2 = [] ∧ (strKids (ts.filter ATree.isDocLevel)).2 = (strKids ts).2 := by
  induction ts with
  | nil => simp
  | cons t ts ih =>
    simp only [eraseL_cons, wfL_cons, Bool.and_eq_true] at hw
    simp only [annL_cons, Bool.and_eq_true] at ha
    have hcorner' : DOCUMENT_LEVEL ≤ lvl ∨ footFreeL lvl false (eraseL ts) = true := by
      rcases hcorner with h | h
      · exact Or.inl h
      · simp only [eraseL_cons, footFreeL_cons, Bool.and_eq_true] at h; exact Or.inr h.2
    obtain ⟨j1, j2⟩ := ih ha.2 hw.2 (fun x hx => hall x (List.mem_cons_of_mem _ hx)) hcorner'
    have hfo : (footOut t).2 = [] := by
      rcases hcorner with hlow | hff
      · rcases hall t (List.mem_cons_self ..) with hdoc | hin
        · cases t with
          | text m => simp
          | elem a f ks =>
            have hd : a.level = DOCUMENT_LEVEL := by simpa [isDocRoot] using hdoc
            have hu : a.level ≤ lvl := by rw [hd]; exact hlow
            have ha1 := ha.1
            simp only [ann_elem, Bool.and_eq_true, beq_iff_eq] at ha1
            have hsome : f.isSome = true := by simpa [hu] using ha1.1
            have hw1 := hw.1
            simp only [erase_elem, wf_elem, Bool.and_eq_true] at hw1
            have hfoot : a.foot = false := by simpa [isUnit, hu] using hw1.1
            simp [footOut_elem, claims, hsome, lt_ends_of_le hl hu, hfoot]
          | uni a f ks =>
            have hd : a.level = DOCUMENT_LEVEL := by simpa [isDocRoot] using hdoc
            have hw1 := hw.1
            simp only [erase_uni, wf_uni, Bool.and_eq_true, Bool.not_eq_true'] at hw1
            have : isUnit lvl a = true := by simp [isUnit, hd, hlow]
            rw [this] at hw1
            simp at hw1
        · exact (inert_nofiles lvl hl t ha.1 hw.1 hin).2
      · simp only [eraseL_cons, footFreeL_cons, Bool.and_eq_true] at hff
        exact (nofiles lvl false t ha.1 hff.1).1
    refine ⟨by simp [hfo, j1], ?_⟩
    by_cases hdl : t.isDocLevel = true
    · simp [hdl, j2]
    · have hdl' : isDocRoot (erase t) = false := by rw [← isDocLevel_erase]; simpa using hdl
      rcases hall t (List.mem_cons_self ..) with hdoc | hin
      · rw [hdl'] at hdoc; cases hdoc
      · have := (inert_nofiles lvl hl t ha.1 hw.1 hin).1
        simp [hdl, j2, this]

/-! ### facts about the prescription itself (no model involved) -/

/-- all text the property assigns to a list of units -/
def utexts (us : List PlasVerif.Spec.Split.Unit) : List Nat := us.flatMap fun u => u.body ++ u.foot

@[simp] theorem utexts_nil : utexts [] = [] := rfl
@[simp] theorem utexts_cons (u us) : utexts (u :: us) = (u.body ++ u.foot) ++ utexts us := rfl
@[simp] theorem utexts_append (a b) : utexts (a ++ b) = utexts a ++ utexts b := by simp [utexts]

mutual
-- nothing is lost and nothing repeated by the prescription: the texts of all units of a subtree plus what the
-- subtree contributes to the enclosing unit are the texts of the subtree
theorem conserve (lvl : Int) (t : Tree) (hw : wf lvl t = true) :
    List.Perm (utexts (units lvl t) ++ (body lvl t ++ foot lvl t)) (texts t) := by
  cases t with
  | text m => simp
  | elem a ks =>
    simp only [wf_elem, Bool.and_eq_true] at hw
    obtain ⟨hnf, hwk⟩ := hw
    have ih := conserveL lvl ks hwk
    by_cases hU : isUnit lvl a = true
    · have hfoot : a.foot = false := by simpa [hU] using hnf
      simp only [units_elem, hU, if_true, utexts_cons, body_elem, Bool.true_or, foot_elem, List.append_nil, texts_elem]
      exact (List.perm_append_comm).trans ih
    · have hU' : isUnit lvl a = false := by simpa using hU
      by_cases hfoot : a.foot = true
      · simp only [units_elem, hU', Bool.false_eq_true, if_false, body_elem, hfoot, Bool.or_true, if_true, foot_elem,
          List.nil_append, texts_elem]
        rw [List.perm_iff_count] at *
        intro x
        have := ih x
        simp only [List.count_append] at *
        omega
      · have hfoot' : a.foot = false := by simpa using hfoot
        simpa [hU', hfoot'] using ih
  | uni a ks =>
    simp only [wf_uni, Bool.and_eq_true, Bool.not_eq_true', List.isEmpty_iff] at hw
    obtain ⟨⟨hU, _⟩, rfl⟩ := hw
    simp [hU]
theorem conserveL (lvl : Int) (ts : List Tree) (hw : wfL lvl ts = true) :
    List.Perm (utexts (unitsL lvl ts) ++ (bodyL lvl ts ++ footL lvl ts)) (textsL ts) := by
  cases ts with
  | nil => simp
  | cons t ts =>
    simp only [wfL_cons, Bool.and_eq_true] at hw
    have i := conserve lvl t hw.1
    have j := conserveL lvl ts hw.2
    simp only [unitsL_cons, utexts_append, bodyL_cons, footL_cons, textsL_cons]
    rw [List.perm_iff_count] at *
    intro x
    have hi := i x
    have hj := j x
    simp only [List.count_append] at *
    omega
end

mutual
-- the nearest enclosing unit of a text is the unit whose region holds it
theorem owners_spec (lvl : Int) (t : Tree) (hw : wf lvl t = true) (cur m u : Nat)
    (h : (m, u) ∈ owners lvl cur t) :
    (u = cur ∧ m ∈ body lvl t ++ foot lvl t) ∨ ∃ un ∈ units lvl t, un.attrs.tag = u ∧ m ∈ un.body ++ un.foot := by
  cases t with
  | text m' => simp at h; simp [h.1, h.2]
  | elem a ks =>
    simp only [wf_elem, Bool.and_eq_true] at hw
    obtain ⟨hnf, hwk⟩ := hw
    by_cases hU : isUnit lvl a = true
    · simp only [owners_elem, hU, if_true] at h
      right
      rcases owners_specL lvl ks hwk a.tag m u h with ⟨h1, h2⟩ | ⟨un, h1, h2⟩
      · exact ⟨⟨a, bodyL lvl ks, footL lvl ks⟩, by simp [hU], h1.symm, h2⟩
      · exact ⟨un, by simp [hU, h1], h2⟩
    · have hU' : isUnit lvl a = false := by simpa using hU
      simp only [owners_elem, hU', Bool.false_eq_true, if_false] at h
      rcases owners_specL lvl ks hwk cur m u h with ⟨h1, h2⟩ | ⟨un, h1, h2⟩
      · left
        refine ⟨h1, ?_⟩
        by_cases hfoot : a.foot = true
        · simp only [List.mem_append] at h2
          rcases h2 with h2 | h2 <;> simp [hU', hfoot, h2]
        · have hfoot' : a.foot = false := by simpa using hfoot
          simpa [hU', hfoot'] using h2
      · right; exact ⟨un, by simp [hU', h1], h2⟩
  | uni a ks =>
    simp only [wf_uni, Bool.and_eq_true, Bool.not_eq_true', List.isEmpty_iff] at hw
    obtain ⟨_, rfl⟩ := hw
    simp at h
theorem owners_specL (lvl : Int) (ts : List Tree) (hw : wfL lvl ts = true) (cur m u : Nat)
    (h : (m, u) ∈ ownersL lvl cur ts) :
    (u = cur ∧ m ∈ bodyL lvl ts ++ footL lvl ts) ∨ ∃ un ∈ unitsL lvl ts, un.attrs.tag = u ∧ m ∈ un.body ++ un.foot := by
  cases ts with
  | nil => simp at h
  | cons t ts =>
    simp only [wfL_cons, Bool.and_eq_true] at hw
    simp only [ownersL_cons, List.mem_append] at h
    rcases h with h | h
    · rcases owners_spec lvl t hw.1 cur m u h with ⟨h1, h2⟩ | ⟨un, h1, h2⟩
      · left; refine ⟨h1, ?_⟩
        simp only [bodyL_cons, footL_cons, List.mem_append] at h2 ⊢
        rcases h2 with h2 | h2 <;> simp [h2]
      · right; exact ⟨un, by simp [h1], h2⟩
    · rcases owners_specL lvl ts hw.2 cur m u h with ⟨h1, h2⟩ | ⟨un, h1, h2⟩
      · left; refine ⟨h1, ?_⟩
        simp only [bodyL_cons, footL_cons, List.mem_append] at h2 ⊢
        rcases h2 with h2 | h2 <;> simp [h2]
      · right; exact ⟨un, by simp [h1], h2⟩
end

/-! ### zipping names with units -/
theorem zipWith_expected_texts (names : List ν) (us : List PlasVerif.Spec.Split.Unit) (h : names.length = us.length) :
    (List.zipWith expected names us).flatMap (fun e => e.2.2) = utexts us := by
  induction names generalizing us with
  | nil => cases us <;> simp_all
  | cons n ns ih =>
    cases us with
    | nil => simp at h
    | cons u us => simp [expected, ih us (by simpa using h)]

theorem zipWith_expected_names (names : List ν) (us : List PlasVerif.Spec.Split.Unit) (h : names.length = us.length) :
    (List.zipWith expected names us).map (fun e => e.1) = names := by
  induction names generalizing us with
  | nil => cases us <;> simp_all
  | cons n ns ih =>
    cases us with
    | nil => simp at h
    | cons u us => simp [expected, ih us (by simpa using h)]

theorem zipWith_expected_content (names : List ν) (us : List PlasVerif.Spec.Split.Unit) (h : names.length = us.length) :
    (List.zipWith expected names us).map (fun e => e.2) = us.map fun u => (some (Tok.lop u.attrs.tag), u.body ++ u.foot) := by
  induction names generalizing us with
  | nil => cases us <;> simp_all
  | cons n ns ih =>
    cases us with
    | nil => simp at h
    | cons u us => simp [expected, ih us (by simpa using h)]

theorem zipWith_expected_mem (names : List ν) (us : List PlasVerif.Spec.Split.Unit) (h : names.length = us.length) (u : PlasVerif.Spec.Split.Unit)
    (hu : u ∈ us) : ∃ n, expected n u ∈ List.zipWith expected names us := by
  induction names generalizing us with
  | nil => cases us <;> simp_all
  | cons n ns ih =>
    cases us with
    | nil => simp at hu
    | cons v vs =>
      simp only [List.mem_cons] at hu
      rcases hu with rfl | hu
      · exact ⟨n, by simp⟩
      · obtain ⟨n', hn'⟩ := ih vs (by simpa using h) hu
        exact ⟨n', by simp [hn']⟩

theorem zipWith_expected_mem' (names : List ν) (us : List PlasVerif.Spec.Split.Unit) (e : ν × Option Tok × List Nat)
    (he : e ∈ List.zipWith expected names us) : ∃ u ∈ us, e.2 = (some (Tok.lop u.attrs.tag), u.body ++ u.foot) := by
  induction names generalizing us with
  | nil => simp at he
  | cons n ns ih =>
    cases us with
    | nil => simp at he
    | cons v vs =>
      simp only [List.zipWith_cons_cons, List.mem_cons] at he
      rcases he with rfl | he
      · exact ⟨v, by simp, rfl⟩
      · obtain ⟨u, hu, h⟩ := ih vs he
        exact ⟨u, by simp [hu], h⟩

/-! ### the failure path: `cacheFilenames` fails exactly when a name request fails -/

/-- `run` over a concatenation, in every case (success and failure) -/
theorem run_append_eq {σ} (g : Gen σ ν) (r1 r2 : List Req) (s : σ) :
    run g s (r1 ++ r2) =
      match run g s r1 with
      | .error e => .error e
      | .ok (n1, s1) =>
        match run g s1 r2 with
        | .error e => .error e
        | .ok (n2, s2) => .ok (n1 ++ n2, s2) := by
  induction r1 generalizing s with
  | nil =>
    simp only [List.nil_append, run]
    cases run g s r2 with
    | error e => rfl
    | ok p => obtain ⟨n, s'⟩ := p; rfl
  | cons r rs ih =>
    simp only [List.cons_append, run]
    cases hg : g.next s r with
    | error e => rfl
    | ok p =>
      obtain ⟨n, s1⟩ := p
      simp only []
      rw [ih s1]
      cases run g s1 rs with
      | error e => rfl
      | ok q =>
        obtain ⟨ns, s2⟩ := q
        simp only []
        cases run g s2 r2 with
        | error e => rfl
        | ok q2 => obtain ⟨n2, s3⟩ := q2; simp

mutual
/-- `cacheFilenames` on a subtree is the generator run over the subtree's unit requests: same names, same final
    state, and the same exception when a request fails -/
theorem assign_run {σ} (g : Gen σ ν) (lvl : Int) (t : Tree) (s : σ) :
    (assign g lvl s t).map (fun p => (fileNames p.1, p.2)) = run g s (unitReqs lvl t) := by
  cases t with
  | text m => rw [assign]; simp [unitReqs, run, Except.map]
  | elem a ks =>
    rw [assign]
    have ih := assignL_run g lvl ks
    by_cases hl : a.level > lvl
    · have hu : isUnit lvl a = false := by simp [isUnit]; omega
      simp only [filenameOf, hl, if_true, unitReqs, units_elem, hu, Bool.false_eq_true, if_false]
      have ih' := ih s
      simp only [unitReqsL] at ih'
      rw [← ih']
      cases assignL g lvl s ks with
      | error e => rfl
      | ok p => obtain ⟨ks', s2⟩ := p; simp [Except.map]
    · have hu : isUnit lvl a = true := by simp [isUnit]; omega
      simp only [filenameOf, hl, if_false, unitReqs, units_elem, hu, if_true, List.map_cons, run]
      cases g.next s (req a) with
      | error e => rfl
      | ok q =>
        obtain ⟨n, s1⟩ := q
        simp only []
        have ih' := ih s1
        simp only [unitReqsL] at ih'
        rw [← ih']
        cases assignL g lvl s1 ks with
        | error e => rfl
        | ok p => obtain ⟨ks', s2⟩ := p; simp [Except.map]
  | uni a ks =>
    rw [assign]
    have ih := assignL_run g lvl ks
    by_cases hl : a.level > lvl
    · have hu : isUnit lvl a = false := by simp [isUnit]; omega
      simp only [filenameOf, hl, if_true, unitReqs, units_uni, hu, Bool.false_eq_true, if_false]
      have ih' := ih s
      simp only [unitReqsL] at ih'
      rw [← ih']
      cases assignL g lvl s ks with
      | error e => rfl
      | ok p => obtain ⟨ks', s2⟩ := p; simp [Except.map]
    · have hu : isUnit lvl a = true := by simp [isUnit]; omega
      simp only [filenameOf, hl, if_false, unitReqs, units_uni, hu, if_true, List.map_cons, run]
      cases g.next s (req a) with
      | error e => rfl
      | ok q =>
        obtain ⟨n, s1⟩ := q
        simp only []
        have ih' := ih s1
        simp only [unitReqsL] at ih'
        rw [← ih']
        cases assignL g lvl s1 ks with
        | error e => rfl
        | ok p => obtain ⟨ks', s2⟩ := p; simp [Except.map]
theorem assignL_run {σ} (g : Gen σ ν) (lvl : Int) (ts : List Tree) (s : σ) :
    (assignL g lvl s ts).map (fun p => (fileNamesL p.1, p.2)) = run g s (unitReqsL lvl ts) := by
  cases ts with
  | nil => rw [assignL]; simp [unitReqsL, run, Except.map]
  | cons t ts =>
    rw [assignL]
    have h1 := assign_run g lvl t s
    simp only [unitReqsL, unitsL_cons, List.map_append]
    rw [run_append_eq]
    simp only [unitReqs] at h1
    rw [← h1]
    cases assign g lvl s t with
    | error e => rfl
    | ok p =>
      obtain ⟨t', s1⟩ := p
      simp only [Except.map]
      have h2 := assignL_run g lvl ts s1
      simp only [unitReqsL] at h2
      rw [← h2]
      cases assignL g lvl s1 ts with
      | error e => rfl
      | ok q => obtain ⟨ts', s2⟩ := q; simp [Except.map]
end

/-- the request of the document node itself (only at split levels ≥ 1001) -/
def docReqs (lvl : Int) : List Req := if documentNode.level > lvl then [] else [req documentNode]

/-- every name request of one rendering, in the order the requests are made -/
def allReqs (lvl : Int) (tops : List Tree) : List Req := docReqs lvl ++ unitReqsL lvl tops

theorem render_run {σ} (g : Gen σ ν) (s0 : σ) (split : Int) (tmpl : List Char) (tops : List Tree) :
    (render g s0 split tmpl tops).map (fun _ => ()) =
      (run g s0 (allReqs (effLevel split tmpl) tops)).map (fun _ => ()) := by
  simp only [render, allReqs]
  generalize effLevel split tmpl = lvl
  rw [run_append_eq]
  by_cases hl : documentNode.level > lvl
  · simp only [filenameOf, docReqs, hl, if_true, run]
    rw [← assignL_run g lvl tops s0]
    cases assignL g lvl s0 tops with
    | error e => rfl
    | ok p => obtain ⟨a, b⟩ := p; rfl
  · simp only [filenameOf, docReqs, hl, if_false, run]
    cases g.next s0 (req documentNode) with
    | error e => rfl
    | ok q =>
      obtain ⟨n, s1⟩ := q
      simp only []
      rw [← assignL_run g lvl tops s1]
      cases assignL g lvl s1 tops with
      | error e => rfl
      | ok p => obtain ⟨a, b⟩ := p; rfl

/-! ### the output directory: with pairwise distinct names no write is overwritten -/
theorem disk_none_of_not_mem [DecidableEq ν] (fs : List (File ν)) (n : ν) (h : n ∉ fs.map (·.1)) : disk fs n = none := by
  induction fs with
  | nil => rfl
  | cons f fs ih =>
    simp only [List.map_cons, List.mem_cons, not_or] at h
    simp only [disk, ih h.2]
    simp [Ne.symm h.1]

theorem disk_of_nodup [DecidableEq ν] (fs : List (File ν)) (hn : (fs.map (·.1)).Nodup) :
    ∀ f ∈ fs, disk fs f.1 = some f.2 := by
  induction fs with
  | nil => intro f hf; cases hf
  | cons g fs ih =>
    simp only [List.map_cons, List.nodup_cons] at hn
    intro f hf
    rcases List.mem_cons.mp hf with rfl | hf
    · simp [disk, disk_none_of_not_mem fs f.1 hn.1]
    · simp [disk, ih hn.2 f hf]

end PlasVerif.Proofs.Render
