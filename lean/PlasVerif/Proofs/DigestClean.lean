import PlasVerif.Proofs.DigestCases
/-!
`clean` (the stream hypothesis of C07) is preserved by every tree operation of the model, and on
clean trees the operations that can drop something (`norm`, the blank-paragraph filter, the blanks
skipped at list heads, the swallowed closers) drop nothing that carries a word.
-/
namespace PlasVerif.Proofs.Digest
open PlasVerif.Model.Digest PlasVerif.Spec.DocTree PlasVerif.Generated.Digest

theorem cleanL_iff : ∀ ts : List Tree, cleanL ts = true ↔ ∀ t ∈ ts, clean t = true
  | [] => by simp [cleanL]
  | t :: ts => by simp [cleanL, cleanL_iff ts]

theorem clean_node (it : Item) (p : Ref) (kids : List Tree) :
    clean (.node it p kids) = true ↔
      itemOK it = true ∧ (it.elem = true ∨ kids = []) ∧ (dropShape it = true → own it ++ leavesL kids = []) ∧
      cleanL kids = true := by
  simp only [clean, Bool.and_eq_true, Bool.or_eq_true, List.isEmpty_iff, Bool.not_eq_true']
  constructor
  · rintro ⟨⟨⟨h1, h2⟩, h3⟩, h4⟩
    refine ⟨h1, h2, ?_, h4⟩
    intro hd; rcases h3 with h3 | h3
    · rw [hd] at h3; cases h3
    · exact h3
  · rintro ⟨h1, h2, h3, h4⟩
    refine ⟨⟨⟨h1, h2⟩, ?_⟩, h4⟩
    cases hd : dropShape it
    · exact .inl rfl
    · exact .inr (h3 hd)

theorem clean_eq (t : Tree) :
    clean t = true ↔
      itemOK t.it = true ∧ (t.it.elem = true ∨ t.kids = []) ∧ (dropShape t.it = true → leaves t = []) ∧
      cleanL t.kids = true := by
  cases t with
  | node it p kids => simpa [Tree.it, Tree.kids, leaves] using clean_node it p kids

/-! consequences of `itemOK` -/
theorem itemOK_text {it : Item} (h : itemOK it = true) (he : it.elem = false) :
    inert it = true ∧ (it.ws = true → it.src = []) := by
  simp only [itemOK, Bool.and_eq_true, Bool.or_eq_true, he, Bool.false_eq_true, false_or,
    Bool.not_eq_true', List.isEmpty_iff] at h
  obtain ⟨⟨⟨⟨h1, h2⟩, _⟩, _⟩, _⟩ := h
  refine ⟨h1, fun hw => ?_⟩
  rcases h2 with h2 | h2
  · rw [hw] at h2; cases h2
  · exact h2

theorem itemOK_dynws {it : Item} (h : itemOK it = true) (hd : it.dynws = true) : it.argLeaves = [] := by
  simp only [itemOK, Bool.and_eq_true, Bool.or_eq_true, Bool.not_eq_true', List.isEmpty_iff, hd] at h
  obtain ⟨⟨⟨_, h2⟩, _⟩, _⟩ := h
  rcases h2 with h2 | h2
  · cases h2
  · exact h2

theorem itemOK_par {it : Item} (h : itemOK it = true) (hl : it.level = parLevel) :
    it.argLeaves = [] ∧ it.elem = true ∧ it.dk = .none ∧ dropShape it = false := by
  simp only [itemOK, Bool.and_eq_true, Bool.or_eq_true, Bool.not_eq_true', List.isEmpty_iff, hl, beq_self_eq_true,
    Bool.true_eq_false, false_or, beq_iff_eq] at h
  obtain ⟨⟨⟨_, _⟩, ⟨⟨⟨a, b⟩, c⟩, d⟩⟩, _⟩ := h
  exact ⟨a, b, c, d⟩

theorem itemOK_drop {it : Item} (h : itemOK it = true) (hd : dropShape it = true) : inert it = true := by
  simp only [itemOK, Bool.and_eq_true, Bool.or_eq_true, Bool.not_eq_true', hd, Bool.true_eq_false, false_or] at h
  exact h.2

theorem par_inert {it : Item} (h : itemOK it = true) (hl : it.level = parLevel) : inert it = true := by
  simp [inert, (itemOK_par h hl).2.2.1]

/-- a node whose `digest` absorbs is an element, not a closer, not a paragraph token -/
theorem notInert {it : Item} (h : itemOK it = true) (hi : inert it = false) :
    it.elem = true ∧ dropShape it = false ∧ it.level ≠ parLevel := by
  refine ⟨?_, ?_, ?_⟩
  · cases he : it.elem
    · rw [(itemOK_text h he).1] at hi; cases hi
    · rfl
  · cases hd : dropShape it
    · rfl
    · rw [itemOK_drop h hd] at hi; cases hi
  · intro hl; rw [par_inert h hl] at hi; cases hi

theorem clean_setParent (r : Ref) (t : Tree) : clean (t.setParent r) = clean t := by
  cases t; simp [Tree.setParent, clean]

theorem clean_ws {t : Tree} (h : clean t = true) (hw : t.ws = true) : leaves t = [] := by
  cases t with
  | node it p kids =>
    obtain ⟨hi, hk, _, _⟩ := (clean_node it p kids).1 h
    simp only [Tree.ws, Tree.it, Tree.kids] at hw
    cases he : it.elem
    · simp only [he, Bool.false_eq_true, if_false] at hw
      have hk' : kids = [] := by simpa [he] using hk
      simp [leaves, own, he, (itemOK_text hi he).2 hw, hk', leavesL]
    · simp only [he, if_true, Bool.and_eq_true, List.isEmpty_iff] at hw
      simp [leaves, own, he, itemOK_dynws hi hw.1, hw.2, leavesL]

theorem clean_append {t x : Tree} (ht : clean t = true) (hin : inert t.it = false) (hx : clean x = true) :
    clean (t.append x) = true := by
  cases t with
  | node it p kids =>
    obtain ⟨hi, _, _, hc⟩ := (clean_node it p kids).1 ht
    obtain ⟨he, hd, _⟩ := notInert hi hin
    simp only [Tree.append, Tree.it, Tree.kids, Tree.parent]
    refine (clean_node _ _ _).2 ⟨hi, .inl he, (fun h => by rw [hd] at h; cases h), ?_⟩
    rw [cleanL_iff] at hc ⊢
    intro y hy
    rcases List.mem_append.1 hy with hy | hy
    · exact hc y hy
    · simp only [List.mem_singleton] at hy; subst hy; rw [clean_setParent]; exact hx

/-! ### normalize -/
theorem char_ne_par : (characterLevel == parLevel) = false := by decide

theorem flushText_clean (cs : Bool) (o : Ref) (txt : List Tree)
    (h : ∀ k ∈ txt, clean k = true ∧ k.it.elem = false) : cleanL (flushText cs o txt) = true := by
  unfold flushText
  by_cases he : txt.isEmpty
  · simp [he, cleanL]
  · simp only [he, Bool.false_eq_true, if_false, cleanL, Bool.and_true]
    refine (clean_node _ _ _).2 ⟨?_, .inr rfl, ?_, by simp [cleanL]⟩
    · have hsrc : txt.all (·.it.ws) = true → txt.flatMap (·.it.src) = [] := by
        intro hall
        rw [List.flatMap_eq_nil_iff]
        intro k hk
        obtain ⟨hc, hke⟩ := h k hk
        have hw : k.it.ws = true := by simpa using (List.all_eq_true.1 hall) k hk
        exact (itemOK_text ((clean_eq k).1 hc).1 hke).2 hw
      simp only [itemOK, textItem, inert, dropShape, char_ne_par, Bool.and_eq_true, Bool.or_eq_true,
        Bool.not_eq_true', List.isEmpty_iff]
      cases hall : txt.all (·.it.ws)
      · simp
      · simp [hsrc hall]
    · simp [dropShape, textItem]

theorem text_leaves {k : Tree} (hc : clean k = true) (he : k.it.elem = false) : leaves k = k.it.src := by
  obtain ⟨_, hk, _, _⟩ := (clean_eq k).1 hc
  have : k.kids = [] := by simpa [he] using hk
  rw [leaves_eq]; simp [own, he, this, leavesL]

mutual
theorem norm_ce (cs : Bool) : ∀ t : Tree, clean t = true → clean (norm cs t) = true ∧ leaves (norm cs t) = leaves t
  | .node it p kids => by
    intro h
    obtain ⟨hi, hk, hd, hc⟩ := (clean_node it p kids).1 h
    obtain ⟨h1, h2⟩ := normKids_ce (cs && !it.nosub) it.ref kids [] hc (by simp)
    have hl : leaves (norm cs (.node it p kids)) = leaves (.node it p kids) := by
      simp only [norm, leaves, h2, srcs, List.flatMap_nil, List.nil_append]
    refine ⟨?_, hl⟩
    simp only [norm]
    refine (clean_node _ _ _).2 ⟨hi, ?_, ?_, h1⟩
    · rcases hk with hk | hk
      · exact .inl hk
      · subst hk; exact .inr (by simp [normKids, flushText])
    · intro hds
      have := hd hds
      simp only [norm, leaves] at hl
      rw [hl]; simpa [leaves] using this
theorem normKids_ce (cs : Bool) (o : Ref) : ∀ (ks txt : List Tree), cleanL ks = true →
    (∀ k ∈ txt, clean k = true ∧ k.it.elem = false) →
    cleanL (normKids cs o ks txt) = true ∧ leavesL (normKids cs o ks txt) = srcs txt ++ leavesL ks
  | [], txt, _, ht => by
    simp only [normKids, leavesL, List.append_nil]
    exact ⟨flushText_clean cs o txt ht, leavesL_flushText cs o txt⟩
  | k :: ks, txt, hc, ht => by
    have hck : clean k = true := (cleanL_iff _).1 hc k (by simp)
    have hcks : cleanL ks = true := (cleanL_iff _).2 fun y hy => (cleanL_iff _).1 hc y (by simp [hy])
    unfold normKids
    by_cases he : k.it.elem
    · simp only [he, if_true]
      obtain ⟨n1, n2⟩ := norm_ce cs k hck
      obtain ⟨r1, r2⟩ := normKids_ce cs o ks [] hcks (by simp)
      constructor
      · rw [cleanL_iff]
        intro y hy
        rcases List.mem_append.1 hy with hy | hy
        · exact (cleanL_iff _).1 (flushText_clean cs o txt ht) y hy
        · rcases List.mem_cons.1 hy with rfl | hy
          · rw [clean_setParent]; exact n1
          · exact (cleanL_iff _).1 r1 y hy
      · rw [leavesL_append, leavesL_flushText]
        simp only [leavesL, leaves_setParent, n2, r2, srcs, List.flatMap_nil, List.nil_append]
    · have he' : k.it.elem = false := by simpa using he
      simp only [he', Bool.false_eq_true, if_false]
      obtain ⟨r1, r2⟩ := normKids_ce cs o ks (txt ++ [k]) hcks (by
        intro y hy
        rcases List.mem_append.1 hy with hy | hy
        · exact ht y hy
        · simp only [List.mem_singleton] at hy; subst hy; exact ⟨hck, he'⟩)
      refine ⟨r1, ?_⟩
      rw [r2, srcs_append]
      simp [srcs, leavesL, text_leaves hck he', List.append_assoc]
end

/-! ### paragraphs -/
theorem defaultPar_ok : itemOK defaultPar = true ∧ defaultPar.level = parLevel := by decide

theorem mkPar_clean {proto : Item} (hp : itemOK proto = true) (hl : proto.level = parLevel) (o p : Ref) (k : Nat)
    (b : Bool) (kids : List Tree) (hk : cleanL kids = true) : clean (mkPar proto o p k b kids) = true := by
  obtain ⟨_, he, hdk, hds⟩ := itemOK_par hp hl
  have hsc : proto.setctr = false := by
    cases h : proto.setctr
    · rfl
    · simp [dropShape, h] at hds
  have heg : proto.egroup = false := by
    cases h : proto.egroup
    · rfl
    · simp [dropShape, h, he] at hds
  simp only [mkPar]
  refine (clean_node _ _ _).2 ⟨?_, .inl he, ?_, hk⟩
  · simp [itemOK, inert, dropShape, hl, he, hdk, hsc, heg]
  · simp [dropShape, hsc, heg]

theorem mkPar_it_level (proto : Item) (o p : Ref) (k : Nat) (b : Bool) (kids : List Tree) :
    (mkPar proto o p k b kids).it.level = proto.level := rfl

theorem clean_par_append {cur x : Tree} (hc : clean cur = true) (hl : cur.it.level = parLevel)
    (hx : clean x = true) : clean (cur.append x) = true := by
  cases cur with
  | node it p kids =>
    obtain ⟨hi, _, _, hck⟩ := (clean_node it p kids).1 hc
    obtain ⟨_, he, _, hds⟩ := itemOK_par hi hl
    simp only [Tree.append, Tree.it, Tree.kids, Tree.parent]
    refine (clean_node _ _ _).2 ⟨hi, .inl he, (fun h => by rw [hds] at h; cases h), ?_⟩
    rw [cleanL_iff] at hck ⊢
    intro y hy
    rcases List.mem_append.1 hy with hy | hy
    · exact hck y hy
    · simp only [List.mem_singleton] at hy; subst hy; rw [clean_setParent]; exact hx

theorem parLoop_clean {proto : Item} (hp : itemOK proto = true) (hpl : proto.level = parLevel) (o : Ref) :
    ∀ (kids done : List Tree) (cur : Tree), cleanL done = true → clean cur = true → cur.it.level = parLevel →
      cleanL kids = true →
      cleanL (parLoop proto o done cur kids).1 = true ∧ cleanL (parLoop proto o done cur kids).2 = true
  | [], done, cur, hd, hc, _, _ => by
    simp only [parLoop]
    refine ⟨(cleanL_iff _).2 ?_, by simp [cleanL]⟩
    intro y hy
    rcases List.mem_append.1 hy with hy | hy
    · exact (cleanL_iff _).1 hd y hy
    · simp only [List.mem_singleton] at hy; subst hy; exact hc
  | x :: r, done, cur, hd, hc, hl, hk => by
    have hx : clean x = true := (cleanL_iff _).1 hk x (by simp)
    have hr : cleanL r = true := (cleanL_iff _).2 fun y hy => (cleanL_iff _).1 hk y (by simp [hy])
    have hdc : cleanL (done ++ [cur]) = true := (cleanL_iff _).2 fun y hy => by
      rcases List.mem_append.1 hy with hy | hy
      · exact (cleanL_iff _).1 hd y hy
      · simp only [List.mem_singleton] at hy; subst hy; exact hc
    unfold parLoop
    split
    · rename_i hlx
      exact parLoop_clean hp hpl o r _ x hdc hx (by simpa using hlx) hr
    · split
      · refine ⟨(cleanL_iff _).2 ?_, hr⟩
        intro y hy
        simp only [List.mem_append, List.mem_cons, List.mem_singleton, List.not_mem_nil, or_false] at hy
        rcases hy with hy | rfl | rfl
        · exact (cleanL_iff _).1 hd y hy
        · exact hc
        · exact hx
      · split
        · refine parLoop_clean hp hpl o r _ _ ?_ (mkPar_clean hp hpl _ _ _ _ _ (by simp [cleanL])) hpl hr
          rw [cleanL_iff]
          intro y hy
          simp only [List.mem_append, List.mem_cons, List.mem_singleton, List.not_mem_nil, or_false] at hy
          rcases hy with hy | rfl | rfl
          · exact (cleanL_iff _).1 hd y hy
          · exact hc
          · exact mkPar_clean hp hpl _ _ _ _ _ (by simp [cleanL, clean_setParent, hx])
        · exact parLoop_clean hp hpl o r done _ hd (clean_par_append hc hl hx) (by simpa using hl) hr

theorem keepPar_false_leaves {n : Tree} (hc : clean n = true) (hk : keepPar n = false) : leaves n = [] := by
  cases n with
  | node it p kids =>
    obtain ⟨hi, _, _, hck⟩ := (clean_node it p kids).1 hc
    simp only [keepPar, Tree.it, Tree.kids, Bool.not_eq_false', Bool.and_eq_true, beq_iff_eq] at hk
    obtain ⟨hl, hm⟩ := hk
    obtain ⟨ha, he, _, _⟩ := itemOK_par hi hl
    match kids, hm, hck with
    | [], _, _ => simp [leaves, own, he, ha, leavesL]
    | [k], hm, hck =>
      have : clean k = true := (cleanL_iff _).1 hck k (by simp)
      simp [leaves, own, he, ha, leavesL, clean_ws this hm]
    | _ :: _ :: _, hm, _ => cases hm

theorem leavesL_filter_keepPar : ∀ ts : List Tree, cleanL ts = true → leavesL (ts.filter keepPar) = leavesL ts
  | [], _ => rfl
  | t :: ts, h => by
    have ht : clean t = true := (cleanL_iff _).1 h t (by simp)
    have hts : cleanL ts = true := (cleanL_iff _).2 fun y hy => (cleanL_iff _).1 h y (by simp [hy])
    cases hk : keepPar t
    · simp [List.filter, hk, leavesL, keepPar_false_leaves ht hk, leavesL_filter_keepPar ts hts]
    · simp [List.filter, hk, leavesL, leavesL_filter_keepPar ts hts]

theorem leavesL_map_eq (g : Tree → Tree) : ∀ ts : List Tree, (∀ t ∈ ts, leaves (g t) = leaves t) →
    leavesL (ts.map g) = leavesL ts
  | [], _ => rfl
  | t :: ts, h => by
    simp [leavesL, h t (by simp), leavesL_map_eq g ts (fun y hy => h y (by simp [hy]))]

/-- the node `paragraphs` builds once the class `proto` of the new paragraphs is known -/
def parResult (it : Item) (p : Ref) (kids : List Tree) (proto : Item) : Tree :=
  .node it p ((((parLoop proto it.ref [] (mkPar proto it.ref it.ref 0 false []) kids).1.map fun n =>
      ((if n.it.level == parLevel then norm true n else n).setParent it.ref)) ++
    (parLoop proto it.ref [] (mkPar proto it.ref it.ref 0 false []) kids).2).filter keepPar)

theorem paragraphs_eq (force : Bool) (it : Item) (p : Ref) (kids : List Tree) :
    paragraphs force (.node it p kids) = norm true (.node it p kids) ∨
    paragraphs force (.node it p kids) =
      parResult it p kids (((kids.find? fun k => k.it.level == parLevel).map (·.it)).getD defaultPar) := by
  simp only [paragraphs]
  split
  · exact .inl rfl
  · exact .inr rfl

theorem proto_ok (kids : List Tree) (hck : cleanL kids = true) :
    itemOK (((kids.find? fun k => k.it.level == parLevel).map (·.it)).getD defaultPar) = true ∧
    (((kids.find? fun k => k.it.level == parLevel).map (·.it)).getD defaultPar).level = parLevel := by
  cases hf : kids.find? fun k => k.it.level == parLevel with
  | none => simpa using defaultPar_ok
  | some k =>
    have hm : k ∈ kids := List.mem_of_find?_eq_some hf
    have hp := List.find?_some hf
    have hk : clean k = true := (cleanL_iff _).1 hck k hm
    exact ⟨by simpa using ((clean_eq k).1 hk).1, by simpa using hp⟩

theorem parResult_ce (it : Item) (p : Ref) (kids : List Tree) (proto : Item)
    (hc : clean (.node it p kids) = true) (he : it.elem = true)
    (hp : itemOK proto = true) (hpl : proto.level = parLevel) :
    clean (parResult it p kids proto) = true ∧ leaves (parResult it p kids proto) = leaves (.node it p kids) := by
  obtain ⟨hi, _, hd, hck⟩ := (clean_node it p kids).1 hc
  obtain ⟨c1, c2⟩ := parLoop_clean hp hpl it.ref kids [] (mkPar proto it.ref it.ref 0 false [])
    (by simp [cleanL]) (mkPar_clean hp hpl _ _ _ _ _ (by simp [cleanL])) hpl hck
  have hl := parLoop_leaves proto it.ref kids [] (mkPar proto it.ref it.ref 0 false [])
  simp only [leavesL, leaves_mkPar, List.nil_append] at hl
  unfold parResult
  generalize parLoop proto it.ref [] (mkPar proto it.ref it.ref 0 false []) kids = r at c1 c2 hl ⊢
  have hins : cleanL (r.1.map fun n => ((if n.it.level == parLevel then norm true n else n).setParent it.ref)) = true := by
    rw [cleanL_iff]
    intro y hy
    obtain ⟨n, hn, rfl⟩ := List.mem_map.1 hy
    have hcn := (cleanL_iff _).1 c1 n hn
    rw [clean_setParent]
    split
    · exact (norm_ce true n hcn).1
    · exact hcn
  have hall : cleanL ((r.1.map fun n => ((if n.it.level == parLevel then norm true n else n).setParent it.ref)) ++ r.2) = true := by
    rw [cleanL_iff]
    intro y hy
    rcases List.mem_append.1 hy with hy | hy
    · exact (cleanL_iff _).1 hins y hy
    · exact (cleanL_iff _).1 c2 y hy
  have hleq : leavesL (((r.1.map fun n => ((if n.it.level == parLevel then norm true n else n).setParent it.ref)) ++ r.2).filter keepPar)
      = leavesL kids := by
    rw [leavesL_filter_keepPar _ hall, leavesL_append, ← hl]
    congr 1
    apply leavesL_map_eq
    intro n hn
    rw [leaves_setParent]
    split
    · exact (norm_ce true n ((cleanL_iff _).1 c1 n hn)).2
    · rfl
  constructor
  · refine (clean_node _ _ _).2 ⟨hi, .inl he, ?_, ?_⟩
    · intro hds; rw [hleq]; exact hd hds
    · rw [cleanL_iff]
      intro y hy
      exact (cleanL_iff _).1 hall y (List.mem_filter.1 hy).1
  · simp only [leaves, hleq]

/-- `paragraphs` on a clean element: the result is clean and reads exactly the same -/
theorem paragraphs_ce (force : Bool) (t : Tree) (hc : clean t = true) (he : t.it.elem = true) :
    clean (paragraphs force t) = true ∧ leaves (paragraphs force t) = leaves t := by
  cases t with
  | node it p kids =>
    rcases paragraphs_eq force it p kids with h | h
    · rw [h]; exact norm_ce true _ hc
    · rw [h]
      obtain ⟨hp, hpl⟩ := proto_ok kids ((clean_node it p kids).1 hc).2.2.2
      exact parResult_ce it p kids _ hc he hp hpl

theorem closed_clean : Closed (fun t => clean t = true) where
  sp := fun r t h => by rw [clean_setParent]; exact h
  app := fun t x hin ht hx => clean_append ht hin hx
  par := fun b t hin ht => (paragraphs_ce b t ht (notInert ((clean_eq t).1 ht).1 hin).1).1

end PlasVerif.Proofs.Digest
