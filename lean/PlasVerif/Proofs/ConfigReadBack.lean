import PlasVerif.Proofs.ConfigAcyclic
/-! The executable read-back oracle of the spec (`specReadBack`, with its own format-string parser) is met by the
model of `ConfigSection.__getitem__` wherever the oracle is defined. -/
namespace PlasVerif.Proofs.ConfigReadBack
open PlasVerif.Model.Config PlasVerif.Spec.Config PlasVerif.Proofs.ConfigInterp PlasVerif.Proofs.ConfigAcyclic

theorem takeWhile_no (c : Nat) : ∀ (l : Str), (l.takeWhile (· ≠ c)).contains c = false := by
  intro l
  induction l with
  | nil => rfl
  | cons x xs ih =>
    by_cases hx : x = c
    · simp [List.takeWhile, hx]
    · have hx' : (c == x) = false := by simp [Ne.symm hx]
      simp only [List.takeWhile, ne_eq, hx, not_false_eq_true, decide_true, List.contains_cons, hx', Bool.false_or]
      exact ih

/-- the spec's parser is sound: what it returns renders back to the string and is well-formed -/
theorem parseSegs_sound : ∀ (f : Nat) (s : Str) (segs : List Seg), parseSegs f s = some segs →
    render segs = s ∧ ∀ g ∈ segs, g.wf = true := by
  intro f
  induction f with
  | zero => intro s segs h; simp [parseSegs] at h
  | succ f ih =>
    intro s segs h
    unfold parseSegs at h
    split at h
    next => simp at h
    next => simp only [Option.some.injEq] at h; subst h; exact ⟨rfl, by simp⟩
    next f' r heq =>
      cases heq
      simp only [Functor.map, Option.map_eq_some_iff] at h
      obtain ⟨rest, hr, rfl⟩ := h
      obtain ⟨h1, h2⟩ := ih r rest hr
      refine ⟨by simp only [render, List.map_cons, Seg.render, List.flatten_cons] at h1 ⊢; rw [h1]; rfl, ?_⟩
      intro g hg
      rcases List.mem_cons.mp hg with rfl | hg
      · rfl
      · exact h2 g hg
    next f' r heq =>
      cases heq
      simp only [] at h
      split at h
      next r' hdw =>
        simp only [Functor.map, Option.map_eq_some_iff] at h
        obtain ⟨rest, hr, rfl⟩ := h
        obtain ⟨h1, h2⟩ := ih r' rest hr
        have hsplit : r = r.takeWhile (· ≠ 41) ++ 41 :: 115 :: r' := by
          conv => lhs; rw [← List.takeWhile_append_dropWhile (p := (· ≠ 41)) (l := r)]
          rw [hdw]
        refine ⟨?_, ?_⟩
        · simp only [render, List.map_cons, Seg.render, List.flatten_cons] at h1 ⊢
          rw [h1]
          conv => rhs; rw [hsplit]
          simp
        · intro g hg
          rcases List.mem_cons.mp hg with rfl | hg
          · simp only [Seg.wf, Bool.not_eq_true']; exact takeWhile_no 41 r
          · exact h2 g hg
      next => simp at h
    next => simp at h
    next f' c r _ _ _ heq =>
      cases heq
      simp only [Functor.map, Option.map_eq_some_iff] at h
      obtain ⟨rest, hr, rfl⟩ := h
      obtain ⟨h1, h2⟩ := ih _ rest hr
      refine ⟨?_, ?_⟩
      · simp only [render, List.map_cons, Seg.render, List.flatten_cons] at h1 ⊢
        rw [h1]
        exact List.takeWhile_append_dropWhile
      · intro g hg
        rcases List.mem_cons.mp hg with rfl | hg
        · simp only [Seg.wf, Bool.not_eq_true']; exact takeWhile_no 37 (c :: r)
        · exact h2 g hg

theorem segs_sound (lookS : Str → Option Str) (lookM : Str → Except Err Str)
    (hl : ∀ n x, lookS n = some x → lookM n = .ok x) : ∀ (segs : List Seg) (r : Str),
    segsDen lookS segs = some r → segsDenE lookM segs = .ok r := by
  intro segs
  induction segs with
  | nil => intro r h; simp [segsDen] at h; simp [segsDenE, h]
  | cons g rest ih =>
    intro r h
    cases g with
    | lit s =>
      simp only [segsDen, Functor.map, Option.map_eq_some_iff] at h
      obtain ⟨x, hx, rfl⟩ := h
      simp [segsDenE, ih x hx, Functor.map, Except.map]
    | pct =>
      simp only [segsDen, Functor.map, Option.map_eq_some_iff] at h
      obtain ⟨x, hx, rfl⟩ := h
      simp [segsDenE, ih x hx, Functor.map, Except.map]
    | ref n =>
      simp only [segsDen, bind, Option.bind] at h
      cases hv : lookS n with
      | none => simp [hv] at h
      | some v =>
        simp only [hv] at h
        cases hx : segsDen lookS rest with
        | none => simp [hx] at h
        | some x =>
          simp only [hx, pure, Option.some.injEq] at h
          subst h
          simp [segsDenE, hl n v hv, ih x hx, bind, Except.bind, pure, Except.pure]

theorem str_sound (lookS : Str → Option Str) (lookM : Str → Except Err Str)
    (hl : ∀ n x, lookS n = some x → lookM n = .ok x) (s r : Str) (segs : List Seg)
    (hp : parseSegs (s.length + 1) s = some segs) (h : segsDen lookS segs = some r) : interp lookM s = .ok r := by
  obtain ⟨hr, hwf⟩ := parseSegs_sound _ s segs hp
  rw [interp, ← hr, scan_render lookM segs hwf]
  exact segs_sound lookS lookM hl segs r h

theorem mapM_sound {α β} (gS : α → Option β) (gM : α → Except Err β) (hg : ∀ a b, gS a = some b → gM a = .ok b) :
    ∀ (xs : List α) (rs : List β), xs.mapM gS = some rs → xs.mapM gM = .ok rs := by
  intro xs
  induction xs with
  | nil => intro rs h; simp [pure] at h; simp [pure, Except.pure, h]
  | cons x r ih =>
    intro rs h
    simp only [List.mapM_cons, bind, Option.bind] at h
    cases hx : gS x with
    | none => simp [hx] at h
    | some b =>
      simp only [hx] at h
      cases hr : r.mapM gS with
      | none => simp [hr] at h
      | some bs =>
        simp only [hr, pure, Option.some.injEq] at h
        subst h
        simp [List.mapM_cons, hg x b hx, ih bs hr, bind, Except.bind, pure, Except.pure]

theorem lookup_head {T : Table} {name : Str} {j : Nat} (get : Nat → Except Err Val) (v : Val)
    (hn : named T name = some j) (hg : get j = .ok v) : lookupWith get (candidates T name) = .ok (valStr v) := by
  unfold named at hn
  cases hc : candidates T name with
  | nil => simp [hc] at hn
  | cons j' js =>
    simp only [hc, List.head?_cons, Option.some.injEq] at hn
    subst hn
    simp [lookupWith, hg, pure, Except.pure]

/-- wherever the spec's read-back oracle is defined, the model of `config[section][key]` returns that value -/
theorem specReadBack_sound (T : Table) (σ : Nat → Option Val) (st : St) (hσ : ∀ j x, σ j = some x → st j = x) :
    ∀ (f i : Nat) (v : Val), specReadBack T σ f i = some v → getItem T st f i = .ok v := by
  intro f
  induction f with
  | zero => intro i v h; simp [specReadBack] at h
  | succ f ih =>
    intro i v h
    have hl : ∀ n x, (do let j ← named T n; let w ← specReadBack T σ f j; pure (valStr w)) = some x →
        lookupWith (getItem T st f) (candidates T n) = .ok x := by
      intro n x hx
      simp only [bind, Option.bind] at hx
      cases hn : named T n with
      | none => simp [hn] at hx
      | some j =>
        simp only [hn] at hx
        cases hw : specReadBack T σ f j with
        | none => simp [hw] at hx
        | some w =>
          simp only [hw, pure, Option.some.injEq] at hx
          subst hx
          exact lookup_head _ w hn (ih j w hw)
    unfold specReadBack at h
    simp only [] at h
    cases hs : σ i with
    | none => simp [hs] at h
    | some x =>
      have hst := hσ i x hs
      simp only [hs] at h
      cases x with
      | atom a =>
        cases a with
        | str s =>
          simp only [Option.bind_eq_bind, Option.bind_eq_some_iff, pure, Option.some.injEq] at h
          obtain ⟨segs, hp, r, hr, rfl⟩ := h
          have := str_sound _ _ hl s r segs hp hr
          simp [getItem, hst, this, Functor.map, Except.map]
        | int n => simp only [Option.some.injEq] at h; subst h; simp [getItem, hst, pure, Except.pure]
        | flt m e => simp only [Option.some.injEq] at h; subst h; simp [getItem, hst, pure, Except.pure]
        | bool b => simp only [Option.some.injEq] at h; subst h; simp [getItem, hst, pure, Except.pure]
      | list xs =>
        simp only [Functor.map, Option.map_eq_some_iff] at h
        obtain ⟨rs, hrs, rfl⟩ := h
        have hm := mapM_sound _ (interp fun name => lookupWith (getItem T st f) (candidates T name))
          (fun s r hsr => by
            simp only [Option.bind_eq_bind, Option.bind_eq_some_iff] at hsr
            obtain ⟨segs, hp, hr⟩ := hsr
            exact str_sound _ _ hl s r segs hp hr) xs rs hrs
        cases xs with
        | nil =>
          simp [pure] at hrs
          subst hrs
          simp [getItem, hst, pure, Except.pure]
        | cons y ys => simp [getItem, hst, hm, Functor.map, Except.map]
      | dict kvs => simp only [Option.some.injEq] at h; subst h; simp [getItem, hst, pure, Except.pure]

end PlasVerif.Proofs.ConfigReadBack
