import PlasVerif.Proofs.DigestClean
/-!
No loss: on clean streams the reading is conserved exactly; and fuel adequacy.
-/
namespace PlasVerif.Proofs.Digest
open PlasVerif.Model.Digest PlasVerif.Spec.DocTree PlasVerif.Generated.Digest

theorem cleanL_cons {x : Tree} {r : List Tree} (h : cleanL (x :: r) = true) : clean x = true ∧ cleanL r = true := by
  simpa [cleanL] using h

theorem allP_clean {s : List Tree} : AllP (fun t => clean t = true) s ↔ cleanL s = true := (cleanL_iff s).symm

theorem drop_leaves {x : Tree} (hc : clean x = true) (hd : dropShape x.it = true) : leaves x = [] :=
  ((clean_eq x).1 hc).2.2.1 hd

theorem skipList_eq : ∀ s : List Tree, cleanL s = true → leavesL (skipList s) = leavesL s
  | [], _ => rfl
  | x :: r, h => by
    obtain ⟨hx, hr⟩ := cleanL_cons h
    unfold skipList
    split
    · rename_i hw; simp [leavesL, clean_ws hx hw, skipList_eq r hr]
    · split
      · rename_i hs
        have : dropShape x.it = true := by simp [dropShape, hs]
        simp [leavesL, drop_leaves hx this, skipList_eq r hr]
      · rfl

theorem skipWs_eq : ∀ s : List Tree, cleanL s = true → leavesL (skipWs s) = leavesL s
  | [], _ => rfl
  | x :: r, h => by
    obtain ⟨hx, hr⟩ := cleanL_cons h
    unfold skipWs
    split
    · rename_i hw; simp [leavesL, clean_ws hx hw, skipWs_eq r hr]
    · rfl

theorem pre_drop {k : LK} {t x : Tree} (h : pre k t x = .drop) : dropShape x.it = true := by
  cases k <;> simp only [pre] at h
  · split at h
    · cases h
    · split at h
      · cases h
      · split at h
        · rename_i hc
          simp only [Bool.and_eq_true] at hc
          simp [dropShape, hc.1.1, hc.1.2]
        · split at h <;> cases h
  · split at h <;> cases h
  · split at h
    · rename_i he
      split at h
      · cases h
      · split at h
        · rename_i hg; simp [dropShape, he, hg]
        · split at h <;> cases h
    · cases h
  · split at h <;> cases h

def DigestEq (f : Nat) : Prop :=
  ∀ t s t' s', clean t = true → cleanL s = true → digest f t s = some (t', s') → rd t' s' = rd t s
def LoopEq (f : Nat) : Prop :=
  ∀ k t dp s t' dp' s', inert t.it = false → clean t = true → cleanL s = true →
    loop f k t dp s = some (t', dp', s') → rd t' s' = rd t s

theorem digestIf_eq (f : Nat) (hd : DigestEq f) (x : Tree) (ref : Ref) (r : List Tree) (x' : Tree) (r' : List Tree)
    (hx : clean x = true) (hr : cleanL r = true) (h : digestIf f x ref r = some (x', r')) :
    leaves x' ++ leavesL r' = leaves x ++ leavesL r := by
  unfold digestIf at h
  by_cases he : x.it.elem
  · simp only [he, if_true] at h
    have := hd _ _ _ _ (by rw [clean_setParent]; exact hx) hr h
    simpa [rd] using this
  · simp only [he] at h; cases h; rfl

theorem digest_loop_eq : ∀ f, DigestEq f ∧ LoopEq f
  | 0 => ⟨fun _ _ _ _ _ _ h => by simp [digest] at h, fun _ _ _ _ _ _ _ _ _ _ h => by simp [loop] at h⟩
  | f + 1 => by
    obtain ⟨ihd, ihl⟩ := digest_loop_eq f
    obtain ⟨pd, pl⟩ := digest_loop_P closed_clean f
    constructor
    · intro t s t' s' ht hs h
      rcases digest_cases f t s t' s' h with ⟨rfl, rfl⟩ | ⟨hin, k, dp0, s0, t1, dp1, hs0, hl, ht'⟩
      · rfl
      · have hs0c : cleanL s0 = true ∧ leavesL s0 = leavesL s := by
          rcases hs0 with rfl | rfl | rfl
          · exact ⟨hs, rfl⟩
          · exact ⟨(cleanL_iff _).2 fun x hx => (cleanL_iff _).1 hs x (skipList_mem _ _ hx), skipList_eq s hs⟩
          · exact ⟨(cleanL_iff _).2 fun x hx => (cleanL_iff _).1 hs x (skipWs_mem _ _ hx), skipWs_eq s hs⟩
        have e1 := ihl _ _ _ _ _ _ _ hin ht hs0c.1 hl
        obtain ⟨c1, _⟩ := pl _ _ _ _ _ _ _ hin ht (allP_clean.2 hs0c.1) hl
        have hit : t1.it = t.it := loop_it _ _ _ _ _ _ _ _ hl
        have he1 : t1.it.elem = true := by rw [hit]; exact (notInert ((clean_eq t).1 ht).1 hin).1
        have : rd t1 s' = rd t s := by simpa [rd, hs0c.2] using e1
        rcases ht' with rfl | ⟨b, rfl⟩
        · exact this
        · simpa [rd, (paragraphs_ce b t1 c1 he1).2] using this
    · intro k t dp s t' dp' s' hin ht hs h
      cases s with
      | nil => unfold loop at h; cases h; rfl
      | cons x r =>
        obtain ⟨hx, hr⟩ := cleanL_cons hs
        rcases loop_cases f k t dp x r _ h with ⟨_, he⟩ | ⟨hp, he⟩ | ⟨_, hl⟩ | ⟨_, x', r', hd, hc⟩
        · cases he; rfl
        · cases he
          simp [rd, leavesL, drop_leaves hx (pre_drop hp)]
        · have := ihl _ _ _ _ _ _ _ (by simpa using hin) (clean_append ht hin hx) hr hl
          rwa [rd_cons] at this
        · have e := digestIf_eq f ihd x _ r x' r' hx hr hd
          obtain ⟨cx', cr'⟩ := digestIf_P closed_clean f pd x _ r x' r' hx (allP_clean.2 hr) hd
          rcases hc with ⟨_, he⟩ | ⟨_, hl⟩
          · cases he
            simp only [rd, leavesL, e]
          · have := ihl _ _ _ _ _ _ _ (by simpa using hin) (clean_append ht hin cx') (allP_clean.1 cr') hl
            rw [rd_cons] at this
            simp only [rd, leavesL] at this ⊢
            rw [this, e]

theorem top_eq : ∀ (f : Nat) (acc s out : List Tree), cleanL acc = true → cleanL s = true →
    top f acc s = some out → leavesL out = leavesL acc ++ leavesL s
  | 0, _, _, _, _, _, h => by simp [top] at h
  | f + 1, acc, [], out, _, _, h => by simp only [top] at h; cases h; simp [leavesL]
  | f + 1, acc, x :: r, out, ha, hs, h => by
    obtain ⟨hx, hr⟩ := cleanL_cons hs
    obtain ⟨x', r', hd, ht⟩ := top_cases f acc x r out h
    have e := digestIf_eq f (digest_loop_eq f).1 x _ r x' r' hx hr hd
    obtain ⟨cx', cr'⟩ := digestIf_P closed_clean f (digest_loop_P closed_clean f).1 x _ r x' r' hx (allP_clean.2 hr) hd
    have hacc : cleanL (acc ++ [x'.setParent .out]) = true := (cleanL_iff _).2 fun y hy => by
      rcases List.mem_append.1 hy with hy | hy
      · exact (cleanL_iff _).1 ha y hy
      · simp only [List.mem_singleton] at hy; subst hy; rw [clean_setParent]; exact cx'
    rw [top_eq f _ _ _ hacc (allP_clean.1 cr') ht]
    simp only [leavesL_append, leavesL, leaves_setParent, List.append_nil, List.append_assoc, e]

/-! ### fuel adequacy -/
theorem skipList_len : ∀ s : List Tree, (skipList s).length ≤ s.length
  | [] => by simp [skipList]
  | x :: r => by
    have := skipList_len r
    unfold skipList; split
    · simp; omega
    · split
      · simp; omega
      · simp

theorem skipWs_len : ∀ s : List Tree, (skipWs s).length ≤ s.length
  | [] => by simp [skipWs]
  | x :: r => by
    have := skipWs_len r
    unfold skipWs; split
    · simp; omega
    · simp

def DigestTot (f : Nat) : Prop :=
  ∀ t s, 2 * s.length + 2 ≤ f → ∃ t' s', digest f t s = some (t', s') ∧ s'.length ≤ s.length
def LoopTot (f : Nat) : Prop :=
  ∀ k t dp s, 2 * s.length + 1 ≤ f → ∃ t' dp' s', loop f k t dp s = some (t', dp', s') ∧ s'.length ≤ s.length

theorem digest_loop_tot : ∀ f, DigestTot f ∧ LoopTot f
  | 0 => ⟨fun _ _ h => by omega, fun _ _ _ _ h => by omega⟩
  | f + 1 => by
    obtain ⟨ihd, ihl⟩ := digest_loop_tot f
    constructor
    · intro t s hf
      have run : ∀ k dp0 s0, s0.length ≤ s.length → ∃ t1 dp1 s1, loop f k t dp0 s0 = some (t1, dp1, s1) ∧ s1.length ≤ s.length := by
        intro k dp0 s0 hle
        obtain ⟨t1, dp1, s1, h1, h2⟩ := ihl k t dp0 s0 (by omega)
        exact ⟨t1, dp1, s1, h1, by omega⟩
      unfold digest
      split
      · exact ⟨t, s, rfl, Nat.le_refl _⟩
      · split
        · exact ⟨t, s, rfl, Nat.le_refl _⟩
        · obtain ⟨t1, dp1, s1, h1, h2⟩ := run .env t.it.forcePars s (Nat.le_refl _)
          rw [h1]; exact ⟨_, _, rfl, h2⟩
      · split
        · exact ⟨t, s, rfl, Nat.le_refl _⟩
        · obtain ⟨t1, dp1, s1, h1, h2⟩ := run .env t.it.forcePars (skipList s) (skipList_len s)
          rw [h1]; exact ⟨_, _, rfl, h2⟩
      · obtain ⟨t1, dp1, s1, h1, h2⟩ := run .sec false s (Nat.le_refl _)
        rw [h1]; exact ⟨_, _, rfl, h2⟩
      · obtain ⟨t1, dp1, s1, h1, h2⟩ := run .bg false s (Nat.le_refl _)
        rw [h1]; exact ⟨_, _, rfl, h2⟩
      · obtain ⟨t1, dp1, s1, h1, h2⟩ := run .until false (skipWs s) (skipWs_len s)
        rw [h1]; exact ⟨_, _, rfl, h2⟩
    · intro k t dp s hf
      cases s with
      | nil => exact ⟨t, dp, [], by simp [loop], Nat.le_refl _⟩
      | cons x r =>
        simp only [List.length_cons] at hf
        have hdig : ∃ x' r', (if x.it.elem then digest f (x.setParent t.it.ref) r else some (x, r)) = some (x', r') ∧
            r'.length ≤ r.length := by
          by_cases he : x.it.elem
          · simp only [he, if_true]
            exact ihd _ r (by omega)
          · simp only [he]; exact ⟨x, r, rfl, Nat.le_refl _⟩
        unfold loop
        split
        · exact ⟨_, _, _, rfl, Nat.le_refl _⟩
        · exact ⟨_, _, _, rfl, by simp⟩
        · obtain ⟨t1, dp1, s1, h1, h2⟩ := ihl k (t.append x) true r (by omega)
          exact ⟨t1, dp1, s1, h1, by simp; omega⟩
        · obtain ⟨x', r', h1, h2⟩ := hdig
          rw [h1]
          simp only
          split
          · exact ⟨_, _, _, rfl, by simp; omega⟩
          · obtain ⟨t1, dp1, s1, h3, h4⟩ := ihl k (t.append x') dp r' (by omega)
            exact ⟨t1, dp1, s1, h3, by simp; omega⟩

theorem top_tot : ∀ (f : Nat) (acc s : List Tree), 2 * s.length + 3 ≤ f → ∃ out, top f acc s = some out
  | 0, _, _, h => by omega
  | f + 1, acc, [], _ => ⟨acc, by simp [top]⟩
  | f + 1, acc, x :: r, hf => by
    simp only [List.length_cons] at hf
    have hdig : ∃ x' r', (if x.it.elem then digest f (x.setParent .out) r else some (x, r)) = some (x', r') ∧
        r'.length ≤ r.length := by
      by_cases he : x.it.elem
      · simp only [he, if_true]
        exact (digest_loop_tot f).1 _ r (by omega)
      · simp only [he]; exact ⟨x, r, rfl, Nat.le_refl _⟩
    obtain ⟨x', r', h1, h2⟩ := hdig
    unfold top
    rw [h1]
    exact top_tot f _ r' (by omega)

end PlasVerif.Proofs.Digest
