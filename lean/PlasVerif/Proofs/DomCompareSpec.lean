import PlasVerif.Proofs.DomCompare
import PlasVerif.Proofs.DomSpec
/-! The Spec's executable `comparePos` (parents found by searching the child lists) against the parent chains. -/
namespace PlasVerif.Proofs.DomCompareSpec
open PlasVerif.Model.Dom PlasVerif.Proofs.Dom PlasVerif.Proofs.DomViews PlasVerif.Proofs.DomSpec
open PlasVerif.Proofs.DomCompare
open PlasVerif.Spec

theorem find?_unique {α} (q : α → Bool) : ∀ (l : List α) (p : α), p ∈ l → q p = true → (∀ x ∈ l, q x = true → x = p) →
    l.find? q = some p := by
  intro l
  induction l with
  | nil => intro p hp; cases hp
  | cons a l ih =>
    intro p hp hq hu
    by_cases ha : q a = true
    · have := hu a (by simp) ha
      subst this; simp [List.find?, ha]
    · have hpa : p ∈ l := by
        rcases List.mem_cons.mp hp with e | h
        · subst e; exact absurd hq ha
        · exact h
      simp only [List.find?, ha]
      exact ih p hpa hq (fun x hx hqx => hu x (by simp [hx]) hqx)

/-- a link of a parent chain that is a real list membership: the parent is an allocated non-fragment node listing the child -/
def Link (h : Heap) (n : Id) : Prop := ∀ q, h.parent n = some q → q < h.next ∧ h.kind q ≠ .frag ∧ n ∈ h.kids q

theorem parentOf_eq {h : Heap} (hinv : Inv h) (n : Id) (hl : Link h n) :
    DomTree.parentOf (toLL h) n = h.parent n := by
  unfold DomTree.parentOf
  cases hp : h.parent n with
  | none =>
    rw [List.find?_eq_none]
    intro q hq
    have hq' : q < h.next := List.mem_range.mp hq
    simp only [toLL_kind, toLL_kids, Bool.and_eq_true, bne_iff_ne, ne_eq, List.contains_iff_mem, not_and]
    intro hk
    have hk' : h.kind q ≠ .frag := fun e => hk (by simp [e, kindOf])
    intro hm
    have := hinv.1 q n hk' hm
    rw [hp] at this; cases this
  | some p =>
    obtain ⟨h1, h2, h3⟩ := hl p hp
    apply find?_unique
    · exact List.mem_range.mpr h1
    · have : kindOf (h.kind p) ≠ .frag := fun e => h2 ((kindOf_frag _).mp e)
      simp [this, h3]
    · intro q _ hq
      simp only [toLL_kind, toLL_kids, Bool.and_eq_true, bne_iff_ne, ne_eq, List.contains_iff_mem] at hq
      have hk' : h.kind q ≠ .frag := fun e => hq.1 (by simp [e, kindOf])
      have := hinv.1 q n hk' hq.2
      rw [hp] at this
      exact (Option.some.inj this).symm

theorem pathTo_eq {h : Heap} (hinv : Inv h) {a : Id} {la : List Id} (hc : UpChain h a la)
    (hl : ∀ n ∈ la, Link h n) : ∀ fuel : Nat, la.length ≤ fuel + 1 → DomTree.pathTo fuel (toLL h) a = la.reverse := by
  induction hc with
  | root a hp =>
    intro fuel _
    cases fuel with
    | zero => rfl
    | succ f => simp [DomTree.pathTo, parentOf_eq hinv a (hl a (by simp)), hp]
  | step a p l hp hc ih =>
    intro fuel hf
    have hlen : 0 < l.length := List.length_pos_iff.mpr hc.last_root
    obtain ⟨f, rfl⟩ : ∃ f, fuel = f + 1 := ⟨fuel - 1, by simp at hf; omega⟩
    simp only [DomTree.pathTo, parentOf_eq hinv a (hl a (by simp)), hp]
    rw [ih (fun n hn => hl n (by simp [hn])) f (by simp at hf; omega)]
    simp

theorem go_part (m : DomTree.LL) (p x y : Id) (A B : List Id) (hxy : x ≠ y) : ∀ (P : List Id) (q : Id),
    DomTree.comparePos.go m (P ++ p :: x :: A) (P ++ p :: y :: B) q =
      if (m.kids p).idxOf x < (m.kids p).idxOf y then 4 else 2 := by
  intro P
  induction P with
  | nil => intro q; simp [DomTree.comparePos.go, hxy]
  | cons c P ih => intro q; simp only [List.cons_append, DomTree.comparePos.go, if_true]; exact ih c

theorem not_prefix_part (P : List Id) (p x y : Id) (A B : List Id) (hxy : x ≠ y) :
    ¬ (P ++ p :: x :: A) <+: (P ++ p :: y :: B) := by
  intro hpre
  rw [List.prefix_append_right_inj, List.cons_prefix_cons, List.cons_prefix_cons] at hpre
  exact hxy hpre.2.1

theorem head?_append_ne {l t : List Id} (hne : l ≠ []) : (l ++ t).head? = l.head? := by
  cases l with
  | nil => exact absurd rfl hne
  | cons a l => rfl

theorem UpChain_split {h : Heap} {a : Id} {l : List Id} (hc : UpChain h a l) {u : Id} (hu : u ∈ l) :
    ∃ U l', l = U ++ l' ∧ UpChain h u l' := by
  induction hc with
  | root a hp =>
    simp only [List.mem_singleton] at hu; subst hu
    exact ⟨[], [u], rfl, .root u hp⟩
  | step a p l hp hl ih =>
    rcases List.mem_cons.mp hu with e | hm
    · subst e; exact ⟨[], u :: l, rfl, .step u p l hp hl⟩
    · obtain ⟨U, l', h1, h2⟩ := ih hm
      exact ⟨a :: U, l', by simp [h1], h2⟩

theorem getLast?_append_ne {U l : List Id} (hne : l ≠ []) : (U ++ l).getLast? = l.getLast? := by
  rw [← List.head?_reverse, ← List.head?_reverse, List.reverse_append]
  exact head?_append_ne (by simpa using hne)

theorem outer_disjoint (h : Heap) (sp op : List Id) : ∀ (rest : List Id) (i : Nat), (∀ x ∈ rest, x ∉ op) →
    cmpLoop.outer h sp op i rest = 1 := by
  intro rest
  induction rest with
  | nil => intro i _; rw [cmpLoop.outer]
  | cons x xs ih =>
    intro i hx
    rw [outer_cons, inner_absent h sp op i x op 0 (hx x (by simp))]
    exact ih (i + 1) (fun y hy => hx y (by simp [hy]))

theorem sibling_some {h : Heap} {a b : Id} (hs : prevSibling h a = some b ∨ nextSibling h a = some b) :
    ∃ p, h.parent a = some p ∧ b ∈ childList h p := by
  rcases hs with hs | hs
  · unfold prevSibling at hs
    cases hp : h.parent a with
    | none => simp [hp] at hs
    | some p =>
      simp only [hp] at hs
      refine ⟨p, rfl, ?_⟩
      split at hs
      · split at hs
        · cases hs
        · exact List.mem_of_getElem? hs
      · cases hs
  · unfold nextSibling at hs
    cases hp : h.parent a with
    | none => simp [hp] at hs
    | some p =>
      simp only [hp] at hs
      refine ⟨p, rfl, ?_⟩
      split at hs
      · exact List.mem_of_getElem? hs
      · cases hs

theorem UpChain_getLast_tail {h : Heap} {a p : Id} {l : List Id} (hl : UpChain h p l) :
    (a :: l).getLast? = l.getLast? := by
  obtain ⟨t, ht⟩ := hl.head
  rw [ht]; simp [List.getLast?_cons_cons]

theorem comparePos_part (h : Heap) (a b : Id) (P : List Id) (p x : Id) (A : List Id) (y : Id) (B : List Id) (hane : a ≠ b)
    (pa : DomTree.pathTo h.next (toLL h) a = P ++ p :: x :: A) (pb : DomTree.pathTo h.next (toLL h) b = P ++ p :: y :: B)
    (hxy : x ≠ y) :
    DomTree.comparePos (toLL h) a b = if (h.kids p).idxOf x < (h.kids p).idxOf y then 4 else 2 := by
  have hh : (P ++ p :: x :: A).head? = (P ++ p :: y :: B).head? := by cases P <;> simp
  have n1 : (P ++ p :: y :: B).isPrefixOf (P ++ p :: x :: A) = false := by
    rw [Bool.eq_false_iff]; intro hpre
    exact not_prefix_part P p y x B A (Ne.symm hxy) (List.isPrefixOf_iff_prefix.mp hpre)
  have n2 : (P ++ p :: x :: A).isPrefixOf (P ++ p :: y :: B) = false := by
    rw [Bool.eq_false_iff]; intro hpre
    exact not_prefix_part P p x y A B hxy (List.isPrefixOf_iff_prefix.mp hpre)
  unfold DomTree.comparePos
  simp only [hane, if_false]
  show (if (DomTree.pathTo (toLL h).next (toLL h) a).head? ≠ (DomTree.pathTo (toLL h).next (toLL h) b).head? then 1
    else if (DomTree.pathTo (toLL h).next (toLL h) b).isPrefixOf (DomTree.pathTo (toLL h).next (toLL h) a) then 8
    else if (DomTree.pathTo (toLL h).next (toLL h) a).isPrefixOf (DomTree.pathTo (toLL h).next (toLL h) b) then 16
    else DomTree.comparePos.go (toLL h) (DomTree.pathTo (toLL h).next (toLL h) a) (DomTree.pathTo (toLL h).next (toLL h) b) a) = _
  have hnx : (toLL h).next = h.next := rfl
  rw [hnx, pa, pb]
  simp only [hh, ne_eq, not_true_eq_false, if_false, n1, n2, Bool.false_eq_true]
  rw [go_part (toLL h) p x y A B hxy P a]
  rfl

end PlasVerif.Proofs.DomCompareSpec
