import PlasVerif.Proofs.MathSource
/-!
Helper lemmas for C11 (MathJax payload): `mathjax_lt_gt` applied to the reconstructed source of a formula is the
reconstructed source of the formula in which every ordinary `<` / `>` is spelled `\lt` / `\gt` (`Spec.ltgtF`).
-/
namespace PlasVerif.Proofs.MathJax
open PlasVerif.Model.Catcodes PlasVerif.Model.Tokenizer PlasVerif.Generated.Catcodes
open PlasVerif.Model.MathSource PlasVerif.Model.MathParse PlasVerif.Spec.MathFormula
open PlasVerif.Proofs.MathSource

/-- the per-character form of `mathjax_lt_gt` -/
def A (s : List Nat) : List Nat := s.flatMap angle

theorem A_nil : A [] = [] := rfl
theorem A_cons (c : Nat) (s : List Nat) : A (c :: s) = angle c ++ A s := by simp [A]
theorem A_append (a b : List Nat) : A (a ++ b) = A a ++ A b := by simp [A]

theorem angle_ne {c : Nat} (h60 : c ≠ 60) (h62 : c ≠ 62) : angle c = [c] := by simp [angle, h60, h62]

theorem A_id (s : List Nat) (h : ∀ c ∈ s, c ≠ 60 ∧ c ≠ 62) : A s = s := by
  induction s with
  | nil => rfl
  | cons c s ih =>
    rw [A_cons, angle_ne (h c (by simp)).1 (h c (by simp)).2, ih (fun x hx => h x (by simp [hx]))]; rfl

theorem letters_noangle : ∀ c ∈ asciiLetters, c ≠ 60 ∧ c ≠ 62 := by decide +kernel
theorem csym_noangle : ∀ c ∈ csymChars, c ≠ 60 ∧ c ≠ 62 := by decide +kernel

theorem A_name {n : List Nat} (hn : isName n = true) : A n = n := by
  apply A_id
  intro c hc
  simp only [isName, Bool.and_eq_true, List.all_eq_true] at hn
  have := hn.2 c hc
  exact letters_noangle c (by simpa [PlasVerif.Spec.MathFormula.isLetter] using this)

theorem isLetter_angle_head (c : Nat) (r : List Nat) :
    ∃ d t, angle c ++ A r = d :: t ∧ mIsLetter d = mIsLetter c := by
  by_cases h60 : c = 60
  · subst h60; exact ⟨92, _, rfl, by decide⟩
  · by_cases h62 : c = 62
    · subst h62; exact ⟨92, _, rfl, by decide⟩
    · exact ⟨c, A r, by rw [angle_ne h60 h62]; rfl, rfl⟩

def cond (n : List Nat) (c : Nat) : Bool :=
  PlasVerif.Model.MathSource.isLetter c && !(match n with | [x] => !PlasVerif.Model.MathSource.isLetter x | _ => false)

theorem fixArg_cons (n : List Nat) (c : Nat) (r : List Nat) :
    fixArg n (c :: r) = if cond n c then 32 :: c :: r else c :: r := rfl

/-- the blank `Macro.source` inserts depends only on whether the argument source starts with a letter, which
    `mathjax_lt_gt` does not change -/
theorem A_fixArg (n a : List Nat) : A (fixArg n a) = fixArg n (A a) := by
  cases a with
  | nil => rfl
  | cons c r =>
    obtain ⟨d, t, hdt, hl⟩ := isLetter_angle_head c r
    have hc : cond n d = cond n c := by
      have hl' : PlasVerif.Model.MathSource.isLetter d = PlasVerif.Model.MathSource.isLetter c := hl
      simp [cond, hl']
    rw [fixArg_cons, A_cons c r, hdt, fixArg_cons, hc]
    by_cases h : cond n c = true
    · simp only [h, if_true]
      rw [A_cons 32, A_cons c r, hdt]; rfl
    · simp only [h, Bool.false_eq_true, if_false]
      rw [A_cons c r, hdt]

theorem ltgtF_ch (c : Nat) (r : F) :
    (c = 60 ∧ ltgtF (.ch c r) = .sym strLtName (ltgtF r)) ∨ (c = 62 ∧ ltgtF (.ch c r) = .sym strGtName (ltgtF r)) ∨
      (c ≠ 60 ∧ c ≠ 62 ∧ ltgtF (.ch c r) = .ch c (ltgtF r)) := by
  by_cases h60 : c = 60
  · left; exact ⟨h60, by simp [ltgtF, h60]⟩
  · by_cases h62 : c = 62
    · right; left; exact ⟨h62, by simp [ltgtF, h62]⟩
    · right; right; exact ⟨h60, h62, by simp [ltgtF, h60, h62]⟩

theorem ltgtF_isNil (f : F) : (ltgtF f).isNil = f.isNil := by
  cases f with
  | ch c r => rcases ltgtF_ch c r with ⟨_, h⟩ | ⟨_, h⟩ | ⟨_, _, h⟩ <;> rw [h] <;> rfl
  | _ => rfl

theorem isSingle_eq (f : F) : isSingle f = match f with
    | .ch _ r => r.isNil | .sym _ r => r.isNil | .csym _ r => r.isNil | _ => false := by
  cases f with
  | ch c r => cases r <;> rfl
  | sym n r => cases r <;> rfl
  | csym c r => cases r <;> rfl
  | _ => rfl

theorem isSingle_ltgtF (f : F) : isSingle (ltgtF f) = isSingle f := by
  cases f with
  | ch c r =>
    rcases ltgtF_ch c r with ⟨_, h⟩ | ⟨_, h⟩ | ⟨_, _, h⟩ <;> rw [h, isSingle_eq, isSingle_eq (.ch c r)] <;> simp [ltgtF_isNil]
  | sym n r => rw [isSingle_eq, isSingle_eq (.sym n r)]; simp [ltgtF, ltgtF_isNil]
  | csym c r => rw [isSingle_eq, isSingle_eq (.csym c r)]; simp [ltgtF, ltgtF_isNil]
  | _ => rfl

theorem WF_ltgtF (f : F) (hw : WF f = true) : WF (ltgtF f) = true := by
  induction f with
  | nil => rfl
  | ch c r ih =>
    simp only [WF, Bool.and_eq_true] at hw
    rcases ltgtF_ch c r with ⟨_, h⟩ | ⟨_, h⟩ | ⟨_, _, h⟩ <;> rw [h]
    · simp only [WF, Bool.and_eq_true]; exact ⟨by decide, ih hw.2⟩
    · simp only [WF, Bool.and_eq_true]; exact ⟨by decide, ih hw.2⟩
    · simp only [WF, Bool.and_eq_true]; exact ⟨hw.1, ih hw.2⟩
  | sp r ih => simpa [WF, ltgtF] using ih (by simpa [WF] using hw)
  | sym n r ih => simp only [WF, ltgtF, Bool.and_eq_true] at hw ⊢; exact ⟨hw.1, ih hw.2⟩
  | csym c r ih => simp only [WF, ltgtF, Bool.and_eq_true] at hw ⊢; exact ⟨hw.1, ih hw.2⟩
  | grp b r ihb ihr => simp only [WF, ltgtF, Bool.and_eq_true] at hw ⊢; exact ⟨ihb hw.1, ihr hw.2⟩
  | sup br a r iha ihr =>
    simp only [WF, ltgtF, Bool.and_eq_true, isSingle_ltgtF] at hw ⊢; exact ⟨⟨iha hw.1.1, hw.1.2⟩, ihr hw.2⟩
  | sub br a r iha ihr =>
    simp only [WF, ltgtF, Bool.and_eq_true, isSingle_ltgtF] at hw ⊢; exact ⟨⟨iha hw.1.1, hw.1.2⟩, ihr hw.2⟩
  | cmd1 n br a r iha ihr =>
    simp only [WF, ltgtF, Bool.and_eq_true, isSingle_ltgtF] at hw ⊢; exact ⟨⟨⟨hw.1.1.1, iha hw.1.1.2⟩, hw.1.2⟩, ihr hw.2⟩
  | cmd2 n b1 a1 b2 a2 r ih1 ih2 ihr =>
    simp only [WF, ltgtF, Bool.and_eq_true, isSingle_ltgtF] at hw ⊢
    exact ⟨⟨⟨⟨⟨hw.1.1.1.1.1, ih1 hw.1.1.1.1.2⟩, hw.1.1.1.2⟩, ih2 hw.1.1.2⟩, hw.1.2⟩, ihr hw.2⟩
  | root o br a r iho iha ihr =>
    simp only [WF, ltgtF, Bool.and_eq_true, isSingle_ltgtF] at hw ⊢; exact ⟨⟨⟨iho hw.1.1.1, iha hw.1.1.2⟩, hw.1.2⟩, ihr hw.2⟩
  | math b r ihb ihr =>
    simp only [WF, ltgtF, Bool.and_eq_true, ltgtF_isNil] at hw ⊢; exact ⟨⟨ihb hw.1.1, hw.1.2⟩, ihr hw.2⟩
  | arr spec b r ihb ihr =>
    simp only [WF, ltgtF, Bool.and_eq_true, ltgtF_isNil] at hw ⊢; exact ⟨⟨⟨hw.1.1.1, ihb hw.1.1.2⟩, hw.1.2⟩, ihr hw.2⟩
  | amp r ih => simpa [WF, ltgtF] using ih (by simpa [WF] using hw)

theorem a32 : angle 32 = [32] := by decide
theorem a36 : angle 36 = [36] := by decide
theorem a38 : angle 38 = [38] := by decide
theorem a91 : angle 91 = [91] := by decide
theorem a92 : angle 92 = [92] := by decide
theorem a93 : angle 93 = [93] := by decide
theorem a94 : angle 94 = [94] := by decide
theorem a95 : angle 95 = [95] := by decide
theorem a123 : angle 123 = [123] := by decide
theorem a125 : angle 125 = [125] := by decide
theorem A_begin : A PlasVerif.Model.MathSource.strBegin = PlasVerif.Model.MathSource.strBegin := by decide
theorem A_end : A PlasVerif.Model.MathSource.strEnd = PlasVerif.Model.MathSource.strEnd := by decide
theorem A_array : A strArray = strArray := by decide
theorem A_sqrt : A strSqrt = strSqrt := by decide

theorem argSource_ltgt {a : F} (br : Bool) (ih : src (mathTree (ltgtF a)) = A (src (mathTree a))) :
    argSource br (mathTree (ltgtF a)) = A (argSource br (mathTree a)) := by
  cases br <;> simp [argSource, ih, A_cons, A_append, a123, a125, A_nil]

/-- `mathjax_lt_gt (source f) = source (f with < > spelled \lt \gt)`, as strings -/
theorem src_ltgtF (f : F) (hw : WF f = true) (hs : specsNoAngle f = true) :
    src (mathTree (ltgtF f)) = A (src (mathTree f)) := by
  induction f with
  | nil => rfl
  | ch c r ih =>
    simp only [WF, specsNoAngle, Bool.and_eq_true] at hw hs
    have ihr := ih hw.2 hs
    rcases ltgtF_ch c r with ⟨hc, h⟩ | ⟨hc, h⟩ | ⟨h60, h62, h⟩
    · rw [h]; subst hc
      simp [mathTree, src, fixArg, ihr, A_cons, strLtName, angle]
    · rw [h]; subst hc
      simp [mathTree, src, fixArg, ihr, A_cons, strGtName, angle]
    · rw [h]; simp [mathTree, src, ihr, A_cons, angle_ne h60 h62]
  | sp r ih =>
    simp only [WF, specsNoAngle] at hw hs
    simp [mathTree, src, ltgtF, ih hw hs, A_cons, a32]
  | sym n r ih =>
    simp only [WF, specsNoAngle, Bool.and_eq_true] at hw hs
    simp [mathTree, src, ltgtF, ih hw.2 hs, A_cons, A_append, a92, a32, A_name hw.1, fixArg, A_nil]
  | csym c r ih =>
    simp only [WF, specsNoAngle, Bool.and_eq_true, List.contains_eq_mem, decide_eq_true_eq] at hw hs
    have hc := csym_noangle c hw.1
    simp [mathTree, src, ltgtF, ih hw.2 hs, A_cons, A_append, a92, a32, angle_ne hc.1 hc.2, fixArg, A_nil]
  | grp b r ihb ihr =>
    simp only [WF, specsNoAngle, Bool.and_eq_true] at hw hs
    simp [mathTree, src, ltgtF, ihb hw.1 hs.1, ihr hw.2 hs.2, A_cons, A_append, a123, a125, A_nil]
  | sup br a r iha ihr =>
    simp only [WF, specsNoAngle, Bool.and_eq_true] at hw hs
    simp [mathTree, src, ltgtF, argSource_ltgt br (iha hw.1.1 hs.1), ihr hw.2 hs.2, A_cons, A_append, a94, A_fixArg]
  | sub br a r iha ihr =>
    simp only [WF, specsNoAngle, Bool.and_eq_true] at hw hs
    simp [mathTree, src, ltgtF, argSource_ltgt br (iha hw.1.1 hs.1), ihr hw.2 hs.2, A_cons, A_append, a95, A_fixArg]
  | cmd1 n br a r iha ihr =>
    simp only [WF, specsNoAngle, Bool.and_eq_true] at hw hs
    simp [mathTree, src, ltgtF, argSource_ltgt br (iha hw.1.1.2 hs.1), ihr hw.2 hs.2, A_cons, A_append, a92, A_fixArg,
      A_name hw.1.1.1, A_nil]
  | cmd2 n b1 a1 b2 a2 r ih1 ih2 ihr =>
    simp only [WF, specsNoAngle, Bool.and_eq_true] at hw hs
    simp [mathTree, src, ltgtF, argSource_ltgt b1 (ih1 hw.1.1.1.1.2 hs.1.1), argSource_ltgt b2 (ih2 hw.1.1.2 hs.1.2),
      ihr hw.2 hs.2, A_cons, A_append, a92, A_fixArg, A_name hw.1.1.1.1.1, A_nil]
  | root o br a r iho iha ihr =>
    simp only [WF, specsNoAngle, Bool.and_eq_true] at hw hs
    simp [mathTree, src, ltgtF, optSource, iho hw.1.1.1 hs.1.1, argSource_ltgt br (iha hw.1.1.2 hs.1.2), ihr hw.2 hs.2,
      A_cons, A_append, a92, a91, a93, A_fixArg, A_sqrt, A_nil]
  | math b r ihb ihr =>
    simp only [WF, specsNoAngle, Bool.and_eq_true, Bool.not_eq_true'] at hw hs
    simp [mathTree, src, ltgtF, mathTree_isNil, ltgtF_isNil, hw.1.2, ihb hw.1.1 hs.1, ihr hw.2 hs.2, A_cons, A_append, a36, A_nil]
  | arr spec b r ihb ihr =>
    simp only [WF, specsNoAngle, Bool.and_eq_true, Bool.not_eq_true'] at hw hs
    have hspec : A spec = spec := A_id spec (fun c hc => by
      have := List.all_eq_true.mp hs.1.1 c hc; simpa using this)
    simp [mathTree, src, ltgtF, mathTree_isNil, ltgtF_isNil, hw.1.2, ihb hw.1.1.2 hs.1.2, ihr hw.2 hs.2, A_cons, A_append,
      a92, a123, a125, A_begin, A_end, A_array, hspec, A_nil]
  | amp r ih =>
    simp only [WF, specsNoAngle] at hw hs
    simp [mathTree, src, ltgtF, ih hw hs, A_cons, A_append, a38, a32, fixArg, A_nil]

theorem angleTok_chTok {c : Nat} (h60 : c ≠ 60) (h62 : c ≠ 62) : angleTok (chTok c) = chTok c := by
  simp [angleTok, chTok, h60, h62]

theorem map_angleTok_chars (s : List Nat) (h : ∀ c ∈ s, c ≠ 60 ∧ c ≠ 62) : (s.map chTok).map angleTok = s.map chTok := by
  induction s with
  | nil => rfl
  | cons c s ih =>
    simp only [List.map_cons, angleTok_chTok (h c (by simp)).1 (h c (by simp)).2, ih (fun x hx => h x (by simp [hx]))]

theorem wrapT_map (br : Bool) (t : List Tok) : (wrapT br t).map angleTok = wrapT br (t.map angleTok) := by
  cases br <;> simp [wrapT, tLB, tRB, angleTok]

/-- on tokens: `ltgtF` spells exactly the angle tokens differently -/
theorem toks_ltgtF (f : F) (hs : specsNoAngle f = true) : toks (ltgtF f) = (toks f).map angleTok := by
  induction f with
  | nil => rfl
  | ch c r ih =>
    simp only [specsNoAngle] at hs
    rcases ltgtF_ch c r with ⟨hc, h⟩ | ⟨hc, h⟩ | ⟨h60, h62, h⟩
    · rw [h]; subst hc; simp [toks, ih hs, angleTok, chTok]
    · rw [h]; subst hc; simp [toks, ih hs, angleTok, chTok]
    · rw [h]; simp [toks, ih hs, angleTok_chTok h60 h62]
  | sp r ih => simp only [specsNoAngle] at hs; simp [toks, ltgtF, ih hs]
  | sym n r ih => simp only [specsNoAngle] at hs; simp [toks, ltgtF, ih hs, angleTok]
  | csym c r ih => simp only [specsNoAngle] at hs; simp [toks, ltgtF, ih hs, angleTok]
  | grp b r ihb ihr =>
    simp only [specsNoAngle, Bool.and_eq_true] at hs; simp [toks, ltgtF, ihb hs.1, ihr hs.2, angleTok, tLB, tRB]
  | sup br a r iha ihr =>
    simp only [specsNoAngle, Bool.and_eq_true] at hs; simp [toks, ltgtF, iha hs.1, ihr hs.2, angleTok, wrapT_map]
  | sub br a r iha ihr =>
    simp only [specsNoAngle, Bool.and_eq_true] at hs; simp [toks, ltgtF, iha hs.1, ihr hs.2, angleTok, wrapT_map]
  | cmd1 n br a r iha ihr =>
    simp only [specsNoAngle, Bool.and_eq_true] at hs; simp [toks, ltgtF, iha hs.1, ihr hs.2, angleTok, wrapT_map]
  | cmd2 n b1 a1 b2 a2 r ih1 ih2 ihr =>
    simp only [specsNoAngle, Bool.and_eq_true] at hs
    simp [toks, ltgtF, ih1 hs.1.1, ih2 hs.1.2, ihr hs.2, angleTok, wrapT_map]
  | root o br a r iho iha ihr =>
    simp only [specsNoAngle, Bool.and_eq_true] at hs
    simp [toks, ltgtF, iho hs.1.1, iha hs.1.2, ihr hs.2, angleTok, wrapT_map, chTok]
  | math b r ihb ihr =>
    simp only [specsNoAngle, Bool.and_eq_true] at hs; simp [toks, ltgtF, ihb hs.1, ihr hs.2, angleTok]
  | arr spec b r ihb ihr =>
    simp only [specsNoAngle, Bool.and_eq_true] at hs
    have hspec : (spec.map chTok).map angleTok = spec.map chTok := map_angleTok_chars spec (fun c hc => by
      have := List.all_eq_true.mp hs.1.1 c hc; simpa using this)
    have harr : (strArray.map chTok).map angleTok = strArray.map chTok := by decide
    simp only [toks, ltgtF, ihb hs.1.2, ihr hs.2, List.map_append, List.map_cons, hspec, harr, List.map_nil]
    simp [angleTok, tLB, tRB]
  | amp r ih => simp only [specsNoAngle] at hs; simp [toks, ltgtF, ih hs, angleTok]

end PlasVerif.Proofs.MathJax
