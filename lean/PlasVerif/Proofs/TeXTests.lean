import PlasVerif.Spec.TeXTests
/-! Helper lemmas for C03: the sign accumulation of `readInteger`/`readDimen` against TeX's sign-parity rule. -/
namespace PlasVerif.Proofs.TeXTests
open PlasVerif.Model.Tests PlasVerif.Spec.TeXTests

theorem valS_eq (s : St) (o : Operand) : ∀ sg : Int,
    o.valS s sg = if minusCount o % 2 = 0 then sg * unsignedValue s o else -(sg * unsignedValue s o) := by
  induction o with
  | neg o ih =>
    intro sg
    simp only [Operand.valS, minusCount, unsignedValue, ih (-sg)]
    by_cases h : minusCount o % 2 = 0
    · have h2 : ¬ (minusCount o + 1) % 2 = 0 := by omega
      simp [h, h2, Int.neg_mul]
    · have h2 : (minusCount o + 1) % 2 = 0 := by omega
      simp [h, h2, Int.neg_mul]
  | lit n => intro sg; simp [Operand.valS, minusCount, unsignedValue]
  | cnt c => intro sg; simp [Operand.valS, minusCount, unsignedValue]
  | mac n => intro sg; simp [Operand.valS, minusCount, unsignedValue]
  | reg r => intro sg; simp [Operand.valS, minusCount, unsignedValue]

theorem dvalS_eq (s : St) (o : DOperand) : ∀ sg : Int,
    o.valS s sg = if dMinusCount o % 2 = 0 then sg * dUnsignedValue s o else -(sg * dUnsignedValue s o) := by
  induction o with
  | neg o ih =>
    intro sg
    simp only [DOperand.valS, dMinusCount, dUnsignedValue, ih (-sg)]
    by_cases h : dMinusCount o % 2 = 0
    · have h2 : ¬ (dMinusCount o + 1) % 2 = 0 := by omega
      simp [h, h2, Int.neg_mul]
    · have h2 : (dMinusCount o + 1) % 2 = 0 := by omega
      simp [h, h2, Int.neg_mul]
  | lit n => intro sg; simp [DOperand.valS, dMinusCount, dUnsignedValue]
  | reg r => intro sg; simp [DOperand.valS, dMinusCount, dUnsignedValue]
  | coef k r => intro sg; simp [DOperand.valS, dMinusCount, dUnsignedValue, Int.mul_assoc]

theorem rat_mul_eq_iff (q a b : Rat) (hq : 0 < q) : q * a = q * b ↔ a = b := by
  constructor
  · intro h
    have h1 : ¬ a < b := fun hl => by have := (Rat.mul_lt_mul_left hq).2 hl; rw [h] at this; exact Rat.lt_irrefl this
    have h2 : ¬ b < a := fun hl => by have := (Rat.mul_lt_mul_left hq).2 hl; rw [h] at this; exact Rat.lt_irrefl this
    exact Rat.le_antisymm (Rat.not_lt.1 h2) (Rat.not_lt.1 h1)
  · intro h; rw [h]

theorem relVerdict_scale (c : Nat) (q a b : Rat) (hq : 0 < q) : relVerdict c (q * a) (q * b) = relVerdict c a b := by
  simp only [relVerdict, Rat.mul_lt_mul_left hq, rat_mul_eq_iff q a b hq]

end PlasVerif.Proofs.TeXTests
