import PlasVerif.Proofs.GlobalState
/-! Helper lemmas for C17, second part: two runs from class-level states that differ only in register values of
`R` and in membership of the column types of `C` stay in step and produce the same output, as long as the
document reads none of them; and what a document can change of the registers / column types at all. -/
namespace PlasVerif.Proofs.GlobalState
open PlasVerif.Model.GlobalState PlasVerif.Spec.Isolation PlasVerif.Generated.GlobalState

attribute [local simp] onG balancedArg enable disable pushCtx popCtx

/-- class-level states equal except for the registers of `R` and the column types of `C` -/
def Sim (R C : List Nat) (g g' : G) : Prop :=
  g.enabled = g'.enabled ∧ g.level = g'.level ∧ g.disBegin = g'.disBegin ∧ g.disEnd = g'.disEnd ∧
  g.inEnv = g'.inEnv ∧ g.depth = g'.depth ∧ g.idxSec = g'.idxSec ∧ g.regs.length = g'.regs.length ∧
  (∀ r, r ∉ R → g.regs.getD r 0 = g'.regs.getD r 0) ∧ (∀ n, n ∉ C → (n ∈ g.cols ↔ n ∈ g'.cols))

theorem getD_set (l : List Int) (r i : Nat) (x : Int) :
    (l.set r x).getD i 0 = if r = i ∧ r < l.length then x else l.getD i 0 := by
  simp only [List.getD_eq_getElem?_getD, List.getElem?_set]
  by_cases h : r = i
  · subst h
    by_cases h2 : r < l.length
    · simp [h2]
    · simp [h2]
  · simp [h]

theorem setRegs_false (v : Variant) (h : v.regsDoc = false) (s : S) (x : List Int) :
    setRegs v s x = ({ s.1 with regs := x }, s.2) := by simp [setRegs, h]

theorem setCols_false (v : Variant) (h : v.colsDoc = false) (s : S) (x : List Nat) :
    setCols v s x = ({ s.1 with cols := x }, s.2) := by simp [setCols, h]

theorem setIdx_snd (v : Variant) (s : S) (x : Bool) :
    (setIdx v s x).2 = if v.classDoc then { s.2 with idxSec := x } else s.2 := by
  unfold setIdx; split <;> simp_all

theorem setEnv_snd (v : Variant) (s : S) (x : List (Option MK)) :
    (setEnv v s x).2 = if v.trkDoc then { s.2 with inEnv := x } else s.2 := by
  unfold setEnv; split <;> simp_all

theorem setDepth_snd (v : Variant) (s : S) (x : Int) :
    (setDepth v s x).2 = if v.trkDoc then { s.2 with depth := x } else s.2 := by
  unfold setDepth; split <;> simp_all

theorem step_sim (v : Variant) (hr : v.regsDoc = false) (hc : v.colsDoc = false) (R C : List Nat)
    (e : Ev × Bool) (g g' : G) (d : D) (h : Sim R C g g') (he : evAvoids R C e.1 = true) :
    (step v e (g, d)).2 = (step v e (g', d)).2 ∧ Sim R C (step v e (g, d)).1.1 (step v e (g', d)).1.1 ∧
    (step v e (g, d)).1.2 = (step v e (g', d)).1.2 := by
  obtain ⟨e, b⟩ := e
  obtain ⟨h1, h2, h3, h4, h5, h6, h7, h8, h9, h10⟩ := h
  cases e <;> simp [step, stepDollar, anyArg, evAvoids, Sim, hr, hc, getEnv, getDepth, getRegs, getCols, getIdx,
      setRegs_false v hr, setCols_false v hc, setIdx_snd, setEnv_snd, setDepth_snd] at he ⊢ <;>
    (repeat' split) <;> simp_all [getD_set, setIdx_snd, setEnv_snd, setDepth_snd] <;> grind

theorem run_sim (v : Variant) (hr : v.regsDoc = false) (hc : v.colsDoc = false) (R C : List Nat) :
    ∀ (es : List (Ev × Bool)) (g g' : G) (d : D), Sim R C g g' → (∀ e ∈ es, evAvoids R C e.1 = true) →
      (run v (g, d) es).2 = (run v (g', d) es).2 ∧ Sim R C (run v (g, d) es).1.1 (run v (g', d) es).1.1 ∧
      (run v (g, d) es).1.2 = (run v (g', d) es).1.2
  | [], g, g', d, h, _ => by simpa [run] using h
  | e :: es, g, g', d, h, hav => by
    obtain ⟨o, hs, hd⟩ := step_sim v hr hc R C e g g' d h (hav e (List.mem_cons_self ..))
    have ih := run_sim v hr hc R C es (step v e (g, d)).1.1 (step v e (g', d)).1.1 (step v e (g, d)).1.2 hs
      (fun x hx => hav x (List.mem_cons_of_mem _ hx))
    simp only [run]
    have e1 : (step v e (g, d)).1 = ((step v e (g, d)).1.1, (step v e (g, d)).1.2) := rfl
    have e2 : (step v e (g', d)).1 = ((step v e (g', d)).1.1, (step v e (g, d)).1.2) := by rw [hd]
    rw [e1, e2, o]
    exact ⟨by rw [ih.1], ih.2.1, ih.2.2⟩

theorem finish_sim (v : Variant) (R C : List Nat) :
    ∀ (n : Nat) (g g' : G) (d : D), Sim R C g g' →
      (finish v n (g, d)).2 = (finish v n (g', d)).2 ∧ Sim R C (finish v n (g, d)).1.1 (finish v n (g', d)).1.1
  | 0, g, g', d, h => by simpa [finish] using h
  | n + 1, g, g', d, h => by
    simp only [finish]
    have hs : Sim R C (popCtx (· == Fr.arg) (setEnv v (onG enable (g, d)) (getEnv v (g, d)).tail)).1
        (popCtx (· == Fr.arg) (setEnv v (onG enable (g', d)) (getEnv v (g', d)).tail)).1 := by
      obtain ⟨h1, h2, h3, h4, h5, h6, h7, h8, h9, h10⟩ := h
      simp [Sim, getEnv]; split <;> simp_all
    have hd : (popCtx (· == Fr.arg) (setEnv v (onG enable (g, d)) (getEnv v (g, d)).tail)).2 =
        (popCtx (· == Fr.arg) (setEnv v (onG enable (g', d)) (getEnv v (g', d)).tail)).2 := by
      obtain ⟨h1, h2, h3, h4, h5, h6, h7, h8, h9, h10⟩ := h
      simp [getEnv, setEnv_snd]; split <;> simp_all
    have ih := finish_sim v R C n _ _ (popCtx (· == Fr.arg) (setEnv v (onG enable (g, d)) (getEnv v (g, d)).tail)).2 hs
    have e1 : ∀ s : S, s = (s.1, s.2) := fun s => rfl
    rw [e1 (popCtx (· == Fr.arg) (setEnv v (onG enable (g, d)) (getEnv v (g, d)).tail)),
        e1 (popCtx (· == Fr.arg) (setEnv v (onG enable (g', d)) (getEnv v (g', d)).tail)), ← hd]
    exact ⟨by rw [ih.1], ih.2⟩

/-- a whole document: same output, and the class-level states stay related -/
theorem runDoc_sim (v : Variant) (hr : v.regsDoc = false) (hc : v.colsDoc = false) (R C : List Nat)
    (g g' : G) (d : List Ev) (h : Sim R C g g') (hav : ∀ e ∈ d, evAvoids R C e = true) :
    (runDoc v g d).2 = (runDoc v g' d).2 ∧ Sim R C (runDoc v g d).1 (runDoc v g' d).1 := by
  have hnd : newDocOf g = newDocOf g' := by simp [newDocOf, h.2.2.2.2.2.2.1]
  obtain ⟨o, hs, hd⟩ := run_sim v hr hc R C (annot d) g g' (newDocOf g) h (fun e he => hav _ (annot_mem d e he))
  simp only [runDoc]
  rw [← hnd]
  have e1 : ∀ s : S, s = (s.1, s.2) := fun s => rfl
  obtain ⟨fo, fs⟩ := finish_sim v R C (run v (g, newDocOf g) (annot d)).1.2.boxes _ _ (run v (g, newDocOf g) (annot d)).1.2 hs
  rw [e1 (run v (g, newDocOf g) (annot d)).1, e1 (run v (g', newDocOf g) (annot d)).1, ← hd, o]
  exact ⟨by rw [fo], fs⟩

/-! ### what one document can change of the registers and column types at all -/

theorem step_touch (v : Variant) (e : Ev × Bool) (s : S) :
    (step v e s).1.1.regs.length = s.1.regs.length ∧
    (∀ r, r ∉ writesOf [e.1] → (step v e s).1.1.regs.getD r 0 = s.1.regs.getD r 0) ∧
    (∀ n, n ∉ newcolsOf [e.1] → (n ∈ (step v e s).1.1.cols ↔ n ∈ s.1.cols)) := by
  obtain ⟨e, b⟩ := e
  cases e <;> simp [step, stepDollar, anyArg, writesOf, newcolsOf, getRegs, getCols] <;>
    (repeat' split) <;> simp_all [getD_set] <;> grind

theorem step_idx_doc (v : Variant) (hv : v.classDoc = true) (e : Ev × Bool) (s : S) :
    (step v e s).1.1.idxSec = s.1.idxSec := by
  obtain ⟨e, b⟩ := e
  cases e <;> simp [step, stepDollar, anyArg, hv] <;> (repeat' split) <;> simp_all

theorem writesOf_cons (e : Ev) (d : List Ev) : writesOf (e :: d) = writesOf [e] ++ writesOf d := by
  simp [writesOf, List.filterMap_cons]; split <;> simp_all
theorem newcolsOf_cons (e : Ev) (d : List Ev) : newcolsOf (e :: d) = newcolsOf [e] ++ newcolsOf d := by
  simp [newcolsOf, List.filterMap_cons]; split <;> simp_all

theorem annot_map_fst : ∀ d : List Ev, (annot d).map (·.1) = d
  | [] => rfl
  | e :: d => by simp [annot, annot_map_fst d]

theorem run_touch' (v : Variant) : ∀ (es : List (Ev × Bool)) (s : S),
    (run v s es).1.1.regs.length = s.1.regs.length ∧
    (∀ r, r ∉ writesOf (es.map (·.1)) → (run v s es).1.1.regs.getD r 0 = s.1.regs.getD r 0) ∧
    (∀ n, n ∉ newcolsOf (es.map (·.1)) → (n ∈ (run v s es).1.1.cols ↔ n ∈ s.1.cols))
  | [], s => by simp [run]
  | e :: es, s => by
    obtain ⟨a1, a2, a3⟩ := step_touch v e s
    obtain ⟨b1, b2, b3⟩ := run_touch' v es (step v e s).1
    simp only [run, List.map_cons]
    refine ⟨by rw [b1, a1], ?_, ?_⟩
    · intro r hr
      rw [writesOf_cons, List.mem_append, not_or] at hr
      rw [b2 r hr.2, a2 r hr.1]
    · intro n hn
      rw [newcolsOf_cons, List.mem_append, not_or] at hn
      rw [b3 n hn.2, a3 n hn.1]

/-- registers / column types outside what the events write keep their value over a run -/
theorem run_touch (v : Variant) (d : List Ev) (s : S) :
    (run v s (annot d)).1.1.regs.length = s.1.regs.length ∧
    (∀ r, r ∉ writesOf d → (run v s (annot d)).1.1.regs.getD r 0 = s.1.regs.getD r 0) ∧
    (∀ n, n ∉ newcolsOf d → (n ∈ (run v s (annot d)).1.1.cols ↔ n ∈ s.1.cols)) := by
  have := run_touch' v (annot d) s
  rwa [annot_map_fst] at this

theorem finish_touch (v : Variant) : ∀ (n : Nat) (s : S),
    (finish v n s).1.1.regs = s.1.regs ∧ (finish v n s).1.1.cols = s.1.cols ∧ (finish v n s).1.1.idxSec = s.1.idxSec := by
  intro n s
  obtain ⟨f1, f2, f3, _⟩ := finish_frame v n s
  exact ⟨f1, f3, f2⟩

/-- the argument-scanning switches are in their resting position -/
def Quiet (g : G) : Prop := g.enabled = true ∧ g.level = 0 ∧ g.disBegin = false ∧ g.disEnd = false

theorem runDoc_quiet (v : Variant) (g : G) (hq : Quiet g) (d : List Ev) (hok : ∀ e ∈ d, okSw v e = true) :
    Quiet (runDoc v g d).1 := by
  obtain ⟨q1, q2, q3, q4⟩ := hq
  have hok' : ∀ e ∈ annot d, okSw v e.1 = true := fun e he => hok _ (annot_mem d e he)
  have h0 : SwInv (g, newDocOf g) := by simp [SwInv, newDocOf, newDoc, q1, q2, q3, q4]
  have hsw := run_inv v SwInv (okSw v) (fun e s he hp => step_sw v e s he hp) (annot d) (g, newDocOf g) hok' h0
  obtain ⟨_, _, _, f4, f5, f6, f7, _⟩ :=
    finish_frame v (run v (g, newDocOf g) (annot d)).1.2.boxes (run v (g, newDocOf g) (annot d)).1
  obtain ⟨s1, s2, s3, s4⟩ := hsw
  refine ⟨?_, ?_, ?_, ?_⟩
  · simp only [runDoc]; rw [f7]
    split
    · rename_i hb; rw [s2, s1, hb]; simp
    · rw [s1]; exact decide_eq_true (by omega)
  · simp only [runDoc]; rw [f6, s1]; omega
  · simp only [runDoc]; rw [f4, s3]
  · simp only [runDoc]; rw [f5, s4]

/-- one document of the current code (switches repaired, trackers and index level on the document): everything on the
    classes is as before, except the registers it assigns and the column types it defines -/
theorem runDoc_touch (v : Variant) (h1 : v.fixAny = true) (h2 : v.trkDoc = true) (h3 : v.classDoc = true)
    (g : G) (hq : Quiet g) (d : List Ev) :
    Sim (writesOf d) (newcolsOf d) g (runDoc v g d).1 ∧ Quiet (runDoc v g d).1 := by
  have hsw : ∀ e ∈ d, okSw v e = true := fun e _ => by
    cases e with
    | arg ty => cases ty <;> simp [okSw, h1]
    | _ => simp [okSw]
  have hq' := runDoc_quiet v g hq d hsw
  obtain ⟨t1, t2⟩ := runDoc_trackers v h2 g d
  obtain ⟨r1, r2, r3⟩ := run_touch v d (g, newDocOf g)
  obtain ⟨f1, f2, f3⟩ := finish_touch v (run v (g, newDocOf g) (annot d)).1.2.boxes (run v (g, newDocOf g) (annot d)).1
  have hidx : (runDoc v g d).1.idxSec = g.idxSec := by
    simp only [runDoc]; rw [f3]
    exact run_inv v (fun s => s.1.idxSec = g.idxSec) (fun _ => true)
      (fun e s _ hp => by rw [step_idx_doc v h3 e s]; exact hp) (annot d) (g, newDocOf g) (fun _ _ => rfl) rfl
  obtain ⟨q1, q2, q3, q4⟩ := hq
  obtain ⟨p1, p2, p3, p4⟩ := hq'
  refine ⟨⟨by rw [q1, p1], by rw [q2, p2], by rw [q3, p3], by rw [q4, p4], t1.symm, t2.symm, hidx.symm, ?_, ?_, ?_⟩, ⟨p1, p2, p3, p4⟩⟩
  · simp only [runDoc]; rw [f1]; exact r1.symm
  · intro r hr; simp only [runDoc]; rw [f1]; exact (r2 r hr).symm
  · intro n hn; simp only [runDoc]; rw [f2]; exact (r3 n hn).symm

theorem Sim.trans {R C R' C' : List Nat} {a b c : G} (h : Sim R C a b) (h' : Sim R' C' b c) :
    Sim (R ++ R') (C ++ C') a c := by
  obtain ⟨a1, a2, a3, a4, a5, a6, a7, a8, a9, a10⟩ := h
  obtain ⟨b1, b2, b3, b4, b5, b6, b7, b8, b9, b10⟩ := h'
  refine ⟨a1.trans b1, a2.trans b2, a3.trans b3, a4.trans b4, a5.trans b5, a6.trans b6, a7.trans b7, a8.trans b8, ?_, ?_⟩
  · intro r hr; rw [List.mem_append, not_or] at hr; rw [a9 r hr.1, b9 r hr.2]
  · intro n hn; rw [List.mem_append, not_or] at hn; rw [a10 n hn.1, b10 n hn.2]

theorem Sim.refl (g : G) : Sim [] [] g g := by simp [Sim]

/-- a whole history: the interpreter differs from a fresh one only in the registers assigned and the column types
    defined by the documents of the history (and in the position of the id generator) -/
theorem processAll_touch (v : Variant) (h1 : v.fixAny = true) (h2 : v.trkDoc = true) (h3 : v.classDoc = true) :
    ∀ (hist : List (List Ev)) (R C : List Nat) (g0 g : G) (k : Nat), Sim R C g0 g → Quiet g →
      Sim (R ++ hist.flatMap writesOf) (C ++ hist.flatMap newcolsOf) g0 (processAll v (g, k) hist).1
  | [], R, C, g0, g, k, h, _ => by simpa [processAll] using h
  | A :: rest, R, C, g0, g, k, h, hq => by
    obtain ⟨hs, hq'⟩ := runDoc_touch v h1 h2 h3 g hq A
    have := processAll_touch v h1 h2 h3 rest _ _ g0 (runDoc v g A).1 (k + nodes (runDoc v g A).2) (h.trans hs) hq'
    simpa [processAll, process, List.flatMap_cons, List.append_assoc] using this

end PlasVerif.Proofs.GlobalState
