import PlasVerif.Model.Digest
/-!
The substitution chain of `appendText` (`str.replace` for each entry of `defaultCharsubs`, in list
order) is idempotent: after one pass no backtick, no apostrophe and no two adjacent hyphens are left,
so no source pattern occurs any more.
-/
namespace PlasVerif.Proofs.Charsubs
open PlasVerif.Model.Digest PlasVerif.Generated.Digest

/-- nothing that is neither in the input nor in the replacement can appear -/
theorem not_mem_replaceGo (p d : List Nat) (x : Nat) (hd : x ∉ d) : ∀ (s : List Nat) (k : Nat), x ∉ s → x ∉ replaceGo p d k s
  | [], _, _ => by simp [replaceGo]
  | c :: cs, k + 1, h => by
    simp only [replaceGo]
    exact not_mem_replaceGo p d x hd cs k (fun hx => h (by simp [hx]))
  | c :: cs, 0, h => by
    have hcs : x ∉ cs := fun hx => h (by simp [hx])
    have hc : x ≠ c := fun e => h (by simp [e])
    simp only [replaceGo]
    split
    · simp only [List.mem_append, not_or]
      exact ⟨hd, not_mem_replaceGo p d x hd cs _ hcs⟩
    · simp only [List.mem_cons, not_or]
      exact ⟨hc, not_mem_replaceGo p d x hd cs 0 hcs⟩

/-- replacing a single character removes it -/
theorem single_removed (c : Nat) (d : List Nat) (hd : c ∉ d) : ∀ s : List Nat, c ∉ replaceGo [c] d 0 s
  | [] => by simp [replaceGo]
  | x :: xs => by
    simp only [replaceGo]
    by_cases h : c = x
    · subst h
      simp only [List.isPrefixOf, beq_self_eq_true, Bool.true_and, List.isEmpty_cons, Bool.not_false, Bool.and_self,
        if_true, List.length_singleton, Nat.sub_self, List.mem_append, not_or]
      exact ⟨hd, single_removed c d hd xs⟩
    · have : (c == x) = false := by simpa using h
      simp only [List.isPrefixOf, this, Bool.false_and, Bool.false_eq_true, if_false, List.mem_cons, not_or]
      exact ⟨h, single_removed c d hd xs⟩

/-- no two adjacent `a` -/
def NoAdj (a : Nat) : List Nat → Prop
  | [] => True
  | [_] => True
  | x :: y :: r => ¬ (x = a ∧ y = a) ∧ NoAdj a (y :: r)

theorem noAdj_cons {a x : Nat} {r : List Nat} (h : NoAdj a r) (hx : x ≠ a ∨ r.head? ≠ some a) : NoAdj a (x :: r) := by
  cases r with
  | nil => trivial
  | cons y r' =>
    refine ⟨fun ⟨e1, e2⟩ => ?_, h⟩
    rcases hx with hx | hx
    · exact hx e1
    · exact hx (by simp [e2])

theorem noAdj_append_fresh {a : Nat} : ∀ (d r : List Nat), a ∉ d → NoAdj a r → NoAdj a (d ++ r)
  | [], r, _, h => h
  | x :: d', r, hd, h => by
    have hx : x ≠ a := fun e => hd (by simp [e])
    exact noAdj_cons (noAdj_append_fresh d' r (fun hm => hd (by simp [hm])) h) (.inl hx)

theorem replaceGo_pair_unfold (a : Nat) (d cs : List Nat) :
    replaceGo [a, a] d 0 (a :: a :: cs) = d ++ replaceGo [a, a] d 0 cs := by
  simp [replaceGo, List.isPrefixOf]

theorem replaceGo_pair_skip (a x : Nat) (d cs : List Nat) (h : ¬ (x = a ∧ cs.head? = some a)) :
    replaceGo [a, a] d 0 (x :: cs) = x :: replaceGo [a, a] d 0 cs := by
  cases cs with
  | nil =>
    by_cases hx : a = x <;> simp [replaceGo, List.isPrefixOf, hx]
  | cons y r =>
    have : ((a == x) && (a == y)) = false := by
      by_cases h1 : a = x
      · by_cases h2 : a = y
        · exact absurd ⟨h1.symm, by simp [h2]⟩ h
        · simp [h2]
      · simp [h1]
    simp [replaceGo, List.isPrefixOf, this]

/-- head of the output of the pair replacement: `a` only if the input starts with `a` -/
theorem pair_head (a : Nat) (d : List Nat) (hd : a ∉ d) (hne : d ≠ []) : ∀ s : List Nat,
    (replaceGo [a, a] d 0 s).head? = some a → s.head? = some a
  | [] => by simp [replaceGo]
  | [x] => by
    rw [replaceGo_pair_skip a x d [] (by simp)]
    simp [replaceGo]
  | x :: y :: r => by
    by_cases h : x = a ∧ y = a
    · obtain ⟨rfl, rfl⟩ := h; simp
    · rw [replaceGo_pair_skip a x d (y :: r) (by simpa using h)]
      simp

theorem pair_removed (a : Nat) (d : List Nat) (hd : a ∉ d) (hne : d ≠ []) : ∀ s : List Nat, NoAdj a (replaceGo [a, a] d 0 s)
  | [] => by simp [replaceGo, NoAdj]
  | [x] => by rw [replaceGo_pair_skip a x d [] (by simp)]; simp [replaceGo, NoAdj]
  | x :: y :: r => by
    by_cases h : x = a ∧ y = a
    · rw [h.1, h.2, replaceGo_pair_unfold]
      exact noAdj_append_fresh d _ hd (pair_removed a d hd hne r)
    · rw [replaceGo_pair_skip a x d (y :: r) (by simpa using h)]
      refine noAdj_cons (pair_removed a d hd hne (y :: r)) ?_
      by_cases hx : x = a
      · right
        intro hh
        have := pair_head a d hd hne (y :: r) hh
        simp at this
        exact h ⟨hx, this⟩
      · exact .inl hx

theorem noAdj_tail {a x : Nat} {r : List Nat} (h : NoAdj a (x :: r)) : NoAdj a r := by
  cases r with
  | nil => trivial
  | cons y r' => exact h.2

/-- a pattern that occurs nowhere is not replaced -/
theorem replaceGo_absent (p d : List Nat) : ∀ s : List Nat,
    (∀ u, u <:+ s → (p.isPrefixOf u && !p.isEmpty) = false) → replaceGo p d 0 s = s
  | [], _ => by simp [replaceGo]
  | c :: cs, h => by
    simp only [replaceGo, h (c :: cs) (List.suffix_refl _), Bool.false_eq_true, if_false]
    rw [replaceGo_absent p d cs (fun u hu => h u (hu.trans (List.suffix_cons c cs)))]

theorem prefix_mem {p u : List Nat} (h : p.isPrefixOf u = true) : ∀ x ∈ p, x ∈ u := by
  rw [List.isPrefixOf_iff_prefix] at h
  exact fun x hx => h.subset hx

/-- the normal form reached after one pass -/
def Done (r : List Nat) : Prop := 96 ∉ r ∧ 39 ∉ r ∧ NoAdj 45 r

theorem absent_of_mem (p d r : List Nat) (x : Nat) (hx : x ∈ p) (hr : x ∉ r) : replaceAll p d r = r := by
  apply replaceGo_absent
  intro u hu
  cases hp : p.isPrefixOf u
  · rfl
  · exact absurd (hu.subset (prefix_mem hp x hx)) hr

theorem noAdj_suffix {a : Nat} : ∀ {r u : List Nat}, NoAdj a r → u <:+ r → NoAdj a u
  | [], u, _, hu => by
    have : u = [] := List.suffix_nil.1 hu
    subst this; trivial
  | x :: r, u, h, hu => by
    rcases List.suffix_cons_iff.1 hu with rfl | hu'
    · exact h
    · exact noAdj_suffix (noAdj_tail h) hu'

theorem absent_dashes (p d r : List Nat) (hp : ∃ q, p = 45 :: 45 :: q) (hr : NoAdj 45 r) : replaceAll p d r = r := by
  obtain ⟨q, rfl⟩ := hp
  apply replaceGo_absent
  intro u hu
  cases hpre : (45 :: 45 :: q).isPrefixOf u
  · rfl
  · have hna := noAdj_suffix hr hu
    match u, hpre, hna with
    | [], hpre, _ => simp [List.isPrefixOf] at hpre
    | [_], hpre, _ => simp [List.isPrefixOf] at hpre
    | x :: y :: w, hpre, hna =>
      simp only [List.isPrefixOf, Bool.and_eq_true, beq_iff_eq] at hpre
      exact absurd ⟨hpre.1.symm, hpre.2.1.symm⟩ hna.1

/-- once in normal form, every entry of the (regenerated) list is a no-op -/
theorem done_fixed (r : List Nat) (h : Done r) : ∀ sd ∈ charsubs, replaceAll sd.1 sd.2 r = r := by
  obtain ⟨h96, h39, hd⟩ := h
  intro sd hsd
  simp only [charsubs, List.mem_cons, List.mem_singleton, List.not_mem_nil, or_false] at hsd
  rcases hsd with rfl | rfl | rfl | rfl | rfl | rfl | rfl | rfl
  · exact absent_of_mem _ _ r 96 (by simp) h96
  · exact absent_of_mem _ _ r 39 (by simp) h39
  · exact absent_of_mem _ _ r 96 (by simp) h96
  · exact absent_of_mem _ _ r 39 (by simp) h39
  · exact absent_of_mem _ _ r 96 (by simp) h96
  · exact absent_of_mem _ _ r 39 (by simp) h39
  · exact absent_dashes _ _ r ⟨[45], rfl⟩ hd
  · exact absent_dashes _ _ r ⟨[], rfl⟩ hd

theorem foldl_fixed (subs : List (List Nat × List Nat)) (r : List Nat)
    (h : ∀ sd ∈ subs, replaceAll sd.1 sd.2 r = r) : applySubs subs r = r := by
  unfold applySubs
  induction subs with
  | nil => rfl
  | cons sd rest ih =>
    simp only [List.foldl, h sd (by simp)]
    exact ih (fun sd' h' => h sd' (by simp [h']))

/-- one pass reaches the normal form (the proof follows the order of the regenerated list) -/
theorem applySubs_done (s : List Nat) : Done (applySubs charsubs s) := by
  simp only [applySubs, charsubs, List.foldl, replaceAll]
  generalize replaceGo [34, 39] [8220] 0 (replaceGo [34, 96] [8222] 0 (replaceGo [39, 39] [8221] 0
    (replaceGo [96, 96] [8220] 0 s))) = v4
  have a5 : 96 ∉ replaceGo [96] [8216] 0 v4 := single_removed 96 _ (by decide) v4
  generalize replaceGo [96] [8216] 0 v4 = v5 at a5 ⊢
  have b6 : 39 ∉ replaceGo [39] [8217] 0 v5 := single_removed 39 _ (by decide) v5
  have a6 : 96 ∉ replaceGo [39] [8217] 0 v5 := not_mem_replaceGo _ _ 96 (by decide) v5 0 a5
  generalize replaceGo [39] [8217] 0 v5 = v6 at a6 b6 ⊢
  have a7 : 96 ∉ replaceGo [45, 45, 45] [8212] 0 v6 := not_mem_replaceGo _ _ 96 (by decide) v6 0 a6
  have b7 : 39 ∉ replaceGo [45, 45, 45] [8212] 0 v6 := not_mem_replaceGo _ _ 39 (by decide) v6 0 b6
  generalize replaceGo [45, 45, 45] [8212] 0 v6 = v7 at a7 b7 ⊢
  exact ⟨not_mem_replaceGo _ _ 96 (by decide) v7 0 a7, not_mem_replaceGo _ _ 39 (by decide) v7 0 b7,
    pair_removed 45 [8211] (by decide) (by decide) v7⟩

theorem applySubs_idempotent (s : List Nat) :
    applySubs charsubs (applySubs charsubs s) = applySubs charsubs s :=
  foldl_fixed charsubs _ (done_fixed _ (applySubs_done s))

end PlasVerif.Proofs.Charsubs
