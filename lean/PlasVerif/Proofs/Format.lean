import PlasVerif.Spec.NumberingRules
/-! Helper lemmas for C08: `TheCounter.invoke` (the model's fuelled interpreter `evalThe`) against the declarative
    nested substitution `Subst` / `Denotes` of the spec. -/
set_option linter.unusedSimpArgs false
set_option linter.unusedVariables false
namespace PlasVerif.Proofs.Format
open PlasVerif.Model.Counters PlasVerif.Spec.NumberingRules

theorem evalThe_zero (env : TheEnv) (s : Store) (m : Name) : evalThe 0 env s m = .error .recursionError := rfl

theorem evalThe_succ (f : Nat) (env : TheEnv) (s : Store) (self : Name) :
    evalThe (f + 1) env s self =
      match env.lookup self with
      | none => .error .keyError
      | some d => (d.pieces.mapM (evalPiece (evalThe f env s) s self)).map (finish d) := by
  rw [evalThe]
  cases env.lookup self with
  | none => rfl
  | some d =>
    simp only
    cases List.mapM (evalPiece (evalThe f env s) s self) d.pieces <;> rfl

theorem mapM_nil_ok {α β} (g : α → Except Err β) (rs : List β) : ([] : List α).mapM g = .ok rs ↔ rs = [] := by
  simp only [List.mapM_nil, pure, Except.pure, Except.ok.injEq]
  exact eq_comm

theorem mapM_cons_ok {α β} (g : α → Except Err β) (a : α) (l : List α) (rs : List β) :
    (a :: l).mapM g = .ok rs ↔ ∃ b bs, g a = .ok b ∧ l.mapM g = .ok bs ∧ rs = b :: bs := by
  rw [List.mapM_cons]
  constructor
  · intro h
    cases ha : g a with
    | error e => rw [ha] at h; cases h
    | ok b =>
      rw [ha] at h
      simp only [bind, Except.bind] at h
      cases hl : List.mapM g l with
      | error e => rw [hl] at h; cases h
      | ok bs =>
        rw [hl] at h
        simp only [pure, Except.pure, Except.ok.injEq] at h
        exact ⟨b, bs, rfl, rfl, h.symm⟩
  · rintro ⟨b, bs, ha, hl, rfl⟩
    rw [ha, hl]; rfl

/-! ## soundness: whatever the interpreter returns is the nested substitution -/

theorem pieces_sound (env : TheEnv) (s : Store) (f : Nat)
    (ih : ∀ m r, evalThe f env s m = .ok r → Denotes env s m r) (self : Name) :
    ∀ (ps : List Piece) (rs : List String), ps.mapM (evalPiece (evalThe f env s) s self) = .ok rs →
      Subst env s self ps rs := by
  intro ps
  induction ps with
  | nil => intro rs h; rw [mapM_nil_ok] at h; subst h; exact Subst.nil
  | cons p ps ihp =>
    intro rs h
    rw [mapM_cons_ok] at h
    obtain ⟨b, bs, hb, hbs, rfl⟩ := h
    have hrest := ihp bs hbs
    cases p with
    | lit t =>
      simp only [evalPiece, pure, Except.pure, Except.ok.injEq] at hb
      subst hb; exact Subst.lit hrest
    | ref n fmt =>
      simp only [evalPiece] at hb
      by_cases hm : isMacroRef self n = true
      · simp only [hm, if_true] at hb
        obtain ⟨d, parts, hl, hs, rfl⟩ := ih n b hb
        exact Subst.nested hm hl hs hrest
      · have hm' : isMacroRef self n = false := by simpa using hm
        simp only [hm', Bool.false_eq_true, if_false] at hb
        exact Subst.counter hm' hb hrest
    | call fm n =>
      simp only [evalPiece] at hb
      exact Subst.call hb hrest
    | «macro» n =>
      simp only [evalPiece] at hb
      obtain ⟨d, parts, hl, hs, rfl⟩ := ih n b hb
      exact Subst.macro hl hs hrest

theorem evalThe_sound (env : TheEnv) (s : Store) : ∀ (f : Nat) (m : Name) (r : String),
    evalThe f env s m = .ok r → Denotes env s m r := by
  intro f
  induction f with
  | zero => intro m r h; cases h
  | succ f ih =>
    intro m r h
    rw [evalThe_succ] at h
    cases hl : env.lookup m with
    | none => rw [hl] at h; cases h
    | some d =>
      rw [hl] at h
      simp only at h
      cases hp : List.mapM (evalPiece (evalThe f env s) s m) d.pieces with
      | error e => rw [hp] at h; cases h
      | ok parts =>
        rw [hp] at h
        simp only [Except.map, Except.ok.injEq] at h
        exact ⟨d, parts, hl, pieces_sound env s f ih m d.pieces parts hp, h.symm⟩

/-! ## completeness: every nested substitution is computed, with any fuel from some point on -/

theorem evalThe_of_pieces (env : TheEnv) (s : Store) (f : Nat) (m : Name) (d : TheDef) (parts : List String)
    (hl : env.lookup m = some d) (hp : d.pieces.mapM (evalPiece (evalThe f env s) s m) = .ok parts) :
    evalThe (f + 1) env s m = .ok (finish d parts) := by
  rw [evalThe_succ, hl]; simp only [hp]; rfl

theorem pieces_complete (env : TheEnv) (s : Store) (self : Name) (ps : List Piece) (rs : List String)
    (h : Subst env s self ps rs) :
    ∃ f0, ∀ f, f0 ≤ f → ps.mapM (evalPiece (evalThe f env s) s self) = .ok rs := by
  induction h with
  | nil => exact ⟨0, fun f _ => rfl⟩
  | @lit self t ps rs _ ih =>
    obtain ⟨f0, h0⟩ := ih
    refine ⟨f0, fun f hf => ?_⟩
    rw [mapM_cons_ok]
    exact ⟨t, rs, rfl, h0 f hf, rfl⟩
  | @counter self n fm r ps rs hm hr _ ih =>
    obtain ⟨f0, h0⟩ := ih
    refine ⟨f0, fun f hf => ?_⟩
    rw [mapM_cons_ok]
    exact ⟨r, rs, by simp only [evalPiece, hm, Bool.false_eq_true, if_false, hr], h0 f hf, rfl⟩
  | @nested self n fm d parts ps rs hm hl _ _ ih1 ih2 =>
    obtain ⟨f1, h1⟩ := ih1
    obtain ⟨f2, h2⟩ := ih2
    refine ⟨max (f1 + 1) f2, fun f hf => ?_⟩
    rw [mapM_cons_ok]
    refine ⟨finish d parts, rs, ?_, h2 f (by omega), rfl⟩
    obtain ⟨f', rfl⟩ : ∃ f', f = f' + 1 := ⟨f - 1, by omega⟩
    simp only [evalPiece, hm, if_true]
    exact evalThe_of_pieces env s f' n d parts hl (h1 f' (by omega))
  | @call self n fm r ps rs hr _ ih =>
    obtain ⟨f0, h0⟩ := ih
    refine ⟨f0, fun f hf => ?_⟩
    rw [mapM_cons_ok]
    exact ⟨r, rs, by simp only [evalPiece, hr], h0 f hf, rfl⟩
  | @«macro» self n d parts ps rs hl _ _ ih1 ih2 =>
    obtain ⟨f1, h1⟩ := ih1
    obtain ⟨f2, h2⟩ := ih2
    refine ⟨max (f1 + 1) f2, fun f hf => ?_⟩
    rw [mapM_cons_ok]
    refine ⟨finish d parts, rs, ?_, h2 f (by omega), rfl⟩
    obtain ⟨f', rfl⟩ : ∃ f', f = f' + 1 := ⟨f - 1, by omega⟩
    simp only [evalPiece]
    exact evalThe_of_pieces env s f' n d parts hl (h1 f' (by omega))

theorem evalThe_complete (env : TheEnv) (s : Store) (m : Name) (r : String) (h : Denotes env s m r) :
    ∃ f0, ∀ f, f0 ≤ f → evalThe f env s m = .ok r := by
  obtain ⟨d, parts, hl, hs, rfl⟩ := h
  obtain ⟨f0, h0⟩ := pieces_complete env s m d.pieces parts hs
  refine ⟨f0 + 1, fun f hf => ?_⟩
  obtain ⟨f', rfl⟩ : ∃ f', f = f' + 1 := ⟨f - 1, by omega⟩
  exact evalThe_of_pieces env s f' m d parts hl (h0 f' (by omega))

theorem denotes_unique (env : TheEnv) (s : Store) (m : Name) (r r' : String)
    (h : Denotes env s m r) (h' : Denotes env s m r') : r = r' := by
  obtain ⟨f0, h0⟩ := evalThe_complete env s m r h
  obtain ⟨f1, h1⟩ := evalThe_complete env s m r' h'
  have a := h0 (max f0 f1) (by omega)
  have b := h1 (max f0 f1) (by omega)
  rw [a] at b
  exact Except.ok.inj b

/-! ## acyclic tables: the model's fuel is enough -/

theorem mapM_congr_mem {α β} (g g' : α → Except Err β) : ∀ (l : List α), (∀ a ∈ l, g a = g' a) →
    l.mapM g = l.mapM g' := by
  intro l
  induction l with
  | nil => intro _; rfl
  | cons a l ih =>
    intro h
    rw [List.mapM_cons, List.mapM_cons, h a List.mem_cons_self, ih (fun b hb => h b (List.mem_cons_of_mem _ hb))]

theorem lookup_mem_env (env : TheEnv) (m : Name) (d : TheDef) (hl : env.lookup m = some d) : (m, d) ∈ env := by
  induction env with
  | nil => simp at hl
  | cons e env ih =>
    obtain ⟨a, b⟩ := e
    rw [List.lookup_cons] at hl
    by_cases hab : (m == a) = true
    · simp only [hab, Option.some.injEq] at hl
      have : m = a := by simpa using hab
      subst this; subst hl; exact List.mem_cons_self
    · simp only [hab] at hl
      exact List.mem_cons_of_mem _ (ih hl)

theorem ranked_macro (env : TheEnv) (rank : Name → Nat) (h : macroRankedB env rank = true) (m : Name) (d : TheDef)
    (hl : env.lookup m = some d) (n : Name) (hp : Piece.macro n ∈ d.pieces) : rank n < rank m := by
  simp only [macroRankedB, List.all_eq_true] at h
  have := h (m, d) (lookup_mem_env env m d hl) (.macro n) hp
  simpa using this

theorem ranked_ref (env : TheEnv) (rank : Name → Nat) (h : macroRankedB env rank = true) (m : Name) (d : TheDef)
    (hl : env.lookup m = some d) (n : Name) (fm : Option String) (hp : Piece.ref n fm ∈ d.pieces)
    (hm : isMacroRef m n = true) : rank n < rank m := by
  simp only [macroRankedB, List.all_eq_true] at h
  have hmem : (m, d) ∈ env := by
    clear h hp
    induction env with
    | nil => simp at hl
    | cons e env ih =>
      obtain ⟨a, b⟩ := e
      rw [List.lookup_cons] at hl
      by_cases hab : (m == a) = true
      · simp only [hab, Option.some.injEq] at hl
        have : m = a := by simpa using hab
        subst this; subst hl; exact List.mem_cons_self
      · simp only [hab] at hl
        exact List.mem_cons_of_mem _ (ih hl)
  have := h (m, d) hmem (.ref n fm) hp
  simpa [hm] using this

/-- with a rank certificate the result does not depend on the fuel as soon as it exceeds the rank of the macro:
    in particular no `RecursionError` is ever reported for lack of fuel -/
theorem fuel_irrelevant (env : TheEnv) (s : Store) (rank : Name → Nat) (h : macroRankedB env rank = true) :
    ∀ (f1 f2 : Nat) (m : Name), rank m < f1 → rank m < f2 → evalThe f1 env s m = evalThe f2 env s m := by
  intro f1
  induction f1 with
  | zero => intro f2 m h1 _; omega
  | succ f1 ih =>
    intro f2 m h1 h2
    obtain ⟨f2', rfl⟩ : ∃ f', f2 = f' + 1 := ⟨f2 - 1, by omega⟩
    rw [evalThe_succ, evalThe_succ]
    cases hl : env.lookup m with
    | none => rfl
    | some d =>
      simp only
      have : d.pieces.mapM (evalPiece (evalThe f1 env s) s m) = d.pieces.mapM (evalPiece (evalThe f2' env s) s m) := by
        apply mapM_congr_mem
        intro p hp
        cases p with
        | lit t => rfl
        | ref n fm =>
          simp only [evalPiece]
          by_cases hm : isMacroRef m n = true
          · simp only [hm, if_true]
            have := ranked_ref env rank h m d hl n fm hp hm
            exact ih f2' n (by omega) (by omega)
          · simp [hm]
        | call fm n => rfl
        | «macro» n =>
          simp only [evalPiece]
          have := ranked_macro env rank h m d hl n hp
          exact ih f2' n (by omega) (by omega)
      rw [this]

end PlasVerif.Proofs.Format
