import PlasVerif.Spec.CondTree
/-! Helper lemmas for C03.  Property statements are in `Properties/C03.lean`. -/
namespace PlasVerif.Proofs.IfScan
open PlasVerif.Model.IfScan PlasVerif.Spec.CondTree

variable {τ α σ : Type}

section eqs
variable (a : α) (t : τ) (cs : Cases τ α) (he : Bool) (e b : Body τ α) (i : Item τ α)
@[simp] theorem flat_tok : (Item.tok a : Item τ α).flat = [.other a] := by rw [Item.flat]
@[simp] theorem flat_newif : (Item.newif t : Item τ α).flat = [.newif, .ifl t] := by rw [Item.flat]
@[simp] theorem flat_cond : (Item.cond t cs he e).flat =
    .ifl t :: (cs.flat ++ ((if he then .else_ :: e.flat else []) ++ [.fi])) := by rw [Item.flat]
@[simp] theorem flat_nil : (Body.nil : Body τ α).flat = [] := by rw [Body.flat]
@[simp] theorem flat_cons : (Body.cons i b).flat = i.flat ++ b.flat := by rw [Body.flat]
@[simp] theorem flat_last : (Cases.last b).flat = b.flat := by rw [Cases.flat]
@[simp] theorem flat_more : (Cases.more b cs).flat = b.flat ++ .or_ :: cs.flat := by rw [Cases.flat]
end eqs

section eqs2
variable (isCase : τ → Bool) (S : Sem τ α σ)
variable (a : α) (t : τ) (cs : Cases τ α) (he : Bool) (e b : Body τ α) (i : Item τ α) (s : σ) (out : List α) (n : Nat)
@[simp] theorem wf_tok : (Item.tok a : Item τ α).wf isCase = true := by rw [Item.wf]
@[simp] theorem wf_newif : (Item.newif t : Item τ α).wf isCase = true := by rw [Item.wf]
@[simp] theorem wf_cond : (Item.cond t cs he e).wf isCase =
    ((isCase t || cs.isLast) && cs.wf isCase && e.wf isCase) := by rw [Item.wf]
@[simp] theorem wf_nil : (Body.nil : Body τ α).wf isCase = true := by rw [Body.wf]
@[simp] theorem wf_cons : (Body.cons i b).wf isCase = (i.wf isCase && b.wf isCase) := by rw [Body.wf]
@[simp] theorem wf_last : (Cases.last b).wf isCase = b.wf isCase := by rw [Cases.wf]
@[simp] theorem wf_more : (Cases.more b cs).wf isCase = (b.wf isCase && cs.wf isCase) := by rw [Cases.wf]

@[simp] theorem den_tok : (Item.tok a : Item τ α).den S s out = .ok (S.eff a s, out ++ [a]) := by rw [Item.den]
@[simp] theorem den_newif : (Item.newif t : Item τ α).den S s out = .ok (S.decl (.ifl t) s, out) := by rw [Item.den]
theorem den_cond_err (x : Err) (h : S.ev t s = .error x) : (Item.cond t cs he e).den S s out = .error x := by
  rw [Item.den]; simp [h]
theorem den_cond_some (w : Which) (h : S.ev t s = .ok w) (h2 : texSelect w cs.count = some n) :
    (Item.cond t cs he e).den S s out = cs.denAt S n s out := by
  rw [Item.den]; simp [h, h2]
theorem den_cond_none (w : Which) (h : S.ev t s = .ok w) (h2 : texSelect w cs.count = none) :
    (Item.cond t cs he e).den S s out = if he then e.den S s out else .ok (s, out) := by
  rw [Item.den]; simp [h, h2]
@[simp] theorem den_nil : (Body.nil : Body τ α).den S s out = .ok (s, out) := by rw [Body.den]
theorem den_cons_err (x : Err) (h : i.den S s out = .error x) : (Body.cons i b).den S s out = .error x := by
  rw [Body.den]; simp [h]
theorem den_cons_ok (s' : σ) (out' : List α) (h : i.den S s out = .ok (s', out')) :
    (Body.cons i b).den S s out = b.den S s' out' := by
  rw [Body.den]; simp [h]
@[simp] theorem denAt_last0 : (Cases.last b).denAt S 0 s out = b.den S s out := by rw [Cases.denAt]
@[simp] theorem denAt_lastS : (Cases.last b).denAt S (n + 1) s out = .ok (s, out) := by rw [Cases.denAt]
@[simp] theorem denAt_more0 : (Cases.more b cs).denAt S 0 s out = b.den S s out := by rw [Cases.denAt]
@[simp] theorem denAt_moreS : (Cases.more b cs).denAt S (n + 1) s out = cs.denAt S n s out := by rw [Cases.denAt]
end eqs2

/-! ### the skipper on flattened trees -/

section scanEqs
variable (t : τ) (a : α) (x : Tok τ α) (ts : List (Tok τ α)) (n : Nat) (done : List (List (Tok τ α)))
  (cur : List (Tok τ α)) (ef : Bool)
theorem scan_ifl : scan (.ifl t :: ts) n done cur ef = scan ts (n + 1) done (cur ++ [.ifl t]) ef := by rw [scan]
theorem scan_other : scan (.other a :: ts) n done cur ef = scan ts n done (cur ++ [.other a]) ef := by rw [scan]
theorem scan_newif : scan (.newif :: x :: ts) n done cur ef = scan ts n done (cur ++ [.newif, x]) ef := by rw [scan]
theorem scan_fi0 : scan (.fi :: ts) 0 done cur ef = .ok ⟨done ++ [cur], ts, true, ef⟩ := by rw [scan]
theorem scan_fiS : scan (.fi :: ts) (n + 1) done cur ef = scan ts n done (cur ++ [.fi]) ef := by rw [scan]
theorem scan_else0 : scan (.else_ :: ts) 0 done cur ef = scan ts 0 (done ++ [cur]) [] true := by rw [scan]
theorem scan_elseS : scan (.else_ :: ts) (n + 1) done cur ef = scan ts (n + 1) done (cur ++ [.else_]) ef := by rw [scan]
theorem scan_or0 : scan (.or_ :: ts) 0 done cur ef = scan ts 0 (done ++ [cur]) [] ef := by rw [scan]
theorem scan_orS : scan (.or_ :: ts) (n + 1) done cur ef = scan ts (n + 1) done (cur ++ [.or_]) ef := by rw [scan]
end scanEqs

-- At any nesting level a flattened item/body is appended whole to the current case:
-- its inner `\or`, `\else`, `\fi` neither split nor terminate anything outside it.
mutual
theorem scan_item (i : Item τ α) : ∀ (rest : List (Tok τ α)) (n : Nat) (done : List (List (Tok τ α)))
    (cur : List (Tok τ α)) (ef : Bool),
    scan (i.flat ++ rest) n done cur ef = scan rest n done (cur ++ i.flat) ef := by
  cases i with
  | tok a => intro rest n done cur ef; simp [scan_other]
  | newif t => intro rest n done cur ef; simp [scan_newif]
  | cond t cs he e =>
    intro rest n done cur ef
    simp only [flat_cond, List.cons_append, List.append_assoc, scan_ifl]
    rw [scan_cases_inner cs]
    cases he with
    | false => simp [scan_fiS]
    | true =>
      simp only [if_true, List.cons_append, scan_elseS]
      rw [scan_body e]
      simp [scan_fiS]
theorem scan_body (b : Body τ α) : ∀ (rest : List (Tok τ α)) (n : Nat) (done : List (List (Tok τ α)))
    (cur : List (Tok τ α)) (ef : Bool),
    scan (b.flat ++ rest) n done cur ef = scan rest n done (cur ++ b.flat) ef := by
  cases b with
  | nil => intro rest n done cur ef; simp
  | cons i b =>
    intro rest n done cur ef
    simp only [flat_cons, List.append_assoc]
    rw [scan_item i, scan_body b, List.append_assoc]
theorem scan_cases_inner (cs : Cases τ α) : ∀ (rest : List (Tok τ α)) (n : Nat) (done : List (List (Tok τ α)))
    (cur : List (Tok τ α)) (ef : Bool),
    scan (cs.flat ++ rest) (n + 1) done cur ef = scan rest (n + 1) done (cur ++ cs.flat) ef := by
  cases cs with
  | last b => intro rest n done cur ef; simp only [flat_last]; rw [scan_body b]
  | more b cs =>
    intro rest n done cur ef
    simp only [flat_more, List.append_assoc, List.cons_append]
    rw [scan_body b, scan_orS, scan_cases_inner cs]
    simp
end

/-- the cases a top-level scan of `cs.flat` closes (all but the last), starting with `cur` -/
def initCases : Cases τ α → List (Tok τ α) → List (List (Tok τ α))
  | .last _, _ => []
  | .more b cs, cur => (cur ++ b.flat) :: initCases cs []

/-- the case that is still open after a top-level scan of `cs.flat` -/
def lastCase : Cases τ α → List (Tok τ α) → List (Tok τ α)
  | .last b, cur => cur ++ b.flat
  | .more _ cs, _ => lastCase cs []

theorem init_last_bodies (cs : Cases τ α) : initCases cs [] ++ [lastCase cs []] = cs.bodies.map Body.flat := by
  cases cs with
  | last b => simp [initCases, lastCase, Cases.bodies]
  | more b cs => simp [initCases, lastCase, Cases.bodies, init_last_bodies cs]

theorem scan_cases_top (cs : Cases τ α) : ∀ (rest : List (Tok τ α)) (done : List (List (Tok τ α)))
    (cur : List (Tok τ α)) (ef : Bool),
    scan (cs.flat ++ rest) 0 done cur ef = scan rest 0 (done ++ initCases cs cur) (lastCase cs cur) ef := by
  cases cs with
  | last b => intro rest done cur ef; simp [initCases, lastCase, scan_body]
  | more b cs =>
    intro rest done cur ef
    simp only [flat_more, List.append_assoc, List.cons_append]
    rw [scan_body b, scan_or0, scan_cases_top cs]
    simp [initCases, lastCase]

/-- the token list between the test and the end of a conditional -/
def condTail (cs : Cases τ α) (he : Bool) (e : Body τ α) (rest : List (Tok τ α)) : List (Tok τ α) :=
  cs.flat ++ ((if he then .else_ :: e.flat else []) ++ .fi :: rest)

/-- what the scanner must find: the listed cases followed by the `\else` part (empty when absent) -/
def branches (cs : Cases τ α) (he : Bool) (e : Body τ α) : List (List (Tok τ α)) :=
  cs.bodies.map Body.flat ++ [if he then e.flat else []]

theorem scan_condTail (cs : Cases τ α) (he : Bool) (e : Body τ α) (rest : List (Tok τ α)) :
    scan (condTail cs he e rest) 0 [] [] false =
      .ok ⟨cs.bodies.map Body.flat ++ (if he then [e.flat] else []), rest, true, he⟩ := by
  unfold condTail
  rw [scan_cases_top]
  cases he with
  | false =>
    simp only [Bool.false_eq_true, if_false, List.nil_append, scan_fi0, List.append_nil]
    rw [init_last_bodies]
  | true =>
    simp only [if_true, List.cons_append, scan_else0]
    rw [scan_body e, scan_fi0]
    simp only [List.nil_append, List.append_assoc]
    rw [← List.append_assoc, init_last_bodies]

theorem processIf_condTail (w : Which) (cs : Cases τ α) (he : Bool) (e : Body τ α) (rest : List (Tok τ α)) :
    processIf w (condTail cs he e rest) = .ok (select w (branches cs he e) ++ rest, true) := by
  unfold processIf
  rw [scan_condTail]
  cases he <;> simp [withElse, branches]

theorem bodies_length (cs : Cases τ α) : cs.bodies.length = cs.count := by
  cases cs with
  | last b => simp [Cases.bodies, Cases.count]
  | more b cs => simp [Cases.bodies, Cases.count, bodies_length cs]

theorem count_pos (cs : Cases τ α) : 0 < cs.count := by cases cs <;> simp [Cases.count]

theorem branches_length (cs : Cases τ α) (he : Bool) (e : Body τ α) :
    (branches cs he e).length = cs.count + 1 := by simp [branches, bodies_length]

theorem getD_append_left' {β} (l r : List β) (d : β) (i : Nat) (h : i < l.length) : (l ++ r).getD i d = l.getD i d := by
  simp [List.getD, List.getElem?_append_left h]

theorem getD_append_right' {β} (l r : List β) (d : β) (i : Nat) (h : l.length ≤ i) :
    (l ++ r).getD i d = r.getD (i - l.length) d := by
  simp [List.getD, List.getElem?_append_right h]

/-- selection on the scanned branches follows TeX's rule, provided a boolean test has one case -/
theorem select_branches (w : Which) (cs : Cases τ α) (he : Bool) (e : Body τ α)
    (hw : ∀ b, w = .bool b → cs.isLast = true) :
    select w (branches cs he e) =
      match texSelect w cs.count with
      | some i => ((cs.bodies.map Body.flat).getD i [])
      | none => if he then e.flat else [] := by
  have hlen := bodies_length cs
  have hpos := count_pos cs
  unfold select
  simp only [branches_length]
  cases w with
  | bool b =>
    cases b with
    | true =>
      have h1 : (0 : Int) ≤ 0 ∧ (0 : Int) < ((cs.count + 1 : Nat) : Int) := by omega
      simp only [Which.index, texSelect, h1, and_self, if_true]
      simp only [branches, Int.toNat_zero]
      rw [getD_append_left' _ _ _ _ (by simp [hlen]; omega)]
    | false =>
      have hl := hw false rfl
      cases cs with
      | more _ _ => simp [Cases.isLast] at hl
      | last b0 =>
        simp [Which.index, texSelect, branches, Cases.bodies, Cases.count]
  | case n =>
    simp only [Which.index, texSelect]
    by_cases h : 0 ≤ n ∧ n < (cs.count : Int)
    · have h' : 0 ≤ n ∧ n < ((cs.count + 1 : Nat) : Int) := by omega
      simp only [h, h', and_self, if_true]
      simp only [branches]
      rw [getD_append_left' _ _ _ _ (by simp [hlen]; omega)]
    · simp only [h, if_false]
      by_cases h' : 0 ≤ n ∧ n < ((cs.count + 1 : Nat) : Int)
      · have hn : n = cs.count := by omega
        subst hn
        simp only [h', and_self, if_true, Int.toNat_natCast, branches]
        rw [getD_append_right' _ _ _ _ (by simp [hlen])]
        simp [hlen]
      · simp only [h', if_false, branches]
        have : ((cs.count + 1 : Nat) : Int) - 1 = (cs.count : Nat) := by omega
        rw [this, Int.toNat_natCast]
        rw [getD_append_right' _ _ _ _ (by simp [hlen])]
        simp [hlen]

/-! ### the expansion loop -/

section runEqs
variable (S : Sem τ α σ) (t : τ) (a : α) (x : Tok τ α) (ts ts' : List (Tok τ α)) (s : σ) (out : List α)
theorem run_nil : run S [] s out = .ok (s, out) := by rw [run]
theorem run_other : run S (.other a :: ts) s out = run S ts (S.eff a s) (out ++ [a]) := by rw [run]
theorem run_newif : run S (.newif :: x :: ts) s out = run S ts (S.decl x s) out := by rw [run]
theorem run_fi : run S (.fi :: ts) s out = run S ts s out := by rw [run]
theorem run_else : run S (.else_ :: ts) s out = run S ts s out := by rw [run]
theorem run_or : run S (.or_ :: ts) s out = run S ts s out := by rw [run]
theorem run_ifl_err (x : Err) (h : S.ev t s = .error x) : run S (.ifl t :: ts) s out = .error x := by
  rw [run]; simp [h]
theorem run_ifl (w : Which) (f : Bool) (h : S.ev t s = .ok w) (hp : processIf w ts = .ok (ts', f)) :
    run S (.ifl t :: ts) s out = run S ts' s out := by
  rw [run]; simp only [h]; split <;> simp_all
end runEqs

theorem getD_bodies_flat (cs : Cases τ α) (i : Nat) (h : i < cs.count) :
    ∃ b, cs.bodies[i]? = some b ∧ (cs.bodies.map Body.flat).getD i [] = b.flat := by
  have hl := bodies_length cs
  refine ⟨cs.bodies[i]'(by omega), by simp, ?_⟩
  simp [List.getD, List.getElem?_map, List.getElem?_eq_getElem (show i < cs.bodies.length by omega)]

theorem texSelect_lt (w : Which) (c i : Nat) (h : texSelect w c = some i) (hc : 0 < c) : i < c := by
  unfold texSelect at h
  split at h
  · simp at h; omega
  · simp at h
  · split at h
    · simp at h; omega
    · simp at h

theorem flat_cond_append (t : τ) (cs : Cases τ α) (he : Bool) (e : Body τ α) (rest : List (Tok τ α)) :
    (Item.cond t cs he e).flat ++ rest = .ifl t :: condTail cs he e rest := by
  simp [condTail]

/-- continuation form used by the main induction -/
def andThen (S : Sem τ α σ) (r : Except Err (σ × List α)) (rest : List (Tok τ α)) : Except Err (σ × List α) :=
  match r with
  | .error x => .error x
  | .ok (s', out') => run S rest s' out'

@[simp] theorem andThen_ok (S : Sem τ α σ) (s : σ) (out : List α) (rest : List (Tok τ α)) :
    andThen S (.ok (s, out)) rest = run S rest s out := rfl
@[simp] theorem andThen_err (S : Sem τ α σ) (x : Err) (rest : List (Tok τ α)) :
    andThen S (.error x) rest = .error x := rfl

section main
variable (S : Sem τ α σ) (isCase : τ → Bool)
  (hk : ∀ t s b, S.ev t s = .ok (.bool b) → isCase t = false)
include hk

mutual
theorem run_item (i : Item τ α) (hwf : i.wf isCase = true) : ∀ (rest : List (Tok τ α)) (s : σ) (out : List α),
    run S (i.flat ++ rest) s out = andThen S (i.den S s out) rest := by
  cases i with
  | tok a => intro rest s out; simp [run_other]
  | newif t => intro rest s out; simp [run_newif]
  | cond t cs he e =>
    intro rest s out
    simp only [wf_cond, Bool.and_eq_true, Bool.or_eq_true] at hwf
    obtain ⟨⟨h1, h2⟩, h3⟩ := hwf
    rw [flat_cond_append]
    cases hev : S.ev t s with
    | error x => rw [run_ifl_err S t _ s out x hev, den_cond_err _ _ _ _ _ _ _ x hev]; rfl
    | ok w =>
      rw [run_ifl S t _ _ s out w true hev (processIf_condTail w cs he e rest)]
      have hw : ∀ b, w = .bool b → cs.isLast = true := by
        intro b hb; subst hb
        have := hk t s b hev
        rcases h1 with h1 | h1
        · rw [this] at h1; cases h1
        · exact h1
      rw [select_branches w cs he e hw]
      cases hsel : texSelect w cs.count with
      | some i =>
        rw [den_cond_some _ _ _ _ _ _ _ _ w hev hsel]
        exact run_cases cs h2 i (texSelect_lt w _ i hsel (count_pos cs)) rest s out
      | none =>
        rw [den_cond_none _ _ _ _ _ _ _ w hev hsel]
        cases he with
        | false => simp
        | true => simp only [if_true]; exact run_body e h3 rest s out
theorem run_body (b : Body τ α) (hwf : b.wf isCase = true) : ∀ (rest : List (Tok τ α)) (s : σ) (out : List α),
    run S (b.flat ++ rest) s out = andThen S (b.den S s out) rest := by
  cases b with
  | nil => intro rest s out; simp
  | cons i b =>
    intro rest s out
    simp only [wf_cons, Bool.and_eq_true] at hwf
    simp only [flat_cons, List.append_assoc]
    rw [run_item i hwf.1]
    cases hi : i.den S s out with
    | error x => rw [den_cons_err _ _ _ _ _ x hi]; rfl
    | ok r =>
      obtain ⟨s', out'⟩ := r
      rw [den_cons_ok _ _ _ _ _ s' out' hi, andThen_ok]
      exact run_body b hwf.2 rest s' out'
theorem run_cases (cs : Cases τ α) (hwf : cs.wf isCase = true) : ∀ (i : Nat), i < cs.count →
    ∀ (rest : List (Tok τ α)) (s : σ) (out : List α),
    run S ((cs.bodies.map Body.flat).getD i [] ++ rest) s out = andThen S (cs.denAt S i s out) rest := by
  cases cs with
  | last b =>
    intro i hi rest s out
    simp only [Cases.count] at hi
    have : i = 0 := by omega
    subst this
    simp only [wf_last] at hwf
    simp only [Cases.bodies, List.map_cons, List.map_nil, List.getD_cons_zero, denAt_last0]
    exact run_body b hwf rest s out
  | more b cs =>
    intro i hi rest s out
    simp only [wf_more, Bool.and_eq_true] at hwf
    cases i with
    | zero =>
      simp only [Cases.bodies, List.map_cons, List.getD_cons_zero, denAt_more0]
      exact run_body b hwf.1 rest s out
    | succ i =>
      simp only [Cases.count] at hi
      simp only [Cases.bodies, List.map_cons, List.getD_cons_succ, denAt_moreS]
      exact run_cases cs hwf.2 i (by omega) rest s out
end
end main

end PlasVerif.Proofs.IfScan
