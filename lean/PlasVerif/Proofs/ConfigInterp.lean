import PlasVerif.Spec.Config
/-! Lemmas on `scan` (the model of `string % wrapper`) against the format-string grammar of the spec. -/
namespace PlasVerif.Proofs.ConfigInterp
open PlasVerif.Model.Config PlasVerif.Spec.Config

/-- literal text is copied -/
theorem scan_lit (look : Str → Except Err Str) : ∀ (s : Str), s.contains 37 = false → ∀ rest,
    scan look .text (s ++ rest) = (s ++ ·) <$> scan look .text rest := by
  intro s
  induction s with
  | nil => intro _ rest; simp only [List.nil_append]; cases h : scan look .text rest <;> simp [Functor.map, Except.map]
  | cons c cs ih =>
    intro h rest
    simp only [List.contains_cons, Bool.or_eq_false_iff, beq_eq_false_iff_ne, ne_eq] at h
    have hc : c ≠ 37 := fun e => h.1 e.symm
    simp only [List.cons_append, scan, hc, if_false, ih h.2 rest]
    cases scan look .text rest <;> rfl

theorem scan_pct (look : Str → Except Err Str) (rest : Str) :
    scan look .text (37 :: 37 :: rest) = (37 :: ·) <$> scan look .text rest := by
  simp [scan]

theorem scan_key (look : Str → Except Err Str) : ∀ (n : Str), n.contains 41 = false → ∀ acc rest,
    scan look (.key acc) (n ++ 41 :: 115 :: rest) =
      (do let v ← look (acc.reverse ++ n); let r ← scan look .text rest; pure (v ++ r)) := by
  intro n
  induction n with
  | nil => intro _ acc rest; simp [scan]
  | cons c cs ih =>
    intro h acc rest
    simp only [List.contains_cons, Bool.or_eq_false_iff, beq_eq_false_iff_ne, ne_eq] at h
    have hc : c ≠ 41 := fun e => h.1 e.symm
    simp only [List.cons_append, scan, hc, if_false, ih h.2 (c :: acc) rest]
    simp

theorem scan_ref (look : Str → Except Err Str) (n : Str) (h : n.contains 41 = false) (rest : Str) :
    scan look .text (37 :: 40 :: (n ++ 41 :: 115 :: rest)) =
      (do let v ← look n; let r ← scan look .text rest; pure (v ++ r)) := by
  simp [scan, scan_key look n h [] rest]

theorem interp_render_aux (look : Str → Except Err Str) : ∀ (segs : List Seg), (∀ s ∈ segs, s.wf = true) →
    (scan look .text (render segs)).toOption = segsDen (fun n => (look n).toOption) segs := by
  intro segs
  induction segs with
  | nil => intro _; rfl
  | cons sg r ih =>
    intro hwf
    have hr := ih (fun s hs => hwf s (List.mem_cons_of_mem _ hs))
    have hsg := hwf sg List.mem_cons_self
    cases sg with
    | lit s =>
      simp only [Seg.wf, Bool.not_eq_true', ] at hsg
      have : render (.lit s :: r) = s ++ render r := by simp [render, Seg.render]
      rw [this, scan_lit look s hsg, segsDen, ← hr]
      cases scan look .text (render r) <;> rfl
    | pct =>
      have : render (.pct :: r) = 37 :: 37 :: render r := by simp [render, Seg.render]
      rw [this, scan_pct, segsDen, ← hr]
      cases scan look .text (render r) <;> rfl
    | ref n =>
      simp only [Seg.wf, Bool.not_eq_true'] at hsg
      have : render (.ref n :: r) = 37 :: 40 :: (n ++ 41 :: 115 :: render r) := by simp [render, Seg.render]
      rw [this, scan_ref look n hsg, segsDen, ← hr]
      cases look n with
      | error e => rfl
      | ok v => cases scan look .text (render r) <;> rfl

theorem interp_render (look : Str → Except Err Str) (segs : List Seg) (hwf : ∀ s ∈ segs, s.wf = true) :
    (interp look (render segs)).toOption = segsDen (fun n => (look n).toOption) segs :=
  interp_render_aux look segs hwf

end PlasVerif.Proofs.ConfigInterp
