import PlasVerif.Proofs.ConfigRouting
import PlasVerif.Proofs.ConfigDomain
/-!
The argparse namespace is keyed by `dest` (`option.name`).  When no two options share a `dest` and no option string is
registered twice, the slot an option reads back holds exactly what its *own* option strings stored: `updateOptD`
(as written) coincides with `updateOpt` (own occurrences).
-/
namespace PlasVerif.Proofs.ConfigDest
open PlasVerif.Model.Config PlasVerif.Spec.Config PlasVerif.Proofs.Config PlasVerif.Proofs.ConfigRouting
  PlasVerif.Proofs.ConfigDomain

/-- no two options share an argparse `dest` -/
def destsDistinct (T : Table) : Bool := (T.flatMap fun o => [o.dest]).Nodup
/-- no option string is registered twice (argparse refuses that at registration) -/
def flagsDistinct (T : Table) : Bool := (T.flatMap fun o => o.flags ++ o.noflags).Nodup
/-- the command-line side of a well-formed table -/
def WFcli (T : Table) : Bool := destsDistinct T && flagsDistinct T

theorem owns_sub (o : Opt) (f : Str) (h : owns o f = true) : f ∈ o.flags ++ o.noflags := by
  rw [owns_eq] at h; exact flagsOf_sub o f h

/-- the option whose action handles an option string is the option that lists it -/
theorem owner_unique {T : Table} (hf : flagsDistinct T = true) {i : Nat} {o o' : Opt} (hi : T[i]? = some o) {f : Str}
    (hfind : T.find? (owns · f) = some o') (ho : owns o f = true) : o' = o := by
  simp only [flagsDistinct, decide_eq_true_eq] at hf
  have hmem := List.mem_of_find?_eq_some hfind
  have hown : owns o' f = true := by simpa using List.find?_some hfind
  obtain ⟨i', hi'⟩ := List.getElem?_of_mem hmem
  have := flatMap_nodup_unique (fun o : Opt => o.flags ++ o.noflags) T hf i' i o' o f hi' hi (owns_sub o' f hown) (owns_sub o f ho)
  subst this
  rw [hi'] at hi
  exact Option.some.inj hi

theorem dest_unique {T : Table} (hd : destsDistinct T = true) {i : Nat} {o o' : Opt} (hi : T[i]? = some o)
    (hmem : o' ∈ T) (he : o'.dest = o.dest) : o' = o := by
  simp only [destsDistinct, decide_eq_true_eq] at hd
  obtain ⟨i', hi'⟩ := List.getElem?_of_mem hmem
  have := flatMap_nodup_unique (fun o : Opt => [o.dest]) T hd i' i o' o o.dest hi' hi (by simp [he]) (by simp)
  subst this
  rw [hi'] at hi
  exact Option.some.inj hi

/-- the slot of option `o` receives exactly `o`'s own occurrences, stored by `o`'s own action -/
theorem routed_eq {T : Table} (hw : WFcli T = true) {i : Nat} {o : Opt} (hi : T[i]? = some o) :
    ∀ (argv : List Occ), routed T o.dest argv = (occsOf o argv).map fun a => (o, a) := by
  simp only [WFcli, Bool.and_eq_true] at hw
  intro argv
  induction argv with
  | nil => rfl
  | cons a r ih =>
    simp only [routed, List.filterMap_cons, occsOf, List.filter_cons] at ih ⊢
    cases hown : owns o a.flag with
    | true =>
      have hsome : (T.find? (owns · a.flag)).isSome = true := by
        rw [List.find?_isSome]
        exact ⟨o, List.mem_of_getElem? hi, hown⟩
      obtain ⟨o', ho'⟩ := Option.isSome_iff_exists.mp hsome
      have := owner_unique hw.2 hi ho' hown
      subst this
      have hr1 : route1 T o'.dest a = some (o', a) := by simp [route1, ho']
      simp only [hr1, if_true, List.map_cons]
      rw [ih]
    | false =>
      have hr1 : route1 T o.dest a = none := by
        unfold route1
        cases hfind : T.find? (owns · a.flag) with
        | none => rfl
        | some o' =>
          by_cases he : o'.dest = o.dest
          · have := dest_unique hw.1 hi (List.mem_of_find?_eq_some hfind) he
            subst this
            have : owns o' a.flag = true := by simpa using List.find?_some hfind
            rw [hown] at this; cases this
          · simp [he]
      simp only [hr1, Bool.false_eq_true, if_false]
      exact ih

/-- after `parse_args` succeeded every occurrence of an option's own strings is well-formed for that option -/
theorem parseArgs_occOk {T : Table} (hw : WFcli T = true) {i : Nat} {o : Opt} (hi : T[i]? = some o) :
    ∀ (argv : List Occ), parseArgs T argv = .ok () → ∀ a ∈ occsOf o argv, occOk o a = true := by
  simp only [WFcli, Bool.and_eq_true] at hw
  intro argv
  induction argv with
  | nil => intro _ a ha; simp [occsOf] at ha
  | cons b r ih =>
    intro hp a ha
    simp only [parseArgs, List.foldlM_cons, bind, Except.bind] at hp
    cases hfind : T.find? (owns · b.flag) with
    | none => simp [hfind] at hp
    | some o' =>
      simp only [hfind] at hp
      by_cases hok : occOk o' b = true
      · simp only [hok, if_true, pure, Except.pure] at hp
        simp only [occsOf, List.filter_cons] at ha
        by_cases hown : owns o b.flag = true
        · simp only [hown, if_true, List.mem_cons] at ha
          rcases ha with rfl | ha
          · have := owner_unique hw.2 hi hfind hown
            subst this; exact hok
          · exact ih hp a ha
        · simp only [hown, Bool.false_eq_true, if_false] at ha
          exact ih hp a ha
      · simp [hok] at hp

/-! ### what the slot holds -/

theorem store_bool (o : Opt) (hty : o.ty = .atom .bool) : ∀ (occs : List Occ) (ns : NS),
    (occs.map fun a => (o, a)).foldlM store ns =
      .ok (match occs.getLast? with | none => ns | some a => .atom (.bool (o.flags.contains a.flag))) := by
  intro occs
  induction occs with
  | nil => intro ns; rfl
  | cons a r ih =>
    intro ns
    simp only [List.map_cons, List.foldlM_cons, store, hty, bind, Except.bind, pure, Except.pure]
    rw [ih]
    cases r with
    | nil => rfl
    | cons b r' =>
      rw [List.getLast?_cons_cons]
      cases hl : (b :: r').getLast? with
      | none => simp at hl
      | some c => rfl

theorem store_atom (o : Opt) (t : ATy) (hty : o.ty = .atom t) (hnb : t ≠ .bool) : ∀ (occs : List Occ) (ns : NS),
    (∀ a ∈ occs, occOk o a = true) →
    ∃ r, (occs.map fun a => (o, a)).foldlM store ns = .ok r ∧
      (occs.getLast? = none → r = ns) ∧
      (∀ a, occs.getLast? = some a → ∃ s x, a.args = [s] ∧ atomFromString false t s = .ok x ∧ r = .atom x) := by
  intro occs
  induction occs with
  | nil => intro ns _; exact ⟨ns, rfl, fun _ => rfl, fun a h => by simp at h⟩
  | cons a r ih =>
    intro ns hok
    have ha := hok a List.mem_cons_self
    have : ∃ s x, a.args = [s] ∧ atomFromString false t s = .ok x := by
      cases t with
      | bool => exact absurd rfl hnb
      | str | int | flt =>
        simp only [occOk, hty] at ha
        match hargs : a.args with
        | [s] =>
          simp only [hargs] at ha
          cases hc : atomFromString false _ s with
          | ok x => exact ⟨s, x, rfl, hc⟩
          | error e => simp [hc] at ha
        | [] => simp [hargs] at ha
        | _ :: _ :: _ => simp [hargs] at ha
    obtain ⟨s, x, hargs, hc⟩ := this
    have hstep : store ns (o, a) = .ok (.atom x) := by
      cases t with
      | bool => exact absurd rfl hnb
      | str | int | flt => simp [store, hty, hargs, hc, pure, Except.pure]
    obtain ⟨r', hr', h1, h2⟩ := ih (.atom x) (fun b hb => hok b (List.mem_cons_of_mem _ hb))
    refine ⟨r', by simp only [List.map_cons, List.foldlM_cons, hstep, bind, Except.bind]; exact hr', by simp, ?_⟩
    intro b hb
    cases r with
    | nil =>
      simp only [List.getLast?_singleton, Option.some.injEq] at hb
      subst hb
      exact ⟨s, x, hargs, hc, h1 rfl⟩
    | cons c r'' =>
      rw [List.getLast?_cons_cons] at hb
      exact h2 b hb

theorem store_append (o : Opt) (hna : ∀ t, o.ty ≠ .atom t) : ∀ (occs : List Occ) (xs : List (List Str)),
    (occs.map fun a => (o, a)).foldlM store (.lists xs) = .ok (.lists (xs ++ occs.map (·.args))) := by
  intro occs
  induction occs with
  | nil => intro xs; simp [pure, Except.pure]
  | cons a r ih =>
    intro xs
    have hstep : store (.lists xs) (o, a) = .ok (.lists (xs ++ [a.args])) := by
      unfold store
      cases hty : o.ty with
      | atom t => exact absurd hty (hna t)
      | list => rfl
      | dict t l => rfl
    simp only [List.map_cons, List.foldlM_cons, hstep, bind, Except.bind]
    rw [ih]; simp

theorem store_append_none (o : Opt) (hna : ∀ t, o.ty ≠ .atom t) (occs : List Occ) :
    (occs.map fun a => (o, a)).foldlM store .none =
      .ok (match occs with | [] => .none | _ :: _ => .lists (occs.map (·.args))) := by
  cases occs with
  | nil => rfl
  | cons a r =>
    have hstep : store .none (o, a) = .ok (.lists [a.args]) := by
      unfold store
      cases hty : o.ty with
      | atom t => exact absurd hty (hna t)
      | list => rfl
      | dict t l => rfl
    simp only [List.map_cons, List.foldlM_cons, hstep, bind, Except.bind]
    rw [store_append o hna]; simp

/-- **`updateFromDict` of one option, as written, is its own-occurrences reading** on a table with unambiguous
    dests and option strings, after `parse_args` accepted the command line -/
theorem updateOptD_eq {T : Table} (hw : WFcli T = true) {i : Nat} {o : Opt} (hi : T[i]? = some o) (argv : List Occ)
    (hp : parseArgs T argv = .ok ()) (cur : Val) (ht : typedVal o.ty cur = true) :
    updateOptD T o cur argv = updateOpt o cur argv := by
  have hrt := routed_eq hw hi argv
  have hok := parseArgs_occOk hw hi argv hp
  unfold updateOptD updateOpt namespaceAt
  rw [hrt]
  generalize occsOf o argv = occs at hok ⊢
  cases hty : o.ty with
  | atom t =>
    cases t with
    | bool =>
      simp only [store_bool o hty, bind, Except.bind]
      cases occs.getLast? <;> rfl
    | str =>
      obtain ⟨r, hr, h1, h2⟩ := store_atom o .str hty (by decide) occs .none hok
      simp only [hr, bind, Except.bind]
      cases hl : occs.getLast? with
      | none => rw [h1 hl]
      | some a =>
        obtain ⟨s, x, hargs, hc, rfl⟩ := h2 a hl
        simp [hargs, hc, Functor.map, Except.map, pure, Except.pure]
    | int =>
      obtain ⟨r, hr, h1, h2⟩ := store_atom o .int hty (by decide) occs .none hok
      simp only [hr, bind, Except.bind]
      cases hl : occs.getLast? with
      | none => rw [h1 hl]
      | some a =>
        obtain ⟨s, x, hargs, hc, rfl⟩ := h2 a hl
        simp [hargs, hc, Functor.map, Except.map, pure, Except.pure]
    | flt =>
      obtain ⟨r, hr, h1, h2⟩ := store_atom o .flt hty (by decide) occs .none hok
      simp only [hr, bind, Except.bind]
      cases hl : occs.getLast? with
      | none => rw [h1 hl]
      | some a =>
        obtain ⟨s, x, hargs, hc, rfl⟩ := h2 a hl
        simp [hargs, hc, Functor.map, Except.map, pure, Except.pure]
  | list =>
    rw [store_append_none o (by intro t h; rw [hty] at h; cases h)]
    simp only [hty] at ht
    cases cur with
    | list ys =>
      cases occs with
      | nil => simp [bind, Except.bind, pure, Except.pure]
      | cons a r => simp [bind, Except.bind, pure, Except.pure]
    | atom a => simp [typedVal] at ht
    | dict k => simp [typedVal] at ht
  | dict t l =>
    rw [store_append_none o (by intro t h; rw [hty] at h; cases h)]
    cases occs with
    | nil => simp [bind, Except.bind, pure, Except.pure]
    | cons a r => simp [bind, Except.bind, List.foldlM_map]

end PlasVerif.Proofs.ConfigDest
