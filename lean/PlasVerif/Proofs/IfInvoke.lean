import PlasVerif.Model.IfInvoke
import PlasVerif.Proofs.Numbers
import PlasVerif.Proofs.Dimen
import PlasVerif.Proofs.IfScan
/-! Helper lemmas for the token-level part of C03 (`Model/IfInvoke.lean`).  They reuse the scanner lemmas
    proved for C05 (`Proofs/Numbers.lean`). -/
namespace PlasVerif.Proofs.IfInvoke
open PlasVerif.Model.Numbers PlasVerif.Model.Args PlasVerif.Model.IfInvoke
open PlasVerif.Spec.Literals PlasVerif.Spec.Conform PlasVerif.Proofs.Numbers
open PlasVerif.Model.IfScan (Which)

theorem flagless_eq_erase (t : Tok) : flagless t = erase t := by cases t <;> rfl

theorem classify_flagless (t : Tok) : classify (flagless t) = classify t := by
  cases t <;> simp [flagless, classify]

theorem classify_congr (a b : Tok) (h : flagless a = flagless b) : classify a = classify b := by
  rw [← classify_flagless a, ← classify_flagless b, h]

theorem classify_expand (t : Tok) : classify (expand t) = classify t := by
  apply classify_congr; rw [flagless_eq_erase, flagless_eq_erase, erase_expand]

theorem map_classify_sameText (a b : List Tok) (h : sameText a b) : a.map classify = b.map classify := by
  unfold sameText at h
  induction a generalizing b with
  | nil => cases b with
    | nil => rfl
    | cons y ys => simp at h
  | cons x xs ih =>
    cases b with
    | nil => simp at h
    | cons y ys =>
      simp only [List.map_cons, List.cons.injEq] at h ⊢
      exact ⟨classify_congr x y (by rw [flagless_eq_erase, flagless_eq_erase]; exact h.1), ih ys h.2⟩

theorem ros_idem (ts : List Tok) : readOptionalSpaces (readOptionalSpaces ts) = readOptionalSpaces ts := by
  induction ts with
  | nil => rfl
  | cons t ts ih =>
    by_cases h : t = .sp
    · simp [readOptionalSpaces, h, ih]
    · simp [readOptionalSpaces, h]

theorem readInteger_ros (opt : Bool) (ts : List Tok) : readInteger opt (readOptionalSpaces ts) = readInteger opt ts := by
  simp only [readInteger, readOptionalSigns, ros_idem]

theorem ros_ch (c : Nat) (ts : List Tok) : readOptionalSpaces (.ch c :: ts) = .ch c :: ts := by
  simp [readOptionalSpaces]

theorem settle_ch (c : Nat) (ts : List Tok) : settle (.ch c :: ts) = .ch c :: ts := rfl

/-- a relation character cannot continue any integer literal -/
theorem intFollow_rel (l : IntLit) (c : Nat) (ts : List Tok) (hc : c = 60 ∨ c = 61 ∨ c = 62) :
    intFollow l (.ch c :: ts) = true := by
  unfold intFollow
  rcases hc with rfl | rfl | rfl <;> cases l.body <;> cases l.space <;>
    simp [stops, noSp, notReg, isDigit, isOct, isHex]

/-- the argument loop of `ifnum`: number, then the relation token -/
theorem parse_num_rel (l : IntLit) (c : Nat) (ts : List Tok) (hw : l.wf = true) (hc : c = 60 ∨ c = 61 ∨ c = 62) :
    ∃ ss, parse [numArg, tokArg] (l.render ++ .ch c :: ts) = .ok ([.int l.den, .toks [.ch c]], ss, ts) := by
  obtain ⟨r', hr, hex⟩ := integer_reads_exact l (.ch c :: ts) hw (intFollow_rel l c ts hc)
  have hr' : r' = .ch c :: ts := by rcases hex with h | h <;> simp [h, settle_ch]
  subst hr'
  refine ⟨[none, some [.ch c]], ?_⟩
  simp only [parse, readArgument, numArg, tokArg, readInteger_ros, hr, ros_ch]
  simp

theorem relChain_rel (c : Nat) (lt gt eq : Bool) (hc : c = 60 ∨ c = 61 ∨ c = 62) :
    relChain (relOf (.toks [.ch c])) lt gt eq =
      .ok (.bool (if c = 60 then lt else if c = 62 then gt else eq)) := by
  rcases hc with rfl | rfl | rfl <;> simp [relChain, relOf]

theorem decode_zero (v a : Rat) (h : decode v = (0, a)) : v = a := by
  unfold decode at h
  split at h
  · simp at h
  · split at h
    · simp at h
    · split at h
      · simp at h
      · simpa using h

theorem readDimenWith_ros (comb : Rat → Rat → Rat) (units : List (List Nat × Rat)) (ts : List Tok) :
    readDimenWith comb units (readOptionalSpaces ts) = readDimenWith comb units ts := by
  simp only [readDimenWith, readOptionalSigns, ros_idem]

/-- `readDimen()` (the table of `dimen.units`) on a conforming dimension literal of order 0: its TeX amount -/
theorem readDimen_lit (l : DimLit) (R : List Tok) (hw : dimWf false l = true) (hf : dimFollow l R = true)
    (ho : l.den.order = 0) :
    readDimen PlasVerif.Generated.Units.dimenUnits (l.render ++ R) = .ok (l.den.amount, R) := by
  have hL : filOK l R = true := by unfold dimFollow at hf; simp only [Bool.and_eq_true] at hf; exact hf.1
  obtain ⟨v, hv, hd⟩ := PlasVerif.Proofs.Dimen.dimen_core false l R hw hL
  rw [PlasVerif.Proofs.Dimen.dimRest_follow l R hf] at hv
  rw [ho] at hd
  have := decode_zero v _ hd
  subst this
  simpa [readDimen, PlasVerif.Proofs.Dimen.tableFor] using hv

end PlasVerif.Proofs.IfInvoke
