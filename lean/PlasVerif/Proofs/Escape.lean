import PlasVerif.Model.Escape
import PlasVerif.Spec.HtmlText
/-! Helper lemmas for C12 (escaping, numeric references, clean-up scanners, render recursion). -/
namespace PlasVerif.Proofs.Escape
open PlasVerif.Generated.Escape PlasVerif.Model.Escape PlasVerif.Spec.HtmlText

/-! ### the replace chain is a character-wise substitution -/

@[simp] theorem applyChain_nil (s : List Nat) : applyChain [] s = s := rfl
@[simp] theorem applyChain_cons (p : Nat × List Nat) (ps : List (Nat × List Nat)) (s : List Nat) :
    applyChain (p :: ps) s = applyChain ps (replaceChar p.1 p.2 s) := rfl

theorem replaceChar_append (c : Nat) (r a b : List Nat) :
    replaceChar c r (a ++ b) = replaceChar c r a ++ replaceChar c r b := by
  induction a with
  | nil => simp [replaceChar]
  | cons x xs ih =>
    simp only [List.cons_append, replaceChar]
    split <;> simp [ih]

theorem applyChain_append (ch : List (Nat × List Nat)) (a b : List Nat) :
    applyChain ch (a ++ b) = applyChain ch a ++ applyChain ch b := by
  induction ch generalizing a b with
  | nil => simp
  | cons p ps ih => simp [replaceChar_append, ih]

theorem applyChain_empty (ch : List (Nat × List Nat)) : applyChain ch [] = [] := by
  induction ch with
  | nil => rfl
  | cons p ps ih => simp [replaceChar, ih]

theorem applyChain_flatMap (ch : List (Nat × List Nat)) (s : List Nat) :
    applyChain ch s = s.flatMap (fun c => applyChain ch [c]) := by
  induction s with
  | nil => simp [applyChain_empty]
  | cons x xs ih =>
    have : x :: xs = [x] ++ xs := rfl
    rw [this, applyChain_append, ih]
    simp

/-- the image of one character under the generated chain -/
theorem escChar_eq (c : Nat) :
    applyChain chain [c] =
      if c = 38 then [38, 97, 109, 112, 59] else if c = 60 then [38, 108, 116, 59]
      else if c = 62 then [38, 103, 116, 59] else [c] := by
  by_cases h1 : c = 38
  · subst h1; decide
  · by_cases h2 : c = 60
    · subst h2; decide
    · by_cases h3 : c = 62
      · subst h3; decide
      · simp [chain, replaceChar, h1, h2, h3]

theorem escape_cons (c : Nat) (t : List Nat) :
    applyChain chain (c :: t) = applyChain chain [c] ++ applyChain chain t := by
  have : c :: t = [c] ++ t := rfl
  rw [this, applyChain_append]

/-! ### the reader on references -/

theorem decode_nil : decode [] = [] := by rw [decode]

theorem decode_cons_ne {c : Nat} (h : c ≠ 38) (t : List Nat) : decode (c :: t) = c :: decode t := by
  rw [decode]; simp [h]

theorem decode_amp_some {t : List Nat} {d : Nat} {r : List Nat} (h : matchRef t = some (d, r)) :
    decode (38 :: t) = d :: decode r := by
  rw [decode]
  simp only [if_true]
  split
  · rename_i d' r' h'
    rw [h] at h'
    cases h'
    rfl
  · rename_i h'
    rw [h] at h'
    cases h'

theorem decode_amp_none {t : List Nat} (h : matchRef t = none) :
    decode (38 :: t) = 38 :: decode t := by
  rw [decode]
  simp only [if_true]
  split
  · rename_i d' r' h'
    rw [h] at h'
    cases h'
  · rfl

theorem matchRef_amp (t : List Nat) : matchRef (97 :: 109 :: 112 :: 59 :: t) = some (38, t) := by
  simp [matchRef, matchNamed, namedRefs, stripPrefix?]
theorem matchRef_lt (t : List Nat) : matchRef (108 :: 116 :: 59 :: t) = some (60, t) := by
  simp [matchRef, matchNamed, namedRefs, stripPrefix?]
theorem matchRef_gt (t : List Nat) : matchRef (103 :: 116 :: 59 :: t) = some (62, t) := by
  simp [matchRef, matchNamed, namedRefs, stripPrefix?]

/-- reading the image of one character gives the character back, whatever follows -/
theorem decode_escChar (c : Nat) (t : List Nat) : decode (applyChain chain [c] ++ t) = c :: decode t := by
  rw [escChar_eq]
  split
  · rename_i h; subst h; exact decode_amp_some (matchRef_amp t)
  · split
    · rename_i h; subst h; exact decode_amp_some (matchRef_lt t)
    · split
      · rename_i h; subst h; exact decode_amp_some (matchRef_gt t)
      · rename_i h _ _; exact decode_cons_ne h t

theorem decode_escape_append (s t : List Nat) : decode (applyChain chain s ++ t) = s ++ decode t := by
  induction s with
  | nil => simp [applyChain_empty]
  | cons c cs ih => rw [escape_cons, List.append_assoc, decode_escChar, ih]; rfl

theorem not_mem_escChar (c : Nat) : 60 ∉ applyChain chain [c] ∧ 62 ∉ applyChain chain [c] := by
  rw [escChar_eq]
  split
  · simp
  · split
    · simp
    · split
      · simp
      · rename_i h1 h2 h3
        simp
        omega

theorem refsOnly_escape (s : List Nat) : refsOnly (applyChain chain s) = true := by
  induction s with
  | nil => simp [applyChain_empty, refsOnly]
  | cons c cs ih =>
    rw [escape_cons, escChar_eq]
    split
    · simp [refsOnly, matchRef_amp, ih]
    · split
      · simp [refsOnly, matchRef_lt, ih]
      · split
        · simp [refsOnly, matchRef_gt, ih]
        · rename_i h _ _
          simp [refsOnly, h, ih]

/-! ### decimal digits -/

theorem decDigits_isDigit (n : Nat) : ∀ d ∈ decDigits n, isDigit d = true := by
  fun_induction decDigits n with
  | case1 n h => intro d hd; simp at hd; subst hd; simp [isDigit]; omega
  | case2 n h ih =>
    intro d hd
    simp at hd
    rcases hd with hd | hd
    · exact ih d hd
    · subst hd; simp [isDigit]; omega

theorem decDigits_ne_nil (n : Nat) : decDigits n ≠ [] := by
  rw [decDigits]; split <;> simp

theorem parseDec_append_one (a : List Nat) (d : Nat) : parseDec (a ++ [d]) = parseDec a * 10 + (d - 48) := by
  simp [parseDec, List.foldl_append]

theorem parseDec_decDigits (n : Nat) : parseDec (decDigits n) = n := by
  fun_induction decDigits n with
  | case1 n h => simp [parseDec]
  | case2 n h ih => rw [parseDec_append_one, ih]; omega

theorem parseDec_zeros (k : Nat) (ds : List Nat) : parseDec (List.replicate k 48 ++ ds) = parseDec ds := by
  induction k with
  | zero => simp
  | succ k ih =>
    simp only [List.replicate_succ, List.cons_append]
    unfold parseDec at ih ⊢
    simpa using ih

theorem padZeros_isDigit (k : Nat) (ds : List Nat) (h : ∀ d ∈ ds, isDigit d = true) :
    ∀ d ∈ padZeros k ds, isDigit d = true := by
  intro d hd
  simp [padZeros] at hd
  rcases hd with ⟨_, hd⟩ | hd
  · subst hd; decide
  · exact h d hd

theorem spanDigits_digits (ds : List Nat) (h : ∀ d ∈ ds, isDigit d = true) (x : Nat) (hx : isDigit x = false)
    (t : List Nat) : spanDigits (ds ++ x :: t) = (ds, x :: t) := by
  induction ds with
  | nil => simp [spanDigits, hx]
  | cons d ds ih =>
    have hd : isDigit d = true := h d (by simp)
    have := ih (fun e he => h e (by simp [he]))
    simp [spanDigits, hd, this]

theorem matchNamed_hash (u : List Nat) : matchNamed namedRefs (35 :: u) = none := by
  simp [matchNamed, namedRefs, stripPrefix?]

theorem numericTail_semi (d : Nat) (ds r : List Nat) :
    numericTail (d :: ds) (59 :: r) = some (parseDec (d :: ds), r) := rfl

theorem numericTail_nil (r : List Nat) : numericTail [] r = none := by
  unfold numericTail; split <;> simp_all

theorem numericTail_ne (ds : List Nat) (z : Nat) (r : List Nat) (hz : z ≠ 59) :
    numericTail ds (z :: r) = none := by
  unfold numericTail; split <;> simp_all

theorem numericTail_end (ds : List Nat) : numericTail ds [] = none := by
  unfold numericTail; split <;> simp_all

theorem matchRef_numeric (ds : List Nat) (hne : ds ≠ []) (h : ∀ d ∈ ds, isDigit d = true) (t : List Nat) :
    matchRef (35 :: (ds ++ 59 :: t)) = some (parseDec ds, t) := by
  have hs := spanDigits_digits ds h 59 (by decide) t
  cases ds with
  | nil => exact absurd rfl hne
  | cons d ds' =>
    simp only [matchRef, matchNamed_hash, matchNumeric]
    rw [hs]
    exact numericTail_semi d ds' t

/-- reading a numeric reference produced by `numRef` gives the code point back -/
theorem decode_numRef (c : Nat) (t : List Nat) : decode (numRef c ++ t) = c :: decode t := by
  have hd := padZeros_isDigit highPad (decDigits c) (decDigits_isDigit c)
  have hne : padZeros highPad (decDigits c) ≠ [] := by
    simp [padZeros, decDigits_ne_nil]
  have hm := matchRef_numeric _ hne hd t
  have hp : parseDec (padZeros highPad (decDigits c)) = c := by
    simp [padZeros, parseDec_zeros, parseDec_decDigits]
  have : numRef c ++ t = 38 :: 35 :: (padZeros highPad (decDigits c) ++ 59 :: t) := by
    simp [numRef]
  rw [this, decode_amp_some hm, hp]

/-! ### escape-high-chars commutes with reading -/

theorem escapeHigh_nil : escapeHigh [] = [] := rfl

theorem escapeHigh_cons_high {c : Nat} (h : c > 127) (t : List Nat) :
    escapeHigh (c :: t) = 38 :: 35 :: (padZeros highPad (decDigits c) ++ 59 :: escapeHigh t) := by
  simp [escapeHigh, highThreshold, h, numRef]

theorem escapeHigh_cons_low {c : Nat} (h : ¬ c > 127) (t : List Nat) :
    escapeHigh (c :: t) = c :: escapeHigh t := by
  simp [escapeHigh, highThreshold, h]

theorem stripPrefix?_escapeHigh (p : List Nat) (hp : ∀ x ∈ p, x ≤ 127 ∧ x ≠ 38) (t : List Nat) :
    stripPrefix? p (escapeHigh t) = (stripPrefix? p t).map escapeHigh := by
  induction p generalizing t with
  | nil => simp [stripPrefix?]
  | cons x ps ih =>
    have hx := hp x (by simp)
    cases t with
    | nil => simp [stripPrefix?, escapeHigh_nil]
    | cons y t' =>
      by_cases hy : y > 127
      · rw [escapeHigh_cons_high hy]
        have : x ≠ y := by omega
        simp [stripPrefix?, hx.2, this]
      · rw [escapeHigh_cons_low hy]
        simp only [stripPrefix?]
        split
        · exact ih (fun z hz => hp z (by simp [hz])) t'
        · rfl

theorem matchNamed_escapeHigh (tbl : List (List Nat × Nat)) (h : ∀ e ∈ tbl, ∀ x ∈ e.1, x ≤ 127 ∧ x ≠ 38) (t : List Nat) :
    matchNamed tbl (escapeHigh t) = (matchNamed tbl t).map (fun p => (p.1, escapeHigh p.2)) := by
  induction tbl with
  | nil => simp [matchNamed]
  | cons e more ih =>
    obtain ⟨p, d⟩ := e
    have hp := h (p, d) (by simp)
    simp only [matchNamed]
    rw [stripPrefix?_escapeHigh p hp t]
    cases hs : stripPrefix? p t with
    | none => simpa using ih (fun e he => h e (by simp [he]))
    | some r => simp

theorem namedRefs_ascii : ∀ e ∈ namedRefs, ∀ x ∈ e.1, x ≤ 127 ∧ x ≠ 38 := by decide

theorem spanDigits_escapeHigh (t : List Nat) :
    spanDigits (escapeHigh t) = ((spanDigits t).1, escapeHigh (spanDigits t).2) := by
  induction t with
  | nil => simp [spanDigits, escapeHigh_nil]
  | cons y t' ih =>
    by_cases hy : y > 127
    · have hnd : isDigit y = false := by simp [isDigit]; omega
      rw [escapeHigh_cons_high hy]
      simp only [spanDigits, hnd]
      simp [isDigit, escapeHigh_cons_high hy]
    · rw [escapeHigh_cons_low hy]
      simp only [spanDigits]
      split
      · simp [ih]
      · simp [escapeHigh_cons_low hy]

theorem numericTail_escapeHigh (ds r : List Nat) :
    numericTail ds (escapeHigh r) = (numericTail ds r).map (fun p => (p.1, escapeHigh p.2)) := by
  cases ds with
  | nil => simp [numericTail_nil]
  | cons d ds =>
    cases r with
    | nil => simp [escapeHigh_nil, numericTail_end]
    | cons z r' =>
      by_cases hz : z = 59
      · subst hz
        rw [escapeHigh_cons_low (by omega), numericTail_semi, numericTail_semi]; rfl
      · by_cases hy : z > 127
        · rw [escapeHigh_cons_high hy, numericTail_ne _ 38 _ (by omega), numericTail_ne _ z _ hz]; rfl
        · rw [escapeHigh_cons_low hy, numericTail_ne _ z _ hz, numericTail_ne _ z _ hz]; rfl

theorem matchNumeric_escapeHigh (t : List Nat) :
    matchNumeric (escapeHigh t) = (matchNumeric t).map (fun p => (p.1, escapeHigh p.2)) := by
  cases t with
  | nil => simp [matchNumeric, escapeHigh_nil]
  | cons y u =>
    by_cases hy : y > 127
    · rw [escapeHigh_cons_high hy]
      have : y ≠ 35 := by omega
      simp [matchNumeric, this]
    · rw [escapeHigh_cons_low hy]
      by_cases h35 : y = 35
      · subst h35
        simp only [matchNumeric]
        rw [spanDigits_escapeHigh u]
        exact numericTail_escapeHigh _ _
      · simp [matchNumeric, h35]

theorem matchRef_escapeHigh (t : List Nat) :
    matchRef (escapeHigh t) = (matchRef t).map (fun p => (p.1, escapeHigh p.2)) := by
  simp only [matchRef]
  rw [matchNamed_escapeHigh namedRefs namedRefs_ascii t]
  cases matchNamed namedRefs t with
  | some x => simp
  | none => simpa using matchNumeric_escapeHigh t

theorem decode_escapeHigh_aux : ∀ (n : Nat) (f : List Nat), f.length ≤ n → decode (escapeHigh f) = decode f := by
  intro n
  induction n with
  | zero =>
    intro f hf
    cases f with
    | nil => rfl
    | cons c t => simp at hf
  | succ n ih =>
    intro f hf
    cases f with
    | nil => rfl
    | cons c t =>
      simp only [List.length_cons] at hf
      by_cases hc : c = 38
      · subst hc
        rw [escapeHigh_cons_low (by omega)]
        have hm := matchRef_escapeHigh t
        cases hr : matchRef t with
        | none =>
          rw [hr] at hm
          rw [decode_amp_none hm, decode_amp_none hr, ih t (by omega)]
        | some p =>
          obtain ⟨d, r⟩ := p
          rw [hr] at hm
          have hl := matchRef_length t d r hr
          rw [decode_amp_some hm, decode_amp_some hr, ih r (by omega)]
      · by_cases hy : c > 127
        · have e : escapeHigh (c :: t) = numRef c ++ escapeHigh t := by simp [escapeHigh, highThreshold, hy]
          rw [e, decode_numRef, decode_cons_ne hc, ih t (by omega)]
        · rw [escapeHigh_cons_low hy, decode_cons_ne hc, decode_cons_ne hc, ih t (by omega)]

theorem decode_escapeHigh (f : List Nat) : decode (escapeHigh f) = decode f :=
  decode_escapeHigh_aux f.length f (Nat.le_refl _)

theorem escapeHigh_ascii (f : List Nat) : ∀ x ∈ escapeHigh f, x ≤ 127 := by
  intro x hx
  simp only [escapeHigh, List.mem_flatMap] at hx
  obtain ⟨c, _, hx⟩ := hx
  split at hx
  · simp only [numRef, List.mem_append, List.mem_cons, List.not_mem_nil, or_false] at hx
    rcases hx with (hx | hx) | hx
    · omega
    · have := padZeros_isDigit highPad (decDigits c) (decDigits_isDigit c) x hx
      simp [isDigit] at this; omega
    · omega
  · rename_i h
    simp [highThreshold] at h hx
    omega

theorem escapeHigh_id_of_ascii (f : List Nat) (h : ∀ x ∈ f, x ≤ 127) : escapeHigh f = f := by
  induction f with
  | nil => rfl
  | cons c t ih =>
    rw [escapeHigh_cons_low (by have := h c (by simp); omega), ih (fun x hx => h x (by simp [hx]))]

/-! ### the clean-up scanners only ever start at a `<` -/

theorem subWith_id (m : List Nat → Option (List Nat × List Nat))
    (hm : ∀ c cs r, m (c :: cs) = some r → c = 60) :
    ∀ (fuel : Nat) (s : List Nat), 60 ∉ s → subWith m fuel s = s := by
  intro fuel
  induction fuel with
  | zero => intro s _; simp [subWith]
  | succ f ih =>
    intro s hs
    cases s with
    | nil => simp [subWith]
    | cons c cs =>
      simp only [subWith]
      cases hmm : m (c :: cs) with
      | some r => exact absurd (hm c cs r hmm) (by intro h; subst h; simp at hs)
      | none => simp [ih cs (by intro h; exact hs (by simp [h]))]

theorem ciMatch_lt (c : Nat) : ciMatch 60 c = true → c = 60 := by
  have : ciClasses.lookup 60 = none := by decide
  simp [ciMatch, this]
  intro h; exact h.symm

theorem ciPrefix_lt (ps : List Nat) (c : Nat) (cs : List Nat) (r : List Nat × List Nat) :
    ciPrefix? (60 :: ps) (c :: cs) = some r → c = 60 := by
  intro h
  simp only [ciPrefix?] at h
  split at h
  · rename_i hc; exact ciMatch_lt c hc
  · cases h

theorem matchEmptyPara_lt (c : Nat) (cs : List Nat) (r : List Nat × List Nat) :
    matchEmptyPara (c :: cs) = some r → c = 60 := by
  intro h
  unfold matchEmptyPara at h
  split at h
  · cases h
  · rename_i m1 r1 h1; exact ciPrefix_lt _ c cs _ h1

theorem matchEmptyCell_lt (c : Nat) (cs : List Nat) (r : List Nat × List Nat) :
    matchEmptyCell (c :: cs) = some r → c = 60 := by
  intro h
  unfold matchEmptyCell at h
  split at h
  · cases h
  · rename_i m1 r1 h1; exact ciPrefix_lt _ c cs _ h1

theorem matchVoidTag_lt (c : Nat) (cs : List Nat) (r : List Nat × List Nat) :
    matchVoidTag (c :: cs) = some r → c = 60 := by
  intro h
  unfold matchVoidTag at h
  split at h
  · rename_i r1 heq; cases heq; rfl
  · cases h

/-! ### tags and text of rendered trees -/

theorem stripTagsAux_noLt (a b : List Nat) (h : 60 ∉ a) :
    stripTagsAux false (a ++ b) = a ++ stripTagsAux false b := by
  induction a with
  | nil => rfl
  | cons c cs ih =>
    have hc : c ≠ 60 := by intro e; subst e; simp at h
    simp [stripTagsAux, hc, ih (by intro e; exact h (by simp [e]))]

theorem not_lt_mem_escape (s : List Nat) : 60 ∉ applyChain chain s ∧ 62 ∉ applyChain chain s := by
  rw [applyChain_flatMap]
  simp only [List.mem_flatMap, not_exists, not_and]
  exact ⟨fun c _ => (not_mem_escChar c).1, fun c _ => (not_mem_escChar c).2⟩

end PlasVerif.Proofs.Escape
