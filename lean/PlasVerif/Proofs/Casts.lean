import PlasVerif.Spec.Values
import PlasVerif.Proofs.Glue
import PlasVerif.Proofs.Args
/-! The casts of `readArgumentAndSource`: lists, dictionaries, strings and the numeric types. -/
namespace PlasVerif.Proofs.Casts
open PlasVerif.Model.Numbers PlasVerif.Model.Args PlasVerif.Spec.Values PlasVerif.Spec.Literals PlasVerif.Spec.Conform
open PlasVerif.Proofs.Numbers PlasVerif.Proofs.Args PlasVerif.Proofs.Keyword

/-! ### lists -/

theorem splitTop_item (d : Nat) (it : List Tok) : ∀ (k k' : Nat) (cur r : List Tok), itemScan d k it = some k' →
    splitTop d k cur (it ++ r) = splitTop d k' (it.reverse ++ cur) r := by
  induction it with
  | nil => intro k k' cur r h; simp [itemScan] at h; subst h; simp
  | cons t ts ih =>
    intro k k' cur r h
    by_cases hb : isBg t = true
    · simp only [itemScan, hb, if_true] at h
      simp [splitTop, hb, ih (k + 1) k' (t :: cur) r h]
    · by_cases he : isEg t = true
      · simp only [itemScan, hb, he, if_true] at h
        cases k with
        | zero => simp at h
        | succ k0 =>
          simp only at h
          simp [splitTop, hb, he, ih k0 k' (t :: cur) r h]
      · by_cases hd : (k = 0 && spells d t) = true
        · simp [itemScan, hb, he, hd] at h
        · simp only [itemScan, hb, he, hd] at h
          simp only [List.cons_append, splitTop, hb, he, hd]
          simp [ih k k' (t :: cur) r h]

/-- splitting at the delimiter recovers exactly the items written (brace groups protect the delimiter) -/
theorem splitTop_join (d : Nat) (items : List (List Tok)) (hne : items ≠ []) (hok : ∀ it ∈ items, itemOK d it = true) :
    splitTop d 0 [] (joinItems d items) = items := by
  induction items with
  | nil => exact absurd rfl hne
  | cons it rest ih =>
    have hit : itemScan d 0 it = some 0 := by simpa [itemOK] using hok it (List.mem_cons_self)
    cases rest with
    | nil =>
      have := splitTop_item d it 0 0 [] [] hit
      simp only [List.append_nil] at this
      simp [joinItems, this, splitTop]
    | cons it2 rest2 =>
      have h2 := ih (by simp) (fun x hx => hok x (List.mem_cons_of_mem _ hx))
      have := splitTop_item d it 0 0 [] (.ch d :: joinItems d (it2 :: rest2)) hit
      simp only [joinItems, List.append_nil] at this ⊢
      rw [this]
      simp [splitTop, isBg, isEg, spells, h2]

theorem mapM_ok {α β ε} (f : α → β) (xs : List α) :
    xs.mapM (fun x => (Except.ok (f x) : Except ε β)) = .ok (xs.map f) := by
  induction xs with
  | nil => rfl
  | cons x xs ih => simp [List.mapM_cons, ih, bind, Except.bind, pure, Except.pure]

theorem normalizeItem_eq (it : List Tok) : normalizeItem it = itemVal it := rfl

/-- **Lists.** A list argument whose items are brace balanced and show the delimiter only inside braces is cast to
    exactly the list of its items (text stripped; an item with a group kept as tokens). -/
theorem castList_items (d : Nat) (items : List (List Tok)) (hne : items ≠ []) (hok : ∀ it ∈ items, itemOK d it = true) :
    castList d .none (joinItems d items) = .ok (listVal items) := by
  have hf : (fun ts => castItem .none ts) = (fun ts => (Except.ok (itemVal ts) : Except PlasVerif.Model.Args.Err Val)) := by
    funext ts; simp [castItem, normalizeItem_eq]
  have hc : castItem .none = (fun ts => (Except.ok (itemVal ts) : Except PlasVerif.Model.Args.Err Val)) := hf
  simp only [castList, splitTop_join d items hne hok, hc, mapM_ok, listVal, Except.map]

/-- the empty argument `{}` is the list with one empty item -/
theorem castList_empty (d : Nat) : castList d .none [] = .ok (.list [.str []]) := by
  simp [castList, splitTop, castItem, normalizeItem, hasGroup, textOf, strip, stripL, List.mapM_cons, bind, Except.bind, pure,
    Except.pure, Except.map]


/-! ### numeric types: `readInternalType` -/

theorem dropRelax_relax (x : Bool) (rest : List Tok) : dropRelax (.cs relax x :: rest) = rest := by
  simp [dropRelax, isRelax]

theorem intFollow_relax (l : IntLit) (rest : List Tok) : intFollow l (.cs relax false :: rest) = true := by
  unfold intFollow
  cases l.body <;> cases l.space <;> simp [notReg, stops, noSp]

theorem decFollow_relax (d : DecBody) (rest : List Tok) : decFollow d (.cs relax false :: rest) = true := by
  unfold decFollow
  cases d.sep <;> simp [stops, notSep, noSp]

theorem dimFollow_relax (l : DimLit) (rest : List Tok) : dimFollow l (.cs relax false :: rest) = true := by
  unfold dimFollow filOK
  cases l.body <;> cases l.unit.kind <;> cases l.unit.space <;>
    simp [noSp, restOK, optSpace, isElem, tokUpper, relax]

/-- **Integer-typed argument**: the content `{ <integer literal> }` is bound to the literal's TeX value; the stream is
    left exactly as it was (the sentinel `\relax` pushed by `readInternalType` is removed again). -/
theorem internal_int (l : IntLit) (rest : List Tok) (hw : l.wf = true) :
    internal .int l.render rest = .ok (.int l.den, rest) := by
  obtain ⟨r', h, hr⟩ := integer_reads_exact l (.cs relax false :: rest) hw (intFollow_relax l rest)
  simp only [internal, h]
  rcases hr with rfl | rfl
  · simp [dropRelax_relax]
  · simp [settle, expand, dropRelax_relax]

/-- **Float-typed argument** -/
theorem internal_float (l : DecLit) (rest : List Tok) (hw : l.body.wf = true) :
    internal .float l.render rest = .ok (.rat l.den, rest) := by
  have h := decimal_reads l (.cs relax false :: rest) hw (decFollow_relax l.body rest)
  simp [internal, h, settle, expand, dropRelax_relax]

/-- **Dimension-typed argument** (`dimen`, `length`): bound to the literal's value in sp -/
theorem internal_dimen (l : DimLit) (rest : List Tok) (hw : dimWf false l = true) :
    internal .dimen l.render rest = .ok (.rat l.den.amount, rest) := by
  have hL : filOK l (.cs relax false :: rest) = true := by
    have := dimFollow_relax l rest; unfold dimFollow at this; simp only [Bool.and_eq_true] at this; exact this.1
  obtain ⟨v, hv, hd⟩ := PlasVerif.Proofs.Dimen.dimen_core false l (.cs relax false :: rest) hw hL
  rw [PlasVerif.Proofs.Dimen.dimRest_follow l _ (dimFollow_relax l rest)] at hv
  have hord : l.den.order = 0 := by
    obtain ⟨sg, body, u⟩ := l
    cases body with
    | inr x => rfl
    | inl d =>
      simp only [dimWf, Bool.and_eq_true] at hw
      exact PlasVerif.Proofs.Glue.unitWf_false_order u hw.1.2
  rw [hord] at hd
  have hve := PlasVerif.Proofs.Glue.decode_zero _ _ hd
  simp only [PlasVerif.Proofs.Dimen.tableFor, Bool.false_eq_true, if_false] at hv
  simp only [internal, internal.dimenUnitsG, readDimen, hv, dropRelax_relax, hve]


/-! ### dictionaries -/

/-- what one ordinary token does to the loop state of `castDictionary` -/
def step (st : DState) (t : Tok) : DState :=
  if t = .ch 61 then { st with value := some [] }
  else match st.value with
    | none => { st with key := st.key ++ [t] }
    | some v => { st with value := some (v ++ [t]) }

def okTok (d : Nat) (t : Tok) : Bool := plainTok d t || t == .ch 61

theorem plain_cases (d : Nat) (t : Tok) (h : plainTok d t = true) :
    (∃ c, t = .ch c ∧ c ≠ 61 ∧ c ≠ d) ∨ (t = .sp ∧ d ≠ 32) := by
  cases t with
  | ch c => left; simp only [plainTok, Bool.and_eq_true, bne_iff_ne, ne_eq] at h; exact ⟨c, rfl, h.1, h.2⟩
  | sp => right; simp only [plainTok, bne_iff_ne, ne_eq] at h; exact ⟨rfl, h⟩
  | bg x => simp [plainTok] at h
  | eg x => simp [plainTok] at h
  | cs n x => simp [plainTok] at h
  | reg v x => simp [plainTok] at h

theorem plain_ne_eq (d : Nat) (t : Tok) (h : plainTok d t = true) : t ≠ .ch 61 := by
  rcases plain_cases d t h with ⟨c, rfl, h1, _⟩ | ⟨rfl, _⟩
  · simp [h1]
  · simp

/-- an ordinary token that is not the last one -/
theorem dict_tok (d : Nat) (hd : d ≠ 61) (f : Nat) (st : DState) (t : Tok) (ts : List Tok) (ht : okTok d t = true)
    (hts : ts ≠ []) : dictLoop d .none (f + 1) st (t :: ts) = dictLoop d .none f (step st t) ts := by
  have hemp : ts.isEmpty = false := by cases ts <;> simp_all
  simp only [okTok, Bool.or_eq_true, beq_iff_eq] at ht
  rcases ht with hp | rfl
  · rcases plain_cases d t hp with ⟨c, rfl, h1, h2⟩ | ⟨rfl, h2⟩
    · have e1 : (c == 61) = false := by simp [h1]
      have e2 : (c == d) = false := by simp [h2]
      simp only [dictLoop, isBg, isEg, spells, e1, e2, hemp, step, Bool.false_eq_true, if_false, Bool.or_self]
      cases st.value <;> simp [h1]
    · have e2 : (d == 32) = false := by simp [h2]
      simp only [dictLoop, isBg, isEg, spells, e2, hemp, step, Bool.false_eq_true, if_false, Bool.or_self]
      cases st.value <;> simp
  · have h4 : ((61 : Nat) == d) = false := by simp; omega
    simp [dictLoop, isBg, isEg, spells, h4, hemp, step]

theorem dict_run (d : Nat) (hd : d ≠ 61) (E : List Tok) : ∀ (st : DState) (F : Nat) (r : List Tok), r ≠ [] →
    (∀ t ∈ E, okTok d t = true) → E.length < F →
    dictLoop d .none F st (E ++ r) = dictLoop d .none (F - E.length) (E.foldl step st) r := by
  induction E with
  | nil => intro st F r _ _ _; simp
  | cons t E ih =>
    intro st F r hr hE hF
    cases F with
    | zero => simp at hF
    | succ F' =>
      simp only [List.cons_append, List.length_cons, List.foldl_cons, Nat.succ_sub_succ]
      rw [dict_tok d hd F' st t (E ++ r) (hE t (List.mem_cons_self)) (by simp [hr])]
      exact ih (step st t) F' r hr (fun x hx => hE x (List.mem_cons_of_mem _ hx)) (by simpa using hF)

/-- the delimiter finishes the pending entry -/
theorem dict_delim (d : Nat) (hd : d ≠ 61) (f : Nat) (st : DState) (ts : List Tok) :
    dictLoop d .none (f + 1) st (.ch d :: ts) =
      (match finish .none st with | .ok st2 => dictLoop d .none f st2 ts | .error e => .error e) := by
  simp only [dictLoop, isBg, isEg, spells, beq_self_eq_true, Bool.true_or, Bool.false_eq_true, if_false, if_true,
    show (d == 61) = false from by simp [hd], Bool.or_self]
  generalize finish Ty.none _ = r
  cases r <;> rfl

/-- the last token finishes the pending entry too -/
theorem dict_last (d : Nat) (hd : d ≠ 61) (f : Nat) (st : DState) (t : Tok) (ht : okTok d t = true) :
    dictLoop d .none (f + 1) st [t] =
      (match finish .none (step st t) with | .ok st2 => dictLoop d .none f st2 [] | .error e => .error e) := by
  obtain ⟨D, K, V⟩ := st
  simp only [okTok, Bool.or_eq_true, beq_iff_eq] at ht
  rcases ht with hp | rfl
  · rcases plain_cases d t hp with ⟨c, rfl, h1, h2⟩ | ⟨rfl, h2⟩
    · have e1 : (c == 61) = false := by simp [h1]
      have e2 : (c == d) = false := by simp [h2]
      cases V <;>
      · simp only [dictLoop, isBg, isEg, spells, e1, e2, step, Bool.false_eq_true, if_false, Bool.or_self, List.isEmpty_nil,
          Bool.or_true, if_true, show (Tok.ch c = Tok.ch 61) = False from by simp [h1]]
        generalize finish Ty.none _ = r
        cases r <;> rfl
    · have e2 : (d == 32) = false := by simp [h2]
      cases V <;>
      · simp only [dictLoop, isBg, isEg, spells, e2, step, Bool.false_eq_true, if_false, Bool.or_self, List.isEmpty_nil,
          Bool.or_true, if_true, show (Tok.sp = Tok.ch 61) = False from by simp, show ((61 : Nat) == 32) = false from rfl]
        generalize finish Ty.none _ = r
        cases r <;> rfl
  · have h4 : ((61 : Nat) == d) = false := by simp; omega
    simp only [dictLoop, isBg, isEg, spells, h4, step, beq_self_eq_true, Bool.false_eq_true, if_false, if_true,
      List.isEmpty_nil, Bool.or_true, Bool.or_self]
    generalize finish Ty.none _ = r
    cases r <;> rfl

theorem foldl_key (d : Nat) (key : List Tok) (hk : ∀ t ∈ key, plainTok d t = true) (D : List (List Nat × Val)) (K : List Tok) :
    key.foldl step ⟨D, K, none⟩ = ⟨D, K ++ key, none⟩ := by
  induction key generalizing K with
  | nil => simp
  | cons t key ih =>
    have h5 := plain_ne_eq d t (hk t (List.mem_cons_self))
    simp only [List.foldl_cons, step, h5, if_false]
    rw [ih (fun x hx => hk x (List.mem_cons_of_mem _ hx))]
    simp

theorem foldl_value (d : Nat) (v : List Tok) (hv : ∀ t ∈ v, plainTok d t = true) (D : List (List Nat × Val)) (K V : List Tok) :
    v.foldl step ⟨D, K, some V⟩ = ⟨D, K, some (V ++ v)⟩ := by
  induction v generalizing V with
  | nil => simp
  | cons t v ih =>
    have h5 := plain_ne_eq d t (hv t (List.mem_cons_self))
    simp only [List.foldl_cons, step, h5, if_false]
    rw [ih (fun x hx => hv x (List.mem_cons_of_mem _ hx))]
    simp

theorem entry_tokens (d : Nat) (e : Entry) (he : e.ok d = true) : ∀ t ∈ e.render, okTok d t = true := by
  simp only [Entry.ok, Bool.and_eq_true, List.all_eq_true] at he
  intro t ht
  simp only [Entry.render, List.mem_append] at ht
  rcases ht with h | h
  · simp [okTok, he.1.2 t h]
  · cases hv : e.value with
    | none => simp [hv] at h
    | some v =>
      rw [hv] at h he
      simp only [List.all_eq_true] at he
      simp only [List.mem_cons] at h
      rcases h with rfl | h
      · simp [okTok]
      · simp [okTok, he.2 t h]

theorem entry_state (d : Nat) (e : Entry) (he : e.ok d = true) (D : List (List Nat × Val)) :
    e.render.foldl step ⟨D, [], none⟩ = ⟨D, e.key, e.value⟩ := by
  simp only [Entry.ok, Bool.and_eq_true, List.all_eq_true] at he
  simp only [Entry.render, List.foldl_append]
  rw [foldl_key d e.key he.1.2]
  cases hv : e.value with
  | none => simp
  | some v =>
    rw [hv] at he
    simp only [List.all_eq_true] at he
    simp only [List.nil_append, List.foldl_cons, step, if_true]
    rw [foldl_value d v he.2]
    simp

theorem plain_noGroup (d : Nat) (v : List Tok) (hv : ∀ t ∈ v, plainTok d t = true) : hasGroup v = false := by
  simp only [hasGroup, List.any_eq_false]
  intro t ht
  rcases plain_cases d t (hv t ht) with ⟨c, rfl, _, _⟩ | ⟨rfl, _⟩ <;> simp [isBg, isEg]

theorem entry_finish (d : Nat) (e : Entry) (he : e.ok d = true) (D : List (List Nat × Val)) :
    finish .none ⟨D, e.key, e.value⟩ = .ok ⟨setKey (textOf e.key) (entryVal e) D, [], none⟩ := by
  simp only [Entry.ok, Bool.and_eq_true, List.all_eq_true] at he
  cases hv : e.value with
  | none => simp [finish, entryVal, hv]
  | some v =>
    rw [hv] at he
    simp only [List.all_eq_true] at he
    simp [finish, entryVal, hv, castItem, normalizeItem, plain_noGroup d v he.2]

theorem dict_end (d : Nat) (f : Nat) (D : List (List Nat × Val)) :
    dictLoop d .none f ⟨D, [], none⟩ [] = .ok ⟨D, [], none⟩ := by
  cases f <;> simp [dictLoop]

theorem render_ne (d : Nat) (e : Entry) (he : e.ok d = true) : e.render ≠ [] := by
  simp only [Entry.ok, Bool.and_eq_true, Bool.not_eq_true', List.isEmpty_eq_false_iff] at he
  simp [Entry.render, he.1.1]

/-- the loop over a whole conforming dictionary -/
theorem dict_entries (d : Nat) (hd : d ≠ 61) (es : List Entry) : ∀ (D : List (List Nat × Val)) (F : Nat),
    (∀ e ∈ es, e.ok d = true) → (joinEntries d es).length < F →
    dictLoop d .none F ⟨D, [], none⟩ (joinEntries d es) =
      .ok ⟨es.foldl (fun acc e => setKey (textOf e.key) (entryVal e) acc) D, [], none⟩ := by
  induction es with
  | nil => intro D F _ _; simpa [joinEntries] using dict_end d F D
  | cons e rest ih =>
    intro D F hes hF
    have he := hes e (List.mem_cons_self)
    cases rest with
    | nil =>
      -- last entry: all tokens but the last, then the last one finishes it
      simp only [joinEntries, List.foldl_cons, List.foldl_nil] at hF ⊢
      obtain ⟨E', t, hE⟩ : ∃ E' t, e.render = E' ++ [t] := by
        have hne := render_ne d e he
        exact ⟨e.render.dropLast, e.render.getLast hne, (List.dropLast_concat_getLast hne).symm⟩
      have htok := entry_tokens d e he
      have hst := entry_state d e he D
      rw [hE] at htok hst hF ⊢
      simp only [List.length_append, List.length_singleton] at hF
      rw [dict_run d hd E' _ F [t] (by simp) (fun x hx => htok x (by simp [hx])) (by omega)]
      obtain ⟨f, hf⟩ : ∃ f, F - E'.length = f + 1 := ⟨F - E'.length - 1, by omega⟩
      rw [hf, dict_last d hd f _ t (htok t (by simp))]
      have : step (List.foldl step ⟨D, [], none⟩ E') t = ⟨D, e.key, e.value⟩ := by
        rw [← hst, List.foldl_append]; rfl
      rw [this, entry_finish d e he D]
      exact dict_end d f _
    | cons e2 rest2 =>
      simp only [joinEntries, List.foldl_cons] at hF ⊢
      simp only [List.length_append, List.length_cons] at hF
      rw [dict_run d hd e.render _ F (.ch d :: joinEntries d (e2 :: rest2)) (by simp) (entry_tokens d e he) (by omega)]
      obtain ⟨f, hf⟩ : ∃ f, F - e.render.length = f + 1 := ⟨F - e.render.length - 1, by omega⟩
      rw [hf, dict_delim d hd f, entry_state d e he D, entry_finish d e he D]
      have := ih (setKey (textOf e.key) (entryVal e) D) f (fun x hx => hes x (List.mem_cons_of_mem _ hx)) (by omega)
      simpa [List.foldl_cons] using this

/-- **Dictionaries.** A dictionary argument made of `key`, `key=value` entries of plain text (no braces, no second `=`),
    separated by the delimiter, is cast to exactly the map the property prescribes: every key bound to the value written
    after its `=` (stripped), a key without `=` bound to True, a later entry replacing an earlier one with the same key. -/
theorem castDict_entries (d : Nat) (hd : d ≠ 61) (es : List Entry) (hes : ∀ e ∈ es, e.ok d = true) :
    castDict d .none (joinEntries d es) = .ok (dictVal es) := by
  simp [castDict, dict_entries d hd es [] _ hes (Nat.lt_succ_self _), dictVal, Except.map]


/-! ### the casts as used by the argument loop: value, stream untouched -/

theorem castsTo_plain (a : Arg) (toks : List Tok) (h : a.ty = .none ∨ a.ty = .nox) : CastsTo a toks (.toks toks) := by
  intro r; rcases h with h | h <;> simp [PlasVerif.Model.Args.cast, h]

theorem castsTo_str (a : Arg) (toks : List Tok) (h : a.ty = .str) : CastsTo a toks (.str (textOf toks)) := by
  intro r; simp [PlasVerif.Model.Args.cast, h]

theorem castsTo_list (a : Arg) (items : List (List Tok)) (h : a.ty = .list) (hs : a.sub = .none) (hne : items ≠ [])
    (hok : ∀ it ∈ items, itemOK a.delim it = true) : CastsTo a (joinItems a.delim items) (listVal items) := by
  intro r; simp [PlasVerif.Model.Args.cast, h, hs, castList_items a.delim items hne hok, Except.map]

theorem castsTo_dict (a : Arg) (es : List Entry) (h : a.ty = .dict) (hs : a.sub = .none) (hd : a.delim ≠ 61)
    (hes : ∀ e ∈ es, e.ok a.delim = true) : CastsTo a (joinEntries a.delim es) (dictVal es) := by
  intro r; simp [PlasVerif.Model.Args.cast, h, hs, castDict_entries a.delim hd es hes, Except.map]

theorem castsTo_int (a : Arg) (l : IntLit) (h : a.ty = .int) (hw : l.wf = true) : CastsTo a l.render (.int l.den) := by
  intro r; simp [PlasVerif.Model.Args.cast, h, internal_int l r hw]

theorem castsTo_float (a : Arg) (l : DecLit) (h : a.ty = .float) (hw : l.body.wf = true) :
    CastsTo a l.render (.rat l.den) := by
  intro r; simp [PlasVerif.Model.Args.cast, h, internal_float l r hw]

theorem castsTo_dimen (a : Arg) (l : DimLit) (h : a.ty = .dimen) (hw : dimWf false l = true) :
    CastsTo a l.render (.rat l.den.amount) := by
  intro r; simp [PlasVerif.Model.Args.cast, h, internal_dimen l r hw]

/-! ### TeX-style scanner types: the literal is read straight from the stream -/

theorem readInteger_ros (X : List Tok) : readInteger true (readOptionalSpaces X) = readInteger true X := by
  simp only [readInteger, readOptionalSigns, PlasVerif.Proofs.Keyword.ros_idem]

theorem readDimen_ros (T : List (List Nat × Rat)) (X : List Tok) :
    readDimenWith combine T (readOptionalSpaces X) = readDimenWith combine T X := by
  simp only [readDimenWith, readOptionalSigns, PlasVerif.Proofs.Keyword.ros_idem]

theorem readGlue_ros (X : List Tok) : readGlue (readOptionalSpaces X) = readGlue X := by
  simp only [readGlue, readGlueWith, readOptionalSigns, PlasVerif.Proofs.Keyword.ros_idem]

theorem scanner_number (a : Arg) (l : IntLit) (k : Nat) (rest : List Tok) (h : a.ty = .tNumber) (hw : l.wf = true)
    (hf : intFollow l rest = true) :
    ∃ rest', readArgument a (spaces k ++ (l.render ++ rest)) = .ok (.int l.den, none, rest') ∧ sameText rest' rest := by
  obtain ⟨r', hr, hs⟩ := integer_reads l rest hw hf
  refine ⟨r', ?_, hs⟩
  simp only [readArgument, h, ros_spaces', readInteger_ros, hr]

theorem scanner_dimen (a : Arg) (l : DimLit) (k : Nat) (rest : List Tok) (h : a.ty = .tDimen) (hw : dimWf false l = true)
    (hf : dimFollow l rest = true) :
    readArgument a (spaces k ++ (l.render ++ rest)) = .ok (.rat l.den.amount, none, rest) := by
  have hL : filOK l rest = true := by unfold dimFollow at hf; simp only [Bool.and_eq_true] at hf; exact hf.1
  obtain ⟨v, hv, hd⟩ := PlasVerif.Proofs.Dimen.dimen_core false l rest hw hL
  rw [PlasVerif.Proofs.Dimen.dimRest_follow l rest hf] at hv
  have hord : l.den.order = 0 := by
    obtain ⟨sg, body, u⟩ := l
    cases body with
    | inr x => rfl
    | inl d =>
      simp only [dimWf, Bool.and_eq_true] at hw
      exact PlasVerif.Proofs.Glue.unitWf_false_order u hw.1.2
  rw [hord] at hd
  have hve := PlasVerif.Proofs.Glue.decode_zero _ _ hd
  simp only [PlasVerif.Proofs.Dimen.tableFor, Bool.false_eq_true, if_false] at hv
  simp only [readArgument, h, ros_spaces', readDimen, readDimen_ros, hv, hve]

theorem scanner_glue (a : Arg) (g : GlueLit) (k : Nat) (rest : List Tok) (h : a.ty = .tGlue) (hw : glueWf g = true)
    (hf : glueFollow g rest = true) :
    ∃ v, readArgument a (spaces k ++ (g.render ++ rest)) = .ok (.glue v, none, rest) ∧
      PlasVerif.Proofs.Glue.glueDecode v = g.den := by
  obtain ⟨v, hv, hd⟩ := PlasVerif.Proofs.Glue.glue_reads g rest hw hf
  refine ⟨v, ?_, hd⟩
  simp only [readArgument, h, ros_spaces', readGlue_ros, hv]

end PlasVerif.Proofs.Casts
