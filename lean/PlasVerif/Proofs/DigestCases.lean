import PlasVerif.Proofs.Digest
/-!
Case analysis of one step of `digest` / `loop` / `top` (so that every invariant proof is a short
fuel induction), and the generic "closed predicate" preservation theorem.
-/
namespace PlasVerif.Proofs.Digest
open PlasVerif.Model.Digest PlasVerif.Spec.DocTree PlasVerif.Generated.Digest

/-- the `if item.nodeType == ELEMENT_NODE: item.parentNode = self; item.digest(tokens)` step -/
def digestIf (f : Nat) (x : Tree) (ref : Ref) (r : List Tree) : Option (Tree × List Tree) :=
  if x.it.elem then digest f (x.setParent ref) r else some (x, r)

/-- what `digest` did: nothing, or one of the absorbing loops on the (possibly blank-skipped) stream
    followed by an optional `paragraphs` -/
theorem digest_cases (f : Nat) (t : Tree) (s : List Tree) (t' : Tree) (s' : List Tree)
    (h : digest (f + 1) t s = some (t', s')) :
    (t' = t ∧ s' = s) ∨
    (inert t.it = false ∧ ∃ k dp0 s0 t1 dp1, (s0 = s ∨ s0 = skipList s ∨ s0 = skipWs s) ∧
      loop f k t dp0 s0 = some (t1, dp1, s') ∧ (t' = t1 ∨ ∃ b, t' = paragraphs b t1)) := by
  unfold digest at h
  split at h
  · cases h; exact .inl ⟨rfl, rfl⟩
  · rename_i hdk
    split at h
    · cases h; exact .inl ⟨rfl, rfl⟩
    · rename_i hme
      split at h
      · cases h
      · rename_i t1 dp s1 heq
        cases h
        refine .inr ⟨by simp [inert, hdk, hme], .env, _, s, t1, dp, .inl rfl, heq, ?_⟩
        cases dp <;> simp
  · rename_i hdk
    split at h
    · cases h; exact .inl ⟨rfl, rfl⟩
    · rename_i hme
      split at h
      · cases h
      · rename_i t1 dp s1 heq
        cases h
        refine .inr ⟨by simp [inert, hdk, hme], .env, _, skipList s, t1, dp, .inr (.inl rfl), heq, ?_⟩
        cases dp <;> simp
  · rename_i hdk
    split at h
    · cases h
    · rename_i t1 dp s1 heq
      cases h
      exact .inr ⟨by simp [inert, hdk], .sec, _, s, t1, dp, .inl rfl, heq, .inr ⟨_, rfl⟩⟩
  · rename_i hdk
    split at h
    · cases h
    · rename_i t1 dp s1 heq
      cases h
      exact .inr ⟨by simp [inert, hdk], .bg, _, s, t1, dp, .inl rfl, heq, .inr ⟨_, rfl⟩⟩
  · rename_i hdk
    split at h
    · cases h
    · rename_i t1 dp s1 heq
      cases h
      refine .inr ⟨by simp [inert, hdk], .until, _, skipWs s, t1, dp, .inr (.inr rfl), heq, ?_⟩
      cases t.it.forcePars <;> simp

/-- what one iteration of an absorbing loop did -/
theorem loop_cases (f : Nat) (k : LK) (t : Tree) (dp : Bool) (x : Tree) (r : List Tree)
    (res : Tree × Bool × List Tree) (h : loop (f + 1) k t dp (x :: r) = some res) :
    (pre k t x = .push ∧ res = (t, dp, x :: r)) ∨
    (pre k t x = .drop ∧ res = (t, dp, r)) ∨
    (pre k t x = .raw ∧ loop f k (t.append x) true r = some res) ∨
    (pre k t x = .go ∧ ∃ x' r', digestIf f x t.it.ref r = some (x', r') ∧
      ((post k t x' = true ∧ res = (t, dp, x' :: r')) ∨
       (post k t x' = false ∧ loop f k (t.append x') dp r' = some res))) := by
  unfold loop at h
  split at h
  · rename_i hp; cases h; exact .inl ⟨hp, rfl⟩
  · rename_i hp; cases h; exact .inr (.inl ⟨hp, rfl⟩)
  · rename_i hp; exact .inr (.inr (.inl ⟨hp, h⟩))
  · rename_i hp
    split at h
    · cases h
    · rename_i x' r' heq
      refine .inr (.inr (.inr ⟨hp, x', r', heq, ?_⟩))
      split at h
      · rename_i hpost; cases h; exact .inl ⟨hpost, rfl⟩
      · rename_i hpost; exact .inr ⟨by simpa using hpost, h⟩

theorem top_cases (f : Nat) (acc : List Tree) (x : Tree) (r out : List Tree)
    (h : top (f + 1) acc (x :: r) = some out) :
    ∃ x' r', digestIf f x .out r = some (x', r') ∧ top f (acc ++ [x'.setParent .out]) r' = some out := by
  unfold top at h
  split at h
  · cases h
  · rename_i x' r' heq; exact ⟨x', r', heq, h⟩

theorem skipList_mem : ∀ (s : List Tree) (x : Tree), x ∈ skipList s → x ∈ s
  | [], x, h => by simp [skipList] at h
  | y :: r, x, h => by
    unfold skipList at h
    split at h
    · exact List.mem_cons_of_mem _ (skipList_mem r x h)
    · split at h
      · exact List.mem_cons_of_mem _ (skipList_mem r x h)
      · exact h

theorem skipWs_mem : ∀ (s : List Tree) (x : Tree), x ∈ skipWs s → x ∈ s
  | [], x, h => by simp [skipWs] at h
  | y :: r, x, h => by
    unfold skipWs at h
    split at h
    · exact List.mem_cons_of_mem _ (skipWs_mem r x h)
    · exact h

/-! ### generic preservation of a node predicate closed under the tree operations -/
structure Closed (P : Tree → Prop) : Prop where
  sp : ∀ r t, P t → P (t.setParent r)
  app : ∀ t x, inert t.it = false → P t → P x → P (t.append x)
  par : ∀ b t, inert t.it = false → P t → P (paragraphs b t)

def AllP (P : Tree → Prop) (s : List Tree) : Prop := ∀ x ∈ s, P x

def DigestP (P : Tree → Prop) (f : Nat) : Prop :=
  ∀ t s t' s', P t → AllP P s → digest f t s = some (t', s') → P t' ∧ AllP P s'
def LoopP (P : Tree → Prop) (f : Nat) : Prop :=
  ∀ k t dp s t' dp' s', inert t.it = false → P t → AllP P s → loop f k t dp s = some (t', dp', s') → P t' ∧ AllP P s'

theorem digestIf_P {P : Tree → Prop} (hP : Closed P) (f : Nat) (hd : DigestP P f) (x : Tree) (ref : Ref)
    (r : List Tree) (x' : Tree) (r' : List Tree) (hx : P x) (hr : AllP P r)
    (h : digestIf f x ref r = some (x', r')) : P x' ∧ AllP P r' := by
  unfold digestIf at h
  by_cases he : x.it.elem
  · simp only [he, if_true] at h
    exact hd _ _ _ _ (hP.sp _ _ hx) hr h
  · simp only [he] at h; cases h; exact ⟨hx, hr⟩

theorem digest_loop_P {P : Tree → Prop} (hP : Closed P) : ∀ f, DigestP P f ∧ LoopP P f
  | 0 => ⟨fun _ _ _ _ _ _ h => by simp [digest] at h, fun _ _ _ _ _ _ _ _ _ _ h => by simp [loop] at h⟩
  | f + 1 => by
    obtain ⟨ihd, ihl⟩ := digest_loop_P hP f
    constructor
    · intro t s t' s' ht hs h
      rcases digest_cases f t s t' s' h with ⟨rfl, rfl⟩ | ⟨hin, k, dp0, s0, t1, dp1, hs0, hl, ht'⟩
      · exact ⟨ht, hs⟩
      · have hs0' : AllP P s0 := by
          rcases hs0 with rfl | rfl | rfl
          · exact hs
          · exact fun x hx => hs x (skipList_mem _ _ hx)
          · exact fun x hx => hs x (skipWs_mem _ _ hx)
        obtain ⟨h1, h2⟩ := ihl _ _ _ _ _ _ _ hin ht hs0' hl
        have hit : t1.it = t.it := loop_it _ _ _ _ _ _ _ _ hl
        rcases ht' with rfl | ⟨b, rfl⟩
        · exact ⟨h1, h2⟩
        · exact ⟨hP.par b t1 (by rw [hit]; exact hin) h1, h2⟩
    · intro k t dp s t' dp' s' hin ht hs h
      cases s with
      | nil => unfold loop at h; cases h; exact ⟨ht, hs⟩
      | cons x r =>
        have hx : P x := hs x (by simp)
        have hr : AllP P r := fun y hy => hs y (by simp [hy])
        rcases loop_cases f k t dp x r _ h with ⟨_, he⟩ | ⟨_, he⟩ | ⟨_, hl⟩ | ⟨_, x', r', hd, hc⟩
        · cases he; exact ⟨ht, hs⟩
        · cases he; exact ⟨ht, hr⟩
        · exact ihl _ _ _ _ _ _ _ (by simpa using hin) (hP.app t x hin ht hx) hr hl
        · obtain ⟨hx', hr'⟩ := digestIf_P hP f ihd x _ r x' r' hx hr hd
          rcases hc with ⟨_, he⟩ | ⟨_, hl⟩
          · cases he
            exact ⟨ht, fun y hy => by
              rcases List.mem_cons.1 hy with rfl | hy
              · exact hx'
              · exact hr' y hy⟩
          · exact ihl _ _ _ _ _ _ _ (by simpa using hin) (hP.app t x' hin ht hx') hr' hl

theorem top_P {P : Tree → Prop} (hP : Closed P) : ∀ (f : Nat) (acc s out : List Tree),
    AllP P acc → AllP P s → top f acc s = some out → AllP P out
  | 0, _, _, _, _, _, h => by simp [top] at h
  | f + 1, acc, [], out, ha, _, h => by simp only [top] at h; cases h; exact ha
  | f + 1, acc, x :: r, out, ha, hs, h => by
    obtain ⟨x', r', hd, ht⟩ := top_cases f acc x r out h
    obtain ⟨hx', hr'⟩ := digestIf_P hP f (digest_loop_P hP f).1 x _ r x' r' (hs x (by simp))
      (fun y hy => hs y (by simp [hy])) hd
    refine top_P hP f _ _ _ ?_ hr' ht
    intro y hy
    rcases List.mem_append.1 hy with hy | hy
    · exact ha y hy
    · simp only [List.mem_singleton] at hy; subst hy; exact hP.sp _ _ hx'

end PlasVerif.Proofs.Digest
