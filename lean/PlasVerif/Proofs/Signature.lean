import PlasVerif.Spec.Signature
/-!
Proofs about the signature compiler (C05, `Macro.arguments`).

Main results (all for every signature of the grammar `Spec.Signature.Sig`, any number of items, arbitrary
well-formed names / types / delimiters / subtypes):
 * `lex_render`            : `WF sig → lexArgs (renderSig sig) = sigItems sig`
 * `compile_items_render`  : `WF sig → compileItems (sigItems sig) = .ok (expected sig)`
 * `compile_render`        : `WF sig → compileArgs (renderSig sig) = .ok (expected sig)`
 * `expected_length`, `expected_index` : one argument per item, index = position.
`renderSig` is the canonical spelling (one blank between all words, brackets set off by blanks); other
spellings (`[name]`, double blanks, `*[`…) are covered by the correspondence streams only.
-/
namespace PlasVerif.Proofs.Signature
open PlasVerif.Model.Signature PlasVerif.Spec.Signature
/-- what may follow a word item without being glued to it by the regex -/
def follow : List Nat → Bool
  | [] => true
  | c :: _ => !isWord c && c != 58 && c != 40

theorem identChar_eq (c : Nat) : identChar c = isWord c := rfl
theorem letter_eq (c : Nat) : letter c = isLetter c := rfl

theorem spanWord_append (w r : List Nat) (hw : w.all isWord = true)
    (hr : ∀ c t, r = c :: t → isWord c = false) : spanWord (w ++ r) = (w, r) := by
  induction w with
  | nil =>
    cases r with
    | nil => rfl
    | cons c t => simp [spanWord, hr c t rfl]
  | cons a w ih =>
    simp only [List.all_cons, Bool.and_eq_true] at hw
    simp [spanWord, hw.1, ih hw.2]

theorem optDelim_some (c : Nat) (r : List Nat) (hc : isSpace c = false) :
    optDelim (40 :: c :: 41 :: r) = ([40, c, 41], r) := by
  simp [optDelim, hc]

theorem optDelim_none (r : List Nat) (h : ∀ t, r ≠ 40 :: t) : optDelim r = ([], r) := by
  unfold optDelim
  split
  · exact absurd rfl (h _)
  · rfl

theorem optColonWord_none (r : List Nat) (h : ∀ t, r ≠ 58 :: t) : optColonWord r = ([], r) := by
  unfold optColonWord
  split
  · exact absurd rfl (h _)
  · rfl

theorem optColonWord_some (w r : List Nat) (hw : w.all isWord = true) (hne : w ≠ [])
    (hr : ∀ c t, r = c :: t → isWord c = false) : optColonWord (58 :: (w ++ r)) = (58 :: w, r) := by
  simp [optColonWord, spanWord_append w r hw hr, hne]

theorem wfName_elim {name : List Nat} (h : wfName name = true) :
    ∃ c cs, name = c :: cs ∧ isLetter c = true ∧ name.all isWord = true := by
  cases name with
  | nil => simp [wfName] at h
  | cons c cs =>
    simp only [wfName, Bool.and_eq_true] at h
    refine ⟨c, cs, rfl, h.1, ?_⟩
    have : isWord c = true := by
      have := h.1; simp only [letter_eq] at this; simp [isWord, this]
    simp only [List.all_cons, this, Bool.true_and]
    exact h.2

theorem wfIdent_elim {w : List Nat} (h : wfIdent w = true) : w ≠ [] ∧ w.all isWord = true := by
  simp only [wfIdent, Bool.and_eq_true] at h
  refine ⟨?_, h.2⟩
  intro e; subst e; simp at h

theorem wfDelimChar_elim {c : Nat} (h : wfDelimChar c = true) :
    isWord c = false ∧ isSpace c = false ∧ c ≠ 58 := by
  simp only [wfDelimChar, Bool.and_eq_true, identChar_eq, Bool.not_eq_true', bne_iff_ne] at h
  exact ⟨h.1.1.2, h.1.2, h.2⟩

theorem follow_elim {r : List Nat} (h : follow r = true) :
    (∀ c t, r = c :: t → isWord c = false) ∧ (∀ t, r ≠ 58 :: t) ∧ (∀ t, r ≠ 40 :: t) := by
  cases r with
  | nil => simp
  | cons a t =>
    simp only [follow, Bool.and_eq_true, Bool.not_eq_true', bne_iff_ne] at h
    refine ⟨?_, ?_, ?_⟩
    · intro c t' e; cases e; exact h.1.1
    · intro t' e; cases e; exact h.1.2 rfl
    · intro t' e; cases e; exact h.2 rfl

theorem matchWordItem_nameSpec (name : List Nat) (ty : Option TypeSpec) (r : List Nat)
    (hn : wfName name = true) (ht : ∀ t, ty = some t → wfType t = true) (hr : follow r = true) :
    matchWordItem (nameSpec name ty ++ r) = (nameSpec name ty, r) := by
  obtain ⟨c0, cs0, _, _, hnw⟩ := wfName_elim hn
  obtain ⟨hr1, hr2, hr3⟩ := follow_elim hr
  cases ty with
  | none =>
    simp only [nameSpec, List.append_nil]
    unfold matchWordItem
    simp only [spanWord_append name r hnw hr1]
  | some t =>
    have hwt := ht t rfl
    simp only [wfType, Bool.and_eq_true] at hwt
    obtain ⟨⟨hty, hd⟩, hs⟩ := hwt
    obtain ⟨htyne, htyw⟩ := wfIdent_elim hty
    have h58 : isWord 58 = false := by decide
    have h40 : isWord 40 = false := by decide
    have e1 : ∀ rest, spanWord (name ++ 58 :: rest) = (name, 58 :: rest) := fun rest =>
      spanWord_append name _ hnw (by intro c t e; cases e; exact h58)
    rcases t with ⟨tty, _ | dc, _ | sub⟩ <;>
      simp only [nameSpec, typeText, List.append_assoc, List.cons_append, List.nil_append, List.append_nil] <;>
      unfold matchWordItem <;> simp only [e1]
    · -- no delimiter, no subtype
      simp only [spanWord_append tty r htyw hr1]
      simp [htyne, optDelim_none r hr3, optColonWord_none r hr2]
    · -- subtype only
      obtain ⟨hsne, hsw⟩ := wfIdent_elim hs
      simp only [spanWord_append tty (58 :: (sub ++ r)) htyw (by intro c t e; cases e; exact h58)]
      simp [htyne, optDelim_none (58 :: (sub ++ r)) (by intro t e; cases e),
        optColonWord_some sub r hsw hsne hr1]
    · -- delimiter only
      obtain ⟨_, hdsp, _⟩ := wfDelimChar_elim hd
      simp only [spanWord_append tty (40 :: dc :: 41 :: r) htyw (by intro c t e; cases e; exact h40)]
      simp [htyne, optDelim_some dc r hdsp, optColonWord_none r hr2]
    · -- delimiter and subtype
      obtain ⟨_, hdsp, _⟩ := wfDelimChar_elim hd
      obtain ⟨hsne, hsw⟩ := wfIdent_elim hs
      simp only [spanWord_append tty (40 :: dc :: 41 :: 58 :: (sub ++ r)) htyw (by intro c t e; cases e; exact h40)]
      simp [htyne, optDelim_some dc _ hdsp, optColonWord_some sub r hsw hsne hr1]

/-! ### lexing the canonical spelling -/

/-- a word that the lexer returns as one item whenever it is followed by end of input, a blank, or any
non-word character other than `:` and `(` -/
def LexAtomic (w : List Nat) : Prop :=
  w ≠ [] ∧ ∀ f r, follow r = true → lexFuel (f + 1) (w ++ r) = w :: lexFuel f r

theorem lexAtomic_punct (c : Nat) (hw : isWord c = false) (hs : isSpace c = false) : LexAtomic [c] := by
  refine ⟨by simp, ?_⟩
  intro f r _
  simp [lexFuel, hw, hs]

theorem lexAtomic_nameSpec (name : List Nat) (ty : Option TypeSpec)
    (hn : wfName name = true) (ht : ∀ t, ty = some t → wfType t = true) : LexAtomic (nameSpec name ty) := by
  obtain ⟨c0, cs0, e, hl, _⟩ := wfName_elim hn
  have hw0 : isWord c0 = true := by simp [isWord, hl]
  refine ⟨by subst e; simp [nameSpec], ?_⟩
  intro f r hr
  have h := matchWordItem_nameSpec name ty r hn ht hr
  have e2 : ∃ rest, nameSpec name ty ++ r = c0 :: rest := by subst e; exact ⟨_, rfl⟩
  obtain ⟨rest, e2⟩ := e2
  rw [e2] at h ⊢
  simp only [lexFuel, hw0, if_true, h]

theorem lexFuel_nil (f : Nat) : lexFuel f [] = [] := by cases f <;> rfl

theorem follow_space (r : List Nat) : follow (32 :: r) = true := by simp [follow, isWord, isLetter, isDigit]

theorem lex_joinWords (ws : List (List Nat)) (h : ∀ w ∈ ws, LexAtomic w) :
    ∀ f, (joinWords ws).length ≤ f → lexFuel f (joinWords ws) = ws := by
  induction ws with
  | nil => intro f _; simp [joinWords, lexFuel_nil]
  | cons w ws ih =>
    intro f hf
    obtain ⟨hne, hw⟩ := h w (by simp)
    have hlen : 1 ≤ w.length := by cases w with | nil => exact absurd rfl hne | cons _ _ => simp
    cases ws with
    | nil =>
      simp only [joinWords] at hf ⊢
      obtain ⟨f', rfl⟩ : ∃ f', f = f' + 1 := ⟨f - 1, by omega⟩
      have := hw f' [] rfl
      simp only [List.append_nil] at this
      rw [this, lexFuel_nil]
    | cons w' ws' =>
      simp only [joinWords, List.length_append, List.length_cons] at hf ⊢
      obtain ⟨f', rfl⟩ : ∃ f', f = f' + 2 := ⟨f - 2, by omega⟩
      rw [hw (f' + 1) _ (follow_space _)]
      have : lexFuel (f' + 1) (32 :: joinWords (w' :: ws')) = lexFuel f' (joinWords (w' :: ws')) := by
        simp [lexFuel, show isWord 32 = false by decide, show isSpace 32 = true by decide]
      rw [this, ih (fun x hx => h x (by simp [hx])) f' (by omega)]

theorem lexArgs_joinWords (ws : List (List Nat)) (h : ∀ w ∈ ws, LexAtomic w) :
    lexArgs (joinWords ws) = ws := lex_joinWords ws h _ (Nat.le_refl _)

theorem words_atomic (sig : Sig) (h : WF sig = true) : ∀ w ∈ sigItems sig, LexAtomic w := by
  induction sig with
  | nil => intro w hw; simp [sigItems] at hw
  | cons it rest ih =>
    simp only [WF, List.all_cons, Bool.and_eq_true] at h
    intro w hw
    simp only [sigItems, List.mem_append] at hw
    rcases hw with hw | hw
    · cases it with
      | modifier m =>
        simp only [itemWords, List.mem_singleton] at hw
        subst hw
        cases m <;> exact lexAtomic_punct _ (by decide) (by decide)
      | equals =>
        simp only [itemWords, List.mem_singleton] at hw
        subst hw
        exact lexAtomic_punct _ (by decide) (by decide)
      | arg d name ty =>
        have hi := h.1
        simp only [wfItem, Bool.and_eq_true] at hi
        have hns : LexAtomic (nameSpec name ty) :=
          lexAtomic_nameSpec name ty hi.1 (by intro t e; subst e; exact hi.2)
        cases d <;> simp only [itemWords, Delim.opening, Delim.closing, List.mem_append, List.mem_singleton,
          List.not_mem_nil, false_or, or_false] at hw
        · subst hw; exact hns
        all_goals
          rcases hw with (hw | hw) | hw <;> subst hw
          · exact lexAtomic_punct _ (by decide) (by decide)
          · exact hns
          · exact lexAtomic_punct _ (by decide) (by decide)
    · exact ih h.2 w hw

/-- (ii) the lexer returns exactly the words of the canonical spelling -/
theorem lex_render (sig : Sig) (h : WF sig = true) : lexArgs (renderSig sig) = sigItems sig :=
  lexArgs_joinWords _ (words_atomic sig h)

/-! ### the compile loop on the words of a signature -/

theorem letter_not_punct {c : Nat} (h : isLetter c = true) (r : List Nat) :
    isInfixOf (c :: r) modChars = false ∧ isInfixOf (c :: r) eqChars = false ∧
    isInfixOf (c :: r) openChars = false ∧ isInfixOf (c :: r) closeChars = false := by
  simp only [isLetter, Bool.or_eq_true, Bool.and_eq_true, decide_eq_true_eq] at h
  simp [isInfixOf, modChars, eqChars, openChars, closeChars, List.isPrefixOf]
  omega

theorem splitOn_noSep (sep : Nat) (w : List Nat) (h : ∀ c ∈ w, c ≠ sep) : splitOn sep w = [w] := by
  induction w with
  | nil => rfl
  | cons a w ih =>
    have ha : a ≠ sep := h a (by simp)
    simp [splitOn, ha, ih (fun c hc => h c (by simp [hc]))]

theorem splitOn_append (sep : Nat) (w r : List Nat) (h : ∀ c ∈ w, c ≠ sep) :
    splitOn sep (w ++ sep :: r) = w :: splitOn sep r := by
  induction w with
  | nil => simp [splitOn]
  | cons a w ih =>
    have ha : a ≠ sep := h a (by simp)
    simp [splitOn, ha, ih (fun c hc => h c (by simp [hc]))]

theorem word_no_colon {w : List Nat} (h : w.all isWord = true) : ∀ c ∈ w, c ≠ 58 := by
  intro c hc e
  subst e
  have := List.all_eq_true.mp h 58 hc
  exact absurd this (by decide)

theorem skipNonWord_word (a : Nat) (t : List Nat) (h : isWord a = true) : skipNonWord (a :: t) = a :: t := by
  simp [skipNonWord, h]

theorem typeDelim_plain (ty : List Nat) (hne : ty ≠ []) (hw : ty.all isWord = true) :
    typeDelim ty = some (ty, none) := by
  cases ty with
  | nil => exact absurd rfl hne
  | cons a t =>
    have ha : isWord a = true := by simp only [List.all_cons, Bool.and_eq_true] at hw; exact hw.1
    have := spanWord_append (a :: t) [] hw (by intro c t e; cases e)
    simp only [List.append_nil] at this
    simp [typeDelim, skipNonWord_word a t ha, this]

theorem typeDelim_delim (ty : List Nat) (dc : Nat) (hne : ty ≠ []) (hw : ty.all isWord = true)
    (hd : isWord dc = false) : typeDelim (ty ++ [40, dc, 41]) = some (ty, some dc) := by
  cases ty with
  | nil => exact absurd rfl hne
  | cons a t =>
    have ha : isWord a = true := by simp only [List.all_cons, Bool.and_eq_true] at hw; exact hw.1
    have := spanWord_append (a :: t) [40, dc, 41] hw (by intro c t e; cases e; decide)
    simp only [List.cons_append] at this
    simp [typeDelim, skipNonWord_word a _ ha, this, hd]

theorem nameBranch_nameSpec (acc : List Argument) (i : Nat) (d : Delim) (name : List Nat) (ty : Option TypeSpec)
    (hn : wfName name = true) (ht : ∀ t, ty = some t → wfType t = true) :
    nameBranch ⟨acc, { spec := d.spec }, i⟩ (nameSpec name ty) =
      .ok ⟨acc ++ [expectedArg i (.arg d name ty)], {}, i + 1⟩ := by
  obtain ⟨c0, cs0, _, _, hnw⟩ := wfName_elim hn
  have hnc := word_no_colon hnw
  cases ty with
  | none =>
    simp [nameSpec, nameBranch, splitOn_noSep 58 name hnc, fillType, unexpandedType, expectedArg]
  | some t =>
    have hwt := ht t rfl
    simp only [wfType, Bool.and_eq_true] at hwt
    obtain ⟨⟨hty, hd⟩, hs⟩ := hwt
    obtain ⟨htyne, htyw⟩ := wfIdent_elim hty
    have htc := word_no_colon htyw
    rcases t with ⟨tty, _ | dc, _ | sub⟩ <;>
      simp only [nameSpec, typeText, List.append_assoc, List.cons_append, List.nil_append, List.append_nil] <;>
      unfold nameBranch <;> simp only [splitOn_append 58 name _ hnc]
    · -- no delimiter, no subtype
      simp [splitOn_noSep 58 tty htc, fillType, typeDelim_plain tty htyne htyw, unexpandedType, expectedArg,
        isUnexpanded, isUrl, tyCs, tyNox, tyUrl]
      split <;> by_cases h1 : tty = [99, 115] <;> by_cases h2 : tty = [110, 111, 120] <;> simp_all
    · -- subtype only
      obtain ⟨_, hsw⟩ := wfIdent_elim hs
      simp [splitOn_append 58 tty _ htc, splitOn_noSep 58 sub (word_no_colon hsw), fillType,
        typeDelim_plain tty htyne htyw, unexpandedType, expectedArg, isUnexpanded, isUrl, tyCs, tyNox, tyUrl]
      split <;> by_cases h1 : tty = [99, 115] <;> by_cases h2 : tty = [110, 111, 120] <;> simp_all
    · -- delimiter only
      obtain ⟨hdw, _, hdc⟩ := wfDelimChar_elim hd
      have htdc : ∀ c ∈ tty ++ [40, dc, 41], c ≠ 58 := by
        intro c hc; simp only [List.mem_append, List.mem_cons, List.not_mem_nil, or_false] at hc
        rcases hc with hc | hc | hc | hc
        · exact htc c hc
        all_goals omega
      simp [splitOn_noSep 58 _ htdc, fillType, typeDelim_delim tty dc htyne htyw hdw, unexpandedType,
        expectedArg, isUnexpanded, isUrl, tyCs, tyNox, tyUrl]
      split <;> by_cases h1 : tty = [99, 115] <;> by_cases h2 : tty = [110, 111, 120] <;> simp_all
    · -- delimiter and subtype
      obtain ⟨hdw, _, hdc⟩ := wfDelimChar_elim hd
      obtain ⟨_, hsw⟩ := wfIdent_elim hs
      have htdc : ∀ c ∈ tty ++ [40, dc, 41], c ≠ 58 := by
        intro c hc; simp only [List.mem_append, List.mem_cons, List.not_mem_nil, or_false] at hc
        rcases hc with hc | hc | hc | hc
        · exact htc c hc
        all_goals omega
      have e : tty ++ 40 :: dc :: 41 :: 58 :: sub = (tty ++ [40, dc, 41]) ++ 58 :: sub := by simp
      rw [e, splitOn_append 58 (tty ++ [40, dc, 41]) sub htdc]
      simp [splitOn_noSep 58 sub (word_no_colon hsw), fillType,
        typeDelim_delim tty dc htyne htyw hdw, unexpandedType, expectedArg, isUnexpanded, isUrl, tyCs, tyNox, tyUrl]
      split <;> by_cases h1 : tty = [99, 115] <;> by_cases h2 : tty = [110, 111, 120] <;> simp_all

theorem step_nameSpec (acc : List Argument) (i : Nat) (d : Delim) (name : List Nat) (ty : Option TypeSpec)
    (hn : wfName name = true) (ht : ∀ t, ty = some t → wfType t = true) :
    step ⟨acc, { spec := d.spec }, i⟩ (nameSpec name ty) =
      .ok ⟨acc ++ [expectedArg i (.arg d name ty)], {}, i + 1⟩ := by
  obtain ⟨c0, cs0, e, hl, _⟩ := wfName_elim hn
  have hb := nameBranch_nameSpec acc i d name ty hn ht
  obtain ⟨rest, e2⟩ : ∃ rest, nameSpec name ty = c0 :: rest := by subst e; exact ⟨_, rfl⟩
  rw [e2] at hb ⊢
  obtain ⟨h1, h2, h3, h4⟩ := letter_not_punct hl rest
  simp only [step, h1, h2, h3, h4, hl, if_true, hb]
  simp

theorem step_open (acc : List Argument) (i : Nat) (d : Delim) (c : Nat) (h : d.opening = some c) :
    step ⟨acc, {}, i⟩ [c] = .ok ⟨acc, { spec := d.spec }, i⟩ := by
  cases d <;> simp only [Delim.opening, Option.some.injEq] at h <;> try contradiction
  all_goals subst h; rfl

theorem step_close (st : St) (d : Delim) (c : Nat) (h : d.closing = some c) : step st [c] = .ok st := by
  cases d <;> simp only [Delim.closing, Option.some.injEq] at h <;> try contradiction
  all_goals subst h; rfl

theorem loop_item (acc : List Argument) (i : Nat) (x : SigItem) (rest : List (List Nat)) (h : wfItem x = true) :
    loop ⟨acc, {}, i⟩ (itemWords x ++ rest) = loop ⟨acc ++ [expectedArg i x], {}, i + 1⟩ rest := by
  cases x with
  | modifier m => cases m <;> rfl
  | equals => rfl
  | arg d name ty =>
    simp only [wfItem, Bool.and_eq_true] at h
    have hs := step_nameSpec acc i d name ty h.1 (by intro t e; subst e; exact h.2)
    cases d
    · simp only [itemWords, Delim.opening, Delim.closing, List.nil_append, List.cons_append, loop]
      have : step ⟨acc, {}, i⟩ (nameSpec name ty) = _ := hs
      rw [this]
    · simp only [itemWords, Delim.opening, Delim.closing, List.nil_append, List.cons_append, loop]
      rw [step_open acc i .square _ rfl]
      simp only [hs]
      rw [step_close _ .square _ rfl]
    · simp only [itemWords, Delim.opening, Delim.closing, List.nil_append, List.cons_append, loop]
      rw [step_open acc i .paren _ rfl]
      simp only [hs]
      rw [step_close _ .paren _ rfl]
    · simp only [itemWords, Delim.opening, Delim.closing, List.nil_append, List.cons_append, loop]
      rw [step_open acc i .angle _ rfl]
      simp only [hs]
      rw [step_close _ .angle _ rfl]
    · simp only [itemWords, Delim.opening, Delim.closing, List.nil_append, List.cons_append, loop]
      rw [step_open acc i .brace _ rfl]
      simp only [hs]
      rw [step_close _ .brace _ rfl]

theorem loop_sig (sig : Sig) (h : WF sig = true) : ∀ acc i,
    loop ⟨acc, {}, i⟩ (sigItems sig) = .ok ⟨acc ++ expectedFrom i sig, {}, i + sig.length⟩ := by
  induction sig with
  | nil => intro acc i; simp [sigItems, loop, expectedFrom]
  | cons x rest ih =>
    intro acc i
    simp only [WF, List.all_cons, Bool.and_eq_true] at h
    rw [sigItems, loop_item acc i x _ h.1, ih h.2]
    simp [expectedFrom]; omega

/-- (i) the compile loop maps the words of a well-formed signature to the declared arguments -/
theorem compile_items_render (sig : Sig) (h : WF sig = true) :
    compileItems (sigItems sig) = .ok (expected sig) := by
  simp [compileItems, loop_sig sig h [] 0, expected]

/-- `Macro.arguments` compiles every well-formed signature of the grammar, spelled canonically, to exactly
the arguments it declares (any number of items, arbitrary names/types/delimiters) -/
theorem compile_render (sig : Sig) (h : WF sig = true) :
    compileArgs (renderSig sig) = .ok (expected sig) := by
  unfold compileArgs
  split
  · -- the rendered string is empty only for the empty signature
    rename_i he
    cases sig with
    | nil => rfl
    | cons x rest =>
      have := lex_render (x :: rest) h
      simp only [List.isEmpty_iff] at he
      rw [he] at this
      rw [← compile_items_render (x :: rest) h, ← this]
      rfl
  · rw [lex_render sig h, compile_items_render sig h]

/-! ### sanity of the specification: one argument per item, index = position -/
theorem expectedFrom_length (sig : Sig) : ∀ i, (expectedFrom i sig).length = sig.length := by
  induction sig with
  | nil => intro i; rfl
  | cons x r ih => intro i; simp [expectedFrom, ih]

theorem expectedArg_index (i : Nat) (x : SigItem) : (expectedArg i x).index = i := by
  cases x with
  | modifier m => rfl
  | equals => rfl
  | arg d n ty => cases ty <;> rfl

theorem expectedFrom_index (sig : Sig) : ∀ i k (hk : k < (expectedFrom i sig).length),
    ((expectedFrom i sig)[k]).index = i + k := by
  induction sig with
  | nil => intro i k hk; simp [expectedFrom] at hk
  | cons x r ih =>
    intro i k hk
    cases k with
    | zero => simp [expectedFrom, expectedArg_index]
    | succ k =>
      simp only [expectedFrom, List.getElem_cons_succ]
      rw [ih (i + 1) k (by simpa [expectedFrom] using hk)]
      omega

theorem expected_length (sig : Sig) : (expected sig).length = sig.length := expectedFrom_length sig 0
theorem expected_index (sig : Sig) (k : Nat) (hk : k < (expected sig).length) : ((expected sig)[k]).index = k := by
  have := expectedFrom_index sig 0 k hk
  rw [Nat.zero_add] at this
  exact this

/-! ### non-vacuity -/

/-- `* [ opt:dict(;) ] < arg1:str > name:list:int = ( p ) u:url c:cs` -/
def exSig : Sig :=
  [ .modifier .star,
    .arg .square [111, 112, 116] (some { ty := [100, 105, 99, 116], delim := some 59 }),
    .arg .angle [97, 114, 103, 49] (some { ty := [115, 116, 114] }),
    .arg .none [110, 97, 109, 101] (some { ty := [108, 105, 115, 116], sub := some [105, 110, 116] }),
    .equals,
    .arg .paren [112] none,
    .arg .none [117] (some { ty := [117, 114, 108] }),
    .arg .brace [99] (some { ty := [99, 115] }) ]

example : WF exSig = true := by decide
example : renderSig exSig =
    [42, 32, 91, 32, 111, 112, 116, 58, 100, 105, 99, 116, 40, 59, 41, 32, 93, 32, 60, 32, 97, 114, 103, 49, 58, 115,
     116, 114, 32, 62, 32, 110, 97, 109, 101, 58, 108, 105, 115, 116, 58, 105, 110, 116, 32, 61, 32, 40, 32, 112, 32,
     41, 32, 117, 58, 117, 114, 108, 32, 123, 32, 99, 58, 99, 115, 32, 125] := by decide
example : compileArgs (renderSig exSig) = .ok (expected exSig) := by rfl
example : (expected exSig).length = 8 := by decide
example : ((expected exSig).map (·.opts.expanded)) =
    [none, some true, some true, some true, none, some true, some true, some false] := by decide

/-! ### quirk: the colon cannot be a list delimiter
`name:list(:)` is inside the lexer's item (`\S` matches `:`), but `item.split(':')` then cuts the item into
`name`, `list(`, `)`: the type is `list`, the delimiter `None` and the subtype `)`.  This is why `wfDelimChar`
excludes 58. -/
example : compileArgs [97, 58, 108, 105, 115, 116, 40, 58, 41] =
    .ok [⟨[97], 0, { type := some [108, 105, 115, 116], delim := none, hasDelimKey := true,
                     subtype := some [41], expanded := some true }⟩] := by rfl

/-- ValueError cases: modifier inside a group, name starting with a digit / underscore -/
example : compileArgs [91, 32, 42, 32, 93] = .error .valueError := by rfl
example : compileArgs [49, 97] = .error .valueError := by rfl
example : compileArgs [95, 97] = .error .valueError := by rfl

end PlasVerif.Proofs.Signature

