/-!
# Spec vocabulary of C14: what it means for a link to land.

Written from the property text: the rendered output is a set of files, each with the identifiers of its
elements; a link names a file and optionally a fragment.  Generic in the type of file names and identifiers.
-/
namespace PlasVerif.Spec.Links

/-- rendered output: produced files with the element identifiers they contain (in order) -/
abbrev Output (F I : Type) := List (F × List I)

/-- a hyperlink: file named (`none` = names no file at all) and optional fragment -/
structure Link (F I : Type) where
  file : Option F
  frag : Option I

/-- the link names a file that was produced and, if it has a fragment, an element with that
    identifier in that file -/
def Lands {F I} (out : Output F I) (l : Link F I) : Prop :=
  ∃ f ids, l.file = some f ∧ (f, ids) ∈ out ∧ ∀ i, l.frag = some i → i ∈ ids

/-- element identifiers are unique within each file -/
def UniqueIds {F I} (out : Output F I) : Prop := ∀ p ∈ out, p.2.Nodup

/-- executable versions (used by the driver as the property oracle on model and implementation output) -/
def landsB {F I} [DecidableEq F] [DecidableEq I] (out : Output F I) (l : Link F I) : Bool :=
  match l.file with
  | none => false
  | some f => out.any (fun p => p.1 == f && (match l.frag with | none => true | some i => p.2.contains i))

def nodupB {I} [DecidableEq I] : List I → Bool
  | [] => true
  | x :: xs => !xs.contains x && nodupB xs

def uniqueIdsB {F I} [DecidableEq I] (out : Output F I) : Bool := out.all (fun p => nodupB p.2)

/-- every file of `out` is among `reached` (files named by the links of the start page's table of
    contents, plus the start page) -/
def allReachedB {F I} [DecidableEq F] (out : Output F I) (reached : List F) : Bool :=
  out.all (fun p => reached.contains p.1)

/-- reachability in the link graph of the output: `step f f'` = the page `f` carries a hyperlink to `f'` -/
inductive Reachable {F : Type} (start : F) (step : F → F → Prop) : F → Prop where
  | start : Reachable start step start
  | next {f f'} : Reachable start step f → step f f' → Reachable start step f'

/-! ### post-processing of a written page (`Renderer.processFileContent`)

The renderers rewrite the text of every file after the templates have run (empty paragraphs removed, empty
table cells filled, XHTML empty-tag syntax, high characters escaped).  Whatever that step does, the property
needs it to leave every identifier and every link alone: the identifiers and hrefs of the page, in order, are
those the templates emitted. -/

/-- pieces of a page as far as identifiers and links are concerned -/
inductive Piece where
  | tag (name : String)            -- an opening, closing or empty tag without id/href (`<p>`, `</p>`, `<td>`, `<br>` …)
  | ws | text
  | anchor (id : String)            -- `<a name=id id=id></a>`: the target of an index entry
  | elem (id : String)              -- an empty element carrying an id (`<span id=…></span>`)
  | link (href : String)            -- `<a href=…>text</a>`

def Piece.ids : Piece → List String
  | .anchor i => [i] | .elem i => [i] | _ => []
def Piece.hrefs : Piece → List String
  | .link h => [h] | _ => []

/-- identifiers / links a post-processed page must still have -/
def pageIds (ps : List Piece) : List String := ps.flatMap Piece.ids
def pageHrefs (ps : List Piece) : List String := ps.flatMap Piece.hrefs

end PlasVerif.Spec.Links
