import PlasVerif.Model.Render
/-!
Spec for C13, written from the property text (not from the code): a document is a tree of text leaves
and elements that carry a sectioning level; given a split level,

* a *unit* is an element whose level is at or above the split level (numerically `≤`),
* every unit is written to its own file; the file of a unit contains, in document order, the body text of
  the unit's *region* (its subtree without the subtrees of deeper units), footnote text excluded, followed
  by the footnote text of the region (one piece per footnote, in document order of the footnotes' ends: a
  footnote nested in another one comes before its host),
* so a piece of text belongs to the file of its nearest enclosing unit (`owners`),
* the unit names are the generator's answers to the units' requests, in document (pre-)order.

The tree type and the request record are shared with the model (`Model.Render.Tree`, `Req`).
-/
namespace PlasVerif.Spec.Split
open PlasVerif.Model.Render

/-- at or above the split level -/
def isUnit (split : Int) (a : Attrs) : Bool := decide (a.level ≤ split)

mutual
/-- all text of a subtree in document order -/
def texts : Tree → List Nat
  | .text m => [m]
  | .elem _ ks => textsL ks
  | .uni _ ks => textsL ks
def textsL : List Tree → List Nat
  | [] => []
  | t :: ts => texts t ++ textsL ts
end

mutual
/-- body text a subtree contributes to the enclosing unit's region: document order, stops at units and footnotes -/
def body (split : Int) : Tree → List Nat
  | .text m => [m]
  | .elem a ks => if isUnit split a || a.foot then [] else bodyL split ks
  | .uni _ _ => []         -- printed as its unicode equivalent: no text markers of its own
def bodyL (split : Int) : List Tree → List Nat
  | [] => []
  | t :: ts => body split t ++ bodyL split ts
end

mutual
/-- footnote text a subtree contributes to the enclosing unit's region: one piece per footnote, a footnote
    written inside another footnote being a footnote of its own that is listed before its host (it is complete
    first); the text of a footnote is its body text (it stops at deeper units and at nested footnotes) -/
def foot (split : Int) : Tree → List Nat
  | .text _ => []
  | .elem a ks => if isUnit split a then [] else if a.foot then footL split ks ++ bodyL split ks else footL split ks
  | .uni a ks => if isUnit split a then [] else footL split ks
def footL (split : Int) : List Tree → List Nat
  | [] => []
  | t :: ts => foot split t ++ footL split ts
end

/-- what the property prescribes for one unit -/
structure Unit where
  attrs : Attrs
  body : List Nat     -- body text of the region, document order
  foot : List Nat     -- footnote text of the region
  deriving Repr

mutual
/-- the units of a subtree in document (pre-)order -/
def units (split : Int) : Tree → List Unit
  | .text _ => []
  | .elem a ks =>
    if isUnit split a then ⟨a, bodyL split ks, footL split ks⟩ :: unitsL split ks else unitsL split ks
  | .uni a ks =>         -- (a name is requested for it like for any element; `wf` excludes it from the domain)
    if isUnit split a then ⟨a, bodyL split ks, footL split ks⟩ :: unitsL split ks else unitsL split ks
def unitsL (split : Int) : List Tree → List Unit
  | [] => []
  | t :: ts => units split t ++ unitsL split ts
end

mutual
/-- (text marker, tag of the nearest enclosing unit) for every text of the subtree; `cur` = the nearest
    unit above the subtree -/
def owners (split : Int) (cur : Nat) : Tree → List (Nat × Nat)
  | .text m => [(m, cur)]
  | .elem a ks => ownersL split (if isUnit split a then a.tag else cur) ks
  | .uni a ks => ownersL split (if isUnit split a then a.tag else cur) ks
def ownersL (split : Int) (cur : Nat) : List Tree → List (Nat × Nat)
  | [] => []
  | t :: ts => owners split cur t ++ ownersL split cur ts
end

mutual
/-- well-formed for the property: a footnote is not itself a sectioning unit (footnotes may be nested and may
    even contain units), and a node printed as its unicode equivalent (`uni`) is a leaf that is neither a unit nor
    a footnote -/
def wf (split : Int) : Tree → Bool
  | .text _ => true
  | .elem a ks => !(isUnit split a && a.foot) && wfL split ks
  | .uni a ks => !isUnit split a && !a.foot && ks.isEmpty     -- a leaf that is neither a unit nor a footnote
def wfL (split : Int) : List Tree → Bool
  | [] => true
  | t :: ts => wf split t && wfL split ts
end

mutual
/-- no unit inside a footnote (`inFoot` = the subtree lies inside a footnote) -/
def footFree (split : Int) (inFoot : Bool) : Tree → Bool
  | .text _ => true
  | .elem a ks => !(inFoot && isUnit split a) && footFreeL split (inFoot || a.foot) ks
  | .uni a ks => !(inFoot && isUnit split a) && footFreeL split (inFoot || a.foot) ks
def footFreeL (split : Int) (inFoot : Bool) : List Tree → Bool
  | [] => true
  | t :: ts => footFree split inFoot t && footFreeL split inFoot ts
end

/-- a `document` element: the only children of the document node that are rendered -/
def isDocRoot : Tree → Bool
  | .text _ => false
  | .elem a _ => a.level == DOCUMENT_LEVEL
  | .uni a _ => a.level == DOCUMENT_LEVEL

/-- the generator's answers to a sequence of requests -/
def run {σ ν} (g : Gen σ ν) : σ → List Req → Except Err (List ν × σ)
  | s, [] => .ok ([], s)
  | s, r :: rs =>
    match g.next s r with
    | .error e => .error e
    | .ok (n, s1) =>
      match run g s1 rs with
      | .error e => .error e
      | .ok (ns, s2) => .ok (n :: ns, s2)

/-- text markers of rendered output, in order -/
def textsOf : List Tok → List Nat
  | [] => []
  | .txt m :: r => m :: textsOf r
  | _ :: r => textsOf r

/-- what is observed of a written file: its name, the layout tag it opens with, its text in order -/
def summary {ν} (f : File ν) : ν × Option Tok × List Nat := (f.1, f.2.head?, textsOf f.2)

/-- what the property prescribes for the file of a unit with a given name -/
def expected {ν} (n : ν) (u : Unit) : ν × Option Tok × List Nat :=
  (n, some (.lop u.attrs.tag), u.body ++ u.foot)

/-- first half of the C15 guarantee the renderer relies on: whatever is requested, the names issued from
    state `s0` are pairwise distinct -/
def DistinctGen {σ ν} (g : Gen σ ν) (s0 : σ) : Prop :=
  ∀ reqs names s, run g s0 reqs = .ok (names, s) → names.Nodup

/-- second half: every issued name is clean (e.g. contains no forbidden character) -/
def CleanGen {σ ν} (g : Gen σ ν) (s0 : σ) (clean : ν → Prop) : Prop :=
  ∀ reqs names s, run g s0 reqs = .ok (names, s) → ∀ n ∈ names, clean n

/-- the C15 guarantee: distinct and clean -/
def GoodGen {σ ν} (g : Gen σ ν) (s0 : σ) (clean : ν → Prop) : Prop := DistinctGen g s0 ∧ CleanGen g s0 clean

/-- "contains none of the forbidden characters", for names that are strings -/
def noBadChars (bad : List Char) (n : String) : Prop := ∀ c ∈ n.toList, c ∉ bad

end PlasVerif.Spec.Split
