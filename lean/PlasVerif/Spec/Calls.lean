import PlasVerif.Model.Args
/-!
Spec for the delimiting clause of C05, written from the property text: a *call* gives, for every
argument of the signature, either the token list written at its position or nothing (an absent
optional argument); `renderCall` spells the call as the author writes it (blanks before an
argument, braces around a mandatory argument unless it is one character, the bracket pair around
an optional one, the modifier character itself); `wfCall` says the call conforms to the signature:
contents are balanced for their own delimiters and an absent optional argument is not followed
by its own opening character.
-/
namespace PlasVerif.Spec.Calls
open PlasVerif.Model.Numbers PlasVerif.Model.Args

structure ArgCall where
  spec : Spec
  pre : Nat                        -- blanks written before the argument
  content : Option (List Tok)      -- the value written; `none` = optional argument absent

def blanks (n : Nat) : List Tok := List.replicate n .sp

/-- brace depth after the tokens, `none` if a `}` closes more than was opened -/
def scan : Nat → List Tok → Option Nat
  | d, [] => some d
  | d, t :: ts =>
    if isBg t then scan (d + 1) ts
    else if isEg t then (match d with | 0 => none | d' + 1 => scan d' ts)
    else scan d ts

/-- the same for a bracket pair `b`/`e` -/
def scanP (b e : Nat) : Nat → List Tok → Option Nat
  | d, [] => some d
  | d, t :: ts =>
    if spells b t then scanP b e (d + 1) ts
    else if spells e t then (match d with | 0 => none | d' + 1 => scanP b e d' ts)
    else scanP b e d ts

/-- a mandatory argument that is one character or one control sequence (`\\foo x`, `\\foo\\alpha`, `\\foo\\ `) is written
    without braces -/
def isBare (ts : List Tok) : Bool :=
  match ts with
  | [.ch _] => true
  | [.cs _ false] => true
  | _ => false

def renderArg (a : ArgCall) : List Tok :=
  match a.content with
  | none => []
  | some ts =>
    blanks a.pre ++
    (match a.spec with
     | .tok => if isBare ts then ts else .bg false :: (ts ++ [.eg false])
     | .chr _ => ts
     | .pair b e => (if b = 123 then Tok.bg false else .ch b) :: (ts ++ [if e = 125 then Tok.eg false else .ch e]))

/-- the text of one argument as written, without the blanks in front of it: what the invocation records as its source -/
def argBody (a : ArgCall) : List Tok := renderArg ⟨a.spec, 0, a.content⟩

/-- the recorded source of the whole invocation (`argSource`): the arguments as written, blanks between them dropped -/
def callSource : List ArgCall → List Tok
  | [] => []
  | a :: as => argBody a ++ callSource as

def renderCall : List ArgCall → List Tok
  | [] => []
  | a :: as => renderArg a ++ renderCall as

def headSpells (c : Nat) : List Tok → Bool
  | [] => false
  | t :: _ => spells c t

def headEq (c : Nat) : List Tok → Bool
  | [] => false
  | t :: _ => eqChar c t

def wfArg (a : ArgCall) : Bool :=
  match a.spec, a.content with
  | .tok, some ts => scan 0 ts == some 0
  | .tok, none => false                                      -- a mandatory argument is always written
  | .chr c, some ts => ts == [.ch c]
  | .chr _, none => true
  | .pair b e, some ts => scanP b e 0 ts == some 0 && b != e && b != 32 && e != 32
  | .pair _ _, none => true

/-- conformance of a call followed by `rest` -/
def wfCall : List ArgCall → List Tok → Bool
  | [], _ => true
  | a :: as, rest =>
    wfArg a && wfCall as rest &&
    (match a.content, a.spec with
     | none, .chr c => !headEq c (readOptionalSpaces (renderCall as ++ rest))
     | none, .pair b _ => !headSpells b (readOptionalSpaces (renderCall as ++ rest))
     | _, _ => true)

/-- does the call end with an absent optional argument (then the blanks that follow are looked through) -/
def endsAbsent : List ArgCall → Bool
  | [] => false
  | a :: as => match as with
    | [] => a.content.isNone
    | _ :: _ => endsAbsent as

end PlasVerif.Spec.Calls
