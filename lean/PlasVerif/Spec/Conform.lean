import PlasVerif.Spec.Literals
/-!
Conformance predicates of the numeric clause of C05: when a literal of `Spec/Literals.lean` is *conforming* (well formed,
spelled with the right words in any letter case, within TeX's own range) and when the tokens that follow it *cannot
continue it*.  They are the explicit, decidable hypotheses of the theorems in `Properties/C05.lean`; the driver evaluates
them on every generated literal, so the harness checks that the generators produce conforming inputs.
-/
namespace PlasVerif.Spec.Conform
open PlasVerif.Model.Numbers PlasVerif.Spec.Literals

def noSp : List Tok → Bool
  | .sp :: _ => false
  | _ => true

/-- the stream does not start with a sign or a blank -/
def noSign : List Tok → Bool
  | .ch 43 :: _ => false
  | .ch 45 :: _ => false
  | .sp :: _ => false
  | _ => true

/-- the head cannot continue a run of characters satisfying `p` -/
def stops (p : Nat → Bool) : List Tok → Bool
  | .ch c :: _ => !p c
  | _ => true

def notReg : List Tok → Bool
  | .reg _ _ :: _ => false
  | _ => true

/-- the tokens after an integer literal cannot continue it -/
def intFollow (l : IntLit) (rest : List Tok) : Bool :=
  match l.body with
  | .dec _ => if l.space then notReg rest else stops isDigit rest && noSp rest && notReg rest
  | .oct _ => l.space || (stops isOct rest && noSp rest)
  | .hex _ => l.space || (stops isHex rest && noSp rest)
  | _ => true

def notSep : List Tok → Bool
  | .ch 46 :: _ => false
  | .ch 44 :: _ => false
  | _ => true

/-- the tokens after a decimal constant cannot continue it -/
def decFollow (d : DecBody) (rest : List Tok) : Bool :=
  match d.sep with
  | none => stops isDigit rest && notSep rest
  | some _ => stops isDigit rest && noSp rest

/-- the weaker follow condition: a blank may follow a fraction part (it is absorbed) -/
def decFollow' (d : DecBody) (rest : List Tok) : Bool :=
  match d.sep with
  | none => stops isDigit rest && notSep rest
  | some _ => stops isDigit rest

/-- spelled in any letter case -/
def sameWord (w name : List Nat) : Bool := w.map upper == name.map upper

/-- the stream after the spelled word does not continue a word whose next letter is `l`
    (a raw token — the matcher drops an already expanded element) -/
def restOK (l : Nat) : List Tok → Bool
  | [] => true
  | t :: _ => !isElem t && tokUpper t != some (upper l)

/-- the stream does not go on to spell the (rest of the) word `w` in any letter case — it cannot complete the keyword;
    the tokens looked at are raw (the matcher would drop an already expanded element) -/
def contOK : List Nat → List Tok → Bool
  | [], _ => false
  | _ :: _, [] => true
  | l :: ls, t :: ts => !isElem t && (if tokUpper t = some (upper l) then contOK ls ts else true)

/-- the unit is one of the table, spelled in any letter case; `true` likewise; a register multiple is in range -/
def unitWf (allowFil : Bool) (u : UnitLit) : Bool :=
  (match u.tru with | none => true | some (w, _) => sameWord w kwTrue) &&
  (match u.kind with
   | .phys i => (match texUnits[i]? with | some n => sameWord u.spelling n.1 | none => false)
   | .fil j => allowFil && (match filNames[j]? with | some n => sameWord u.spelling n.1 | none => false)
   | .reg v => decide (-2000000000 < (v : Rat) ∧ (v : Rat) < 2000000000))

/-- conforming dimension literal: well-formed constant and unit, value within TeX's own range (|x| < 2^30 sp < 2e9) -/
def dimWf (allowFil : Bool) (l : DimLit) : Bool :=
  (match l.body with
   | .inr _ => true
   | .inl d => d.wf && unitWf allowFil l.unit) &&
  decide (-2000000000 < l.den.amount ∧ l.den.amount < 2000000000)

/-- after `fil`/`fill` the text does not go on with an `l` -/
def filOK (l : DimLit) (R : List Tok) : Bool :=
  match l.body, l.unit.kind with
  | .inl _, .fil _ => restOK 108 (optSpace l.unit.space ++ R)
  | _, _ => true

/-- what follows cannot continue the literal -/
def dimFollow (l : DimLit) (R : List Tok) : Bool :=
  filOK l R &&
  (match l.body, l.unit.kind with
   | .inr _, _ => true
   | .inl _, .reg _ => true
   | .inl _, _ => l.unit.space || noSp R)

/-- rendering of a `plus`/`minus` part: blanks, the keyword in any case, the dimension -/
def pmRender (p : Option (Nat × List Nat × DimLit)) : List Tok :=
  match p with
  | none => []
  | some (k, w, d) => spaces k ++ w.map .ch ++ d.render

/-- what a `plus`/`minus` part asks of the literal and of what follows it -/
def pmWf (kw : List Nat) (p : Option (Nat × List Nat × DimLit)) : Bool :=
  match p with | none => true | some (_, w, d) => sameWord w kw && dimWf true d

def pmFollow (kw : List Nat) (p : Option (Nat × List Nat × DimLit)) (Y : List Tok) : Bool :=
  match p with | none => contOK kw (readOptionalSpaces Y) | some (_, _, d) => filOK d Y

/-- conforming glue literal: the dimension uses a physical unit or a register, the `plus`/`minus` parts are conforming
    dimensions (fil units allowed) behind their keyword in any letter case; a bare register is internal glue and takes
    no stretch/shrink (observation O8) -/
def glueWf (g : GlueLit) : Bool :=
  dimWf false g.dim &&
  (match g.dim.body with | .inr _ => g.plus.isNone && g.minus.isNone | .inl _ => true) &&
  pmWf kwPlus g.plus && pmWf kwMinus g.minus

/-- what follows cannot continue the glue: no blank, it does not spell a `plus`/`minus` that is not part of the literal,
    no `l` after `fil`/`fill` -/
def glueFollow (g : GlueLit) (R : List Tok) : Bool :=
  match g.dim.body with
  | .inr _ => true
  | .inl _ => noSp R && pmFollow kwPlus g.plus (pmRender g.minus ++ R) && pmFollow kwMinus g.minus R

end PlasVerif.Spec.Conform
