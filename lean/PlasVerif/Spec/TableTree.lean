import PlasVerif.Model.Arrays
import PlasVerif.Spec.ListTree
/-!
Spec vocabulary of C10 for tables (from the property text and the LaTeX manual, C.10.2):
column specifications as trees (`l c r`, `p{w}`, `|`, `@{..}`, `>{..}`, `*{n}{spec}`), their
spelling as tokens, and their meaning (the list of declared columns, each knowing whether a
vertical rule stands at its left / right); column positions of the cells of a row (a cell
starts at 1 + the spans of the cells before it); which cells a rule command marks.
-/
namespace PlasVerif.Spec.TableTree
open PlasVerif.Model.Lists PlasVerif.Model.Arrays PlasVerif.Spec.ListTree

mutual
inductive CItem where
  | col (c : Nat)                       -- a column letter without argument
  | pcol (c : Nat) (w : List Nat)       -- `p{width}` / `d{delim}`
  | bar                                 -- `|`
  | at_ (txt : List Nat)                -- `@{text}`
  | gt (txt : List Nat)                 -- `>{decl}`
  | star (digits : List Nat) (body : CSpec)   -- `*{n}{spec}`
inductive CSpec where
  | nil | cons (i : CItem) (rest : CSpec)
end

def chs (xs : List Nat) : List CTok := xs.map CTok.ch

mutual
def CItem.render : CItem → List CTok
  | .col c => [.ch c]
  | .pcol c w => .ch c :: .bg :: (chs w ++ [.eg])
  | .bar => [.ch 124]
  | .at_ t => .ch 64 :: .bg :: (chs t ++ [.eg])
  | .gt t => .ch 62 :: .bg :: (chs t ++ [.eg])
  | .star ds body => .ch 42 :: .bg :: (chs ds ++ .eg :: .bg :: (body.render ++ [.eg]))
def CSpec.render : CSpec → List CTok
  | .nil => []
  | .cons i rest => i.render ++ rest.render
end

def numVal (ds : List Nat) : Nat := ds.foldl (fun acc c => acc * 10 + (c - 48)) 0

/-- a `|` marks the right side of the column before it, or (before any column) the left side of the table -/
def barOn : List ColStyle × Bool → List ColStyle × Bool
  | ([], _) => ([], true)
  | (out, lb) => (setLastBr out, lb)

def iter {α} (f : α → α) : Nat → α → α
  | 0, a => a
  | n + 1, a => iter f n (f a)

mutual
/-- meaning of an item: effect on (columns so far, rule at the left edge) -/
def CItem.den : CItem → List ColStyle × Bool → List ColStyle × Bool
  | .col c, (out, lb) => (out ++ [⟨alignOf c, false, false⟩], lb)
  | .pcol c _, (out, lb) => (out ++ [⟨alignOf c, false, false⟩], lb)
  | .bar, st => barOn st
  | .at_ _, st => st
  | .gt _, st => st
  | .star ds body, st => iter (fun s => body.den s) (numVal ds) st
def CSpec.den : CSpec → List ColStyle × Bool → List ColStyle × Bool
  | .nil, st => st
  | .cons i rest, st => rest.den (i.den st)
end

/-- the declared columns; a rule at the left edge needs a first column to sit on -/
def CSpec.columns (s : CSpec) : Option (List ColStyle) :=
  match s.den ([], false) with
  | (out, false) => some out
  | ([], true) => none
  | (c :: cs, true) => some ({ c with bl := true } :: cs)

mutual
/-- number of columns a specification declares (`*{n}{..}` counts n times) -/
def CItem.count : CItem → Nat
  | .col _ => 1
  | .pcol _ _ => 1
  | .star ds body => numVal ds * body.count
  | _ => 0
def CSpec.count : CSpec → Nat
  | .nil => 0
  | .cons i rest => i.count + rest.count
end

mutual
/-- exact number of loop steps `compileColspec` needs -/
def CItem.cost : CItem → Nat
  | .star ds body => 1 + numVal ds * body.cost
  | _ => 1
def CSpec.cost : CSpec → Nat
  | .nil => 0
  | .cons i rest => i.cost + rest.cost
end

def isDigit (c : Nat) : Bool := 48 ≤ c && c ≤ 57
/-- a letter that is none of `| > < @ *`, and takes no argument -/
def plainLetter (c : Nat) : Bool :=
  c != 124 && c != 62 && c != 60 && c != 64 && c != 42 && !takesArg (.ch c)
def argLetter (c : Nat) : Bool := takesArg (.ch c)

mutual
def CItem.wf : CItem → Bool
  | .col c => plainLetter c
  | .pcol c _ => argLetter c
  | .star ds body => ds.all isDigit && body.wf
  | _ => true
def CSpec.wf : CSpec → Bool
  | .nil => true
  | .cons i rest => i.wf && rest.wf
end

/-- first column of each cell of a row, counting from `col` -/
def colStarts : Nat → List Nat → List Nat
  | _, [] => []
  | col, s :: ss => col :: colStarts (col + s) ss

/-- where a spanning cell starts and ends among the declared columns: a cell that starts at column
    `s` (0-based, the spans of the cells before it added up) and spans `n > 1` columns covers the
    declared columns `s .. s+n-1`, provided they exist -/
def linkSpec (ncols : Nat) (col : Nat) (cells : List CellR) : List (Option (Nat × Nat)) :=
  List.zipWith (fun (c : CellR) s =>
      if c.colspan.getD 0 > 1 ∧ s + c.colspan.getD 0 - 1 < ncols then some (s, s + c.colspan.getD 0 - 1) else none)
    cells (colStarts col (cells.map CellR.span))

/-- what a rule command means for a row: the cells whose first column lies in the span get the mark -/
def markRow (span : Option (Nat × Nat)) (loc : Loc) (col : Nat) (cells : List CellR) : List CellR :=
  List.zipWith (fun (c : CellR) s => if inSpan span s then c.mark loc else c) cells (colStarts col (cells.map CellR.span))



/-! ## which rows the rule commands of a table mark (on finished rows, any placement of rules) -/

/-- a content row: the rules written in it applied to itself (top for leading, bottom for
    trailing ones), then the styles of the declared columns -/
def ownRow (spec : List ColStyle) (r : RowR) : RowR := styleRow spec (applyRow walk r none r)

/-- rows in order, `cur` = the last content row seen (still collecting the rule-only rows that
    follow it): a rule-only row marks the BOTTOM of the nearest content row above it and
    disappears; without a content row above it just disappears; content rows keep their order -/
def specRows (spec : List ColStyle) : Option RowR → List RowR → List RowR
  | none, [] => []
  | some r, [] => [r]
  | cur, x :: rest =>
    if rowBorderOnly x then
      match cur with
      | none => specRows spec none rest
      | some r => specRows spec (some (applyRow walk x (some .bottom) r)) rest
    else cur.toList ++ specRows spec (some (ownRow spec x)) rest

/-- the whole table: a rule-only FIRST row (when more rows follow) marks the TOP of the second row -/
def specTable (spec : List ColStyle) : List RowR → List RowR
  | r0 :: r1 :: rest =>
    if rowBorderOnly r0 then specRows spec none (applyRow walk r0 (some .top) r1 :: rest)
    else specRows spec none (r0 :: r1 :: rest)
  | rows => specRows spec none rows

/-- the finished-cell record of a cell written as `b` (content at context depth `d`) -/
def writtenCell (d : Nat) (b : Blocks) : CellR := cellOf (.mk ⟨d, .cell⟩ (b.nodes d))

/-- the rows of a table as written: first cell, further cells of the first row, further rows -/
def writtenRows (d : Nat) (c : Blocks) (cs : Cells) (rs : Rows) : List RowR :=
  ((c :: cs.toList) :: rs.toList).map fun r => r.map (writtenCell d)

/-! ## what a written table means (rule normal form: `\hline`/`\cline` stand at the start of a
row, before its first cell's content, or alone in a row of their own) -/

def Blocks.toList' : Blocks → List Block
  | .nil => []
  | .cons b bs => b :: Blocks.toList' bs

def leafKind? : Block → Option Kind
  | .leaf k => some k
  | _ => none

def isBlank (b : Block) : Bool := match b with
  | .leaf .space => true | .leaf .par => true | _ => false
def isRule (b : Block) : Bool := match b with
  | .leaf .hline => true | .leaf (.cline _ _) => true | _ => false

/-- rules written at the start of a cell, and what follows them -/
def splitRules : List Block → List Block × List Block
  | [] => ([], [])
  | b :: bs =>
    if isBlank b then let (r, x) := splitRules bs; (r, x)
    else if isRule b then let (r, x) := splitRules bs; (b :: r, x)
    else ([], b :: bs)

def hasRule (bs : List Block) : Bool := bs.any fun b => isRule b || (match b with | .leaf .vline => true | _ => false)

structure CellObs where
  span : Nat
  marks : Marks
  style : ColStyle
  body : Blocks
  link : Option (Nat × Nat) := none   -- a spanning cell: first and last declared column it covers (0-based)

def lastMcol : List Block → Option (Nat × ColStyle)
  | [] => none
  | b :: bs => match lastMcol bs with
    | some r => some r
    | none => match b with
      | .leaf (.mcol n st _) => some (n, st)
      | _ => none

def ruleCovers (start : Nat) (b : Block) : Bool := match b with
  | .leaf .hline => true
  | .leaf (.cline a c) => a ≤ start && start ≤ c
  | _ => false

/-- a written row: its leading rules and its cells; `none` when it is outside the normal form -/
def rowParts (cells : List Blocks) : Option (List Block × Bool) :=
  match cells with
  | [] => none
  | c :: cs =>
    let (rules, rest) := splitRules (Blocks.toList' c)
    if hasRule rest || cs.any (fun x => hasRule (Blocks.toList' x)) then none
    else some (rules, rest.all isBlank && cs.all (fun x => (Blocks.toList' x).all isBlank))

def cellsObs (cols : List ColStyle) (top bottom : List Block) : Nat → List Blocks → List CellObs
  | _, [] => []
  | start, c :: cs =>
    let m := lastMcol (Blocks.toList' c)
    let span := (m.map (·.1)).getD 1
    let slice := (cols.drop (start - 1)).take span
    let style := slice.foldl (fun st s => styleUpdate st ((m.map (·.2)).getD s)) ⟨0, false, false⟩
    { span := span, marks := { top := top.any (ruleCovers start), bottom := bottom.any (ruleCovers start) },
      style := style, body := c,
      link := if span > 1 ∧ start - 1 + span - 1 < cols.length then some (start - 1, start - 1 + span - 1) else none } :: cellsObs cols top bottom (start + span) cs

/-- rules of the rule-only rows that directly follow -/
def followingRules : List (List Block × Bool × List Blocks) → List Block
  | [] => []
  | (rules, ruleOnly, _) :: rest => if ruleOnly then rules ++ followingRules rest else []

def denRows (cols : List ColStyle) : List (List Block × Bool × List Blocks) → List (List CellObs)
  | [] => []
  | (rules, ruleOnly, cells) :: rest =>
    if ruleOnly then denRows cols rest
    else cellsObs cols rules (followingRules rest) 1 cells :: denRows cols rest

/-- the rows a written table must yield, or `none` outside the normal form.  Rules standing alone
    in the first row belong to the top of the second row; rules alone in a later row to the bottom
    of the content row before them. -/
def denTable (cols : List ColStyle) (c : Blocks) (cs : Cells) (rs : Rows) : Option (List (List CellObs)) :=
  let rows := (c :: cs.toList) :: rs.toList
  match rows.mapM (fun r => (rowParts r).map fun (rules, ro) => (rules, ro, r)) with
  | none => none
  | some parts =>
    match parts with
    | (r0, true, c0) :: (r1, ro1, c1) :: rest => some (denRows cols (([], true, c0) :: (r0 ++ r1, ro1, c1) :: rest))
    | _ => some (denRows cols parts)

end PlasVerif.Spec.TableTree
