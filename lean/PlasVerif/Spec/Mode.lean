import PlasVerif.Model.Mode
/-!
Spec for the mode in which an argument is read: going from the outermost context inwards, every context that sets a mode
(a formula: math; a text box inside a formula: text) overrides what was in force; the document starts in text mode.
The argument is bound to what was written; TeX's text ligatures (`--`, `''`, …) apply in text mode only.
-/
namespace PlasVerif.Spec.Mode

def modeAfter (stack : List (Option Bool)) : Bool :=
  stack.foldl (fun acc m => match m with | some b => b | none => acc) false

end PlasVerif.Spec.Mode
