import PlasVerif.Model.Tokenizer
/-!
Spec for C11 (mathematics), written from the property text: the grammar of formulas the
property quantifies over — scripts, fractions, roots, delimiters, arrays, text boxes, groups,
symbols — with user macros already expanded; `toks`, the token sequence the author wrote
(blanks aside); `render`, one way of writing the formula down; and the verbatim vocabulary.

A formula is a sequence; every constructor carries the rest of the sequence (`rest`), so the
type is an ordinary (non-nested) inductive and all functions are structural.
An argument is `(braced, a)`: `{a}` when `braced`, else the single token `a`.
-/
namespace PlasVerif.Spec.MathFormula
open PlasVerif.Model.Tokenizer PlasVerif.Generated.Catcodes

inductive F where
  | nil
  | ch (c : Nat) (rest : F)                      -- ordinary character: letter, digit, operator, punctuation
  | sp (rest : F)                                -- a blank
  | sym (name : List Nat) (rest : F)             -- control word without argument: \alpha \to \quad \left-less delimiters …
  | csym (c : Nat) (rest : F)                    -- control symbol: \, \; \! \{ \} \| \\
  | grp (body : F) (rest : F)                    -- { body }
  | sup (braced : Bool) (a : F) (rest : F)       -- ^a  ^{a}
  | sub (braced : Bool) (a : F) (rest : F)       -- _a  _{a}
  | cmd1 (name : List Nat) (braced : Bool) (a : F) (rest : F)    -- \sqrt \mathrm \overline \hat \left \right \mbox \text \textbf …
  | cmd2 (name : List Nat) (b1 : Bool) (a1 : F) (b2 : Bool) (a2 : F) (rest : F)   -- \frac
  | root (o : F) (braced : Bool) (a : F) (rest : F)              -- \sqrt[o]{a}
  | math (body : F) (rest : F)                   -- $ body $ inside a text box
  | arr (spec : List Nat) (body : F) (rest : F)  -- \begin{array}{spec} body \end{array}; cells separated by `amp`, rows by `csym 92`
  | amp (rest : F)                               -- &
  deriving DecidableEq, Repr

def isLetter (c : Nat) : Bool := asciiLetters.contains c

/-- the characters a formula may contain as ordinary characters (all of category letter or other) -/
def mathChars : List Nat :=
  asciiLetters ++ [48, 49, 50, 51, 52, 53, 54, 55, 56, 57] ++
  -- ! " ' ( ) * + , - . / : ; < = > ? @ [ ] ` |
  [33, 34, 39, 40, 41, 42, 43, 44, 45, 46, 47, 58, 59, 60, 61, 62, 63, 64, 91, 93, 96, 124]

/-- characters allowed after the escape character in a control symbol: `\!  \,  \:  \;  \{  \}  \|  \\  \#  \$  \%  \&  \_  \ ` -/
def csymChars : List Nat := [33, 44, 58, 59, 123, 125, 124, 92, 35, 36, 37, 38, 95, 32]

def catOf (c : Nat) : Nat := if isLetter c then 11 else 12

def isName (n : List Nat) : Bool := !n.isEmpty && n.all isLetter

/-- an unbraced argument is exactly one token -/
def isSingle : F → Bool
  | .ch _ .nil => true
  | .sym _ .nil => true
  | .csym _ .nil => true
  | _ => false

def F.isNil : F → Bool
  | .nil => true
  | _ => false

/-- well-formedness of the lexical material (alphabets, names, single-token bare arguments, non-empty `$ $`) -/
def WF : F → Bool
  | .nil => true
  | .ch c r => mathChars.contains c && WF r
  | .sp r => WF r
  | .sym n r => isName n && WF r
  | .csym c r => csymChars.contains c && WF r
  | .grp b r => WF b && WF r
  | .sup br a r => WF a && (br || isSingle a) && WF r
  | .sub br a r => WF a && (br || isSingle a) && WF r
  | .cmd1 n br a r => isName n && WF a && (br || isSingle a) && WF r
  | .cmd2 n b1 a1 b2 a2 r => isName n && WF a1 && (b1 || isSingle a1) && WF a2 && (b2 || isSingle a2) && WF r
  | .root o br a r => WF o && WF a && (br || isSingle a) && WF r
  | .math b r => WF b && !b.isNil && WF r
  | .arr spec b r => spec.all mathChars.contains && WF b && !b.isNil && WF r
  | .amp r => WF r

def tLB : Tok := .ch 1 123
def tRB : Tok := .ch 2 125
def strBegin : List Nat := [98, 101, 103, 105, 110]
def strEnd : List Nat := [101, 110, 100]
def strArray : List Nat := [97, 114, 114, 97, 121]
def strSqrt : List Nat := [115, 113, 114, 116]
def strEquation : List Nat := [101, 113, 117, 97, 116, 105, 111, 110]

def chTok (c : Nat) : Tok := .ch (catOf c) c

def wrapT (braced : Bool) (t : List Tok) : List Tok := if braced then tLB :: t ++ [tRB] else t

/-- the tokens of the formula as the author wrote it, blanks aside -/
def toks : F → List Tok
  | .nil => []
  | .ch c r => chTok c :: toks r
  | .sp r => toks r
  | .sym n r => .cs n :: toks r
  | .csym c r => .cs [c] :: toks r
  | .grp b r => (tLB :: toks b ++ [tRB]) ++ toks r
  | .sup br a r => (.ch 7 94 :: wrapT br (toks a)) ++ toks r
  | .sub br a r => (.ch 8 95 :: wrapT br (toks a)) ++ toks r
  | .cmd1 n br a r => (.cs n :: wrapT br (toks a)) ++ toks r
  | .cmd2 n b1 a1 b2 a2 r => (.cs n :: (wrapT b1 (toks a1) ++ wrapT b2 (toks a2))) ++ toks r
  | .root o br a r => (.cs strSqrt :: (chTok 91 :: toks o ++ [chTok 93]) ++ wrapT br (toks a)) ++ toks r
  | .math b r => (.ch 3 36 :: toks b ++ [.ch 3 36]) ++ toks r
  | .arr spec b r =>
    (.cs strBegin :: (tLB :: strArray.map chTok ++ [tRB]) ++ (tLB :: spec.map chTok ++ [tRB]) ++ toks b ++
      (.cs strEnd :: tLB :: strArray.map chTok ++ [tRB])) ++ toks r
  | .amp r => .ch 4 38 :: toks r

def wrapR (braced : Bool) (s : List Nat) : List Nat := if braced then 123 :: s ++ [125] else s

/-- one way of writing the formula: a blank after every control word, none elsewhere -/
def render : F → List Nat
  | .nil => []
  | .ch c r => c :: render r
  | .sp r => 32 :: render r
  | .sym n r => (92 :: n ++ [32]) ++ render r
  | .csym c r => 92 :: c :: render r
  | .grp b r => (123 :: render b ++ [125]) ++ render r
  | .sup br a r => (94 :: wrapR br (render a)) ++ render r
  | .sub br a r => (95 :: wrapR br (render a)) ++ render r
  | .cmd1 n br a r => (92 :: n ++ 32 :: wrapR br (render a)) ++ render r
  | .cmd2 n b1 a1 b2 a2 r => (92 :: n ++ 32 :: (wrapR b1 (render a1) ++ wrapR b2 (render a2))) ++ render r
  | .root o br a r => (92 :: strSqrt ++ 91 :: render o ++ 93 :: wrapR br (render a)) ++ render r
  | .math b r => (36 :: render b ++ [36]) ++ render r
  | .arr spec b r =>
    (92 :: strBegin ++ 123 :: strArray ++ 125 :: 123 :: spec ++ 125 :: render b ++
      92 :: strEnd ++ 123 :: strArray ++ [125]) ++ render r
  | .amp r => 38 :: render r

/-- where the formula stands -/
inductive Kind where
  | inline      -- $ … $  and  \( … \)          → a `math` node
  | display     -- \[ … \]  and  $$ … $$        → a `displaymath` node
  | equation    -- \begin{equation} … \end{equation}
  deriving DecidableEq, Repr

/-- the tokens of the reconstructed source of the whole formula node: plasTeX's canonical delimiters
    (`$`, `\[ \]`, `\begin{equation}`) around the author's tokens -/
def topToks : Kind → F → List Tok
  | .inline, f => .ch 3 36 :: toks f ++ [.ch 3 36]
  | .display, f => .cs [91] :: toks f ++ [.cs [93]]
  | .equation, f =>
    (.cs strBegin :: tLB :: strEquation.map chTok ++ [tRB]) ++ toks f ++
      (.cs strEnd :: tLB :: strEquation.map chTok ++ [tRB])

/-- blanks aside -/
def stripBlanks (l : List Tok) : List Tok := l.filter (fun t => t != .space)

/-- what `mathjax_lt_gt` is allowed to do to one character -/
def angle (c : Nat) : List Nat :=
  if c = 60 then [92, 108, 116, 32] else if c = 62 then [92, 103, 116, 32] else [c]

/-- the mathematics classes whose HTML5 templates hand a payload to MathJax -/
def mathNodeClasses : List String := ["math", "displaymath", "equation", "eqnarray", "eqnarray*"]

def strLtName : List Nat := [108, 116]   -- "lt"
def strGtName : List Nat := [103, 116]   -- "gt"

/-- the formula with every ordinary `<` / `>` spelled `\lt` / `\gt` (what MathJax is meant to receive) -/
def ltgtF : F → F
  | .nil => .nil
  | .ch c r => if c = 60 then .sym strLtName (ltgtF r) else if c = 62 then .sym strGtName (ltgtF r) else .ch c (ltgtF r)
  | .sp r => .sp (ltgtF r)
  | .sym n r => .sym n (ltgtF r)
  | .csym c r => .csym c (ltgtF r)
  | .grp b r => .grp (ltgtF b) (ltgtF r)
  | .sup br a r => .sup br (ltgtF a) (ltgtF r)
  | .sub br a r => .sub br (ltgtF a) (ltgtF r)
  | .cmd1 n br a r => .cmd1 n br (ltgtF a) (ltgtF r)
  | .cmd2 n b1 a1 b2 a2 r => .cmd2 n b1 (ltgtF a1) b2 (ltgtF a2) (ltgtF r)
  | .root o br a r => .root (ltgtF o) br (ltgtF a) (ltgtF r)
  | .math b r => .math (ltgtF b) (ltgtF r)
  | .arr spec b r => .arr spec (ltgtF b) (ltgtF r)
  | .amp r => .amp (ltgtF r)

/-- a token of the author's formula as MathJax is meant to receive it -/
def angleTok : Tok → Tok
  | .ch cat c => if c = 60 then .cs strLtName else if c = 62 then .cs strGtName else .ch cat c
  | t => t

/-- array column specifications contain no angle characters (they are `l c r |`) -/
def specsNoAngle : F → Bool
  | .nil => true
  | .ch _ r => specsNoAngle r
  | .sp r => specsNoAngle r
  | .sym _ r => specsNoAngle r
  | .csym _ r => specsNoAngle r
  | .grp b r => specsNoAngle b && specsNoAngle r
  | .sup _ a r => specsNoAngle a && specsNoAngle r
  | .sub _ a r => specsNoAngle a && specsNoAngle r
  | .cmd1 _ _ a r => specsNoAngle a && specsNoAngle r
  | .cmd2 _ _ a1 _ a2 r => specsNoAngle a1 && specsNoAngle a2 && specsNoAngle r
  | .root o _ a r => specsNoAngle o && specsNoAngle a && specsNoAngle r
  | .math b r => specsNoAngle b && specsNoAngle r
  | .arr spec b r => spec.all (fun c => c != 60 && c != 62) && specsNoAngle b && specsNoAngle r
  | .amp r => specsNoAngle r

/-! ## verbatim vocabulary -/

/-- the end marker's first occurrence in `body ++ pat` is the final one: no proper prefix ends with it -/
def FirstIsFinal (pat body : List Nat) : Prop :=
  ∀ k, k < (body ++ pat).length → ¬ pat <:+ (body ++ pat).take k

instance (pat body : List Nat) : Decidable (FirstIsFinal pat body) := by
  unfold FirstIsFinal; exact Nat.decidableBallLT _ _

/-- the node classes whose text the property wants reproduced exactly: the verbatim environments, `\verb`, and the
    mathematics environments -/
def noSubstitutionClasses : List String :=
  ["verb", "verbatim", "verbatim*", "math", "displaymath", "equation", "eqnarray", "eqnarray*"]

/-- the closing delimiter of `\verb`: the delimiter itself (plasTeX pairs `{` with `}`) -/
def closing (d : Nat) : Nat := if d = 123 then 125 else d

end PlasVerif.Spec.MathFormula
